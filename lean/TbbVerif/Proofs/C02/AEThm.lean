/-
C02 / arena enqueue (`AE`): all invariants hold in every reachable state; consequences used by Props/C02.lean.
-/
import TbbVerif.Proofs.C02.AEProxy

set_option linter.unusedSimpArgs false

namespace TbbVerif.C02.AE
open TbbVerif.C02

structure AllInv (s : St) : Prop where
  sv : SInv s
  ac : Acc s
  bd : Bnd s
  wi : WInv s
  px : PX s

theorem step_all {s : St} (h : AllInv s) (t : Tid) : AllInv (AE.step s t) := by
  unfold AE.step
  split
  · rename_i th hth
    exact ⟨stepT_sinv h.sv hth, stepT_acc h.sv h.ac hth, stepT_bnd h.sv h.bd hth, stepT_winv h.sv h.wi hth, stepT_px h.bd h.px hth⟩
  · exact h

theorem sum_zero (f : Thr → Int) (l : List Thr) (h : ∀ th ∈ l, f th = 0) : (l.map f).sum = 0 := by
  induction l with
  | nil => rfl
  | cons a l ih =>
    simp only [List.map_cons, List.sum_cons]
    rw [h a (by simp), ih (fun th hth => h th (by simp [hth]))]; rfl

theorem tsum_zero (f : Thr → Int) (s : St) (h : ∀ th ∈ s.thr, f th = 0) : tsum f s = 0 := sum_zero f s.thr h

theorem init_thr (W soft0 : Nat) (progs : List (List Op)) (i : Nat) (th : Thr) (h : (AE.init W soft0 progs).thr[i]? = some th) :
    ∃ p, th = { ops := p } := by
  simp only [AE.init, List.getElem?_map, Option.map_eq_some_iff] at h
  obtain ⟨p, _, e⟩ := h; exact ⟨p, e.symm⟩

theorem init_pub (ps cs ts : List Nat) (i : Nat) (p : Flag.Pub) (h : (Flag.init ps cs ts).pubs[i]? = some p) :
    p.inflight = false ∧ p.pc = .pub := by
  simp only [Flag.init, List.getElem?_map, Option.map_eq_some_iff] at h
  obtain ⟨n, _, e⟩ := h; subst e; simp [Flag.Pub.inflight]

theorem init_all (W soft0 : Nat) (progs : List (List Op)) : AllInv (AE.init W soft0 progs) := by
  have hmem : ∀ th ∈ (AE.init W soft0 progs).thr, th.pc = .idle ∧ th.md = 0 ∧ th.wv = 0 := by
    intro th hth
    obtain ⟨i, hi⟩ := List.getElem?_of_mem hth
    obtain ⟨p, e⟩ := init_thr W soft0 progs i th hi
    subst e; exact ⟨rfl, rfl, rfl⟩
  refine ⟨?_, ?_, ?_, ?_, ?_⟩
  · refine ⟨Flag.init_inv _ _ _, Flag.init_inv _ _ _, by simp [AE.init, Flag.init], by simp [AE.init, Flag.init], ?_, ?_, ?_, ?_⟩
    · intro i th h; obtain ⟨p, e⟩ := init_thr W soft0 progs i th h; subst e; simp [PcOp]
    · intro i p th hp _ hin; rw [(init_pub _ _ _ i p hp).1] at hin; cases hin
    · intro i p th hp _ hin; rw [(init_pub _ _ _ i p hp).1] at hin; cases hin
    · intro i p th _ h e; obtain ⟨q, e'⟩ := init_thr W soft0 progs i th h; subst e'; cases e
  · refine ⟨?_, ?_, ?_, ?_, ?_, ?_, ?_⟩
    · rw [tsum_zero pendM _ (fun th hth => by simp [pendM, (hmem th hth).1, (hmem th hth).2.1])]; simp [AE.init, Flag.init]
    · rw [tsum_zero pendP _ (fun th hth => by simp [pendP, (hmem th hth).1, (hmem th hth).2.1])]; simp [AE.init, Flag.init]
    · rw [tsum_zero pendV _ (fun th hth => by simp [pendV, (hmem th hth).1, (hmem th hth).2.2])]; simp [AE.init, Flag.init]
    · simp [AE.init]; by_cases hW : W = 0 <;> simp [hW]
    · simp [AE.init, clampI]; omega
    · intro i th h; obtain ⟨p, e⟩ := init_thr W soft0 progs i th h; subst e; simp
    · intro h; simp [AE.init, Flag.init] at h
  · intro i th h; obtain ⟨p, e⟩ := init_thr W soft0 progs i th h; subst e; simp [BndT]
  · refine ⟨by simp [AE.init, Flag.init], ?_, ?_, ?_, by simp [AE.init, Flag.init]⟩
    · intro i th h; obtain ⟨p, e⟩ := init_thr W soft0 progs i th h; subst e
      simp [AE.init, Flag.init, pubLeft]
    · intro i p th _ h e; obtain ⟨q, e'⟩ := init_thr W soft0 progs i th h; subst e'; cases e
    · intro i p th _ h e; obtain ⟨q, e'⟩ := init_thr W soft0 progs i th h; subst e'; cases e
  · refine ⟨by simp [AE.init], by simp [AE.init], ?_⟩
    intro _ h; simp [AE.init] at h

theorem reach_all (W soft0 : Nat) (progs : List (List Op)) (sched : List Tid) : AllInv ((AE.sys W soft0 progs).run sched) :=
  Sys.inv_run (AE.sys W soft0 progs) AllInv (init_all W soft0 progs) (fun _ t h => step_all h t) sched

/-! ### consequences -/

theorem sum_nonpos (f : Thr → Int) (l : List Thr) (h : ∀ th ∈ l, f th ≤ 0) : (l.map f).sum ≤ 0 := by
  induction l with
  | nil => simp
  | cons a l ih =>
    simp only [List.map_cons, List.sum_cons]
    have := h a (by simp); have := ih (fun th hth => h th (by simp [hth])); omega

theorem tsum_nonpos (f : Thr → Int) (s : St) (h : ∀ th ∈ s.thr, f th ≤ 0) : tsum f s ≤ 0 := sum_nonpos f s.thr h

/-- with no `enqueue` in progress both flags' publishers are at rest -/
theorem nAll_zero {f : Flag.St} (h : ∀ (i : Nat) (p : Flag.Pub), f.pubs[i]? = some p → p.inflight = false) : Flag.nAll f = 0 := by
  unfold Flag.nAll
  rw [List.countP_eq_zero]
  intro p hp
  obtain ⟨i, hi⟩ := List.getElem?_of_mem hp
  rw [h i p hi]; simp

end TbbVerif.C02.AE

namespace TbbVerif.C02.AE
open TbbVerif.C02

/-- a thread that is not inside an `enqueue` holds no positive delta -/
theorem not_adv_nonpos {s : St} (h : AllInv s) {i : Nat} {th : Thr} (hth : s.thr[i]? = some th) (hq : th.advertising = false) :
    th.md ≤ 0 ∧ th.wv ≤ 0 := by
  obtain ⟨s1, s2, s3, s4⟩ := h.ac.sg i th hth
  have hpo := h.sv.pcop i th hth
  by_cases hidle : th.pc = .idle
  · have := s1 (Or.inl hidle); omega
  · have hk : th.kind ≠ some .enq := by
      intro e; simp [Thr.advertising, hidle, e] at hq
    unfold PcOp at hpo
    cases hpc : th.pc <;> simp only [hpc] at hpo hidle
    case idle => exact absurd trivial hidle
    case tTake => have := s1 (Or.inr hpc); omega
    all_goals first
      | exact absurd hpo hk
      | exact s2 hpo
      | (rcases hpo.1 with e | e
         · exact absurd e hk
         · exact s2 e)

theorem mul_ge_of_one_le (W : Nat) (x : Int) (hx : 1 ≤ x) (hW : W ≠ 0) : (1 : Int) ≤ (W : Int) * x := by
  have h1 : (0 : Int) ≤ (W : Int) * (x - 1) := Int.mul_nonneg (Int.natCast_nonneg W) (by omega)
  have h2 : (W : Int) * x = (W : Int) * (x - 1) + W := by rw [Int.mul_sub, Int.mul_one]; omega
  have h3 : (1 : Int) ≤ (W : Int) := by omega
  omega

/-- the statement of `arena_enqueue_mandatory` over the invariants -/
theorem enqueue_demand {s : St} (h : AllInv s) (hq : ∀ (i : Nat) (th : Thr), s.thr[i]? = some th → th.advertising = false)
    (hf : 0 < s.fm.work) :
    s.fm.flag ≠ 0 ∧ s.fp.flag ≠ 0 ∧ 1 ≤ s.mandReq ∧ 1 ≤ s.totalReq ∧ s.minW = 1 ∧ 1 ≤ s.maxW ∧ 1 ≤ s.numMand ∧
    1 ≤ s.soft ∧ (s.soft0 = 0 → s.enabled = true) ∧ 1 ≤ s.wakeups := by
  have hthr : ∀ (i : Nat) (f : Flag.St), f.pubs.length = s.thr.length → ∀ p, f.pubs[i]? = some p → ∃ th, s.thr[i]? = some th := by
    intro i f hl p hp
    have := Flag.getElem?_lt' hp
    exact ⟨s.thr[i]'(by omega), List.getElem?_eq_getElem _⟩
  have hnm : ∀ (i : Nat) (p : Flag.Pub), s.fm.pubs[i]? = some p → p.inflight = false := by
    intro i p hp
    obtain ⟨th, hth⟩ := hthr i s.fm h.sv.lenM p hp
    cases hin : p.inflight
    · rfl
    · have hpc := h.sv.lm i p th hp hth hin
      have hpo := h.sv.pcop i th hth
      have := hq i th hth
      rcases hpc with e | e <;> (unfold PcOp at hpo; simp only [e] at hpo; simp [Thr.advertising, e, hpo] at this)
  have hnp : ∀ (i : Nat) (p : Flag.Pub), s.fp.pubs[i]? = some p → p.inflight = false := by
    intro i p hp
    obtain ⟨th, hth⟩ := hthr i s.fp h.sv.lenP p hp
    cases hin : p.inflight
    · rfl
    · have hpc := h.sv.lp i p th hp hth hin
      have hpo := h.sv.pcop i th hth
      have := hq i th hth
      rcases hpc with e | e | e <;> (unfold PcOp at hpo; simp only [e] at hpo; simp [Thr.advertising, e, hpo] at this)
  have hfm : s.fm.flag ≠ 0 := by
    intro e; have := h.sv.fm.a e; rw [nAll_zero hnm] at this; omega
  have hfp : s.fp.flag ≠ 0 := by
    intro e; have := h.sv.fp.a e; rw [nAll_zero hnp] at this; have := h.wi.wle; omega
  have dm := h.sv.fm.d; have dp := h.sv.fp.d
  simp only [hfm, hfp, if_false] at dm dp
  have hM : tsum pendM s ≤ 0 := tsum_nonpos _ _ (fun th hth => by
    obtain ⟨i, hi⟩ := List.getElem?_of_mem hth
    have := (not_adv_nonpos h hi (hq i th hi)).1
    unfold pendM; split <;> omega)
  have hP : tsum pendP s ≤ 0 := tsum_nonpos _ _ (fun th hth => by
    obtain ⟨i, hi⟩ := List.getElem?_of_mem hth
    have := (not_adv_nonpos h hi (hq i th hi)).1
    unfold pendP; split <;> omega)
  have hV : tsum pendV s ≤ 0 := tsum_nonpos _ _ (fun th hth => by
    obtain ⟨i, hi⟩ := List.getElem?_of_mem hth
    have := (not_adv_nonpos h hi (hq i th hi)).2
    unfold pendV; split <;> omega)
  have a1 := h.ac.a1; have a2 := h.ac.a2; have a3 := h.ac.a3
  have hmr : 1 ≤ s.mandReq := by omega
  have hnmnd : 1 ≤ s.numMand := by omega
  have hwa : 1 ≤ s.wvApplied := by omega
  have htr : 1 ≤ s.totalReq := by
    rw [h.ac.tot]
    by_cases hW : s.W = 0
    · simp [hW]; exact hmr
    · simp only [hW, if_false]; have := mul_ge_of_one_le s.W s.wvApplied hwa hW; omega
  obtain ⟨hmin, hmax⟩ := h.ac.mw
  have hmin1 : s.minW = 1 := by rw [hmin]; simp; omega
  have hmax1 : 1 ≤ s.maxW := by
    rw [hmax, hmin1]; unfold clampI
    by_cases hW : s.W = 0
    · simp [hW]; split <;> omega
    · simp [hW]; split <;> (try split) <;> omega
  -- the proxy: nobody is between the counter crossing 0 -> 1 and the enable check
  have hen : s.soft0 = 0 → s.enabled = true := by
    intro h0
    cases he : s.enabled
    · exfalso
      obtain ⟨i, th, hi, hpc, hmd⟩ := h.px.p3 h0 (by omega) he
      have := (not_adv_nonpos h hi (hq i th hi)).1
      omega
    · rfl
  have hsoft : 1 ≤ s.soft := by
    cases he : s.enabled
    · have := h.px.p2 he
      by_cases h0 : s.soft0 = 0
      · have := hen h0; rw [he] at this; cases this
      · omega
    · have := (h.px.p1 he).2; omega
  have hwk : 1 ≤ s.wakeups := by
    rcases h.ac.wk (by omega) with w | ⟨i, th, hi, hmd⟩
    · exact w
    · have := (not_adv_nonpos h hi (hq i th hi)).1; omega
  exact ⟨hfm, hfp, hmr, htr, hmin1, hmax1, hnmnd, hsoft, hen, hwk⟩

end TbbVerif.C02.AE
