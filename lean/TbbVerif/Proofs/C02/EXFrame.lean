/-
C02 / Monitor embedded in task_arena::execute: what one Monitor step does to the stepping sleeper's own record
(`nextS`), and what a notifier's step leaves alone in every sleeper's record (`Sleeper.core`).
-/
import TbbVerif.Proofs.C02.MonFrame

namespace TbbVerif.C02

/-- the part of a sleeper's record that only the sleeper itself writes -/
def Sleeper.core (sl : Sleeper) : SPc × List WOp × Bool × Nat × Bool × List Nat :=
  (sl.pc, sl.ops, sl.again, sl.nepoch, sl.skipped, sl.results)

/-- a notifier's step changes no sleeper's program counter, program, `again`, node epoch, skipped flag or results -/
theorem stepN_slp_core (s : St) (j : Nat) (n : Notifier) (k : Nat) (sl' : Sleeper)
    (h : (stepN s j n).slp[k]? = some sl') : ∃ sl0, s.slp[k]? = some sl0 ∧ sl'.core = sl0.core := by
  have same : ∀ (s' : St) (n' : Notifier), (s'.setN j n').slp[k]? = some sl' → s'.slp = s.slp →
      ∃ sl0, s.slp[k]? = some sl0 ∧ sl'.core = sl0.core := by
    intro s' n' h2 h1
    have : (s'.setN j n').slp = s.slp := h1
    rw [this] at h2; exact ⟨sl', h2, rfl⟩
  have viaMod : ∀ (x : Nat) (f : Sleeper → Sleeper) (n' : Notifier),
      ((modS s x f).setN j n').slp[k]? = some sl' → (∀ m, (f m).core = m.core) →
      ∃ sl0, s.slp[k]? = some sl0 ∧ sl'.core = sl0.core := by
    intro x f n' h2 hf
    have : ((modS s x f).setN j n').slp = (modS s x f).slp := rfl
    rw [this] at h2
    rcases modS_get_cases h2 with ⟨e, m, h3, h4⟩ | ⟨_, h3⟩
    · subst e; exact ⟨m, h3, by rw [h4, hf m]⟩
    · exact ⟨sl', h3, rfl⟩
  unfold stepN at h
  split at h
  · exact ⟨sl', h, rfl⟩
  · dsimp only at h
    split at h
    all_goals (try (split at h))
    all_goals (try (split at h))
    all_goals first
      | exact ⟨sl', h, rfl⟩
      | exact same _ _ h rfl
      | exact viaMod _ _ _ h (fun _ => rfl)

/-- the stepping sleeper's new record -/
def nextS (s : St) (sl : Sleeper) : Sleeper :=
  if sl.ops.isEmpty then sl else
  match sl.pc with
  | .init => { sl with pc := .storeIn }
  | .pump => if sl.sem = 0 then sl else { sl with sem := sl.sem - 1, skipped := false, pc := .storeIn }
  | .storeIn => { sl with inList := true, pc := .lock }
  | .lock => if s.lock.isSome then sl else { sl with pc := .epoch }
  | .epoch => { sl with nepoch := s.epoch, pc := .add }
  | .add => { sl with pc := .unlock }
  | .unlock => { sl with pc := .fence }
  | .fence => { sl with pc := .check }
  | .check => if s.cond sl.cond then { sl with again := false, pc := .cLoad } else { sl with pc := .commit }
  | .commit => if sl.nepoch = s.epoch then { sl with pc := .park } else { sl with again := true, pc := .cLoad }
  | .park => if sl.sem = 0 then sl else ({ sl with sem := sl.sem - 1 }.finish (if sl.aborted then 2 else 1))
  | .cLoad => if sl.inList then { sl with skipped := true, pc := .cLock } else ({ sl with skipped := true }.afterCancel)
  | .cLock => if s.lock.isSome then sl else { sl with pc := .cChk }
  | .cChk => { sl with pc := if sl.inList then .cRemove else .cUnlock }
  | .cRemove => { sl with pc := .cMark }
  | .cMark => { sl with inList := false, skipped := false, pc := .cUnlock }
  | .cUnlock => sl.afterCancel
  | .dtor => if sl.sem = 0 then sl else { sl with sem := sl.sem - 1 }.fresh

theorem stepS_own (s : St) (i : Nat) (sl : Sleeper) (hi : s.slp[i]? = some sl) :
    (stepS s i sl).slp[i]? = some (nextS s sl) := by
  have hlt := getElem?_lt hi
  unfold stepS nextS
  split
  · exact hi
  · split <;> (repeat' split) <;> simp_all [St.setS, List.getElem?_set]

/-- lengths of the tables -/
theorem step_len (m : St) (t : Tid) : (step m t).slp.length = m.slp.length ∧ (step m t).ntf.length = m.ntf.length := by
  unfold step
  split
  · split
    · rename_i sl _
      have := stepS_frame m t sl
      exact ⟨this.2.2, by rw [this.1]⟩
    · exact ⟨rfl, rfl⟩
  · split
    · rename_i n hn
      have := stepN_frame m _ n hn
      exact ⟨this.2.1, this.1⟩
    · exact ⟨rfl, rfl⟩

/-- a sleeper's step leaves the epoch alone -/
theorem stepS_epoch (s : St) (i : Nat) (sl : Sleeper) : (stepS s i sl).epoch = s.epoch := by
  unfold stepS
  split
  · rfl
  · split <;> (repeat' split) <;> rfl

def preScan : SPc → Bool
  | .init | .pump | .storeIn | .lock | .epoch | .add | .unlock | .fence | .check => true
  | _ => false

def cancelSet : SPc → Bool
  | .cLoad | .cLock | .cChk | .cRemove | .cMark | .cUnlock => true
  | _ => false

theorem finish_cases (m : Sleeper) (r : Nat) :
    ((m.finish r).pc = .dtor ∧ (m.finish r).ops = m.ops ∧ (m.finish r).results = r :: m.results) ∨
    ((m.finish r).pc = .init ∧ (m.finish r).ops = m.ops.tail ∧ (m.finish r).results = r :: m.results) := by
  unfold Sleeper.finish; split
  · exact Or.inl ⟨rfl, rfl, rfl⟩
  · exact Or.inr ⟨rfl, rfl, rfl⟩

theorem afterCancel_cases (m : Sleeper) :
    (m.again = true ∧ (m.afterCancel.pc = .pump ∨ m.afterCancel.pc = .storeIn) ∧ m.afterCancel.ops = m.ops ∧
      m.afterCancel.again = true) ∨
    (m.again = false ∧ m.afterCancel = m.finish 0) := by
  unfold Sleeper.afterCancel
  cases h : m.again
  · right; simp
  · left; simp

theorem finish_pc (m : Sleeper) (r : Nat) : (m.finish r).pc = .dtor ∨ ((m.finish r).pc = .init ∧ (m.finish r).ops = m.ops.tail) := by
  rcases finish_cases m r with h | h
  · exact Or.inl h.1
  · exact Or.inr ⟨h.1, h.2.1⟩

theorem afterCancel_pc (m : Sleeper) :
    (m.again = true ∧ (m.afterCancel.pc = .pump ∨ m.afterCancel.pc = .storeIn)) ∨
    (m.again = false ∧ (m.afterCancel.pc = .dtor ∨ (m.afterCancel.pc = .init ∧ m.afterCancel.ops = m.ops.tail))) := by
  rcases afterCancel_cases m with h | h
  · exact Or.inl ⟨h.1, h.2.1⟩
  · right; refine ⟨h.1, ?_⟩; rw [h.2]; exact finish_pc m 0

/-- into the pre-scan part of `prepare_wait` only from within it, by a new round (`pump` / `storeIn`), or by returning -/
theorem nextS_preScan (s : St) (sl : Sleeper) (h : preScan (nextS s sl).pc = true)
    (h1 : (nextS s sl).pc ≠ .pump) (h2 : (nextS s sl).pc ≠ .storeIn) :
    preScan sl.pc = true ∨ ((nextS s sl).pc = .init ∧ (nextS s sl).ops = sl.ops.tail) := by
  unfold nextS at h h1 h2 ⊢
  split at h
  · exact Or.inl h
  · rename_i hne
    simp only [hne, if_false, Bool.false_eq_true] at h1 h2 ⊢
    cases hpc : sl.pc <;> simp only [hpc] at h h1 h2 ⊢ <;> (try (exact Or.inl rfl))
    all_goals (try simp only [Sleeper.finish, Sleeper.afterCancel, Sleeper.fresh] at h h1 h2 ⊢)
    all_goals (repeat' split)
    all_goals simp_all [preScan]

/-- `park` is entered from `commit` only -/
theorem nextS_park (s : St) (sl : Sleeper) (h : (nextS s sl).pc = .park) : sl.pc = .commit ∨ sl.pc = .park := by
  unfold nextS at h
  split at h
  · exact Or.inr h
  · cases hpc : sl.pc <;> simp only [hpc] at h <;> (try (exact Or.inl rfl)) <;> (try (exact Or.inr rfl))
    all_goals (try simp only [Sleeper.finish, Sleeper.afterCancel, Sleeper.fresh] at h)
    all_goals (repeat' split at h)
    all_goals simp_all

/-- a `cancel_wait` entered with `again = false` (true predicate / the slot was taken) runs to the end of `wait()` -/
theorem nextS_cancel (s : St) (sl : Sleeper) (hc : cancelSet sl.pc = true) (ha : sl.again = false) :
    (cancelSet (nextS s sl).pc = true ∧ (nextS s sl).again = false) ∨ (nextS s sl).pc = .dtor ∨
    ((nextS s sl).pc = .init ∧ (nextS s sl).ops = sl.ops.tail) := by
  have hac : ∀ (m : Sleeper), m.again = false → m.ops = sl.ops →
      (cancelSet m.afterCancel.pc = true ∧ m.afterCancel.again = false) ∨ m.afterCancel.pc = .dtor ∨
      (m.afterCancel.pc = .init ∧ m.afterCancel.ops = sl.ops.tail) := by
    intro m hm ho
    rcases afterCancel_pc m with ⟨e, _⟩ | ⟨_, e | ⟨e1, e2⟩⟩
    · rw [hm] at e; cases e
    · exact Or.inr (Or.inl e)
    · exact Or.inr (Or.inr ⟨e1, by rw [e2, ho]⟩)
  unfold nextS
  split
  · exact Or.inl ⟨hc, ha⟩
  · cases hpc : sl.pc <;> rw [hpc] at hc <;> simp only [cancelSet] at hc <;> (try (cases hc)) <;> simp only []
    · -- cLoad
      split
      · exact Or.inl ⟨rfl, ha⟩
      · exact hac _ ha rfl
    · -- cLock
      split
      · exact Or.inl ⟨by rw [hpc]; rfl, ha⟩
      · exact Or.inl ⟨rfl, ha⟩
    · -- cChk
      split
      · exact Or.inl ⟨rfl, ha⟩
      · exact Or.inl ⟨rfl, ha⟩
    · exact Or.inl ⟨rfl, ha⟩
    · exact Or.inl ⟨rfl, ha⟩
    · exact hac _ ha rfl

theorem nextS_ops (s : St) (sl : Sleeper) : (nextS s sl).ops = sl.ops ∨ (nextS s sl).ops = sl.ops.tail := by
  unfold nextS
  split
  · exact Or.inl rfl
  · cases hpc : sl.pc <;> simp only
    all_goals (try simp only [Sleeper.finish, Sleeper.afterCancel, Sleeper.fresh])
    all_goals (repeat' split)
    all_goals (first | (left; rfl) | (right; rfl) | simp_all)

/-- the node destructor's step -/
theorem nextS_dtor (s : St) (sl : Sleeper) (h : sl.pc = .dtor) :
    nextS s sl = sl ∨ ((nextS s sl).pc = .init ∧ (nextS s sl).ops = sl.ops.tail) := by
  unfold nextS
  split
  · exact Or.inl rfl
  · simp only [h]
    split
    · exact Or.inl rfl
    · exact Or.inr ⟨rfl, rfl⟩

/-- the first step of a `wait()` -/
theorem nextS_init (s : St) (sl : Sleeper) (h : sl.pc = .init) (hne : sl.ops ≠ []) : nextS s sl = { sl with pc := .storeIn } := by
  unfold nextS
  rw [if_neg (by simpa using hne)]
  simp only [h]

/-! ### epoch and wait set under one step -/

/-- only the `epoch` access of a notifier changes `my_epoch` (by one) -/
theorem stepN_epoch (s : St) (j : Nat) (n : Notifier) :
    (stepN s j n).epoch = s.epoch ∨ (n.pc = .epoch ∧ n.ops ≠ [] ∧ (stepN s j n).epoch = s.epoch + 1) := by
  have hm : ∀ (y : Nat) (f : Sleeper → Sleeper), (modS s y f).epoch = s.epoch := by
    intro y f; unfold modS; cases s.slp[y]? <;> rfl
  unfold stepN
  split
  · exact Or.inl rfl
  · rename_i hne
    have hne' : n.ops ≠ [] := by intro e; rw [e] at hne; simp at hne
    dsimp only
    by_cases hpc : n.pc = .epoch
    · right; refine ⟨hpc, hne', ?_⟩; rw [hpc]; simp only [St.setN]
    · left
      cases hpc' : n.pc <;> simp only []
      case epoch => exact absurd hpc' hpc
      all_goals (repeat' split)
      all_goals first
        | rfl
        | simp only [St.setN, St.setCond, hm]

theorem stepN_epoch_le (s : St) (j : Nat) (n : Notifier) : s.epoch ≤ (stepN s j n).epoch := by
  rcases stepN_epoch s j n with e | ⟨_, _, e⟩ <;> rw [e] <;> omega

/-- the pending (not yet locked) part of a notification -/
def preBump (n : Notifier) : Bool :=
  !n.ops.isEmpty && (n.pc == .fence || n.pc == .test || n.pc == .lock || n.pc == .epoch)

theorem preBump_of {n : Notifier} (hne : n.ops.isEmpty = false)
    (h : n.pc = .fence ∨ n.pc = .test ∨ n.pc = .lock ∨ n.pc = .epoch) : preBump n = true := by
  unfold preBump
  rcases h with h | h | h | h <;> simp [hne, h]

/-- before the epoch bump a notifier's step changes neither epoch nor wait set; it stays before the bump unless its
emptiness test saw an empty wait set -/
theorem stepN_preBump (s : St) (j : Nat) (n : Notifier) (hj : s.ntf[j]? = some n) (hp : preBump n = true) (hpc : n.pc ≠ .epoch) :
    (stepN s j n).epoch = s.epoch ∧ (stepN s j n).waitset = s.waitset ∧
    ((∃ n', (stepN s j n).ntf[j]? = some n' ∧ preBump n' = true ∧ n'.ops = n.ops) ∨ (n.pc = .test ∧ s.count = 0)) := by
  have hlt := getElem?_lt hj
  have get : ∀ (s' : St) (n' : Notifier), s'.ntf = s.ntf → (s'.setN j n').ntf[j]? = some n' := by
    intro s' n' e; simp [St.setN, e, List.getElem?_set, hlt]
  unfold preBump at hp
  simp only [Bool.and_eq_true, Bool.not_eq_true', Bool.or_eq_true, beq_iff_eq] at hp
  obtain ⟨hne, hpcs⟩ := hp
  have hstep : stepN s j n =
      (match n.pc with
       | .fence => s.setN j { n with pc := .test }
       | .test => if s.count = 0 then s.setN j n.finish else s.setN j { n with pc := .lock }
       | .lock => if s.lock.isSome then s else { s with lock := some (s.nS + j) }.setN j { n with pc := .epoch }
       | _ => stepN s j n) := by
    unfold stepN
    rw [if_neg (by simp [hne])]
    cases n.pc <;> rfl
  rw [hstep]
  rcases hpcs with ((h | h) | h) | h
  · rw [h]
    exact ⟨rfl, rfl, Or.inl ⟨{ n with pc := .test }, get s _ rfl, preBump_of hne (Or.inr (Or.inl rfl)), rfl⟩⟩
  · rw [h]
    dsimp only
    split
    · rename_i hc; exact ⟨rfl, rfl, Or.inr ⟨rfl, hc⟩⟩
    · exact ⟨rfl, rfl, Or.inl ⟨{ n with pc := .lock }, get s _ rfl, preBump_of hne (Or.inr (Or.inr (Or.inl rfl))), rfl⟩⟩
  · rw [h]
    dsimp only
    split
    · exact ⟨rfl, rfl, Or.inl ⟨n, hj, preBump_of hne (Or.inr (Or.inr (Or.inl h))), rfl⟩⟩
    · exact ⟨rfl, rfl, Or.inl ⟨{ n with pc := .epoch }, get _ _ rfl, preBump_of hne (Or.inr (Or.inr (Or.inr rfl))), rfl⟩⟩
  · exact absurd h hpc

/-- outside the pre-scan part of `prepare_wait` the sleeper keeps its node epoch (unless the `wait()` returns) and does
not (re-)enter the wait set -/
theorem stepS_own_scope (s : St) (i : Nat) (sl : Sleeper) (hp : preScan sl.pc = false) :
    ((nextS s sl).nepoch = sl.nepoch ∨ ((nextS s sl).pc = .init ∧ (nextS s sl).ops = sl.ops.tail)) ∧
    (i ∈ (stepS s i sl).waitset → i ∈ s.waitset) := by
  constructor
  · unfold nextS
    split
    · exact Or.inl rfl
    · cases hpc : sl.pc <;> rw [hpc] at hp <;> simp only [preScan] at hp <;> (try (cases hp)) <;> simp only []
      all_goals (try simp only [Sleeper.finish, Sleeper.afterCancel, Sleeper.fresh])
      all_goals (repeat' split)
      all_goals first
        | exact Or.inl rfl
        | exact Or.inr ⟨rfl, rfl⟩
        | exact Or.inl trivial
  · unfold stepS
    split
    · exact id
    · cases hpc : sl.pc <;> rw [hpc] at hp <;> simp only [preScan] at hp <;> (try (cases hp)) <;> simp only []
      all_goals (repeat' split)
      all_goals first
        | exact id
        | (intro h; simp only [St.setS] at h; first | exact h | exact List.mem_of_mem_erase h)

/-- a sleeper enters the wait set only by its `add` access -/
theorem stepS_ws_own (s : St) (i : Nat) (sl : Sleeper) (h : i ∈ (stepS s i sl).waitset) : i ∈ s.waitset ∨ sl.pc = .add := by
  unfold stepS at h
  split at h
  · exact Or.inl h
  · cases hpc : sl.pc <;> simp only [hpc] at h
    case add => exact Or.inr rfl
    all_goals (repeat' split at h)
    all_goals first
      | exact Or.inl h
      | (simp only [St.setS] at h; first | exact Or.inl h | exact Or.inl (List.mem_of_mem_erase h))

/-- a sleeper's step keeps the node epochs below the monitor's -/
theorem nextS_nepoch_le (s : St) (sl : Sleeper) (h : sl.nepoch ≤ s.epoch) : (nextS s sl).nepoch ≤ s.epoch := by
  unfold nextS
  split
  · exact h
  · cases hpc : sl.pc <;> simp only []
    all_goals (try simp only [Sleeper.finish, Sleeper.afterCancel, Sleeper.fresh])
    all_goals (repeat' split)
    all_goals first
      | exact h
      | exact Nat.le_refl _
      | exact Nat.zero_le _

end TbbVerif.C02
