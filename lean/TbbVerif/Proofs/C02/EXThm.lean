/-
C02 / task_arena::execute: from the invariants to the statements of Props/C02.lean.
-/
import TbbVerif.Proofs.C02.EXPsi2

set_option linter.unusedSimpArgs false
set_option linter.unusedVariables false

namespace TbbVerif.C02.EX
open TbbVerif.C02

/-- the wait in progress of thread `t`: condition `t` (its delegated task's `wait_context` was released), context `t + 1` -/
theorem shape_wait {m : C02.St} (h : MonOK m) {t : Nat} {sl : Sleeper} (hi : m.slp[t]? = some sl) (hne : sl.ops ≠ []) :
    sl.cond = t ∧ sl.ctx = t + 1 := by
  obtain ⟨w, rest, hw⟩ := List.exists_cons_of_ne_nil hne
  have := h.shape.slp t sl hi w (by rw [hw]; simp)
  simp [Sleeper.cond, Sleeper.ctx, hw, this]

/-- the delegated task finished: its `finalize()` is pending or the `V` is owed -/
theorem completed_core {m : C02.St} (h : MonOK m) {t : Nat} {sl : Sleeper} (hi : m.slp[t]? = some sl)
    (hpc : sl.pc = .commit ∨ sl.pc = .park) (hsem : sl.sem = 0) (hc : m.cond t = true) :
    (∃ (j : Nat) (n : Notifier), m.ntf[j]? = some n ∧ t ∈ n.temp) ∨
    (∃ (j : Nat) (n : Notifier), m.ntf[j]? = some n ∧ pendingFor n t (t + 1) = true) := by
  have hne : sl.ops ≠ [] := by
    intro e; have := h.inv.opsS t sl hi e; rcases hpc with a | a <;> rw [this] at a <;> cases a
  obtain ⟨hcd, hcx⟩ := shape_wait h hi hne
  have ho := (sloc_owed (h.inv.slp t sl hi)).2.2.2 hpc
  rcases h.inv.dek t sl hi hpc (by rw [hcd]; exact hc) with hW | ⟨j, n, hj', hp⟩
  · rcases ho with ⟨hW', _⟩ | ⟨_, h1⟩
    · exact absurd hW' hW
    · left; exact pend_pos (by omega)
  · right; exact ⟨j, n, hj', by rw [hcd, hcx] at hp; exact hp⟩

/-- a sleeper that is committing / parked belongs to a thread inside its wait loop whose scan has failed -/
theorem parked_thread {s : St} (h : AllInv s) {t : Nat} {th : Thr} {sl : Sleeper} (hth : s.thr[t]? = some th)
    (hsl : s.mon.slp[t]? = some sl) (hpc : sl.pc = .park) : th.pc = .wait ∧ th.todo = [] := by
  obtain ⟨sl', n, f, h1, _, _, L⟩ := h.ld.l t th hth
  rw [hsl] at h1; cases h1
  have hw : th.pc = .wait := by
    apply Classical.byContradiction
    intro hne
    rcases L.nwait hne with e | e
    · have := h.ld.m.inv.opsS t sl hsl e; rw [this] at hpc; cases hpc
    · rw [e] at hpc; cases hpc
  exact ⟨hw, L.todo2 hw hpc⟩

end TbbVerif.C02.EX
