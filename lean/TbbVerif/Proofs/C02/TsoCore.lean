/-
C02 / Tso: the store-buffer model of the 1×1 Monitor instance is finite-state.  For a given drain table `e : Eff` the
set of reachable states is computed by `bfs` (inside the kernel), shown closed under all four schedule actions, and
checked to contain no lost-wake-up state; every schedule therefore stays inside it.
-/
import TbbVerif.Model.C02

namespace TbbVerif.C02.Tso

/-- breadth-first closure: `fr` = frontier, `seen` = all states found so far -/
def bfs (e : Eff) : Nat → List St → List St → List St
  | 0, _, seen => seen
  | _ + 1, [], seen => seen
  | n + 1, s :: fr, seen =>
      let r := [0, 1, 2, 3].foldl (fun (acc : List St × List St) a =>
        let s' := step e s a
        if acc.2.contains s' then acc else (acc.1 ++ [s'], acc.2 ++ [s'])) (fr, seen)
      bfs e n r.1 r.2

def reachSet (e : Eff) : List St := bfs e 400 [{}] [{}]

def closed (e : Eff) (R : List St) : Bool :=
  R.contains {} && R.all (fun s => [0, 1, 2, 3].all (fun a => R.contains (step e s a)))

def safe (R : List St) : Bool := R.all (fun s => !lost s)

theorem step_ge4 (e : Eff) (s : St) (a : Nat) (h : 4 ≤ a) : step e s a = s := by
  match a, h with
  | a + 4, _ => rfl

/-- every schedule stays inside a closed set -/
theorem run_mem_of_closed (e : Eff) (R : List St) (hc : closed e R = true) (sched : List Tid) :
    (sysE e).run sched ∈ R := by
  simp only [closed, Bool.and_eq_true, List.all_eq_true, List.contains_iff_mem] at hc
  obtain ⟨h0, hcl⟩ := hc
  refine Sys.inv_run (sysE e) (fun s => s ∈ R) h0 ?_ sched
  intro s a hs
  show step e s a ∈ R
  match a with
  | 0 => exact hcl s hs 0 (by simp)
  | 1 => exact hcl s hs 1 (by simp)
  | 2 => exact hcl s hs 2 (by simp)
  | 3 => exact hcl s hs 3 (by simp)
  | a + 4 => exact hs

theorem not_lost_of_closed (e : Eff) (R : List St) (hc : closed e R = true) (hs : safe R = true) (sched : List Tid) :
    lost ((sysE e).run sched) = false := by
  have hm := run_mem_of_closed e R hc sched
  simp only [safe, List.all_eq_true] at hs
  have := hs _ hm
  simpa using this

end TbbVerif.C02.Tso
