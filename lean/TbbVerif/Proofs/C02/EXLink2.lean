/-
C02 / task_arena::execute: `Link` and `Dim` hold in every reachable state.
-/
import TbbVerif.Proofs.C02.EXLink

set_option linter.unusedSimpArgs false
set_option linter.unusedVariables false

namespace TbbVerif.C02.EX
open TbbVerif.C02

theorem link_update {s s' : St} (hD : Dim s) (hL : Link s) {i : Nat} (hi : i < s.thr.length)
    (hlen : s'.thr.length = s.thr.length) (hS : s'.slots.length = s.slots.length)
    (hthr : ∀ k, k ≠ i → s'.thr[k]? = s.thr[k]?)
    (hK : Keeps i s.thr.length s.mon s'.mon)
    (hown : ∀ th', s'.thr[i]? = some th' → ∃ sl n f, s'.mon.slp[i]? = some sl ∧ s'.mon.ntf[i]? = some n ∧
        s'.mon.ntf[s.thr.length + i]? = some f ∧ LinkT s.slots.length th' sl n f) : Link s' ∧ Dim s' := by
  constructor
  · intro t th' ht
    rw [hlen, hS]
    by_cases e : t = i
    · subst e; exact hown th' ht
    · rw [hthr t e] at ht
      have htl := getElem?_lt ht
      obtain ⟨sl, n, f, h1, h2, h3, h4⟩ := hL t th' ht
      obtain ⟨sl', h5, h6⟩ := hK.slp t e sl h1
      have h7 := hK.ntf t e (by omega)
      have h8 := hK.ntf (s.thr.length + t) (by omega) (by omega)
      exact ⟨sl', n, f, h5, by rw [h7]; exact h2, by rw [h8]; exact h3, linkT_core h4 h6 rfl rfl⟩
  · exact ⟨by rw [hK.lenS, hlen]; exact hD.nS, by rw [hK.lenN, hlen]; exact hD.nN⟩

theorem tas_len (slots : List Bool) (k : Nat) : (tas slots k).1.length = slots.length := by
  unfold tas; split <;> simp

/-- own records of thread `i` -/
theorem own_records {s : St} (hL : Link s) {i : Nat} {th : Thr} (hth : s.thr[i]? = some th) :
    ∃ sl n f, s.mon.slp[i]? = some sl ∧ s.mon.ntf[i]? = some n ∧ s.mon.ntf[s.thr.length + i]? = some f ∧
      LinkT s.slots.length th sl n f := hL i th hth

theorem stepT_link_scan1 {s : St} (hD : Dim s) (hL : Link s) {i : Nat} {th : Thr} (hth : s.thr[i]? = some th) (c : Nat)
    (hops : ¬ th.ops = 0) (hpc : th.pc = .scan1) : Link (stepT s i th c) ∧ Dim (stepT s i th c) := by
  have hi := getElem?_lt hth
  obtain ⟨sl, n, f, h1, h2, h3, L⟩ := own_records hL hth
  obtain ⟨a1, a2, a3, a4, a5, a6, a7, a8, a9, a10⟩ := L
  unfold stepT
  rw [if_neg hops]
  simp only [hpc]
  split
  · refine link_update hD hL hi (by simp) (by simp) (fun k hk => by rw [getT_setT]; simp [Ne.symm hk]) (Keeps.refl _ _ _) ?_
    intro th' ht'
    rw [getT_setT] at ht'; simp [hi] at ht'; subst ht'
    refine ⟨sl, n, f, h1, h2, h3, ?_⟩
    constructor <;> simp_all
  · split
    · refine link_update hD hL hi (by simp) (by simp [tas_len]) (fun k hk => by rw [getT_setT]; simp [Ne.symm hk]) (Keeps.refl _ _ _) ?_
      intro th' ht'
      rw [getT_setT] at ht'; simp [hi] at ht'; subst ht'
      refine ⟨sl, n, f, h1, h2, h3, ?_⟩
      constructor <;> simp_all
    · split
      · refine link_update hD hL hi (by simp) (by simp) (fun k hk => by rw [getT_setT]; simp [Ne.symm hk]) (Keeps.refl _ _ _) ?_
        intro th' ht'
        rw [getT_setT] at ht'; simp [hi] at ht'; subst ht'
        refine ⟨sl, n, f, h1, h2, h3, ?_⟩
        constructor <;> simp_all
      · refine link_update hD hL hi (by simp) (by simp) (fun k hk => by rw [getT_setT]; simp [Ne.symm hk]) (Keeps.refl _ _ _) ?_
        intro th' ht'
        rw [getT_setT] at ht'; simp [hi] at ht'; subst ht'
        refine ⟨sl, n, f, h1, h2, h3, ?_⟩
        constructor <;> simp_all

theorem stepT_link_enq {s : St} (hD : Dim s) (hM : MonOK s.mon) (hL : Link s) {i : Nat} {th : Thr} (hth : s.thr[i]? = some th)
    (c : Nat) (hops : ¬ th.ops = 0) (hpc : th.pc = .enq) : Link (stepT s i th c) ∧ Dim (stepT s i th c) := by
  have hi := getElem?_lt hth
  obtain ⟨sl, n, f, h1, h2, h3, L⟩ := own_records hL hth
  obtain ⟨a1, a2, a3, a4, a5, a6, a7, a8, a9, a10⟩ := L
  have hidle : sl.ops = [] := a3 (Or.inr (Or.inl hpc))
  have hinit : sl.pc = .init := hM.inv.opsS i sl h1 hidle
  have hfid : f.ops = [] := a6 (Or.inr hpc)
  unfold stepT
  rw [if_neg hops]
  simp only [hpc]
  refine link_update hD hL hi (by simp) (by simp) (fun k hk => by rw [getT_setT]; simp [Ne.symm hk]) ?_ ?_
  · exact ((keeps_setCond i _ s.mon i false).trans (keeps_install_fin i _ _ _)).trans (keeps_startWait i _ _)
  · intro th' ht'
    rw [getT_setT] at ht'; simp [hi] at ht'; subst ht'
    have e1 : (install (s.mon.setCond i false) (s.thr.length + i) (.sig (some i) (.ctx (i + 1)) false)).slp[i]? = some sl := by
      rw [install_slp, setCond_slp]; exact h1
    refine ⟨{ sl with ops := [⟨i + 1, i⟩] }, n, mkNotifier [.sig (some i) (.ctx (i + 1)) false], ?_, ?_, ?_, ?_⟩
    · exact startWait_slp_self e1 hidle
    · show (startWait _ i).ntf[i]? = some n
      rw [startWait_ntf, install_ntf_other _ _ _ _ (by omega), setCond_ntf]; exact h2
    · show (startWait _ i).ntf[s.thr.length + i]? = _
      rw [startWait_ntf]
      exact install_ntf_self (by rw [setCond_ntf]; exact h3) hfid _
    · constructor <;> simp_all [preScan, mkNotifier]

theorem stepT_link_inner {s : St} (hD : Dim s) (hL : Link s) {i : Nat} {th : Thr} (hth : s.thr[i]? = some th) (c : Nat)
    (hops : ¬ th.ops = 0) (hpc : th.pc = .inner) : Link (stepT s i th c) ∧ Dim (stepT s i th c) := by
  have hi := getElem?_lt hth
  obtain ⟨sl, n, f, h1, h2, h3, L⟩ := own_records hL hth
  obtain ⟨a1, a2, a3, a4, a5, a6, a7, a8, a9, a10⟩ := L
  unfold stepT
  rw [if_neg hops]
  simp only [hpc]
  split
  · refine link_update hD hL hi (by simp) (by simp) (fun k hk => by rw [getT_setT]; simp [Ne.symm hk]) (Keeps.refl _ _ _) ?_
    intro th' ht'
    rw [getT_setT] at ht'; simp [hi] at ht'; subst ht'
    refine ⟨sl, n, f, h1, h2, h3, ?_⟩
    constructor <;> simp_all
  · exact ⟨hL, hD⟩

theorem stepT_link_release {s : St} (hD : Dim s) (hL : Link s) {i : Nat} {th : Thr} (hth : s.thr[i]? = some th) (c : Nat)
    (hops : ¬ th.ops = 0) (hpc : th.pc = .release) : Link (stepT s i th c) ∧ Dim (stepT s i th c) := by
  have hi := getElem?_lt hth
  obtain ⟨sl, n, f, h1, h2, h3, L⟩ := own_records hL hth
  obtain ⟨a1, a2, a3, a4, a5, a6, a7, a8, a9, a10⟩ := L
  have hnid : n.ops = [] := a5 (by rw [hpc]; simp)
  unfold stepT
  rw [if_neg hops]
  simp only [hpc]
  refine link_update hD hL hi (by simp) (by simp) (fun k hk => by rw [getT_setT]; simp [Ne.symm hk])
    (keeps_install_own i _ _ _) ?_
  intro th' ht'
  rw [getT_setT] at ht'; simp [hi] at ht'; subst ht'
  refine ⟨sl, mkNotifier [.sig none .one false], f, ?_, ?_, ?_, ?_⟩
  · show (install _ i _).slp[i]? = _; rw [install_slp]; exact h1
  · exact install_ntf_self h2 hnid _
  · show (install _ i _).ntf[_]? = _; rw [install_ntf_other _ _ _ _ (by omega)]; exact h3
  · constructor <;> simp_all [mkNotifier, oneOp]

theorem stepT_link_loopChk {s : St} (hD : Dim s) (hM : MonOK s.mon) (hL : Link s) {i : Nat} {th : Thr}
    (hth : s.thr[i]? = some th) (c : Nat) (hops : ¬ th.ops = 0) (hpc : th.pc = .loopChk) :
    Link (stepT s i th c) ∧ Dim (stepT s i th c) := by
  have hi := getElem?_lt hth
  obtain ⟨sl, n, f, h1, h2, h3, L⟩ := own_records hL hth
  obtain ⟨a1, a2, a3, a4, a5, a6, a7, a8, a9, a10⟩ := L
  have hnid : n.ops = [] := a5 (by rw [hpc]; simp)
  have hidle : sl.ops = [] := a3 (Or.inr (Or.inr hpc))
  have hinit : sl.pc = .init := hM.inv.opsS i sl h1 hidle
  unfold stepT
  rw [if_neg hops]
  simp only [hpc]
  split
  · refine link_update hD hL hi (by simp) (by simp) (fun k hk => by rw [getT_setT]; simp [Ne.symm hk])
      (keeps_install_own i _ _ _) ?_
    intro th' ht'
    rw [getT_setT] at ht'; simp [hi] at ht'; subst ht'
    refine ⟨sl, mkNotifier [.sig none .one false], f, ?_, ?_, ?_, ?_⟩
    · show (install _ i _).slp[i]? = _; rw [install_slp]; exact h1
    · exact install_ntf_self h2 hnid _
    · show (install _ i _).ntf[_]? = _; rw [install_ntf_other _ _ _ _ (by omega)]; exact h3
    · constructor <;> simp_all [mkNotifier, oneOp]
  · have e1 := startWait_slp_self h1 hidle
    refine link_update hD hL hi (by simp) (by simp) (fun k hk => by rw [getT_setT]; simp [Ne.symm hk])
      ((keeps_startWait i _ _).trans (keeps_stepS i _ e1)) ?_
    intro th' ht'
    rw [getT_setT] at ht'; simp [hi] at ht'; subst ht'
    have e2 : (C02.step (startWait s.mon i) i).slp[i]? = some (nextS (startWait s.mon i) { sl with ops := [⟨i + 1, i⟩] }) := by
      rw [step_slp e1]; exact stepS_own _ _ _ e1
    have hinit1 : ({ sl with ops := [⟨i + 1, i⟩] } : Sleeper).pc = .init := hinit
    rw [nextS_init _ _ hinit1 (by simp)] at e2
    have e3 : (C02.step (startWait s.mon i) i).ntf = s.mon.ntf := by
      rw [step_slp e1, (stepS_frame _ _ _).1, startWait_ntf]
    refine ⟨_, n, f, e2, ?_, ?_, ?_⟩
    · show (C02.step _ i).ntf[i]? = _; rw [e3]; exact h2
    · show (C02.step _ i).ntf[_]? = _; rw [e3]; exact h3
    · constructor <;> simp_all [preScan]

theorem ntfDone_iff {m : C02.St} {j : Nat} {n : Notifier} (hn : m.ntf[j]? = some n) : ntfDone m j = true ↔ n.ops = [] := by
  unfold ntfDone; rw [hn]; exact List.isEmpty_iff

theorem slpIdle_iff {m : C02.St} {j : Nat} {sl : Sleeper} (hn : m.slp[j]? = some sl) : slpIdle m j = true ↔ sl.ops = [] := by
  unfold slpIdle; rw [hn]; exact List.isEmpty_iff

theorem slpOver_iff {m : C02.St} {j : Nat} {sl : Sleeper} (hn : m.slp[j]? = some sl) :
    slpOver m j = true ↔ (sl.ops = [] ∨ sl.pc = .dtor) := by
  unfold slpOver; rw [hn]; simp [List.isEmpty_iff]

/-- the records of thread `i` after a step of its own notifier -/
theorem stepN_own_view {s : St} (hD : Dim s) {i : Nat} (hi : i < s.thr.length) {sl : Sleeper} {n f : Notifier}
    (h1 : s.mon.slp[i]? = some sl) (h2 : s.mon.ntf[i]? = some n) (h3 : s.mon.ntf[s.thr.length + i]? = some f) :
    ∃ sl' n', (C02.step s.mon (s.mon.slp.length + i)).slp[i]? = some sl' ∧ sl'.core = sl.core ∧
      (C02.step s.mon (s.mon.slp.length + i)).ntf[i]? = some n' ∧ (n'.ops = n.ops ∨ n'.ops = n.ops.tail) ∧
      (C02.step s.mon (s.mon.slp.length + i)).ntf[s.thr.length + i]? = some f := by
  rw [step_ntf h2]
  obtain ⟨g1, g2, g3, ⟨n', g4, g5, _⟩, _⟩ := stepN_frame s.mon i n h2
  have hk : i < (stepN s.mon i n).slp.length := by rw [g2]; exact getElem?_lt h1
  obtain ⟨sl0, h0, hc⟩ := stepN_slp_core s.mon i n i _ (List.getElem?_eq_getElem hk)
  rw [h1] at h0; cases h0
  exact ⟨_, n', List.getElem?_eq_getElem hk, hc, g4, g5, by rw [g3 _ (by omega)]; exact h3⟩

theorem stepT_link_notify {s : St} (hD : Dim s) (hL : Link s) {i : Nat} {th : Thr} (hth : s.thr[i]? = some th) (c : Nat)
    (hops : ¬ th.ops = 0) (hpc : th.pc = .notify) : Link (stepT s i th c) ∧ Dim (stepT s i th c) := by
  have hi := getElem?_lt hth
  obtain ⟨sl, n, f, h1, h2, h3, L⟩ := own_records hL hth
  obtain ⟨sl', n', e1, e2, e3, e4, e5⟩ := stepN_own_view hD hi h1 h2 h3
  have L' : LinkT s.slots.length th sl' n f := linkT_core L e2 rfl rfl
  obtain ⟨a1, a2, a3, a4, a5, a6, a7, a8, a9, a10⟩ := L'
  have hn1 : n.ops = [oneOp] := a4 hpc
  have hK := keeps_stepN i s.thr.length s.mon i (Or.inl rfl)
  unfold stepT
  rw [if_neg hops]
  simp only [hpc]
  split
  · rename_i hdone
    have hn' : n'.ops = [] := (ntfDone_iff e3).mp hdone
    split
    · refine link_update hD hL hi (by simp) (by simp) (fun k hk => by rw [getT_setT]; simp [Ne.symm hk]) hK ?_
      intro th' ht'
      rw [getT_setT] at ht'; simp [hi] at ht'; subst ht'
      refine ⟨sl', n', f, e1, e3, e5, ?_⟩
      constructor <;> simp_all
    · refine link_update hD hL hi (by simp) (by simp) (fun k hk => by rw [getT_setT]; simp [Ne.symm hk]) hK ?_
      intro th' ht'
      rw [getT_setT] at ht'; simp [hi] at ht'; subst ht'
      refine ⟨sl', n', f, e1, e3, e5, ?_⟩
      constructor <;> simp_all [Thr.ret]
  · rename_i hdone
    have hn' : n'.ops ≠ [] := fun e => hdone ((ntfDone_iff e3).mpr e)
    have hn'' : n'.ops = [oneOp] := by
      rcases e4 with e | e
      · rw [e, hn1]
      · rw [e, hn1] at hn'; simp at hn'
    refine link_update (s' := { s with mon := _, absorbed := _ }) hD hL hi rfl rfl (fun k hk => rfl) hK ?_
    intro th' ht'
    have : th' = th := by
      have : s.thr[i]? = some th' := ht'
      rw [hth] at this; cases this; rfl
    subst this
    refine ⟨sl', n', f, e1, e3, e5, ?_⟩
    constructor <;> simp_all

/-- the records of thread `i` after a step of its own sleeper -/
theorem stepS_own_view {s : St} {i : Nat} {sl : Sleeper} {n f : Notifier}
    (h1 : s.mon.slp[i]? = some sl) (h2 : s.mon.ntf[i]? = some n) (h3 : s.mon.ntf[s.thr.length + i]? = some f) :
    (C02.step s.mon i).slp[i]? = some (nextS s.mon sl) ∧ (C02.step s.mon i).ntf[i]? = some n ∧
      (C02.step s.mon i).ntf[s.thr.length + i]? = some f := by
  rw [step_slp h1]
  exact ⟨stepS_own _ _ _ h1, by rw [(stepS_frame _ _ _).1]; exact h2, by rw [(stepS_frame _ _ _).1]; exact h3⟩

theorem stepT_link_dtor {s : St} (hD : Dim s) (hM : MonOK s.mon) (hL : Link s) {i : Nat} {th : Thr}
    (hth : s.thr[i]? = some th) (c : Nat) (hops : ¬ th.ops = 0) (hpc : th.pc = .dtor) :
    Link (stepT s i th c) ∧ Dim (stepT s i th c) := by
  have hi := getElem?_lt hth
  obtain ⟨sl, n, f, h1, h2, h3, L⟩ := own_records hL hth
  obtain ⟨a1, a2, a3, a4, a5, a6, a7, a8, a9, a10⟩ := L
  unfold stepT
  rw [if_neg hops]
  simp only [hpc]
  split
  · exact ⟨hL, hD⟩
  · rename_i hfd
    have hfd' : f.ops = [] := (ntfDone_iff h3).mp (by simpa using hfd)
    split
    · rename_i hidle
      have hne : sl.ops ≠ [] := fun e => by rw [(slpIdle_iff h1).mpr e] at hidle; cases hidle
      have hdt : sl.pc = .dtor := by
        rcases a2 (by rw [hpc]; simp) with e | e
        · exact absurd e hne
        · exact e
      obtain ⟨e1, e2, e3⟩ := stepS_own_view h1 h2 h3
      refine link_update (s' := { s with mon := _ }) hD hL hi rfl rfl (fun k hk => rfl) (keeps_stepS i _ h1) ?_
      intro th' ht'
      have : th' = th := by
        have : s.thr[i]? = some th' := ht'
        rw [hth] at this; cases this; rfl
      subst this
      refine ⟨_, n, f, e1, e2, e3, ?_⟩
      have hl1 := hM.len1 i sl h1
      rcases nextS_dtor s.mon sl hdt with e | ⟨e4, e5⟩
      · rw [e]; constructor <;> simp_all
      · have : (nextS s.mon sl).ops = [] := by
          rw [e5]; cases ho : sl.ops with
          | nil => rfl
          | cons a r => rw [ho] at hl1; simp at hl1; simp [hl1]
        constructor <;> simp_all
    · rename_i hidle
      have hid : sl.ops = [] := (slpIdle_iff h1).mp (by simpa using hidle)
      refine link_update hD hL hi (by simp) (by simp) (fun k hk => by rw [getT_setT]; simp [Ne.symm hk]) (Keeps.refl _ _ _) ?_
      intro th' ht'
      rw [getT_setT] at ht'; simp [hi] at ht'; subst ht'
      refine ⟨sl, n, f, h1, h2, h3, ?_⟩
      constructor <;> simp_all [Thr.ret]

theorem stepT_link_wait {s : St} (hD : Dim s) (hM : MonOK s.mon) (hL : Link s) {i : Nat} {th : Thr}
    (hth : s.thr[i]? = some th) (c : Nat) (hops : ¬ th.ops = 0) (hpc : th.pc = .wait) :
    Link (stepT s i th c) ∧ Dim (stepT s i th c) := by
  have hi := getElem?_lt hth
  obtain ⟨sl, n, f, h1, h2, h3, L⟩ := own_records hL hth
  obtain ⟨a1, a2, a3, a4, a5, a6, a7, a8, a9, a10, a11⟩ := L
  have hnid : n.ops = [] := a5 (by rw [hpc]; simp)
  obtain ⟨hne, hnd⟩ := a1 hpc
  have hl1 := hM.len1 i sl h1
  have htail : sl.ops.tail = [] := by
    cases ho : sl.ops with
    | nil => rfl
    | cons a r => rw [ho] at hl1; simp at hl1; simp [hl1]
  unfold stepT
  rw [if_neg hops]
  simp only [hpc, h1]
  split
  · -- the loop condition after a commit_wait that returned false
    rename_i hrk
    obtain ⟨_, hps, hg⟩ := a11 hrk
    split
    · refine link_update hD hL hi (by simp) (by simp) (fun k hk => by rw [getT_setT]; simp [Ne.symm hk])
        ((keeps_forcedExit i _ _).trans (keeps_install_own i _ _ _)) ?_
      intro th' ht'
      rw [getT_setT] at ht'; simp [hi] at ht'; subst ht'
      have hfx : ∃ sl', (forcedExit s.mon i).slp[i]? = some sl' ∧ (sl'.ops = [] ∨ sl'.pc = .dtor) ∧
          (forcedExit s.mon i).ntf = s.mon.ntf := by
        rcases hps with hp | hp
        · rw [forcedExit_pump h1 hp]
          exact ⟨{ sl with pc := .dtor, results := 0 :: sl.results },
            by simp [St.setS, List.getElem?_set, getElem?_lt h1], Or.inr rfl, rfl⟩
        · rw [forcedExit_storeIn h1 hp]
          exact ⟨{ sl with results := 0 :: sl.results }.fresh,
            by simp [St.setS, List.getElem?_set, getElem?_lt h1], Or.inl (by simp [Sleeper.fresh, htail]), rfl⟩
      obtain ⟨sl', g1, g2, g3⟩ := hfx
      refine ⟨sl', mkNotifier [.sig none .one false], f, ?_, ?_, ?_, ?_⟩
      · show (install _ i _).slp[i]? = _; rw [install_slp]; exact g1
      · exact install_ntf_self (by rw [g3]; exact h2) hnid _
      · show (install _ i _).ntf[_]? = _; rw [install_ntf_other _ _ _ _ (by omega), g3]; exact h3
      · constructor <;> simp_all [mkNotifier, oneOp]
    · refine link_update hD hL hi (by simp) (by simp) (fun k hk => by rw [getT_setT]; simp [Ne.symm hk]) (Keeps.refl _ _ _) ?_
      intro th' ht'
      rw [getT_setT] at ht'; simp [hi] at ht'; subst ht'
      refine ⟨sl, n, f, h1, h2, h3, ?_⟩
      constructor <;> simp_all
  · rename_i hrk
    split
    · -- one try_occupy of the second occupy_free_slot
      rename_i hc
      split
      · refine link_update hD hL hi (by simp) (by simp [tas_len]) (fun k hk => by rw [getT_setT]; simp [Ne.symm hk])
          (keeps_setS i _ _ _) ?_
        intro th' ht'
        rw [getT_setT] at ht'; simp [hi] at ht'; subst ht'
        refine ⟨{ sl with again := false, pc := .cLoad }, n, f, ?_, h2, h3, ?_⟩
        · simp [St.setS, List.getElem?_set, getElem?_lt h1]
        · constructor <;> simp_all [preScan, cancelSet]
      · refine link_update hD hL hi (by simp) (by simp) (fun k hk => by rw [getT_setT]; simp [Ne.symm hk]) (Keeps.refl _ _ _) ?_
        intro th' ht'
        rw [getT_setT] at ht'; simp [hi] at ht'; subst ht'
        refine ⟨sl, n, f, h1, h2, h3, ?_⟩
        constructor <;> simp_all [preScan, cancelSet]
    · -- a Monitor step of the sleeper
      rename_i hc
      obtain ⟨e1, e2, e3⟩ := stepS_own_view h1 h2 h3
      have hK := keeps_stepS i s.thr.length h1
      have hl1 := hM.len1 i sl h1
      have htail : sl.ops.tail = [] := by
        cases ho : sl.ops with
        | nil => rfl
        | cons a r => rw [ho] at hl1; simp at hl1; simp [hl1]
      split
      · rename_i hover
        have hov := (slpOver_iff e1).mp hover
        split
        · refine link_update hD hL hi (by simp) (by simp) (fun k hk => by rw [getT_setT]; simp [Ne.symm hk]) hK ?_
          intro th' ht'
          rw [getT_setT] at ht'; simp [hi] at ht'; subst ht'
          refine ⟨_, n, f, e1, e2, e3, ?_⟩
          constructor <;> simp_all
        · split
          · rename_i hidle
            have hid := (slpIdle_iff e1).mp hidle.1
            refine link_update hD hL hi (by simp) (by simp) (fun k hk => by rw [getT_setT]; simp [Ne.symm hk]) hK ?_
            intro th' ht'
            rw [getT_setT] at ht'; simp [hi] at ht'; subst ht'
            refine ⟨_, n, f, e1, e2, e3, ?_⟩
            constructor <;> simp_all
          · refine link_update hD hL hi (by simp) (by simp) (fun k hk => by rw [getT_setT]; simp [Ne.symm hk])
              (hK.trans (keeps_install_own i _ _ _)) ?_
            intro th' ht'
            rw [getT_setT] at ht'; simp [hi] at ht'; subst ht'
            refine ⟨nextS s.mon sl, mkNotifier [.sig none .one false], f, ?_, ?_, ?_, ?_⟩
            · show (install _ i _).slp[i]? = _; rw [install_slp]; exact e1
            · exact install_ntf_self e2 hnid _
            · show (install _ i _).ntf[_]? = _; rw [install_ntf_other _ _ _ _ (by omega)]; exact e3
            · constructor <;> simp_all [mkNotifier, oneOp]
      · rename_i hover
        have hov : ¬ ((nextS s.mon sl).ops = [] ∨ (nextS s.mon sl).pc = .dtor) := fun e => hover ((slpOver_iff e1).mpr e)
        have hov1 : (nextS s.mon sl).ops ≠ [] := fun e => hov (Or.inl e)
        have hov2 : (nextS s.mon sl).pc ≠ .dtor := fun e => hov (Or.inr e)
        -- the facts about the new record that `LinkT` needs
        have t1 : preScan (nextS s.mon sl).pc = true → (nextS s.mon sl).pc ≠ .pump → (nextS s.mon sl).pc ≠ .storeIn →
            th.todo = List.range s.slots.length := by
          intro p1 p2 p3
          rcases nextS_preScan s.mon sl p1 p2 p3 with e | ⟨_, e⟩
          · exact a8 hpc e
          · rw [htail] at e; exact absurd e hov1
        have t2 : (nextS s.mon sl).pc = .park → th.todo = [] := by
          intro p
          rcases nextS_park s.mon sl p with e | e
          · apply Classical.byContradiction
            intro hne'
            exact hc ⟨e, by simpa using hne'⟩
          · exact a9 hpc e
        have t3 : th.got = true → cancelSet (nextS s.mon sl).pc = true ∧ (nextS s.mon sl).again = false := by
          intro g
          obtain ⟨g1, g2⟩ := a10 hpc g
          rcases nextS_cancel s.mon sl g1 g2 with e | e | ⟨_, e⟩
          · exact e
          · exact absurd e hov2
          · rw [htail] at e; exact absurd e hov1
        rw [e1]
        simp only
        split
        · refine link_update hD hL hi (by simp) (by simp) (fun k hk => by rw [getT_setT]; simp [Ne.symm hk]) hK ?_
          intro th' ht'
          rw [getT_setT] at ht'; simp [hi] at ht'; subst ht'
          refine ⟨_, n, f, e1, e2, e3, ?_⟩
          rename_i hps
          exact { wait := fun _ => ⟨hov1, hov2⟩, nwait := (by simp_all), idle := (by simp_all), ntfOn := (by simp_all),
                  ntfOff := (by simp_all), fin := (by simp_all), direct := (by simp_all), todo1 := fun _ _ => rfl,
                  todo2 := (fun _ hp => by rcases hps with e | e <;> rw [e] at hp <;> cases hp),
                  got := (fun _ g => t3 g),
                  rk := (fun _ => ⟨rfl, hps, by
                    cases hg : th.got with
                    | false => rfl
                    | true =>
                      have := (t3 hg).1
                      rcases hps with e | e <;> rw [e] at this <;> simp [cancelSet] at this⟩) }
        · rename_i hps
          refine link_update (s' := { s with mon := _ }) hD hL hi rfl rfl (fun k hk => rfl) hK ?_
          intro th' ht'
          have : th' = th := by
            have : s.thr[i]? = some th' := ht'
            rw [hth] at this; cases this; rfl
          subst this
          refine ⟨_, n, f, e1, e2, e3, ?_⟩
          exact { wait := fun _ => ⟨hov1, hov2⟩, nwait := (by simp_all), idle := (by simp_all), ntfOn := (by simp_all),
                  ntfOff := (by simp_all), fin := (by simp_all), direct := (by simp_all),
                  todo1 := fun _ p => t1 p (fun e => hps (Or.inl e)) (fun e => hps (Or.inr e)),
                  todo2 := (fun _ p => t2 p), got := (fun _ g => t3 g), rk := (fun h => absurd h hrk) }

theorem stepT_link {s : St} (hD : Dim s) (hM : MonOK s.mon) (hL : Link s) {i : Nat} {th : Thr}
    (hth : s.thr[i]? = some th) (c : Nat) : Link (stepT s i th c) ∧ Dim (stepT s i th c) := by
  by_cases hops : th.ops = 0
  · unfold stepT; rw [if_pos hops]; exact ⟨hL, hD⟩
  · cases hpc : th.pc
    · exact stepT_link_scan1 hD hL hth c hops hpc
    · exact stepT_link_enq hD hM hL hth c hops hpc
    · exact stepT_link_wait hD hM hL hth c hops hpc
    · exact stepT_link_loopChk hD hM hL hth c hops hpc
    · exact stepT_link_inner hD hL hth c hops hpc
    · exact stepT_link_release hD hL hth c hops hpc
    · exact stepT_link_notify hD hL hth c hops hpc
    · exact stepT_link_dtor hD hM hL hth c hops hpc

theorem stepF_link {s : St} (hD : Dim s) (hL : Link s) (i : Nat) : Link (stepF s i) ∧ Dim (stepF s i) := by
  unfold stepF
  dsimp only
  split
  · rename_i fn hfn
    split
    · exact ⟨hL, hD⟩
    · rename_i hne
      have hfne : fn.ops ≠ [] := fun e => hne (by rw [e]; rfl)
      by_cases hi : i < s.thr.length
      · have hth : s.thr[i]? = some s.thr[i] := List.getElem?_eq_getElem hi
        obtain ⟨sl, n, f, h1, h2, h3, L⟩ := own_records hL hth
        rw [hfn] at h3; cases h3
        have hK := keeps_stepN i s.thr.length s.mon (s.thr.length + i) (Or.inr rfl)
        refine link_update (s' := { s with mon := _ }) hD hL hi rfl rfl (fun k hk => rfl) hK ?_
        intro th' ht'
        have : th' = s.thr[i] := by
          have : s.thr[i]? = some th' := ht'
          rw [hth] at this; cases this; rfl
        subst this
        rw [step_ntf hfn]
        obtain ⟨g1, g2, g3, ⟨f', g4, g5, _⟩, _⟩ := stepN_frame s.mon _ fn hfn
        have hk : i < (stepN s.mon (s.thr.length + i) fn).slp.length := by rw [g2]; exact getElem?_lt h1
        obtain ⟨sl0, h0, hc⟩ := stepN_slp_core s.mon _ fn i _ (List.getElem?_eq_getElem hk)
        rw [h1] at h0; cases h0
        refine ⟨_, n, f', List.getElem?_eq_getElem hk, by rw [g3 _ (by omega)]; exact h2, g4, ?_⟩
        have L' := linkT_core (f' := fn) L hc rfl rfl
        exact { wait := L'.wait, nwait := L'.nwait, idle := L'.idle, ntfOn := L'.ntfOn, ntfOff := L'.ntfOff,
                fin := (fun h => absurd (L'.fin h) hfne), direct := (fun h => absurd (L'.direct h).2.1 hfne),
                todo1 := L'.todo1, todo2 := L'.todo2, got := L'.got, rk := L'.rk }
      · -- no such thread: the notifier table has no entry either
        have : s.mon.ntf.length ≤ s.thr.length + i := by rw [hD.nN]; omega
        rw [List.getElem?_eq_none this] at hfn; cases hfn
  · exact ⟨hL, hD⟩

structure LD (s : St) : Prop where
  m : MonOK s.mon
  l : Link s
  d : Dim s

theorem step_link {s : St} (h : LD s) (t : Tid) : Link (step s t) ∧ Dim (step s t) := by
  unfold step
  dsimp only
  split
  · exact ⟨h.l, h.d⟩
  · split
    · split
      · rename_i th hth; exact stepT_link h.d h.m h.l hth _
      · exact ⟨h.l, h.d⟩
    · exact stepF_link h.d h.l _

theorem step_ld {s : St} (h : LD s) (t : Tid) : LD (step s t) :=
  ⟨step_mon h.m t, (step_link h t).1, (step_link h t).2⟩

theorem init_ld (S : Nat) (calls : List Nat) : LD (init S calls) := by
  refine ⟨init_mon S calls, ?_, ?_⟩
  · intro t th ht
    have htl := getElem?_lt ht
    simp only [init, List.length_map] at htl
    simp only [init, List.getElem?_map, Option.map_eq_some_iff] at ht
    obtain ⟨nc, hnc, rfl⟩ := ht
    refine ⟨mkSleeper [], mkNotifier [], mkNotifier [], ?_, ?_, ?_, ?_⟩
    · simp [init, C02.init, htl]
    · simp only [init, C02.init, List.map_replicate]
      rw [List.getElem?_replicate]; rw [if_pos (by omega)]
    · simp only [init, C02.init, List.map_replicate, List.length_map]
      rw [List.getElem?_replicate]; rw [if_pos (by omega)]
    · constructor <;> simp [mkThr, mkSleeper, mkNotifier, preScan]
  · constructor <;> simp [init, C02.init]

theorem reach_ld (S : Nat) (calls : List Nat) (sched : List Tid) : LD ((sys S calls).run sched) :=
  Sys.inv_run (sys S calls) LD (init_ld S calls) (fun _ t h => step_ld h t) sched

end TbbVerif.C02.EX
