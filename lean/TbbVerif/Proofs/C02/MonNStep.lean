/-
C02 / Monitor: `stepN` preserves the invariant (case analysis over the notifier's program counter).
-/
import TbbVerif.Proofs.C02.MonNotifier

namespace TbbVerif.C02

theorem cond_eq (s : St) (c : Nat) : s.cond c = s.conds.getD c false := rfl

/-- steps that change neither the waitset nor any node -/
theorem stepN_inv_own {s : St} (h : Inv s) {j : Nat} {n : Notifier} (hj : s.ntf[j]? = some n)
    (hemp : n.ops.isEmpty = false)
    (hpcs : n.pc = .clr ∨ n.pc = .set ∨ n.pc = .fence ∨ n.pc = .test ∨ n.pc = .lock ∨ n.pc = .epoch ∨ n.pc = .unlock) :
    Inv (stepN s j n) := by
  have hN := h.ntf j n hj
  have hLk := h.lockN j n hj
  obtain ⟨hm, hu, ht, hk, he0, hset, hfl, hsc⟩ := hN
  have hne : n.ops ≠ [] := by intro e; rw [e] at hemp; simp at hemp
  have he : ∀ {pc' : NPc} {t' : List Nat} {m' : Nat},
      ({ n with pc := pc', temp := t', marked := m' } : Notifier).ops = [] →
      ({ n with pc := pc', temp := t', marked := m' } : Notifier).temp = [] ∧
        holdsN ({ n with pc := pc', temp := t', marked := m' } : Notifier).pc = false := fun e => absurd e hne
  unfold stepN
  simp only [hemp, Bool.false_eq_true, if_false]
  rcases hpcs with hpc | hpc | hpc | hpc | hpc | hpc | hpc
  · -- clr
    simp only [hpc]
    have htemp : n.temp = [] := ht (by simp [hpc])
    refine inv_notifier_own h hj s.lock s.epoch (s.setCond (n.cond?.getD 0) false).conds (Or.inl ⟨rfl, by rw [holdsN_finish, hpc]; rfl⟩)
      (by rw [finish_temp, htemp]) (by rw [finish_unm]; simp [Notifier.unm, htemp]) (nloc_finish n) (Or.inr rfl) ?_
    intro i sl hi hp hc
    rw [getD_setCond] at hc
    split at hc
    · cases hc
    · exact dek_mono h hj (fun c x hp' => by rw [pendingFor_false_of_pc (Or.inr (Or.inl hpc))] at hp'; cases hp') i sl hi hp hc
  · -- set
    simp only [hpc]
    obtain ⟨c, k, r, rest, hops⟩ := hset hpc
    have hc? : n.cond?.getD 0 = c := by simp [Notifier.cond?, hops]
    have hrel : n.relaxed = r := by simp [Notifier.relaxed, hops]
    rw [hc?]
    have htemp : n.temp = [] := ht (by simp [hpc])
    refine inv_notifier_own h hj s.lock s.epoch (s.setCond c true).conds (Or.inl ⟨rfl, by rw [hpc]; cases n.relaxed <;> rfl⟩)
      rfl rfl ?_ (Or.inl rfl) ?_
    · refine ⟨hm, ?_, fun _ => htemp, ?_, ?_, ?_, ?_, ?_⟩
      · intro hne; simp [Notifier.unm, htemp] at hne
      · intro e; simp only at e; split at e <;> cases e
      · exact he
      · intro e; simp only at e; split at e <;> cases e
      · intro e; simp only at e; split at e <;> cases e
      · intro e; simp only at e; split at e <;> cases e
    · intro i sl hi hp hc
      rw [getD_setCond] at hc
      by_cases hcc : sl.cond = c
      · -- the condition this notifier just made true: it is now pending for it
        by_cases hW : i ∈ s.waitset
        · right
          refine ⟨j, { n with pc := if n.relaxed then .test else .fence }, by rw [getN_setN' hj]; simp, ?_⟩
          have hne' : sl.ops ≠ [] := by
            intro e; have := h.opsS i sl hi e; rcases hp with hp | hp <;> rw [this] at hp <;> cases hp
          obtain ⟨w, wrest, hw⟩ := List.exists_cons_of_ne_nil hne'
          have hacc := h.compat i sl hi w (by rw [hw]; simp) j n hj c k r (by rw [hops]; simp)
            (by rw [← hcc]; simp [Sleeper.cond, hw])
          have hctx : sl.ctx = w.ctx := by simp [Sleeper.ctx, hw]
          unfold pendingFor
          simp only [hops, hcc, hctx, hacc, beq_self_eq_true, Bool.true_and]
          cases k <;> cases n.relaxed <;> simp_all [NKind.accepts]
        · exact Or.inl hW
      · simp only [hcc, if_false] at hc
        exact dek_mono h hj (fun c x hp' => by rw [pendingFor_false_of_pc (Or.inl hpc)] at hp'; cases hp') i sl hi hp hc
  · -- fence
    simp only [hpc]
    have htemp : n.temp = [] := ht (by simp [hpc])
    refine inv_notifier_own h hj s.lock s.epoch s.conds (Or.inl ⟨rfl, by rw [hpc]; rfl⟩) rfl rfl ?_ (Or.inl rfl)
      (dek_mono h hj (pending_lose rfl rfl (Or.inr (Or.inl (Or.inr (Or.inl rfl))))))
    refine ⟨hm, ?_, fun _ => htemp, ?_, he, ?_, ?_, ?_⟩
    · intro hne; simp [Notifier.unm, htemp] at hne
    all_goals (intro e; simp at e)
  · -- test
    simp only [hpc]
    have htemp : n.temp = [] := ht (by simp [hpc])
    by_cases hcnt : s.count = 0
    · simp only [hcnt, if_true]
      have hws : s.waitset = [] := by
        have := h.cnt; rw [hcnt] at this; exact List.length_eq_zero_iff.mp this.symm
      refine inv_notifier_own h hj s.lock s.epoch s.conds (Or.inl ⟨rfl, by rw [holdsN_finish, hpc]; rfl⟩)
        (by rw [finish_temp, htemp]) (by rw [finish_unm]; simp [Notifier.unm, htemp]) (nloc_finish n) (Or.inr rfl) ?_
      intro i sl hi hp hc
      left; rw [hws]; simp
    · simp only [hcnt, if_false]
      refine inv_notifier_own h hj s.lock s.epoch s.conds (Or.inl ⟨rfl, by rw [hpc]; rfl⟩) rfl rfl ?_ (Or.inl rfl)
        (dek_mono h hj (pending_lose rfl rfl (Or.inr (Or.inl (Or.inr (Or.inr (Or.inl rfl)))))))
      refine ⟨hm, ?_, fun _ => htemp, ?_, he, ?_, ?_, ?_⟩
      · intro hne; simp [Notifier.unm, htemp] at hne
      all_goals (intro e; simp at e)
  · -- lock
    simp only [hpc]
    have htemp : n.temp = [] := ht (by simp [hpc])
    cases hl : s.lock with
    | some t => simp only [Option.isSome_some, if_true]; exact h
    | none =>
      simp only [Option.isSome_none, Bool.false_eq_true, if_false]
      refine inv_notifier_own h hj (some (s.nS + j)) s.epoch s.conds (Or.inr (Or.inl ⟨hl, rfl, rfl⟩)) rfl rfl ?_ (Or.inl rfl)
        (dek_mono h hj (pending_lose rfl rfl (Or.inr (Or.inl (Or.inr (Or.inr (Or.inr rfl)))))))
      refine ⟨hm, ?_, fun _ => htemp, ?_, he, ?_, ?_, ?_⟩
      · intro hne; simp [Notifier.unm, htemp] at hne
      all_goals (intro e; simp at e)
  · -- epoch
    simp only [hpc]
    have htemp : n.temp = [] := ht (by simp [hpc])
    have hnl : ∀ pc', (pc' = .unlock ∨ pc' = .flush ∨ pc' = .scan) → (pc' = .flush → n.kind = .all ∨ n.kind = .abort) →
        (pc' = .scan → n.kind ≠ .all ∧ n.kind ≠ .abort) → NLoc { n with pc := pc' } := by
      intro pc' hp' hf hs'
      refine ⟨hm, ?_, ?_, ?_, he, ?_, hf, hs'⟩
      · intro hne; simp [Notifier.unm, htemp] at hne
      · intro _; exact htemp
      · intro e; rcases hp' with e' | e' | e' <;> rw [e'] at e <;> cases e
      · intro e; rcases hp' with e' | e' | e' <;> rw [e'] at e <;> cases e
    have hscan : ∀ k, scanPick { s with epoch := s.epoch + 1 } k = scanPick s k := fun k => rfl
    cases hkind : n.kind with
    | all =>
      simp only [afterEpoch]
      by_cases hwe : s.waitset.isEmpty = true
      · simp only [hwe, if_true]
        refine inv_notifier_own h hj s.lock (s.epoch + 1) s.conds (Or.inl ⟨rfl, by rw [hpc]; rfl⟩) rfl rfl
          (hnl _ (Or.inl rfl) (by simp) (by simp)) (Or.inl rfl)
          (dek_mono h hj (pending_lose rfl rfl (Or.inl ⟨rfl, fun _ => List.isEmpty_iff.mp hwe, (fun e => by rw [hkind] at e; cases e),
            (fun c e => by rw [hkind] at e; cases e)⟩)))
      · simp only [hwe]
        refine inv_notifier_own h hj s.lock (s.epoch + 1) s.conds (Or.inl ⟨rfl, by rw [hpc]; rfl⟩) rfl rfl
          (hnl _ (Or.inr (Or.inl rfl)) (fun _ => Or.inl hkind) (by simp)) (Or.inl rfl)
          (dek_mono h hj (pending_lose rfl rfl (Or.inr (Or.inr (Or.inl ⟨rfl, Or.inl hkind⟩)))))
    | abort =>
      simp only [afterEpoch]
      by_cases hwe : s.waitset.isEmpty = true
      · simp only [hwe, if_true]
        refine inv_notifier_own h hj s.lock (s.epoch + 1) s.conds (Or.inl ⟨rfl, by rw [hpc]; rfl⟩) rfl rfl
          (hnl _ (Or.inl rfl) (by simp) (by simp)) (Or.inl rfl)
          (dek_mono h hj (pending_lose rfl rfl (Or.inl ⟨rfl, fun _ => List.isEmpty_iff.mp hwe, (fun e => by rw [hkind] at e; cases e),
            (fun c e => by rw [hkind] at e; cases e)⟩)))
      · simp only [hwe]
        refine inv_notifier_own h hj s.lock (s.epoch + 1) s.conds (Or.inl ⟨rfl, by rw [hpc]; rfl⟩) rfl rfl
          (hnl _ (Or.inr (Or.inl rfl)) (fun _ => Or.inr hkind) (by simp)) (Or.inl rfl)
          (dek_mono h hj (pending_lose rfl rfl (Or.inr (Or.inr (Or.inl ⟨rfl, Or.inr hkind⟩)))))
    | ctx c =>
      simp only [afterEpoch, hscan]
      cases hsp : scanPick s (.ctx c) with
      | none =>
        simp only [Option.isSome_none, Bool.false_eq_true, if_false]
        refine inv_notifier_own h hj s.lock (s.epoch + 1) s.conds (Or.inl ⟨rfl, by rw [hpc]; rfl⟩) rfl rfl
          (hnl _ (Or.inl rfl) (by simp) (by simp)) (Or.inl rfl)
          (dek_mono h hj (pending_lose rfl rfl (Or.inl ⟨rfl, (fun e => by rw [hkind] at e; rcases e with e | e <;> cases e),
            (fun _ => by rw [hkind]; exact hsp), (fun c' e => by rw [hkind] at e; cases e)⟩)))
      | some x =>
        simp only [Option.isSome_some, if_true]
        refine inv_notifier_own h hj s.lock (s.epoch + 1) s.conds (Or.inl ⟨rfl, by rw [hpc]; rfl⟩) rfl rfl
          (hnl _ (Or.inr (Or.inr rfl)) (by simp) (fun _ => by rw [hkind]; simp)) (Or.inl rfl)
          (dek_mono h hj (pending_lose rfl rfl (Or.inr (Or.inr (Or.inr (Or.inl ⟨Or.inl rfl, by rw [hkind]; rfl⟩))))))
    | leq c =>
      simp only [afterEpoch, hscan]
      cases hsp : scanPick s (.leq c) with
      | none =>
        simp only [Option.isSome_none, Bool.false_eq_true, if_false]
        refine inv_notifier_own h hj s.lock (s.epoch + 1) s.conds (Or.inl ⟨rfl, by rw [hpc]; rfl⟩) rfl rfl
          (hnl _ (Or.inl rfl) (by simp) (by simp)) (Or.inl rfl)
          (dek_mono h hj (pending_lose rfl rfl (Or.inl ⟨rfl, (fun e => by rw [hkind] at e; rcases e with e | e <;> cases e),
            (fun _ => by rw [hkind]; exact hsp), (fun c' e => by rw [hkind] at e; cases e)⟩)))
      | some x =>
        simp only [Option.isSome_some, if_true]
        refine inv_notifier_own h hj s.lock (s.epoch + 1) s.conds (Or.inl ⟨rfl, by rw [hpc]; rfl⟩) rfl rfl
          (hnl _ (Or.inr (Or.inr rfl)) (by simp) (fun _ => by rw [hkind]; simp)) (Or.inl rfl)
          (dek_mono h hj (pending_lose rfl rfl (Or.inr (Or.inr (Or.inr (Or.inl ⟨Or.inl rfl, by rw [hkind]; rfl⟩))))))
    | onec c =>
      simp only [afterEpoch, hscan]
      cases hsp : scanPick s (.onec c) with
      | none =>
        simp only [Option.isSome_none, Bool.false_eq_true, if_false]
        refine inv_notifier_own h hj s.lock (s.epoch + 1) s.conds (Or.inl ⟨rfl, by rw [hpc]; rfl⟩) rfl rfl
          (hnl _ (Or.inl rfl) (by simp) (by simp)) (Or.inl rfl)
          (dek_mono h hj (pending_lose rfl rfl (Or.inl ⟨rfl, (fun e => by rw [hkind] at e; rcases e with e | e <;> cases e),
            (fun e => by rw [hkind] at e; cases e), (fun c' e => by rw [hkind] at e; cases e; exact hsp)⟩)))
      | some x =>
        simp only [Option.isSome_some, if_true]
        refine inv_notifier_own h hj s.lock (s.epoch + 1) s.conds (Or.inl ⟨rfl, by rw [hpc]; rfl⟩) rfl rfl
          (hnl _ (Or.inr (Or.inr rfl)) (by simp) (fun _ => by rw [hkind]; simp)) (Or.inl rfl)
          (dek_mono h hj (pending_lose rfl rfl (Or.inr (Or.inr (Or.inr (Or.inr ⟨rfl, c, hkind⟩))))))
    | one =>
      simp only [afterEpoch, hscan]
      have hnp : ∀ c x, pendingFor n c x = true → False := by
        intro c x hp
        unfold pendingFor at hp
        split at hp
        · rename_i c' k r rest heq
          have : n.kind = k := by simp [Notifier.kind, heq]
          rw [hkind] at this; subst this; simp [NKind.accepts] at hp
        · cases hp
      cases hsp : scanPick s .one with
      | none =>
        simp only [Option.isSome_none, Bool.false_eq_true, if_false]
        exact inv_notifier_own h hj s.lock (s.epoch + 1) s.conds (Or.inl ⟨rfl, by rw [hpc]; rfl⟩) rfl rfl
          (hnl _ (Or.inl rfl) (by simp) (by simp)) (Or.inl rfl) (dek_mono h hj (fun c x hp => (hnp c x hp).elim))
      | some x =>
        simp only [Option.isSome_some, if_true]
        exact inv_notifier_own h hj s.lock (s.epoch + 1) s.conds (Or.inl ⟨rfl, by rw [hpc]; rfl⟩) rfl rfl
          (hnl _ (Or.inr (Or.inr rfl)) (by simp) (fun _ => by rw [hkind]; simp)) (Or.inl rfl) (dek_mono h hj (fun c x hp => (hnp c x hp).elim))
  · -- unlock
    simp only [hpc]
    have hl : s.lock = some (s.slp.length + j) := hLk.mp (by rw [hpc]; rfl)
    have hunm : n.unm = [] := unm_nil_of_pc ⟨hm, hu, ht, hk, he0, hset, hfl, hsc⟩ (by rw [hpc]; simp)
    have hnp : ∀ c x, pendingFor n c x = true → pendingFor n c x = true → False := by
      intro c x hp _; rw [pendingFor_false_of_pc (Or.inr (Or.inr (Or.inl hpc)))] at hp; cases hp
    by_cases hte : n.temp.isEmpty = true
    · simp only [hte, if_true]
      have htemp : n.temp = [] := List.isEmpty_iff.mp hte
      refine inv_notifier_own h hj none s.epoch s.conds (Or.inr (Or.inr ⟨hl, rfl, holdsN_finish n⟩))
        (by rw [finish_temp, htemp]) (by rw [finish_unm, hunm]) (nloc_finish n) (Or.inr rfl)
        (dek_mono h hj (fun c x hp => (hnp c x hp hp).elim))
    · simp only [hte]
      refine inv_notifier_own h hj none s.epoch s.conds (Or.inr (Or.inr ⟨hl, rfl, rfl⟩)) rfl rfl ?_ (Or.inl rfl)
        (dek_mono h hj (fun c x hp => (hnp c x hp hp).elim))
      refine ⟨hm, ?_, ?_, ?_, ?_, ?_, ?_, ?_⟩
      · intro hne; exact absurd hunm hne
      · intro e; simp at e
      · intro e; simp at e
      · exact he
      · intro e; simp at e
      · intro e; simp at e
      · intro e; simp at e


theorem pendingFor_kind_one {n : Notifier} (hk : n.kind = .one) {c x : Nat} : pendingFor n c x = false := by
  unfold pendingFor
  split
  · rename_i c' k r rest heq
    have : n.kind = k := by simp [Notifier.kind, heq]
    rw [hk] at this; subst this; simp [NKind.accepts]
  · rfl

theorem pendingFor_mark_false {n : Notifier} (hpc : n.pc = .mark) (hk : n.kind = .all ∨ n.kind = .abort) {c x : Nat} :
    pendingFor n c x = false := by
  unfold pendingFor
  split
  · rename_i c' k r rest heq
    have : n.kind = k := by simp [Notifier.kind, heq]
    rw [this] at hk
    rcases hk with hk | hk <;> subst hk <;> simp [hpc]
  · rfl

theorem pendingFor_mark_false_onec {n : Notifier} (hpc : n.pc = .mark) {c0 : Nat} (hk : n.kind = .onec c0) {c x : Nat} :
    pendingFor n c x = false := by
  unfold pendingFor
  split
  · rename_i c' k r rest heq
    have : n.kind = k := by simp [Notifier.kind, heq]
    rw [this] at hk; subst hk; simp [hpc]
  · rfl

/-- a pending `notify_one(pred)`: its predicate is `context == x` and it is the head of the notifier's program -/
theorem pendingFor_onec_inv {n : Notifier} {c0 : Nat} (hk : n.kind = .onec c0) {c x : Nat} (hp : pendingFor n c x = true) :
    x = c0 ∧ ∃ r rest, n.ops = .sig (some c) (.onec c0) r :: rest := by
  unfold pendingFor at hp
  split at hp
  · rename_i c' k r rest heq
    have hk' : n.kind = k := by simp [Notifier.kind, heq]
    rw [hk] at hk'; subst hk'
    simp only [Bool.and_eq_true, beq_iff_eq] at hp
    obtain ⟨⟨hc, hacc⟩, _⟩ := hp
    subst hc
    exact ⟨accepts_onec hacc, r, rest, heq⟩
  · cases hp

theorem nodup_count {l : List Nat} (h : l.Nodup) (k : Nat) : l.count k = if k ∈ l then 1 else 0 := h.count

/-- nobody but the lock holder is inside a critical section -/
theorem not_holdsS_of_lockN {s : St} (h : Inv s) {j : Nat} {n : Notifier} (hj : s.ntf[j]? = some n)
    (hh : holdsN n.pc = true) {k : Nat} {sl : Sleeper} (hk : s.slp[k]? = some sl) : holdsS sl.pc = false := by
  have hl := (h.lockN j n hj).mp hh
  cases hs : holdsS sl.pc
  · rfl
  · have := (h.lockS k sl hk).mp hs
    rw [hl] at this
    have hlt := getElem?_lt hk
    simp at this; omega

/-- flush (notify_all / abort_all): the whole waitset moves to the notifier's local list -/
theorem stepN_inv_flush {s : St} (h : Inv s) {j : Nat} {n : Notifier} (hj : s.ntf[j]? = some n)
    (hemp : n.ops.isEmpty = false) (hpc : n.pc = .flush) : Inv (stepN s j n) := by
  obtain ⟨hm, hu, ht, hk, he0, hset, hfl, hsc⟩ := h.ntf j n hj
  have hne : n.ops ≠ [] := by intro e; rw [e] at hemp; simp at hemp
  have htemp : n.temp = [] := ht (by simp [hpc])
  have hkind := hfl hpc
  unfold stepN
  simp only [hemp, Bool.false_eq_true, if_false, hpc]
  refine inv_notifier_gen h hj [] 0 s.slp rfl (fun k sl' hk => ⟨sl', hk, rfl, rfl⟩) ?_ (by simp) rfl (by simp) ?_ (Or.inl rfl) ?_ ?_
  · rw [hpc]; cases s.waitset <;> rfl
  · -- NLoc
    refine ⟨by simp, ?_, ?_, ?_, fun e => absurd e hne, ?_, ?_, ?_⟩
    · intro hne'
      cases hw : s.waitset with
      | nil => simp [Notifier.unm, hw] at hne'
      | cons a l => simp
    · intro e; cases hw : s.waitset <;> simp [hw] at e
    · intro e
      cases hw : s.waitset with
      | nil => simp [hw] at e
      | cons a l => exact ⟨by simp, by
          rcases hkind with hk' | hk'
          · exact Or.inl (by simpa [Notifier.kind] using hk')
          · exact Or.inr (Or.inl (by simpa [Notifier.kind] using hk'))⟩
    · intro e; cases hw : s.waitset <;> simp [hw] at e
    · intro e; cases hw : s.waitset <;> simp [hw] at e
    · intro e; cases hw : s.waitset <;> simp [hw] at e
  · -- sleepers
    intro k sl hk
    have hold := h.slp k sl hk
    have hP := pend_setN (n' := { n with temp := s.waitset, marked := 0, pc := if s.waitset.isEmpty then .unlock else .mark }) hj k
    simp only [htemp, List.count_nil, Nat.add_zero] at hP
    rw [nodup_count h.nodup] at hP
    by_cases hW : k ∈ s.waitset
    · simp only [hW, if_true] at hP
      rw [hP]
      have hnh := not_holdsS_of_lockN h hj (by rw [hpc]; rfl) hk
      have : (k ∈ ([] : List Nat)) = False := by simp
      rw [this]
      have hW' : (k ∈ s.waitset) = True := by simp [hW]
      rw [hW'] at hold
      exact SLoc_deq hold hnh (Unm_setN_self hj (by simpa [Notifier.unm] using hW))
    · simp only [hW, if_false, Nat.add_zero] at hP
      refine SLoc_congr (by simp [hW]) hP (Unm_setN_congr hj ?_) hold
      simp [Notifier.unm, htemp, hW]
  · intro i sl' hi _ _; left; simp

/-- scan (notify(pred) / notify_one): one matching node moves to the notifier's local list -/
theorem stepN_inv_scan {s : St} (h : Inv s) {j : Nat} {n : Notifier} (hj : s.ntf[j]? = some n)
    (hemp : n.ops.isEmpty = false) (hpc : n.pc = .scan) : Inv (stepN s j n) := by
  have hN := h.ntf j n hj
  obtain ⟨hm, hu, ht, hk, he0, hset, hfl, hsc⟩ := hN
  have hne : n.ops ≠ [] := by intro e; rw [e] at hemp; simp at hemp
  have hmk : n.marked = n.temp.length := marked_eq_of_pc (h.ntf j n hj) (by rw [hpc]; simp)
  have hunm : n.unm = [] := unm_nil_of_pc (h.ntf j n hj) (by rw [hpc]; simp)
  unfold stepN
  simp only [hemp, Bool.false_eq_true, if_false, hpc]
  cases hsp : scanPick s n.kind with
  | none =>
    simp only
    refine inv_notifier_own h hj s.lock s.epoch s.conds (Or.inl ⟨rfl, by rw [hpc]; rfl⟩) rfl rfl ?_ (Or.inl rfl) ?_
    · refine ⟨hm, fun e => absurd hunm e, ?_, ?_, fun e => absurd e hne, ?_, ?_, ?_⟩ <;> (intro e; simp at e)
    · refine dek_mono h hj (pending_lose rfl rfl (Or.inl ⟨rfl, ?_, ?_, ?_⟩))
      · intro hk'; have := hsc hpc; rcases hk' with hk' | hk' <;> simp [hk'] at this
      · intro _; exact hsp
      · intro c hk'; rw [hk'] at hsp; exact hsp
  | some x =>
    simp only
    have hxW : x ∈ s.waitset := scanPick_mem hsp
    have hkind : n.kind ≠ .all ∧ n.kind ≠ .abort := hsc hpc
    have hdrop : ({ n with temp := n.temp ++ [x], pc := NPc.mark } : Notifier).unm = [x] := by
      simp [Notifier.unm, hmk]
    refine inv_notifier_gen h hj (s.waitset.erase x) (s.count - 1) s.slp rfl (fun k sl' hk => ⟨sl', hk, rfl, rfl⟩)
      (by rw [hpc]; rfl) (h.nodup.erase x) (by rw [List.length_erase_of_mem hxW, h.cnt])
      (fun y hy => List.mem_of_mem_erase hy) ?_ (Or.inl rfl) ?_ ?_
    · refine ⟨by simp; omega, fun _ => rfl, ?_, ?_, fun e => absurd e hne, ?_, ?_, ?_⟩
      · intro e; simp at e
      · intro _; exact ⟨by simp; omega, Or.inr (Or.inr (by simp; omega))⟩
      all_goals (intro e; simp at e)
    · intro k sl hk
      have hold := h.slp k sl hk
      have hP := pend_setN (n' := { n with temp := n.temp ++ [x], pc := NPc.mark }) hj k
      simp only [List.count_append, List.count_singleton] at hP
      by_cases hkx : k = x
      · subst hkx
        simp only [beq_self_eq_true, if_true] at hP
        have hP' : pend (s.setN j { n with temp := n.temp ++ [k], pc := NPc.mark }) k = pend s k + 1 := by omega
        rw [hP']
        have hnh := not_holdsS_of_lockN h hj (by rw [hpc]; rfl) hk
        have : (k ∈ s.waitset.erase k) = False := by simp [h.nodup.mem_erase_iff]
        rw [this]
        have hW' : (k ∈ s.waitset) = True := by simp [hxW]
        rw [hW'] at hold
        exact SLoc_deq hold hnh (Unm_setN_self hj (by rw [hdrop]; simp))
      · have hxk : (x == k) = false := by simp; exact fun e => hkx e.symm
        simp only [hxk, Bool.false_eq_true, if_false, Nat.add_zero] at hP
        refine SLoc_congr (List.mem_erase_of_ne hkx) (by omega) (Unm_setN_congr hj ?_) hold
        rw [hdrop, hunm]; simp [hkx]
    · intro i sl hi hp hc
      rcases h.dek i sl hi hp hc with hW | hpd
      · exact Or.inl (fun hm' => hW (List.mem_of_mem_erase hm'))
      · cases hkd : n.kind with
        | all => exact absurd hkd hkind.1
        | abort => exact absurd hkd hkind.2
        | one =>
          refine Or.inr (exists_pending_setN hj ?_ hpd)
          intro hp'; rw [pendingFor_kind_one hkd] at hp'; cases hp'
        | ctx c =>
          refine Or.inr (exists_pending_setN hj ?_ hpd)
          intro hp'
          exact pending_keep (n := n) (n' := { n with temp := n.temp ++ [x], pc := NPc.mark }) rfl rfl
            (Or.inr (Or.inr (Or.inl ⟨Or.inr rfl, by rw [hkd]; rfl⟩))) _ _ hp'
        | leq c =>
          refine Or.inr (exists_pending_setN hj ?_ hpd)
          intro hp'
          exact pending_keep (n := n) (n' := { n with temp := n.temp ++ [x], pc := NPc.mark }) rfl rfl
            (Or.inr (Or.inr (Or.inl ⟨Or.inr rfl, by rw [hkd]; rfl⟩))) _ _ hp'
        | onec c0 =>
          -- notify_one(pred) stops after this node: by `Uniq` it is the only waiter with that context
          obtain ⟨j', m, hm, hpm⟩ := hpd
          by_cases e : j = j'
          · subst e; rw [hj] at hm; cases hm
            left
            obtain ⟨hctx, r, rest, hops⟩ := pendingFor_onec_inv hkd hpm
            rw [hkd] at hsp
            have hcx : s.ctxOf x = c0 := scanPick_onec_ctx hsp
            obtain ⟨slx, hslx⟩ := h.wsv x hxW
            have hslne : sl.ops ≠ [] := by
              intro e0; have := h.opsS i sl hi e0; rcases hp with hp | hp <;> rw [this] at hp <;> cases hp
            have hxne : slx.ops ≠ [] := by
              intro e0
              have hi0 := h.opsS x slx hslx e0
              have hS := h.slp x slx hslx
              simp only [SLoc, hi0] at hS
              exact hS.1 hxW
            obtain ⟨w, wr, hw⟩ := List.exists_cons_of_ne_nil hslne
            obtain ⟨wx, wxr, hwx⟩ := List.exists_cons_of_ne_nil hxne
            have h1 : w.ctx = c0 := by rw [← hctx]; simp [Sleeper.ctx, hw]
            have h2 : wx.ctx = c0 := by rw [← hcx]; simp [St.ctxOf, hslx, Sleeper.ctx, hwx]
            have hix : i = x := h.uniq j n hj sl.cond c0 r (by rw [hops]; simp) i x sl slx hi hslx
              w (by rw [hw]; simp) wx (by rw [hwx]; simp) (by simp [Sleeper.cond, hw]) h1 h2
            subst hix
            simp [h.nodup.mem_erase_iff]
          · exact Or.inr ⟨j', m, by rw [getN_setN' hj]; simp [e]; exact hm, hpm⟩

/-! ### writing to a node: `modS` -/

theorem modS_slp_get (s : St) (x : Nat) (f : Sleeper → Sleeper) (k : Nat) :
    (modS s x f).slp[k]? = if k = x then (s.slp[x]?).map f else s.slp[k]? := by
  unfold modS
  cases hx : s.slp[x]? with
  | none => split <;> simp_all
  | some sl =>
    simp only [St.setS, List.getElem?_set, Option.map_some]
    by_cases e : k = x
    · subst e; simp [getElem?_lt hx]
    · simp [e, Ne.symm e]

theorem modS_eq (s : St) (x : Nat) (f : Sleeper → Sleeper) : modS s x f = { s with slp := (modS s x f).slp } := by
  unfold modS; cases s.slp[x]? <;> rfl

theorem modS_len (s : St) (x : Nat) (f : Sleeper → Sleeper) : (modS s x f).slp.length = s.slp.length := by
  unfold modS; cases s.slp[x]? <;> simp [St.setS]

theorem modS_get_cases {s : St} {x : Nat} {f : Sleeper → Sleeper} {k : Nat} {sl' : Sleeper}
    (h : (modS s x f).slp[k]? = some sl') :
    (k = x ∧ ∃ sl, s.slp[x]? = some sl ∧ sl' = f sl) ∨ (k ≠ x ∧ s.slp[k]? = some sl') := by
  rw [modS_slp_get] at h
  by_cases e : k = x
  · simp only [e, if_true, Option.map_eq_some_iff] at h
    obtain ⟨sl, h1, h2⟩ := h
    exact Or.inl ⟨e, sl, h1, h2.symm⟩
  · simp only [e, if_false] at h; exact Or.inr ⟨e, h⟩

theorem scanPick_modS (s : St) (x : Nat) (f : Sleeper → Sleeper) (hf : ∀ sl, (f sl).ops = sl.ops) (k : NKind) :
    scanPick (modS s x f) k = scanPick s k := by
  have hw : (modS s x f).waitset = s.waitset := by unfold modS; cases s.slp[x]? <;> rfl
  have hc : ∀ y, (modS s x f).ctxOf y = s.ctxOf y := by
    intro y
    unfold St.ctxOf
    rw [modS_slp_get]
    by_cases e : y = x
    · subst e; simp only [if_true]
      cases s.slp[y]? with
      | none => rfl
      | some sl => simp [Sleeper.ctx, hf]
    · simp [e]
  unfold scanPick
  cases k <;> simp only [hw, hc]

/-- mark: the notifier clears `my_is_in_list` of the next dequeued node -/
theorem stepN_inv_mark {s : St} (h : Inv s) {j : Nat} {n : Notifier} (hj : s.ntf[j]? = some n)
    (hemp : n.ops.isEmpty = false) (hpc : n.pc = .mark) : Inv (stepN s j n) := by
  obtain ⟨hm, hu, ht, hk, he0, hset, hfl, hsc⟩ := h.ntf j n hj
  have hne : n.ops ≠ [] := by intro e; rw [e] at hemp; simp at hemp
  obtain ⟨hlt, hkk⟩ := hk hpc
  unfold stepN
  simp only [hemp, Bool.false_eq_true, if_false, hpc]
  have hx : n.temp[n.marked]? = some n.temp[n.marked] := List.getElem?_eq_getElem hlt
  generalize hxx : n.temp[n.marked] = x at hx
  simp only [hx]
  let f : Sleeper → Sleeper := fun sl => { sl with inList := false }
  have hf : ∀ sl, (f sl).ops = sl.ops := fun _ => rfl
  have hae : afterMark (modS s x f) n = afterMark s n := by
    unfold afterMark afterEpoch
    have hw : (modS s x f).waitset = s.waitset := by unfold modS; cases s.slp[x]? <;> rfl
    cases n.kind <;> simp only [hw, scanPick_modS s x f hf]
  show Inv ((modS s x f).setN j { n with marked := n.marked + 1, pc := afterMark (modS s x f) n })
  rw [hae, modS_eq s x f]
  have hxt : x ∈ n.temp := by rw [← hxx]; exact List.getElem_mem hlt
  have hdrop : n.temp.drop n.marked = x :: n.temp.drop (n.marked + 1) := by
    rw [List.drop_eq_getElem_cons hlt, hxx]
  -- the next program counter, by kind
  have hnxt : (afterMark s n = .mark ∧ n.marked + 1 < n.temp.length ∧ (n.kind = .all ∨ n.kind = .abort)) ∨
      (afterMark s n = .unlock ∧ n.temp.length ≤ n.marked + 1 ∧
        ((n.kind = .all ∨ n.kind = .abort ∨ n.kind = .one ∨ ∃ c, n.kind = .onec c) ∨ (n.kind.isPredAll = true ∧ scanPick s n.kind = none))) ∨
      (afterMark s n = .scan ∧ n.temp.length ≤ n.marked + 1 ∧ n.kind.isPredAll = true) := by
    unfold afterMark
    cases hkd : n.kind with
    | all =>
      simp only
      by_cases hlt2 : n.marked + 1 < n.temp.length
      · simp [hlt2]
      · simp [hlt2]; omega
    | abort =>
      simp only
      by_cases hlt2 : n.marked + 1 < n.temp.length
      · simp [hlt2]
      · simp [hlt2]; omega
    | one =>
      have : n.temp.length ≤ n.marked + 1 := by
        rcases hkk with h1 | h1 | h1
        · rw [hkd] at h1; cases h1
        · rw [hkd] at h1; cases h1
        · exact h1
      simp [this]
    | onec c =>
      have : n.temp.length ≤ n.marked + 1 := by
        rcases hkk with h1 | h1 | h1
        · rw [hkd] at h1; cases h1
        · rw [hkd] at h1; cases h1
        · exact h1
      simp [this]
    | ctx c =>
      have : n.temp.length ≤ n.marked + 1 := by
        rcases hkk with h1 | h1 | h1
        · rw [hkd] at h1; cases h1
        · rw [hkd] at h1; cases h1
        · exact h1
      simp only [afterEpoch]
      cases hsp : scanPick s (.ctx c) with
      | none => simp [this, NKind.isPredAll]
      | some y => simp [this, NKind.isPredAll]
    | leq c =>
      have : n.temp.length ≤ n.marked + 1 := by
        rcases hkk with h1 | h1 | h1
        · rw [hkd] at h1; cases h1
        · rw [hkd] at h1; cases h1
        · exact h1
      simp only [afterEpoch]
      cases hsp : scanPick s (.leq c) with
      | none => simp [this, NKind.isPredAll]
      | some y => simp [this, NKind.isPredAll]
  generalize afterMark s n = nxt at hnxt
  refine inv_notifier_gen h hj s.waitset s.count (modS s x f).slp (modS_len s x f) ?_ ?_ h.nodup h.cnt (fun _ hy => hy) ?_ (Or.inl rfl) ?_ ?_
  · intro k sl' hk'
    rcases modS_get_cases hk' with ⟨e, sl, h1, h2⟩ | ⟨_, h1⟩
    · subst e; exact ⟨sl, h1, by rw [h2], by rw [h2]⟩
    · exact ⟨sl', h1, rfl, rfl⟩
  · rw [hpc]; rcases hnxt with ⟨e, _⟩ | ⟨e, _⟩ | ⟨e, _⟩ <;> rw [e] <;> rfl
  · -- NLoc
    refine ⟨by simp; omega, ?_, ?_, ?_, fun e => absurd e hne, ?_, ?_, ?_⟩
    · intro hne'
      simp only [Notifier.unm, ne_eq, List.drop_eq_nil_iff, Nat.not_le] at hne'
      rcases hnxt with ⟨e, _⟩ | ⟨_, e, _⟩ | ⟨_, e, _⟩
      · exact e
      · omega
      · omega
    · intro e; simp only at e; rcases hnxt with ⟨e', _⟩ | ⟨e', _⟩ | ⟨e', _⟩ <;> rw [e'] at e <;> simp at e
    · intro e
      simp only at e
      rcases hnxt with ⟨_, h1, h2⟩ | ⟨e', _⟩ | ⟨e', _⟩
      · refine ⟨h1, ?_⟩
        rcases h2 with h2 | h2
        · exact Or.inl (by simpa [Notifier.kind] using h2)
        · exact Or.inr (Or.inl (by simpa [Notifier.kind] using h2))
      · rw [e'] at e; cases e
      · rw [e'] at e; cases e
    · intro e; simp only at e; rcases hnxt with ⟨e', _⟩ | ⟨e', _⟩ | ⟨e', _⟩ <;> rw [e'] at e <;> cases e
    · intro e; simp only at e; rcases hnxt with ⟨e', _⟩ | ⟨e', _⟩ | ⟨e', _⟩ <;> rw [e'] at e <;> cases e
    · intro e
      simp only at e
      rcases hnxt with ⟨e', _⟩ | ⟨e', _⟩ | ⟨_, _, hc⟩
      · rw [e'] at e; cases e
      · rw [e'] at e; cases e
      · have : ({ n with marked := n.marked + 1, pc := nxt } : Notifier).kind = n.kind := rfl
        rw [this]; constructor <;> (intro e2; rw [e2] at hc; cases hc)
  · -- sleepers
    intro k sl' hk'
    have hP : pend (s.setN j { n with marked := n.marked + 1, pc := nxt }) k = pend s k :=
      pend_setN_same (n' := { n with marked := n.marked + 1, pc := nxt }) hj rfl k
    rw [hP]
    rcases modS_get_cases hk' with ⟨e, sl, h1, h2⟩ | ⟨e, h1⟩
    · subst e; subst h2
      have hold := h.slp k sl h1
      have h1P : 1 ≤ pend s k := Nat.le_trans (List.count_pos_iff.mpr hxt) (pend_ge hj k)
      exact SLoc_mark hold h1P
    · have hold := h.slp k sl' h1
      refine SLoc_congr Iff.rfl rfl (Unm_setN_congr hj ?_) hold
      simp only [Notifier.unm]
      rw [hdrop]; simp [e]
  · -- dek
    intro i sl' hi hp hc
    have hmono : ∀ c x, pendingFor n c x = true → pendingFor { n with marked := n.marked + 1, pc := nxt } c x = true ∨
        ∀ (i : Nat) (sl : Sleeper), s.slp[i]? = some sl → sl.ctx = x → i ∉ s.waitset := by
      intro c x hp'
      rcases hnxt with ⟨_, _, hka⟩ | ⟨e, _, hka | ⟨hc0, hsp⟩⟩ | ⟨e, _, hc0⟩
      · rw [pendingFor_mark_false hpc hka] at hp'; cases hp'
      · rcases hka with hka | hka | hka | ⟨c1, hka⟩
        · rw [pendingFor_mark_false hpc (Or.inl hka)] at hp'; cases hp'
        · rw [pendingFor_mark_false hpc (Or.inr hka)] at hp'; cases hp'
        · rw [pendingFor_kind_one hka] at hp'; cases hp'
        · rw [pendingFor_mark_false_onec hpc hka] at hp'; cases hp'
      · exact pending_lose (n := n) (n' := { n with marked := n.marked + 1, pc := nxt }) rfl rfl (Or.inl ⟨e,
          (fun hka => by rcases hka with hka | hka <;> rw [hka] at hc0 <;> cases hc0),
          (fun _ => hsp),
          (fun c' hc' => by rw [hc'] at hc0; cases hc0)⟩) c x hp'
      · exact Or.inl (pending_keep (n := n) (n' := { n with marked := n.marked + 1, pc := nxt }) rfl rfl
          (Or.inr (Or.inr (Or.inl ⟨Or.inl e, hc0⟩))) c x hp')
    rcases modS_get_cases hi with ⟨e, sl, h1, h2⟩ | ⟨e, h1⟩
    · subst e; subst h2
      exact dek_mono h hj hmono i sl h1 hp hc
    · exact dek_mono h hj hmono i sl' h1 hp hc

/-- v: the notifier delivers the V it owes to the first node of its local list (abort_all sets my_aborted first) -/
theorem stepN_inv_v {s : St} (h : Inv s) {j : Nat} {n : Notifier} (hj : s.ntf[j]? = some n)
    (hemp : n.ops.isEmpty = false) (hpc : n.pc = .v) : Inv (stepN s j n) := by
  have hN := h.ntf j n hj
  obtain ⟨hm, hu, ht, hk, he0, hset, hfl, hsc⟩ := hN
  have hne : n.ops ≠ [] := by intro e; rw [e] at hemp; simp at hemp
  have hmk : n.marked = n.temp.length := marked_eq_of_pc (h.ntf j n hj) (by rw [hpc]; simp)
  have hunm : n.unm = [] := unm_nil_of_pc (h.ntf j n hj) (by rw [hpc]; simp)
  have hnp : ∀ (n' : Notifier) c x, pendingFor n c x = true → pendingFor n' c x = true ∨
      ∀ (i : Nat) (sl : Sleeper), s.slp[i]? = some sl → sl.ctx = x → i ∉ s.waitset := by
    intro n' c x hp; rw [pendingFor_false_of_pc (Or.inr (Or.inr (Or.inr hpc)))] at hp; cases hp
  unfold stepN
  simp only [hemp, Bool.false_eq_true, if_false, hpc]
  cases htemp : n.temp with
  | nil =>
    simp only
    refine inv_notifier_own h hj s.lock s.epoch s.conds (Or.inl ⟨rfl, by rw [holdsN_finish, hpc]; rfl⟩)
      (by rw [finish_temp, htemp]) (by rw [finish_unm, hunm]) (nloc_finish n) (Or.inr rfl) (dek_mono h hj (hnp _))
  | cons x rest =>
    simp only
    let g : Sleeper → Sleeper := fun sl => { sl with sem := sl.sem + 1, aborted := sl.aborted || (n.kind == .abort) }
    generalize hn' : (if rest.isEmpty then n.finish else ({ ops := n.ops, pc := NPc.v, temp := rest, marked := n.marked - 1 } : Notifier)) = n'
    have hn'temp : n'.temp = rest := by
      rw [← hn']; split
      · rename_i hr; rw [finish_temp]; exact (List.isEmpty_iff.mp hr).symm
      · rfl
    have hn'unm : n'.unm = [] := by
      rw [← hn']; split
      · exact finish_unm n
      · simp [Notifier.unm, hmk, htemp]
    show Inv ((modS s x g).setN j n')
    rw [modS_eq s x g]
    refine inv_notifier_gen h hj s.waitset s.count (modS s x g).slp (modS_len s x g) ?_ ?_ h.nodup h.cnt (fun _ hy => hy) ?_ ?_ ?_ ?_
    · intro k sl' hk'
      rcases modS_get_cases hk' with ⟨e, sl, h1, h2⟩ | ⟨_, h1⟩
      · subst e; exact ⟨sl, h1, by rw [h2], by rw [h2]⟩
      · exact ⟨sl', h1, rfl, rfl⟩
    · rw [hpc, ← hn']; split
      · rw [holdsN_finish]; rfl
      · rfl
    · -- NLoc
      rw [← hn']; split
      · exact nloc_finish n
      · refine ⟨by simp; rw [hmk, htemp]; simp, ?_, ?_, ?_, fun e => absurd e hne, ?_, ?_, ?_⟩
        · intro hne'; simp [Notifier.unm, hmk, htemp] at hne'
        all_goals (intro e; simp [hpc] at e)
    · rw [← hn']; split
      · exact Or.inr rfl
      · exact Or.inl rfl
    · -- sleepers
      intro k sl' hk'
      have hP := pend_setN (n' := n') hj k
      rw [hn'temp, htemp, List.count_cons] at hP
      have hU : Unm (s.setN j n') k ↔ Unm s k := Unm_setN_congr hj (by rw [hn'unm, hunm])
      rcases modS_get_cases hk' with ⟨e, sl, h1, h2⟩ | ⟨e, h1⟩
      · subst e; subst h2
        have hold := h.slp k sl h1
        simp only [beq_self_eq_true, if_true] at hP
        have hP' : pend s k = pend (s.setN j n') k + 1 := by omega
        rw [hP'] at hold
        exact SLoc_congr Iff.rfl rfl hU (SLoc_v _ hold)
      · have hold := h.slp k sl' h1
        have hxk : (x == k) = false := by simp; exact fun e' => e e'.symm
        simp only [hxk, Bool.false_eq_true, if_false, Nat.add_zero] at hP
        exact SLoc_congr Iff.rfl (by omega) hU hold
    · -- dek
      intro i sl' hi hp hc
      rcases modS_get_cases hi with ⟨e, sl, h1, h2⟩ | ⟨e, h1⟩
      · subst e; subst h2
        exact dek_mono h hj (hnp n') i sl h1 hp hc
      · exact dek_mono h hj (hnp n') i sl' h1 hp hc

theorem stepN_inv {s : St} (h : Inv s) {j : Nat} {n : Notifier} (hj : s.ntf[j]? = some n) : Inv (stepN s j n) := by
  by_cases hemp : n.ops.isEmpty = true
  · unfold stepN; simp only [hemp, if_true]; exact h
  have hemp' : n.ops.isEmpty = false := by simpa using hemp
  cases hpc : n.pc with
  | set => exact stepN_inv_own h hj hemp' (by simp [hpc])
  | clr => exact stepN_inv_own h hj hemp' (by simp [hpc])
  | fence => exact stepN_inv_own h hj hemp' (by simp [hpc])
  | test => exact stepN_inv_own h hj hemp' (by simp [hpc])
  | lock => exact stepN_inv_own h hj hemp' (by simp [hpc])
  | epoch => exact stepN_inv_own h hj hemp' (by simp [hpc])
  | unlock => exact stepN_inv_own h hj hemp' (by simp [hpc])
  | flush => exact stepN_inv_flush h hj hemp' hpc
  | scan => exact stepN_inv_scan h hj hemp' hpc
  | mark => exact stepN_inv_mark h hj hemp' hpc
  | v => exact stepN_inv_v h hj hemp' hpc

end TbbVerif.C02
