/-
C02 / bounded queue: `abort()` wakes everybody.  Invariant `KInv`: a thread whose wait predicate has seen the abort
counter unchanged (it is between the counter load of the predicate and the return of `P()`) and whose node is still in
the wait set although `my_abort_counter` has changed since, has an `abort_all` of that monitor still before its flush.
Holds for EVERY history (aborted pushes, racing aborts included).
-/
import TbbVerif.Proofs.C02.BQGhost
import TbbVerif.Proofs.C02.BQMon
set_option linter.unusedSimpArgs false
namespace TbbVerif.C02.BQ
open TbbVerif.C02

/-- sleepers other than the stepping thread's: program counter and program unchanged, nobody enters the wait set -/
def SlpOther (m m' : C02.St) (t : Nat) : Prop :=
  (∀ (k : Nat) (sl' : Sleeper), k ≠ t → m'.slp[k]? = some sl' → ∃ sl0 : Sleeper, m.slp[k]? = some sl0 ∧ sl'.pc = sl0.pc ∧ sl'.ops = sl0.ops) ∧
  (∀ k, k ≠ t → k ∈ m'.waitset → k ∈ m.waitset)

theorem slpOther_refl (m : C02.St) (t : Nat) : SlpOther m m t :=
  ⟨fun k sl' _ h => ⟨sl', h, rfl, rfl⟩, fun _ _ h => h⟩

theorem slpOther_of_eq {m m' : C02.St} (t : Nat) (h1 : m'.slp = m.slp) (h2 : m'.waitset = m.waitset) : SlpOther m m' t :=
  ⟨fun k sl' _ h => ⟨sl', by rw [← h1]; exact h, rfl, rfl⟩, fun _ _ h => by rw [← h2]; exact h⟩

theorem slpOther_arm (m : C02.St) (t k : Nat) : SlpOther m (arm m t k) t :=
  slpOther_of_eq t (arm_frame m t k).1 (arm_frame m t k).2.1
theorem slpOther_disarm (m : C02.St) (t : Nat) : SlpOther m (disarm m t) t :=
  slpOther_of_eq t (disarm_frame m t).1 (disarm_frame m t).2.1
theorem slpOther_disarmC (m : C02.St) (t c : Nat) : SlpOther m ((disarm m t).setCond c false) t :=
  slpOther_of_eq t (disarm_frame m t).1 (disarm_frame m t).2.1
theorem slpOther_armAbort (m : C02.St) (t : Nat) : SlpOther m (armAbort m t) t :=
  slpOther_of_eq t (armAbort_frame m t).1 (armAbort_frame m t).2.1
theorem slpOther_ntfStep (m : C02.St) (t : Nat) : SlpOther m (ntfStep m t) t :=
  ⟨fun k sl' _ h => (ntfStep_frame m t).2.2.2.2.2.2 k sl' h, fun k _ h => (ntfStep_frame m t).2.2.2.2.2.1 k h⟩
theorem slpOther_startWait (m : C02.St) (t c : Nat) : SlpOther m (startWait m t c) t :=
  ⟨fun k sl' hk h => ⟨sl', by rw [← (startWait_frame m t c).2.2.2.1 k hk]; exact h, rfl, rfl⟩,
   fun _ _ h => by rw [← (startWait_frame m t c).2.2.1]; exact h⟩
theorem slpOther_waitStep (m : C02.St) (t : Nat) (th : Thr) (ac : Nat) (r : Bool) : SlpOther m (waitStep m t th ac r).1 t :=
  ⟨fun k sl' hk h => ⟨sl', by rw [← (waitStep_frame m t th ac r).2.2.1 k hk]; exact h, rfl, rfl⟩,
   fun k hk h => ((waitStep_frame m t th ac r).2.2.2 k hk).mp h⟩

theorem stepT_slpOther (s : St) (t : Nat) (th : Thr) :
    SlpOther s.slots (stepT s t th).slots t ∧ SlpOther s.items (stepT s t th).items t := by
  unfold stepT
  split
  · exact ⟨slpOther_refl _ _, slpOther_refl _ _⟩
  · split
    all_goals (try dsimp only)
    all_goals (repeat' split)
    all_goals refine ⟨?_, ?_⟩
    all_goals first
      | exact slpOther_refl _ _
      | exact slpOther_arm _ _ _
      | exact slpOther_disarm _ _
      | exact slpOther_disarmC _ _ _
      | exact slpOther_armAbort _ _
      | exact slpOther_ntfStep _ _
      | exact slpOther_startWait _ _ _
      | exact slpOther_waitStep _ _ _ _ _

end TbbVerif.C02.BQ

namespace TbbVerif.C02.BQ
open TbbVerif.C02

theorem pendingAbort_iff (n : Notifier) : pendingAbort n = true ↔
    n.ops = [abortOp] ∧ (n.pc = .fence ∨ n.pc = .test ∨ n.pc = .lock ∨ n.pc = .epoch ∨ n.pc = .flush) := by
  simp [pendingAbort, abortOp, or_assoc]

theorem abort_progress {m : C02.St} (h : Inv m) {j : Nat} {n : Notifier} (hj : m.ntf[j]? = some n) (hp : pendingAbort n = true) :
    (∃ n', (stepN m j n).ntf[j]? = some n' ∧ pendingAbort n' = true) ∨ (stepN m j n).waitset = [] := by
  rw [pendingAbort_iff] at hp
  obtain ⟨ho, hpc⟩ := hp
  have hlt := getElem?_lt hj
  have hk : n.kind = .abort := by simp [Notifier.kind, ho, abortOp]
  have hget : ∀ (s' : C02.St) (n' : Notifier), s'.ntf = m.ntf → (s'.setN j n').ntf[j]? = some n' := by
    intro s' n' e; simp [St.setN, e, List.getElem?_set, hlt]
  unfold stepN
  simp only [ho, abortOp, List.isEmpty_cons, Bool.false_eq_true, if_false]
  rcases hpc with e | e | e | e | e <;> simp only [e]
  · left; exact ⟨_, hget _ _ rfl, by rw [pendingAbort_iff]; exact ⟨rfl, Or.inr (Or.inl rfl)⟩⟩
  · by_cases hc : m.count = 0
    · right
      simp only [hc, if_true]
      have := h.cnt; rw [hc] at this
      exact List.length_eq_zero_iff.mp this.symm
    · left
      simp only [hc, if_false]
      exact ⟨_, hget _ _ rfl, by rw [pendingAbort_iff]; exact ⟨rfl, Or.inr (Or.inr (Or.inl rfl))⟩⟩
  · left
    cases hl : m.lock with
    | some x => simp only [Option.isSome_some, if_true]; exact ⟨n, hj, by rw [pendingAbort_iff]; exact ⟨ho, Or.inr (Or.inr (Or.inl e))⟩⟩
    | none =>
      simp only [Option.isSome_none, Bool.false_eq_true, if_false]
      exact ⟨_, hget _ _ rfl, by rw [pendingAbort_iff]; exact ⟨rfl, Or.inr (Or.inr (Or.inr (Or.inl rfl)))⟩⟩
  · simp only [hk, afterEpoch]
    by_cases hw : m.waitset.isEmpty = true
    · right; simp only [hw, if_true]; exact List.isEmpty_iff.mp hw
    · left; simp only [hw, Bool.false_eq_true, if_false]
      exact ⟨_, hget _ _ rfl, by rw [pendingAbort_iff]; exact ⟨rfl, Or.inr (Or.inr (Or.inr (Or.inr rfl)))⟩⟩
  · right; rfl

theorem ntfStep_abort_progress {m : C02.St} (h : Inv m) {j : Nat} {n : Notifier} (hj : m.ntf[j]? = some n) (hp : pendingAbort n = true) :
    (∃ n', (ntfStep m j).ntf[j]? = some n' ∧ pendingAbort n' = true) ∨ (ntfStep m j).waitset = [] := by
  have hp' := (pendingAbort_iff n).mp hp
  have : n.pc ≠ .set ∧ n.pc ≠ .clr := by
    rcases hp'.2 with e | e | e | e | e <;> rw [e] <;> simp
  rw [ntfStep_eq hj this]
  exact abort_progress h hj hp

/-- a pending `abort_all` of either monitor stays pending until it empties the wait set -/
def PendKeep (m m' : C02.St) : Prop :=
  ∀ (j : Nat) (n : Notifier), m.ntf[j]? = some n → pendingAbort n = true →
    (∃ n', m'.ntf[j]? = some n' ∧ pendingAbort n' = true) ∨ m'.waitset = []

theorem linkS_abort {th : Thr} {n : Notifier} (h : LinkS th n) (ho : n.ops = [abortOp]) : th.ops ≠ [] ∧ (th.pc = .aItems ∨ th.pc = .aSlots) := by
  unfold LinkS at h
  split at h
  · rw [ho] at h; cases h
  · rename_i hne
    refine ⟨hne, ?_⟩
    cases hpc : th.pc <;> simp only [hpc] at h <;> (try (rw [ho] at h)) <;> simp [abortOp, leqOp] at h ⊢

theorem linkI_abort {th : Thr} {n : Notifier} (h : LinkI th n) (ho : n.ops = [abortOp]) : th.ops ≠ [] ∧ th.pc = .aItems := by
  unfold LinkI at h
  split at h
  · rw [ho] at h; cases h
  · rename_i hne
    refine ⟨hne, ?_⟩
    cases hpc : th.pc <;> simp only [hpc] at h <;> (try (rw [ho] at h)) <;> simp [abortOp, leqOp] at h ⊢

theorem stepT_pendKeep {s : St} (hM : MInv s) (hL : Link s) {t : Nat} {th : Thr} (hth : s.thr[t]? = some th) :
    PendKeep s.slots (stepT s t th).slots ∧ PendKeep s.items (stepT s t th).items := by
  obtain ⟨_, _, _, _, h5, h6⟩ := stepT_other s t th
  constructor
  · intro j n hj hp
    by_cases e : j = t
    · subst e
      have ho := ((pendingAbort_iff n).mp hp).1
      obtain ⟨hne, hpc⟩ := linkS_abort (hL.ls j th n hth hj) ho
      obtain ⟨o, rest, hops⟩ := List.exists_cons_of_ne_nil hne
      unfold stepT
      simp only [hops]
      rcases hpc with hpc | hpc <;> simp only [hpc]
      · left; split <;> exact ⟨n, hj, hp⟩
      · rcases ntfStep_abort_progress hM.slots.inv hj hp with ⟨n', h1, h2⟩ | h1
        · left; split <;> exact ⟨n', h1, h2⟩
        · right; split <;> exact h1
    · left; exact ⟨n, by rw [h5 j e]; exact hj, hp⟩
  · intro j n hj hp
    by_cases e : j = t
    · subst e
      have ho := ((pendingAbort_iff n).mp hp).1
      obtain ⟨hne, hpc⟩ := linkI_abort (hL.li j th n hth hj) ho
      obtain ⟨o, rest, hops⟩ := List.exists_cons_of_ne_nil hne
      unfold stepT
      simp only [hops, hpc]
      rcases ntfStep_abort_progress hM.items.inv hj hp with ⟨n', h1, h2⟩ | h1
      · left; split <;> exact ⟨n', h1, h2⟩
      · right; split <;> exact h1
    · left; exact ⟨n, by rw [h6 j e]; exact hj, hp⟩

end TbbVerif.C02.BQ

namespace TbbVerif.C02.BQ
open TbbVerif.C02

def inScope (sl : Sleeper) (th : Thr) : Prop := (sl.pc = .check ∧ th.aOk = true) ∨ sl.pc = .commit ∨ sl.pc = .park

/-- a thread whose wait predicate has seen the abort counter unchanged and whose node is still enqueued although the
counter has changed since: an `abort_all` of that monitor is still before its flush -/
def KMon (m : C02.St) (s : St) : Prop :=
  ∀ (i : Nat) (th : Thr) (sl : Sleeper), s.thr[i]? = some th → m.slp[i]? = some sl → sl.ops ≠ [] → inScope sl th →
    i ∈ m.waitset → th.old ≠ s.abortc → ∃ (j : Nat) (n : Notifier), m.ntf[j]? = some n ∧ pendingAbort n = true

structure KInv (s : St) : Prop where
  kS : KMon s.slots s
  kI : KMon s.items s

/-- every sleeper keeps its program counter and program, nobody enters the wait set -/
def SlpAll (m m' : C02.St) : Prop :=
  (∀ (k : Nat) (sl' : Sleeper), m'.slp[k]? = some sl' → ∃ sl0 : Sleeper, m.slp[k]? = some sl0 ∧ sl'.pc = sl0.pc ∧ sl'.ops = sl0.ops) ∧
  (∀ k, k ∈ m'.waitset → k ∈ m.waitset)

theorem slpAll_refl (m : C02.St) : SlpAll m m := ⟨fun k sl' h => ⟨sl', h, rfl, rfl⟩, fun _ h => h⟩
theorem slpAll_of_eq {m m' : C02.St} (h1 : m'.slp = m.slp) (h2 : m'.waitset = m.waitset) : SlpAll m m' :=
  ⟨fun k sl' h => ⟨sl', by rw [← h1]; exact h, rfl, rfl⟩, fun _ h => by rw [← h2]; exact h⟩
theorem slpAll_arm (m : C02.St) (t k : Nat) : SlpAll m (arm m t k) := slpAll_of_eq (arm_frame m t k).1 (arm_frame m t k).2.1
theorem slpAll_disarm (m : C02.St) (t : Nat) : SlpAll m (disarm m t) := slpAll_of_eq (disarm_frame m t).1 (disarm_frame m t).2.1
theorem slpAll_disarmC (m : C02.St) (t c : Nat) : SlpAll m ((disarm m t).setCond c false) :=
  slpAll_of_eq (disarm_frame m t).1 (disarm_frame m t).2.1
theorem slpAll_armAbort (m : C02.St) (t : Nat) : SlpAll m (armAbort m t) :=
  slpAll_of_eq (armAbort_frame m t).1 (armAbort_frame m t).2.1
theorem slpAll_ntfStep (m : C02.St) (t : Nat) : SlpAll m (ntfStep m t) :=
  ⟨fun k sl' h => (ntfStep_frame m t).2.2.2.2.2.2 k sl' h, fun k h => (ntfStep_frame m t).2.2.2.2.2.1 k h⟩

/-- what a step does to the stepping thread's abort snapshot / predicate flag -/
def RecOK (ac : Nat) (th th' : Thr) : Prop := (th'.old = th.old ∧ (th'.aOk = true → th.aOk = true)) ∨ th'.old = ac

theorem recOK_refl (ac : Nat) (th : Thr) : RecOK ac th th := Or.inl ⟨rfl, fun h => h⟩

theorem waitStep_rec (m : C02.St) (i : Nat) (th : Thr) (ac : Nat) (real : Bool) : RecOK ac th (waitStep m i th ac real).2.1 := by
  unfold waitStep
  split
  · exact recOK_refl _ _
  · split
    · exact recOK_refl _ _
    · split
      · split
        · exact Or.inl ⟨rfl, fun h => h⟩
        · rename_i hab
          right
          have : ac = th.old := by simpa using hab
          exact this.symm
      · split
        · split
          · exact Or.inl ⟨rfl, fun h => by simp at h⟩
          · exact Or.inl ⟨rfl, fun h => by simp at h⟩
        · exact Or.inl ⟨rfl, fun h => by simp at h⟩

/-- the wait of the stepping thread: in scope afterwards ⇒ in scope before, still enqueued -/
theorem waitStep_scope {m : C02.St} (t : Nat) (th : Thr) (ac : Nat) (real : Bool) (sl' : Sleeper)
    (h1 : (waitStep m t th ac real).1.slp[t]? = some sl') (h2 : sl'.ops ≠ [])
    (h3 : inScope sl' (waitStep m t th ac real).2.1) (h4 : t ∈ (waitStep m t th ac real).1.waitset)
    (h5 : (waitStep m t th ac real).2.1.old ≠ ac) :
    ∃ sl0, m.slp[t]? = some sl0 ∧ sl0.ops ≠ [] ∧ inScope sl0 th ∧ t ∈ m.waitset ∧ th.old ≠ ac := by
  unfold waitStep at h1 h3 h4 h5
  obtain (hsl | ⟨sl, hsl⟩) : m.slp[t]? = none ∨ ∃ sl, m.slp[t]? = some sl := by cases m.slp[t]? <;> simp
  · simp only [hsl] at h1; cases h1
  · have hlt := getElem?_lt hsl
    simp only [hsl] at h1 h3 h4 h5
    by_cases hemp : sl.ops.isEmpty = true
    · simp only [hemp, if_true] at h1 h3 h4 h5
      rw [hsl] at h1; cases h1
      exact ⟨sl', hsl, h2, h3, h4, h5⟩
    · simp only [hemp, Bool.false_eq_true, if_false] at h1 h3 h4 h5
      have hne : sl.ops ≠ [] := by intro e; rw [e] at hemp; simp at hemp
      by_cases hc1 : sl.pc = .check ∧ th.aOk = false
      · simp only [hc1, and_self, if_true] at h1 h3 h4 h5
        by_cases hab : ac ≠ th.old
        · simp only [hab, ne_eq, not_false_eq_true, if_true] at h1 h3 h4 h5
          simp only [St.setS, List.getElem?_set, hlt, if_true] at h1
          cases h1
          rcases h3 with ⟨e, _⟩ | e | e <;> cases e
        · simp only [hab, if_false] at h5
          have : ac = th.old := by simpa using hab
          exact absurd this.symm h5
      · simp only [hc1, if_false] at h1 h3 h4 h5
        by_cases hc2 : sl.pc = .check
        · have haok : th.aOk = true := by
            cases ha : th.aOk
            · exact absurd ⟨hc2, ha⟩ hc1
            · rfl
          simp only [hc2, if_true] at h1 h3 h4 h5
          cases real
          · simp only [Bool.false_eq_true, if_false] at h1 h3 h4 h5
            have hstep : C02.step m t = stepS m t sl := by
              simp only [C02.step, hlt, if_true, hsl]
            rw [hstep] at h1 h4
            rw [stepS_waitset_scope m t sl (Or.inl hc2)] at h4
            exact ⟨sl, hsl, hne, Or.inl ⟨hc2, haok⟩, h4, h5⟩
          · simp only [if_true] at h1 h3 h4 h5
            simp only [St.setS, List.getElem?_set, hlt, if_true] at h1
            cases h1
            rcases h3 with ⟨e, _⟩ | e | e <;> cases e
        · simp only [hc2, if_false] at h1 h3 h4 h5
          have hstep : C02.step m t = stepS m t sl := by
            simp only [C02.step, hlt, if_true, hsl]
          rw [hstep] at h1 h4
          have hp : sl'.pc = .commit ∨ sl'.pc = .park := by
            rcases h3 with ⟨_, e⟩ | e | e
            · simp at e
            · exact Or.inl e
            · exact Or.inr e
          have hb := stepS_pc_scope m t sl sl' hsl h1 hp
          have hb' : sl.pc = .commit ∨ sl.pc = .park := by
            rcases hb with e | e | e
            · exact absurd e hc2
            · exact Or.inl e
            · exact Or.inr e
          rw [stepS_waitset_scope m t sl (Or.inr hb')] at h4
          exact ⟨sl, hsl, hne, Or.inr hb', h4, h5⟩

end TbbVerif.C02.BQ

namespace TbbVerif.C02.BQ
open TbbVerif.C02

theorem inScope_congr {sl : Sleeper} {th1 th2 : Thr} (h : th1.aOk = th2.aOk) (hs : inScope sl th1) : inScope sl th2 := by
  unfold inScope at hs ⊢; rw [← h]; exact hs

theorem scope_back {m m' : C02.St} (hA : SlpAll m m') {ac : Nat} {th th' : Thr} (hR : RecOK ac th th') {t : Nat} {sl' : Sleeper}
    (h1 : m'.slp[t]? = some sl') (h2 : sl'.ops ≠ []) (h3 : inScope sl' th') (h4 : t ∈ m'.waitset) (h5 : th'.old ≠ ac) :
    ∃ sl0, m.slp[t]? = some sl0 ∧ sl0.ops ≠ [] ∧ inScope sl0 th ∧ t ∈ m.waitset ∧ th.old ≠ ac := by
  obtain ⟨sl0, h0, hp, ho⟩ := hA.1 t sl' h1
  rcases hR with ⟨e1, e2⟩ | e
  · refine ⟨sl0, h0, by rw [← ho]; exact h2, ?_, hA.2 t h4, by rw [← e1]; exact h5⟩
    unfold inScope at h3 ⊢
    rw [← hp]
    rcases h3 with ⟨a, b⟩ | a | a
    · exact Or.inl ⟨a, e2 b⟩
    · exact Or.inr (Or.inl a)
    · exact Or.inr (Or.inr a)
  · exact absurd e h5

theorem stepT_abortc (s : St) (t : Nat) (th : Thr) (h : th.pc ≠ .aInc) : (stepT s t th).abortc = s.abortc := by
  unfold stepT
  split
  · rfl
  · cases hpc : th.pc <;> simp only [hpc] <;> (try (exact absurd hpc h)) <;> (repeat' split) <;> rfl

theorem stepT_rec (s : St) (t : Nat) (th : Thr) (hth : s.thr[t]? = some th) (th' : Thr) (h' : (stepT s t th).thr[t]? = some th') :
    RecOK s.abortc th th' := by
  have hlt : t < s.thr.length := getElem?_lt hth
  have hself : ∀ (s' : St) (th'' : Thr), s'.thr = s.thr → (s'.setT t th'').thr[t]? = some th' → th' = th'' := by
    intro s' th'' e h
    rw [setT_thr, e] at h; simp [hlt] at h; exact h.symm
  have hsame : ∀ (s' : St), s'.thr = s.thr → s'.thr[t]? = some th' → th' = th := by
    intro s' e h; rw [e, hth] at h; cases h; rfl
  have hret : ∀ r, RecOK s.abortc th (th.ret r) := fun r => Or.inl ⟨rfl, fun h => absurd h Bool.false_ne_true⟩
  unfold stepT at h'
  split at h'
  · have := hsame _ rfl h'; subst this; exact recOK_refl _ _
  · split at h'
    all_goals (try dsimp only at h')
    all_goals (repeat' split at h')
    all_goals first
      | (have := hsame _ rfl h'; subst this; exact recOK_refl _ _)
      | (have := hself _ _ rfl h'; subst this; first
          | exact hret _
          | exact Or.inr rfl
          | exact Or.inl ⟨rfl, fun h => h⟩
          | exact Or.inl ⟨rfl, fun h => absurd h Bool.false_ne_true⟩
          | exact waitStep_rec _ _ _ _ _)

end TbbVerif.C02.BQ

namespace TbbVerif.C02.BQ
open TbbVerif.C02

theorem stepT_slpAll (s : St) (t : Nat) (th : Thr) :
    (th.pc ≠ .pWait → th.pc ≠ .pLoadHead → SlpAll s.slots (stepT s t th).slots) ∧
    (th.pc ≠ .qWait → th.pc ≠ .qLoadTail → SlpAll s.items (stepT s t th).items) := by
  unfold stepT
  split
  · exact ⟨fun _ _ => slpAll_refl _, fun _ _ => slpAll_refl _⟩
  · cases hpc : th.pc <;> simp only [hpc]
    all_goals (repeat' split)
    all_goals refine ⟨fun h1 h2 => ?_, fun h1 h2 => ?_⟩
    all_goals first
      | exact absurd rfl h1
      | exact absurd rfl h2
      | exact slpAll_refl _
      | exact slpAll_arm _ _ _
      | exact slpAll_disarm _ _
      | exact slpAll_disarmC _ _ _
      | exact slpAll_armAbort _ _
      | exact slpAll_ntfStep _ _

/-- the stepping thread itself, slots monitor -/
theorem stepT_scope_S {s : St} (hM : MInv s) {t : Nat} {th : Thr} (hth : s.thr[t]? = some th)
    (th' : Thr) (sl' : Sleeper) (h0 : (stepT s t th).thr[t]? = some th')
    (h1 : (stepT s t th).slots.slp[t]? = some sl') (h2 : sl'.ops ≠ []) (h3 : inScope sl' th')
    (h4 : t ∈ (stepT s t th).slots.waitset) (h5 : th'.old ≠ s.abortc) :
    ∃ sl0, s.slots.slp[t]? = some sl0 ∧ sl0.ops ≠ [] ∧ inScope sl0 th ∧ t ∈ s.slots.waitset ∧ th.old ≠ s.abortc := by
  have hlt : t < s.thr.length := getElem?_lt hth
  have hR := stepT_rec s t th hth th' h0
  by_cases hp1 : th.pc = .pWait
  · cases hops : th.ops with
    | nil =>
      have : stepT s t th = s := by unfold stepT; simp [hops]
      rw [this] at h0 h1 h4
      rw [hth] at h0; cases h0
      exact ⟨sl', h1, h2, h3, h4, h5⟩
    | cons o rest =>
      unfold stepT at h0 h1 h4
      simp only [hops, hp1] at h0 h1 h4
      have hself : ∀ (s' : St) (th'' : Thr), s'.thr = s.thr → (s'.setT t th'').thr[t]? = some th' → th' = th'' := by
        intro s' th'' e h
        rw [setT_thr, e] at h; simp [hlt] at h; exact h.symm
      split at h0
      · have e := hself _ _ rfl h0
        simp only [*, if_true, setT_slots] at h1 h4
        have h3' : inScope sl' (waitStep s.slots t th s.abortc (decide (s.head > th.ticket - s.cap))).2.1 :=
          inScope_congr (by rw [e]) h3
        have h5' : (waitStep s.slots t th s.abortc (decide (s.head > th.ticket - s.cap))).2.1.old ≠ s.abortc := by
          rw [e] at h5; exact h5
        exact waitStep_scope t th s.abortc _ sl' h1 h2 h3' h4 h5'
      · have e := hself _ _ rfl h0
        simp only [*, Bool.false_eq_true, if_false, setT_slots] at h1 h4
        rw [e] at h3 h5
        exact waitStep_scope t th s.abortc _ sl' h1 h2 h3 h4 h5
  · by_cases hp2 : th.pc = .pLoadHead
    · cases hops : th.ops with
      | nil =>
        have : stepT s t th = s := by unfold stepT; simp [hops]
        rw [this] at h0 h1 h4
        rw [hth] at h0; cases h0
        exact ⟨sl', h1, h2, h3, h4, h5⟩
      | cons o rest =>
        unfold stepT at h0 h1 h4
        simp only [hops, hp2] at h0 h1 h4
        have hself : ∀ (s' : St) (th'' : Thr), s'.thr = s.thr → (s'.setT t th'').thr[t]? = some th' → th' = th'' := by
          intro s' th'' e h
          rw [setT_thr, e] at h; simp [hlt] at h; exact h.symm
        split at h0
        · have e := hself _ _ rfl h0
          simp only [*, if_true, setT_slots] at h1 h4
          obtain ⟨sl, hsl, hpc, hcase⟩ := (startWait_frame s.slots t (th.ticket - s.cap)).2.2.2.2 sl' h1
          rw [(startWait_frame s.slots t (th.ticket - s.cap)).2.2.1] at h4
          rcases hcase with hidle | heq
          · have hinit := hM.slots.inv.opsS t sl hsl hidle
            rw [hinit] at hpc
            rcases h3 with ⟨a, _⟩ | a | a <;> rw [hpc] at a <;> cases a
          · subst heq
            have haok : th'.aOk = false := by rw [e]
            refine ⟨sl', hsl, h2, ?_, h4, ?_⟩
            · rcases h3 with ⟨_, b⟩ | a | a
              · rw [haok] at b; cases b
              · exact Or.inr (Or.inl a)
              · exact Or.inr (Or.inr a)
            · rw [e] at h5; exact h5
        · have e := hself _ _ rfl h0
          simp only [*, Bool.false_eq_true, if_false, setT_slots] at h1 h4
          exact scope_back (slpAll_refl _) hR h1 h2 h3 h4 h5
    · exact scope_back ((stepT_slpAll s t th).1 hp1 hp2) hR h1 h2 h3 h4 h5

/-- the stepping thread itself, items monitor -/
theorem stepT_scope_I {s : St} (hM : MInv s) {t : Nat} {th : Thr} (hth : s.thr[t]? = some th)
    (th' : Thr) (sl' : Sleeper) (h0 : (stepT s t th).thr[t]? = some th')
    (h1 : (stepT s t th).items.slp[t]? = some sl') (h2 : sl'.ops ≠ []) (h3 : inScope sl' th')
    (h4 : t ∈ (stepT s t th).items.waitset) (h5 : th'.old ≠ s.abortc) :
    ∃ sl0, s.items.slp[t]? = some sl0 ∧ sl0.ops ≠ [] ∧ inScope sl0 th ∧ t ∈ s.items.waitset ∧ th.old ≠ s.abortc := by
  have hlt : t < s.thr.length := getElem?_lt hth
  have hR := stepT_rec s t th hth th' h0
  by_cases hp1 : th.pc = .qWait
  · cases hops : th.ops with
    | nil =>
      have : stepT s t th = s := by unfold stepT; simp [hops]
      rw [this] at h0 h1 h4
      rw [hth] at h0; cases h0
      exact ⟨sl', h1, h2, h3, h4, h5⟩
    | cons o rest =>
      unfold stepT at h0 h1 h4
      simp only [hops, hp1] at h0 h1 h4
      have hself : ∀ (s' : St) (th'' : Thr), s'.thr = s.thr → (s'.setT t th'').thr[t]? = some th' → th' = th'' := by
        intro s' th'' e h
        rw [setT_thr, e] at h; simp [hlt] at h; exact h.symm
      split at h0
      · have e := hself _ _ rfl h0
        simp only [*, if_true, setT_items] at h1 h4
        have h3' : inScope sl' (waitStep s.items t th s.abortc (decide (s.tail > th.ticket))).2.1 :=
          inScope_congr (by rw [e]) h3
        have h5' : (waitStep s.items t th s.abortc (decide (s.tail > th.ticket))).2.1.old ≠ s.abortc := by
          rw [e] at h5; exact h5
        exact waitStep_scope t th s.abortc _ sl' h1 h2 h3' h4 h5'
      · have e := hself _ _ rfl h0
        simp only [*, Bool.false_eq_true, if_false, setT_items] at h1 h4
        rw [e] at h3 h5
        exact waitStep_scope t th s.abortc _ sl' h1 h2 h3 h4 h5
  · by_cases hp2 : th.pc = .qLoadTail
    · cases hops : th.ops with
      | nil =>
        have : stepT s t th = s := by unfold stepT; simp [hops]
        rw [this] at h0 h1 h4
        rw [hth] at h0; cases h0
        exact ⟨sl', h1, h2, h3, h4, h5⟩
      | cons o rest =>
        unfold stepT at h0 h1 h4
        simp only [hops, hp2] at h0 h1 h4
        have hself : ∀ (s' : St) (th'' : Thr), s'.thr = s.thr → (s'.setT t th'').thr[t]? = some th' → th' = th'' := by
          intro s' th'' e h
          rw [setT_thr, e] at h; simp [hlt] at h; exact h.symm
        split at h0
        · have e := hself _ _ rfl h0
          simp only [*, if_true, setT_items] at h1 h4
          obtain ⟨sl, hsl, hpc, hcase⟩ := (startWait_frame s.items t th.ticket).2.2.2.2 sl' h1
          rw [(startWait_frame s.items t th.ticket).2.2.1] at h4
          rcases hcase with hidle | heq
          · have hinit := hM.items.inv.opsS t sl hsl hidle
            rw [hinit] at hpc
            rcases h3 with ⟨a, _⟩ | a | a <;> rw [hpc] at a <;> cases a
          · subst heq
            have haok : th'.aOk = false := by rw [e]
            refine ⟨sl', hsl, h2, ?_, h4, ?_⟩
            · rcases h3 with ⟨_, b⟩ | a | a
              · rw [haok] at b; cases b
              · exact Or.inr (Or.inl a)
              · exact Or.inr (Or.inr a)
            · rw [e] at h5; exact h5
        · have e := hself _ _ rfl h0
          simp only [*, Bool.false_eq_true, if_false, setT_items] at h1 h4
          exact scope_back (slpAll_refl _) hR h1 h2 h3 h4 h5
    · exact scope_back ((stepT_slpAll s t th).2 hp1 hp2) hR h1 h2 h3 h4 h5


theorem stepT_kinv {s : St} (hM : MInv s) (hL : Link s) (hK : KInv s) {t : Nat} {th : Thr} (hth : s.thr[t]? = some th) :
    KInv (stepT s t th) := by
  have hlt : t < s.thr.length := getElem?_lt hth
  obtain ⟨nS, hnS⟩ : ∃ n, s.slots.ntf[t]? = some n := ⟨s.slots.ntf[t]'(by rw [hL.lenS]; exact hlt), List.getElem?_eq_getElem _⟩
  obtain ⟨nI, hnI⟩ : ∃ n, s.items.ntf[t]? = some n := ⟨s.items.ntf[t]'(by rw [hL.lenI]; exact hlt), List.getElem?_eq_getElem _⟩
  by_cases hops : th.ops = []
  · have : stepT s t th = s := by unfold stepT; simp [hops]
    rw [this]; exact hK
  by_cases hpc : th.pc = .aInc
  · -- `++my_abort_counter`: the thread now owes both monitors an `abort_all`
    have hS := hL.ls t th nS hth hnS
    have hI := hL.li t th nI hth hnI
    unfold LinkS at hS; unfold LinkI at hI
    simp only [hops, if_false, hpc] at hS hI
    obtain ⟨o, rest, hops'⟩ := List.exists_cons_of_ne_nil hops
    have hpa : pendingAbort (mkNotifier [abortOp]) = true := by decide
    constructor
    · intro i th' sl _ _ _ _ _ _
      refine ⟨t, mkNotifier [abortOp], ?_, hpa⟩
      unfold stepT; simp only [hops', hpc, setT_slots]
      exact armAbort_self hnS hS
    · intro i th' sl _ _ _ _ _ _
      refine ⟨t, mkNotifier [abortOp], ?_, hpa⟩
      unfold stepT; simp only [hops', hpc, setT_items]
      exact armAbort_self hnI hI
  · have hab := stepT_abortc s t th hpc
    obtain ⟨_, _, _, h4, _, _⟩ := stepT_other s t th
    obtain ⟨hoS, hoI⟩ := stepT_slpOther s t th
    obtain ⟨hpS, hpI⟩ := stepT_pendKeep hM hL hth
    constructor
    · intro i th' sl' hi hsl hso hsc hw hold
      rw [hab] at hold
      have key : ∃ sl0 th0, s.thr[i]? = some th0 ∧ s.slots.slp[i]? = some sl0 ∧ sl0.ops ≠ [] ∧ inScope sl0 th0 ∧
          i ∈ s.slots.waitset ∧ th0.old ≠ s.abortc := by
        by_cases e : i = t
        · subst e
          obtain ⟨sl0, a, b, c, d, f⟩ := stepT_scope_S hM hth th' sl' hi hsl hso hsc hw hold
          exact ⟨sl0, th, hth, a, b, c, d, f⟩
        · obtain ⟨sl0, a, b, c⟩ := hoS.1 i sl' e hsl
          rw [h4 i e] at hi
          refine ⟨sl0, th', hi, a, by rw [← c]; exact hso, ?_, hoS.2 i e hw, hold⟩
          unfold inScope at hsc ⊢; rw [← b]; exact hsc
      obtain ⟨sl0, th0, k1, k2, k3, k4, k5, k6⟩ := key
      obtain ⟨j, n, hj, hp⟩ := hK.kS i th0 sl0 k1 k2 k3 k4 k5 k6
      rcases hpS j n hj hp with ⟨n', hj', hp'⟩ | hemp
      · exact ⟨j, n', hj', hp'⟩
      · rw [hemp] at hw; simp at hw
    · intro i th' sl' hi hsl hso hsc hw hold
      rw [hab] at hold
      have key : ∃ sl0 th0, s.thr[i]? = some th0 ∧ s.items.slp[i]? = some sl0 ∧ sl0.ops ≠ [] ∧ inScope sl0 th0 ∧
          i ∈ s.items.waitset ∧ th0.old ≠ s.abortc := by
        by_cases e : i = t
        · subst e
          obtain ⟨sl0, a, b, c, d, f⟩ := stepT_scope_I hM hth th' sl' hi hsl hso hsc hw hold
          exact ⟨sl0, th, hth, a, b, c, d, f⟩
        · obtain ⟨sl0, a, b, c⟩ := hoI.1 i sl' e hsl
          rw [h4 i e] at hi
          refine ⟨sl0, th', hi, a, by rw [← c]; exact hso, ?_, hoI.2 i e hw, hold⟩
          unfold inScope at hsc ⊢; rw [← b]; exact hsc
      obtain ⟨sl0, th0, k1, k2, k3, k4, k5, k6⟩ := key
      obtain ⟨j, n, hj, hp⟩ := hK.kI i th0 sl0 k1 k2 k3 k4 k5 k6
      rcases hpI j n hj hp with ⟨n', hj', hp'⟩ | hemp
      · exact ⟨j, n', hj', hp'⟩
      · rw [hemp] at hw; simp at hw

theorem step_kinv {s : St} (hM : MInv s) (hL : Link s) (hK : KInv s) (t : Tid) : KInv (step s t) := by
  unfold step
  split
  · rename_i th hth; exact stepT_kinv hM hL hK hth
  · exact hK

theorem init_kinv (cap : Nat) (progs : List (List Op)) : KInv (init cap progs) := by
  constructor <;> (intro i th sl _ _ _ _ hw _; simp [init, monInit, C02.init] at hw)

theorem reach_kinv (cap : Nat) (progs : List (List Op)) (sched : List Tid) : KInv ((sys cap progs).run sched) := by
  have : MInv ((sys cap progs).run sched) ∧ Link ((sys cap progs).run sched) ∧ KInv ((sys cap progs).run sched) :=
    Sys.inv_run (sys cap progs) (fun s => MInv s ∧ Link s ∧ KInv s) ⟨init_minv cap progs, init_link cap progs, init_kinv cap progs⟩
      (fun _ t h => ⟨step_minv h.1 t, step_link h.2.1 t, step_kinv h.1 h.2.1 h.2.2 t⟩) sched
  exact this.2.2

end TbbVerif.C02.BQ
