/-
C02 / arena enqueue (`AE`): every enqueued task is a task of the arena (`fm.work ≤ fp.work`): the two flags' publishers of
a thread stay in step.
-/
import TbbVerif.Proofs.C02.AEBnd
set_option linter.unusedSimpArgs false

namespace TbbVerif.C02.Flag

/-- finer facts about one publisher step: what happens to `work`, the remaining-operations counter and the pc -/
theorem stepP_frame2 (s : St) (i : Nat) (p : Pub) (hi : s.pubs[i]? = some p) :
    ∃ p', (stepP s i p).pubs[i]? = some p' ∧ p.left ≤ p'.left + 1 ∧
      (p.inflight = false → (stepP s i p).work = s.work + (if p.left = 0 then 0 else 1)) ∧
      ((p.pc ≠ .pub ∨ p.left = 0) → (stepP s i p).work = s.work) ∧
      (p.pc = .fence → p.left ≠ 0 → p'.pc = .load) ∧
      (p.pc ≠ .pub → p'.left = p.left → p'.pc ≠ .pub) := by
  have hlt := getElem?_lt' hi
  have hget : ∀ (q : Pub), (s.pubs.set i q)[i]? = some q := by intro q; simp [List.getElem?_set, hlt]
  unfold stepP
  by_cases hl : p.left = 0
  · rw [if_pos hl]
    exact ⟨p, hi, Nat.le_succ _, fun _ => by simp [hl], fun _ => rfl, fun _ h => absurd hl h, fun h _ => h⟩
  · rw [if_neg hl]
    cases hpc : p.pc <;> simp only
    all_goals (repeat' split)
    all_goals refine ⟨_, hget _, ?_, ?_, ?_, ?_, ?_⟩
    all_goals first
      | (simp [Pub.ret]; done)
      | (simp [Pub.ret]; omega)
      | (intro h; simp [Pub.inflight, hpc, hl] at h ⊢; done)
      | (intro h; simp [hl]; done)
      | (intro h; rcases h with h | h <;> first | exact absurd rfl h | exact absurd h hl | rfl)
      | (intro h; cases h)
      | (intro _ _; rfl)
      | (intro h _; exact absurd rfl h)
      | (intro _ h; simp [Pub.ret] at h; omega)
      | (intro h; simp at h)
      | (intro _ _; simp)

end TbbVerif.C02.Flag

namespace TbbVerif.C02.AE
open TbbVerif.C02

theorem pubStep_none {f : Flag.St} {i : Nat} (h : f.pubs[i]? = none) : pubStep f i = f := by unfold pubStep; rw [h]

theorem pubStep_frame2 (f : Flag.St) (i : Nat) (p : Flag.Pub) (hp : f.pubs[i]? = some p) :
    ∃ p', (pubStep f i).pubs[i]? = some p' ∧ p'.left ≤ p.left ∧ p.left ≤ p'.left + 1 ∧
      (p.inflight = false → p'.left = p.left ∧ (pubStep f i).work = f.work + (if p.left = 0 then 0 else 1) ∧ (p'.left = 0 ∨ p'.pc = .fence)) ∧
      ((p.pc ≠ .pub ∨ p.left = 0) → (pubStep f i).work = f.work) ∧
      (p.pc = .fence → p'.left = p.left ∧ (p.left ≠ 0 → p'.pc = .load)) ∧
      (p.left = 0 → p' = p) ∧
      (p.pc ≠ .pub → p'.left = p.left → p'.pc ≠ .pub) := by
  obtain ⟨_, _, _, _, _, _, _, q, hq, h8, _, h10, _, h12, h13, h14⟩ := Flag.stepP_frame f i p hp
  obtain ⟨q', hq', g1, g2, g3, g4, g5⟩ := Flag.stepP_frame2 f i p hp
  rw [hq] at hq'; cases hq'
  have e : pubStep f i = Flag.stepP f i p := by unfold pubStep; rw [hp]
  rw [e]
  refine ⟨q, hq, h8, g1, ?_, g3, ?_, h14, g5⟩
  · intro hin
    refine ⟨h10 hin, g2 hin, ?_⟩
    rcases h12 hin with ⟨a, b⟩ | ⟨a, _⟩
    · left; rw [b]; exact a
    · right; exact a
  · intro hf; exact ⟨(h13 hf).1, g4 hf⟩

theorem pubLeft_some {f : Flag.St} {i : Nat} {p : Flag.Pub} (h : f.pubs[i]? = some p) : pubLeft f i = p.left := by
  unfold pubLeft; rw [h]

/-- every enqueued task is a task (`fm.work ≤ fp.work`), and the two flags' publishers of a thread stay in step -/
structure WInv (s : St) : Prop where
  wle : s.fm.work ≤ s.fp.work
  lefts : ∀ (i : Nat) (th : Thr), s.thr[i]? = some th → pubLeft s.fm i + (if th.pc = .ePool then 1 else 0) = pubLeft s.fp i
  le : ∀ (i : Nat) (p : Flag.Pub) (th : Thr), s.fm.pubs[i]? = some p → s.thr[i]? = some th → th.pc = .eMand →
        p.left = 0 ∨ p.pc ≠ .pub
  lfp : ∀ (i : Nat) (p : Flag.Pub) (th : Thr), s.fp.pubs[i]? = some p → s.thr[i]? = some th → th.pc = .eFence →
        p.left = 0 ∨ p.pc = .fence
  cons : s.fm.cons = s.fp.cons

theorem winv_update {s s' : St} (h : WInv s) {i : Nat} {th th' : Thr} (hth : s.thr[i]? = some th)
    (hthr : s'.thr = s.thr.set i th')
    (hom : ∀ k, k ≠ i → s'.fm.pubs[k]? = s.fm.pubs[k]?) (hop : ∀ k, k ≠ i → s'.fp.pubs[k]? = s.fp.pubs[k]?)
    (hw : s'.fm.work ≤ s'.fp.work)
    (hl : pubLeft s'.fm i + (if th'.pc = .ePool then 1 else 0) = pubLeft s'.fp i)
    (hle : ∀ p, s'.fm.pubs[i]? = some p → th'.pc = .eMand → p.left = 0 ∨ p.pc ≠ .pub)
    (hlfp : ∀ p, s'.fp.pubs[i]? = some p → th'.pc = .eFence → p.left = 0 ∨ p.pc = .fence)
    (hc : s'.fm.cons = s'.fp.cons) : WInv s' := by
  have hlt := Flag.getElem?_lt' hth
  have hget : ∀ k, s'.thr[k]? = if i = k then some th' else s.thr[k]? := by
    intro k; rw [hthr, List.getElem?_set]; by_cases e : i = k <;> simp [e, hlt]; subst e; exact hlt
  refine ⟨hw, ?_, ?_, ?_, hc⟩
  · intro k thk hk
    rw [hget] at hk
    by_cases e : i = k
    · subst e; simp at hk; subst hk; exact hl
    · simp [e] at hk
      have e' : k ≠ i := fun x => e x.symm
      have := h.lefts k thk hk
      unfold pubLeft at this ⊢
      rw [hom k e', hop k e']; exact this
  · intro k p thk hp hk hpc
    rw [hget] at hk
    by_cases e : i = k
    · subst e; simp at hk; subst hk; exact hle p hp hpc
    · simp [e] at hk; rw [hom k (fun x => e x.symm)] at hp; exact h.le k p thk hp hk hpc
  · intro k p thk hp hk hpc
    rw [hget] at hk
    by_cases e : i = k
    · subst e; simp at hk; subst hk; exact hlfp p hp hpc
    · simp [e] at hk; rw [hop k (fun x => e x.symm)] at hp; exact h.lfp k p thk hp hk hpc

end TbbVerif.C02.AE

namespace TbbVerif.C02.AE
open TbbVerif.C02

theorem pubLeft_other {f f' : Flag.St} {i : Nat} (h : f'.pubs[i]? = f.pubs[i]?) : pubLeft f' i = pubLeft f i := by
  unfold pubLeft; rw [h]

theorem pubStep_cons (f : Flag.St) (i : Nat) : (pubStep f i).cons = f.cons := by
  unfold pubStep; split
  · rename_i p hp; exact (Flag.stepP_frame f i p hp).2.1
  · rfl

theorem clStep_cons (f : Flag.St) (i : Nat) : (clStep f i).cons = f.cons := by
  unfold clStep; split
  · rename_i c hc; exact (Flag.stepC_frame f i c hc).2.1
  · rfl

theorem conStep_eq (f g : Flag.St) (i : Nat) (hc : f.cons = g.cons) (hw : f.work ≤ g.work) :
    (conStep f i).cons = (conStep g i).cons ∧ (conStep f i).work ≤ (conStep g i).work := by
  unfold conStep
  rw [hc]
  cases hl : g.cons[i]? with
  | none => exact ⟨hc, hw⟩
  | some l =>
    simp only
    unfold Flag.stepT
    by_cases h0 : l = 0
    · simp only [h0, if_true]; exact ⟨hc, hw⟩
    · simp only [h0, if_false]; exact ⟨by rw [hc], by omega⟩

theorem stepT_winv {s : St} (hS : SInv s) (h : WInv s) {i : Nat} {th : Thr} (hth : s.thr[i]? = some th) : WInv (stepT s i th) := by
  have hL := h.lefts i th hth
  -- nothing but the thread record changes, and the record stays outside `ePool` / `eMand` / `eFence`
  have untouched : ∀ (s' : St) (th' : Thr), s'.thr = s.thr.set i th' → s'.fm = s.fm → s'.fp = s.fp →
      th.pc ≠ .ePool → th'.pc ≠ .ePool → th'.pc ≠ .eMand → th'.pc ≠ .eFence → WInv s' := by
    intro s' th' e1 e2 e3 a1 b1 b2 b3
    refine winv_update h hth e1 (fun _ _ => by rw [e2]) (fun _ _ => by rw [e3]) (by rw [e2, e3]; exact h.wle) ?_
      (fun _ _ e => absurd e b2) (fun _ _ e => absurd e b3) (by rw [e2, e3]; exact h.cons)
    rw [e2, e3]; simp only [a1, b1, if_false] at hL ⊢; exact hL
  unfold stepT
  cases hpc : th.pc <;> simp only [hpc] at hL untouched ⊢
  case idle =>
    cases hops : th.ops with
    | nil => simp only; exact h
    | cons o rest =>
      simp only
      exact untouched _ _ rfl rfl rfl (by simp) (by cases o <;> simp [Op.startPc]) (by cases o <;> simp [Op.startPc]) (by cases o <;> simp [Op.startPc])
  case ePush =>
    obtain ⟨_, _, _, _, a2, _⟩ := pubStep_frame s.fm i
    obtain ⟨_, _, _, _, b2, _⟩ := pubStep_frame s.fp i
    have hlen : s.fm.pubs.length = s.fp.pubs.length := by rw [hS.lenM, hS.lenP]
    cases hp : s.fm.pubs[i]? with
    | none =>
      have hq : s.fp.pubs[i]? = none := by
        apply List.getElem?_eq_none; have := List.getElem?_eq_none_iff.mp hp; omega
      refine winv_update h hth rfl (by rw [pubStep_none hp]; exact fun _ _ => rfl) (by rw [pubStep_none hq]; exact fun _ _ => rfl)
        (by simp only [St.setT, pubStep_none hp, pubStep_none hq]; exact h.wle) ?_ (fun _ _ e => by cases e) ?_
        (by simp only [St.setT, pubStep_none hp, pubStep_none hq]; exact h.cons)
      · simp only [St.setT, pubStep_none hp, pubStep_none hq]; simpa using hL
      · intro p' hp' _; simp only [St.setT, pubStep_none hq] at hp'; rw [hq] at hp'; cases hp'
    | some p =>
      have hlti := Flag.getElem?_lt' hp
      obtain ⟨q, hq⟩ : ∃ q, s.fp.pubs[i]? = some q := ⟨s.fp.pubs[i]'(by omega), List.getElem?_eq_getElem _⟩
      have hpn : p.inflight = false := by
        cases hin : p.inflight
        · rfl
        · rcases hS.lm i p th hp hth hin with e | e <;> rw [hpc] at e <;> cases e
      have hqn : q.inflight = false := by
        cases hin : q.inflight
        · rfl
        · rcases hS.lp i q th hq hth hin with e | e | e <;> rw [hpc] at e <;> cases e
      obtain ⟨p', hp', _, _, c4, _⟩ := pubStep_frame2 s.fm i p hp
      obtain ⟨q', hq', _, _, d4, _⟩ := pubStep_frame2 s.fp i q hq
      obtain ⟨c41, c42, _⟩ := c4 hpn
      obtain ⟨d41, d42, d43⟩ := d4 hqn
      have heq : p.left = q.left := by
        rw [pubLeft_some hp, pubLeft_some hq] at hL; simpa using hL
      refine winv_update h hth rfl a2 b2 ?_ ?_ (fun _ _ e => by cases e) ?_ ?_
      · show (pubStep s.fm i).work ≤ (pubStep s.fp i).work
        rw [c42, d42, heq]; have := h.wle; omega
      · show pubLeft (pubStep s.fm i) i + _ = pubLeft (pubStep s.fp i) i
        rw [pubLeft_some hp', pubLeft_some hq', c41, d41]; simpa using heq
      · intro x hx _
        have hx' : (pubStep s.fp i).pubs[i]? = some x := hx
        rw [hq'] at hx'; cases hx'; exact d43
      · obtain ⟨_, e2, _⟩ := Flag.stepP_frame s.fm i p hp
        obtain ⟨_, f2, _⟩ := Flag.stepP_frame s.fp i q hq
        show (pubStep s.fm i).cons = (pubStep s.fp i).cons
        have e1 : pubStep s.fm i = Flag.stepP s.fm i p := by unfold pubStep; rw [hp]
        have f1 : pubStep s.fp i = Flag.stepP s.fp i q := by unfold pubStep; rw [hq]
        rw [e1, f1, e2, f2]; exact h.cons
  case eFence =>
    obtain ⟨_, _, _, _, a2, _⟩ := pubStep_frame s.fm i
    obtain ⟨_, _, _, _, b2, _⟩ := pubStep_frame s.fp i
    have hlen : s.fm.pubs.length = s.fp.pubs.length := by rw [hS.lenM, hS.lenP]
    cases hp : s.fm.pubs[i]? with
    | none =>
      have hq : s.fp.pubs[i]? = none := by
        apply List.getElem?_eq_none; have := List.getElem?_eq_none_iff.mp hp; omega
      refine winv_update h hth rfl (by rw [pubStep_none hp]; exact fun _ _ => rfl) (by rw [pubStep_none hq]; exact fun _ _ => rfl)
        (by simp only [St.setT, pubStep_none hp, pubStep_none hq]; exact h.wle) ?_ ?_ (fun _ _ e => by cases e)
        (by simp only [St.setT, pubStep_none hp, pubStep_none hq]; exact h.cons)
      · simp only [St.setT, pubStep_none hp, pubStep_none hq]; simpa using hL
      · intro p' hp' _; simp only [St.setT, pubStep_none hp] at hp'; rw [hp] at hp'; cases hp'
    | some p =>
      have hlti := Flag.getElem?_lt' hp
      obtain ⟨q, hq⟩ : ∃ q, s.fp.pubs[i]? = some q := ⟨s.fp.pubs[i]'(by omega), List.getElem?_eq_getElem _⟩
      obtain ⟨p', hp', _, _, _, c5, c6, c7, _⟩ := pubStep_frame2 s.fm i p hp
      obtain ⟨q', hq', _, _, _, d5, d6, d7, _⟩ := pubStep_frame2 s.fp i q hq
      have hpf := hS.lf i p th hp hth hpc
      have hqf := h.lfp i q th hq hth hpc
      have hpl : p'.left = p.left := by
        rcases hpf with e | e
        · rw [c7 e]
        · exact (c6 e).1
      have hql : q'.left = q.left := by
        rcases hqf with e | e
        · rw [d7 e]
        · exact (d6 e).1
      have hpw : (pubStep s.fm i).work = s.fm.work := c5 (by rcases hpf with e | e; exact Or.inr e; exact Or.inl (by rw [e]; simp))
      have hqw : (pubStep s.fp i).work = s.fp.work := d5 (by rcases hqf with e | e; exact Or.inr e; exact Or.inl (by rw [e]; simp))
      refine winv_update h hth rfl a2 b2 ?_ ?_ ?_ (fun _ _ e => by cases e) ?_
      · show (pubStep s.fm i).work ≤ (pubStep s.fp i).work
        rw [hpw, hqw]; exact h.wle
      · show pubLeft (pubStep s.fm i) i + _ = pubLeft (pubStep s.fp i) i
        rw [pubLeft_some hp', pubLeft_some hq', hpl, hql]
        rw [pubLeft_some hp, pubLeft_some hq] at hL; simpa using hL
      · intro x hx _
        have hx' : (pubStep s.fm i).pubs[i]? = some x := hx
        rw [hp'] at hx'; cases hx'
        rcases hpf with e | e
        · left; rw [c7 e]; exact e
        · by_cases hz : p.left = 0
          · left; rw [hpl]; exact hz
          · right; rw [(c6 e).2 hz]; simp
      · show (pubStep s.fm i).cons = (pubStep s.fp i).cons
        rw [pubStep_cons, pubStep_cons]; exact h.cons
  case eMand =>
    obtain ⟨_, _, _, _, a2, _⟩ := pubStep_frame s.fm i
    cases hp : s.fm.pubs[i]? with
    | none =>
      refine winv_update h hth rfl (by rw [pubStep_none hp]; exact fun _ _ => rfl) (fun _ _ => rfl)
        (by simp only [St.setT, pubStep_none hp]; exact h.wle) ?_ ?_ (fun _ _ e => by simp only at e; split at e <;> cases e)
        (by simp only [St.setT, pubStep_none hp]; exact h.cons)
      · simp only [St.setT, pubStep_none hp, Nat.lt_irrefl, if_false]; simpa using hL
      · intro p' hp' _; simp only [St.setT, pubStep_none hp] at hp'; rw [hp] at hp'; cases hp'
    | some p =>
      obtain ⟨p', hp', c1, c2, _, c5, _, c7, c8⟩ := pubStep_frame2 s.fm i p hp
      have hle := h.le i p th hp hth hpc
      have hpw : (pubStep s.fm i).work = s.fm.work := c5 (by rcases hle with e | e; exact Or.inr e; exact Or.inl e)
      refine winv_update h hth rfl a2 (fun _ _ => rfl) ?_ ?_ ?_ (fun _ _ e => by simp only at e; split at e <;> cases e) ?_
      · show (pubStep s.fm i).work ≤ s.fp.work
        rw [hpw]; exact h.wle
      · show pubLeft (pubStep s.fm i) i + _ = pubLeft s.fp i
        rw [pubLeft_some hp'] ; rw [pubLeft_some hp] at hL ⊢
        by_cases hd : p'.left < p.left
        · simp only [hd, if_true]; simp at hL; omega
        · simp only [hd, if_false]; simp at hL ⊢; omega
      · intro x hx hpc'
        have hx' : (pubStep s.fm i).pubs[i]? = some x := hx
        rw [hp'] at hx'; cases hx'
        rw [pubLeft_some hp', pubLeft_some hp] at hpc'
        have hnd : ¬ (p'.left < p.left) := by intro hd; simp [hd] at hpc'
        have hsame : p'.left = p.left := by omega
        rcases hle with e | e
        · left; rw [c7 e]; exact e
        · right; exact c8 e hsame
      · show (pubStep s.fm i).cons = s.fp.cons
        rw [pubStep_cons]; exact h.cons
  case ePool =>
    obtain ⟨_, _, _, _, b2, _⟩ := pubStep_frame s.fp i
    have hwf : s.fm.work ≤ (pubStep s.fp i).work := by
      obtain ⟨_, _, _, b4, _⟩ := pubStep_frame s.fp i
      have := h.wle; omega
    have hcf : s.fm.cons = (pubStep s.fp i).cons := by rw [pubStep_cons]; exact h.cons
    split
    · rename_i hdone
      refine winv_update h hth rfl (fun _ _ => rfl) b2 hwf ?_ (fun _ _ e => absurd e (by
          rcases request_pc _ _ _ _ _ with e' | e' | e' <;> rw [e'] <;> simp)) (fun _ _ e => absurd e (request_pc_ne _ _ _ _ _)) hcf
      have hne : ∀ (x : Thr) (c : Bool) (m w : Int) (k : Bool), (x.request c m w k).pc ≠ .ePool := by
        intro x c m w k; rcases request_pc x c m w k with e' | e' | e' <;> rw [e'] <;> simp
      show pubLeft s.fm i + (if _ = Pc.ePool then 1 else 0) = pubLeft (pubStep s.fp i) i
      rw [if_neg (hne _ _ _ _ _)]
      cases hq : s.fp.pubs[i]? with
      | none => rw [pubStep_none hq] at hdone; exact absurd hdone (Nat.lt_irrefl _)
      | some q =>
        obtain ⟨q', hq', d1, d2, _⟩ := pubStep_frame2 s.fp i q hq
        rw [pubLeft_some hq', pubLeft_some hq] at hdone
        rw [pubLeft_some hq'] ; rw [pubLeft_some hq] at hL
        simp at hL; omega
    · rename_i hnd
      refine winv_update h hth rfl (fun _ _ => rfl) b2 hwf ?_ (fun _ _ e => by cases e) (fun _ _ e => by cases e) hcf
      show pubLeft s.fm i + (if Pc.ePool = Pc.ePool then 1 else 0) = pubLeft (pubStep s.fp i) i
      cases hq : s.fp.pubs[i]? with
      | none => rw [pubStep_none hq]; simpa using hL
      | some q =>
        obtain ⟨q', hq', d1, d2, _⟩ := pubStep_frame2 s.fp i q hq
        rw [pubLeft_some hq', pubLeft_some hq] at hnd
        rw [pubLeft_some hq']; rw [pubLeft_some hq] at hL
        simp at hL ⊢; omega
  case oMand =>
    obtain ⟨_, a2, a3, _⟩ := clStep_frame s.fm i
    refine winv_update h hth rfl (fun k _ => by show (clStep s.fm i).pubs[k]? = _; rw [a3]) (fun _ _ => rfl) ?_ ?_
      (fun _ _ e => by simp only at e; split at e <;> cases e) (fun _ _ e => by simp only at e; split at e <;> cases e) ?_
    · show (clStep s.fm i).work ≤ s.fp.work; rw [a2]; exact h.wle
    · show pubLeft (clStep s.fm i) i + (if _ = Pc.ePool then 1 else 0) = pubLeft s.fp i
      have : pubLeft (clStep s.fm i) i = pubLeft s.fm i := by unfold pubLeft; rw [a3]
      rw [this]
      have hne : (if clLeft (clStep s.fm i) i < clLeft s.fm i then Pc.oPool else Pc.oMand) ≠ Pc.ePool := by split <;> simp
      rw [if_neg hne]; simpa using hL
    · show (clStep s.fm i).cons = s.fp.cons; rw [clStep_cons]; exact h.cons
  case oPool =>
    obtain ⟨_, b2, b3, _⟩ := clStep_frame s.fp i
    have hne : ∀ (x : Thr) (c : Bool) (m w : Int) (k : Bool), (x.request c m w k).pc ≠ .ePool ∧ (x.request c m w k).pc ≠ .eMand := by
      intro x c m w k; rcases request_pc x c m w k with e' | e' | e' <;> rw [e'] <;> simp
    have hl' : pubLeft (clStep s.fp i) i = pubLeft s.fp i := by unfold pubLeft; rw [b3]
    split
    · refine winv_update h hth rfl (fun _ _ => rfl) (fun k _ => by show (clStep s.fp i).pubs[k]? = _; rw [b3]) ?_ ?_
        (fun _ _ e => absurd e (hne _ _ _ _ _).2) (fun _ _ e => absurd e (request_pc_ne _ _ _ _ _)) ?_
      · show s.fm.work ≤ (clStep s.fp i).work; rw [b2]; exact h.wle
      · show pubLeft s.fm i + (if _ = Pc.ePool then 1 else 0) = pubLeft (clStep s.fp i) i
        rw [if_neg (hne _ _ _ _ _).1, hl']; simpa using hL
      · show s.fm.cons = (clStep s.fp i).cons; rw [clStep_cons]; exact h.cons
    · refine winv_update h hth rfl (fun _ _ => rfl) (fun k _ => by show (clStep s.fp i).pubs[k]? = _; rw [b3]) ?_ ?_
        (fun _ _ e => by cases e) (fun _ _ e => by cases e) ?_
      · show s.fm.work ≤ (clStep s.fp i).work; rw [b2]; exact h.wle
      · show pubLeft s.fm i + (if Pc.oPool = Pc.ePool then 1 else 0) = pubLeft (clStep s.fp i) i
        rw [hl']; simpa using hL
      · show s.fm.cons = (clStep s.fp i).cons; rw [clStep_cons]; exact h.cons
  case reqProxy =>
    refine untouched _ _ rfl rfl rfl (by simp) ?_ ?_ ?_ <;> (simp only; split <;> simp)
  case reqEnable =>
    repeat' split
    all_goals exact untouched _ _ rfl rfl rfl (by simp) (by simp) (by simp) (by simp)
  case reqMarket =>
    refine untouched _ _ rfl rfl rfl (by simp) ?_ ?_ ?_ <;> (split <;> simp [Thr.done])
  case reqNotify => exact untouched _ _ rfl rfl rfl (by simp) (by simp [Thr.done]) (by simp [Thr.done]) (by simp [Thr.done])
  case tTake =>
    split
    · exact untouched _ _ rfl rfl rfl (by simp) (by simp [Thr.done]) (by simp [Thr.done]) (by simp [Thr.done])
    · obtain ⟨_, _, a3, _⟩ := conStep_frame s.fm i
      obtain ⟨_, _, b3, _⟩ := conStep_frame s.fp i
      obtain ⟨c1, c2⟩ := conStep_eq s.fm s.fp i h.cons h.wle
      refine winv_update h hth rfl (fun k _ => by show (conStep s.fm i).pubs[k]? = _; rw [a3])
        (fun k _ => by show (conStep s.fp i).pubs[k]? = _; rw [b3]) c2 ?_ (fun _ _ e => by simp [Thr.done] at e)
        (fun _ _ e => by simp [Thr.done] at e) c1
      show pubLeft (conStep s.fm i) i + (if th.done.pc = Pc.ePool then 1 else 0) = pubLeft (conStep s.fp i) i
      have e1 : pubLeft (conStep s.fm i) i = pubLeft s.fm i := by unfold pubLeft; rw [a3]
      have e2 : pubLeft (conStep s.fp i) i = pubLeft s.fp i := by unfold pubLeft; rw [b3]
      rw [e1, e2]; simp [Thr.done]; simpa using hL



end TbbVerif.C02.AE
