/-
C02 / bounded queue: which call a thread has installed at its notifier of either monitor, by program counter
(idle / `notify(leq ticket)` armed at the fence / the notification in progress / `abort_all`).
-/
import TbbVerif.Proofs.C02.BQEff

namespace TbbVerif.C02.BQ
open TbbVerif.C02

/-- the slots-monitor notifier of a thread -/
def LinkS (th : Thr) (n : Notifier) : Prop :=
  if th.ops = [] then n.ops = [] else
  match th.pc with
  | .qLoadTail | .qWait | .qHeadDec | .qConsume | .rConsume => n.ops = [leqOp th.ticket] ∧ n.pc = .fence
  | .qNotify | .rNotify => n.ops = [leqOp th.ticket]
  | .aItems => n.ops = [abortOp] ∧ n.pc = .fence
  | .aSlots => n.ops = [abortOp]
  | _ => n.ops = []

/-- the items-monitor notifier of a thread -/
def LinkI (th : Thr) (n : Notifier) : Prop :=
  if th.ops = [] then n.ops = [] else
  match th.pc with
  | .pLoadHead | .pWait | .pAbortPush | .pPublish | .tPublish => n.ops = [leqOp th.ticket] ∧ n.pc = .fence
  | .pNotify | .tNotify => n.ops = [leqOp th.ticket]
  | .aItems => n.ops = [abortOp]
  | _ => n.ops = []

structure Link (s : St) : Prop where
  lenS : s.slots.ntf.length = s.thr.length
  lenI : s.items.ntf.length = s.thr.length
  ls : ∀ (i : Nat) (th : Thr) (n : Notifier), s.thr[i]? = some th → s.slots.ntf[i]? = some n → LinkS th n
  li : ∀ (i : Nat) (th : Thr) (n : Notifier), s.thr[i]? = some th → s.items.ntf[i]? = some n → LinkI th n

theorem startPc_cases (o : Op) : o.startPc = .pLoadAbort ∨ o.startPc = .qLoadAbort ∨ o.startPc = .tLoadTail ∨
    o.startPc = .rLoadHead ∨ o.startPc = .aInc := by
  cases o <;> simp [Op.startPc]

theorem ret_pc_cases (th : Thr) (r : Nat) : (th.ret r).pc = .pLoadAbort ∨ (th.ret r).pc = .qLoadAbort ∨ (th.ret r).pc = .tLoadTail ∨
    (th.ret r).pc = .rLoadHead ∨ (th.ret r).pc = .aInc := by
  unfold Thr.ret
  cases th.ops.tail with
  | nil => exact Or.inl rfl
  | cons o _ => exact startPc_cases o

theorem linkS_ret (th : Thr) (r : Nat) (n : Notifier) : LinkS (th.ret r) n ↔ n.ops = [] := by
  unfold LinkS
  split
  · exact Iff.rfl
  · rcases ret_pc_cases th r with e | e | e | e | e <;> rw [e]

theorem linkI_ret (th : Thr) (r : Nat) (n : Notifier) : LinkI (th.ret r) n ↔ n.ops = [] := by
  unfold LinkI
  split
  · exact Iff.rfl
  · rcases ret_pc_cases th r with e | e | e | e | e <;> rw [e]

/-! ### the stepping thread leaves the other threads' records and notifiers alone -/

@[simp] theorem setT_slots (s : St) (i : Nat) (th : Thr) : (s.setT i th).slots = s.slots := rfl
@[simp] theorem setT_items (s : St) (i : Nat) (th : Thr) : (s.setT i th).items = s.items := rfl
@[simp] theorem setT_len (s : St) (i : Nat) (th : Thr) : (s.setT i th).thr.length = s.thr.length := by simp [St.setT]

theorem setT_thr (s : St) (i k : Nat) (th : Thr) :
    (s.setT i th).thr[k]? = if i = k then (if i < s.thr.length then some th else none) else s.thr[k]? := by
  simp [St.setT, List.getElem?_set]

theorem stepT_other (s : St) (i : Nat) (th : Thr) :
    (stepT s i th).thr.length = s.thr.length ∧
    (stepT s i th).slots.ntf.length = s.slots.ntf.length ∧ (stepT s i th).items.ntf.length = s.items.ntf.length ∧
    (∀ k, k ≠ i → (stepT s i th).thr[k]? = s.thr[k]?) ∧
    (∀ k, k ≠ i → (stepT s i th).slots.ntf[k]? = s.slots.ntf[k]?) ∧
    (∀ k, k ≠ i → (stepT s i th).items.ntf[k]? = s.items.ntf[k]?) := by
  have hT : ∀ (s' : St) (th' : Thr), s'.thr = s.thr → ∀ k, k ≠ i → (s'.setT i th').thr[k]? = s.thr[k]? := by
    intro s' th' e k hk; rw [setT_thr, e]; simp [Ne.symm hk]
  have hTl : ∀ (s' : St) (th' : Thr), s'.thr = s.thr → (s'.setT i th').thr.length = s.thr.length := by
    intro s' th' e; rw [setT_len, e]
  have swn : ∀ (m : C02.St) (a b : Nat), (startWait m a b).ntf = m.ntf := fun m a b => (startWait_frame m a b).1
  have wsn : ∀ (m : C02.St) (a : Nat) (t : Thr) (c : Nat) (r : Bool), (waitStep m a t c r).1.ntf = m.ntf :=
    fun m a t c r => (waitStep_frame m a t c r).1
  unfold stepT
  split
  · exact ⟨rfl, rfl, rfl, fun _ _ => rfl, fun _ _ => rfl, fun _ _ => rfl⟩
  · split
    all_goals (try dsimp only)
    all_goals (repeat' split)
    all_goals refine ⟨?_, ?_, ?_, ?_, ?_, ?_⟩
    all_goals (try simp only [setT_slots, setT_items, swn, wsn])
    all_goals first
      | rfl
      | trivial
      | (intros; trivial)
      | exact hTl _ _ rfl
      | exact (arm_frame _ _ _).2.2.1
      | exact (disarm_frame _ _).2.2.1
      | exact (armAbort_frame _ _).2.2.2.1
      | exact (ntfStep_frame _ _).2.1
      | (show (St.setCond _ _ _).ntf.length = _; exact (disarm_frame _ _).2.2.1)
      | (intro k hk; first
          | rfl
          | exact hT _ _ rfl k hk
          | exact (arm_frame _ _ _).2.2.2 k hk
          | exact (disarm_frame _ _).2.2.2.1 k hk
          | exact (armAbort_frame _ _).2.2.2.2 k hk
          | exact (ntfStep_frame _ _).2.2.2.1 k hk
          | (show (St.setCond _ _ _).ntf[k]? = _; exact (disarm_frame _ _).2.2.2.1 k hk))

/-! ### the stepping thread's own record and notifiers -/

theorem arm_self {m : C02.St} {i : Nat} {n : Notifier} (hn : m.ntf[i]? = some n) (hidle : n.ops = []) (k : Nat) :
    (arm m i k).ntf[i]? = some (armedN k) := by
  rw [arm_idle hn hidle]
  simp [St.setN, St.setCond, List.getElem?_set, getElem?_lt hn]

theorem disarm_self {m : C02.St} {i : Nat} {n : Notifier} (hn : m.ntf[i]? = some n) {k : Nat}
    (ho : n.ops = [leqOp k]) (hp : n.pc = .fence) : (disarm m i).ntf[i]? = some (mkNotifier []) := by
  rw [disarm_armed hn ho hp]
  simp [St.setN, St.setCond, List.getElem?_set, getElem?_lt hn]

theorem armAbort_self {m : C02.St} {i : Nat} {n : Notifier} (hn : m.ntf[i]? = some n) (hidle : n.ops = []) :
    (armAbort m i).ntf[i]? = some (mkNotifier [abortOp]) := by
  rw [armAbort_idle hn hidle]
  simp [St.setN, List.getElem?_set, getElem?_lt hn]

theorem waitStep_thr (m : C02.St) (i : Nat) (th : Thr) (ac : Nat) (real : Bool) :
    (waitStep m i th ac real).2.1.ops = th.ops ∧ (waitStep m i th ac real).2.1.pc = th.pc ∧
    (waitStep m i th ac real).2.1.ticket = th.ticket ∧ (waitStep m i th ac real).2.1.old = th.old := by
  unfold waitStep
  split
  · exact ⟨rfl, rfl, rfl, rfl⟩
  · repeat' split
    all_goals exact ⟨rfl, rfl, rfl, rfl⟩

theorem ntfDone_iff {m : C02.St} {i : Nat} {n : Notifier} (hn : m.ntf[i]? = some n) : ntfDone m i = true ↔ n.ops = [] := by
  unfold ntfDone; rw [hn]; exact List.isEmpty_iff

end TbbVerif.C02.BQ
