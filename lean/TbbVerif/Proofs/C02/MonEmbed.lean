/-
C02 / Monitor embedded in a client protocol (bounded queue, task_arena::execute): the Monitor invariant is preserved
when the client starts a `wait` on an idle sleeper, installs / withdraws a notifier's call, forces the predicate's
outcome, or clears ghost conditions; and frame facts about single Monitor steps that the clients' own invariants need.
-/
import TbbVerif.Proofs.C02.WaitCtx

namespace TbbVerif.C02

/-! ### client-level transitions that preserve `Inv` -/

/-- the wait predicate returned true (or threw): `wait()` goes to `cancel_wait` — same transition as the Monitor's
`check` step on a true condition -/
theorem forcedCancel_inv {s : St} (h : Inv s) {i : Nat} {sl : Sleeper} (hi : s.slp[i]? = some sl)
    (hops : sl.ops ≠ []) (hpc : sl.pc = .check) :
    Inv (s.setS i { sl with again := false, pc := .cLoad }) := by
  have hS := h.slp i sl hi
  simp only [SLoc, hpc] at hS
  refine inv_sleeper_local h hi (by sl_close) (Or.inl (by simp)) (by simp [hops]) ?_ (by simp)
  sl_close

theorem sloc_ops {W : Prop} {P : Nat} {U : Prop} (sl : Sleeper) (p : List WOp) :
    SLoc W P U { sl with ops := p } = SLoc W P U sl := rfl

/-- an idle sleeper starts a `wait(w)`; `hcompat`: every pending / future state change of `w.cond` is announced by a
notification that accepts `w.ctx` -/
theorem setOps_inv {s : St} (h : Inv s) {i : Nat} {sl : Sleeper} (hi : s.slp[i]? = some sl) (hidle : sl.ops = [])
    (w : WOp)
    (hcompat : ∀ (j : Nat) (n : Notifier), s.ntf[j]? = some n → ∀ c k r, NOp.sig (some c) k r ∈ n.ops → c = w.cond →
      k.accepts w.ctx = true)
    (huniq : ∀ (j : Nat) (n : Notifier), s.ntf[j]? = some n → ∀ cd c0 r, NOp.sig (some cd) (.onec c0) r ∉ n.ops) :
    Inv (s.setS i { sl with ops := [w] }) := by
  have hil := getElem?_lt hi
  have hpc : sl.pc = .init := h.opsS i sl hi hidle
  have hget : ∀ k, (s.setS i { sl with ops := [w] }).slp[k]? = if i = k then some { sl with ops := [w] } else s.slp[k]? := by
    intro k; simp [St.setS, List.getElem?_set, hil]
  have hlen : (s.setS i { sl with ops := [w] }).slp.length = s.slp.length := by simp [St.setS]
  constructor
  · exact h.cnt
  · exact h.nodup
  · intro k slk hk
    rw [hget] at hk
    show _ ↔ s.lock = some k
    by_cases e : i = k
    · subst e; simp at hk; subst hk; exact h.lockS i sl hi
    · simp [e] at hk; exact h.lockS k slk hk
  · intro j n hj
    show _ ↔ s.lock = some ((s.setS i { sl with ops := [w] }).slp.length + j)
    rw [hlen]; exact h.lockN j n hj
  · intro k slk hk he
    rw [hget] at hk
    by_cases e : i = k
    · subst e; simp at hk; subst hk; simp at he
    · simp [e] at hk; exact h.opsS k slk hk he
  · intro k slk hk
    rw [hget] at hk
    show SLoc (k ∈ s.waitset) (pend s k) (Unm s k) slk
    by_cases e : i = k
    · subst e; simp at hk; subst hk; rw [sloc_ops]; exact h.slp i sl hi
    · simp [e] at hk; exact h.slp k slk hk
  · intro j n hj; exact h.ntf j n hj
  · intro k slk hk hp hc
    rw [hget] at hk
    show k ∉ s.waitset ∨ ∃ (j : Nat) (n : Notifier), s.ntf[j]? = some n ∧ pendingFor n slk.cond slk.ctx = true
    by_cases e : i = k
    · subst e; simp at hk; subst hk
      simp only [hpc] at hp; rcases hp with hp | hp <;> cases hp
    · simp [e] at hk; exact h.dek k slk hk hp hc
  · intro k slk hk w' hw' j n hj c kd r hop hcw
    rw [hget] at hk
    have hj' : s.ntf[j]? = some n := hj
    by_cases e : i = k
    · subst e; simp at hk; subst hk
      simp only [List.mem_singleton] at hw'; subst hw'
      exact hcompat j n hj' c kd r hop hcw
    · simp [e] at hk; exact h.compat k slk hk w' hw' j n hj' c kd r hop hcw
  · intro j n hj cd c0 r hop
    exact absurd hop (huniq j n hj cd c0 r)
  · intro x hx
    show ∃ slx, (s.setS i { sl with ops := [w] }).slp[x]? = some slx
    rw [hget]
    by_cases e : i = x
    · simp [e]
    · simp only [e, if_false]; exact h.wsv x hx

theorem pendingFor_idle {n : Notifier} (h : n.ops = []) (c x : Nat) : pendingFor n c x = false := by
  unfold pendingFor; rw [h]

/-- an idle notifier gets the one-call program `[op]`; `hcompat`: if `op` changes a condition, its notification accepts
the context of every wait on that condition -/
theorem installN_inv {s : St} (h : Inv s) {j : Nat} {n : Notifier} (hj : s.ntf[j]? = some n) (hidle : n.ops = [])
    (op : NOp)
    (hcompat : ∀ (i : Nat) (sl : Sleeper), s.slp[i]? = some sl → ∀ w ∈ sl.ops, ∀ c k r, op = NOp.sig (some c) k r →
      c = w.cond → k.accepts w.ctx = true)
    (hnone : ∀ cd c0 r, op ≠ NOp.sig (some cd) (.onec c0) r) :
    Inv (s.setN j (mkNotifier [op])) := by
  obtain ⟨hm, hu, ht, hk, he0, hset, hfl, hsc⟩ := h.ntf j n hj
  obtain ⟨htemp, hhold⟩ := he0 hidle
  have hget : ∀ k, (s.setN j (mkNotifier [op])).ntf[k]? = if j = k then some (mkNotifier [op]) else s.ntf[k]? := by
    intro k; simp [St.setN, List.getElem?_set, getElem?_lt hj]
  have hnewhold : holdsN (mkNotifier [op]).pc = false := by simp only [mkNotifier]; exact holdsN_startPc op
  have hnot : s.lock ≠ some (s.slp.length + j) := by
    intro e; have := (h.lockN j n hj).mpr e; rw [hhold] at this; cases this
  constructor
  · exact h.cnt
  · exact h.nodup
  · intro i sl hi; exact h.lockS i sl hi
  · intro k m hk
    rw [hget] at hk
    show _ ↔ s.lock = some (s.slp.length + k)
    by_cases e : j = k
    · subst e; simp at hk; subst hk; rw [hnewhold]; simp [hnot]
    · simp [e] at hk; exact h.lockN k m hk
  · intro i sl hi; exact h.opsS i sl hi
  · intro i sl hi
    have hi' : s.slp[i]? = some sl := hi
    show SLoc (i ∈ s.waitset) (pend (s.setN j (mkNotifier [op])) i) (Unm (s.setN j (mkNotifier [op])) i) sl
    rw [pend_setN_same hj (by simp [mkNotifier, htemp]), propext (Unm_setN_same hj (by simp [Notifier.unm, mkNotifier, htemp]) i)]
    exact h.slp i sl hi'
  · intro k m hk
    rw [hget] at hk
    by_cases e : j = k
    · subst e; simp at hk; subst hk; exact nloc_mk [op]
    · simp [e] at hk; exact h.ntf k m hk
  · intro i sl hi hpc hc
    have hi' : s.slp[i]? = some sl := hi
    rcases h.dek i sl hi' hpc hc with hW | ⟨j', m, hm, hp⟩
    · exact Or.inl hW
    · right
      have hne : j ≠ j' := by
        intro e; subst e; rw [hj] at hm; cases hm; rw [pendingFor_idle hidle] at hp; cases hp
      exact ⟨j', m, by rw [hget]; simp [hne]; exact hm, hp⟩
  · intro i sl hi w hw k m hk c kd r hop hcw
    rw [hget] at hk
    have hi' : s.slp[i]? = some sl := hi
    by_cases e : j = k
    · subst e; simp at hk; subst hk
      simp only [mkNotifier, List.mem_singleton] at hop
      exact hcompat i sl hi' w hw c kd r hop.symm hcw
    · simp [e] at hk; exact h.compat i sl hi' w hw k m hk c kd r hop hcw
  · intro k m hk cd c0 r hop a a' sa sa' ha ha' w hw w' hw' hcd hc hc'
    rw [hget] at hk
    by_cases e : j = k
    · subst e; simp at hk; subst hk
      simp only [mkNotifier, List.mem_singleton] at hop
      exact absurd hop.symm (hnone cd c0 r)
    · simp [e] at hk; exact h.uniq k m hk cd c0 r hop a a' sa sa' ha ha' w hw w' hw' hcd hc hc'
  · exact h.wsv

/-- a notifier that holds no node and is outside the critical section abandons its call; every condition it was
pending for is cleared (`cs'` ≤ the old conditions) -/
theorem uninstallN_inv {s : St} (h : Inv s) {j : Nat} {n : Notifier} (hj : s.ntf[j]? = some n)
    (htemp : n.temp = []) (hhold : holdsN n.pc = false) (cs' : List Bool)
    (hle : ∀ c, cs'.getD c false = true → s.conds.getD c false = true)
    (hclr : ∀ c x, pendingFor n c x = true → cs'.getD c false = false) :
    Inv ({ s with conds := cs' }.setN j (mkNotifier [])) := by
  have hget : ∀ k, ({ s with conds := cs' }.setN j (mkNotifier [])).ntf[k]? = if j = k then some (mkNotifier []) else s.ntf[k]? := by
    intro k; simp [St.setN, List.getElem?_set, getElem?_lt hj]
  have hnot : s.lock ≠ some (s.slp.length + j) := by
    intro e; have := (h.lockN j n hj).mpr e; rw [hhold] at this; cases this
  constructor
  · exact h.cnt
  · exact h.nodup
  · intro i sl hi; exact h.lockS i sl hi
  · intro k m hk
    rw [hget] at hk
    show _ ↔ s.lock = some (s.slp.length + k)
    by_cases e : j = k
    · subst e; simp at hk; subst hk; simp [mkNotifier, holdsN, hnot]
    · simp [e] at hk; exact h.lockN k m hk
  · intro i sl hi; exact h.opsS i sl hi
  · intro i sl hi
    have hi' : s.slp[i]? = some sl := hi
    show SLoc (i ∈ s.waitset) (pend (s.setN j (mkNotifier [])) i) (Unm (s.setN j (mkNotifier [])) i) sl
    rw [pend_setN_same hj (by simp [mkNotifier, htemp]), propext (Unm_setN_same hj (by simp [Notifier.unm, mkNotifier, htemp]) i)]
    exact h.slp i sl hi'
  · intro k m hk
    rw [hget] at hk
    by_cases e : j = k
    · subst e; simp at hk; subst hk; exact nloc_mk []
    · simp [e] at hk; exact h.ntf k m hk
  · intro i sl hi hpc hc
    have hi' : s.slp[i]? = some sl := hi
    have hc' : cs'.getD sl.cond false = true := hc
    rcases h.dek i sl hi' hpc (hle _ hc') with hW | ⟨j', m, hm, hp⟩
    · exact Or.inl hW
    · right
      have hne : j ≠ j' := by
        intro e; subst e; rw [hj] at hm; cases hm
        have := hclr _ _ hp; rw [this] at hc'; cases hc'
      exact ⟨j', m, by rw [hget]; simp [hne]; exact hm, hp⟩
  · intro i sl hi w hw k m hk c kd r hop hcw
    rw [hget] at hk
    have hi' : s.slp[i]? = some sl := hi
    by_cases e : j = k
    · subst e; simp at hk; subst hk; simp [mkNotifier] at hop
    · simp [e] at hk; exact h.compat i sl hi' w hw k m hk c kd r hop hcw
  · intro k m hk cd c0 r hop a a' sa sa' ha ha' w hw w' hw' hcd hc hc'
    rw [hget] at hk
    by_cases e : j = k
    · subst e; simp at hk; subst hk; simp [mkNotifier] at hop
    · simp [e] at hk; exact h.uniq k m hk cd c0 r hop a a' sa sa' ha ha' w hw w' hw' hcd hc hc'
  · exact h.wsv

/-- ghost conditions may be cleared at any time (a cleared condition asks nothing of the notifiers) -/
theorem conds_le_inv {s : St} (h : Inv s) (cs' : List Bool)
    (hle : ∀ c, cs'.getD c false = true → s.conds.getD c false = true) : Inv { s with conds := cs' } :=
  { cnt := h.cnt, nodup := h.nodup, lockS := h.lockS, lockN := h.lockN, opsS := h.opsS, slp := h.slp, ntf := h.ntf,
    dek := fun i sl hi hpc hc => h.dek i sl hi hpc (hle _ hc), compat := h.compat, uniq := h.uniq, wsv := h.wsv }

theorem setCond_false_le (s : St) (c : Nat) :
    ∀ k, (s.setCond c false).conds.getD k false = true → s.conds.getD k false = true := by
  intro k hk
  rw [getD_setCond] at hk
  split at hk
  · cases hk
  · exact hk

theorem setCond_false_inv {s : St} (h : Inv s) (c : Nat) : Inv (s.setCond c false) :=
  conds_le_inv h _ (setCond_false_le s c)

end TbbVerif.C02
