/-
C02 / task_arena::execute: `Nep` and `Psi` hold in every reachable state.
-/
import TbbVerif.Proofs.C02.EXPsi

set_option linter.unusedSimpArgs false
set_option linter.unusedVariables false

namespace TbbVerif.C02.EX
open TbbVerif.C02

/-! ### node epochs -/

theorem step_nep {m : C02.St} (hN : Nep m) (t : Tid) : Nep (C02.step m t) := by
  unfold C02.step
  split
  · split
    · rename_i sl hsl
      intro k sl' hk
      rw [stepS_epoch]
      by_cases e : k = t
      · subst e
        rw [stepS_own m k sl hsl] at hk; cases hk
        exact nextS_nepoch_le m sl (hN k sl hsl)
      · rw [stepS_slp_other m t sl k e] at hk; exact hN k sl' hk
    · exact hN
  · split
    · rename_i n hn
      intro k sl' hk
      obtain ⟨sl0, h0, hc⟩ := stepN_slp_core m _ n k sl' hk
      have h1 : sl'.nepoch = sl0.nepoch := by
        simp only [Sleeper.core, Prod.mk.injEq] at hc; exact hc.2.2.2.1
      have := hN k sl0 h0
      have := stepN_epoch_le m (t - m.slp.length) n
      omega
    · exact hN

theorem setS_nep {m : C02.St} (hN : Nep m) {i : Nat} {sl sl' : Sleeper} (hi : m.slp[i]? = some sl) (hn : sl'.nepoch = sl.nepoch) :
    Nep (m.setS i sl') := by
  intro k slk hk
  simp only [St.setS, List.getElem?_set] at hk
  by_cases e : i = k
  · subst e; simp [getElem?_lt hi] at hk; subst hk; rw [hn]; exact hN i sl hi
  · simp [e] at hk; exact hN k slk hk

theorem forcedExit_nep {m : C02.St} (hN : Nep m) (i : Nat) : Nep (forcedExit m i) := by
  rcases forcedExit_cases m i with e | ⟨sl, h0, ⟨_, e⟩ | ⟨_, e⟩⟩ <;> rw [e]
  · exact hN
  · exact setS_nep hN h0 rfl
  · intro k slk hk
    simp only [St.setS, List.getElem?_set] at hk
    by_cases e' : i = k
    · subst e'; simp [getElem?_lt h0] at hk; subst hk; simp [Sleeper.fresh]
    · simp [e'] at hk; exact hN k slk hk

theorem startWait_nep {m : C02.St} (hN : Nep m) (i : Nat) : Nep (startWait m i) := by
  intro k sl' hk
  obtain ⟨sl, h0, h1⟩ := startWait_nepoch m i k sl' hk
  rw [startWait_epoch, h1]; exact hN k sl h0

theorem install_nep {m : C02.St} (hN : Nep m) (j : Nat) (op : NOp) : Nep (install m j op) := by
  intro k sl' hk
  rw [install_slp] at hk; rw [install_epoch]; exact hN k sl' hk

theorem setCond_nep {m : C02.St} (hN : Nep m) (c : Nat) (b : Bool) : Nep (m.setCond c b) := hN

theorem stepT_nep {s : St} (h : Nep s.mon) (i : Nat) (th : Thr) (c : Nat) : Nep (stepT s i th c).mon := by
  unfold stepT
  split
  · exact h
  · dsimp only
    split
    all_goals (repeat' split)
    all_goals first
      | exact h
      | exact step_nep h _
      | exact install_nep (step_nep h _) _ _
      | exact install_nep h _ _
      | exact install_nep (forcedExit_nep h _) _ _
      | exact startWait_nep (install_nep (setCond_nep h _ _) _ _) _
      | exact step_nep (startWait_nep h _) _
      | (rename_i sl hsl _ hc _; exact setS_nep h hsl rfl)

theorem stepF_nep {s : St} (h : Nep s.mon) (i : Nat) : Nep (stepF s i).mon := by
  unfold stepF
  dsimp only
  split
  · split
    · exact h
    · exact step_nep h _
  · exact h

theorem step_nep' {s : St} (h : Nep s.mon) (t : Tid) : Nep (step s t).mon := by
  unfold step
  dsimp only
  split
  · exact h
  · split
    · split
      · exact stepT_nep h _ _ _
      · exact h
    · exact stepF_nep h _

/-! ### witnesses -/

/-- a witness survives the step of a thread that is not inside `notify_one` -/
theorem wit_keep {s s' : St} {k : Nat} (hw : Wit s k) (i : Nat)
    (hne : ∀ thi, s.thr[i]? = some thi → thi.pc ≠ .notify)
    (hthr : ∀ u, u ≠ i → s'.thr[u]? = s.thr[u]?)
    (hntf : ∀ u, u ≠ i → u < s.thr.length → s'.mon.ntf[u]? = s.mon.ntf[u]?) : Wit s' k := by
  obtain ⟨u, thu, nu, h1, h2, h3, h4, h5, h6⟩ := hw
  have hui : u ≠ i := by intro e; subst e; exact hne thu h1 h3
  exact ⟨u, thu, nu, by rw [hthr u hui]; exact h1, by rw [hntf u hui (getElem?_lt h1)]; exact h2, h3, h4, h5, h6⟩

/-! ### `Psi` under the steps of an `execute` call -/

theorem own_pc_ne {s : St} {i : Nat} {th : Thr} (hth : s.thr[i]? = some th) (h : th.pc ≠ .notify) :
    ∀ thi, s.thr[i]? = some thi → thi.pc ≠ .notify := by
  intro thi hi; rw [hth] at hi; cases hi; exact h

theorem stepT_psi_scan1 {s : St} (hP : Psi s) {i : Nat} {th : Thr} (hth : s.thr[i]? = some th) (c : Nat)
    (hops : ¬ th.ops = 0) (hpc : th.pc = .scan1) : Psi (stepT s i th c) := by
  have hi := getElem?_lt hth
  have hnn := own_pc_ne hth (by rw [hpc]; simp)
  unfold stepT
  rw [if_neg hops]
  simp only [hpc]
  have oth : ∀ (s' : St) (th' : Thr), s'.thr = s.thr → ∀ u, u ≠ i → (s'.setT i th').thr[u]? = s.thr[u]? := by
    intro s' th' e u hu; rw [getT_setT, e]; simp [Ne.symm hu]
  split
  · refine psi_transfer hP i (by simp) rfl (fun t ht => ⟨oth _ _ rfl t ht, fun sl' h => ⟨sl', h, rfl⟩, id⟩)
      (fun k h => Or.inl h) (fun k w => Or.inl (wit_keep w i hnn (oth _ _ rfl) (fun _ _ _ => rfl))) ?_
    intro th' sl' ht' _ hp
    rw [getT_setT] at ht'; simp [hi] at ht'; subst ht'; cases hp
  · split
    · refine psi_transfer hP i (by simp [tas_len]) rfl (fun t ht => ⟨oth _ _ rfl t ht, fun sl' h => ⟨sl', h, rfl⟩, id⟩)
        (fun k h => Or.inl (tas_free _ _ _ h)) (fun k w => Or.inl (wit_keep w i hnn (oth _ _ rfl) (fun _ _ _ => rfl))) ?_
      intro th' sl' ht' _ hp
      rw [getT_setT] at ht'; simp [hi] at ht'; subst ht'; cases hp
    · split
      · refine psi_transfer hP i (by simp) rfl (fun t ht => ⟨oth _ _ rfl t ht, fun sl' h => ⟨sl', h, rfl⟩, id⟩)
          (fun k h => Or.inl h) (fun k w => Or.inl (wit_keep w i hnn (oth _ _ rfl) (fun _ _ _ => rfl))) ?_
        intro th' sl' ht' _ hp
        rw [getT_setT] at ht'; simp [hi] at ht'; subst ht'; cases hp
      · refine psi_transfer hP i (by simp) rfl (fun t ht => ⟨oth _ _ rfl t ht, fun sl' h => ⟨sl', h, rfl⟩, id⟩)
          (fun k h => Or.inl h) (fun k w => Or.inl (wit_keep w i hnn (oth _ _ rfl) (fun _ _ _ => rfl))) ?_
        intro th' sl' ht' _ hp
        rw [getT_setT] at ht'; simp [hi] at ht'; subst ht'; cases hp

theorem stepT_psi_inner {s : St} (hP : Psi s) {i : Nat} {th : Thr} (hth : s.thr[i]? = some th) (c : Nat)
    (hops : ¬ th.ops = 0) (hpc : th.pc = .inner) : Psi (stepT s i th c) := by
  have hi := getElem?_lt hth
  have hnn := own_pc_ne hth (by rw [hpc]; simp)
  unfold stepT
  rw [if_neg hops]
  simp only [hpc]
  have oth : ∀ (s' : St) (th' : Thr), s'.thr = s.thr → ∀ u, u ≠ i → (s'.setT i th').thr[u]? = s.thr[u]? := by
    intro s' th' e u hu; rw [getT_setT, e]; simp [Ne.symm hu]
  split
  · refine psi_transfer hP i (by simp) rfl (fun t ht => ⟨oth _ _ rfl t ht, fun sl' h => ⟨sl', h, rfl⟩, id⟩)
      (fun k h => Or.inl h) (fun k w => Or.inl (wit_keep w i hnn (oth _ _ rfl) (fun _ _ _ => rfl))) ?_
    intro th' sl' ht' _ hp
    rw [getT_setT] at ht'; simp [hi] at ht'; subst ht'; cases hp
  · exact hP

theorem stepT_psi_enq {s : St} (hLD : LD s) (hP : Psi s) {i : Nat} {th : Thr} (hth : s.thr[i]? = some th) (c : Nat)
    (hops : ¬ th.ops = 0) (hpc : th.pc = .enq) : Psi (stepT s i th c) := by
  have hi := getElem?_lt hth
  have hnn := own_pc_ne hth (by rw [hpc]; simp)
  unfold stepT
  rw [if_neg hops]
  simp only [hpc]
  have oth : ∀ (s' : St) (th' : Thr), s'.thr = s.thr → ∀ u, u ≠ i → (s'.setT i th').thr[u]? = s.thr[u]? := by
    intro s' th' e u hu; rw [getT_setT, e]; simp [Ne.symm hu]
  have hws : (startWait (install (s.mon.setCond i false) (s.thr.length + i) (.sig (some i) (.ctx (i + 1)) false)) i).waitset =
      s.mon.waitset := by rw [startWait_waitset, install_waitset]; rfl
  refine psi_transfer hP i (by simp) ?_ ?_ (fun k h => Or.inl h) ?_ ?_
  · show (startWait _ i).epoch = _; rw [startWait_epoch, install_epoch]; rfl
  · intro t ht
    refine ⟨oth _ _ rfl t ht, ?_, ?_⟩
    · intro sl' h
      obtain ⟨sl, h0, h1⟩ := startWait_nepoch _ i t sl' h
      rw [install_slp] at h0; exact ⟨sl, h0, h1⟩
    · intro h; exact hws ▸ h
  · intro k w
    refine Or.inl (wit_keep w i hnn (oth _ _ rfl) ?_)
    intro u hu hul
    show (startWait _ i).ntf[u]? = _
    rw [startWait_ntf, install_ntf_other _ _ _ _ (by omega)]; rfl
  · intro th' sl' ht' _ _ hw
    have hw' : i ∈ s.mon.waitset := hws ▸ hw
    have := ws_wait hLD hth hw'
    rw [hpc] at this; cases this

theorem stepT_psi_release {s : St} (hLD : LD s) (hP : Psi s) {i : Nat} {th : Thr} (hth : s.thr[i]? = some th) (c : Nat)
    (hops : ¬ th.ops = 0) (hpc : th.pc = .release) : Psi (stepT s i th c) := by
  have hi := getElem?_lt hth
  have hnn := own_pc_ne hth (by rw [hpc]; simp)
  obtain ⟨sl, n, f, h1, h2, h3, L⟩ := hLD.l i th hth
  have hnid : n.ops = [] := L.ntfOff (by rw [hpc]; simp)
  unfold stepT
  rw [if_neg hops]
  simp only [hpc]
  have oth : ∀ (s' : St) (th' : Thr), s'.thr = s.thr → ∀ u, u ≠ i → (s'.setT i th').thr[u]? = s.thr[u]? := by
    intro s' th' e u hu; rw [getT_setT, e]; simp [Ne.symm hu]
  refine psi_transfer hP i (by simp) ?_ ?_ ?_ ?_ ?_
  · show (install _ i _).epoch = _; rw [install_epoch]
  · intro t ht
    refine ⟨oth _ _ rfl t ht, ?_, ?_⟩
    · intro sl' h; exact ⟨sl', by rw [← install_slp s.mon i (.sig none .one false)]; exact h, rfl⟩
    · intro h; rw [← install_waitset s.mon i (.sig none .one false)]; exact h
  · -- the released slot: this thread is the witness
    intro k hk
    by_cases e : k = th.idx
    · by_cases hl : th.idx < s.slots.length
      · right
        refine ⟨i, { th with pc := .notify, rel := true }, mkNotifier [.sig none .one false], ?_, install_ntf_self h2 hnid _,
          rfl, rfl, e.symm, ?_⟩
        · rw [getT_setT]; simp [hi]
        · simp [preBump, mkNotifier, NOp.startPc]
      · left
        have : (s.slots.set th.idx false) = s.slots := List.set_eq_of_length_le (by omega)
        have hk' : (s.slots.set th.idx false).getD k true = false := hk
        rw [this] at hk'; exact hk'
    · left
      have : (s.slots.set th.idx false).getD k true = s.slots.getD k true := by
        simp [List.getD_eq_getElem?_getD, List.getElem?_set, Ne.symm e]
      rw [← this]; exact hk
  · intro k w
    refine Or.inl (wit_keep w i hnn (oth _ _ rfl) ?_)
    intro u hu hul
    show (install _ i _).ntf[u]? = _
    rw [install_ntf_other _ _ _ _ hu]
  · intro th' sl' ht' _ hp
    rw [getT_setT] at ht'; simp [hi] at ht'; subst ht'; cases hp

/-- a Monitor step of sleeper `i`, seen from the other threads -/
theorem sstep_frame {m : C02.St} {i : Nat} {sl : Sleeper} (hi : m.slp[i]? = some sl) :
    (C02.step m i).epoch = m.epoch ∧ (C02.step m i).ntf = m.ntf ∧
    (∀ t, t ≠ i → (C02.step m i).slp[t]? = m.slp[t]? ∧ (t ∈ (C02.step m i).waitset ↔ t ∈ m.waitset)) := by
  rw [step_slp hi]
  exact ⟨stepS_epoch m i sl, (stepS_frame m i sl).1, fun t ht => ⟨stepS_slp_other m i sl t ht, stepS_waitset_other m i sl t ht⟩⟩

theorem stepT_psi_loopChk {s : St} (hLD : LD s) (hP : Psi s) {i : Nat} {th : Thr} (hth : s.thr[i]? = some th) (c : Nat)
    (hops : ¬ th.ops = 0) (hpc : th.pc = .loopChk) : Psi (stepT s i th c) := by
  have hi := getElem?_lt hth
  have hnn := own_pc_ne hth (by rw [hpc]; simp)
  obtain ⟨sl, n, f, h1, h2, h3, L⟩ := hLD.l i th hth
  have hidle : sl.ops = [] := L.idle (Or.inr (Or.inr hpc))
  have hinit : sl.pc = .init := hLD.m.inv.opsS i sl h1 hidle
  unfold stepT
  rw [if_neg hops]
  simp only [hpc]
  have oth : ∀ (s' : St) (th' : Thr), s'.thr = s.thr → ∀ u, u ≠ i → (s'.setT i th').thr[u]? = s.thr[u]? := by
    intro s' th' e u hu; rw [getT_setT, e]; simp [Ne.symm hu]
  split
  · refine psi_transfer hP i (by simp) ?_ ?_ (fun k h => Or.inl h) ?_ ?_
    · show (install _ i _).epoch = _; rw [install_epoch]
    · intro t ht
      refine ⟨oth _ _ rfl t ht, ?_, ?_⟩
      · intro sl' h; exact ⟨sl', by rw [← install_slp s.mon i (.sig none .one false)]; exact h, rfl⟩
      · intro h; rw [← install_waitset s.mon i (.sig none .one false)]; exact h
    · intro k w
      refine Or.inl (wit_keep w i hnn (oth _ _ rfl) ?_)
      intro u hu hul
      show (install _ i _).ntf[u]? = _
      rw [install_ntf_other _ _ _ _ hu]
    · intro th' sl' ht' _ hp
      rw [getT_setT] at ht'; simp [hi] at ht'; subst ht'; cases hp
  · have e1 := startWait_slp_self h1 hidle
    obtain ⟨f1, f2, f3⟩ := sstep_frame e1
    refine psi_transfer hP i (by simp) ?_ ?_ (fun k h => Or.inl h) ?_ ?_
    · show (C02.step _ i).epoch = _; rw [f1, startWait_epoch]
    · intro t ht
      refine ⟨oth _ _ rfl t ht, ?_, ?_⟩
      · intro sl' h
        have h' : (C02.step (startWait s.mon i) i).slp[t]? = some sl' := h
        rw [(f3 t ht).1] at h'
        exact startWait_nepoch _ _ _ _ h'
      · intro h
        have h' : t ∈ (C02.step (startWait s.mon i) i).waitset := h
        rw [(f3 t ht).2, startWait_waitset] at h'; exact h'
    · intro k w
      refine Or.inl (wit_keep w i hnn (oth _ _ rfl) ?_)
      intro u hu hul
      show (C02.step _ i).ntf[u]? = _
      rw [f2, startWait_ntf]
    · intro th' sl' ht' _ _ hw
      have hw' : i ∈ (C02.step (startWait s.mon i) i).waitset := hw
      rw [step_slp e1] at hw'
      rcases stepS_ws_own _ _ _ hw' with e | e
      · rw [startWait_waitset] at e
        have := ws_wait hLD hth e
        rw [hpc] at this; cases this
      · have : ({ sl with ops := [⟨i + 1, i⟩] } : Sleeper).pc = .init := hinit
        rw [this] at e; cases e

theorem stepT_psi_dtor {s : St} (hLD : LD s) (hP : Psi s) {i : Nat} {th : Thr} (hth : s.thr[i]? = some th) (c : Nat)
    (hops : ¬ th.ops = 0) (hpc : th.pc = .dtor) : Psi (stepT s i th c) := by
  have hi := getElem?_lt hth
  have hnn := own_pc_ne hth (by rw [hpc]; simp)
  obtain ⟨sl, n, f, h1, h2, h3, L⟩ := hLD.l i th hth
  unfold stepT
  rw [if_neg hops]
  simp only [hpc]
  have oth : ∀ (s' : St) (th' : Thr), s'.thr = s.thr → ∀ u, u ≠ i → (s'.setT i th').thr[u]? = s.thr[u]? := by
    intro s' th' e u hu; rw [getT_setT, e]; simp [Ne.symm hu]
  split
  · exact hP
  · split
    · obtain ⟨f1, f2, f3⟩ := sstep_frame h1
      refine psi_transfer (s' := { s with mon := _ }) hP i rfl f1 ?_ (fun k h => Or.inl h) ?_ ?_
      · intro t ht
        exact ⟨rfl, fun sl' h => ⟨sl', by rw [← (f3 t ht).1]; exact h, rfl⟩, fun h => (f3 t ht).2.mp h⟩
      · intro k w
        refine Or.inl (wit_keep w i hnn (fun _ _ => rfl) ?_)
        intro u hu hul
        show (C02.step _ i).ntf[u]? = _
        rw [f2]
      · intro th' sl' ht' _ hp
        have : s.thr[i]? = some th' := ht'
        rw [hth] at this; cases this
        rw [hpc] at hp; cases hp
    · refine psi_transfer hP i (by simp) rfl (fun t ht => ⟨oth _ _ rfl t ht, fun sl' h => ⟨sl', h, rfl⟩, id⟩)
        (fun k h => Or.inl h) (fun k w => Or.inl (wit_keep w i hnn (oth _ _ rfl) (fun _ _ _ => rfl))) ?_
      intro th' sl' ht' _ hp
      rw [getT_setT] at ht'; simp [hi] at ht'; subst ht'
      simp [Thr.ret] at hp

/-- a Monitor step of notifier `j`, seen from the threads -/
theorem nstep_frame {m : C02.St} {j : Nat} {n : Notifier} (hj : m.ntf[j]? = some n) :
    (∀ (t : Nat) (sl' : Sleeper), (stepN m j n).slp[t]? = some sl' → ∃ sl, m.slp[t]? = some sl ∧ sl'.nepoch = sl.nepoch) ∧
    (∀ t, t ∈ (stepN m j n).waitset → t ∈ m.waitset) ∧
    (∀ u, u ≠ j → (stepN m j n).ntf[u]? = m.ntf[u]?) := by
  refine ⟨?_, fun t h => stepN_waitset_sub m j n t h, (stepN_frame m j n hj).2.2.1⟩
  intro t sl' h
  obtain ⟨sl0, h0, hc⟩ := stepN_slp_core m j n t sl' h
  refine ⟨sl0, h0, ?_⟩
  simp only [Sleeper.core, Prod.mk.injEq] at hc; exact hc.2.2.2.1

theorem stepT_psi_notify {s : St} (hLD : LD s) (hI : PInv s) {i : Nat} {th : Thr} (hth : s.thr[i]? = some th) (c : Nat)
    (hops : ¬ th.ops = 0) (hpc : th.pc = .notify) : Psi (stepT s i th c) := by
  have hi := getElem?_lt hth
  obtain ⟨sl, n, f, h1, h2, h3, L⟩ := hLD.l i th hth
  obtain ⟨fr1, fr2, fr3⟩ := nstep_frame h2
  have hstep : C02.step s.mon (s.mon.slp.length + i) = stepN s.mon i n := step_ntf h2
  have oth : ∀ (s' : St) (th' : Thr), s'.thr = s.thr → ∀ u, u ≠ i → (s'.setT i th').thr[u]? = s.thr[u]? := by
    intro s' th' e u hu; rw [getT_setT, e]; simp [Ne.symm hu]
  -- the state after the step, whatever the branch: monitor `stepN`, slots unchanged, other threads unchanged, own pc not `wait`
  have key : ∀ (s' : St), s'.mon = stepN s.mon i n → s'.slots = s.slots → (∀ u, u ≠ i → s'.thr[u]? = s.thr[u]?) →
      (∀ th', s'.thr[i]? = some th' → th'.pc ≠ .wait) →
      ((∃ n', (stepN s.mon i n).ntf[i]? = some n' ∧ preBump n' = true ∧ n'.ops = n.ops) → s'.thr[i]? = s.thr[i]?) → Psi s' := by
    intro s' hm hs hu hown hkeep
    rcases stepN_epoch s.mon i n with he | ⟨hpe, hne, he⟩
    · refine psi_transfer hI.psi i (by rw [hs]) (by rw [hm, he]) ?_ (fun k h => Or.inl (by rw [← hs]; exact h)) ?_ ?_
      · intro t ht
        exact ⟨hu t ht, fun sl' h => fr1 t sl' (by rw [← hm]; exact h), fun h => fr2 t (by rw [← hm]; exact h)⟩
      · intro k w
        obtain ⟨u, thu, nu, w1, w2, w3, w4, w5, w6⟩ := w
        by_cases e : u = i
        · subst e
          rw [h2] at w2; cases w2
          have hpne : n.pc ≠ .epoch := by
            intro hp
            have hne' : n.ops ≠ [] := by
              intro e0; simp [preBump, e0] at w6
            -- the epoch access would have bumped the epoch
            have : (stepN s.mon u n).epoch = s.mon.epoch + 1 := by
              unfold stepN
              rw [if_neg (by simpa using hne')]
              simp only [hp, St.setN]
            omega
          obtain ⟨_, hws, hcase⟩ := stepN_preBump s.mon u n h2 w6 hpne
          rcases hcase with ⟨n', g1, g2, g3⟩ | ⟨_, hc0⟩
          · left
            have hk := hkeep ⟨n', g1, g2, g3⟩
            exact ⟨u, thu, n', by rw [hk]; exact w1, by rw [hm]; exact g1, w3, w4, w5, g2⟩
          · right
            rw [hm, hws]
            have := hLD.m.inv.cnt
            rw [hc0] at this
            exact List.eq_nil_of_length_eq_zero this.symm
        · left
          exact ⟨u, thu, nu, by rw [hu u e]; exact w1, by rw [hm, fr3 u e]; exact w2, w3, w4, w5, w6⟩
      · intro th' sl' ht' _ hp
        exact absurd hp (hown th' ht')
    · exact psi_bump hI.nep (by rw [hm, he]) (fun t sl' h => fr1 t sl' (by rw [← hm]; exact h))
  unfold stepT
  rw [if_neg hops]
  simp only [hpc]
  rw [hstep]
  split
  · rename_i hdone
    have hnd : ∀ n', (stepN s.mon i n).ntf[i]? = some n' → n'.ops = [] := by
      intro n' hn'; exact (ntfDone_iff hn').mp hdone
    have hno : (∃ n', (stepN s.mon i n).ntf[i]? = some n' ∧ preBump n' = true ∧ n'.ops = n.ops) → False := by
      rintro ⟨n', g1, g2, g3⟩
      have := hnd n' g1
      simp [preBump, this] at g2
    split
    · refine key _ rfl rfl (oth _ _ rfl) ?_ (fun h => (hno h).elim)
      intro th' ht'
      rw [getT_setT] at ht'; simp [hi] at ht'; subst ht'; simp
    · refine key _ rfl rfl (oth _ _ rfl) ?_ (fun h => (hno h).elim)
      intro th' ht'
      rw [getT_setT] at ht'; simp [hi] at ht'; subst ht'; simp [Thr.ret]
  · refine key { s with mon := _, absorbed := _ } rfl rfl (fun _ _ => rfl) ?_ (fun _ => rfl)
    intro th' ht'
    have : s.thr[i]? = some th' := ht'
    rw [hth] at this; cases this
    rw [hpc]; simp

theorem stepF_psi {s : St} (hLD : LD s) (hI : PInv s) (i : Nat) : Psi (stepF s i) := by
  unfold stepF
  dsimp only
  split
  · rename_i fn hfn
    split
    · exact hI.psi
    · rw [step_ntf hfn]
      obtain ⟨fr1, fr2, fr3⟩ := nstep_frame hfn
      have hjN : s.thr.length ≤ s.thr.length + i := Nat.le_add_right _ _
      rcases stepN_epoch s.mon (s.thr.length + i) fn with he | ⟨hpe, hne, he⟩
      · refine psi_transfer (s' := { s with mon := _ }) hI.psi s.thr.length rfl he ?_ (fun k h => Or.inl h) ?_ ?_
        · intro t ht
          exact ⟨rfl, fun sl' h => fr1 t sl' h, fun h => fr2 t h⟩
        · intro k w
          obtain ⟨u, thu, nu, w1, w2, w3, w4, w5, w6⟩ := w
          have hul := getElem?_lt w1
          left
          exact ⟨u, thu, nu, w1, by show (stepN _ _ _).ntf[u]? = _; rw [fr3 u (by omega)]; exact w2, w3, w4, w5, w6⟩
        · intro th' sl' ht'
          have : s.thr[s.thr.length]? = some th' := ht'
          rw [List.getElem?_eq_none (Nat.le_refl _)] at this; cases this
      · exact psi_bump (s' := { s with mon := _ }) hI.nep he (fun t sl' h => fr1 t sl' h)
  · exact hI.psi

theorem mem_range_of_lt {k S : Nat} (h : k < S) : k ∈ List.range S := List.mem_range.mpr h

theorem stepT_psi_wait {s : St} (hLD : LD s) (hP : Psi s) {i : Nat} {th : Thr} (hth : s.thr[i]? = some th) (c : Nat)
    (hops : ¬ th.ops = 0) (hpc : th.pc = .wait) : Psi (stepT s i th c) := by
  have hi := getElem?_lt hth
  have hnn := own_pc_ne hth (by rw [hpc]; simp)
  obtain ⟨sl, n, f, h1, h2, h3, L⟩ := hLD.l i th hth
  have hnid : n.ops = [] := L.ntfOff (by rw [hpc]; simp)
  have oth : ∀ (s' : St) (th' : Thr), s'.thr = s.thr → ∀ u, u ≠ i → (s'.setT i th').thr[u]? = s.thr[u]? := by
    intro s' th' e u hu; rw [getT_setT, e]; simp [Ne.symm hu]
  unfold stepT
  rw [if_neg hops]
  simp only [hpc, h1]
  split
  · -- the loop condition after a commit_wait that returned false
    rename_i hrk
    split
    · have hfe : (forcedExit s.mon i).epoch = s.mon.epoch ∧ (forcedExit s.mon i).waitset = s.mon.waitset ∧
          (forcedExit s.mon i).ntf = s.mon.ntf ∧ (∀ t, t ≠ i → (forcedExit s.mon i).slp[t]? = s.mon.slp[t]?) := by
        rcases forcedExit_cases s.mon i with e | ⟨sl0, h0, ⟨_, e⟩ | ⟨_, e⟩⟩ <;> rw [e]
        · exact ⟨rfl, rfl, rfl, fun _ _ => rfl⟩
        · exact ⟨rfl, rfl, rfl, fun t ht => by simp [St.setS, List.getElem?_set, Ne.symm ht]⟩
        · exact ⟨rfl, rfl, rfl, fun t ht => by simp [St.setS, List.getElem?_set, Ne.symm ht]⟩
      obtain ⟨q1, q2, q3, q4⟩ := hfe
      refine psi_transfer hP i (by simp) ?_ ?_ (fun k h => Or.inl h) ?_ ?_
      · show (install _ i _).epoch = _; rw [install_epoch, q1]
      · intro t ht
        refine ⟨oth _ _ rfl t ht, ?_, ?_⟩
        · intro sl' h
          have h' : (install (forcedExit s.mon i) i (.sig none .one false)).slp[t]? = some sl' := h
          rw [install_slp, q4 t ht] at h'; exact ⟨sl', h', rfl⟩
        · intro h
          have h' : t ∈ (install (forcedExit s.mon i) i (.sig none .one false)).waitset := h
          rw [install_waitset, q2] at h'; exact h'
      · intro k w
        refine Or.inl (wit_keep w i hnn (oth _ _ rfl) ?_)
        intro u hu hul
        show (install _ i _).ntf[u]? = _
        rw [install_ntf_other _ _ _ _ hu, q3]
      · intro th' sl' ht' _ hp
        rw [getT_setT] at ht'; simp [hi] at ht'; subst ht'; cases hp
    · refine psi_transfer hP i (by simp) rfl (fun t ht => ⟨oth _ _ rfl t ht, fun sl' h => ⟨sl', h, rfl⟩, id⟩)
        (fun k h => Or.inl h) (fun k w => Or.inl (wit_keep w i hnn (oth _ _ rfl) (fun _ _ _ => rfl))) ?_
      intro th' sl' ht' hsl' _ hw hne k hk hkt hfree
      rw [getT_setT] at ht'; simp [hi] at ht'; subst ht'
      have hsl'' : sl' = sl := by
        have : s.mon.slp[i]? = some sl' := hsl'
        rw [h1] at this; cases this; rfl
      subst hsl''
      exact wit_keep (hP i th sl' hth h1 hpc hw hne k hk hkt hfree) i hnn (oth _ _ rfl) (fun _ _ _ => rfl)
  · rename_i hrk
    split
    · -- one try_occupy
      rename_i hc
      split
      · rename_i hsucc
        refine psi_transfer hP i (by simp [tas_len]) rfl ?_ (fun k h => Or.inl (tas_free _ _ _ h)) ?_ ?_
        · intro t ht
          refine ⟨oth _ _ rfl t ht, ?_, id⟩
          intro sl' h
          refine ⟨sl', ?_, rfl⟩
          simpa [St.setS, List.getElem?_set, Ne.symm ht] using h
        · intro k w
          exact Or.inl (wit_keep w i hnn (oth _ _ rfl) (fun _ _ _ => rfl))
        · intro th' sl' ht' hsl' _ hw hne k hk hkt hfree
          rw [getT_setT] at ht'; simp [hi] at ht'; subst ht'
          have hsl'' : sl' = { sl with again := false, pc := .cLoad } := by
            have : (s.mon.setS i { sl with again := false, pc := .cLoad }).slp[i]? = some sl' := hsl'
            simp [St.setS, List.getElem?_set, getElem?_lt h1] at this; exact this.symm
          by_cases e : k = pickSlot th.todo c
          · subst e
            have := tas_taken _ _ hsucc
            have hf : (tas s.slots (pickSlot th.todo c)).1.getD (pickSlot th.todo c) true = false := hfree
            rw [this] at hf; cases hf
          · have hkt' : k ∉ th.todo := fun hm => hkt ((List.mem_erase_of_ne e).mpr hm)
            have w := hP i th sl hth h1 hpc hw (by rw [hsl''] at hne; exact hne) k (by simpa [tas_len] using hk) hkt'
              (tas_free _ _ _ hfree)
            exact wit_keep w i hnn (oth _ _ rfl) (fun _ _ _ => rfl)
      · rename_i hfail
        refine psi_transfer hP i (by simp) rfl (fun t ht => ⟨oth _ _ rfl t ht, fun sl' h => ⟨sl', h, rfl⟩, id⟩)
          (fun k h => Or.inl h) (fun k w => Or.inl (wit_keep w i hnn (oth _ _ rfl) (fun _ _ _ => rfl))) ?_
        intro th' sl' ht' hsl' _ hw hne k hk hkt hfree
        rw [getT_setT] at ht'; simp [hi] at ht'; subst ht'
        have hsl'' : sl' = sl := by
          have : s.mon.slp[i]? = some sl' := hsl'
          rw [h1] at this; cases this; rfl
        subst hsl''
        by_cases e : k = pickSlot th.todo c
        · subst e
          have := tas_fail _ _ hfail
          have hf : s.slots.getD (pickSlot th.todo c) true = false := hfree
          rw [this] at hf; cases hf
        · have hkt' : k ∉ th.todo := fun hm => hkt ((List.mem_erase_of_ne e).mpr hm)
          have w := hP i th sl' hth h1 hpc hw hne k hk hkt' hfree
          exact wit_keep w i hnn (oth _ _ rfl) (fun _ _ _ => rfl)
    · -- a Monitor step of the sleeper
      rename_i hc
      obtain ⟨f1, f2, f3⟩ := sstep_frame h1
      have e1 : (C02.step s.mon i).slp[i]? = some (nextS s.mon sl) := by rw [step_slp h1]; exact stepS_own _ _ _ h1
      have hl1 := hLD.m.len1 i sl h1
      have htail : sl.ops.tail = [] := by
        cases ho : sl.ops with
        | nil => rfl
        | cons a r => rw [ho] at hl1; simp at hl1; simp [hl1]
      -- common part: the other threads and the witnesses
      have g3 : ∀ (m' : C02.St), (∀ t, t ≠ i → m'.slp[t]? = (C02.step s.mon i).slp[t]?) → m'.waitset = (C02.step s.mon i).waitset →
          ∀ t, t ≠ i → (∀ sl', m'.slp[t]? = some sl' → ∃ sl0, s.mon.slp[t]? = some sl0 ∧ sl'.nepoch = sl0.nepoch) ∧
            (t ∈ m'.waitset → t ∈ s.mon.waitset) := by
        intro m' hs hw t ht
        exact ⟨fun sl' h => ⟨sl', by rw [← (f3 t ht).1, ← hs t ht]; exact h, rfl⟩, fun h => (f3 t ht).2.mp (hw ▸ h)⟩
      -- own part, when the thread stays in the wait loop with the same scan state
      have own : ∀ (s' : St) (th2 : Thr), s'.mon = C02.step s.mon i → s'.slots = s.slots →
          (∀ u, u ≠ i → s'.thr[u]? = s.thr[u]?) → s'.thr[i]? = some th2 →
          (th2.todo = th.todo ∨ th2.todo = List.range s.slots.length) →
          ((nextS s.mon sl).ops ≠ []) → Psi s' := by
        intro s' th2 hm hs hu hown htodo hne'
        refine psi_transfer hP i (by rw [hs]) (by rw [hm, f1]) ?_ (fun k h => Or.inl (by rw [← hs]; exact h)) ?_ ?_
        · intro t ht
          have := g3 s'.mon (fun t _ => by rw [hm]) (by rw [hm]) t ht
          exact ⟨hu t ht, this.1, this.2⟩
        · intro k w
          exact Or.inl (wit_keep w i hnn hu (fun u _ _ => by rw [hm, f2]))
        · intro th' sl' ht' hsl' _ hw hne k hk hkt hfree
          rw [hown] at ht'; cases ht'
          rw [hm, e1] at hsl'; cases hsl'
          rcases htodo with e | e
          · rw [e] at hkt
            by_cases hps : preScan sl.pc = true
            · have := L.todo1 hpc hps
              rw [this] at hkt
              exact absurd (mem_range_of_lt (by rw [← hs]; exact hk)) hkt
            · have hps' : preScan sl.pc = false := by simpa using hps
              obtain ⟨q1, q2⟩ := stepS_own_scope s.mon i sl hps'
              rcases q1 with q1 | ⟨_, q1⟩
              · have hw' : i ∈ s.mon.waitset := by
                  apply q2; rw [← step_slp h1, ← hm]; exact hw
                have w := hP i th sl hth h1 hpc hw' (by rw [← q1, hne, hm, f1]) k (by rw [← hs]; exact hk) hkt
                  (by rw [← hs]; exact hfree)
                exact wit_keep w i hnn hu (fun u _ _ => by rw [hm, f2])
              · rw [htail] at q1; exact absurd q1 hne'
          · rw [e] at hkt
            exact absurd (mem_range_of_lt (by rw [← hs]; exact hk)) hkt
      split
      · -- the wait is over
        rename_i hover
        have fin : ∀ (s' : St), s'.slots = s.slots → s'.mon.epoch = s.mon.epoch →
            (∀ t, t ≠ i → (∀ sl', s'.mon.slp[t]? = some sl' → ∃ sl0, s.mon.slp[t]? = some sl0 ∧ sl'.nepoch = sl0.nepoch) ∧
              (t ∈ s'.mon.waitset → t ∈ s.mon.waitset)) →
            (∀ u, u ≠ i → s'.thr[u]? = s.thr[u]?) → (∀ u, u ≠ i → u < s.thr.length → s'.mon.ntf[u]? = s.mon.ntf[u]?) →
            (∀ th', s'.thr[i]? = some th' → th'.pc ≠ .wait) → Psi s' := by
          intro s' hs he hg hu hn hown
          refine psi_transfer hP i (by rw [hs]) he (fun t ht => ⟨hu t ht, (hg t ht).1, (hg t ht).2⟩)
            (fun k h => Or.inl (by rw [← hs]; exact h)) (fun k w => Or.inl (wit_keep w i hnn hu hn)) ?_
          intro th' sl' ht' _ hp
          exact absurd hp (hown th' ht')
        split
        · refine fin _ rfl f1 (g3 _ (fun _ _ => rfl) rfl) (oth _ _ rfl) (fun u _ _ => by show (C02.step _ i).ntf[u]? = _; rw [f2]) ?_
          intro th' ht'
          rw [getT_setT] at ht'; simp [hi] at ht'; subst ht'; simp
        · split
          · refine fin _ rfl f1 (g3 _ (fun _ _ => rfl) rfl) (oth _ _ rfl) (fun u _ _ => by show (C02.step _ i).ntf[u]? = _; rw [f2]) ?_
            intro th' ht'
            rw [getT_setT] at ht'; simp [hi] at ht'; subst ht'; simp
          · refine fin _ rfl (by show (install _ i _).epoch = _; rw [install_epoch, f1])
              (g3 (install (C02.step s.mon i) i (.sig none .one false)) (fun _ _ => by rw [install_slp]) (install_waitset _ _ _))
              (oth _ _ rfl) ?_ ?_
            · intro u hu _
              show (install _ i _).ntf[u]? = _
              rw [install_ntf_other _ _ _ _ hu, f2]
            · intro th' ht'
              rw [getT_setT] at ht'; simp [hi] at ht'; subst ht'; simp
      · rename_i hover
        have hov1 : (nextS s.mon sl).ops ≠ [] := fun e => hover ((slpOver_iff e1).mpr (Or.inl e))
        rw [e1]
        simp only
        split
        · refine own _ { th with todo := List.range s.slots.length, rechk := (sl.pc == SPc.cLoad || sl.pc == SPc.cUnlock) }
            rfl rfl (oth _ _ rfl) ?_ (Or.inr rfl) hov1
          rw [getT_setT]; simp [hi, hpc]
        · exact own { s with mon := _ } th rfl rfl (fun _ _ => rfl) hth (Or.inl rfl) hov1

theorem stepT_psi {s : St} (hLD : LD s) (hI : PInv s) {i : Nat} {th : Thr} (hth : s.thr[i]? = some th) (c : Nat) :
    Psi (stepT s i th c) := by
  by_cases hops : th.ops = 0
  · unfold stepT; rw [if_pos hops]; exact hI.psi
  · cases hpc : th.pc
    · exact stepT_psi_scan1 hI.psi hth c hops hpc
    · exact stepT_psi_enq hLD hI.psi hth c hops hpc
    · exact stepT_psi_wait hLD hI.psi hth c hops hpc
    · exact stepT_psi_loopChk hLD hI.psi hth c hops hpc
    · exact stepT_psi_inner hI.psi hth c hops hpc
    · exact stepT_psi_release hLD hI.psi hth c hops hpc
    · exact stepT_psi_notify hLD hI hth c hops hpc
    · exact stepT_psi_dtor hLD hI.psi hth c hops hpc

theorem step_psi {s : St} (hLD : LD s) (hI : PInv s) (t : Tid) : Psi (step s t) := by
  unfold step
  dsimp only
  split
  · exact hI.psi
  · split
    · split
      · rename_i th hth; exact stepT_psi hLD hI hth _
      · exact hI.psi
    · exact stepF_psi hLD hI _

structure AllInv (s : St) : Prop where
  ld : LD s
  p : PInv s

theorem step_all {s : St} (h : AllInv s) (t : Tid) : AllInv (step s t) :=
  ⟨step_ld h.ld t, ⟨step_nep' h.p.nep t, step_psi h.ld h.p t⟩⟩

theorem init_all (S : Nat) (calls : List Nat) : AllInv (init S calls) := by
  refine ⟨init_ld S calls, ⟨?_, ?_⟩⟩
  · intro i sl hi
    simp only [init, C02.init, List.getElem?_map, Option.map_eq_some_iff] at hi
    obtain ⟨p, _, rfl⟩ := hi
    simp [mkSleeper]
  · intro t th sl _ _ _ hw
    simp [init, C02.init] at hw

theorem reach_all (S : Nat) (calls : List Nat) (sched : List Tid) : AllInv ((sys S calls).run sched) :=
  Sys.inv_run (sys S calls) AllInv (init_all S calls) (fun _ t h => step_all h t) sched

end TbbVerif.C02.EX
