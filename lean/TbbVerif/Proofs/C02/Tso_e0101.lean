/-
C02 / Tso: kernel-checked closure of the reachable set for one drain table (see TsoCore.lean):
prepFence=false unlockDrains=true notifyFence=false chgDrains=true.
-/
import TbbVerif.Proofs.C02.TsoCore

namespace TbbVerif.C02.Tso

theorem closed_e0101 : closed ⟨false, true, false, true⟩ (reachSet ⟨false, true, false, true⟩) = true := by decide +kernel
theorem safe_e0101 : safe (reachSet ⟨false, true, false, true⟩) = true := by decide +kernel

end TbbVerif.C02.Tso
