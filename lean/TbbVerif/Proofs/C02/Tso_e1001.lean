/-
C02 / Tso: kernel-checked closure of the reachable set for one drain table (see TsoCore.lean):
prepFence=true unlockDrains=false notifyFence=false chgDrains=true.
-/
import TbbVerif.Proofs.C02.TsoCore

namespace TbbVerif.C02.Tso

theorem closed_e1001 : closed ⟨true, false, false, true⟩ (reachSet ⟨true, false, false, true⟩) = true := by decide +kernel
theorem safe_e1001 : safe (reachSet ⟨true, false, false, true⟩) = true := by decide +kernel

end TbbVerif.C02.Tso
