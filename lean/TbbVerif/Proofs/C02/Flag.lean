/-
C02 / Flag (ArenaWork): arena's three-state flag never misses work (any number of publishers, cleaners, consumers).
-/
import TbbVerif.Model.C02

namespace TbbVerif.C02.Flag

theorem countP_set_add {α} (p : α → Bool) (l : List α) (i : Nat) (x y : α) (h : l[i]? = some x) :
    (l.set i y).countP p + (if p x then 1 else 0) = l.countP p + (if p y then 1 else 0) := by
  induction l generalizing i with
  | nil => simp at h
  | cons a l ih =>
    cases i with
    | zero => simp at h; subst h; simp [List.countP_cons]; omega
    | succ i => simp at h; have := ih i h; simp [List.countP_cons]; omega

theorem countP_le_of_imp {α} (p q : α → Bool) (l : List α) (h : ∀ x, p x = true → q x = true) : l.countP p ≤ l.countP q := by
  induction l with
  | nil => simp
  | cons a l ih =>
    simp only [List.countP_cons]
    have := h a
    cases hp : p a <;> cases hq : q a <;> simp_all <;> omega

/-- publishers that will still look at the flag and find cleaner `k`'s busy value (or have not loaded yet) -/
def behind (k : Nat) (p : Pub) : Bool :=
  p.left != 0 && (p.pc == .fence || p.pc == .load || (p.pc == .casB && p.st == 2 + k))

def nAll (s : St) : Nat := s.pubs.countP Pub.inflight
def nK (s : St) (k : Nat) : Nat := s.pubs.countP (behind k)

theorem nK_le_nAll (s : St) (k : Nat) : nK s k ≤ nAll s := by
  apply countP_le_of_imp
  intro p hp
  simp only [behind, Bool.and_eq_true, bne_iff_ne, Bool.or_eq_true, beq_iff_eq] at hp
  simp only [Pub.inflight, Bool.and_eq_true, bne_iff_ne]
  refine ⟨hp.1, ?_⟩
  rcases hp.2 with (h | h) | ⟨h, _⟩ <;> rw [h] <;> simp

structure FInv (s : St) : Prop where
  a : s.flag = 0 → s.work ≤ nAll s
  b : ∀ (k : Nat) (c : Cl), s.cls[k]? = some c → c.left ≠ 0 → c.pc = .cas2 → s.flag = 2 + k → s.work ≤ nK s k
  d : s.req = s.rel + (if s.flag = 0 then 0 else 1)
  e : ∀ (i : Nat) (p : Pub), s.pubs[i]? = some p → p.pc = .casB → 2 ≤ p.st

theorem getElem?_lt' {α} {l : List α} {i : Nat} {a : α} (h : l[i]? = some a) : i < l.length := by
  rcases Nat.lt_or_ge i l.length with h' | h'
  · exact h'
  · rw [List.getElem?_eq_none h'] at h; cases h

/-- a publisher step that keeps flag and work: bookkeeping in terms of how the counted predicates change -/
theorem stepP_inv {s : St} (h : FInv s) {i : Nat} {p : Pub} (hi : s.pubs[i]? = some p) : FInv (stepP s i p) := by
  have hlt := getElem?_lt' hi
  unfold stepP
  by_cases hl : p.left = 0
  · simp only [hl, if_true]; exact h
  simp only [hl, if_false]
  have hget : ∀ (q : Pub) (j : Nat), (s.pubs.set i q)[j]? = if i = j then some q else s.pubs[j]? := by
    intro q j; simp [List.getElem?_set, hlt]
  have hA : ∀ q, (s.pubs.set i q).countP Pub.inflight + (if Pub.inflight p then 1 else 0) =
      s.pubs.countP Pub.inflight + (if Pub.inflight q then 1 else 0) := fun q => countP_set_add _ _ _ _ _ hi
  have hK : ∀ k q, (s.pubs.set i q).countP (behind k) + (if behind k p then 1 else 0) =
      s.pubs.countP (behind k) + (if behind k q then 1 else 0) := fun k q => countP_set_add _ _ _ _ _ hi
  have hE : ∀ (q : Pub), (q.pc = .casB → 2 ≤ q.st) → ∀ (j : Nat) (r : Pub), (s.pubs.set i q)[j]? = some r → r.pc = .casB → 2 ≤ r.st := by
    intro q hq j r hj
    rw [hget] at hj
    by_cases e : i = j
    · simp [e] at hj; subst hj; exact hq
    · simp [e] at hj; exact h.e j r hj
  cases hpc : p.pc with
  | pub =>
    simp only
    refine ⟨fun hf => ?_, fun k c hk hcl hc hf => ?_, h.d, hE _ (by simp)⟩
    · have := h.a hf; have := hA { p with pc := .fence }
      simp [Pub.inflight, hpc, hl, nAll] at *; omega
    · have := h.b k c hk hcl hc hf; have := hK k { p with pc := .fence }
      simp [behind, hpc, hl, nK] at *; omega
  | fence =>
    simp only
    refine ⟨fun hf => ?_, fun k c hk hcl hc hf => ?_, h.d, hE _ (by simp)⟩
    · have := h.a hf; have := hA { p with pc := .load }
      simp [Pub.inflight, hpc, hl, nAll] at *; omega
    · have := h.b k c hk hcl hc hf; have := hK k { p with pc := .load }
      simp [behind, hpc, hl, nK] at *; omega
  | load =>
    simp only
    by_cases hf1 : s.flag = 1
    · simp only [hf1, if_true]
      refine ⟨fun hf => by simp at hf, fun k c hk hcl hc hf => by simp at hf; omega, by simpa [hf1] using h.d, hE _ (by simp [Pub.ret])⟩
    · simp only [hf1, if_false]
      by_cases hf0 : s.flag = 0
      · simp only [hf0, if_true]
        refine ⟨fun hf => ?_, fun k c hk hcl hc hf => by simp at hf; omega, by simpa [hf0] using h.d, hE _ (by simp)⟩
        have := h.a hf0; have := hA { p with st := 0, pc := .casU }
        simp [Pub.inflight, hpc, hl, nAll] at *; omega
      · simp only [hf0, if_false]
        refine ⟨fun hf => absurd hf hf0, fun k c hk hcl hc hf => ?_, h.d, hE _ (by simp; omega)⟩
        have h1 := h.b k c hk hcl hc hf; have h2 := hK k { p with st := s.flag, pc := .casB }
        have hf' : s.flag = 2 + k := hf
        show s.work ≤ (s.pubs.set i { p with st := s.flag, pc := .casB }).countP (behind k)
        simp [behind, hpc, hl, nK, hf'] at h1 h2 ⊢; omega
  | casB =>
    simp only
    have hst := h.e i p hi hpc
    by_cases hfe : s.flag = p.st
    · simp only [hfe, if_true]
      refine ⟨fun hf => by simp at hf, fun k c hk hcl hc hf => by simp at hf; omega, ?_, hE _ (by simp [Pub.ret])⟩
      have := h.d; simp only at this ⊢
      have h0 : s.flag ≠ 0 := by omega
      simp [h0] at this; simp [this]
    · simp only [hfe, if_false]
      by_cases hf0 : s.flag = 0
      · simp only [hf0, ne_eq, not_true_eq_false, if_false]
        refine ⟨fun hf => ?_, fun k c hk hcl hc hf => by simp at hf; omega, by simpa [hf0] using h.d, hE _ (by simp)⟩
        have := h.a hf0; have := hA { p with st := 0, pc := .casU }
        simp [Pub.inflight, hpc, hl, nAll] at *; omega
      · simp only [hf0, ne_eq, not_false_eq_true, if_true]
        refine ⟨fun hf => absurd hf hf0, fun k c hk hcl hc hf => ?_, h.d, hE _ (by simp [Pub.ret])⟩
        have := h.b k c hk hcl hc hf; have := hK k (p.ret 0)
        have hne : p.st ≠ 2 + k := by intro e; exact hfe (by rw [hf, e])
        simp [behind, hpc, hl, nK, Pub.ret, hne] at *; omega
  | casU =>
    simp only
    by_cases hf0 : s.flag = 0
    · simp only [hf0, if_true]
      refine ⟨fun hf => by simp at hf, fun k c hk hcl hc hf => by simp at hf; omega, ?_, hE _ (by simp [Pub.ret])⟩
      have := h.d; simp [hf0] at this; simp [this]
    · simp only [hf0, if_false]
      refine ⟨fun hf => absurd hf hf0, fun k c hk hcl hc hf => ?_, h.d, hE _ (by simp [Pub.ret])⟩
      have := h.b k c hk hcl hc hf; have := hK k (p.ret 0)
      simp [behind, hpc, hl, nK, Pub.ret] at *; omega

theorem stepC_inv {s : St} (h : FInv s) {k : Nat} {c : Cl} (hk : s.cls[k]? = some c) : FInv (stepC s k c) := by
  have hlt := getElem?_lt' hk
  unfold stepC
  by_cases hl : c.left = 0
  · simp only [hl, if_true]; exact h
  simp only [hl, if_false]
  have hget : ∀ (q : Cl) (j : Nat), (s.cls.set k q)[j]? = if k = j then some q else s.cls[j]? := by
    intro q j; simp [List.getElem?_set, hlt]
  -- steps of cleaner k that leave the flag alone: the clause for k itself is given, the others are untouched
  have keep : ∀ (q : Cl), (q.left ≠ 0 → q.pc = .cas2 → s.flag = 2 + k → s.work ≤ nK s k) →
      FInv { s with cls := s.cls.set k q } := by
    intro q hq
    refine ⟨h.a, fun j c' hj hcl hc hf => ?_, h.d, h.e⟩
    rw [hget] at hj
    by_cases e : k = j
    · subst e; simp at hj; subst hj; exact hq hcl hc hf
    · simp [e] at hj; exact h.b j c' hj hcl hc hf
  cases hpc : c.pc with
  | load =>
    simp only
    by_cases hf1 : s.flag = 1
    · simp only [hf1, if_true]
      have := keep { c with pc := .cas1 } (by simp)
      simpa [hf1] using this
    · simp only [hf1, if_false]
      exact keep (c.ret 0) (by simp [Cl.ret])
  | cas1 =>
    simp only
    by_cases hf1 : s.flag = 1
    · simp only [hf1, if_true]
      refine ⟨fun hf => by simp at hf, fun j c' hj hcl hc hf => ?_, ?_, h.e⟩
      · rw [hget] at hj
        by_cases e : k = j
        · subst e; simp at hj; subst hj; simp at hc
        · simp [e] at hj; simp at hf; exact absurd hf (by omega)
      · have := h.d; simp [hf1] at this; simp [this]
    · simp only [hf1, if_false]
      exact keep (c.ret 0) (by simp [Cl.ret])
  | pred =>
    simp only
    refine keep _ ?_
    intro _ hc _
    by_cases hw : s.work = 0
    · rw [hw]; exact Nat.zero_le _
    · simp [hw] at hc
  | cas2 =>
    simp only
    by_cases hf : s.flag = 2 + k
    · simp only [hf, if_true]
      have hw := h.b k c hk hl hpc hf
      refine ⟨fun _ => Nat.le_trans hw (nK_le_nAll s k), fun j c' hj hcl hc hf' => by simp at hf'; omega, ?_, h.e⟩
      have := h.d; simp [hf] at this; simp [this]
    · simp only [hf, if_false]
      exact keep (c.ret 0) (by simp [Cl.ret])
  | cas3 =>
    simp only
    by_cases hf : s.flag = 2 + k
    · simp only [hf, if_true]
      refine ⟨fun hf' => by simp at hf', fun j c' hj hcl hc hf' => by simp at hf'; omega, ?_, h.e⟩
      have := h.d; simp [hf] at this; simp [this]
    · simp only [hf, if_false]
      exact keep (c.ret 0) (by simp [Cl.ret])

theorem stepT_inv {s : St} (h : FInv s) (k left : Nat) : FInv (stepT s k left) := by
  unfold stepT
  by_cases hl : left = 0
  · simp only [hl, if_true]; exact h
  · simp only [hl, if_false]
    refine ⟨fun hf => ?_, fun j c hj hcl hc hf => ?_, h.d, h.e⟩
    · have := h.a hf; simp only [nAll] at this ⊢; omega
    · have := h.b j c hj hcl hc hf; simp only [nK] at this ⊢; omega

theorem step_inv {s : St} (h : FInv s) (t : Tid) : FInv (step s t) := by
  unfold step
  split
  · split
    · rename_i p hp; exact stepP_inv h hp
    · exact h
  · split
    · split
      · rename_i c hc; exact stepC_inv h hc
      · exact h
    · split
      · exact stepT_inv h _ _
      · exact h

theorem init_inv (ps cs ts : List Nat) : FInv (init ps cs ts) := by
  refine ⟨fun _ => Nat.zero_le _, fun k c hk _ hc _ => ?_, rfl, fun i p hi hp => ?_⟩
  · simp only [init, List.getElem?_map, Option.map_eq_some_iff] at hk
    obtain ⟨n, _, rfl⟩ := hk; simp at hc
  · simp only [init, List.getElem?_map, Option.map_eq_some_iff] at hi
    obtain ⟨n, _, rfl⟩ := hi; simp at hp

theorem reach_inv (ps cs ts : List Nat) (sched : List Tid) : FInv ((sys ps cs ts).run sched) :=
  Sys.inv_run (sys ps cs ts) FInv (init_inv ps cs ts) (fun s t h => step_inv h t) sched

theorem exists_inflight_of_pos {s : St} (h : 0 < nAll s) : ∃ (i : Nat) (p : Pub), s.pubs[i]? = some p ∧ p.inflight = true := by
  obtain ⟨p, hm, hp⟩ := List.countP_pos_iff.mp h
  obtain ⟨i, hi⟩ := List.getElem?_of_mem hm
  exact ⟨i, p, hi, hp⟩

end TbbVerif.C02.Flag
