/-
C02 / arena enqueue (`AE`): the demand accounting.  What the market and the proxy have registered plus what threads still
hold as pending deltas equals what the two flags say (`req - rel`), for every schedule.
-/
import TbbVerif.Proofs.C02.AEInv
set_option linter.unusedSimpArgs false
namespace TbbVerif.C02.AE
open TbbVerif.C02

/-- deltas the thread holds and has not yet applied to `arena::my_mandatory_requests` -/
def pendM (th : Thr) : Int := if th.pc = .reqNotify then 0 else th.md
/-- … not yet applied to the proxy's `my_num_mandatory_requests` -/
def pendP (th : Thr) : Int := if th.pc = .reqEnable ∨ th.pc = .reqMarket ∨ th.pc = .reqNotify then 0 else th.md
/-- `are_workers_needed` / `release_workers` results not yet applied by the market -/
def pendV (th : Thr) : Int := if th.pc = .reqNotify then 0 else th.wv
def tsum (f : Thr → Int) (s : St) : Int := (s.thr.map f).sum

theorem sum_set_int (l : List Thr) (f : Thr → Int) (i : Nat) (a b : Thr) (h : l[i]? = some a) :
    ((l.set i b).map f).sum = (l.map f).sum - f a + f b := by
  induction l generalizing i with
  | nil => simp at h
  | cons x l ih =>
    cases i with
    | zero => simp at h; subst h; simp [List.sum_cons]; omega
    | succ i => simp at h; have := ih i h; simp only [List.set_cons_succ, List.map_cons, List.sum_cons]; omega

structure Acc (s : St) : Prop where
  a1 : s.mandReq + tsum pendM s = (s.fm.req : Int) - s.fm.rel
  a2 : s.numMand + tsum pendP s = (s.fm.req : Int) - s.fm.rel
  a3 : s.wvApplied + tsum pendV s = (s.fp.req : Int) - s.fp.rel
  tot : s.totalReq = (s.W : Int) * s.wvApplied + (if s.W = 0 then s.mandReq else 0)
  mw : s.minW = (if s.mandReq > 0 then 1 else 0) ∧ s.maxW = clampI s.totalReq 0 (if s.minW > 0 ∧ s.W = 0 then 1 else s.W)
  sg : ∀ (i : Nat) (th : Thr), s.thr[i]? = some th →
        ((th.pc = .idle ∨ th.pc = .tTake) → th.md = 0 ∧ th.wv = 0) ∧ (th.kind = some .oow → th.md ≤ 0 ∧ th.wv ≤ 0) ∧
        (th.kind ≠ some .oow → 0 ≤ th.md) ∧
        ((th.pc = .reqProxy ∨ th.pc = .reqEnable ∨ th.pc = .reqMarket) → th.wd = workersDelta s.W th.md th.wv)
  wk : 1 ≤ s.fm.req → 1 ≤ s.wakeups ∨ ∃ (i : Nat) (th : Thr), s.thr[i]? = some th ∧ 1 ≤ th.md

theorem acc_update {s s' : St} (h : Acc s) {i : Nat} {th th' : Thr} (hth : s.thr[i]? = some th)
    (hthr : s'.thr = s.thr.set i th') (hW : s'.W = s.W)
    (e1 : s'.mandReq + pendM th' - ((s'.fm.req : Int) - s'.fm.rel) = s.mandReq + pendM th - ((s.fm.req : Int) - s.fm.rel))
    (e2 : s'.numMand + pendP th' - ((s'.fm.req : Int) - s'.fm.rel) = s.numMand + pendP th - ((s.fm.req : Int) - s.fm.rel))
    (e3 : s'.wvApplied + pendV th' - ((s'.fp.req : Int) - s'.fp.rel) = s.wvApplied + pendV th - ((s.fp.req : Int) - s.fp.rel))
    (etot : s'.totalReq = (s'.W : Int) * s'.wvApplied + (if s'.W = 0 then s'.mandReq else 0))
    (emw : s'.minW = (if s'.mandReq > 0 then 1 else 0) ∧ s'.maxW = clampI s'.totalReq 0 (if s'.minW > 0 ∧ s'.W = 0 then 1 else s'.W))
    (esg : ((th'.pc = .idle ∨ th'.pc = .tTake) → th'.md = 0 ∧ th'.wv = 0) ∧ (th'.kind = some .oow → th'.md ≤ 0 ∧ th'.wv ≤ 0) ∧
        (th'.kind ≠ some .oow → 0 ≤ th'.md) ∧
        ((th'.pc = .reqProxy ∨ th'.pc = .reqEnable ∨ th'.pc = .reqMarket) → th'.wd = workersDelta s.W th'.md th'.wv))
    (ewk : 1 ≤ s'.fm.req → 1 ≤ s'.wakeups ∨ 1 ≤ th'.md ∨ (1 ≤ s.fm.req ∧ ¬ (1 ≤ th.md) ∧ ¬ (1 ≤ s.wakeups))) :
    Acc s' := by
  have hlt := Flag.getElem?_lt' hth
  have hts : ∀ f : Thr → Int, tsum f s' = tsum f s - f th + f th' := by
    intro f; unfold tsum; rw [hthr]; exact sum_set_int _ _ _ _ _ hth
  have a1 := h.a1; have a2 := h.a2; have a3 := h.a3
  have hget : ∀ k, s'.thr[k]? = if i = k then some th' else s.thr[k]? := by
    intro k; rw [hthr, List.getElem?_set]; by_cases e : i = k <;> simp [e, hlt]; subst e; exact hlt
  refine ⟨?_, ?_, ?_, etot, emw, ?_, ?_⟩
  · rw [hts]; omega
  · rw [hts]; omega
  · rw [hts]; omega
  · intro k thk hk
    rw [hget] at hk
    by_cases e : i = k
    · simp [e] at hk; subst hk; rw [hW]; exact esg
    · simp [e] at hk; rw [hW]; exact h.sg k thk hk
  · intro hreq
    rcases ewk hreq with e | e | ⟨e1', e2', e3'⟩
    · exact Or.inl e
    · exact Or.inr ⟨i, th', by rw [hget]; simp, e⟩
    · rcases h.wk e1' with w | ⟨k, thk, hk, hmd⟩
      · exact absurd w e3'
      · have hne : i ≠ k := by intro e; subst e; rw [hth] at hk; cases hk; exact e2' hmd
        exact Or.inr ⟨k, thk, by rw [hget]; simp [hne]; exact hk, hmd⟩


theorem request_cases (th : Thr) (call : Bool) (md wd : Int) (wake : Bool) :
    (call = false ∧ th.request call md wd wake = th.done) ∨
    (call = true ∧ md ≠ 0 ∧ th.request call md wd wake = { th with md := md, wd := wd, wake := wake, pc := .reqProxy }) ∨
    (call = true ∧ md = 0 ∧ th.request call md wd wake = { th with md := md, wd := wd, wake := wake, pc := .reqMarket }) := by
  unfold Thr.request
  cases call
  · left; simp
  · right
    by_cases hmd : md = 0
    · right; simp [hmd]
    · left; simp [hmd]

theorem done_kind_sg (th : Thr) (W : Nat) :
    ((th.done.pc = .idle ∨ th.done.pc = .tTake) → th.done.md = 0 ∧ th.done.wv = 0) ∧
    (th.done.kind = some .oow → th.done.md ≤ 0 ∧ th.done.wv ≤ 0) ∧ (th.done.kind ≠ some .oow → 0 ≤ th.done.md) ∧
    ((th.done.pc = .reqProxy ∨ th.done.pc = .reqEnable ∨ th.done.pc = .reqMarket) → th.done.wd = workersDelta W th.done.md th.done.wv) := by
  simp [Thr.done]


theorem request_pend (th0 : Thr) (call : Bool) (wd : Int) (wake : Bool) (W : Nat) (hwd : wd = workersDelta W th0.md th0.wv) :
    pendM (th0.request call th0.md wd wake) = (if call then th0.md else 0) ∧
    pendP (th0.request call th0.md wd wake) = (if call then th0.md else 0) ∧
    pendV (th0.request call th0.md wd wake) = (if call then th0.wv else 0) ∧
    (th0.request call th0.md wd wake).md = (if call then th0.md else 0) ∧
    (th0.request call th0.md wd wake).wv = (if call then th0.wv else 0) ∧
    (call = true → (th0.request call th0.md wd wake).kind = th0.kind) ∧
    (((th0.request call th0.md wd wake).pc = .idle ∨ (th0.request call th0.md wd wake).pc = .tTake) → call = false) ∧
    (((th0.request call th0.md wd wake).pc = .reqProxy ∨ (th0.request call th0.md wd wake).pc = .reqEnable ∨
        (th0.request call th0.md wd wake).pc = .reqMarket) →
      (th0.request call th0.md wd wake).wd = workersDelta W (th0.request call th0.md wd wake).md (th0.request call th0.md wd wake).wv) := by
  rcases request_cases th0 call th0.md wd wake with ⟨hc, he⟩ | ⟨hc, hmd, he⟩ | ⟨hc, hmd, he⟩
  · rw [he, hc]; simp [pendM, pendP, pendV, Thr.done]
  · rw [he, hc]; simp [pendM, pendP, pendV, Thr.kind, hwd]
  · rw [he, hc]; simp [pendM, pendP, pendV, Thr.kind, hwd, hmd]

set_option maxHeartbeats 800000 in
theorem stepT_acc {s : St} (hS : SInv s) (h : Acc s) {i : Nat} {th : Thr} (hth : s.thr[i]? = some th) : Acc (stepT s i th) := by
  have hpo := hS.pcop i th hth
  unfold PcOp at hpo
  obtain ⟨hsg1, hsg2, hsg3, hsg4⟩ := h.sg i th hth
  have hmw := h.mw
  have htot := h.tot
  unfold stepT
  cases hpc : th.pc <;> simp only [hpc] at hpo hsg1 hsg4 ⊢
  case idle =>
    cases hops : th.ops with
    | nil => simp only; exact h
    | cons o rest =>
      simp only
      have hmd := hsg1 (Or.inl trivial)
      refine acc_update h hth rfl rfl ?_ ?_ ?_ htot hmw ?_ ?_
      · cases o <;> simp [pendM, hpc, Op.startPc, St.setT]
      · cases o <;> simp [pendP, hpc, Op.startPc, St.setT]
      · cases o <;> simp [pendV, hpc, Op.startPc, St.setT]
      · refine ⟨fun _ => hmd, fun _ => ⟨by show th.md ≤ 0; omega, by show th.wv ≤ 0; omega⟩, fun _ => by show 0 ≤ th.md; omega, ?_⟩
        intro e; cases o <;> simp [Op.startPc] at e
      · intro hreq; simp only [St.setT] at hreq ⊢; omega
  case ePush =>
    obtain ⟨a1, _, a3, _⟩ := pubStep_frame s.fm i
    obtain ⟨b1, _, b3, _⟩ := pubStep_frame s.fp i
    have hk : th.kind ≠ some .oow := by rw [show th.kind = some .enq from hpo]; simp
    have hm0 := hsg3 hk
    refine acc_update h hth rfl rfl ?_ ?_ ?_ htot hmw ⟨by simp, fun e => absurd e hk, fun _ => ?_, by simp⟩ ?_
    · simp [pendM, hpc, St.setT]; omega
    · simp [pendP, hpc, St.setT]; omega
    · simp [pendV, hpc, St.setT]; omega
    · show 0 ≤ th.md + _; omega
    · intro hreq; simp only [St.setT] at hreq ⊢; omega
  case eFence =>
    obtain ⟨a1, _, a3, _⟩ := pubStep_frame s.fm i
    obtain ⟨b1, _, b3, _⟩ := pubStep_frame s.fp i
    have hk : th.kind ≠ some .oow := by rw [show th.kind = some .enq from hpo]; simp
    have hm0 := hsg3 hk
    refine acc_update h hth rfl rfl ?_ ?_ ?_ htot hmw ⟨by simp, fun e => absurd e hk, fun _ => ?_, by simp⟩ ?_
    · simp [pendM, hpc, St.setT]; omega
    · simp [pendP, hpc, St.setT]; omega
    · simp [pendV, hpc, St.setT]; omega
    · show 0 ≤ th.md + _; omega
    · intro hreq; simp only [St.setT] at hreq ⊢; omega
  case eMand =>
    obtain ⟨a1, _, a3, _⟩ := pubStep_frame s.fm i
    have hk : th.kind ≠ some .oow := by rw [show th.kind = some .enq from hpo]; simp
    have hm0 := hsg3 hk
    refine acc_update h hth rfl rfl ?_ ?_ ?_ htot hmw ⟨?_, fun e => absurd e hk, fun _ => ?_, ?_⟩ ?_
    · simp only [pendM, hpc, St.setT]; split <;> simp <;> omega
    · simp only [pendP, hpc, St.setT]; split <;> simp <;> omega
    · simp only [pendV, hpc, St.setT]; split <;> simp
    · intro e; simp only at e; split at e <;> simp at e
    · show 0 ≤ th.md + _; omega
    · intro e; simp only at e; split at e <;> simp at e
    · intro hreq; simp only [St.setT] at hreq ⊢; omega
  case ePool =>
    obtain ⟨b1, _, b3, _⟩ := pubStep_frame s.fp i
    have hk : th.kind ≠ some .oow := by rw [show th.kind = some .enq from hpo]; simp
    have hm0 := hsg3 hk
    split
    · generalize hcall : decide (th.md ≠ 0 ∨ th.wv + ((pubStep s.fp i).req - (s.fp.req : Int)) ≠ 0) = call
      have rr := request_pend { th with wv := th.wv + ((pubStep s.fp i).req - (s.fp.req : Int)), pc := .ePool } call
        (workersDelta s.W th.md (th.wv + ((pubStep s.fp i).req - (s.fp.req : Int)))) true s.W rfl
      dsimp only at rr
      obtain ⟨r1, r2, r3, r4, r5, r6, r7, r8⟩ := rr
      have hcf : call = false → th.md = 0 ∧ th.wv + ((pubStep s.fp i).req - (s.fp.req : Int)) = 0 := by
        intro e; rw [e] at hcall; simpa using hcall
      refine acc_update h hth rfl rfl (e1 := ?e1) (e2 := ?e2) (e3 := ?e3) (etot := htot) (emw := hmw) (esg := ⟨?s1, ?s2, ?s3, r8⟩) (ewk := ?wk)
      case e1 =>
        rw [r1]; simp only [pendM, hpc, St.setT]
        cases call
        · have := hcf rfl; simp; omega
        · simp
      case e2 =>
        rw [r2]; simp only [pendP, hpc, St.setT]
        cases call
        · have := hcf rfl; simp; omega
        · simp
      case e3 =>
        rw [r3]; simp only [pendV, hpc, St.setT]
        cases call
        · have := hcf rfl; simp; omega
        · simp; omega
      case s1 => intro e; rw [r4, r5, r7 e]; simp
      case s2 =>
        intro e
        cases call
        · rw [r4, r5]; simp
        · rw [r6 rfl] at e; exact absurd e hk
      case s3 => intro _; rw [r4]; cases call <;> simp; exact hm0
      case wk =>
        intro hreq; rw [r4]; simp only [St.setT] at hreq ⊢
        cases call
        · have := (hcf rfl).1; simp; omega
        · simp; omega
    · refine acc_update h hth rfl rfl ?_ ?_ ?_ htot hmw ⟨by simp, fun e => absurd e hk, fun _ => hm0, by simp⟩ ?_
      · simp [pendM, hpc, St.setT]
      · simp [pendP, hpc, St.setT]
      · simp [pendV, hpc, St.setT]; omega
      · intro hreq; simp only [St.setT] at hreq ⊢; omega
  case oMand =>
    obtain ⟨a1, _, _, a4, _⟩ := clStep_frame s.fm i
    have hk : th.kind = some .oow := hpo
    obtain ⟨hm0, hv0⟩ := hsg2 hk
    refine acc_update h hth rfl rfl (e1 := ?e1) (e2 := ?e2) (e3 := ?e3) (etot := htot) (emw := hmw) (esg := ⟨?s1, ?s2, ?s3, ?s4⟩) (ewk := ?wk)
    case e1 => simp only [pendM, hpc, St.setT]; split <;> simp <;> omega
    case e2 => simp only [pendP, hpc, St.setT]; split <;> simp <;> omega
    case e3 => simp only [pendV, hpc, St.setT]; split <;> simp
    case s1 => intro e; simp only at e; split at e <;> simp at e
    case s2 => intro _; exact ⟨by show th.md - _ ≤ 0; omega, hv0⟩
    case s3 => intro e; exact absurd hk e
    case s4 => intro e; simp only at e; split at e <;> simp at e
    case wk => intro hreq; simp only [St.setT] at hreq ⊢; omega
  case oPool =>
    obtain ⟨b1, _, _, b4, _⟩ := clStep_frame s.fp i
    have hk : th.kind = some .oow := hpo
    obtain ⟨hm0, hv0⟩ := hsg2 hk
    split
    · generalize hcall : decide (th.md ≠ 0 ∨ th.wv - ((clStep s.fp i).rel - (s.fp.rel : Int)) ≠ 0) = call
      have rr := request_pend { th with wv := th.wv - ((clStep s.fp i).rel - (s.fp.rel : Int)), pc := .oPool } call
        (workersDelta s.W th.md (th.wv - ((clStep s.fp i).rel - (s.fp.rel : Int)))) false s.W rfl
      dsimp only at rr
      obtain ⟨r1, r2, r3, r4, r5, r6, r7, r8⟩ := rr
      have hcf : call = false → th.md = 0 ∧ th.wv - ((clStep s.fp i).rel - (s.fp.rel : Int)) = 0 := by
        intro e; rw [e] at hcall; simpa using hcall
      refine acc_update h hth rfl rfl (e1 := ?e1) (e2 := ?e2) (e3 := ?e3) (etot := htot) (emw := hmw) (esg := ⟨?s1, ?s2, ?s3, r8⟩) (ewk := ?wk)
      case e1 =>
        rw [r1]; simp only [pendM, hpc, St.setT]
        cases call
        · have := hcf rfl; simp; omega
        · simp
      case e2 =>
        rw [r2]; simp only [pendP, hpc, St.setT]
        cases call
        · have := hcf rfl; simp; omega
        · simp
      case e3 =>
        rw [r3]; simp only [pendV, hpc, St.setT]
        cases call
        · have := hcf rfl; simp; omega
        · simp; omega
      case s1 => intro e; rw [r4, r5, r7 e]; simp
      case s2 =>
        intro _
        rw [r4, r5]
        cases call
        · simp
        · simp; omega
      case s3 =>
        intro e
        cases call
        · rw [r4]; simp
        · rw [r6 rfl] at e; exact absurd hk e
      case wk =>
        intro hreq; rw [r4]; simp only [St.setT] at hreq ⊢
        cases call <;> simp <;> omega
    · refine acc_update h hth rfl rfl (e1 := ?e1) (e2 := ?e2) (e3 := ?e3) (etot := htot) (emw := hmw)
        (esg := ⟨by simp, fun _ => ⟨hm0, by show th.wv - _ ≤ 0; omega⟩, fun e => absurd hk e, by simp⟩) (ewk := ?wk)
      case e1 => simp [pendM, hpc, St.setT]
      case e2 => simp [pendP, hpc, St.setT]
      case e3 => simp [pendV, hpc, St.setT]; omega
      case wk => intro hreq; simp only [St.setT] at hreq ⊢; omega
  case reqProxy =>
    have hwd := hsg4 (Or.inl trivial)
    refine acc_update h hth rfl rfl (e1 := ?e1) (e2 := ?e2) (e3 := ?e3) (etot := htot) (emw := hmw) (esg := ⟨?s1, hsg2, hsg3, fun _ => hwd⟩) (ewk := ?wk)
    case e1 => simp only [pendM, hpc, St.setT]; split <;> simp
    case e2 => simp only [pendP, hpc, St.setT]; split <;> simp <;> omega
    case e3 => simp only [pendV, hpc, St.setT]; split <;> simp
    case s1 => intro e; simp only at e; split at e <;> simp at e
    case wk => intro hreq; simp only [St.setT] at hreq ⊢; omega
  case reqEnable =>
    have hwd := hsg4 (Or.inr (Or.inl trivial))
    repeat' split
    all_goals
      refine acc_update h hth rfl rfl (e1 := ?e1) (e2 := ?e2) (e3 := ?e3) (etot := htot) (emw := hmw) (esg := ⟨by simp, hsg2, hsg3, fun _ => hwd⟩) (ewk := ?wk)
      case e1 => simp [pendM, hpc, St.setT]
      case e2 => simp [pendP, hpc, St.setT]
      case e3 => simp [pendV, hpc, St.setT]
      case wk => intro hreq; simp only [St.setT] at hreq ⊢; omega
  case reqMarket =>
    have hwd := hsg4 (Or.inr (Or.inr trivial))
    have hwk : th.wake = true ↔ th.kind ≠ some .oow := hpo.2
    by_cases hw : th.wake = true
    · simp only [hw, if_true]
      refine acc_update h hth rfl rfl (e1 := ?e1) (e2 := ?e2) (e3 := ?e3) (etot := ?tot) (emw := ⟨rfl, rfl⟩) (esg := ⟨by simp, hsg2, hsg3, by simp⟩) (ewk := ?wk)
      case e1 => simp [pendM, hpc, St.setT]
      case e2 => simp [pendP, hpc, St.setT]
      case e3 => simp [pendV, hpc, St.setT]
      case tot =>
        simp only [St.setT]
        rw [htot, hwd]; unfold workersDelta
        by_cases hW : s.W = 0 <;> simp [hW, Int.mul_add] <;> omega
      case wk => intro hreq; simp only [St.setT] at hreq ⊢; omega
    · have hwf : th.wake = false := by simpa using hw
      simp only [hwf, Bool.false_eq_true, if_false]
      have hoow : th.kind = some .oow := by
        apply Classical.byContradiction; intro e; exact hw (hwk.mpr e)
      obtain ⟨hm0, _⟩ := hsg2 hoow
      refine acc_update h hth rfl rfl (e1 := ?e1) (e2 := ?e2) (e3 := ?e3) (etot := ?tot) (emw := ⟨rfl, rfl⟩) (esg := done_kind_sg th s.W) (ewk := ?wk)
      case e1 => simp [pendM, hpc, St.setT, Thr.done]
      case e2 => simp [pendP, hpc, St.setT, Thr.done]
      case e3 => simp [pendV, hpc, St.setT, Thr.done]
      case tot =>
        simp only [St.setT]
        rw [htot, hwd]; unfold workersDelta
        by_cases hW : s.W = 0 <;> simp [hW, Int.mul_add] <;> omega
      case wk => intro hreq; simp only [St.setT, Thr.done] at hreq ⊢; omega
  case reqNotify =>
    refine acc_update h hth rfl rfl (e1 := ?e1) (e2 := ?e2) (e3 := ?e3) (etot := htot) (emw := hmw) (esg := done_kind_sg th s.W) (ewk := ?wk)
    case e1 => simp [pendM, hpc, St.setT, Thr.done]
    case e2 => simp [pendP, hpc, St.setT, Thr.done]
    case e3 => simp [pendV, hpc, St.setT, Thr.done]
    case wk => intro _; left; simp [St.setT]
  case tTake =>
    obtain ⟨hm0, hv0⟩ := hsg1 (Or.inr trivial)
    obtain ⟨a1, a2, _⟩ := conStep_frame s.fm i
    obtain ⟨b1, b2, _⟩ := conStep_frame s.fp i
    split
    all_goals
      refine acc_update h hth rfl rfl (e1 := ?e1) (e2 := ?e2) (e3 := ?e3) (etot := htot) (emw := hmw) (esg := done_kind_sg th s.W) (ewk := ?wk)
      case e1 => simp [pendM, hpc, St.setT, Thr.done, hm0]; try omega
      case e2 => simp [pendP, hpc, St.setT, Thr.done, hm0]; try omega
      case e3 => simp [pendV, hpc, St.setT, Thr.done, hv0]; try omega
      case wk => intro hreq; simp only [St.setT, Thr.done] at hreq ⊢; omega

end TbbVerif.C02.AE
