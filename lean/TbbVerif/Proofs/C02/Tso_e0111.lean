/-
C02 / Tso: kernel-checked closure of the reachable set for one drain table (see TsoCore.lean):
prepFence=false unlockDrains=true notifyFence=true chgDrains=true.
-/
import TbbVerif.Proofs.C02.TsoCore

namespace TbbVerif.C02.Tso

theorem closed_e0111 : closed ⟨false, true, true, true⟩ (reachSet ⟨false, true, true, true⟩) = true := by decide +kernel
theorem safe_e0111 : safe (reachSet ⟨false, true, true, true⟩) = true := by decide +kernel

end TbbVerif.C02.Tso
