/-
C02 / task_arena::execute: in every reachable state the exit monitor satisfies the Monitor invariant (`Inv`) and carries
only the waits `wait(ctx = t + 1, cond = t)` of the application threads, their `notify_one()` calls and the
`[wo_t released; notify(ctx == t + 1)]` of the delegated tasks' `finalize()`.
-/
import TbbVerif.Model.C02EX
import TbbVerif.Proofs.C02.MonFrame

namespace TbbVerif.C02.EX
open TbbVerif.C02

def oneOp : NOp := .sig none .one false
def finOp (c : Nat) : NOp := .sig (some c) (.ctx (c + 1)) false

structure Shape (m : C02.St) : Prop where
  slp : ∀ (i : Nat) (sl : Sleeper), m.slp[i]? = some sl → ∀ w ∈ sl.ops, w = ⟨i + 1, i⟩
  ntf : ∀ (j : Nat) (n : Notifier), m.ntf[j]? = some n → ∀ op ∈ n.ops, op = oneOp ∨ ∃ c, op = finOp c

/-- at most one `wait` call installed per sleeper -/
def Len1 (m : C02.St) : Prop := ∀ (i : Nat) (sl : Sleeper), m.slp[i]? = some sl → sl.ops.length ≤ 1

structure MonOK (m : C02.St) : Prop where
  inv : Inv m
  shape : Shape m
  len1 : Len1 m

theorem step_len1 {m : C02.St} (h : Len1 m) (t : Tid) : Len1 (C02.step m t) := by
  unfold C02.step
  split
  · split
    · rename_i sl hsl
      intro i sl' hi
      obtain ⟨sl0, h0, ho⟩ := stepS_ops m t sl hsl i sl' hi
      have := h i sl0 h0
      rcases ho with e | e <;> rw [e] <;> simp <;> omega
    · exact h
  · split
    · rename_i n hn
      intro i sl' hi
      obtain ⟨sl0, h0, ho⟩ := stepN_ops m _ n i sl' hi
      rw [ho]; exact h i sl0 h0
    · exact h

theorem setS_len1 {m : C02.St} (h : Len1 m) (i : Nat) (sl : Sleeper) (hl : sl.ops.length ≤ 1) : Len1 (m.setS i sl) := by
  intro k slk hk
  simp only [St.setS, List.getElem?_set] at hk
  by_cases e : i = k
  · subst e
    by_cases hlt : i < m.slp.length
    · simp [hlt] at hk; subst hk; exact hl
    · simp [hlt] at hk
  · simp [e] at hk; exact h k slk hk

theorem shape_no_onec {m : C02.St} (h : Shape m) (j : Nat) (n : Notifier) (hj : m.ntf[j]? = some n) (cd c0 : Nat) (r : Bool) :
    NOp.sig (some cd) (.onec c0) r ∉ n.ops := by
  intro hm
  rcases h.ntf j n hj _ hm with e | ⟨k, e⟩ <;> simp [oneOp, finOp] at e

theorem step_shape {m : C02.St} (h : Shape m) (t : Tid) : Shape (C02.step m t) := by
  unfold C02.step
  split
  · split
    · rename_i sl hsl
      constructor
      · intro i sl' hi w hw
        obtain ⟨sl0, h0, ho⟩ := stepS_ops m t sl hsl i sl' hi
        rcases ho with e | e
        · exact h.slp i sl0 h0 w (by rw [← e]; exact hw)
        · exact h.slp i sl0 h0 w (List.mem_of_mem_tail (by rw [← e]; exact hw))
      · intro j n hj; rw [(stepS_frame m t sl).1] at hj; exact h.ntf j n hj
    · exact h
  · split
    · rename_i n hn
      constructor
      · intro i sl' hi w hw
        obtain ⟨sl0, h0, ho⟩ := stepN_ops m _ n i sl' hi
        exact h.slp i sl0 h0 w (by rw [← ho]; exact hw)
      · intro j n' hj op hop
        obtain ⟨_, _, hoth, ⟨n'', hn'', hops, _⟩, _⟩ := stepN_frame m _ n hn
        by_cases e : j = t - m.slp.length
        · subst e; rw [hn''] at hj; cases hj
          rcases hops with e' | e'
          · exact h.ntf _ n hn op (by rw [← e']; exact hop)
          · exact h.ntf _ n hn op (List.mem_of_mem_tail (by rw [← e']; exact hop))
        · rw [hoth j e] at hj; exact h.ntf j n' hj op hop
    · exact h

theorem step_ok {m : C02.St} (h : MonOK m) (t : Tid) : MonOK (C02.step m t) :=
  ⟨step_inv h.inv t, step_shape h.shape t, step_len1 h.len1 t⟩

theorem setCond_false_ok {m : C02.St} (h : MonOK m) (c : Nat) : MonOK (m.setCond c false) :=
  ⟨setCond_false_inv h.inv c, ⟨h.shape.slp, h.shape.ntf⟩, h.len1⟩

theorem startWait_ok {m : C02.St} (h : MonOK m) (i : Nat) : MonOK (startWait m i) := by
  unfold startWait
  split
  · rename_i sl hsl
    split
    · rename_i hemp
      have hidle : sl.ops = [] := List.isEmpty_iff.mp hemp
      constructor
      · refine setOps_inv h.inv hsl hidle ⟨i + 1, i⟩ ?_ (fun j n hj cd c0 r => shape_no_onec h.shape j n hj cd c0 r)
        intro j n hj c' k r hop hc
        rcases h.shape.ntf j n hj _ hop with e | ⟨k', e⟩
        · simp [oneOp] at e
        · simp only [finOp, NOp.sig.injEq, Option.some.injEq] at e
          obtain ⟨e1, e2, _⟩ := e
          subst e1; subst e2; simp only at hc; subst hc
          simp [NKind.accepts]
      · constructor
        · intro k slk hk w hw
          have hlt := getElem?_lt hsl
          simp only [St.setS, List.getElem?_set, hlt] at hk
          by_cases e : i = k
          · subst e; simp at hk; subst hk; simp at hw; subst hw; rfl
          · simp [e] at hk; exact h.shape.slp k slk hk w hw
        · intro j n hj; exact h.shape.ntf j n hj
      · exact setS_len1 h.len1 _ _ (by simp)
    · exact h
  · exact h

theorem install_ok {m : C02.St} (h : MonOK m) (j : Nat) (op : NOp) (hop : op = oneOp ∨ ∃ c, op = finOp c) :
    MonOK (install m j op) := by
  unfold install
  split
  · rename_i n hn
    split
    · rename_i hemp
      have hidle : n.ops = [] := List.isEmpty_iff.mp hemp
      constructor
      · refine installN_inv h.inv hn hidle op ?_ ?_
        · intro i sl hi w hw c k r e hc
          rcases hop with e' | ⟨k', e'⟩
          · rw [e'] at e; simp [oneOp] at e
          · rw [e'] at e
            simp only [finOp, NOp.sig.injEq, Option.some.injEq] at e
            obtain ⟨e1, e2, _⟩ := e
            subst e1; subst e2
            have := h.shape.slp i sl hi w hw
            subst this
            simp only at hc; subst hc
            simp [NKind.accepts]
        · intro cd c0 r e
          rcases hop with e' | ⟨k', e'⟩ <;> rw [e'] at e <;> simp [oneOp, finOp] at e
      · constructor
        · intro k sl hk; exact h.shape.slp k sl hk
        · intro j' n' hj op' hop'
          have hlt := getElem?_lt hn
          simp only [St.setN, List.getElem?_set] at hj
          by_cases e' : j = j'
          · subst e'; simp [hlt] at hj; subst hj
            simp only [mkNotifier, List.mem_singleton] at hop'; subst hop'; exact hop
          · simp [e'] at hj; exact h.shape.ntf j' n' hj op' hop'
      · exact h.len1
    · exact h
  · exact h

/-- `occupy_free_slot` succeeded between the predicate and `commit_wait`: the loop calls `cancel_wait` -/
theorem forcedCommit_inv {s : C02.St} (h : Inv s) {i : Nat} {sl : Sleeper} (hi : s.slp[i]? = some sl)
    (hops : sl.ops ≠ []) (hpc : sl.pc = .commit) :
    Inv (s.setS i { sl with again := false, pc := .cLoad }) := by
  have hS := h.slp i sl hi
  simp only [SLoc, hpc] at hS
  refine inv_sleeper_local h hi (by sl_close) (Or.inl (by simp)) (by simp [hops]) ?_ (by simp)
  sl_close

theorem forced_ok {m : C02.St} (h : MonOK m) {i : Nat} {sl : Sleeper} (hi : m.slp[i]? = some sl) (hops : sl.ops ≠ [])
    (hpc : sl.pc = .commit) : MonOK (m.setS i { sl with again := false, pc := .cLoad }) := by
  constructor
  · exact forcedCommit_inv h.inv hi hops hpc
  · constructor
    · intro k slk hk w hw
      have hlt := getElem?_lt hi
      simp only [St.setS, List.getElem?_set, hlt] at hk
      by_cases e : i = k
      · subst e; simp at hk; subst hk; exact h.shape.slp i sl hi w hw
      · simp [e] at hk; exact h.shape.slp k slk hk w hw
    · intro j n hj; exact h.shape.ntf j n hj
  · exact setS_len1 h.len1 _ _ (h.len1 i sl hi)

/-- leaving the wait loop between two rounds -/
theorem forcedExit_ok {m : C02.St} (h : MonOK m) (i : Nat) : MonOK (forcedExit m i) := by
  unfold forcedExit
  split
  · rename_i sl hi
    have hS := h.inv.slp i sl hi
    split
    · rename_i hpc
      have hne : sl.ops ≠ [] := fun e => by have := h.inv.opsS i sl hi e; rw [hpc] at this; cases this
      simp only [SLoc, hpc] at hS
      refine ⟨inv_sleeper_local h.inv hi (by simp [hpc, holdsS]) (Or.inl rfl) (by simp [hne]) (by sl_close) (by simp), ?_, ?_⟩
      · constructor
        · intro k slk hk w hw
          have hlt := getElem?_lt hi
          simp only [St.setS, List.getElem?_set, hlt] at hk
          by_cases e : i = k
          · subst e; simp at hk; subst hk; exact h.shape.slp i sl hi w hw
          · simp [e] at hk; exact h.shape.slp k slk hk w hw
        · intro j n hj; exact h.shape.ntf j n hj
      · exact setS_len1 h.len1 _ _ (h.len1 i sl hi)
    · split
      · rename_i hpc
        simp only [SLoc, hpc] at hS
        refine ⟨inv_sleeper_local h.inv hi (by simp [hpc, holdsS, Sleeper.fresh]) (Or.inr rfl) (fun _ => rfl)
          (sloc_fresh hS.1 hS.2.1) (by simp [Sleeper.fresh]), ?_, ?_⟩
        · constructor
          · intro k slk hk w hw
            have hlt := getElem?_lt hi
            simp only [St.setS, List.getElem?_set, hlt] at hk
            by_cases e : i = k
            · subst e; simp at hk; subst hk
              exact h.shape.slp i sl hi w (List.mem_of_mem_tail hw)
            · simp [e] at hk; exact h.shape.slp k slk hk w hw
          · intro j n hj; exact h.shape.ntf j n hj
        · refine setS_len1 h.len1 _ _ ?_
          have := h.len1 i sl hi
          simp [Sleeper.fresh]; omega
      · exact h
  · exact h

/-! ### the reachable states -/

theorem stepT_mon {s : St} (h : MonOK s.mon) (i : Nat) (th : Thr) (c : Nat) : MonOK (stepT s i th c).mon := by
  unfold stepT
  split
  · exact h
  · dsimp only
    split
    all_goals (repeat' split)
    all_goals first
      | exact h
      | exact step_ok h _
      | exact install_ok (step_ok h _) _ _ (Or.inl rfl)
      | exact install_ok h _ _ (Or.inl rfl)
      | exact install_ok (forcedExit_ok h _) _ _ (Or.inl rfl)
      | exact startWait_ok (install_ok (setCond_false_ok h _) _ _ (Or.inr ⟨_, rfl⟩)) _
      | exact step_ok (startWait_ok h _) _
      | (rename_i sl hsl _ hc _
         exact forced_ok h hsl (fun e => by have := h.inv.opsS _ _ hsl e; rw [hc.1] at this; cases this) hc.1)

theorem stepF_mon {s : St} (h : MonOK s.mon) (i : Nat) : MonOK (stepF s i).mon := by
  unfold stepF
  dsimp only
  split
  · split
    · exact h
    · exact step_ok h _
  · exact h

theorem step_mon {s : St} (h : MonOK s.mon) (t : Tid) : MonOK (step s t).mon := by
  unfold step
  dsimp only
  split
  · exact h
  · split
    · split
      · exact stepT_mon h _ _ _
      · exact h
    · exact stepF_mon h _

theorem init_mon (S : Nat) (calls : List Nat) : MonOK (init S calls).mon := by
  constructor
  · exact init_inv _ _ (by
      simp only [compatB, acceptB, uniqB, Bool.and_eq_true, List.all_eq_true]
      constructor
      · intro p hp w hw; rw [List.eq_of_mem_replicate hp] at hw; simp at hw
      · intro q hq op hop; rw [List.eq_of_mem_replicate hq] at hop; simp at hop)
  · constructor
    · intro i sl hi w hw
      simp only [init, C02.init, List.getElem?_map, Option.map_eq_some_iff] at hi
      obtain ⟨p, hp, rfl⟩ := hi
      have := List.mem_of_getElem? hp
      rw [List.eq_of_mem_replicate this] at hw; simp [mkSleeper] at hw
    · intro j n' hj op hop
      simp only [init, C02.init, List.getElem?_map, Option.map_eq_some_iff] at hj
      obtain ⟨q, hq, rfl⟩ := hj
      have := List.mem_of_getElem? hq
      rw [List.eq_of_mem_replicate this] at hop; simp [mkNotifier] at hop
  · intro i sl hi
    simp only [init, C02.init, List.getElem?_map, Option.map_eq_some_iff] at hi
    obtain ⟨p, hp, rfl⟩ := hi
    have := List.mem_of_getElem? hp
    rw [List.eq_of_mem_replicate this]; simp [mkSleeper]

theorem reach_mon (S : Nat) (calls : List Nat) (sched : List Tid) : MonOK ((sys S calls).run sched).mon :=
  Sys.inv_run (sys S calls) (fun s => MonOK s.mon) (init_mon S calls) (fun _ t h => step_mon h t) sched

end TbbVerif.C02.EX
