/-
C02 / bounded queue: the `Link` invariant (which call each thread has installed at its two notifiers) holds in every
reachable state.
-/
import TbbVerif.Proofs.C02.BQLink

set_option linter.unusedSimpArgs false
namespace TbbVerif.C02.BQ
open TbbVerif.C02

theorem ntfStep_self {m : C02.St} {t : Nat} {n0 : Notifier} {op : NOp} (h0 : m.ntf[t]? = some n0) (ho : n0.ops = [op]) :
    ∃ n', (ntfStep m t).ntf[t]? = some n' ∧
      ((ntfDone (ntfStep m t) t = true ∧ n'.ops = []) ∨ (ntfDone (ntfStep m t) t = false ∧ n'.ops = [op])) := by
  obtain ⟨n', hn', hops⟩ := (ntfStep_frame m t).2.2.2.2.1 n0 h0
  refine ⟨n', hn', ?_⟩
  rw [ho] at hops
  rcases hops with e | e
  · right; exact ⟨by unfold ntfDone; simp [hn', e], e⟩
  · left; simp at e; exact ⟨by unfold ntfDone; simp [hn', e], e⟩

set_option hygiene false in
macro "pickS" : tactic => `(tactic| first | (rw [hnS] at hn; cases hn) | cases hn)
set_option hygiene false in
macro "pickI" : tactic => `(tactic| first | (rw [hnI] at hn; cases hn) | cases hn)

theorem stepT_link_self {s : St} (hL : Link s) {t : Nat} {th : Thr} (hth : s.thr[t]? = some th) :
    ∀ (th' : Thr), (stepT s t th).thr[t]? = some th' →
      (∀ n, (stepT s t th).slots.ntf[t]? = some n → LinkS th' n) ∧
      (∀ n, (stepT s t th).items.ntf[t]? = some n → LinkI th' n) := by
  have hlt : t < s.thr.length := getElem?_lt hth
  obtain ⟨nS, hnS⟩ : ∃ n, s.slots.ntf[t]? = some n := ⟨s.slots.ntf[t]'(by rw [hL.lenS]; exact hlt), List.getElem?_eq_getElem _⟩
  obtain ⟨nI, hnI⟩ : ∃ n, s.items.ntf[t]? = some n := ⟨s.items.ntf[t]'(by rw [hL.lenI]; exact hlt), List.getElem?_eq_getElem _⟩
  have hS := hL.ls t th nS hth hnS
  have hI := hL.li t th nI hth hnI
  have hself : ∀ (s' : St) (th'' : Thr), s'.thr = s.thr → ∀ th', (s'.setT t th'').thr[t]? = some th' → th' = th'' := by
    intro s' th'' e th' h
    rw [setT_thr, e] at h; simp [hlt] at h; exact h.symm
  have hsame : ∀ (s' : St), s'.thr = s.thr → ∀ th', s'.thr[t]? = some th' → th' = th := by
    intro s' e th' h; rw [e, hth] at h; cases h; rfl
  have swn : ∀ (m : C02.St) (a b : Nat), (startWait m a b).ntf = m.ntf := fun m a b => (startWait_frame m a b).1
  have wsn : ∀ (m : C02.St) (a : Nat) (x : Thr) (c : Nat) (r : Bool), (waitStep m a x c r).1.ntf = m.ntf :=
    fun m a x c r => (waitStep_frame m a x c r).1
  intro th' h'
  cases hops : th.ops with
  | nil =>
    have : stepT s t th = s := by unfold stepT; simp [hops]
    rw [this] at h' ⊢
    rw [hth] at h'; cases h'
    exact ⟨fun n hn => by rw [hnS] at hn; cases hn; exact hS, fun n hn => by rw [hnI] at hn; cases hn; exact hI⟩
  | cons o rest =>
    have hne : th.ops ≠ [] := by rw [hops]; simp
    unfold LinkS at hS; unfold LinkI at hI
    simp only [hne, if_false] at hS hI
    unfold stepT at h' ⊢
    simp only [hops] at h' ⊢
    cases hpc : th.pc <;> simp only [hpc] at h' hS hI ⊢
    -- no monitor is touched and the thread's record changes within the same `Link` class
    case pLoadAbort | qLoadAbort | tLoadTail | rLoadHead | pPublish | tPublish =>
      have := hself _ _ rfl th' h'; subst this
      simp only [setT_slots, setT_items]
      exact ⟨fun n hn => by pickS; simp [LinkS, hS], fun n hn => by pickI; simp [LinkI, hI]⟩
    case tLoadHead | rLoadTail =>
      split at h' <;> (have := hself _ _ rfl th' h'; subst this) <;> simp only [*, if_true, Bool.false_eq_true, if_false, setT_slots, setT_items]
      all_goals exact ⟨fun n hn => by pickS; first | (rw [linkS_ret]; exact hS) | simp [LinkS, hS],
                       fun n hn => by pickI; first | (rw [linkI_ret]; exact hI) | simp [LinkI, hI]⟩
    case pTailInc =>
      have := hself _ _ rfl th' h'; subst this
      simp only [setT_slots, setT_items]
      refine ⟨fun n hn => by pickS; simp [LinkS, hS], fun n hn => ?_⟩
      rw [arm_self hnI hI] at hn; cases hn; simp [LinkI, armedN]
    case qHeadInc =>
      have := hself _ _ rfl th' h'; subst this
      simp only [setT_slots, setT_items]
      refine ⟨fun n hn => ?_, fun n hn => by pickI; simp [LinkI, hI]⟩
      rw [arm_self hnS hS] at hn; cases hn; simp [LinkS, armedN]
    case pLoadHead | qLoadTail =>
      split at h' <;> (have := hself _ _ rfl th' h'; subst this) <;> simp only [*, if_true, if_false, setT_slots, setT_items, swn]
      all_goals exact ⟨fun n hn => by pickS; simp [LinkS, hS], fun n hn => by pickI; simp [LinkI, hI]⟩
    case tCasTail =>
      split at h' <;> (have := hself _ _ rfl th' h'; subst this) <;> simp only [*, if_true, Bool.false_eq_true, if_false, setT_slots, setT_items]
      · refine ⟨fun n hn => by pickS; simp [LinkS, hS], fun n hn => ?_⟩
        rw [arm_self hnI hI] at hn; cases hn; simp [LinkI, armedN]
      · exact ⟨fun n hn => by pickS; simp [LinkS, hS], fun n hn => by pickI; simp [LinkI, hI]⟩
    case rCasHead =>
      split at h' <;> (have := hself _ _ rfl th' h'; subst this) <;> simp only [*, if_true, Bool.false_eq_true, if_false, setT_slots, setT_items]
      · refine ⟨fun n hn => ?_, fun n hn => by pickI; simp [LinkI, hI]⟩
        rw [arm_self hnS hS] at hn; cases hn; simp [LinkS, armedN]
      · exact ⟨fun n hn => by pickS; simp [LinkS, hS], fun n hn => by pickI; simp [LinkI, hI]⟩
    case pWait =>
      obtain ⟨w1, w2, w3, _⟩ := waitStep_thr s.slots t th s.abortc (decide (s.head > th.ticket - s.cap))
      have wn := wsn s.slots t th s.abortc (decide (s.head > th.ticket - s.cap))
      generalize waitStep s.slots t th s.abortc (decide (s.head > th.ticket - s.cap)) = r at h' w1 w2 w3 wn ⊢
      split at h' <;> (have := hself _ _ rfl th' h'; subst this) <;> simp only [*, if_true, Bool.false_eq_true, if_false, setT_slots, setT_items]
      · cases waitAborted r.1 t r.2.1 <;>
          exact ⟨fun n hn => by pickS; simp [LinkS, w1, hne, hS], fun n hn => by pickI; simp [LinkI, w1, hne, w3, hI]⟩
      · exact ⟨fun n hn => by pickS; unfold LinkS; simp only [w1, hne, if_false, w2, hpc]; exact hS,
               fun n hn => by pickI; unfold LinkI; simp only [w1, hne, if_false, w2, hpc, w3]; exact hI⟩
    case qWait =>
      obtain ⟨w1, w2, w3, _⟩ := waitStep_thr s.items t th s.abortc (decide (s.tail > th.ticket))
      have wn := wsn s.items t th s.abortc (decide (s.tail > th.ticket))
      generalize waitStep s.items t th s.abortc (decide (s.tail > th.ticket)) = r at h' w1 w2 w3 wn ⊢
      split at h' <;> (have := hself _ _ rfl th' h'; subst this) <;> simp only [*, if_true, Bool.false_eq_true, if_false, setT_slots, setT_items]
      · cases waitAborted r.1 t r.2.1 <;>
          exact ⟨fun n hn => by pickS; simp [LinkS, w1, hne, w3, hS], fun n hn => by pickI; simp [LinkI, w1, hne, hI]⟩
      · exact ⟨fun n hn => by pickS; unfold LinkS; simp only [w1, hne, if_false, w2, hpc, w3]; exact hS,
               fun n hn => by pickI; unfold LinkI; simp only [w1, hne, if_false, w2, hpc]; exact hI⟩
    case pAbortPush =>
      have := hself _ _ rfl th' h'; subst this
      simp only [setT_slots, setT_items]
      refine ⟨fun n hn => by pickS; rw [linkS_ret]; exact hS, fun n hn => ?_⟩
      rw [disarm_self hnI hI.1 hI.2] at hn; cases hn; rw [linkI_ret]; rfl
    case qHeadDec =>
      have := hself _ _ rfl th' h'; subst this
      simp only [setT_slots, setT_items]
      refine ⟨fun n hn => ?_, fun n hn => by pickI; rw [linkI_ret]; exact hI⟩
      have hn2 : (disarm s.slots t).ntf[t]? = some n := hn
      rw [disarm_self hnS hS.1 hS.2] at hn2; cases hn2; rw [linkS_ret]; rfl
    case qConsume | rConsume =>
      split at h'
      · have := hsame _ rfl th' h'; subst this
        exact ⟨fun n hn => by pickS; unfold LinkS; simp only [hne, if_false, hpc]; exact hS,
               fun n hn => by pickI; unfold LinkI; simp only [hne, if_false, hpc]; exact hI⟩
      · have := hself _ _ rfl th' h'; subst this
        simp only [*, setT_slots, setT_items]
        exact ⟨fun n hn => by pickS; simp [LinkS, hS], fun n hn => by pickI; simp [LinkI, hI]⟩
      · have := hself _ _ rfl th' h'; subst this
        simp only [*, setT_slots, setT_items]
        refine ⟨fun n hn => ?_, fun n hn => by pickI; simp [LinkI, hI]⟩
        rw [disarm_self hnS hS.1 hS.2] at hn; cases hn; simp [LinkS, mkNotifier]
    case pNotify | tNotify =>
      obtain ⟨n', hn', hd⟩ := ntfStep_self hnI hI
      rcases hd with ⟨hd, he⟩ | ⟨hd, he⟩ <;> simp only [hd, if_true, Bool.false_eq_true, if_false] at h' ⊢
      · have := hself _ _ rfl th' h'; subst this
        simp only [setT_slots, setT_items]
        exact ⟨fun n hn => by pickS; rw [linkS_ret]; exact hS, fun n hn => by rw [hn'] at hn; cases hn; rw [linkI_ret]; exact he⟩
      · have := hsame _ rfl th' h'; subst this
        exact ⟨fun n hn => by pickS; unfold LinkS; simp only [hne, if_false, hpc]; exact hS,
               fun n hn => by rw [hn'] at hn; cases hn; unfold LinkI; simp only [hne, if_false, hpc]; exact he⟩
    case qNotify | rNotify =>
      obtain ⟨n', hn', hd⟩ := ntfStep_self hnS hS
      rcases hd with ⟨hd, he⟩ | ⟨hd, he⟩ <;> simp only [hd, if_true, Bool.false_eq_true, if_false] at h' ⊢
      · have := hself _ _ rfl th' h'; subst this
        simp only [setT_slots, setT_items]
        exact ⟨fun n hn => by rw [hn'] at hn; cases hn; rw [linkS_ret]; exact he, fun n hn => by pickI; rw [linkI_ret]; exact hI⟩
      · have := hsame _ rfl th' h'; subst this
        exact ⟨fun n hn => by rw [hn'] at hn; cases hn; unfold LinkS; simp only [hne, if_false, hpc]; exact he,
               fun n hn => by pickI; unfold LinkI; simp only [hne, if_false, hpc]; exact hI⟩
    case aInc =>
      have := hself _ _ rfl th' h'; subst this
      simp only [setT_slots, setT_items]
      refine ⟨fun n hn => ?_, fun n hn => ?_⟩
      · rw [armAbort_self hnS hS] at hn; cases hn; simp [LinkS, mkNotifier, abortOp, NOp.startPc]
      · rw [armAbort_self hnI hI] at hn; cases hn; simp [LinkI, mkNotifier, abortOp]
    case aItems =>
      obtain ⟨n', hn', hd⟩ := ntfStep_self hnI hI
      rcases hd with ⟨hd, he⟩ | ⟨hd, he⟩ <;> simp only [hd, if_true, Bool.false_eq_true, if_false] at h' ⊢
      · have := hself _ _ rfl th' h'; subst this
        simp only [setT_slots, setT_items]
        exact ⟨fun n hn => by pickS; simp [LinkS, hS], fun n hn => by rw [hn'] at hn; cases hn; simp [LinkI, he]⟩
      · have := hsame _ rfl th' h'; subst this
        exact ⟨fun n hn => by pickS; unfold LinkS; simp only [hne, if_false, hpc]; exact hS,
               fun n hn => by rw [hn'] at hn; cases hn; unfold LinkI; simp only [hne, if_false, hpc]; exact he⟩
    case aSlots =>
      obtain ⟨n', hn', hd⟩ := ntfStep_self hnS hS
      rcases hd with ⟨hd, he⟩ | ⟨hd, he⟩ <;> simp only [hd, if_true, Bool.false_eq_true, if_false] at h' ⊢
      · have := hself _ _ rfl th' h'; subst this
        simp only [setT_slots, setT_items]
        exact ⟨fun n hn => by rw [hn'] at hn; cases hn; rw [linkS_ret]; exact he, fun n hn => by pickI; rw [linkI_ret]; exact hI⟩
      · have := hsame _ rfl th' h'; subst this
        exact ⟨fun n hn => by rw [hn'] at hn; cases hn; unfold LinkS; simp only [hne, if_false, hpc]; exact he,
               fun n hn => by pickI; unfold LinkI; simp only [hne, if_false, hpc]; exact hI⟩

theorem stepT_link {s : St} (hL : Link s) {t : Nat} {th : Thr} (hth : s.thr[t]? = some th) : Link (stepT s t th) := by
  obtain ⟨h1, h2, h3, h4, h5, h6⟩ := stepT_other s t th
  refine ⟨by rw [h2, h1]; exact hL.lenS, by rw [h3, h1]; exact hL.lenI, ?_, ?_⟩
  · intro i th' n hi hn
    by_cases e : i = t
    · subst e; exact (stepT_link_self hL hth th' hi).1 n hn
    · rw [h4 i e] at hi; rw [h5 i e] at hn; exact hL.ls i th' n hi hn
  · intro i th' n hi hn
    by_cases e : i = t
    · subst e; exact (stepT_link_self hL hth th' hi).2 n hn
    · rw [h4 i e] at hi; rw [h6 i e] at hn; exact hL.li i th' n hi hn

theorem step_link {s : St} (hL : Link s) (t : Tid) : Link (step s t) := by
  unfold step
  split
  · rename_i th hth; exact stepT_link hL hth
  · exact hL

theorem mkThr_link (p : List Op) (n : Notifier) (hn : n.ops = []) : LinkS (mkThr p) n ∧ LinkI (mkThr p) n := by
  unfold LinkS LinkI
  cases p with
  | nil => simp [mkThr, hn]
  | cons o rest =>
    simp only [mkThr]
    rcases startPc_cases o with e | e | e | e | e <;> simp [e, hn]

theorem init_link (cap : Nat) (progs : List (List Op)) : Link (init cap progs) := by
  have hidle : ∀ (i : Nat) (n : Notifier), (monInit progs.length).ntf[i]? = some n → n.ops = [] := by
    intro i n h
    simp only [monInit, C02.init, List.getElem?_map, Option.map_eq_some_iff] at h
    obtain ⟨q, hq, rfl⟩ := h
    have := List.mem_of_getElem? hq
    rw [List.eq_of_mem_replicate this]; rfl
  refine ⟨by simp [init, monInit, C02.init], by simp [init, monInit, C02.init], ?_, ?_⟩
  · intro i th n hi hn
    simp only [init, List.getElem?_map, Option.map_eq_some_iff] at hi
    obtain ⟨p, _, rfl⟩ := hi
    exact (mkThr_link p n (hidle i n hn)).1
  · intro i th n hi hn
    simp only [init, List.getElem?_map, Option.map_eq_some_iff] at hi
    obtain ⟨p, _, rfl⟩ := hi
    exact (mkThr_link p n (hidle i n hn)).2

theorem reach_link (cap : Nat) (progs : List (List Op)) (sched : List Tid) : Link ((sys cap progs).run sched) :=
  Sys.inv_run (sys cap progs) Link (init_link cap progs) (fun _ t h => step_link h t) sched

end TbbVerif.C02.BQ
