/-
C02 / Tso: kernel-checked closure of the reachable set for one drain table (see TsoCore.lean):
prepFence=true unlockDrains=true notifyFence=false chgDrains=true.
-/
import TbbVerif.Proofs.C02.TsoCore

namespace TbbVerif.C02.Tso

theorem closed_e1101 : closed ⟨true, true, false, true⟩ (reachSet ⟨true, true, false, true⟩) = true := by decide +kernel
theorem safe_e1101 : safe (reachSet ⟨true, true, false, true⟩) = true := by decide +kernel

end TbbVerif.C02.Tso
