/-
C02 / bounded queue: the queue-level operations on a monitor (`startWait`, `arm`, `disarm`, `armAbort`, `ntfStep`,
`waitStep`) preserve the Monitor invariant and the shape of the installed calls; what they do to the notifier table.
-/
import TbbVerif.Model.C02BQ
import TbbVerif.Proofs.C02.MonFrame

namespace TbbVerif.C02.BQ
open TbbVerif.C02

def abortOp : NOp := .sig none .abort false
def leqOp (k : Nat) : NOp := .sig (some k) (.leq k) false

/-- every installed wait is ticket-tagged (`ctx = cond = target`), every installed call is `notify(leq k)` announcing
ticket `k`, or `abort_all` -/
structure Shape (m : C02.St) : Prop where
  slp : ∀ (i : Nat) (sl : Sleeper), m.slp[i]? = some sl → ∀ w ∈ sl.ops, w.ctx = w.cond
  ntf : ∀ (j : Nat) (n : Notifier), m.ntf[j]? = some n → ∀ op ∈ n.ops, op = abortOp ∨ ∃ k, op = leqOp k

structure MonOK (m : C02.St) : Prop where
  inv : Inv m
  shape : Shape m

theorem shape_no_onec {m : C02.St} (h : Shape m) (j : Nat) (n : Notifier) (hj : m.ntf[j]? = some n) (cd c0 : Nat) (r : Bool) :
    NOp.sig (some cd) (.onec c0) r ∉ n.ops := by
  intro hm
  rcases h.ntf j n hj _ hm with e | ⟨k, e⟩ <;> simp [abortOp, leqOp] at e

/-! ### Monitor steps -/

theorem step_shape {m : C02.St} (h : Shape m) (t : Tid) : Shape (C02.step m t) := by
  unfold C02.step
  split
  · split
    · rename_i sl hsl
      constructor
      · intro i sl' hi w hw
        obtain ⟨sl0, h0, ho⟩ := stepS_ops m t sl hsl i sl' hi
        rcases ho with e | e
        · exact h.slp i sl0 h0 w (by rw [← e]; exact hw)
        · exact h.slp i sl0 h0 w (List.mem_of_mem_tail (by rw [← e]; exact hw))
      · intro j n hj; rw [(stepS_frame m t sl).1] at hj; exact h.ntf j n hj
    · exact h
  · split
    · rename_i n hn
      constructor
      · intro i sl' hi w hw
        obtain ⟨sl0, h0, ho⟩ := stepN_ops m _ n i sl' hi
        exact h.slp i sl0 h0 w (by rw [← ho]; exact hw)
      · intro j n' hj op hop
        obtain ⟨_, _, hoth, ⟨n'', hn'', hops, _⟩, _⟩ := stepN_frame m _ n hn
        by_cases e : j = t - m.slp.length
        · subst e; rw [hn''] at hj; cases hj
          rcases hops with e' | e'
          · exact h.ntf _ n hn op (by rw [← e']; exact hop)
          · exact h.ntf _ n hn op (List.mem_of_mem_tail (by rw [← e']; exact hop))
        · rw [hoth j e] at hj; exact h.ntf j n' hj op hop
    · exact h

theorem step_ok {m : C02.St} (h : MonOK m) (t : Tid) : MonOK (C02.step m t) :=
  ⟨step_inv h.inv t, step_shape h.shape t⟩

/-! ### startWait -/

theorem startWait_ok {m : C02.St} (h : MonOK m) (i c : Nat) : MonOK (startWait m i c) := by
  unfold startWait
  split
  · rename_i sl hsl
    split
    · rename_i hemp
      have hidle : sl.ops = [] := List.isEmpty_iff.mp hemp
      constructor
      · refine setOps_inv h.inv hsl hidle ⟨c, c⟩ ?_ (fun j n hj cd c0 r => shape_no_onec h.shape j n hj cd c0 r)
        intro j n hj c' k r hop hc
        rcases h.shape.ntf j n hj _ hop with e | ⟨k', e⟩
        · simp [abortOp] at e
        · simp only [leqOp, NOp.sig.injEq, Option.some.injEq] at e
          obtain ⟨e1, e2, _⟩ := e
          subst e1; subst e2; simp only at hc; subst hc
          simp [NKind.accepts]
      · constructor
        · intro k slk hk w hw
          have hlt := getElem?_lt hsl
          simp only [St.setS, List.getElem?_set, hlt] at hk
          by_cases e : i = k
          · subst e; simp at hk; subst hk; simp at hw; subst hw; rfl
          · simp [e] at hk; exact h.shape.slp k slk hk w hw
        · intro j n hj; exact h.shape.ntf j n hj
    · exact h
  · exact h

/-! ### disarm -/

theorem disarm_cases (m : C02.St) (i : Nat) :
    disarm m i = m ∨ ∃ n c k r, m.ntf[i]? = some n ∧ n.ops = [.sig (some c) k r] ∧ n.pc = .fence ∧
      disarm m i = (m.setCond c false).setN i (mkNotifier []) := by
  unfold disarm
  split
  · rename_i n hn
    split
    · rename_i c k r ho hp
      exact Or.inr ⟨n, c, k, r, hn, ho, hp, rfl⟩
    · exact Or.inl rfl
  · exact Or.inl rfl

theorem pendingFor_single {n : Notifier} {c : Nat} {k : NKind} {r : Bool} (ho : n.ops = [.sig (some c) k r]) {c' x : Nat}
    (hp : pendingFor n c' x = true) : c' = c := by
  unfold pendingFor at hp
  rw [ho] at hp
  simp only [Bool.and_eq_true, beq_iff_eq] at hp
  exact hp.1.1.symm

theorem disarm_ok {m : C02.St} (h : MonOK m) (i : Nat) : MonOK (disarm m i) := by
  rcases disarm_cases m i with e | ⟨n, c, k, r, hn, ho, hp, e⟩
  · rw [e]; exact h
  · rw [e]
    have hN := h.inv.ntf i n hn
    have htemp : n.temp = [] := hN.2.2.1 (by simp [hp])
    constructor
    · refine uninstallN_inv h.inv hn htemp (by rw [hp]; rfl) (m.setCond c false).conds (setCond_false_le m c) ?_
      intro c' x hpf
      have := pendingFor_single ho hpf; subst this
      rw [getD_setCond]; simp
    · constructor
      · intro k' sl hk; exact h.shape.slp k' sl hk
      · intro j n' hj op hop
        have hlt := getElem?_lt hn
        simp only [St.setN, St.setCond, List.getElem?_set] at hj
        by_cases e' : i = j
        · subst e'; simp [hlt] at hj; subst hj; simp [mkNotifier] at hop
        · simp [e'] at hj; exact h.shape.ntf j n' hj op hop

/-! ### arm / armAbort -/

theorem install_ok {m : C02.St} (h : MonOK m) {i : Nat} {n : Notifier} (hn : m.ntf[i]? = some n) (hidle : n.ops = [])
    (op : NOp) (hop : op = abortOp ∨ ∃ k, op = leqOp k) : MonOK (m.setN i (mkNotifier [op])) := by
  constructor
  · refine installN_inv h.inv hn hidle op ?_ ?_
    · intro j sl hj w hw c k r e hc
      rcases hop with e' | ⟨k', e'⟩
      · rw [e'] at e; simp [abortOp] at e
      · rw [e'] at e
        simp only [leqOp, NOp.sig.injEq, Option.some.injEq] at e
        obtain ⟨e1, e2, _⟩ := e
        subst e1; subst e2
        have := h.shape.slp j sl hj w hw
        simp [NKind.accepts, this, hc]
    · intro cd c0 r e
      rcases hop with e' | ⟨k', e'⟩ <;> rw [e'] at e <;> simp [abortOp, leqOp] at e
  · constructor
    · intro k sl hk; exact h.shape.slp k sl hk
    · intro j n' hj op' hop'
      have hlt := getElem?_lt hn
      simp only [St.setN, List.getElem?_set] at hj
      by_cases e' : i = j
      · subst e'; simp [hlt] at hj; subst hj
        simp only [mkNotifier, List.mem_singleton] at hop'; subst hop'; exact hop
      · simp [e'] at hj; exact h.shape.ntf j n' hj op' hop'

theorem arm_ok {m : C02.St} (h : MonOK m) (i k : Nat) : MonOK (arm m i k) := by
  unfold arm
  split
  · rename_i n hn
    split
    · rename_i hemp
      exact step_ok (install_ok h hn (List.isEmpty_iff.mp hemp) _ (Or.inr ⟨k, rfl⟩)) _
    · exact h
  · exact h

theorem armAbort_ok {m : C02.St} (h : MonOK m) (i : Nat) : MonOK (armAbort m i) := by
  unfold armAbort
  split
  · rename_i n hn
    split
    · rename_i hemp
      exact install_ok h hn (List.isEmpty_iff.mp hemp) _ (Or.inl rfl)
    · exact h
  · exact h

theorem ntfStep_ok {m : C02.St} (h : MonOK m) (i : Nat) : MonOK (ntfStep m i) := by
  unfold ntfStep
  split
  · split
    · exact h
    · exact step_ok h _
  · exact h

/-! ### waitStep -/

theorem forced_ok {m : C02.St} (h : MonOK m) {i : Nat} {sl : Sleeper} (hi : m.slp[i]? = some sl) (hops : sl.ops ≠ [])
    (hpc : sl.pc = .check) : MonOK (m.setS i { sl with again := false, pc := .cLoad }) := by
  constructor
  · exact forcedCancel_inv h.inv hi hops hpc
  · constructor
    · intro k slk hk w hw
      have hlt := getElem?_lt hi
      simp only [St.setS, List.getElem?_set, hlt] at hk
      by_cases e : i = k
      · subst e; simp at hk; subst hk; exact h.shape.slp i sl hi w hw
      · simp [e] at hk; exact h.shape.slp k slk hk w hw
    · intro j n hj; exact h.shape.ntf j n hj

theorem waitStep_ok {m : C02.St} (h : MonOK m) (i : Nat) (th : Thr) (ac : Nat) (real : Bool) :
    MonOK (waitStep m i th ac real).1 := by
  unfold waitStep
  split
  · exact h
  · rename_i sl hsl
    by_cases hemp : sl.ops.isEmpty = true
    · simp only [hemp, if_true]; exact h
    · have hops : sl.ops ≠ [] := by intro e; rw [e] at hemp; simp at hemp
      simp only [hemp, Bool.false_eq_true, if_false]
      split
      · rename_i hc
        split
        · exact forced_ok h hsl hops hc.1
        · exact h
      · split
        · rename_i hc
          split
          · exact forced_ok h hsl hops hc
          · exact step_ok h _
        · exact step_ok h _

end TbbVerif.C02.BQ
