/-
C02 / Monitor: the invariant holds in every reachable state; consequences used by the property theorems.
-/
import TbbVerif.Proofs.C02.MonSleeper
import TbbVerif.Proofs.C02.MonNStep

namespace TbbVerif.C02

theorem step_inv {s : St} (h : Inv s) (t : Tid) : Inv (step s t) := by
  unfold step
  split
  · split
    · rename_i sl hsl; exact stepS_inv h hsl
    · exact h
  · split
    · rename_i n hn; exact stepN_inv h hn
    · exact h

/-- decidable form of `Compat` on the programs -/
def acceptB (ws : List (List WOp)) (ns : List (List NOp)) : Bool :=
  ws.all fun p => p.all fun w => ns.all fun q => q.all fun op =>
    match op with
    | .sig (some c) k _ => c != w.cond || k.accepts w.ctx
    | _ => true

/-- some wait of the program uses context `c0` -/
def mentions (p : List WOp) (c0 : Nat) : Bool := p.any fun w => w.ctx == c0

/-- some wait of the program is on condition `cd` with context `c0` -/
def mentionsC (p : List WOp) (cd c0 : Nat) : Bool := p.any fun w => w.cond == cd && w.ctx == c0

/-- a thread that waits on `cd` with context `c0` is the only thread that ever waits with context `c0` -/
def uniqCtx (ws : List (List WOp)) (cd c0 : Nat) : Bool :=
  (List.range ws.length).all fun i => (List.range ws.length).all fun i' =>
    i == i' || !(mentionsC (ws.getD i []) cd c0 && mentions (ws.getD i' []) c0)

/-- decidable form of `Uniq`: a `notify_one(pred)` that announces a state change has at most one thread to wake -/
def uniqB (ws : List (List WOp)) (ns : List (List NOp)) : Bool :=
  ns.all fun q => q.all fun op =>
    match op with
    | .sig (some cd) (.onec c0) _ => uniqCtx ws cd c0
    | _ => true

/-- The hypothesis of the no-lost-wake-up theorems: every state change of a condition is followed, in the same notifier
operation, by a notification whose predicate matches the context of every wait on that condition (`acceptB`), and a
`notify_one(pred)` used for that has at most one thread to wake (`uniqB`). -/
def compatB (ws : List (List WOp)) (ns : List (List NOp)) : Bool := acceptB ws ns && uniqB ws ns

theorem compatB_of {ws : List (List WOp)} {ns : List (List NOp)} (h1 : acceptB ws ns = true)
    (h2 : ∀ q ∈ ns, ∀ op ∈ q, ∀ c c0 r, op ≠ NOp.sig (some c) (.onec c0) r) : compatB ws ns = true := by
  simp only [compatB, Bool.and_eq_true]
  refine ⟨h1, ?_⟩
  simp only [uniqB, List.all_eq_true]
  intro q hq op hop
  split
  · rename_i c c0 r; exact absurd rfl (h2 q hq _ hop c c0 r)
  · rfl

theorem pend_init (ws : List (List WOp)) (ns : List (List NOp)) (i : Nat) : pend (init ws ns) i = 0 := by
  simp only [pend, init, List.map_map]
  induction ns with
  | nil => rfl
  | cons q ns ih => simp [List.sum_cons, mkNotifier]; exact ih

theorem startPc_set {o : NOp} (h : o.startPc = .set) : ∃ c k r, o = .sig (some c) k r := by
  cases o with
  | sig c k r =>
    cases c with
    | none => cases r <;> simp [NOp.startPc] at h
    | some c => exact ⟨c, k, r, rfl⟩
  | clr c => simp [NOp.startPc] at h

theorem startPc_cases (o : NOp) : o.startPc = .set ∨ o.startPc = .clr ∨ o.startPc = .fence ∨ o.startPc = .test := by
  cases o with
  | sig c k r => cases c <;> cases r <;> simp [NOp.startPc]
  | clr c => simp [NOp.startPc]

theorem nloc_mk (p : List NOp) : NLoc (mkNotifier p) := by
  cases p with
  | nil => refine ⟨by simp [mkNotifier], by simp [mkNotifier, Notifier.unm], ?_, ?_, ?_, ?_, ?_, ?_⟩ <;> simp [mkNotifier, holdsN]
  | cons o rest =>
    have hc := startPc_cases o
    refine ⟨by simp [mkNotifier], by simp [mkNotifier, Notifier.unm], fun _ => rfl, ?_, by simp [mkNotifier], ?_, ?_, ?_⟩
    · intro e; simp only [mkNotifier] at e; rcases hc with h | h | h | h <;> rw [h] at e <;> cases e
    · intro e; simp only [mkNotifier] at e
      obtain ⟨c, k, r, ho⟩ := startPc_set e
      exact ⟨c, k, r, rest, by simp [mkNotifier, ho]⟩
    · intro e; simp only [mkNotifier] at e; rcases hc with h | h | h | h <;> rw [h] at e <;> cases e
    · intro e; simp only [mkNotifier] at e; rcases hc with h | h | h | h <;> rw [h] at e <;> cases e

theorem init_inv (ws : List (List WOp)) (ns : List (List NOp)) (hc0 : compatB ws ns = true) : Inv (init ws ns) := by
  simp only [compatB, Bool.and_eq_true] at hc0
  obtain ⟨hc, hu⟩ := hc0
  have hS : ∀ (i : Nat) (sl : Sleeper), (init ws ns).slp[i]? = some sl → ∃ p, ws[i]? = some p ∧ sl = mkSleeper p := by
    intro i sl h
    simp only [init, List.getElem?_map, Option.map_eq_some_iff] at h
    obtain ⟨p, h1, h2⟩ := h; exact ⟨p, h1, h2.symm⟩
  have hN : ∀ (j : Nat) (n : Notifier), (init ws ns).ntf[j]? = some n → ∃ q, ns[j]? = some q ∧ n = mkNotifier q := by
    intro j n h
    simp only [init, List.getElem?_map, Option.map_eq_some_iff] at h
    obtain ⟨q, h1, h2⟩ := h; exact ⟨q, h1, h2.symm⟩
  constructor
  · rfl
  · exact List.nodup_nil
  · intro i sl h; obtain ⟨p, _, rfl⟩ := hS i sl h; simp [mkSleeper, holdsS, init]
  · intro j n h
    obtain ⟨q, _, rfl⟩ := hN j n h
    have : holdsN (mkNotifier q).pc = false := by
      cases q with
      | nil => rfl
      | cons o rest => simp only [mkNotifier]; exact holdsN_startPc o
    simp [this, init]
  · intro i sl h _; obtain ⟨p, _, rfl⟩ := hS i sl h; rfl
  · intro i sl h
    obtain ⟨p, _, rfl⟩ := hS i sl h
    rw [pend_init]
    simp [SLoc, mkSleeper, init]
  · intro j n h; obtain ⟨q, _, rfl⟩ := hN j n h; exact nloc_mk q
  · intro i sl h hp; obtain ⟨p, _, rfl⟩ := hS i sl h; simp [mkSleeper] at hp
  · intro i sl h w hw j n hn c k r hop hcw
    obtain ⟨p, hp, rfl⟩ := hS i sl h
    obtain ⟨q, hq, rfl⟩ := hN j n hn
    have hpm : p ∈ ws := List.mem_of_getElem? hp
    have hqm : q ∈ ns := List.mem_of_getElem? hq
    have hop' : NOp.sig (some c) k r ∈ q := by
      cases q with
      | nil => simp [mkNotifier] at hop
      | cons o rest => simpa [mkNotifier] using hop
    have hw' : w ∈ p := by simpa [mkSleeper] using hw
    simp only [acceptB, List.all_eq_true] at hc
    have := hc p hpm w hw' q hqm _ hop'
    simp only [Bool.or_eq_true, bne_iff_ne, ne_eq] at this
    rcases this with h1 | h1
    · exact absurd hcw h1
    · exact h1
  · -- uniq
    intro j n hn cd c0 r hop a a' sa sa' ha ha' w hw w' hw' hcd hcx hcx'
    obtain ⟨q, hq, rfl⟩ := hN j n hn
    obtain ⟨p, hp, rfl⟩ := hS a sa ha
    obtain ⟨p', hp', rfl⟩ := hS a' sa' ha'
    have hqm : q ∈ ns := List.mem_of_getElem? hq
    have hop' : NOp.sig (some cd) (.onec c0) r ∈ q := by
      cases q with
      | nil => simp [mkNotifier] at hop
      | cons o rest => simpa [mkNotifier] using hop
    simp only [uniqB, List.all_eq_true] at hu
    have hU := hu q hqm _ hop'
    simp only [uniqCtx, List.all_eq_true, List.mem_range] at hU
    have hal := getElem?_lt hp
    have hal' := getElem?_lt hp'
    have := hU a hal a' hal'
    have hm : mentionsC (ws.getD a []) cd c0 = true := by
      simp only [List.getD_eq_getElem?_getD, hp, Option.getD_some, mentionsC, List.any_eq_true]
      exact ⟨w, by simpa [mkSleeper] using hw, by simp [hcx, hcd]⟩
    have hm' : mentions (ws.getD a' []) c0 = true := by
      simp only [List.getD_eq_getElem?_getD, hp', Option.getD_some, mentions, List.any_eq_true]
      exact ⟨w', by simpa [mkSleeper] using hw', by simp [hcx']⟩
    simp only [List.getD_eq_getElem?_getD] at hm hm'
    simp only [List.getD_eq_getElem?_getD, hm, hm', Bool.and_self, Bool.not_true, Bool.or_false, beq_iff_eq] at this
    exact this
  · -- wsv
    intro x hx; simp [init] at hx

/-- The invariant holds after every schedule. -/
theorem reach_inv (ws : List (List WOp)) (ns : List (List NOp)) (hc : compatB ws ns = true) (sched : List Tid) :
    Inv ((sys ws ns).run sched) :=
  Sys.inv_run (sys ws ns) Inv (init_inv ws ns hc) (fun s t h => step_inv h t) sched

/-! ### consequences -/

/-- what the clause says about the V's owed to a node -/
theorem sloc_owed {W : Prop} {P : Nat} {U : Prop} {sl : Sleeper} (h : SLoc W P U sl) :
    sl.sem + P ≤ 1 ∧ (sl.pc = .init → sl.sem + P = 0) ∧
    ((sl.pc = .pump ∨ sl.pc = .dtor) → sl.skipped = true ∧ sl.sem + P = 1) ∧
    ((sl.pc = .commit ∨ sl.pc = .park) → (W ∧ sl.sem + P = 0) ∨ (¬W ∧ sl.sem + P = 1)) := by
  unfold SLoc at h
  cases hpc : sl.pc <;> simp only [hpc, EnqI, EnqL] at h <;> grind

end TbbVerif.C02
