/-
C02 / Monitor: the inductive invariant (N sleepers, M notifiers, all schedules) — definitions and basic lemmas.
-/
import TbbVerif.Model.C02

namespace TbbVerif.C02

/-! ### derived quantities -/

/-- number of V's that notifiers still owe node `i` (it sits in their local `temp` lists) -/
def pend (s : St) (i : Nat) : Nat := (s.ntf.map (fun n => n.temp.count i)).sum

/-- dequeued nodes whose `my_is_in_list` the notifier has not cleared yet -/
def Notifier.unm (n : Notifier) : List Nat := n.temp.drop n.marked

def Unm (s : St) (i : Nat) : Prop := ∃ (j : Nat) (n : Notifier), s.ntf[j]? = some n ∧ i ∈ n.unm

/-- program counters inside the monitor's critical sections -/
def holdsS : SPc → Bool
  | .epoch | .add | .unlock | .cChk | .cRemove | .cMark | .cUnlock => true
  | _ => false

def holdsN : NPc → Bool
  | .epoch | .flush | .scan | .mark | .unlock => true
  | _ => false

/-- `notify(pred)` / `notify_relaxed(pred)`: the scan dequeues EVERY node whose context the predicate accepts
(`ctx c`: context == c; `leq k`: context ≤ k, the `predicate_leq` of the bounded queue) -/
def NKind.isPredAll : NKind → Bool
  | .ctx _ | .leq _ => true
  | _ => false

/-- the notifier made condition `c` true and has not yet finished dequeuing every waiter with context `x` -/
def pendingFor (n : Notifier) (c x : Nat) : Bool :=
  match n.ops with
  | .sig (some c') k _ :: _ =>
      c' == c && k.accepts x &&
      (match k with
       | .all | .abort => n.pc == .fence || n.pc == .test || n.pc == .lock || n.pc == .epoch || n.pc == .flush
       | .ctx _ => n.pc == .fence || n.pc == .test || n.pc == .lock || n.pc == .epoch || n.pc == .scan || n.pc == .mark
       | .leq _ => n.pc == .fence || n.pc == .test || n.pc == .lock || n.pc == .epoch || n.pc == .scan || n.pc == .mark
       | .onec _ => n.pc == .fence || n.pc == .test || n.pc == .lock || n.pc == .epoch || n.pc == .scan
       | .one => false)
  | _ => false

/-- enqueued node, not holding the lock: still in the waitset, or dequeued with exactly one V owed / delivered -/
def EnqI (W : Prop) (P : Nat) (U : Prop) (sl : Sleeper) : Prop :=
  (W ∧ sl.sem + P = 0 ∧ sl.inList = true) ∨ (¬W ∧ sl.sem + P = 1 ∧ (sl.inList = true → U))

/-- same while holding the lock: `my_is_in_list` is exact -/
def EnqL (W : Prop) (P : Nat) (sl : Sleeper) : Prop :=
  (W ∧ sl.sem + P = 0 ∧ sl.inList = true) ∨ (¬W ∧ sl.sem + P = 1 ∧ sl.inList = false)

/-- The per-sleeper clause, as a function of `W` = "in the waitset", `P` = V's owed by notifiers,
`U` = "dequeued, `my_is_in_list` not yet cleared". -/
def SLoc (W : Prop) (P : Nat) (U : Prop) (sl : Sleeper) : Prop :=
  match sl.pc with
  | .init | .storeIn => ¬W ∧ sl.sem + P = 0 ∧ sl.skipped = false ∧ sl.inList = false
  | .lock | .epoch | .add => ¬W ∧ sl.sem + P = 0 ∧ sl.skipped = false ∧ sl.inList = true
  | .pump | .dtor => ¬W ∧ sl.sem + P = 1 ∧ sl.skipped = true ∧ sl.inList = false
  | .unlock => sl.skipped = false ∧ W ∧ sl.sem + P = 0 ∧ sl.inList = true
  | .fence | .check | .commit | .park | .cLoad => sl.skipped = false ∧ EnqI W P U sl
  | .cLock => sl.skipped = true ∧ EnqI W P U sl
  | .cChk => sl.skipped = true ∧ EnqL W P sl
  | .cRemove => sl.skipped = true ∧ W ∧ sl.sem + P = 0 ∧ sl.inList = true
  | .cMark => sl.skipped = true ∧ ¬W ∧ sl.sem + P = 0 ∧ sl.inList = true
  | .cUnlock => ¬W ∧ sl.inList = false ∧ ((sl.skipped = false ∧ sl.sem + P = 0) ∨ (sl.skipped = true ∧ sl.sem + P = 1))

def NLoc (n : Notifier) : Prop :=
  n.marked ≤ n.temp.length ∧
  (n.unm ≠ [] → n.pc = .mark) ∧
  ((n.pc = .set ∨ n.pc = .clr ∨ n.pc = .fence ∨ n.pc = .test ∨ n.pc = .lock ∨ n.pc = .epoch ∨ n.pc = .flush) → n.temp = []) ∧
  (n.pc = .mark → n.marked < n.temp.length ∧ (n.kind = .all ∨ n.kind = .abort ∨ n.temp.length ≤ n.marked + 1)) ∧
  (n.ops = [] → n.temp = [] ∧ holdsN n.pc = false) ∧
  (n.pc = .set → ∃ c k r rest, n.ops = .sig (some c) k r :: rest) ∧
  (n.pc = .flush → n.kind = .all ∨ n.kind = .abort) ∧
  (n.pc = .scan → n.kind ≠ .all ∧ n.kind ≠ .abort)

/-- every state change of condition `c` is followed by a notification that accepts the context of every wait on `c` -/
def Compat (s : St) : Prop :=
  ∀ (i : Nat) (sl : Sleeper), s.slp[i]? = some sl → ∀ w ∈ sl.ops, ∀ (j : Nat) (n : Notifier), s.ntf[j]? = some n →
    ∀ c k r, NOp.sig (some c) k r ∈ n.ops → c = w.cond → k.accepts w.ctx = true

/-- a `notify_one(pred = (context == c0))` that announces the change of condition `cd`: if some thread waits on `cd`
with context `c0`, no other thread ever waits with context `c0` (one waiter per contended address: the shape of
`tbb::mutex` with one blocked thread per mutex, any number of mutexes sharing the `address_waiter` bucket) — so the
single node the scan dequeues is every waiter it has to wake -/
def Uniq (s : St) : Prop :=
  ∀ (j : Nat) (n : Notifier), s.ntf[j]? = some n → ∀ cd c0 r, NOp.sig (some cd) (.onec c0) r ∈ n.ops →
    ∀ (i i' : Nat) (sl sl' : Sleeper), s.slp[i]? = some sl → s.slp[i']? = some sl' →
      ∀ w ∈ sl.ops, ∀ w' ∈ sl'.ops, w.cond = cd → w.ctx = c0 → w'.ctx = c0 → i = i'

structure Inv (s : St) : Prop where
  cnt : s.count = s.waitset.length
  nodup : s.waitset.Nodup
  lockS : ∀ (i : Nat) (sl : Sleeper), s.slp[i]? = some sl → (holdsS sl.pc = true ↔ s.lock = some i)
  lockN : ∀ (j : Nat) (n : Notifier), s.ntf[j]? = some n → (holdsN n.pc = true ↔ s.lock = some (s.slp.length + j))
  opsS : ∀ (i : Nat) (sl : Sleeper), s.slp[i]? = some sl → sl.ops = [] → sl.pc = .init
  slp : ∀ (i : Nat) (sl : Sleeper), s.slp[i]? = some sl → SLoc (i ∈ s.waitset) (pend s i) (Unm s i) sl
  ntf : ∀ (j : Nat) (n : Notifier), s.ntf[j]? = some n → NLoc n
  dek : ∀ (i : Nat) (sl : Sleeper), s.slp[i]? = some sl → (sl.pc = .commit ∨ sl.pc = .park) → s.cond sl.cond = true →
          i ∉ s.waitset ∨ ∃ (j : Nat) (n : Notifier), s.ntf[j]? = some n ∧ pendingFor n sl.cond sl.ctx = true
  compat : Compat s
  uniq : Uniq s
  wsv : ∀ x ∈ s.waitset, ∃ sl, s.slp[x]? = some sl

/-! ### list helpers -/

theorem getElem?_lt {α} {l : List α} {i : Nat} {a : α} (h : l[i]? = some a) : i < l.length := by
  rcases Nat.lt_or_ge i l.length with h' | h'
  · exact h'
  · rw [List.getElem?_eq_none h'] at h; cases h

theorem sum_map_set {α} (f : α → Nat) (l : List α) (j : Nat) (a b : α) (h : l[j]? = some a) :
    ((l.set j b).map f).sum + f a = (l.map f).sum + f b := by
  induction l generalizing j with
  | nil => simp at h
  | cons x l ih =>
    cases j with
    | zero => simp at h; subst h; simp [List.sum_cons]; omega
    | succ j =>
      simp at h; have := ih j h
      simp only [List.set_cons_succ, List.map_cons, List.sum_cons]; omega

theorem sum_map_pos {α} (f : α → Nat) (l : List α) (h : 0 < (l.map f).sum) : ∃ (j : Nat) (a : α), l[j]? = some a ∧ 0 < f a := by
  induction l with
  | nil => simp at h
  | cons x l ih =>
    simp [List.sum_cons] at h
    by_cases hx : 0 < f x
    · exact ⟨0, x, by simp, hx⟩
    · have : 0 < (l.map f).sum := by omega
      obtain ⟨j, a, hj, ha⟩ := ih this
      exact ⟨j + 1, a, by simpa using hj, ha⟩

theorem sum_map_ge {α} (f : α → Nat) (l : List α) (j : Nat) (a : α) (h : l[j]? = some a) : f a ≤ (l.map f).sum := by
  induction l generalizing j with
  | nil => simp at h
  | cons x l ih =>
    cases j with
    | zero => simp at h; subst h; simp [List.sum_cons]
    | succ j => simp at h; have := ih j h; simp [List.sum_cons]; omega

/-! ### `pend` / `Unm` under updates -/

@[simp] theorem pend_setS (s : St) (i : Nat) (sl : Sleeper) (k : Nat) : pend (s.setS i sl) k = pend s k := rfl
@[simp] theorem Unm_setS (s : St) (i : Nat) (sl : Sleeper) (k : Nat) : Unm (s.setS i sl) k = Unm s k := by
  simp [Unm, St.setS]

theorem pend_setN {s : St} {j : Nat} {n n' : Notifier} (h : s.ntf[j]? = some n) (k : Nat) :
    pend (s.setN j n') k + n.temp.count k = pend s k + n'.temp.count k := by
  simpa [pend, St.setN] using sum_map_set (fun n => n.temp.count k) s.ntf j n n' h

theorem pend_setN_same {s : St} {j : Nat} {n n' : Notifier} (h : s.ntf[j]? = some n) (ht : n'.temp = n.temp) (k : Nat) :
    pend (s.setN j n') k = pend s k := by
  have := pend_setN (n' := n') h k
  rw [ht] at this; omega

theorem pend_pos {s : St} {k : Nat} (h : 0 < pend s k) : ∃ (j : Nat) (n : Notifier), s.ntf[j]? = some n ∧ k ∈ n.temp := by
  obtain ⟨j, n, hj, hn⟩ := sum_map_pos _ _ h
  exact ⟨j, n, hj, List.count_pos_iff.mp hn⟩

theorem pend_ge {s : St} {j : Nat} {n : Notifier} (h : s.ntf[j]? = some n) (k : Nat) : n.temp.count k ≤ pend s k :=
  sum_map_ge (fun n => n.temp.count k) s.ntf j n h

theorem getS_setS (s : St) (i k : Nat) (sl : Sleeper) :
    (s.setS i sl).slp[k]? = if i = k then (if i < s.slp.length then some sl else none) else s.slp[k]? := by
  simp [St.setS, List.getElem?_set]

theorem getN_setN (s : St) (j k : Nat) (n : Notifier) :
    (s.setN j n).ntf[k]? = if j = k then (if j < s.ntf.length then some n else none) else s.ntf[k]? := by
  simp [St.setN, List.getElem?_set]

end TbbVerif.C02
