/-
C02 / Tso: kernel-checked closure of the reachable set for one drain table (see TsoCore.lean):
prepFence=true unlockDrains=true notifyFence=true chgDrains=true.
-/
import TbbVerif.Proofs.C02.TsoCore

namespace TbbVerif.C02.Tso

theorem closed_e1111 : closed ⟨true, true, true, true⟩ (reachSet ⟨true, true, true, true⟩) = true := by decide +kernel
theorem safe_e1111 : safe (reachSet ⟨true, true, true, true⟩) = true := by decide +kernel

end TbbVerif.C02.Tso
