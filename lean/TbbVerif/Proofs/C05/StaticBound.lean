/-
C05 — static_partitioner: every task runs exactly one chunk and the divisors of the tasks add up to the initial divisor, so a
loop produces at most `max 1 (initial divisor)` chunks — for every range type, every environment.
-/
import TbbVerif.Proofs.C05.Task

namespace TbbVerif.C05

section
variable {R σ : Type} {ops : RangeOps R} {E : Env σ}

/-- share of the initial divisor a static partition object stands for -/
def wtS (p : Part) : Nat := max 1 p.divisor

def kidsWt : List (Ev R) → Nat
  | [] => 0
  | .spawn _ p :: es => wtS p + kidsWt es
  | _ :: es => kidsWt es

def nBodies : List (Ev R) → Nat
  | [] => 0
  | .body _ :: es => 1 + nBodies es
  | _ :: es => nBodies es

/-- `offer_work(split_obj)` of a static_partitioner task: proportional split `d - d/2 : d/2` of the range and of the divisor -/
theorem offerSplit_static (t : TS R σ) (hk : t.part.kind = .static) (hlt : t.part.divisor < 2 ^ 24) :
    offerSplit ops E t =
      (ops.psplit t.range (t.part.divisor - t.part.divisor / 2) (t.part.divisor / 2)).map (fun ab =>
        emitSpawn E { t with range := ab.1, part := { t.part with divisor := t.part.divisor - t.part.divisor / 2 } } ab.2
          { kind := t.part.kind, divisor := t.part.divisor / 2, maxDepth := t.part.maxDepth, delay := 0,
            head := (t.part.head + (t.part.divisor - t.part.divisor / 2)) % t.part.maxAff, maxAff := t.part.maxAff }) := by
  have hps := partPSplit_static t.part hk hlt (t.part.divisor / 2) (by omega) (t.part.divisor - t.part.divisor / 2)
  unfold offerSplit
  simp only [hk, factor, Nat.div_one]
  cases hs : ops.psplit t.range (t.part.divisor - t.part.divisor / 2) (t.part.divisor / 2) with
  | none => rfl
  | some ab =>
    obtain ⟨a, b⟩ := ab
    simp only [Option.map_some]
    rw [hps]
    simp [hk]

theorem splitLoop_static_wt : ∀ (f : Nat) (t t' : TS R σ), t.part.kind = .static → PartInv t.part → splitLoop ops E f t = some t' →
    t'.part.kind = .static ∧ PartInv t'.part ∧ kidsWt t'.evs + wtS t'.part = kidsWt t.evs + wtS t.part ∧ nBodies t'.evs = nBodies t.evs := by
  intro f
  induction f with
  | zero => intro t t' _ _ h; simp [splitLoop] at h
  | succ f ih =>
    intro t t' hk hi h
    unfold splitLoop at h
    split at h
    · have hpd : partIsDivisible t.part = (decide (t.part.divisor > 1), t.part) := by unfold partIsDivisible; rw [hk]
      rw [hpd] at h
      simp only at h
      by_cases hd : t.part.divisor > 1
      · simp only [hd, decide_true, if_true] at h
        have hlt : t.part.divisor < 2 ^ 24 := by unfold PartInv at hi; rw [hk] at hi; exact hi
        rw [offerSplit_static (ops := ops) (E := E) t hk hlt] at h
        cases hs : ops.psplit t.range (t.part.divisor - t.part.divisor / 2) (t.part.divisor / 2) with
        | none => rw [hs] at h; simp at h
        | some ab =>
          rw [hs] at h
          simp only [Option.map_some] at h
          have := ih _ t' (by simp [emitSpawn, hk]) (by simp only [emitSpawn, PartInv, hk]; omega) h
          obtain ⟨h1, h2, h3, h4⟩ := this
          refine ⟨h1, h2, ?_, ?_⟩
          · rw [h3]
            simp only [emitSpawn, kidsWt, wtS]
            omega
          · rw [h4]; simp [emitSpawn, nBodies]
      · simp only [hd, decide_false, Bool.false_eq_true, if_false, Option.some.injEq] at h
        subst h
        exact ⟨hk, hi, rfl, rfl⟩
    · injection h with h
      subst h
      exact ⟨hk, hi, rfl, rfl⟩

theorem kidsWt_append (a b : List (Ev R)) : kidsWt (a ++ b) = kidsWt a + kidsWt b := by
  induction a with
  | nil => simp [kidsWt]
  | cons e es ih => cases e <;> simp only [List.cons_append, kidsWt, ih] <;> omega

theorem nBodies_append (a b : List (Ev R)) : nBodies (a ++ b) = nBodies a + nBodies b := by
  induction a with
  | nil => simp [nBodies]
  | cons e es ih => cases e <;> simp only [List.cons_append, nBodies, ih] <;> omega

theorem kidsWt_reverse (evs : List (Ev R)) : kidsWt evs.reverse = kidsWt evs ∧ nBodies evs.reverse = nBodies evs := by
  induction evs with
  | nil => exact ⟨rfl, rfl⟩
  | cons e es ih =>
    rw [List.reverse_cons, kidsWt_append, nBodies_append, ih.1, ih.2]
    cases e <;> simp only [kidsWt, nBodies] <;> constructor <;> omega

/-- a static_partitioner task runs exactly one chunk; its children's divisors and its own final one add up to what it had -/
theorem execTask_static_wt (fuel : Nat) (r : R) (p : Part) (s s' : σ) (evs : List (Ev R)) (hk : p.kind = .static) (hi : PartInv p)
    (h : execTask ops E fuel r p s = some (evs, s')) : nBodies evs = 1 ∧ kidsWt evs + 1 ≤ wtS p ∧
      ∀ r' p', Ev.spawn r' p' ∈ evs → p'.kind = .static := by
  unfold execTask at h
  simp only [hk] at h
  cases hs : splitLoop ops E fuel ({ range := r, part := p, env := s } : TS R σ) with
  | none => rw [hs] at h; simp at h
  | some t1 =>
    rw [hs] at h
    obtain ⟨k1, i1, w1, b1⟩ := splitLoop_static_wt (ops := ops) (E := E) fuel _ t1 hk hi hs
    simp only [workBalance, k1] at h
    simp only [Option.map_some, Option.some.injEq, Prod.mk.injEq] at h
    obtain ⟨h1, _⟩ := h
    subst h1
    obtain ⟨r1, r2⟩ := kidsWt_reverse (runBody E t1 t1.range).evs
    refine ⟨?_, ?_, ?_⟩
    · rw [r2]; simp only [runBody, nBodies, b1]
    · rw [r1]
      simp only [runBody, kidsWt]
      have : 1 ≤ wtS t1.part := by unfold wtS; omega
      simp only [kidsWt] at w1
      omega
    · intro r' p' hm
      -- children of a static task are static: by the safety lemma on the partition objects
      have hm' : Ev.spawn r' p' ∈ t1.evs := by
        simp only [List.mem_reverse, runBody, List.mem_cons, reduceCtorEq, false_or] at hm
        exact hm
      -- every spawn of the splitting loop copies the kind (partPSplit)
      have key : ∀ (f : Nat) (t t' : TS R σ), t.part.kind = .static → PartInv t.part → (∀ r' p', Ev.spawn r' p' ∈ t.evs → p'.kind = .static) →
          splitLoop ops E f t = some t' → ∀ r' p', Ev.spawn r' p' ∈ t'.evs → p'.kind = .static := by
        intro f
        induction f with
        | zero => intro t t' _ _ _ h; simp [splitLoop] at h
        | succ f ih =>
          intro t t' hk hi hall h
          unfold splitLoop at h
          split at h
          · have hpd : partIsDivisible t.part = (decide (t.part.divisor > 1), t.part) := by unfold partIsDivisible; rw [hk]
            rw [hpd] at h
            simp only at h
            by_cases hd : t.part.divisor > 1
            · simp only [hd, decide_true, if_true] at h
              have hlt : t.part.divisor < 2 ^ 24 := by unfold PartInv at hi; rw [hk] at hi; exact hi
              rw [offerSplit_static (ops := ops) (E := E) t hk hlt] at h
              cases hs' : ops.psplit t.range (t.part.divisor - t.part.divisor / 2) (t.part.divisor / 2) with
              | none => rw [hs'] at h; simp at h
              | some ab =>
                rw [hs'] at h
                simp only [Option.map_some] at h
                refine ih _ t' (by simp [emitSpawn, hk]) (by simp only [emitSpawn, PartInv, hk]; omega) ?_ h
                intro r'' p'' hm''
                simp only [emitSpawn, List.mem_cons, Ev.spawn.injEq] at hm''
                rcases hm'' with ⟨_, rfl⟩ | hm''
                · exact hk
                · exact hall r'' p'' hm''
            · simp only [hd, decide_false, Bool.false_eq_true, if_false, Option.some.injEq] at h
              subst h; exact hall
          · injection h with h; subst h; exact hall
      exact key fuel _ t1 hk hi (fun _ _ hm0 => by cases hm0) hs r' p' hm'

def workWt : List (R × Part) → Nat
  | [] => 0
  | x :: xs => wtS x.2 + workWt xs

theorem workWt_append (a b : List (R × Part)) : workWt (a ++ b) = workWt a + workWt b := by
  induction a with
  | nil => simp [workWt]
  | cons x xs ih => simp only [List.cons_append, workWt, ih]; omega

theorem kids_wt (evs : List (Ev R)) : workWt (evKids evs) = kidsWt evs := by
  induction evs with
  | nil => rfl
  | cons e es ih => cases e <;> simp only [evKids, List.filterMap_cons, workWt, kidsWt] at ih ⊢ <;> omega

theorem bodies_len (evs : List (Ev R)) : (evBodies evs).length = nBodies evs := by
  induction evs with
  | nil => rfl
  | cons e es ih => cases e <;> simp only [evBodies, List.filterMap_cons, List.length_cons, nBodies] at ih ⊢ <;> omega

theorem runTasks_static_count : ∀ (fuel : Nat) (work : List (R × Part)) (s : σ) (ran dropped ran' dropped' : List R) (s' : σ),
    (∀ x ∈ work, x.2.kind = .static ∧ PartInv x.2) → runTasks ops E fuel work s ran dropped = some (ran', dropped', s') →
    ran'.length ≤ ran.length + workWt work := by
  intro fuel
  induction fuel with
  | zero => intro work s ran dropped ran' dropped' s' _ h; simp [runTasks] at h
  | succ f ih =>
    intro work s ran dropped ran' dropped' s' hw h
    cases work with
    | nil =>
      simp only [runTasks, Option.some.injEq, Prod.mk.injEq] at h
      obtain ⟨h1, _, _⟩ := h
      subst h1; simp [workWt]
    | cons x work =>
      obtain ⟨r, p⟩ := x
      simp only [runTasks] at h
      split at h
      · cases h
      · rename_i evs s1 hex
        obtain ⟨hk, hi⟩ := hw (r, p) List.mem_cons_self
        simp only at hk hi
        obtain ⟨b1, w1, k1⟩ := execTask_static_wt (ops := ops) (E := E) f r p s s1 evs hk hi hex
        obtain ⟨_, kok⟩ := execTask_inv (ops := ops) (E := E) f r p s s1 evs hi hex
        have := ih _ _ _ _ _ _ _ ?_ h
        · rw [workWt_append, kids_wt, List.length_append, bodies_len, b1] at this
          simp only [workWt]
          omega
        · intro y hy
          rcases List.mem_append.1 hy with hy | hy
          · simp only [evKids, List.mem_filterMap] at hy
            obtain ⟨e, he, hee⟩ := hy
            cases e with
            | spawn r' p' =>
              simp only [Option.some.injEq] at hee
              subst hee
              exact ⟨k1 r' p' he, kok.1 r' p' he⟩
            | body _ => cases hee
            | drop _ => cases hee
          · exact hw y (List.mem_cons_of_mem _ hy)

end

end TbbVerif.C05
