/-
C05 — range_vector: the 8-slot ring with `my_head / my_tail / my_size / my_depth[]` exactly as in partitioner.h
refines a plain list (from `back()` to `front()`), which is what the task model works on.

  Inv v items   the ring `v` stores exactly `items`: item `j` (0 = back) sits in slot `(head - j) mod capacity`
  splitOnce / popBack / popFront / splitToFill preserve `Inv` and act on `items` like the list operations
  ring indices never collide: the slot `split_to_fill` writes to is not one of the occupied slots
-/
import TbbVerif.Model.C05
import TbbVerif.Proofs.C05.Task

namespace TbbVerif.C05
namespace RV

variable {R : Type}

theorem cap_eq : (cap : Nat) = Generated.C05.poolCapacity := rfl

/-- slot of item `j` (0 = back) -/
def slot (v : RV R) (j : Nat) : Nat := (v.head + cap - j) % cap

structure Inv (v : RV R) (items : List (R × Nat)) : Prop where
  plen : v.pool.length = cap
  dlen : v.depth.length = cap
  size : v.size = items.length
  le : items.length ≤ cap
  head : v.head < cap
  tail : items ≠ [] → v.tail = (v.head + cap - (items.length - 1)) % cap
  slots : ∀ j x, items[j]? = some x →
    v.pool[v.slot j]? = some (some x.1) ∧ v.depth[v.slot j]? = some x.2

/-- **ring indices never collide**: distinct items sit in distinct slots -/
theorem slot_inj (v : RV R) (hh : v.head < cap) (j j' : Nat) (hj : j < cap) (hj' : j' < cap) (h : v.slot j = v.slot j') :
    j = j' := by
  unfold slot at h
  simp only [cap, Generated.C05.poolCapacity] at h hh hj hj'
  omega

/-- the slot `split_to_fill` writes the new back into is free -/
theorem new_head_free (v : RV R) (hh : v.head < cap) (j : Nat) (n : Nat) (hn : n < cap) (hj : j < n) :
    (v.head + 1) % cap ≠ v.slot j := by
  unfold slot
  simp only [cap, Generated.C05.poolCapacity] at hh hn ⊢
  omega

theorem inv_init (r : R) : Inv (init r) [(r, 0)] := by
  refine ⟨by simp [init], by simp [init], rfl, by simp [cap, Generated.C05.poolCapacity], by simp [init, cap, Generated.C05.poolCapacity], fun _ => by simp [init, cap, Generated.C05.poolCapacity], ?_⟩
  intro j x hx
  cases j with
  | zero =>
    simp only [List.getElem?_cons_zero, Option.some.injEq] at hx
    subst hx
    simp [slot, init, cap, Generated.C05.poolCapacity]
  | succ j => simp at hx

theorem back_eq {v : RV R} {x : R × Nat} {rest : List (R × Nat)} (h : Inv v (x :: rest)) :
    v.back = some x.1 ∧ v.backDepth = x.2 := by
  have := h.slots 0 x (by simp)
  have hs : v.slot 0 = v.head := by
    unfold slot
    have := h.head
    simp only [cap, Generated.C05.poolCapacity] at this ⊢
    omega
  rw [hs] at this
  unfold back backDepth
  rw [this.1, this.2]
  simp

theorem toListAux_eq (v : RV R) (hh : v.head < cap) : ∀ (items : List (R × Nat)) (k : Nat),
    k + items.length ≤ cap →
    (∀ j x, items[j]? = some x → v.pool[v.slot (k + j)]? = some (some x.1) ∧ v.depth[v.slot (k + j)]? = some x.2) →
    toListAux v items.length (v.slot k) = items := by
  intro items
  induction items with
  | nil => intro k _ _; rfl
  | cons x xs ih =>
    intro k hk hs
    have h0 := hs 0 x (by simp)
    simp only [Nat.add_zero] at h0
    simp only [List.length_cons, toListAux, h0.1, h0.2, Option.join_some, Option.getD_some]
    have hnext : (v.slot k + cap - 1) % cap = v.slot (k + 1) := by
      unfold slot
      simp only [List.length_cons] at hk
      simp only [cap, Generated.C05.poolCapacity] at hh hk ⊢
      omega
    rw [hnext, ih (k + 1) (by simp only [List.length_cons] at hk; omega)]
    intro j y hy
    have := hs (j + 1) y (by simpa using hy)
    rw [show k + (j + 1) = k + 1 + j by omega] at this
    exact this

/-- the executable abstraction function returns exactly the stored items -/
theorem toList_eq {v : RV R} {items : List (R × Nat)} (h : Inv v items) : v.toList = items := by
  unfold toList
  rw [h.size]
  have hs : v.slot 0 = v.head := by
    unfold slot
    have := h.head
    simp only [cap, Generated.C05.poolCapacity] at this ⊢
    omega
  rw [← hs]
  apply toListAux_eq v h.head items 0 (by have := h.le; omega)
  intro j x hx
  simpa using h.slots j x hx

/-- one iteration of `split_to_fill`: the back `(r, d)` is replaced by its two halves at depth `d+1`;
the new back is written to a slot that was free -/
theorem inv_splitOnce (ops : RangeOps R) {v : RV R} {r : R} {d : Nat} {rest : List (R × Nat)}
    (h : Inv v ((r, d) :: rest)) (hlt : ((r, d) :: rest).length < cap) :
    Inv (splitOnce ops v) (((ops.split r).1, (d + 1) % depthMod) :: ((ops.split r).2, (d + 1) % depthMod) :: rest) := by
  obtain ⟨hb, hbd⟩ := back_eq h
  simp only at hb hbd
  have hhead := h.head
  have hd0 : v.depth[v.head]?.getD 0 = d := hbd
  unfold splitOnce
  rw [hb]
  simp only [hd0]
  generalize hl' : (ops.split r).1 = l
  generalize hrt' : (ops.split r).2 = rt
  · have hpl := h.plen
    have hdl := h.dlen
    simp only [List.length_cons] at hlt
    refine ⟨by simp [hpl], by simp [hdl], by simp [h.size], by simp only [List.length_cons]; omega, ?_, ?_, ?_⟩
    · show (v.head + 1) % cap < cap
      simp only [cap, Generated.C05.poolCapacity]; omega
    · intro _
      show v.tail = ((v.head + 1) % cap + cap - ((l, (d + 1) % depthMod) :: (rt, (d + 1) % depthMod) :: rest).length.pred) % cap
      have ht := h.tail (by simp)
      simp only [List.length_cons, Nat.pred_succ] at ht ⊢
      rw [ht]; simp only [cap, Generated.C05.poolCapacity]
      simp only [cap, Generated.C05.poolCapacity] at hhead hlt
      simp only [Nat.add_sub_cancel]
      omega
    · intro j x hx
      unfold slot
      simp only
      have hne : (v.head + 1) % cap ≠ v.head := by simp only [cap, Generated.C05.poolCapacity]; simp only [cap, Generated.C05.poolCapacity] at hhead; omega
      cases j with
      | zero =>
        simp only [List.getElem?_cons_zero, Option.some.injEq] at hx
        subst hx
        have e : ((v.head + 1) % cap + cap - 0) % cap = (v.head + 1) % cap := by simp only [cap, Generated.C05.poolCapacity]; omega
        rw [e]
        have hlt1 : (v.head + 1) % cap < cap := by simp only [cap, Generated.C05.poolCapacity]; omega
        constructor
        · rw [List.getElem?_set_ne hne.symm, List.getElem?_set_self (by rw [hpl]; exact hlt1)]
        · rw [List.getElem?_set_self (by simp [hdl]; exact hlt1)]
      | succ j =>
        cases j with
        | zero =>
          simp only [List.getElem?_cons_succ, List.getElem?_cons_zero, Option.some.injEq] at hx
          subst hx
          have e : ((v.head + 1) % cap + cap - (0 + 1)) % cap = v.head := by simp only [cap, Generated.C05.poolCapacity]; simp only [cap, Generated.C05.poolCapacity] at hhead; omega
          rw [e]
          constructor
          · rw [List.getElem?_set_self (by simp [hpl]; exact hhead)]
          · rw [List.getElem?_set_ne hne, List.getElem?_set_self (by rw [hdl]; exact hhead)]
        | succ j =>
          simp only [List.getElem?_cons_succ] at hx
          have hjl : j < rest.length := by
            apply Decidable.by_contra
            intro hn
            rw [List.getElem?_eq_none (by omega)] at hx
            cases hx
          have hold := h.slots (j + 1) x (by simpa using hx)
          have e : ((v.head + 1) % cap + cap - (j + 1 + 1)) % cap = v.slot (j + 1) := by
            unfold slot; simp only [cap, Generated.C05.poolCapacity]; simp only [cap, Generated.C05.poolCapacity] at hhead hlt; omega
          rw [e]
          have n1 : (v.head + 1) % cap ≠ v.slot (j + 1) := new_head_free v hhead (j + 1) (rest.length + 1) hlt (by omega)
          have n2 : v.head ≠ v.slot (j + 1) := by
            unfold slot; simp only [cap, Generated.C05.poolCapacity]; simp only [cap, Generated.C05.poolCapacity] at hhead hlt; omega
          constructor
          · rw [List.getElem?_set_ne n2, List.getElem?_set_ne n1]; exact hold.1
          · rw [List.getElem?_set_ne n1, List.getElem?_set_ne n2]; exact hold.2

/-- `pop_back()` -/
theorem inv_popBack {v : RV R} {x : R × Nat} {rest : List (R × Nat)} (h : Inv v (x :: rest)) : Inv v.popBack rest := by
  have hhead := h.head
  have hle := h.le
  simp only [List.length_cons] at hle
  unfold popBack
  refine ⟨by simp [h.plen], h.dlen, by simp [h.size], by omega, ?_, ?_, ?_⟩
  · show (v.head + cap - 1) % cap < cap
    simp only [cap, Generated.C05.poolCapacity]; omega
  · intro hne
    show v.tail = ((v.head + cap - 1) % cap + cap - (rest.length - 1)) % cap
    have ht := h.tail (by simp)
    simp only [List.length_cons, Nat.add_sub_cancel] at ht
    have : 1 ≤ rest.length := by cases rest with | nil => exact absurd rfl hne | cons _ _ => simp
    rw [ht]; simp only [cap, Generated.C05.poolCapacity]; simp only [cap, Generated.C05.poolCapacity] at hhead hle
    omega
  · intro j y hy
    have hjl : j < rest.length := by
      apply Decidable.by_contra
      intro hn
      rw [List.getElem?_eq_none (by omega)] at hy
      cases hy
    have hold := h.slots (j + 1) y (by simpa using hy)
    have e : (({ v with pool := v.pool.set v.head none, size := v.size - 1, head := (v.head + cap - 1) % cap } : RV R).slot j) =
        v.slot (j + 1) := by
      unfold slot; simp only; simp only [cap, Generated.C05.poolCapacity]; simp only [cap, Generated.C05.poolCapacity] at hhead hle; omega
    rw [e]
    have n : v.head ≠ v.slot (j + 1) := by
      unfold slot; simp only [cap, Generated.C05.poolCapacity]; simp only [cap, Generated.C05.poolCapacity] at hhead hle; omega
    exact ⟨by simp only; rw [List.getElem?_set_ne n]; exact hold.1, hold.2⟩

/-- `pop_front()` -/
theorem inv_popFront {v : RV R} {x : R × Nat} {items : List (R × Nat)} (h : Inv v (items ++ [x])) : Inv v.popFront items := by
  have hhead := h.head
  have hle := h.le
  simp only [List.length_append, List.length_cons, List.length_nil] at hle
  have ht := h.tail (by simp)
  simp only [List.length_append, List.length_cons, List.length_nil, Nat.add_sub_cancel] at ht
  unfold popFront
  refine ⟨by simp [h.plen], h.dlen, by simp [h.size], by omega, hhead, ?_, ?_⟩
  · intro hne
    show (v.tail + 1) % cap = (v.head + cap - (items.length - 1)) % cap
    have : 1 ≤ items.length := by cases items with | nil => exact absurd rfl hne | cons _ _ => simp
    rw [ht]; simp only [cap, Generated.C05.poolCapacity]; simp only [cap, Generated.C05.poolCapacity] at hhead hle
    omega
  · intro j y hy
    have hjl : j < items.length := by
      apply Decidable.by_contra
      intro hn
      rw [List.getElem?_eq_none (by omega)] at hy
      cases hy
    have hold := h.slots j y (by rw [List.getElem?_append_left hjl]; exact hy)
    have e : (({ v with pool := v.pool.set v.tail none, size := v.size - 1, tail := (v.tail + 1) % cap } : RV R).slot j) = v.slot j := rfl
    rw [e]
    have n : v.tail ≠ v.slot j := by
      rw [ht]; unfold slot; simp only [cap, Generated.C05.poolCapacity]; simp only [cap, Generated.C05.poolCapacity] at hhead hle; omega
    exact ⟨by simp only; rw [List.getElem?_set_ne n]; exact hold.1, hold.2⟩

/-- `split_to_fill(max_depth)` on the ring = `fillPool` on the list -/
theorem inv_splitToFill (ops : RangeOps R) (md : Nat) : ∀ (f : Nat) (v : RV R) (items : List (R × Nat)),
    Inv v items → items ≠ [] → Inv (splitToFill ops md f v) (fillPool ops md f items) := by
  intro f
  induction f with
  | zero => intro v items h _; simpa [splitToFill, fillPool] using h
  | succ f ih =>
    intro v items h hne
    cases items with
    | nil => exact absurd rfl hne
    | cons x rest =>
      obtain ⟨r, d⟩ := x
      obtain ⟨hb, hbd⟩ := back_eq h
      simp only at hb hbd
      unfold splitToFill
      simp only [fillPool]
      have hcond : (v.size < cap ∧ v.isDivisible ops md = true) ↔
          (((r, d) :: rest).length < Generated.C05.poolCapacity ∧ d < md ∧ ops.divisible r = true) := by
        unfold isDivisible
        rw [hb, hbd, h.size]
        simp [cap_eq]
      by_cases hcnd : v.size < cap ∧ v.isDivisible ops md = true
      · rw [if_pos hcnd, if_pos (hcond.1 hcnd)]
        have hlt : ((r, d) :: rest).length < cap := by rw [← h.size]; exact hcnd.1
        exact ih _ _ (inv_splitOnce ops h hlt) (by simp)
      · rw [if_neg hcnd, if_neg (fun hh => hcnd (hcond.2 hh))]
        exact h

theorem front_eq {v : RV R} {x : R × Nat} {items : List (R × Nat)} (h : Inv v (items ++ [x])) : v.front = some x.1 := by
  have := h.slots items.length x (by simp)
  have ht := h.tail (by simp)
  simp only [List.length_append, List.length_cons, List.length_nil, Nat.add_sub_cancel] at ht
  have hs : v.slot items.length = v.tail := by rw [ht]; rfl
  rw [hs] at this
  unfold front
  rw [this.1]
  rfl

/-- the operations `work_balance` performs on its range pool (each requires a non-empty pool, as the code asserts) -/
inductive Op where
  | fill (maxDepth : Nat)
  | popBack
  | popFront

/-- ring + the ranges that left the pool (run by the body or offered to a thief) -/
def step (ops : RangeOps R) (st : RV R × List R) : Op → RV R × List R
  | .fill md => if st.1.size = 0 then st else (splitToFill ops md cap st.1, st.2)
  | .popBack => match st.1.size, st.1.back with
    | 0, _ => st
    | _ + 1, some r => (st.1.popBack, r :: st.2)
    | _ + 1, none => st
  | .popFront => match st.1.size, st.1.front with
    | 0, _ => st
    | _ + 1, some r => (st.1.popFront, r :: st.2)
    | _ + 1, none => st

theorem step_inv (ops : RangeOps R) (r0 : R) (st : RV R × List R) (o : Op)
    (h : ∃ items, Inv st.1 items ∧ Leaves ops r0 (items.map Prod.fst ++ st.2)) :
    ∃ items, Inv (step ops st o).1 items ∧ Leaves ops r0 (items.map Prod.fst ++ (step ops st o).2) := by
  obtain ⟨items, hi, hl⟩ := h
  cases o with
  | fill md =>
    unfold step
    simp only
    split
    · exact ⟨items, hi, hl⟩
    · rename_i hs
      have hne : items ≠ [] := by
        intro he; subst he; exact hs (by simpa using hi.size)
      exact ⟨_, inv_splitToFill ops md cap st.1 items hi hne, fillPool_leaves md st.2 cap items hl⟩
  | popBack =>
    unfold step
    simp only
    cases items with
    | nil =>
      have : st.1.size = 0 := by simpa using hi.size
      rw [this]
      exact ⟨[], hi, hl⟩
    | cons x rest =>
      have hsz : st.1.size = rest.length + 1 := by simpa using hi.size
      have hb := (back_eq hi).1
      rw [hsz, hb]
      refine ⟨rest, inv_popBack hi, ?_⟩
      simp only [List.map_cons, List.cons_append] at hl
      exact hl.perm (List.perm_middle (a := x.1) (l₁ := rest.map Prod.fst) (l₂ := st.2)).symm
  | popFront =>
    unfold step
    simp only
    rcases List.eq_nil_or_concat items with he | ⟨init, x, he⟩
    · subst he
      have : st.1.size = 0 := by simpa using hi.size
      rw [this]
      exact ⟨[], hi, hl⟩
    · subst he
      have hi' : Inv st.1 (init ++ [x]) := by simpa using hi
      have hsz : st.1.size = init.length + 1 := by simpa using hi'.size
      have hf := front_eq hi'
      rw [hsz, hf]
      refine ⟨init, inv_popFront hi', ?_⟩
      have hl' : Leaves ops r0 ((init.map Prod.fst ++ [x.1]) ++ st.2) := by simpa using hl
      refine hl'.perm ?_
      rw [List.append_assoc]
      simpa using (List.perm_middle (a := x.1) (l₁ := init.map Prod.fst) (l₂ := st.2))

end RV
end TbbVerif.C05
