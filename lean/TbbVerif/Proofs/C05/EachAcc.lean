/-
C05 — parallel_for_each / parallel_invoke task system: reference accounting.

Invariant `Inv1`: for every counter, value = references held by pending tasks + references the running activations
still have to give back (for the root: + one per non-zero forwarding counter); every suffix of every activation's
remaining operations is reference-non-negative; no counter was ever released below zero.
-/
import TbbVerif.Proofs.C05.EachBase

namespace TbbVerif.C05.Each

/-! ### static facts about the operation lists the code produces -/

section static
variable (cat : Cat) (c : Ctr)

theorem sn_pair (c' : Ctr) (t : Task) (rest : List Op) (ht : holds c t = if c = c' then 1 else 0)
    (hs : SN cat c rest) : SN cat c (.reserve c' 1 :: .spawn t :: rest) ∧ W cat c (.reserve c' 1 :: .spawn t :: rest) = W cat c rest := by
  have h0 := hs.nonneg
  have hw : W cat c (.reserve c' 1 :: .spawn t :: rest) = W cat c rest := by
    simp only [W_cons, w, ht]; split <;> simp <;> omega
  refine ⟨⟨by rw [hw]; exact h0, ⟨?_, hs⟩⟩, hw⟩
  simp only [W_cons, w, ht]; split <;> omega

theorem feedOps_w (tid : Nat) : ∀ ys : List Nat, SN cat c (feedOps tid ys) ∧ W cat c (feedOps tid ys) = 0
  | [] => ⟨trivial, rfl⟩
  | y :: ys => by
    obtain ⟨h1, h2⟩ := feedOps_w tid ys
    have e : feedOps tid (y :: ys) = .reserve (.kid tid) 1 :: .spawn (.feed y tid) :: feedOps tid ys := by
      simp [feedOps, List.flatMap_cons]
    rw [e]
    obtain ⟨a, b⟩ := sn_pair cat c (.kid tid) (.feed y tid) _ (by simp [holds]) h1
    exact ⟨a, by rw [b, h2]⟩

theorem blockSpawns_w (b k0 : Nat) : ∀ (j : Nat) (xs : List Nat),
    SN cat c (blockSpawns cat b k0 j xs) ∧ W cat c (blockSpawns cat b k0 j xs) = 0
  | _, [] => ⟨trivial, rfl⟩
  | j, x :: xs => by
    obtain ⟨h1, h2⟩ := blockSpawns_w b k0 (j + 1) xs
    simp only [blockSpawns]
    obtain ⟨a, e⟩ := sn_pair cat c (.blk b) (.iter b x (srcOf cat b k0 j)) _ (by simp [holds]) h1
    exact ⟨a, by rw [e, h2]⟩

theorem pforOps_w (cfg : Cfg) (b : Nat) : ∀ cs : List (Nat × Nat), SN cat c (pforOps cfg b cs) ∧ W cat c (pforOps cfg b cs) = 0
  | [] => ⟨trivial, rfl⟩
  | (lo, hi) :: cs => by
    obtain ⟨h1, h2⟩ := pforOps_w cfg b cs
    simp only [pforOps]
    obtain ⟨a, e⟩ := sn_pair cat c (.blk b) (.chunk b lo (cfg.inp.extract lo hi)) _ (by simp [holds]) h1
    exact ⟨a, by rw [e, h2]⟩

theorem destroys_w (b : Nat) : ∀ (j : Nat) (xs : List Nat), SN cat c (destroys b j xs) ∧ W cat c (destroys b j xs) = 0
  | _, [] => ⟨trivial, rfl⟩
  | j, x :: xs => by
    obtain ⟨h1, h2⟩ := destroys_w b (j + 1) xs
    simp only [destroys]
    refine ⟨⟨?_, h1⟩, ?_⟩ <;> simp only [W_cons, w, h2] <;> omega

theorem blockTail_w (b : Nat) (x : Nat) (src : Src) (post : List Op) (hp : SN cat c post) (hp0 : W cat c post = 0) :
    SN cat c ([.reserve (.blk b) 1, .body x src, .release (.blk b), .await (.blk b), .release .root] ++ post) ∧
    W cat c ([.reserve (.blk b) 1, .body x src, .release (.blk b), .await (.blk b), .release .root] ++ post) = if c = .root then 1 else 0 := by
  simp only [List.cons_append, List.nil_append, SN, W_cons, w, hp0]
  refine ⟨⟨?_, ?_, ?_, ?_, ?_, hp⟩, ?_⟩ <;> (cases c <;> simp <;> try (split <;> omega))

theorem blockCode_w (b k0 : Nat) (items : List Nat) :
    SN cat c (blockCode cat b k0 items) ∧ W cat c (blockCode cat b k0 items) = if c = .root then 1 else 0 := by
  cases items with
  | nil =>
    simp only [blockCode, SN, W_cons, W_nil, w]
    refine ⟨⟨?_, trivial⟩, ?_⟩ <;> split <;> omega
  | cons x xs =>
    simp only [blockCode]
    obtain ⟨s1, w1⟩ := blockSpawns_w cat c b k0 1 xs
    have hpost : SN cat c (if cat = .input then destroys b 0 (x :: xs) else []) ∧ W cat c (if cat = .input then destroys b 0 (x :: xs) else []) = 0 := by
      split
      · exact destroys_w cat c b 0 (x :: xs)
      · exact ⟨trivial, rfl⟩
    obtain ⟨s2, w2⟩ := blockTail_w cat c b x (srcOf cat b k0 0) _ hpost.1 hpost.2
    rw [List.append_assoc]
    refine ⟨SN.append s1 s2, ?_⟩
    rw [W_append, w1, w2]; omega

theorem bodies_w (lo : Nat) (xs : List (Nat × Nat)) :
    SN cat c (xs.map (fun p => Op.body p.1 (.pos (lo + p.2)))) ∧ W cat c (xs.map (fun p => Op.body p.1 (.pos (lo + p.2)))) = 0 := by
  apply SN_of_weightless
  intro o ho
  simp only [List.mem_map] at ho
  obtain ⟨p, _, rfl⟩ := ho
  rfl

theorem code_w (t : Task) : SN cat c (code t) ∧ W cat c (code t) = holds c t := by
  cases t with
  | root => simp only [code, SN, W_cons, W_nil, w, holds]; refine ⟨⟨?_, trivial⟩, ?_⟩ <;> split <;> omega
  | iter b x src =>
    simp only [code, SN, W_cons, W_nil, w, holds]
    refine ⟨⟨?_, ?_, trivial⟩, ?_⟩ <;> split <;> omega
  | feed x v =>
    simp only [code, SN, W_cons, W_nil, w, holds]
    refine ⟨⟨?_, ?_, trivial⟩, ?_⟩ <;> split <;> omega
  | chunk b lo xs =>
    simp only [code]
    obtain ⟨h1, h2⟩ := bodies_w cat c lo xs.zipIdx
    have h3 : SN cat c [Op.release (.blk b)] ∧ W cat c [Op.release (.blk b)] = holds c (.chunk b lo xs) := by
      simp only [SN, W_cons, W_nil, w, holds]
      refine ⟨⟨?_, trivial⟩, ?_⟩ <;> split <;> omega
    refine ⟨SN.append h1 h3.1, ?_⟩
    rw [W_append, h2, h3.2]; omega
  | subroot f1 f2 f3 => simp only [code, SN, W_cons, W_nil, w, holds]; refine ⟨⟨?_, trivial⟩, ?_⟩ <;> split <;> omega
  | inv f c' =>
    simp only [code, SN, W_cons, W_nil, w, holds]
    refine ⟨⟨?_, ?_, ?_, trivial⟩, ?_⟩ <;> split <;> omega

end static

/-! ### the counters -/

/-- value of a counter; for the root, minus the references held on behalf of non-zero forwarding counters -/
def lhs (s : St) (c : Ctr) : Int := (s.val c : Int) - (if c = .root then nz s.kid else 0)

theorem lhs_reserve (s : St) (c' : Ctr) (n : Nat) (c : Ctr) :
    lhs (s.reserve c' n) c = lhs s c + (if c = c' then (n : Int) else 0) := by
  cases c' with
  | root => cases c <;> simp [lhs, St.reserve, St.val] <;> omega
  | blk b =>
    cases c with
    | root => simp [lhs, St.reserve, St.val]
    | kid i => simp [lhs, St.reserve, St.val]
    | blk b' =>
      simp only [lhs, St.reserve, St.val, getD_setPad, reduceCtorEq, if_false, Ctr.blk.injEq]
      split
      · rename_i h; subst h; simp
      · simp
  | kid i =>
    simp only [St.reserve]
    split
    · rename_i h
      cases c with
      | root =>
        simp only [lhs, St.val, if_true, nz_setPad, h.1, reduceCtorEq, if_false]
        have : ind (0 + n) = 1 := by unfold ind; split <;> omega
        have h0 : ind 0 = 0 := rfl
        rw [this, h0]; push_cast; omega
      | blk b => simp [lhs, St.val]
      | kid j =>
        simp only [lhs, St.val, getD_setPad, reduceCtorEq, if_false, Ctr.kid.injEq]
        split
        · rename_i e; subst e; push_cast; omega
        · simp
    · rename_i h
      cases c with
      | root =>
        simp only [lhs, St.val, if_true, nz_setPad, reduceCtorEq, if_false]
        have : ind (s.kid.getD i 0 + n) = ind (s.kid.getD i 0) := by unfold ind; split <;> (try split) <;> omega
        rw [this]; omega
      | blk b => simp [lhs, St.val]
      | kid j =>
        simp only [lhs, St.val, getD_setPad, reduceCtorEq, if_false, Ctr.kid.injEq]
        split
        · rename_i e; subst e; push_cast; omega
        · simp

theorem reserve_frame (s : St) (c' : Ctr) (n : Nat) :
    (s.reserve c' n).pool = s.pool ∧ (s.reserve c' n).acts = s.acts ∧ (s.reserve c' n).bad = s.bad ∧
    (s.reserve c' n).log = s.log ∧ (s.reserve c' n).iter = s.iter := by
  cases c' with
  | root => simp [St.reserve]
  | blk b => simp [St.reserve]
  | kid i => simp only [St.reserve]; split <;> simp

theorem release_frame (s : St) (c' : Ctr) :
    (s.release c').pool = s.pool ∧ (s.release c').acts = s.acts ∧ (s.release c').log = s.log ∧ (s.release c').iter = s.iter := by
  cases c' with
  | root => simp only [St.release]; split <;> simp
  | blk b => simp only [St.release]; split <;> simp
  | kid i => simp only [St.release]; split <;> (try split) <;> (try split) <;> simp

/-- releasing a counter that is positive (and, for a forwarding counter that reaches zero, whose parent is positive) -/
theorem lhs_release (s : St) (c' : Ctr) (hpos : 0 < s.val c') (hroot : nz s.kid ≤ (s.val .root : Int)) :
    (s.release c').bad = s.bad ∧ ∀ c, lhs (s.release c') c = lhs s c - (if c = c' then 1 else 0) := by
  cases c' with
  | root =>
    have h : s.root ≠ 0 := by simp only [St.val] at hpos; omega
    simp only [St.release, h, if_false, true_and]
    intro c
    cases c <;> simp [lhs, St.val]
    omega
  | blk b =>
    have h : s.blk.getD b 0 ≠ 0 := by simp only [St.val] at hpos; omega
    simp only [St.release, h, if_false, true_and]
    intro c
    cases c with
    | root => simp [lhs, St.val]
    | kid i => simp [lhs, St.val]
    | blk b' =>
      simp only [lhs, St.val, getD_setPad, reduceCtorEq, if_false, Ctr.blk.injEq]
      split
      · rename_i e; subst e; omega
      · simp
  | kid i =>
    have h : s.kid.getD i 0 ≠ 0 := by simp only [St.val] at hpos; omega
    simp only [St.release, h, if_false]
    by_cases h1 : s.kid.getD i 0 = 1
    · have hind : ind (s.kid.getD i 0) = 1 := by rw [h1]; rfl
      have hr : s.root ≠ 0 := by
        simp only [St.val] at hroot
        have h2 : ind (s.kid.getD i 0) ≤ nz s.kid := by
          have := nz_setPad s.kid i 0
          have h3 := nz_nonneg (setPad s.kid i 0)
          have h4 : ind 0 = 0 := rfl
          omega
        omega
      simp only [h1, if_true, hr, if_false, true_and]
      intro c
      cases c with
      | root =>
        simp only [lhs, St.val, if_true, nz_setPad, hind, reduceCtorEq, if_false]
        have h4 : ind (1 - 1) = 0 := rfl
        rw [h4]; omega
      | blk b => simp [lhs, St.val]
      | kid j =>
        simp only [lhs, St.val, getD_setPad, reduceCtorEq, if_false, Ctr.kid.injEq]
        split
        · rename_i e; subst e; rw [h1]; simp
        · simp
    · simp only [h1, if_false, true_and]
      intro c
      cases c with
      | root =>
        simp only [lhs, St.val, if_true, nz_setPad, reduceCtorEq, if_false]
        have : ind (s.kid.getD i 0 - 1) = ind (s.kid.getD i 0) := by unfold ind; split <;> (try split) <;> omega
        rw [this]; omega
      | blk b => simp [lhs, St.val]
      | kid j =>
        simp only [lhs, St.val, getD_setPad, reduceCtorEq, if_false, Ctr.kid.injEq]
        split
        · rename_i e; subst e; omega
        · simp

/-! ### the invariant -/

structure Inv1 (cat : Cat) (s : St) : Prop where
  acc : ∀ c, lhs s c = tokP c s.pool + tokA cat c s.acts
  sn : ∀ a ∈ s.acts, ∀ c, SN cat c a.ops
  ok : s.bad = false

theorem tokA_nonneg {cat : Cat} {s : St} (h : Inv1 cat s) (c : Ctr) : 0 ≤ tokA cat c s.acts :=
  sum_map_nonneg _ _ (fun a ha => (h.sn a ha c).nonneg)

theorem tokP_nonneg (c : Ctr) (pool : List Task) : 0 ≤ tokP c pool :=
  sum_map_nonneg _ _ (fun t _ => holds_nonneg c t)

theorem Inv1.root_ge {cat : Cat} {s : St} (h : Inv1 cat s) : nz s.kid ≤ (s.val .root : Int) := by
  have := h.acc .root
  have h1 := tokA_nonneg h .root
  have h2 := tokP_nonneg .root s.pool
  simp only [lhs, if_true] at this; omega

/-- an activation whose next operation is `release c` holds a reference: the counter is positive -/
theorem Inv1.pos_of_release {cat : Cat} {s : St} (h : Inv1 cat s) {i : Nat} {a : Actv} {c : Ctr} {rest : List Op}
    (hi : s.acts[i]? = some a) (ho : a.ops = .release c :: rest) : 0 < s.val c := by
  have hm : a ∈ s.acts := List.mem_of_getElem? hi
  have hsn := h.sn a hm c
  rw [ho] at hsn
  have h1 : 1 ≤ W cat c a.ops := by
    rw [ho, W_cons]; have := hsn.2.nonneg; simp only [w, if_true]; omega
  have h2 : W cat c a.ops ≤ tokA cat c s.acts :=
    le_sum_map_of_mem (fun a => W cat c a.ops) s.acts (fun x hx => (h.sn x hx c).nonneg) a hm
  have h3 := h.acc c
  have h4 := tokP_nonneg c s.pool
  have h5 := nz_nonneg s.kid
  simp only [lhs] at h3
  split at h3 <;> omega

theorem tokA_set (cat : Cat) (c : Ctr) (acts : List Actv) (i : Nat) (a : Actv) (ops : List Op) (hi : acts[i]? = some a) :
    tokA cat c (acts.set i { a with ops := ops }) = tokA cat c acts - W cat c a.ops + W cat c ops :=
  sum_map_set (fun (a : Actv) => W cat c a.ops) acts i a { a with ops := ops } hi

theorem sn_set {cat : Cat} {s : St} (h : Inv1 cat s) (i : Nat) (a : Actv) (ops : List Op) (hops : ∀ c, SN cat c ops) :
    ∀ a' ∈ s.acts.set i { a with ops := ops }, ∀ c, SN cat c a'.ops := by
  intro a' ha' c
  rcases List.mem_or_eq_of_mem_set ha' with h1 | h1
  · exact h.sn a' h1 c
  · subst h1; exact hops c

/-- generic step: activation `i` replaces `op :: rest` by `e ++ rest`, the counters move by `d` -/
theorem inv1_step {cat : Cat} {s s' : St} (h : Inv1 cat s) (i : Nat) (a : Actv) (op : Op) (rest e : List Op) (newp : List Task)
    (hi : s.acts[i]? = some a) (ho : a.ops = op :: rest)
    (hpool : s'.pool = s.pool ++ newp) (hacts : s'.acts = s.acts.set i { a with ops := e ++ rest }) (hbad : s'.bad = s.bad)
    (hsn : ∀ c, SN cat c e)
    (hlhs : ∀ c, lhs s' c = lhs s c - w cat c op + W cat c e + tokP c newp) : Inv1 cat s' := by
  have hm : a ∈ s.acts := List.mem_of_getElem? hi
  refine ⟨fun c => ?_, ?_, by rw [hbad]; exact h.ok⟩
  · rw [hlhs c, hpool, hacts, tokA_set cat c s.acts i a _ hi, h.acc c, ho]
    simp only [tokP, List.map_append, List.sum_append, W_cons, W_append]; omega
  · rw [hacts]
    refine sn_set h i a _ (fun c => SN.append (hsn c) ?_)
    have := h.sn a hm c
    rw [ho] at this
    exact this.2

theorem val_blk_alloc (s : St) (c : Ctr) : ({ s with blk := s.blk ++ [0] } : St).val c = s.val c := by
  cases c with
  | root => rfl
  | kid i => rfl
  | blk b =>
    simp only [St.val, getD_append_one]
    split
    · rename_i e; subst e; rw [getD_ge _ _ (Nat.le_refl _)]
    · rfl

theorem inv1_exec (cfg : Cfg) {s : St} (h : Inv1 cfg.cat s) (ch : Choice) : Inv1 cfg.cat (exec cfg s ch) := by
  cases ch with
  | start j tid =>
    simp only [exec]
    split
    · rename_i t ht
      refine ⟨fun c => ?_, ?_, h.ok⟩
      · have e1 : lhs ({ s with pool := s.pool.eraseIdx j, acts := s.acts ++ [{ tid := tid, ops := code t }] } : St) c = lhs s c := rfl
        rw [e1, h.acc c]
        simp only [tokP, tokA]
        rw [sum_map_eraseIdx (holds c) s.pool j t ht, sum_map_append_one, (code_w cfg.cat c t).2]; omega
      · intro a ha c
        rcases List.mem_append.1 ha with h1 | h1
        · exact h.sn a h1 c
        · simp only [List.mem_singleton] at h1; subst h1; exact (code_w cfg.cat c t).1
    · exact h
  | step i =>
    simp only [exec]
    split
    · rename_i a hi
      split
      · rename_i op rest ho
        cases op with
        | reserve c' n =>
          obtain ⟨f1, f2, f3, _, _⟩ := reserve_frame s c' n
          refine inv1_step h i a _ rest [] [] hi ho (by simp [stepOp, setOps, f1]) (by simp [stepOp, setOps, f2]) (by simp [stepOp, setOps, f3])
            (fun _ => trivial) (fun c => ?_)
          have : lhs (stepOp cfg s i a (.reserve c' n) rest) c = lhs (s.reserve c' n) c := rfl
          rw [this, lhs_reserve]; simp only [w, W_nil, tokP, List.map_nil, List.sum_nil]; split <;> omega
        | release c' =>
          obtain ⟨f1, f2, _, _⟩ := release_frame s c'
          obtain ⟨g1, g2⟩ := lhs_release s c' (h.pos_of_release hi ho) h.root_ge
          refine inv1_step h i a _ rest [] [] hi ho (by simp [stepOp, setOps, f1]) (by simp [stepOp, setOps, f2]) (by simp [stepOp, setOps, g1])
            (fun _ => trivial) (fun c => ?_)
          have : lhs (stepOp cfg s i a (.release c') rest) c = lhs (s.release c') c := rfl
          rw [this, g2]; simp only [w, W_nil, tokP, List.map_nil, List.sum_nil]; split <;> omega
        | spawn t =>
          refine inv1_step h i a _ rest [] [t] hi ho rfl (by simp [stepOp, setOps]) rfl (fun _ => trivial) (fun c => ?_)
          have : lhs (stepOp cfg s i a (.spawn t) rest) c = lhs s c := rfl
          rw [this]; simp only [w, W_nil, tokP, List.map_cons, List.map_nil, List.sum_cons, List.sum_nil]; omega
        | await c' =>
          simp only [stepOp]
          split
          · refine inv1_step h i a _ rest [] [] hi ho (by simp [setOps]) (by simp [setOps]) rfl (fun _ => trivial) (fun c => ?_)
            have : lhs (setOps { s with log := .pass c' :: s.log } i a rest) c = lhs s c := rfl
            rw [this]; simp [w, tokP]
          · exact h
        | act x =>
          refine inv1_step h i a _ rest [] [] hi ho (by simp [stepOp, setOps]) (by simp [stepOp, setOps]) rfl (fun _ => trivial) (fun c => ?_)
          have : lhs (stepOp cfg s i a (.act x) rest) c = lhs s c := rfl
          rw [this]; simp [w, tokP]
        | body x src =>
          refine inv1_step h i a _ rest (feedOps a.tid (cfg.feeds x) ++ [.act (.bodyE x src)]) [] hi ho (by simp [stepOp, setOps])
            (by simp [stepOp, setOps]) rfl
            (fun c => SN.append (feedOps_w cfg.cat c a.tid _).1 ⟨by simp [w], trivial⟩) (fun c => ?_)
          have : lhs (stepOp cfg s i a (.body x src) rest) c = lhs s c := rfl
          rw [this, W_append, (feedOps_w cfg.cat c a.tid _).2]; simp [w, tokP]
        | rootExec =>
          simp only [stepOp]
          split
          · -- random access: nested parallel_for
            rename_i hcat
            refine inv1_step h i a _ rest (pforOps cfg s.blk.length cfg.chunks ++ [.await (.blk s.blk.length), .release .root]) [] hi ho
              (by simp [setOps]) (by simp [setOps]) rfl (fun c => ?_) (fun c => ?_)
            · refine SN.append (pforOps_w cfg.cat c cfg _ _).1 ?_
              simp only [SN, W_cons, W_nil, w]; refine ⟨?_, ?_, trivial⟩ <;> split <;> omega
            · have : lhs (setOps { s with blk := s.blk ++ [0], log := .pfor s.blk.length :: s.log } i a
                  (pforOps cfg s.blk.length cfg.chunks ++ .await (.blk s.blk.length) :: .release .root :: rest)) c = lhs s c := by
                simp only [lhs, setOps]; rw [show ({ s with blk := s.blk ++ [0], log := Act.pfor s.blk.length :: s.log, acts := _ } : St).val c = s.val c from val_blk_alloc s c]
              rw [this, W_append, (pforOps_w cfg.cat c cfg _ _).2]; simp only [w, W_cons, W_nil, tokP, List.map_nil, List.sum_nil]; split <;> omega
          · -- input
            rename_i hcat
            split
            · refine inv1_step h i a _ rest [.reserve .root 1, .rootLoop s.blk.length s.iter []] [] hi ho
                (by simp [setOps]) (by simp [setOps]) rfl (fun c => ?_) (fun c => ?_)
              · simp only [SN, W_cons, W_nil, w, hcat]; refine ⟨?_, ?_, trivial⟩ <;> split <;> simp
              · have : lhs (setOps { s with blk := s.blk ++ [0], log := .cmp s.iter :: s.log } i a
                    (.reserve .root 1 :: .rootLoop s.blk.length s.iter [] :: rest)) c = lhs s c := by
                  simp only [lhs, setOps]; rw [show ({ s with blk := s.blk ++ [0], log := Act.cmp s.iter :: s.log, acts := _ } : St).val c = s.val c from val_blk_alloc s c]
                rw [this]; simp only [w, W_cons, W_nil, tokP, List.map_nil, List.sum_nil, hcat]; split <;> simp
            · refine inv1_step h i a _ rest [.release .root] [] hi ho (by simp [setOps]) (by simp [setOps]) rfl (fun c => ?_) (fun c => ?_)
              · simp only [SN, W_cons, W_nil, w]; refine ⟨?_, trivial⟩; split <;> omega
              · have : lhs (setOps { s with log := .cmp s.iter :: s.log } i a (.release .root :: rest)) c = lhs s c := rfl
                rw [this]; simp only [w, W_cons, W_nil, tokP, List.map_nil, List.sum_nil]; split <;> omega
          · -- forward
            rename_i hcat
            split
            · refine inv1_step h i a _ rest [.rootLoop s.blk.length s.iter []] [] hi ho
                (by simp [setOps]) (by simp [setOps]) rfl (fun c => ?_) (fun c => ?_)
              · simp only [SN, W_cons, W_nil, w, hcat]; refine ⟨?_, trivial⟩; split <;> simp
              · have : lhs (setOps { s with blk := s.blk ++ [0], log := .cmp s.iter :: s.log } i a
                    (.rootLoop s.blk.length s.iter [] :: rest)) c = lhs s c := by
                  simp only [lhs, setOps]; rw [show ({ s with blk := s.blk ++ [0], log := Act.cmp s.iter :: s.log, acts := _ } : St).val c = s.val c from val_blk_alloc s c]
                rw [this]; simp only [w, W_cons, W_nil, tokP, List.map_nil, List.sum_nil, hcat]; split <;> simp
            · refine inv1_step h i a _ rest [.release .root] [] hi ho (by simp [setOps]) (by simp [setOps]) rfl (fun c => ?_) (fun c => ?_)
              · simp only [SN, W_cons, W_nil, w]; refine ⟨?_, trivial⟩; split <;> omega
              · have : lhs (setOps { s with log := .cmp s.iter :: s.log } i a (.release .root :: rest)) c = lhs s c := rfl
                rw [this]; simp only [w, W_cons, W_nil, tokP, List.map_nil, List.sum_nil]; split <;> omega
        | rootLoop b k0 items =>
          -- the exit of the loop: reserve (forward only), re-spawn, block code
          have hexit : ∀ c, SN cfg.cat c (loopExit cfg.cat b k0 items) ∧ W cfg.cat c (loopExit cfg.cat b k0 items) = w cfg.cat c (.rootLoop b k0 items) := by
            intro c
            obtain ⟨b1, b2⟩ := blockCode_w cfg.cat c b k0 items
            have hmid : SN cfg.cat c (.spawn .root :: blockCode cfg.cat b k0 items) ∧
                W cfg.cat c (.spawn .root :: blockCode cfg.cat b k0 items) = if c = .root then 2 else 0 := by
              simp only [SN, W_cons, w, holds, b2]
              refine ⟨⟨?_, b1⟩, ?_⟩ <;> split <;> omega
            unfold loopExit
            by_cases hf : cfg.cat = .forward
            · simp only [hf, if_true, List.cons_append, List.nil_append]
              rw [hf] at hmid
              refine ⟨⟨?_, hmid.1⟩, ?_⟩ <;> rw [W_cons, hmid.2] <;> simp only [w] <;> split <;> simp
            · simp only [hf, if_false, List.nil_append, w]
              exact ⟨hmid.1, by rw [hmid.2]⟩
          have hexit' : Inv1 cfg.cat (setOps { s with log := .block b k0 items.length :: s.log } i a (loopExit cfg.cat b k0 items ++ rest)) := by
            refine inv1_step h i a _ rest _ [] hi ho (by simp [setOps]) rfl rfl (fun c => (hexit c).1) (fun c => ?_)
            have : lhs (setOps { s with log := .block b k0 items.length :: s.log } i a (loopExit cfg.cat b k0 items ++ rest)) c = lhs s c := rfl
            rw [this, (hexit c).2]; simp [tokP]
          simp only [stepOp]
          split
          · split
            · rename_i x hx hlt
              refine inv1_step h i a _ rest [.rootLoop b k0 (items ++ [x])] [] hi ho (by simp [setOps]) (by simp [setOps]) rfl (fun c => ?_) (fun c => ?_)
              · simp only [SN, W_cons, W_nil, w]; refine ⟨?_, trivial⟩; split <;> (try split) <;> omega
              · have : lhs (setOps { s with iter := s.iter + 1, log := (if cfg.cat = .input then [Act.inc s.iter, .copy b items.length x, .deref s.iter] else [Act.inc s.iter]) ++ s.log } i a
                    (.rootLoop b k0 (items ++ [x]) :: rest)) c = lhs s c := rfl
                rw [this]; simp [w, tokP]
            · exact hexit'
          · exact hexit'
        | subExec f1 f2 f3 =>
          refine inv1_step h i a _ rest [.spawn (.inv f3 (.kid s.kid.length)), .spawn (.inv f2 (.kid s.kid.length)), .act (.callS f1), .act (.callE f1),
              .release (.kid s.kid.length)] [] hi ho (by simp [stepOp, setOps]) (by simp [stepOp, setOps]) rfl (fun c => ?_) (fun c => ?_)
          · simp only [SN, W_cons, W_nil, w, holds]
            refine ⟨?_, ?_, ?_, ?_, ?_, trivial⟩ <;> (repeat' split) <;> omega
          · have hk0 : s.kid.getD s.kid.length 0 = 0 := getD_ge _ _ (Nat.le_refl _)
            have hrefs : Generated.C05Each.invokeSubrootRefs = 3 := rfl
            cases c with
            | root =>
              simp only [lhs, stepOp, setOps, St.val, if_true, nz_append, w, W_cons, W_nil, holds, tokP, List.map_nil, List.sum_nil, reduceCtorEq, if_false, hrefs]
              simp [nz, ind]; omega
            | blk b' =>
              simp [lhs, stepOp, setOps, St.val, w, holds, tokP]
            | kid j =>
              simp only [lhs, stepOp, setOps, St.val, getD_append_one, w, W_cons, W_nil, holds, tokP, List.map_nil, List.sum_nil, reduceCtorEq, if_false, Ctr.kid.injEq, hrefs]
              split
              · rename_i e; subst e; rw [hk0]; simp
              · simp
      · exact h
    · exact h

end TbbVerif.C05.Each
