/-
C05 — parallel_for_each / parallel_invoke task system: every call that started has ended when nothing but item
destructions remains.

`Inv5`: (calls on `x` started) − (calls on `x` ended) = number of pending "call ended" marks − pending "call starts"
of `parallel_invoke` functions, summed over the activations.
-/
import TbbVerif.Proofs.C05.EachTop

namespace TbbVerif.C05.Each

def eb (md : Mode) (x : Nat) : Op → Int
  | .act (.bodyE y _) => if md = .body ∧ y = x then 1 else 0
  | .act (.callE f) => if md = .call ∧ f = x then 1 else 0
  | .act (.callS f) => if md = .call ∧ f = x then -1 else 0
  | _ => 0

def EB (md : Mode) (x : Nat) (ops : List Op) : Int := (ops.map (eb md x)).sum
def EBA (md : Mode) (x : Nat) (acts : List Actv) : Int := (acts.map (fun (a : Actv) => EB md x a.ops)).sum

/-- items (functions) on which a call has ended -/
def ends (md : Mode) (log : List Act) : List Nat :=
  match md with
  | .body => bodyEnds log
  | .call => callEnds log

variable {md : Mode}

@[simp] theorem EB_nil (x : Nat) : EB md x [] = 0 := rfl
@[simp] theorem EB_cons (x : Nat) (o : Op) (r : List Op) : EB md x (o :: r) = eb md x o + EB md x r := by simp [EB]
@[simp] theorem EB_append (x : Nat) (a b : List Op) : EB md x (a ++ b) = EB md x a + EB md x b := by simp [EB, List.sum_append]

theorem ends_append (a b : List Act) : ends md (a ++ b) = ends md a ++ ends md b := by
  cases md <;> simp [ends, bodyEnds, callEnds, List.filterMap_append]

theorem EB_zero (x : Nat) : ∀ (ops : List Op), (∀ o ∈ ops, eb md x o = 0) → EB md x ops = 0
  | [], _ => rfl
  | o :: r, h => by
    rw [EB_cons, h o (List.mem_cons_self), EB_zero x r (fun y hy => h y (List.mem_cons_of_mem _ hy))]; rfl

theorem feedOps_eb (x tid : Nat) (ys : List Nat) : EB md x (feedOps tid ys) = 0 := by
  refine EB_zero x _ (fun o ho => ?_)
  rcases feedOps_mem tid ys o ho with rfl | ⟨y, rfl⟩ <;> rfl

theorem blockSpawns_eb (x : Nat) (cat : Cat) (b k0 : Nat) : ∀ (j : Nat) (xs : List Nat), EB md x (blockSpawns cat b k0 j xs) = 0
  | _, [] => rfl
  | j, y :: ys => by simp [blockSpawns, eb, blockSpawns_eb x cat b k0 (j + 1) ys]

theorem destroys_eb (x b : Nat) : ∀ (j : Nat) (xs : List Nat), EB md x (destroys b j xs) = 0
  | _, [] => rfl
  | j, y :: ys => by simp [destroys, eb, destroys_eb x b (j + 1) ys]

theorem pforOps_eb (x : Nat) (cfg : Cfg) (b : Nat) : ∀ (cs : List (Nat × Nat)), EB md x (pforOps cfg b cs) = 0
  | [] => rfl
  | (lo, hi) :: cs => by simp [pforOps, eb, pforOps_eb x cfg b cs]

theorem blockCode_eb (x : Nat) (cat : Cat) (b k0 : Nat) (items : List Nat) : EB md x (blockCode cat b k0 items) = 0 := by
  cases items with
  | nil => simp [blockCode, eb]
  | cons y ys =>
    have h3 : EB md x (if cat = .input then destroys b 0 (y :: ys) else []) = 0 := by
      split
      · exact destroys_eb x b 0 (y :: ys)
      · rfl
    simp [blockCode, eb, blockSpawns_eb, h3]

theorem code_eb (x : Nat) (t : Task) : EB md x (code t) = 0 := by
  cases t with
  | chunk b lo xs =>
    simp only [code, EB_append, EB_cons, EB_nil, eb]
    rw [EB_zero x _ (fun o ho => by simp only [List.mem_map] at ho; obtain ⟨p, _, rfl⟩ := ho; rfl)]; rfl
  | inv f c => simp only [code, EB_cons, EB_nil, eb]; split <;> simp
  | _ => simp [code, eb]

theorem idle_eb (x : Nat) (ops : List Op) (h : Idle ops) : EB md x ops = 0 :=
  EB_zero x ops (fun o ho => by obtain ⟨b, j, y, rfl⟩ := h o ho; rfl)

def Inv5 (md : Mode) (s : St) : Prop :=
  ∀ x, ((starts md s.log).count x : Int) - ((ends md s.log).count x : Int) = EBA md x s.acts

theorem EBA_set (x : Nat) (acts : List Actv) (i : Nat) (a : Actv) (ops : List Op) (hi : acts[i]? = some a) :
    EBA md x (acts.set i { a with ops := ops }) = EBA md x acts - EB md x a.ops + EB md x ops :=
  sum_map_set (fun (a : Actv) => EB md x a.ops) acts i a { a with ops := ops } hi

theorem inv5_step {s s' : St} (h : Inv5 md s) (i : Nat) (a : Actv) (op : Op) (rest e : List Op) (newlog : List Act)
    (hi : s.acts[i]? = some a) (ho : a.ops = op :: rest)
    (hacts : s'.acts = s.acts.set i { a with ops := e ++ rest }) (hlog : s'.log = newlog ++ s.log)
    (hE : ∀ x, ((starts md newlog).count x : Int) - ((ends md newlog).count x : Int) = EB md x e - eb md x op) : Inv5 md s' := by
  intro x
  have h1 := EBA_set (md := md) x s.acts i a (e ++ rest) hi
  have h2 := h x
  have h3 := hE x
  rw [hacts, hlog, starts_append, ends_append, List.count_append, List.count_append, h1, ho, EB_cons, EB_append]
  push_cast
  omega

theorem inv5_exec (md : Mode) (cfg : Cfg) {s : St} (hnb : ∀ a ∈ s.acts, ∀ y src, Op.act (.bodyS y src) ∉ a.ops) (h : Inv5 md s) (ch : Choice) :
    Inv5 md (exec cfg s ch) := by
  cases ch with
  | start j tid =>
    simp only [exec]
    split
    · rename_i t ht
      intro x
      have := h x
      simp only [EBA, List.map_append, List.sum_append, List.map_cons, List.map_nil, List.sum_cons, List.sum_nil, code_eb] at this ⊢
      omega
    · exact h
  | step i =>
    simp only [exec]
    split
    · rename_i a hi
      split
      · rename_i op rest ho
        have hz : ∀ (s' : St) (e : List Op) (newlog : List Act), s'.acts = s.acts.set i { a with ops := e ++ rest } → s'.log = newlog ++ s.log →
            starts md newlog = [] → ends md newlog = [] → (∀ x, EB md x e = 0) → (∀ x, eb md x op = 0) → Inv5 md s' := by
          intro s' e newlog e1 e2 e3 e4 e5 e6
          exact inv5_step h i a op rest e newlog hi ho e1 e2 (fun x => by rw [e3, e4, e5 x, e6 x]; simp)
        cases op with
        | reserve c' n =>
          obtain ⟨_, f2, _, f4, _⟩ := reserve_frame s c' n
          exact hz _ [] [] (by simp [stepOp, setOps, f2]) (by simp [stepOp, setOps, f4]) (by cases md <;> rfl) (by cases md <;> rfl) (fun _ => rfl) (fun _ => rfl)
        | release c' =>
          obtain ⟨_, f2, f3, _⟩ := release_frame s c'
          exact hz _ [] [] (by simp [stepOp, setOps, f2]) (by simp [stepOp, setOps, f3]) (by cases md <;> rfl) (by cases md <;> rfl) (fun _ => rfl) (fun _ => rfl)
        | spawn t =>
          exact hz _ [] [.spawn t] (by simp [stepOp, setOps]) rfl (by cases md <;> rfl) (by cases md <;> rfl) (fun _ => rfl) (fun _ => rfl)
        | await c' =>
          simp only [stepOp]
          split
          · exact hz _ [] [.pass c'] (by simp [setOps]) rfl (by cases md <;> rfl) (by cases md <;> rfl) (fun _ => rfl) (fun _ => rfl)
          · exact h
        | act y =>
          refine inv5_step h i a _ rest [] [y] hi ho (by simp [stepOp, setOps]) rfl (fun x => ?_)
          cases y with
          | bodyS y' src => exact absurd (by rw [ho]; exact List.mem_cons_self) (hnb a (List.mem_of_getElem? hi) y' src)
          | bodyE y' src =>
            cases md <;> simp only [starts, ends, bodies, bodyEnds, calls, callEnds, List.filterMap_cons, List.filterMap_nil, EB_nil, eb, reduceCtorEq, false_and, true_and, if_false]
            · simp only [List.count_cons, List.count_nil]
              by_cases e : y' = x <;> simp [e]
            · simp
          | callS f =>
            cases md <;> simp only [starts, ends, bodies, bodyEnds, calls, callEnds, List.filterMap_cons, List.filterMap_nil, EB_nil, eb, reduceCtorEq, false_and, true_and, if_false]
            · simp
            · simp only [List.count_cons, List.count_nil]
              by_cases e : f = x <;> simp [e]
          | callE f =>
            cases md <;> simp only [starts, ends, bodies, bodyEnds, calls, callEnds, List.filterMap_cons, List.filterMap_nil, EB_nil, eb, reduceCtorEq, false_and, true_and, if_false]
            · simp
            · simp only [List.count_cons, List.count_nil]
              by_cases e : f = x <;> simp [e]
          | _ => cases md <;> simp [starts, ends, bodies, bodyEnds, calls, callEnds, eb]
        | body y src =>
          refine inv5_step h i a _ rest (feedOps a.tid (cfg.feeds y) ++ [.act (.bodyE y src)]) [.bodyS y src] hi ho (by simp [stepOp, setOps]) rfl (fun x => ?_)
          rw [EB_append, feedOps_eb]
          cases md <;> simp only [starts, ends, bodies, bodyEnds, calls, callEnds, List.filterMap_cons, List.filterMap_nil, EB_cons, EB_nil, eb, reduceCtorEq, false_and, true_and, if_false]
          · simp only [List.count_cons, List.count_nil]
            by_cases e : y = x <;> simp [e]
          · simp
        | rootExec =>
          simp only [stepOp]
          split
          · exact hz _ (pforOps cfg s.blk.length cfg.chunks ++ [.await (.blk s.blk.length), .release .root]) [.pfor s.blk.length] (by simp [setOps]) rfl
              (by cases md <;> rfl) (by cases md <;> rfl) (fun x => by rw [EB_append, pforOps_eb]; simp [eb]) (fun _ => rfl)
          · split
            · exact hz _ [.reserve .root 1, .rootLoop s.blk.length s.iter []] [.cmp s.iter] (by simp [setOps]) rfl
                (by cases md <;> rfl) (by cases md <;> rfl) (fun x => by simp [eb]) (fun _ => rfl)
            · exact hz _ [.release .root] [.cmp s.iter] (by simp [setOps]) rfl (by cases md <;> rfl) (by cases md <;> rfl) (fun x => by simp [eb]) (fun _ => rfl)
          · split
            · exact hz _ [.rootLoop s.blk.length s.iter []] [.cmp s.iter] (by simp [setOps]) rfl
                (by cases md <;> rfl) (by cases md <;> rfl) (fun x => by simp [eb]) (fun _ => rfl)
            · exact hz _ [.release .root] [.cmp s.iter] (by simp [setOps]) rfl (by cases md <;> rfl) (by cases md <;> rfl) (fun x => by simp [eb]) (fun _ => rfl)
        | rootLoop b k0 items =>
          have hexit : Inv5 md (setOps { s with log := .block b k0 items.length :: s.log } i a (loopExit cfg.cat b k0 items ++ rest)) := by
            refine hz _ (loopExit cfg.cat b k0 items) [.block b k0 items.length] (by simp [setOps]) rfl
              (by cases md <;> rfl) (by cases md <;> rfl) (fun x => ?_) (fun _ => rfl)
            unfold loopExit
            rw [EB_append, EB_cons, blockCode_eb]
            split <;> simp [eb]
          simp only [stepOp]
          split
          · split
            · rename_i y hy hlt
              refine hz _ [.rootLoop b k0 (items ++ [y])] (if cfg.cat = .input then [Act.inc s.iter, .copy b items.length y, .deref s.iter] else [Act.inc s.iter])
                (by simp [setOps]) rfl ?_ ?_ (fun x => by simp [eb]) (fun _ => rfl)
              · cases md <;> split <;> rfl
              · cases md <;> split <;> rfl
            · exact hexit
          · exact hexit
        | subExec f1 f2 f3 =>
          refine inv5_step h i a _ rest [.spawn (.inv f3 (.kid s.kid.length)), .spawn (.inv f2 (.kid s.kid.length)), .act (.callS f1), .act (.callE f1), .release (.kid s.kid.length)]
            [.arm s.kid.length] hi ho (by simp [stepOp, setOps]) rfl (fun x => ?_)
          cases md <;> simp only [starts, ends, bodies, bodyEnds, calls, callEnds, List.filterMap_cons, List.filterMap_nil, EB_cons, EB_nil, eb, reduceCtorEq, false_and, true_and, if_false]
          · simp
          · by_cases e : f1 = x <;> simp [e]
      · exact h
    · exact h

/-- reachable states of either system, with the "ended" balance -/
structure Reach5 (md : Mode) (cfg : Cfg) (base : List Nat) (s : St) : Prop where
  r : Reach md cfg base s
  i5 : Inv5 md s

theorem Reach5.run {md : Mode} {cfg : Cfg} {base : List Nat} (hch : cfg.cat = .random → ChunksTile cfg) :
    ∀ (sched : List Choice) {s : St}, Reach5 md cfg base s → Reach5 md cfg base (run cfg s sched)
  | [], _, h => h
  | ch :: rest, _, h => Reach5.run hch rest ⟨h.r.exec hch ch, inv5_exec md cfg h.r.i3.nb h.i5 ch⟩

theorem eb_mainInvoke (x i n : Nat) : EB .call x (mainInvoke i n) = 0 := by
  fun_induction mainInvoke i n with
  | case1 i => simp [eb]
  | case2 i => simp only [EB_cons, EB_nil, eb]; split <;> simp
  | case3 i => simp only [EB_cons, EB_nil, eb]; split <;> simp
  | case4 i => simp only [EB_cons, EB_nil, eb]; split <;> simp
  | case5 i rem _ ih => simp [eb, ih]

theorem reach5_initEach (cfg : Cfg) (threads : Nat) : Reach5 .body cfg cfg.inp (initEach cfg threads) := by
  refine ⟨reach_initEach cfg threads, fun x => ?_⟩
  have : EB .body x (mainEach cfg) = 0 := by
    unfold mainEach; split <;> simp [eb]
  simp [initEach, starts, ends, bodies, bodyEnds, EBA, this]

theorem reach5_initInvoke (cfg : Cfg) (n : Nat) : Reach5 .call cfg (List.range n) (initInvoke n) := by
  refine ⟨reach_initInvoke cfg n, fun x => ?_⟩
  simp [initInvoke, starts, ends, calls, callEnds, EBA, eb_mainInvoke]

/-- when the call has returned, every call that started has ended -/
theorem Reach5.all_ended {md : Mode} {cfg : Cfg} {base : List Nat} {s : St} (h : Reach5 md cfg base s) (hr : returned s = true) :
    (starts md s.log).Perm (ends md s.log) := by
  obtain ⟨_, q2⟩ := h.r.quiet hr
  rw [List.perm_iff_count]
  intro x
  have hb := h.i5 x
  have hA : EBA md x s.acts = 0 := by
    unfold EBA
    have : ∀ a ∈ s.acts, EB md x a.ops = 0 := fun a ha => idle_eb x _ (q2 a ha)
    generalize s.acts = l at this
    induction l with
    | nil => rfl
    | cons a r ih =>
      simp only [List.map_cons, List.sum_cons, this a (List.mem_cons_self), ih (fun b hb => this b (List.mem_cons_of_mem _ hb))]; rfl
  omega

end TbbVerif.C05.Each
