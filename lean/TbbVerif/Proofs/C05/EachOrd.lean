/-
C05 — parallel_for_each with input iterators: a body call on a slot of a block lies between the copy into that slot and the
destruction of the block's items.  Part 1: definitions and the key lemma "no wait on `blk b` anywhere ⇒ nothing that could still
call a body on a slot of block `b` exists".
-/
import TbbVerif.Proofs.C05.EachLife

namespace TbbVerif.C05.Each

def isSlot (b : Nat) : Src → Bool
  | .slot b' _ => b' == b
  | _ => false

/-- pairing weight for block `b`: a body call (started or still to be ended) on one of its slots is followed by the release
of `blk b` by the same activation -/
def ub (b : Nat) : Op → Int
  | .release (.blk b') => if b' = b then 1 else 0
  | .body _ src => if isSlot b src then -1 else 0
  | .act (.bodyE _ src) => if isSlot b src then -1 else 0
  | _ => 0

def UB (b : Nat) (ops : List Op) : Int := (ops.map (ub b)).sum

def SNB (b : Nat) : List Op → Prop
  | [] => True
  | o :: r => 0 ≤ UB b (o :: r) ∧ SNB b r

/-- a task that will call the body on a slot of block `b` -/
def liveT (b : Nat) : Task → Int
  | .iter b' _ src => if b' = b ∧ isSlot b src then 1 else 0
  | _ => 0

/-- an operation that is (part of) a body call on a slot of block `b`, or spawns such a task -/
def liveO (b : Nat) : Op → Int
  | .body _ src => if isSlot b src then 1 else 0
  | .act (.bodyE _ src) => if isSlot b src then 1 else 0
  | .spawn t => liveT b t
  | _ => 0

def LIVE (b : Nat) (ops : List Op) : Int := (ops.map (liveO b)).sum

/-- operations that wait on `blk b` now or will (the loop that is filling block `b`) -/
def mbO (b : Nat) : Op → Nat
  | .await (.blk b') => if b' = b then 1 else 0
  | .rootLoop b' _ _ => if b' = b then 1 else 0
  | _ => 0

def MBO (b : Nat) (ops : List Op) : Nat := (ops.map (mbO b)).sum
def MB (b : Nat) (s : St) : Nat := (s.acts.map (fun (a : Actv) => MBO b a.ops)).sum

variable {b : Nat}

@[simp] theorem UB_nil : UB b [] = 0 := rfl
@[simp] theorem UB_cons (o : Op) (r : List Op) : UB b (o :: r) = ub b o + UB b r := by simp [UB]
@[simp] theorem UB_append (x y : List Op) : UB b (x ++ y) = UB b x + UB b y := by simp [UB, List.sum_append]
@[simp] theorem LIVE_nil : LIVE b [] = 0 := rfl
@[simp] theorem LIVE_cons (o : Op) (r : List Op) : LIVE b (o :: r) = liveO b o + LIVE b r := by simp [LIVE]
@[simp] theorem MBO_nil : MBO b [] = 0 := rfl
@[simp] theorem MBO_cons (o : Op) (r : List Op) : MBO b (o :: r) = mbO b o + MBO b r := by simp [MBO]
@[simp] theorem MBO_append (x y : List Op) : MBO b (x ++ y) = MBO b x + MBO b y := by simp [MBO, List.sum_append]

theorem SNB.nonneg : ∀ {ops : List Op}, SNB b ops → 0 ≤ UB b ops
  | [], _ => by simp
  | _ :: _, h => h.1

theorem SNB.append : ∀ {x y : List Op}, SNB b x → SNB b y → SNB b (x ++ y)
  | [], _, _, hy => hy
  | o :: r, y, hx, hy => by
    refine ⟨?_, SNB.append hx.2 hy⟩
    have h1 := hx.1
    have h2 := hy.nonneg
    show 0 ≤ UB b (o :: (r ++ y))
    rw [UB_cons, UB_append]
    rw [UB_cons] at h1; omega

theorem SNB_of_zero : ∀ (ops : List Op), (∀ o ∈ ops, ub b o = 0) → SNB b ops ∧ UB b ops = 0
  | [], _ => ⟨trivial, rfl⟩
  | o :: r, h => by
    obtain ⟨h1, h2⟩ := SNB_of_zero r (fun x hx => h x (List.mem_cons_of_mem _ hx))
    have h0 := h o List.mem_cons_self
    refine ⟨⟨?_, h1⟩, ?_⟩ <;> simp only [UB_cons, h0, h2] <;> omega

theorem liveO_nonneg (o : Op) : 0 ≤ liveO b o := by
  cases o with
  | body x src => simp only [liveO]; split <;> omega
  | act a => cases a <;> simp only [liveO] <;> (try split) <;> omega
  | spawn t => cases t <;> simp only [liveO, liveT] <;> (try split) <;> omega
  | _ => simp [liveO]

theorem LIVE_nonneg : ∀ (ops : List Op), 0 ≤ LIVE b ops
  | [] => by simp
  | o :: r => by have := liveO_nonneg (b := b) o; have := LIVE_nonneg r; rw [LIVE_cons]; omega

theorem liveO_le_LIVE : ∀ (ops : List Op) (o : Op), o ∈ ops → liveO b o ≤ LIVE b ops
  | [], _, h => by cases h
  | p :: r, o, h => by
    rw [LIVE_cons]
    have h1 := liveO_nonneg (b := b) p
    have h2 := LIVE_nonneg (b := b) r
    rcases List.mem_cons.1 h with e | e
    · subst e; omega
    · have := liveO_le_LIVE r o e; omega

theorem liveT_le_holds (t : Task) : liveT b t ≤ holds (.blk b) t := by
  cases t with
  | iter b' x src =>
    simp only [liveT, holds, Ctr.blk.injEq]
    by_cases h : b' = b
    · subst h; simp; split <;> omega
    · have h' : ¬ b = b' := fun e => h e.symm
      simp [h, h']
  | _ => simp only [liveT]; exact holds_nonneg _ _

/-- without a pending `reserve (blk b)`, what an operation list gives back on `blk b` covers its body calls on block `b` -/
theorem live_le_W (cat : Cat) : ∀ (ops : List Op), (∀ n, Op.reserve (.blk b) n ∉ ops) → LIVE b ops + UB b ops ≤ W cat (.blk b) ops
  | [], _ => by simp
  | o :: r, h => by
    have ih := live_le_W cat r (fun n hm => h n (List.mem_cons_of_mem _ hm))
    have ho : liveO b o + ub b o ≤ w cat (.blk b) o := by
      cases o with
      | reserve c n =>
        have : c ≠ .blk b := fun e => h n (by rw [e]; exact List.mem_cons_self)
        have h' : ¬ Ctr.blk b = c := fun e => this e.symm
        simp [liveO, ub, w, h']
      | release c =>
        cases c with
        | blk b' =>
          simp only [liveO, ub, w, Ctr.blk.injEq]
          by_cases e : b' = b
          · subst e; simp
          · have e' : ¬ b = b' := fun x => e x.symm
            simp [e, e']
        | _ => simp [liveO, ub, w]
      | spawn t => have := liveT_le_holds (b := b) t; simp only [liveO, ub, w]; omega
      | body x src => simp only [liveO, ub, w]; split <;> omega
      | act a => cases a <;> simp only [liveO, ub, w] <;> (try split) <;> omega
      | await c => simp [liveO, ub, w]
      | rootExec => simp [liveO, ub, w]
      | rootLoop _ _ _ => simp [liveO, ub, w]
      | subExec _ _ _ => simp [liveO, ub, w]
    rw [LIVE_cons, UB_cons, W_cons]; omega

theorem mbO_le_MBO : ∀ (ops : List Op) (o : Op), o ∈ ops → mbO b o ≤ MBO b ops
  | [], _, h => by cases h
  | p :: r, o, h => by
    rw [MBO_cons]
    rcases List.mem_cons.1 h with e | e
    · subst e; omega
    · have := mbO_le_MBO r o e; omega

theorem MBO_le_MB (s : St) (a : Actv) (ha : a ∈ s.acts) : MBO b a.ops ≤ MB b s :=
  nsum_le_of_mem (fun (a : Actv) => MBO b a.ops) s.acts a ha

/-- **Nobody waits on `blk b` ⇒ block `b` has no body call pending, running or to be ended.** -/
theorem live_zero {cat : Cat} {s : St} (h1 : Inv1 cat s) (h2 : Inv2 cat s) (hsnb : ∀ a ∈ s.acts, SNB b a.ops) (hmb : MB b s = 0) :
    (∀ t ∈ s.pool, liveT b t = 0) ∧ (∀ a ∈ s.acts, ∀ o ∈ a.ops, liveO b o = 0) := by
  have hnoaw : ∀ a ∈ s.acts, Op.await (.blk b) ∉ a.ops := by
    intro a ha hm
    have h3 := mbO_le_MBO (b := b) a.ops _ hm
    have h4 := MBO_le_MB (b := b) s a ha
    simp only [mbO, if_true] at h3; omega
  have hnores : ∀ a ∈ s.acts, ∀ n, Op.reserve (.blk b) n ∉ a.ops := by
    intro a ha n hm
    have hra := (h2.aok a ha).1
    -- a pending reserve is followed by the wait
    have : ∀ (ops : List Op), RA ops → Op.reserve (.blk b) n ∈ ops → Op.await (.blk b) ∈ ops := by
      intro ops
      induction ops with
      | nil => intro _ h; cases h
      | cons o r ih =>
        intro hr hmem
        rcases List.mem_cons.1 hmem with e | e
        · exact List.mem_cons_of_mem _ (hr.1 b n e.symm)
        · exact List.mem_cons_of_mem _ (ih hr.2 e)
    exact hnoaw a ha (this a.ops hra hm)
  have hval : s.val (.blk b) = 0 := by
    by_cases h0 : s.val (.blk b) = 0
    · exact h0
    · exfalso
      obtain ⟨j, a0, hj, haw⟩ := h2.chain b (by omega)
      exact hnoaw a0 (List.mem_of_getElem? hj) haw
  have hacc := h1.acc (.blk b)
  simp only [lhs, hval, reduceCtorEq, if_false] at hacc
  have hP := tokP_nonneg (.blk b) s.pool
  have hA := tokA_nonneg h1 (.blk b)
  have hP0 : tokP (.blk b) s.pool = 0 := by omega
  have hA0 : tokA cat (.blk b) s.acts = 0 := by omega
  constructor
  · intro t ht
    have h3 := sum_zero_each (holds (.blk b)) s.pool (fun t _ => holds_nonneg _ t) hP0 t ht
    have h4 := liveT_le_holds (b := b) t
    have h5 : 0 ≤ liveT b t := by cases t <;> simp only [liveT] <;> (try split) <;> omega
    omega
  · intro a ha o ho
    have h3 := sum_zero_each (fun (a : Actv) => W cat (.blk b) a.ops) s.acts (fun a ha => (h1.sn a ha _).nonneg) hA0 a ha
    have h4 := live_le_W (b := b) cat a.ops (hnores a ha)
    have h5 := (hsnb a ha).nonneg
    have h6 := LIVE_nonneg (b := b) a.ops
    have h7 := liveO_le_LIVE (b := b) a.ops o ho
    have h8 := liveO_nonneg (b := b) o
    omega

end TbbVerif.C05.Each
