/-
C05 — the random-access path of parallel_for_each: the chunk list of the nested parallel_for (any partitioner, any environment
without cancellation) tiles the index range, which is the hypothesis `ChunksTile` of the parallel_for_each theorems.
-/
import TbbVerif.Proofs.C05.Term2
import TbbVerif.Proofs.C05.EachOnce

namespace TbbVerif.C05

theorem extract_append_extract (l : List Nat) (b m e : Nat) (h1 : b ≤ m) (h2 : m ≤ e) :
    l.extract b m ++ l.extract m e = l.extract b e := by
  simp only [List.extract_eq_drop_take]
  have e1 : e - b = (m - b) + (e - m) := by omega
  rw [e1, List.take_add, List.drop_drop]
  congr 3
  omega

/-- the leaves of a split tree of `[b,e)`, from left to right, cut the sequence into consecutive segments -/
theorem SplitTree.extract1 (inp : List Nat) {r : R1} {L : List R1} (h : SplitTree ops1 r L) (hg : Good1 r) :
    L.flatMap (fun c => inp.extract c.b c.e) = inp.extract r.b r.e := by
  induction h with
  | leaf r => simp
  | node r a b L1 L2 hd hs _ _ ih1 ih2 =>
    obtain ⟨ga, gb, _⟩ := split1_ok hg hd hs
    have hd' : r.divisible = true := hd
    obtain ⟨m, hm, h1, h2, _⟩ := splitMid_spec hg.1 hd'
    have hs' : splitMid r = (a, b) := hs
    rw [hm] at hs'
    simp only [Prod.mk.injEq] at hs'
    obtain ⟨rfl, rfl⟩ := hs'
    rw [List.flatMap_append, ih1 ga, ih2 gb]
    exact extract_append_extract inp r.b m r.e (by omega) (by omega)
  | pnode r l rt a b L1 L2 hd hok hs _ _ ih1 ih2 =>
    obtain ⟨ga, gb, _⟩ := psplit1_ok hg hd hok hs
    have hd' : r.divisible = true := hd
    obtain ⟨m, rfl, rfl, h1, h2⟩ := splitProp_spec hg.1 hd' hok hs
    rw [List.flatMap_append, ih1 ga, ih2 gb]
    exact extract_append_extract inp r.b m r.e (by omega) (by omega)

end TbbVerif.C05
