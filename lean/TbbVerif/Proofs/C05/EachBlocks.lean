/-
C05 — parallel_for_each (input / forward iterators): the blocks tile the input sequence in order, block sizes are in
[1, max_block_size], the iterator is advanced one position at a time by the single instance of the root task and never
past the end.
-/
import TbbVerif.Proofs.C05.EachEnd

namespace TbbVerif.C05.Each

/-- end position of the most recently formed block -/
def lastEnd : List Act → Nat
  | [] => 0
  | .block _ k m :: _ => k + m
  | _ :: l => lastEnd l

/-- every block starts where the previous one ended and has between 1 and `mx` items -/
def TiledL (mx : Nat) : List Act → Prop
  | [] => True
  | .block _ k m :: l => k = lastEnd l ∧ 1 ≤ m ∧ m ≤ mx ∧ TiledL mx l
  | _ :: l => TiledL mx l

/-- what a plain `act` operation may log -/
def isMark : Act → Bool
  | .bodyE _ _ => true
  | .callS _ => true
  | .callE _ => true
  | .destroy _ _ _ => true
  | .done => true
  | _ => false

/-- log entries that do not concern blocks or the iterator -/
def Plain (a : Act) : Prop := (∀ b k m, a ≠ .block b k m) ∧ (∀ k, a ≠ .inc k) ∧ (∀ k, a ≠ .deref k)

theorem lastEnd_plain (nl l : List Act) (h : ∀ a ∈ nl, Plain a) : lastEnd (nl ++ l) = lastEnd l := by
  induction nl with
  | nil => rfl
  | cons a r ih =>
    have ha := h a (List.mem_cons_self)
    have := ih (fun x hx => h x (List.mem_cons_of_mem _ hx))
    cases a <;> simp_all [lastEnd, Plain]

theorem tiled_plain (mx : Nat) (nl l : List Act) (h : ∀ a ∈ nl, Plain a) : TiledL mx (nl ++ l) ↔ TiledL mx l := by
  induction nl with
  | nil => rfl
  | cons a r ih =>
    have ha := h a (List.mem_cons_self)
    have := ih (fun x hx => h x (List.mem_cons_of_mem _ hx))
    cases a <;> simp_all [TiledL, Plain]

theorem incs_plain (nl l : List Act) (h : ∀ a ∈ nl, Plain a) : incs (nl ++ l) = incs l := by
  induction nl with
  | nil => rfl
  | cons a r ih =>
    have ha := h a (List.mem_cons_self)
    have := ih (fun x hx => h x (List.mem_cons_of_mem _ hx))
    simp only [incs, List.cons_append, List.reverse_cons, List.filterMap_append] at this ⊢
    rw [this]
    cases a <;> simp_all [Plain]

theorem derefs_plain (nl l : List Act) (h : ∀ a ∈ nl, Plain a) : derefs (nl ++ l) = derefs l := by
  induction nl with
  | nil => rfl
  | cons a r ih =>
    have ha := h a (List.mem_cons_self)
    have := ih (fun x hx => h x (List.mem_cons_of_mem _ hx))
    simp only [derefs, List.cons_append, List.reverse_cons, List.filterMap_append] at this ⊢
    rw [this]
    cases a <;> simp_all [Plain]

def HasLoop (ops : List Op) : Prop := ∃ b k its, Op.rootLoop b k its ∈ ops

structure Inv4 (cfg : Cfg) (s : St) : Prop where
  tiled : TiledL cfg.maxBlock s.log
  loops : ∀ a ∈ s.acts, ∀ b k0 items, Op.rootLoop b k0 items ∈ a.ops →
    k0 = lastEnd s.log ∧ k0 + items.length = s.iter ∧ items.length ≤ cfg.maxBlock ∧ (items = [] → s.iter < cfg.inp.length)
  noloop : (∀ a ∈ s.acts, ¬ HasLoop a.ops) → lastEnd s.log = s.iter
  le : s.iter ≤ cfg.inp.length
  incs : incs s.log = List.range s.iter
  derefs : cfg.cat = .input → derefs s.log = List.range s.iter
  marks : ∀ a ∈ s.acts, ∀ x, Op.act x ∈ a.ops → isMark x = true

theorem mark_plain {x : Act} (h : isMark x = true) : Plain x := by
  cases x <;> simp_all [isMark, Plain]

/-- the activation whose next operation is a root-task instance is the only one -/
theorem uniq_root {md : Mode} {cfg : Cfg} {base : List Nat} {s : St} (h3 : Inv3 md cfg base s) {i : Nat} {a : Actv} {op : Op} {rest : List Op}
    (hi : s.acts[i]? = some a) (ho : a.ops = op :: rest) (hop : riO op = 1) :
    ¬ HasLoop rest ∧ ∀ a' ∈ s.acts, HasLoop a'.ops → a' = a := by
  have hm : a ∈ s.acts := List.mem_of_getElem? hi
  have h1 := RIA_set s.acts i a rest hi
  rw [ho, RIO_cons, hop] at h1
  have hri := h3.ri
  have hle : RIO a.ops ≤ RIA s.acts := nsum_le_of_mem (fun (a : Actv) => RIO a.ops) s.acts a hm
  rw [ho, RIO_cons, hop] at hle
  have hrest : RIO rest = 0 := by omega
  have hset : RIA (s.acts.set i { a with ops := rest }) = 0 := by omega
  constructor
  · intro ⟨b, k, its, hmem⟩
    have : riO (.rootLoop b k its) ≤ RIO rest := nsum_le_of_mem riO rest _ hmem
    simp [riO] at this; omega
  · intro a' ha' ⟨b, k, its, hmem⟩
    obtain ⟨j, hj⟩ := List.mem_iff_getElem?.1 ha'
    by_cases hji : j = i
    · subst hji; rw [hi] at hj; exact (Option.some.inj hj).symm
    · exfalso
      have hj' : (s.acts.set i { a with ops := rest })[j]? = some a' := by rw [List.getElem?_set_ne (fun e => hji e.symm)]; exact hj
      have h2 : RIO a'.ops ≤ RIA (s.acts.set i { a with ops := rest }) :=
        nsum_le_of_mem (fun (a : Actv) => RIO a.ops) _ a' (List.mem_of_getElem? hj')
      have h3' : riO (.rootLoop b k its) ≤ RIO a'.ops := nsum_le_of_mem riO a'.ops _ hmem
      simp [riO] at h3'; omega

/-- a step that neither touches the iterator nor creates or removes a `rootLoop` -/
theorem inv4_plain {cfg : Cfg} {s s' : St} (h : Inv4 cfg s) (i : Nat) (a : Actv) (op : Op) (rest e : List Op) (newlog : List Act)
    (hi : s.acts[i]? = some a) (ho : a.ops = op :: rest)
    (hacts : s'.acts = s.acts.set i { a with ops := e ++ rest }) (hlog : s'.log = newlog ++ s.log) (hiter : s'.iter = s.iter)
    (hpl : ∀ x ∈ newlog, Plain x) (hop : ∀ b k its, op ≠ .rootLoop b k its) (he : ¬ HasLoop e)
    (hmk : ∀ x, Op.act x ∈ e → isMark x = true) : Inv4 cfg s' := by
  have hm : a ∈ s.acts := List.mem_of_getElem? hi
  have hmem : ∀ a' ∈ s'.acts, a' ∈ s.acts ∨ a' = { a with ops := e ++ rest } := by
    intro a' ha'; rw [hacts] at ha'; exact List.mem_or_eq_of_mem_set ha'
  have hloop_new : ∀ b k its, Op.rootLoop b k its ∈ e ++ rest → Op.rootLoop b k its ∈ a.ops := by
    intro b k its hx
    rcases List.mem_append.1 hx with h1 | h1
    · exact absurd ⟨b, k, its, h1⟩ he
    · rw [ho]; exact List.mem_cons_of_mem _ h1
  refine ⟨?_, ?_, ?_, by rw [hiter]; exact h.le, ?_, ?_, ?_⟩
  · rw [hlog, tiled_plain _ _ _ hpl]; exact h.tiled
  · intro a' ha' b k0 items hx
    rw [hlog, lastEnd_plain _ _ hpl, hiter]
    rcases hmem a' ha' with h1 | h1
    · exact h.loops a' h1 b k0 items hx
    · subst h1; exact h.loops a hm b k0 items (hloop_new b k0 items hx)
  · intro hno
    rw [hlog, lastEnd_plain _ _ hpl, hiter]
    refine h.noloop (fun a' ha' ⟨b, k, its, hx⟩ => ?_)
    obtain ⟨j, hj⟩ := List.mem_iff_getElem?.1 ha'
    by_cases hji : j = i
    · subst hji
      rw [hi] at hj; cases hj
      rw [ho] at hx
      rcases List.mem_cons.1 hx with h1 | h1
      · exact hop b k its h1.symm
      · have hilt : j < s.acts.length := by
          rcases Nat.lt_or_ge j s.acts.length with h' | h'
          · exact h'
          · rw [List.getElem?_eq_none h'] at hi; cases hi
        exact hno { a with ops := e ++ rest } (by rw [hacts]; exact List.mem_of_getElem? (List.getElem?_set_self hilt)) ⟨b, k, its, List.mem_append_right _ h1⟩
    · exact hno a' (by rw [hacts]; exact List.mem_of_getElem? (by rw [List.getElem?_set_ne (fun e' => hji e'.symm)]; exact hj)) ⟨b, k, its, hx⟩
  · rw [hlog, incs_plain _ _ hpl, hiter]; exact h.incs
  · intro hc; rw [hlog, derefs_plain _ _ hpl, hiter]; exact h.derefs hc
  · intro a' ha' x hx
    rcases hmem a' ha' with h1 | h1
    · exact h.marks a' h1 x hx
    · subst h1
      rcases List.mem_append.1 hx with h2 | h2
      · exact hmk x h2
      · exact h.marks a hm x (by rw [ho]; exact List.mem_cons_of_mem _ h2)

theorem plain_nil : ∀ x ∈ ([] : List Act), Plain x := fun _ h => by cases h

theorem plain_one {y : Act} (h : Plain y) : ∀ x ∈ [y], Plain x := fun x hx => by
  simp only [List.mem_singleton] at hx; subst hx; exact h

theorem noloop_nil : ¬ HasLoop [] := fun ⟨_, _, _, h⟩ => by cases h

theorem destroys_acts (b : Nat) (x : Act) : ∀ (j : Nat) (xs : List Nat), Op.act x ∈ destroys b j xs → isMark x = true
  | _, [], h => by cases h
  | j, y :: ys, h => by
    simp only [destroys, List.mem_cons, Op.act.injEq] at h
    rcases h with h | h
    · subst h; rfl
    · exact destroys_acts b x (j + 1) ys h

theorem blockCode_acts (cat : Cat) (b k0 : Nat) (items : List Nat) (x : Act) (h : Op.act x ∈ blockCode cat b k0 items) : isMark x = true := by
  cases items with
  | nil => simp [blockCode] at h
  | cons y ys =>
    simp only [blockCode, List.mem_append, List.mem_cons, reduceCtorEq, false_or, List.not_mem_nil, or_false] at h
    rcases h with h | h
    · exact absurd h (blockSpawns_noact cat b k0 x 1 ys)
    · split at h
      · exact destroys_acts b x 0 (y :: ys) h
      · cases h

theorem blockCode_noloop (cat : Cat) (b k0 : Nat) (items : List Nat) : ¬ HasLoop (blockCode cat b k0 items) := by
  intro ⟨b', k, its, h⟩
  have : riO (.rootLoop b' k its) ≤ RIO (blockCode cat b k0 items) := nsum_le_of_mem riO _ _ h
  rw [(blockCode_fut (md := .body) {} 0 0 cat b k0 items).2] at this
  simp [riO] at this

theorem inv4_exec {md : Mode} (cfg : Cfg) (base : List Nat) (hmx : 1 ≤ cfg.maxBlock) {s : St} (h3 : Inv3 md cfg base s) (h : Inv4 cfg s) (ch : Choice) :
    Inv4 cfg (exec cfg s ch) := by
  cases ch with
  | start j tid =>
    simp only [exec]
    split
    · rename_i t ht
      have hnl : ¬ HasLoop (code t) := by
        intro ⟨b, k, its, hx⟩
        cases t <;> simp [code] at hx
      refine ⟨h.tiled, ?_, ?_, h.le, h.incs, h.derefs, ?_⟩
      · intro a ha b k0 items hx
        rcases List.mem_append.1 ha with h1 | h1
        · exact h.loops a h1 b k0 items hx
        · simp only [List.mem_singleton] at h1; subst h1
          exact absurd ⟨b, k0, items, hx⟩ hnl
      · intro hno
        exact h.noloop (fun a ha => hno a (List.mem_append_left _ ha))
      · intro a ha x hx
        rcases List.mem_append.1 ha with h1 | h1
        · exact h.marks a h1 x hx
        · simp only [List.mem_singleton] at h1; subst h1
          cases t <;> simp [code] at hx
          · rcases hx with rfl | rfl <;> rfl
    · exact h
  | step i =>
    simp only [exec]
    split
    · rename_i a hi
      split
      · rename_i op rest ho
        have hm : a ∈ s.acts := List.mem_of_getElem? hi
        cases op with
        | reserve c' n =>
          obtain ⟨_, f2, _, f4, f5⟩ := reserve_frame s c' n
          exact inv4_plain h i a _ rest [] [] hi ho (by simp [stepOp, setOps, f2]) (by simp [stepOp, setOps, f4]) (by simp [stepOp, setOps, f5])
            plain_nil (fun _ _ _ e => by cases e) noloop_nil (fun _ hx => by cases hx)
        | release c' =>
          obtain ⟨_, f2, f3, f4⟩ := release_frame s c'
          exact inv4_plain h i a _ rest [] [] hi ho (by simp [stepOp, setOps, f2]) (by simp [stepOp, setOps, f3]) (by simp [stepOp, setOps, f4])
            plain_nil (fun _ _ _ e => by cases e) noloop_nil (fun _ hx => by cases hx)
        | spawn t =>
          exact inv4_plain h i a _ rest [] [.spawn t] hi ho (by simp [stepOp, setOps]) rfl rfl
            (plain_one (by simp [Plain])) (fun _ _ _ e => by cases e) noloop_nil (fun _ hx => by cases hx)
        | await c' =>
          simp only [stepOp]
          split
          · exact inv4_plain h i a _ rest [] [.pass c'] hi ho (by simp [setOps]) rfl rfl
              (plain_one (by simp [Plain])) (fun _ _ _ e => by cases e) noloop_nil (fun _ hx => by cases hx)
          · exact h
        | act y =>
          have hy := h.marks a hm y (by rw [ho]; exact List.mem_cons_self)
          exact inv4_plain h i a _ rest [] [y] hi ho (by simp [stepOp, setOps]) rfl rfl
            (plain_one (mark_plain hy)) (fun _ _ _ e => by cases e) noloop_nil (fun _ hx => by cases hx)
        | body y src =>
          refine inv4_plain h i a _ rest (feedOps a.tid (cfg.feeds y) ++ [.act (.bodyE y src)]) [.bodyS y src] hi ho (by simp [stepOp, setOps]) rfl rfl
            (plain_one (by simp [Plain])) (fun _ _ _ e => by cases e) ?_ ?_
          · intro ⟨b, k, its, hx⟩
            rcases List.mem_append.1 hx with h1 | h1
            · rcases feedOps_mem _ _ _ h1 with h2 | ⟨_, h2⟩ <;> cases h2
            · simp at h1
          · intro x hx
            rcases List.mem_append.1 hx with h1 | h1
            · exact absurd h1 (feedOps_noact _ _ _)
            · simp only [List.mem_singleton, Op.act.injEq] at h1; subst h1; rfl
        | subExec f1 f2 f3 =>
          refine inv4_plain h i a _ rest [.spawn (.inv f3 (.kid s.kid.length)), .spawn (.inv f2 (.kid s.kid.length)), .act (.callS f1), .act (.callE f1), .release (.kid s.kid.length)]
            [.arm s.kid.length] hi ho (by simp [stepOp, setOps]) rfl rfl (plain_one (by simp [Plain])) (fun _ _ _ e => by cases e) ?_ ?_
          · intro ⟨b, k, its, hx⟩; simp at hx
          · intro x hx
            simp only [List.mem_cons, reduceCtorEq, false_or, Op.act.injEq, List.not_mem_nil, or_false] at hx
            rcases hx with rfl | rfl <;> rfl
        | rootExec =>
          obtain ⟨u1, u2⟩ := uniq_root h3 hi ho rfl
          have hnone : ∀ a' ∈ s.acts, ¬ HasLoop a'.ops := by
            intro a' ha' hl
            have := u2 a' ha' hl
            subst this
            obtain ⟨b, k, its, hx⟩ := hl
            rw [ho] at hx
            rcases List.mem_cons.1 hx with e | e
            · cases e
            · exact u1 ⟨b, k, its, e⟩
          have hend := h.noloop hnone
          simp only [stepOp]
          split
          · refine inv4_plain h i a _ rest (pforOps cfg s.blk.length cfg.chunks ++ [.await (.blk s.blk.length), .release .root]) [.pfor s.blk.length] hi ho
              (by simp [setOps]) rfl rfl (plain_one (by simp [Plain])) (fun _ _ _ e => by cases e) ?_ ?_
            · intro ⟨b, k, its, hx⟩
              rcases List.mem_append.1 hx with h1 | h1
              · have : riO (.rootLoop b k its) ≤ RIO (pforOps cfg s.blk.length cfg.chunks) := nsum_le_of_mem riO _ _ h1
                rw [(pforOps_fut (md := .body) cfg 0 0 _ _).2] at this
                simp [riO] at this
              · simp at h1
            · intro x hx
              rcases List.mem_append.1 hx with h1 | h1
              · exact absurd h1 (pforOps_noact _ _ _ _)
              · simp at h1
          · split
            · -- input, more items: the loop starts at the current position
              rename_i hlt
              have hilt : i < s.acts.length := by
                rcases Nat.lt_or_ge i s.acts.length with h' | h'
                · exact h'
                · rw [List.getElem?_eq_none h'] at hi; cases hi
              refine ⟨?_, ?_, ?_, h.le, ?_, ?_, ?_⟩
              · exact h.tiled
              · intro a' ha' b k0 items hx
                have ha'' : a' ∈ s.acts.set i { a with ops := Op.reserve .root 1 :: .rootLoop s.blk.length s.iter [] :: rest } := ha'
                rcases List.mem_or_eq_of_mem_set ha'' with h1 | h1
                · exact absurd ⟨b, k0, items, hx⟩ (hnone a' h1)
                · subst h1
                  simp only [List.mem_cons, reduceCtorEq, false_or, Op.rootLoop.injEq] at hx
                  rcases hx with ⟨rfl, rfl, rfl⟩ | hx
                  · exact ⟨hend.symm, Nat.add_zero _, Nat.zero_le _, fun _ => hlt⟩
                  · exact absurd ⟨b, k0, items, hx⟩ u1
              · intro hno
                exfalso
                exact hno { a with ops := Op.reserve .root 1 :: .rootLoop s.blk.length s.iter [] :: rest }
                  (List.mem_of_getElem? (List.getElem?_set_self hilt)) ⟨s.blk.length, s.iter, [], by simp⟩
              · show incs (Act.cmp s.iter :: s.log) = List.range s.iter
                simpa [incs] using h.incs
              · intro hc
                show derefs (Act.cmp s.iter :: s.log) = List.range s.iter
                simpa [derefs] using h.derefs hc
              · intro a' ha' x hx
                have ha'' : a' ∈ s.acts.set i { a with ops := Op.reserve .root 1 :: .rootLoop s.blk.length s.iter [] :: rest } := ha'
                rcases List.mem_or_eq_of_mem_set ha'' with h1 | h1
                · exact h.marks a' h1 x hx
                · subst h1
                  simp only [List.mem_cons, reduceCtorEq, false_or] at hx
                  exact h.marks a hm x (by rw [ho]; exact List.mem_cons_of_mem _ hx)
            · exact inv4_plain h i a _ rest [.release .root] [.cmp s.iter] hi ho (by simp [setOps]) rfl rfl
                (plain_one (by simp [Plain])) (fun _ _ _ e => by cases e) (fun ⟨_, _, _, hx⟩ => by simp at hx) (fun _ hx => by simp at hx)
          · split
            · rename_i hlt
              have hilt : i < s.acts.length := by
                rcases Nat.lt_or_ge i s.acts.length with h' | h'
                · exact h'
                · rw [List.getElem?_eq_none h'] at hi; cases hi
              refine ⟨?_, ?_, ?_, h.le, ?_, ?_, ?_⟩
              · exact h.tiled
              · intro a' ha' b k0 items hx
                have ha'' : a' ∈ s.acts.set i { a with ops := Op.rootLoop s.blk.length s.iter [] :: rest } := ha'
                rcases List.mem_or_eq_of_mem_set ha'' with h1 | h1
                · exact absurd ⟨b, k0, items, hx⟩ (hnone a' h1)
                · subst h1
                  simp only [List.mem_cons, Op.rootLoop.injEq] at hx
                  rcases hx with ⟨rfl, rfl, rfl⟩ | hx
                  · exact ⟨hend.symm, Nat.add_zero _, Nat.zero_le _, fun _ => hlt⟩
                  · exact absurd ⟨b, k0, items, hx⟩ u1
              · intro hno
                exfalso
                exact hno { a with ops := Op.rootLoop s.blk.length s.iter [] :: rest }
                  (List.mem_of_getElem? (List.getElem?_set_self hilt)) ⟨s.blk.length, s.iter, [], by simp⟩
              · show incs (Act.cmp s.iter :: s.log) = List.range s.iter
                simpa [incs] using h.incs
              · intro hc
                show derefs (Act.cmp s.iter :: s.log) = List.range s.iter
                simpa [derefs] using h.derefs hc
              · intro a' ha' x hx
                have ha'' : a' ∈ s.acts.set i { a with ops := Op.rootLoop s.blk.length s.iter [] :: rest } := ha'
                rcases List.mem_or_eq_of_mem_set ha'' with h1 | h1
                · exact h.marks a' h1 x hx
                · subst h1
                  simp only [List.mem_cons, reduceCtorEq, false_or] at hx
                  exact h.marks a hm x (by rw [ho]; exact List.mem_cons_of_mem _ hx)
            · exact inv4_plain h i a _ rest [.release .root] [.cmp s.iter] hi ho (by simp [setOps]) rfl rfl
                (plain_one (by simp [Plain])) (fun _ _ _ e => by cases e) (fun ⟨_, _, _, hx⟩ => by simp at hx) (fun _ hx => by simp at hx)
        | rootLoop b k0 items =>
          obtain ⟨u1, u2⟩ := uniq_root h3 hi ho rfl
          obtain ⟨l1, l2, l3, l4⟩ := h.loops a hm b k0 items (by rw [ho]; exact List.mem_cons_self)
          have hilt : i < s.acts.length := by
            rcases Nat.lt_or_ge i s.acts.length with h' | h'
            · exact h'
            · rw [List.getElem?_eq_none h'] at hi; cases hi
          have hothers : ∀ (ops' : List Op), ∀ a' ∈ s.acts.set i { a with ops := ops' }, a' ≠ { a with ops := ops' } → ¬ HasLoop a'.ops := by
            intro ops' a' ha' hne hl
            rcases List.mem_or_eq_of_mem_set ha' with h1 | h1
            · have := u2 a' h1 hl
              subst this
              -- a' = a is still in the list only if it sits at another index as well; then it is the same activation value
              obtain ⟨j, hj⟩ := List.mem_iff_getElem?.1 ha'
              by_cases hji : j = i
              · subst hji
                rw [List.getElem?_set_self hilt] at hj
                exact hne (Option.some.inj hj).symm
              · rw [List.getElem?_set_ne (fun e => hji e.symm)] at hj
                -- a second copy of `a` at index j: two root instances
                have hset : RIA (s.acts.set i { a' with ops := rest }) = 0 := by
                  have h1' := RIA_set s.acts i a' rest hi
                  rw [ho, RIO_cons] at h1'
                  simp only [riO] at h1'
                  have hri := h3.ri
                  have hle : RIO a'.ops ≤ RIA s.acts := nsum_le_of_mem (fun (a : Actv) => RIO a.ops) s.acts a' hm
                  rw [ho, RIO_cons] at hle
                  simp only [riO] at hle
                  omega
                have hj' : (s.acts.set i { a' with ops := rest })[j]? = some a' := by rw [List.getElem?_set_ne (fun e => hji e.symm)]; exact hj
                have h2 : RIO a'.ops ≤ RIA (s.acts.set i { a' with ops := rest }) :=
                  nsum_le_of_mem (fun (a : Actv) => RIO a.ops) _ a' (List.mem_of_getElem? hj')
                rw [ho, RIO_cons] at h2
                simp only [riO] at h2
                omega
            · exact hne h1
          have hexit : Inv4 cfg (setOps { s with log := .block b k0 items.length :: s.log } i a (loopExit cfg.cat b k0 items ++ rest)) ∨
              (∃ y, cfg.inp[s.iter]? = some y ∧ items.length < cfg.maxBlock) := by
            by_cases hcont : ∃ y, cfg.inp[s.iter]? = some y ∧ items.length < cfg.maxBlock
            · exact Or.inr hcont
            left
            have hne : 1 ≤ items.length := by
              cases hi' : items with
              | nil =>
                have hlt := l4 hi'
                exfalso
                apply hcont
                refine ⟨cfg.inp[s.iter], by rw [List.getElem?_eq_getElem hlt], ?_⟩
                rw [hi']; simp; omega
              | cons _ _ => simp
            have hnl : ¬ HasLoop (loopExit cfg.cat b k0 items ++ rest) := by
              intro ⟨b', k, its, hx⟩
              rcases List.mem_append.1 hx with h1 | h1
              · unfold loopExit at h1
                rcases List.mem_append.1 h1 with h2 | h2
                · split at h2 <;> simp at h2
                · simp only [List.mem_cons, reduceCtorEq, false_or] at h2
                  exact blockCode_noloop _ _ _ _ ⟨b', k, its, h2⟩
              · exact u1 ⟨b', k, its, h1⟩
            refine ⟨?_, ?_, ?_, h.le, ?_, ?_, ?_⟩
            · exact ⟨l1, hne, l3, h.tiled⟩
            · intro a' ha' b' k' items' hx
              exfalso
              have ha'' : a' ∈ s.acts.set i { a with ops := loopExit cfg.cat b k0 items ++ rest } := ha'
              by_cases he : a' = { a with ops := loopExit cfg.cat b k0 items ++ rest }
              · subst he; exact hnl ⟨b', k', items', hx⟩
              · exact hothers _ a' ha'' he ⟨b', k', items', hx⟩
            · intro _
              show k0 + items.length = s.iter
              exact l2
            · show incs (Act.block b k0 items.length :: s.log) = List.range s.iter
              simpa [incs] using h.incs
            · intro hc
              show derefs (Act.block b k0 items.length :: s.log) = List.range s.iter
              simpa [derefs] using h.derefs hc
            · intro a' ha' x hx
              have ha'' : a' ∈ s.acts.set i { a with ops := loopExit cfg.cat b k0 items ++ rest } := ha'
              rcases List.mem_or_eq_of_mem_set ha'' with h1 | h1
              · exact h.marks a' h1 x hx
              · subst h1
                rcases List.mem_append.1 hx with h2 | h2
                · unfold loopExit at h2
                  rcases List.mem_append.1 h2 with h4 | h4
                  · split at h4 <;> simp at h4
                  · simp only [List.mem_cons, reduceCtorEq, false_or] at h4
                    exact blockCode_acts _ _ _ _ _ h4
                · exact h.marks a hm x (by rw [ho]; exact List.mem_cons_of_mem _ h2)
          simp only [stepOp]
          split
          · split
            · rename_i y hy hlt
              have hyl : s.iter < cfg.inp.length := by
                rcases Nat.lt_or_ge s.iter cfg.inp.length with h' | h'
                · exact h'
                · rw [List.getElem?_eq_none h'] at hy; cases hy
              have hnlpl : ∀ x ∈ (if cfg.cat = .input then [Act.inc s.iter, .copy b items.length y, .deref s.iter] else [Act.inc s.iter]), ∀ b' k m, x ≠ Act.block b' k m := by
                intro x hx; split at hx <;> simp at hx <;> (rcases hx with rfl | rfl | rfl) <;> simp
              have hle' : lastEnd ((if cfg.cat = .input then [Act.inc s.iter, .copy b items.length y, .deref s.iter] else [Act.inc s.iter]) ++ s.log) = lastEnd s.log := by
                split <;> simp [lastEnd]
              refine ⟨?_, ?_, ?_, hyl, ?_, ?_, ?_⟩
              · show TiledL cfg.maxBlock ((if cfg.cat = .input then [Act.inc s.iter, .copy b items.length y, .deref s.iter] else [Act.inc s.iter]) ++ s.log)
                split <;> simp [TiledL, h.tiled]
              · intro a' ha' b' k' items' hx
                have ha'' : a' ∈ s.acts.set i { a with ops := Op.rootLoop b k0 (items ++ [y]) :: rest } := ha'
                by_cases he : a' = { a with ops := Op.rootLoop b k0 (items ++ [y]) :: rest }
                · subst he
                  simp only [List.mem_cons, Op.rootLoop.injEq] at hx
                  rcases hx with ⟨rfl, rfl, rfl⟩ | hx
                  · refine ⟨?_, ?_, ?_, fun e => by simp at e⟩
                    · show k' = lastEnd ((if cfg.cat = .input then [Act.inc s.iter, .copy b' items.length y, .deref s.iter] else [Act.inc s.iter]) ++ s.log)
                      rw [hle']; exact l1
                    · show k' + (items ++ [y]).length = s.iter + 1
                      simp; omega
                    · simp; omega
                  · exact absurd ⟨b', k', items', hx⟩ u1
                · exact absurd ⟨b', k', items', hx⟩ (hothers _ a' ha'' he)
              · intro hno
                exfalso
                exact hno { a with ops := Op.rootLoop b k0 (items ++ [y]) :: rest } (List.mem_of_getElem? (List.getElem?_set_self hilt)) ⟨_, _, _, List.mem_cons_self⟩
              · show incs ((if cfg.cat = .input then [Act.inc s.iter, .copy b items.length y, .deref s.iter] else [Act.inc s.iter]) ++ s.log) = List.range (s.iter + 1)
                have := h.incs
                rw [List.range_succ]
                split <;> simp [incs] at this ⊢ <;> rw [this]
              · intro hc
                show derefs ((if cfg.cat = .input then [Act.inc s.iter, .copy b items.length y, .deref s.iter] else [Act.inc s.iter]) ++ s.log) = List.range (s.iter + 1)
                have := h.derefs hc
                rw [List.range_succ]
                simp [hc, derefs] at this ⊢
                rw [this]
              · intro a' ha' x hx
                have ha'' : a' ∈ s.acts.set i { a with ops := Op.rootLoop b k0 (items ++ [y]) :: rest } := ha'
                rcases List.mem_or_eq_of_mem_set ha'' with h1 | h1
                · exact h.marks a' h1 x hx
                · subst h1
                  simp only [List.mem_cons, reduceCtorEq, false_or] at hx
                  exact h.marks a hm x (by rw [ho]; exact List.mem_cons_of_mem _ hx)
            · rename_i y hy hnlt
              rcases hexit with h' | ⟨y', hy', hlt'⟩
              · exact h'
              · exact absurd hlt' hnlt
          · rename_i hnone
            rcases hexit with h' | ⟨y', hy', _⟩
            · exact h'
            · rw [hy'] at hnone
              cases hnone
      · exact h
    · exact h

/-! ### reachable states of parallel_for_each with all invariants -/

structure ReachE (cfg : Cfg) (s : St) : Prop where
  r5 : Reach5 .body cfg cfg.inp s
  i4 : Inv4 cfg s

theorem inv4_init (cfg : Cfg) (threads : Nat) : Inv4 cfg (initEach cfg threads) := by
  have hmain : (initEach cfg threads).acts = [{ tid := 0, ops := mainEach cfg }] := rfl
  refine ⟨trivial, ?_, fun _ => rfl, Nat.zero_le _, rfl, fun _ => rfl, ?_⟩
  · intro a ha b k0 items hx
    rw [hmain] at ha; simp only [List.mem_singleton] at ha; subst ha
    unfold mainEach at hx; split at hx <;> simp at hx
  · intro a ha x hx
    rw [hmain] at ha; simp only [List.mem_singleton] at ha; subst ha
    unfold mainEach at hx; split at hx <;> simp at hx <;> subst hx <;> rfl

theorem reachE_init (cfg : Cfg) (threads : Nat) : ReachE cfg (initEach cfg threads) :=
  ⟨reach5_initEach cfg threads, inv4_init cfg threads⟩

theorem ReachE.run {cfg : Cfg} (hch : cfg.cat = .random → ChunksTile cfg) (hmx : 1 ≤ cfg.maxBlock) :
    ∀ (sched : List Choice) {s : St}, ReachE cfg s → ReachE cfg (run cfg s sched)
  | [], _, h => h
  | ch :: rest, _, h =>
    ReachE.run hch hmx rest ⟨⟨h.r5.r.exec hch ch, inv5_exec .body cfg h.r5.r.i3.nb h.r5.i5 ch⟩, inv4_exec cfg cfg.inp hmx h.r5.r.i3 h.i4 ch⟩

theorem idle_rio (ops : List Op) (h : Idle ops) : RIO ops = 0 := by
  induction ops with
  | nil => rfl
  | cons o r ih =>
    obtain ⟨b, j, y, rfl⟩ := h _ (List.mem_cons_self)
    rw [RIO_cons, ih h.tail]; rfl

/-- when the call has returned the whole input sequence has been consumed and the blocks cover it -/
theorem ReachE.consumed {cfg : Cfg} {s : St} (h : ReachE cfg s) (hnr : cfg.cat ≠ .random) (hr : returned s = true) :
    s.iter = cfg.inp.length ∧ lastEnd s.log = cfg.inp.length := by
  obtain ⟨q1, q2⟩ := h.r5.r.quiet hr
  have hA : RIA s.acts = 0 := by
    unfold RIA
    have : ∀ a ∈ s.acts, RIO a.ops = 0 := fun a ha => idle_rio _ (q2 a ha)
    generalize s.acts = l at this
    induction l with
    | nil => rfl
    | cons a r ih =>
      simp only [List.map_cons, List.sum_cons, this a (List.mem_cons_self), ih (fun b hb => this b (List.mem_cons_of_mem _ hb))]
  have hge := h.r5.r.i3.fin rfl hnr (by rw [q1, hA]; rfl)
  have hle := h.i4.le
  have hit : s.iter = cfg.inp.length := by omega
  refine ⟨hit, ?_⟩
  rw [← hit]
  refine h.i4.noloop (fun a ha ⟨b, k, its, hx⟩ => ?_)
  obtain ⟨_, _, _, e⟩ := q2 a ha _ hx
  cases e

end TbbVerif.C05.Each
