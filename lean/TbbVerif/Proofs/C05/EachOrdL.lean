/-
C05 — parallel_for_each, item lifetime, part 4: whatever can still call the body on slot `j` of block `b` refers to a copy that
has been made, and in the log every body start / end on a slot of block `b` comes after that copy and before any destruction of
an item of block `b`.
-/
import TbbVerif.Proofs.C05.EachOrdM

namespace TbbVerif.C05.Each

/-- every body start / end on a slot of a block happens after the copy into that slot and before any item of that block is
destroyed (the log is most recent first) -/
def LifeOK : List Act → Prop
  | [] => True
  | a :: l => (∀ x b j, (a = .bodyS x (.slot b j) ∨ a = .bodyE x (.slot b j)) → Act.copy b j x ∈ l ∧ ∀ j' x', Act.destroy b j' x' ∉ l) ∧ LifeOK l

/-- what an operation refers to exists -/
def RefOK (cfg : Cfg) (log : List Act) (o : Op) : Prop :=
  (∀ b' x b j, o = .spawn (.iter b' x (.slot b j)) → Act.copy b j x ∈ log) ∧
  (∀ x b j, o = .body x (.slot b j) ∨ o = .act (.bodyE x (.slot b j)) → Act.copy b j x ∈ log) ∧
  (∀ b k0 items, o = .rootLoop b k0 items → cfg.cat = .input → ∀ j x, items[j]? = some x → Act.copy b j x ∈ log)

structure InvL (cfg : Cfg) (s : St) : Prop where
  refp : ∀ t ∈ s.pool, ∀ b' x b j, t = .iter b' x (.slot b j) → Act.copy b j x ∈ s.log
  refa : ∀ a ∈ s.acts, ∀ o ∈ a.ops, RefOK cfg s.log o
  life : LifeOK s.log

theorem RefOK.mono {cfg : Cfg} {log log' : List Act} {o : Op} (h : RefOK cfg log o) (hsub : ∀ a ∈ log, a ∈ log') : RefOK cfg log' o :=
  ⟨fun b' x b j e => hsub _ (h.1 b' x b j e), fun x b j e => hsub _ (h.2.1 x b j e), fun b k0 items e hc j x hj => hsub _ (h.2.2 b k0 items e hc j x hj)⟩

/-- operations that refer to no slot -/
def NoRef (o : Op) : Prop :=
  (∀ b' x b j, o ≠ .spawn (.iter b' x (.slot b j))) ∧ (∀ x b j, o ≠ .body x (.slot b j)) ∧ (∀ x b j, o ≠ .act (.bodyE x (.slot b j))) ∧
  (∀ b k0 items, o ≠ .rootLoop b k0 items)

theorem RefOK_of_noRef {cfg : Cfg} {log : List Act} {o : Op} (h : NoRef o) : RefOK cfg log o :=
  ⟨fun b' x b j e => absurd e (h.1 b' x b j), fun x b j e => e.elim (fun e => absurd e (h.2.1 x b j)) (fun e => absurd e (h.2.2.1 x b j)),
   fun b k0 items e => absurd e (h.2.2.2 b k0 items)⟩

/-- a log entry that is not a body start / end on a slot -/
def PlainL (a : Act) : Prop := ∀ x b j, a ≠ .bodyS x (.slot b j) ∧ a ≠ .bodyE x (.slot b j)

theorem lifeOK_plain : ∀ (nl l : List Act), (∀ a ∈ nl, PlainL a) → LifeOK l → LifeOK (nl ++ l)
  | [], _, _, h => h
  | a :: r, l, hp, h => by
    refine ⟨fun x b j e => ?_, lifeOK_plain r l (fun y hy => hp y (List.mem_cons_of_mem _ hy)) h⟩
    have := hp a List.mem_cons_self x b j
    rcases e with e | e
    · exact absurd e this.1
    · exact absurd e this.2

theorem feedOps_noRef (tid : Nat) (ys : List Nat) : ∀ o ∈ feedOps tid ys, NoRef o := by
  intro o ho
  rcases feedOps_mem tid ys o ho with rfl | ⟨y, rfl⟩ <;> refine ⟨?_, ?_, ?_, ?_⟩ <;> intros <;> simp

theorem pforOps_noRef (cfg : Cfg) (b : Nat) : ∀ (cs : List (Nat × Nat)), ∀ o ∈ pforOps cfg b cs, NoRef o
  | [], _, h => by cases h
  | (lo, hi) :: cs, o, h => by
    simp only [pforOps, List.mem_cons] at h
    rcases h with rfl | rfl | h
    · refine ⟨?_, ?_, ?_, ?_⟩ <;> intros <;> simp
    · refine ⟨?_, ?_, ?_, ?_⟩ <;> intros <;> simp
    · exact pforOps_noRef cfg b cs o h

theorem destroys_noRef (b : Nat) : ∀ (i : Nat) (xs : List Nat), ∀ o ∈ destroys b i xs, NoRef o
  | _, [], _, h => by cases h
  | i, x :: xs, o, h => by
    simp only [destroys, List.mem_cons] at h
    rcases h with rfl | h
    · refine ⟨?_, ?_, ?_, ?_⟩ <;> intros <;> simp
    · exact destroys_noRef b (i + 1) xs o h

theorem srcOf_slot (c : Cat) (b' k0 i b j : Nat) (h : srcOf c b' k0 i = .slot b j) : c = .input ∧ b = b' ∧ j = i := by
  cases c <;> simp [srcOf] at h
  exact ⟨rfl, h.1.symm, h.2.symm⟩

theorem blockSpawns_ref (cfg : Cfg) (log : List Act) (c : Cat) (b' k0 : Nat) (all : List Nat)
    (hall : c = .input → ∀ j x, all[j]? = some x → Act.copy b' j x ∈ log) :
    ∀ (i : Nat) (xs : List Nat), (∀ m x, xs[m]? = some x → all[i + m]? = some x) → ∀ o ∈ blockSpawns c b' k0 i xs, RefOK cfg log o
  | _, [], _, _, h => by cases h
  | i, y :: ys, hxs, o, h => by
    simp only [blockSpawns, List.mem_cons] at h
    rcases h with rfl | rfl | h
    · exact RefOK_of_noRef (by refine ⟨?_, ?_, ?_, ?_⟩ <;> intros <;> simp)
    · refine ⟨fun b'' x b j e => ?_, (fun x b j e => by rcases e with e | e <;> cases e), fun _ _ _ e => by cases e⟩
      simp only [Op.spawn.injEq, Task.iter.injEq] at e
      obtain ⟨_, rfl, hsrc⟩ := e
      obtain ⟨hc, rfl, rfl⟩ := srcOf_slot c b' k0 i b j hsrc
      exact hall hc j y (by have := hxs 0 y (by simp); simpa using this)
    · exact blockSpawns_ref cfg log c b' k0 all hall (i + 1) ys (fun m x hm => by have := hxs (m + 1) x (by simpa using hm); rw [show i + 1 + m = i + (m + 1) by omega]; exact this) o h

theorem blockCode_ref (cfg : Cfg) (log : List Act) (c : Cat) (b' k0 : Nat) (items : List Nat)
    (hall : c = .input → ∀ j x, items[j]? = some x → Act.copy b' j x ∈ log) : ∀ o ∈ blockCode c b' k0 items, RefOK cfg log o := by
  intro o ho
  cases items with
  | nil =>
    simp only [blockCode, List.mem_singleton] at ho; subst ho
    exact RefOK_of_noRef (by refine ⟨?_, ?_, ?_, ?_⟩ <;> intros <;> simp)
  | cons y ys =>
    simp only [blockCode, List.mem_append, List.mem_cons] at ho
    rcases ho with (ho | ho) | ho
    · exact blockSpawns_ref cfg log c b' k0 (y :: ys) hall 1 ys (fun m x hm => by rw [show 1 + m = m + 1 by omega]; simpa using hm) o ho
    · rcases ho with rfl | rfl | rfl | rfl | rfl | ho
      rotate_left 5
      · cases ho
      · exact RefOK_of_noRef (by refine ⟨?_, ?_, ?_, ?_⟩ <;> intros <;> simp)
      · refine ⟨(fun _ _ _ _ e => by cases e), fun x b j e => ?_, fun _ _ _ e => by cases e⟩
        rcases e with e | e
        · simp only [Op.body.injEq] at e
          obtain ⟨rfl, hsrc⟩ := e
          obtain ⟨hc, rfl, rfl⟩ := srcOf_slot c b' k0 0 b j hsrc
          exact hall hc 0 y (by simp)
        · cases e
      · exact RefOK_of_noRef (by refine ⟨?_, ?_, ?_, ?_⟩ <;> intros <;> simp)
      · exact RefOK_of_noRef (by refine ⟨?_, ?_, ?_, ?_⟩ <;> intros <;> simp)
      · exact RefOK_of_noRef (by refine ⟨?_, ?_, ?_, ?_⟩ <;> intros <;> simp)
    · by_cases hc : c = .input
      · rw [if_pos hc] at ho
        exact RefOK_of_noRef (destroys_noRef b' 0 (y :: ys) o ho)
      · rw [if_neg hc] at ho
        cases ho

theorem invl_step {cfg : Cfg} {s s' : St} (h : InvL cfg s) (i : Nat) (a : Actv) (op : Op) (rest e : List Op) (newp : List Task) (newlog : List Act)
    (hi : s.acts[i]? = some a) (ho : a.ops = op :: rest)
    (hacts : s'.acts = s.acts.set i { a with ops := e ++ rest }) (hpool : s'.pool = s.pool ++ newp) (hlog : s'.log = newlog ++ s.log)
    (hrefe : RefOK cfg s.log op → ∀ o ∈ e, RefOK cfg (newlog ++ s.log) o)
    (hrefp : RefOK cfg s.log op → ∀ t ∈ newp, ∀ b' x b j, t = .iter b' x (.slot b j) → Act.copy b j x ∈ newlog ++ s.log)
    (hlife : RefOK cfg s.log op → LifeOK (newlog ++ s.log)) : InvL cfg s' := by
  have hm : a ∈ s.acts := List.mem_of_getElem? hi
  have hop : RefOK cfg s.log op := h.refa a hm op (by rw [ho]; exact List.mem_cons_self)
  have hsub : ∀ y ∈ s.log, y ∈ newlog ++ s.log := fun y hy => List.mem_append_right _ hy
  refine ⟨?_, ?_, by rw [hlog]; exact hlife hop⟩
  · intro t ht b' x b j e1
    rw [hpool] at ht
    rw [hlog]
    rcases List.mem_append.1 ht with h1 | h1
    · exact hsub _ (h.refp t h1 b' x b j e1)
    · exact hrefp hop t h1 b' x b j e1
  · intro a' ha' o ho'
    rw [hacts] at ha'
    rw [hlog]
    rcases List.mem_or_eq_of_mem_set ha' with h1 | h1
    · exact (h.refa a' h1 o ho').mono hsub
    · subst h1
      rcases List.mem_append.1 ho' with h2 | h2
      · exact hrefe hop o h2
      · exact (h.refa a hm o (by rw [ho]; exact List.mem_cons_of_mem _ h2)).mono hsub

theorem plainL_one {y : Act} (h : PlainL y) : ∀ z ∈ [y], PlainL z := fun z hz => by simp only [List.mem_singleton] at hz; subst hz; exact h

theorem invl_exec (cfg : Cfg) {s : St} (h1 : Inv1 cfg.cat s) (h2 : Inv2 cfg.cat s) (hA : InvA s) (hM : InvM s)
    (hnb : ∀ a ∈ s.acts, ∀ y src, Op.act (.bodyS y src) ∉ a.ops) (h : InvL cfg s) (ch : Choice) :
    InvL cfg (exec cfg s ch) := by
  cases ch with
  | start j tid =>
    simp only [exec]
    split
    · rename_i t ht
      have htm : t ∈ s.pool := List.mem_of_getElem? ht
      refine ⟨fun t' ht' => h.refp t' (List.mem_of_mem_eraseIdx ht'), ?_, h.life⟩
      intro a ha o ho
      rcases List.mem_append.1 ha with h3 | h3
      · exact h.refa a h3 o ho
      · simp only [List.mem_singleton] at h3; subst h3
        cases t with
        | iter b' x src =>
          simp only [code, List.mem_cons, List.not_mem_nil, or_false] at ho
          rcases ho with rfl | rfl
          · refine ⟨(fun _ _ _ _ e => by cases e), fun x' b j e => ?_, fun _ _ _ e => by cases e⟩
            rcases e with e | e
            · simp only [Op.body.injEq] at e
              obtain ⟨rfl, rfl⟩ := e
              exact h.refp _ htm b' x b j rfl
            · cases e
          · exact RefOK_of_noRef (by refine ⟨?_, ?_, ?_, ?_⟩ <;> intros <;> simp)
        | chunk b' lo xs =>
          simp only [code, List.mem_append, List.mem_map, List.mem_singleton] at ho
          rcases ho with ⟨p, _, rfl⟩ | rfl <;> exact RefOK_of_noRef (by refine ⟨?_, ?_, ?_, ?_⟩ <;> intros <;> simp)
        | root => simp only [code, List.mem_singleton] at ho; subst ho; exact RefOK_of_noRef (by refine ⟨?_, ?_, ?_, ?_⟩ <;> intros <;> simp)
        | feed x v =>
          simp only [code, List.mem_cons, List.not_mem_nil, or_false] at ho
          rcases ho with rfl | rfl <;> exact RefOK_of_noRef (by refine ⟨?_, ?_, ?_, ?_⟩ <;> intros <;> simp)
        | subroot f1 f2 f3 => simp only [code, List.mem_singleton] at ho; subst ho; exact RefOK_of_noRef (by refine ⟨?_, ?_, ?_, ?_⟩ <;> intros <;> simp)
        | inv f c =>
          simp only [code, List.mem_cons, List.not_mem_nil, or_false] at ho
          rcases ho with rfl | rfl | rfl <;> exact RefOK_of_noRef (by refine ⟨?_, ?_, ?_, ?_⟩ <;> intros <;> simp)
    · exact h
  | step i =>
    simp only [exec]
    split
    · rename_i a hi
      split
      · rename_i op rest ho
        have hm : a ∈ s.acts := List.mem_of_getElem? hi
        have hopm : op ∈ a.ops := by rw [ho]; exact List.mem_cons_self
        -- a body start / end on a slot of block b is possible only while nothing of block b has been destroyed
        have hnodes : ∀ b, liveO b op = 1 → ∀ j' x', Act.destroy b j' x' ∉ s.log := by
          intro b hl j' x' hx
          have hmb := hM.logd b j' x' hx
          have := (live_zero h1 h2 (fun a ha => hA.snb a ha b) hmb).2 a hm op hopm
          omega
        have hzero : ∀ (s' : St) (e : List Op) (newlog : List Act), s'.acts = s.acts.set i { a with ops := e ++ rest } → s'.pool = s.pool →
            s'.log = newlog ++ s.log → (∀ o ∈ e, NoRef o) → (∀ y ∈ newlog, PlainL y) → InvL cfg s' := by
          intro s' e newlog e1 e2 e3 e4 e5
          exact invl_step h i a op rest e [] newlog hi ho e1 (by simpa using e2) e3 (fun _ o ho' => RefOK_of_noRef (e4 o ho')) (fun _ _ ht => by cases ht)
            (fun _ => lifeOK_plain _ _ e5 h.life)
        cases op with
        | reserve c' n =>
          obtain ⟨f1, f2, _, f4, _⟩ := reserve_frame s c' n
          exact hzero _ [] [] (by simp [stepOp, setOps, f2]) (by simp [stepOp, setOps, f1]) (by simp [stepOp, setOps, f4]) (fun _ ho' => by cases ho') (fun _ hy => by cases hy)
        | release c' =>
          obtain ⟨f1, f2, f3, _⟩ := release_frame s c'
          exact hzero _ [] [] (by simp [stepOp, setOps, f2]) (by simp [stepOp, setOps, f1]) (by simp [stepOp, setOps, f3]) (fun _ ho' => by cases ho') (fun _ hy => by cases hy)
        | spawn t =>
          refine invl_step h i a _ rest [] [t] [.spawn t] hi ho (by simp [stepOp, setOps]) rfl rfl (fun _ _ ho' => by cases ho') (fun hop t' ht' b' x b j e => ?_)
            (fun _ => lifeOK_plain _ _ (plainL_one (fun _ _ _ => ⟨by simp, by simp⟩)) h.life)
          simp only [List.mem_singleton] at ht'; subst ht'
          exact List.mem_append_right _ (hop.1 b' x b j (by rw [e]))
        | await c' =>
          simp only [stepOp]
          split
          · exact hzero _ [] [.pass c'] (by simp [setOps]) (by simp [setOps]) rfl (fun _ ho' => by cases ho') (plainL_one (fun _ _ _ => ⟨by simp, by simp⟩))
          · exact h
        | act y =>
          refine invl_step h i a _ rest [] [] [y] hi ho (by simp [stepOp, setOps]) (by simp [stepOp, setOps]) rfl (fun _ _ ho' => by cases ho') (fun _ _ ht => by cases ht) (fun hop => ?_)
          refine ⟨fun x b j e => ?_, h.life⟩
          rcases e with e | e
          · -- `act (bodyS …)` is never an operation
            subst e
            exact absurd hopm (hnb a hm x (.slot b j))
          · subst e
            exact ⟨hop.2.1 x b j (Or.inr rfl), hnodes b (by simp [liveO, isSlot])⟩
        | body y src =>
          refine invl_step h i a _ rest (feedOps a.tid (cfg.feeds y) ++ [.act (.bodyE y src)]) [] [.bodyS y src] hi ho (by simp [stepOp, setOps]) (by simp [stepOp, setOps]) rfl
            (fun hop o ho' => ?_) (fun _ _ ht => by cases ht) (fun hop => ?_)
          · rcases List.mem_append.1 ho' with h3 | h3
            · exact RefOK_of_noRef (feedOps_noRef _ _ o h3)
            · simp only [List.mem_singleton] at h3; subst h3
              refine ⟨(fun _ _ _ _ e => by cases e), fun x b j e => ?_, fun _ _ _ e => by cases e⟩
              rcases e with e | e
              · cases e
              · simp only [Op.act.injEq, Act.bodyE.injEq] at e
                obtain ⟨rfl, rfl⟩ := e
                exact List.mem_append_right _ (hop.2.1 y b j (Or.inl rfl))
          · refine ⟨fun x b j e => ?_, h.life⟩
            rcases e with e | e
            · simp only [Act.bodyS.injEq] at e
              obtain ⟨rfl, rfl⟩ := e
              exact ⟨hop.2.1 y b j (Or.inl rfl), hnodes b (by simp [liveO, isSlot])⟩
            · cases e
        | subExec f1 f2 f3 =>
          refine hzero _ [.spawn (.inv f3 (.kid s.kid.length)), .spawn (.inv f2 (.kid s.kid.length)), .act (.callS f1), .act (.callE f1), .release (.kid s.kid.length)]
            [.arm s.kid.length] (by simp [stepOp, setOps]) rfl rfl (fun o ho' => ?_) (plainL_one (fun _ _ _ => ⟨by simp, by simp⟩))
          simp only [List.mem_cons, List.not_mem_nil, or_false] at ho'
          rcases ho' with rfl | rfl | rfl | rfl | rfl <;> refine ⟨?_, ?_, ?_, ?_⟩ <;> intros <;> simp
        | rootExec =>
          simp only [stepOp]
          split
          · refine hzero _ (pforOps cfg s.blk.length cfg.chunks ++ [.await (.blk s.blk.length), .release .root]) [.pfor s.blk.length] (by simp [setOps]) rfl rfl
              (fun o ho' => ?_) (plainL_one (fun _ _ _ => ⟨by simp, by simp⟩))
            rcases List.mem_append.1 ho' with h3 | h3
            · exact pforOps_noRef _ _ _ o h3
            · simp only [List.mem_cons, List.not_mem_nil, or_false] at h3
              rcases h3 with rfl | rfl <;> refine ⟨?_, ?_, ?_, ?_⟩ <;> intros <;> simp
          · split
            · refine invl_step h i a _ rest [.reserve .root 1, .rootLoop s.blk.length s.iter []] [] [.cmp s.iter] hi ho (by simp [setOps]) (by simp [setOps]) rfl
                (fun _ o ho' => ?_) (fun _ _ ht => by cases ht) (fun _ => lifeOK_plain _ _ (plainL_one (fun _ _ _ => ⟨by simp, by simp⟩)) h.life)
              simp only [List.mem_cons, List.not_mem_nil, or_false] at ho'
              rcases ho' with rfl | rfl
              · exact RefOK_of_noRef (by refine ⟨?_, ?_, ?_, ?_⟩ <;> intros <;> simp)
              · refine ⟨(fun _ _ _ _ e => by cases e), (fun _ _ _ e => by rcases e with e | e <;> cases e), fun b k0 items e _ j x hj => ?_⟩
                simp only [Op.rootLoop.injEq] at e
                obtain ⟨_, _, rfl⟩ := e
                simp at hj
            · exact hzero _ [.release .root] [.cmp s.iter] (by simp [setOps]) rfl rfl
                (fun o ho' => by simp only [List.mem_singleton] at ho'; subst ho'; refine ⟨?_, ?_, ?_, ?_⟩ <;> intros <;> simp)
                (plainL_one (fun _ _ _ => ⟨by simp, by simp⟩))
          · split
            · refine invl_step h i a _ rest [.rootLoop s.blk.length s.iter []] [] [.cmp s.iter] hi ho (by simp [setOps]) (by simp [setOps]) rfl
                (fun _ o ho' => ?_) (fun _ _ ht => by cases ht) (fun _ => lifeOK_plain _ _ (plainL_one (fun _ _ _ => ⟨by simp, by simp⟩)) h.life)
              simp only [List.mem_singleton] at ho'; subst ho'
              refine ⟨(fun _ _ _ _ e => by cases e), (fun _ _ _ e => by rcases e with e | e <;> cases e), fun b k0 items e _ j x hj => ?_⟩
              simp only [Op.rootLoop.injEq] at e
              obtain ⟨_, _, rfl⟩ := e
              simp at hj
            · exact hzero _ [.release .root] [.cmp s.iter] (by simp [setOps]) rfl rfl
                (fun o ho' => by simp only [List.mem_singleton] at ho'; subst ho'; refine ⟨?_, ?_, ?_, ?_⟩ <;> intros <;> simp)
                (plainL_one (fun _ _ _ => ⟨by simp, by simp⟩))
        | rootLoop b' k0 items =>
          have hexit : InvL cfg (setOps { s with log := .block b' k0 items.length :: s.log } i a (loopExit cfg.cat b' k0 items ++ rest)) := by
            refine invl_step h i a _ rest (loopExit cfg.cat b' k0 items) [] [.block b' k0 items.length] hi ho (by simp [setOps]) (by simp [setOps]) rfl
              (fun hop o ho' => ?_) (fun _ _ ht => by cases ht) (fun _ => lifeOK_plain _ _ (plainL_one (fun _ _ _ => ⟨by simp, by simp⟩)) h.life)
            unfold loopExit at ho'
            rcases List.mem_append.1 ho' with h3 | h3
            · split at h3 <;> simp at h3
              subst h3; exact RefOK_of_noRef (by refine ⟨?_, ?_, ?_, ?_⟩ <;> intros <;> simp)
            · simp only [List.mem_cons] at h3
              rcases h3 with rfl | h3
              · exact RefOK_of_noRef (by refine ⟨?_, ?_, ?_, ?_⟩ <;> intros <;> simp)
              · refine blockCode_ref cfg _ cfg.cat b' k0 items (fun hc j x hj => ?_) o h3
                exact List.mem_cons_of_mem _ (hop.2.2 b' k0 items rfl hc j x hj)
          simp only [stepOp]
          split
          · split
            · rename_i y hy hlt
              refine invl_step h i a _ rest [.rootLoop b' k0 (items ++ [y])] [] (if cfg.cat = .input then [Act.inc s.iter, .copy b' items.length y, .deref s.iter] else [Act.inc s.iter])
                hi ho (by simp [setOps]) (by simp [setOps]) rfl (fun hop o ho' => ?_) (fun _ _ ht => by cases ht)
                (fun _ => lifeOK_plain _ _ (fun z hz => by split at hz <;> simp at hz <;> (rcases hz with rfl | rfl | rfl) <;> intro _ _ _ <;> exact ⟨by simp, by simp⟩) h.life)
              simp only [List.mem_singleton] at ho'; subst ho'
              refine ⟨(fun _ _ _ _ e => by cases e), (fun _ _ _ e => by rcases e with e | e <;> cases e), fun b k0' items' e hc j x hj => ?_⟩
              simp only [Op.rootLoop.injEq] at e
              obtain ⟨rfl, rfl, rfl⟩ := e
              rw [getElem?_append_one] at hj
              split at hj
              · rename_i hjl
                simp only [Option.some.injEq] at hj
                subst hj; subst hjl
                simp [hc]
              · exact List.mem_append_right _ (hop.2.2 b' k0 items rfl hc j x hj)
            · exact hexit
          · exact hexit
      · exact h
    · exact h

theorem invl_init (cfg : Cfg) (threads : Nat) : InvL cfg (initEach cfg threads) := by
  have hmain : (initEach cfg threads).acts = [{ tid := 0, ops := mainEach cfg }] := rfl
  refine ⟨(fun t ht => by cases ht), ?_, trivial⟩
  intro a ha o ho
  rw [hmain] at ha; simp only [List.mem_singleton] at ha; subst ha
  refine RefOK_of_noRef ?_
  unfold mainEach at ho
  split at ho <;> simp at ho
  · subst ho; refine ⟨?_, ?_, ?_, ?_⟩ <;> intros <;> simp
  · rcases ho with rfl | rfl | rfl | rfl <;> refine ⟨?_, ?_, ?_, ?_⟩ <;> intros <;> simp

/-! ### all invariants of parallel_for_each together -/

structure ReachO (cfg : Cfg) (s : St) : Prop where
  l : ReachL cfg s
  a : InvA s
  m : InvM s
  o : InvL cfg s

theorem reachO_init (cfg : Cfg) (threads : Nat) : ReachO cfg (initEach cfg threads) :=
  ⟨reachL_init cfg threads, inva_init cfg threads, invm_init cfg threads, invl_init cfg threads⟩

theorem ReachO.exec {cfg : Cfg} (hch : cfg.cat = .random → ChunksTile cfg) (hmx : 1 ≤ cfg.maxBlock) {s : St} (h : ReachO cfg s) (ch : Choice) :
    ReachO cfg (exec cfg s ch) :=
  ⟨ReachL.run hch hmx [ch] h.l, inva_exec cfg h.a ch, invm_exec cfg h.l.e.i4.marks h.m ch,
   invl_exec cfg h.l.e.r5.r.i1 h.l.e.r5.r.i2 h.a h.m h.l.e.r5.r.i3.nb h.o ch⟩

theorem ReachO.run {cfg : Cfg} (hch : cfg.cat = .random → ChunksTile cfg) (hmx : 1 ≤ cfg.maxBlock) :
    ∀ (sched : List Choice) {s : St}, ReachO cfg s → ReachO cfg (run cfg s sched)
  | [], _, h => h
  | ch :: rest, _, h => ReachO.run hch hmx rest (h.exec hch hmx ch)

end TbbVerif.C05.Each
