/-
C05 — index form, part 2: the body wrapper's regenerated index arithmetic (`Index k = my_begin + b*ms; …; k += ms`)
passes `first + i * step` to the functor at iteration `i` of the blocked_range `[0, cnt)`, without wrap-around.
-/
import TbbVerif.Proofs.C05.Stride

namespace TbbVerif.C05
open TbbVerif.Cint TbbVerif.Generated.C05Stride

/-- generic step for a signed Index type: `idx0` and `next` are exact whenever the mathematical value is representable -/
theorem indexS_of {half : Int} {cnt : Int → Int → Int → Int} {idx0 : Int → Int → Int → Int} {next : Int → Int → Int}
    (hc : CountExactS half cnt)
    (h0 : ∀ mb ms b, 0 ≤ b * ms → b * ms < half → -half ≤ mb → mb + b * ms < half → idx0 mb ms b = mb + b * ms)
    (hn : ∀ k ms, -half ≤ k + ms → k + ms < half → next k ms = k + ms) :
    IndexExactS half cnt idx0 next := by
  intro first last step a b j hb
  obtain ⟨_, _, hc1, _⟩ := hc first last step a
  have hlo := a.lo
  have hhi := a.hi
  have hext := a.ext
  induction j with
  | zero =>
    intro hlt
    have hm := imul_bound (k := b) hb (by simpa using hlt) a.sp hc1
    have e : b + ((0 : Nat) : Int) = b := by simp
    simp only [chunkVal, e]
    exact h0 first step b hm.1 (by omega) hlo (by omega)
  | succ j ih =>
    intro hlt
    have hlt' : b + (j : Int) < cnt first last step := by omega
    have hm := imul_bound (k := b + ((j + 1 : Nat) : Int)) (by omega) hlt a.sp hc1
    have hm' := imul_bound (k := b + (j : Int)) (by omega) hlt' a.sp hc1
    rw [isucc_mul] at hm
    simp only [chunkVal]
    rw [ih hlt', isucc_mul, ← Int.add_assoc]
    exact hn _ _ (by omega) (by omega)

theorem indexU_of {top : Nat} {cnt : Nat → Nat → Nat → Nat} {idx0 : Nat → Nat → Nat → Nat} {next : Nat → Nat → Nat}
    (hc : CountExactU top cnt)
    (h0 : ∀ mb ms b, mb + b * ms < top → idx0 mb ms b = mb + b * ms)
    (hn : ∀ k ms, k + ms < top → next k ms = k + ms) :
    IndexExactU top cnt idx0 next := by
  intro first last step a b j
  obtain ⟨_, _, hc1, _⟩ := hc first last step a
  have hhi := a.hi
  have hlt0 := a.lt
  induction j with
  | zero =>
    intro hlt
    have hm := nmul_bound (k := b) (by simpa using hlt) hc1
    simp only [chunkVal, Nat.add_zero]
    exact h0 first step b (by omega)
  | succ j ih =>
    intro hlt
    have hlt' : b + j < cnt first last step := by omega
    have hm := nmul_bound (k := b + (j + 1)) hlt hc1
    rw [nsucc_mul] at hm
    simp only [chunkVal]
    rw [ih hlt', nsucc_mul, ← Nat.add_assoc]
    exact hn _ _ (by omega)

/-! ### the six instances -/

theorem index_i16 : IndexExactS 32768 cnt_i16 idx0_i16 idxNext_i16 ∧ IndexExactS 32768 cntCtx_i16 idx0_i16 idxNext_i16 := by
  have h0 : ∀ mb ms b : Int, 0 ≤ b * ms → b * ms < 32768 → -32768 ≤ mb → mb + b * ms < 32768 → idx0_i16 mb ms b = mb + b * ms := by
    intro mb ms b h1 h2 h3 h4; unfold idx0_i16; simp (disch := omega) only [wrapS16_id, wrapS32_id]
  have hn : ∀ k ms : Int, -32768 ≤ k + ms → k + ms < 32768 → idxNext_i16 k ms = k + ms := by
    intro k ms h1 h2; unfold idxNext_i16; simp (disch := omega) only [wrapS16_id, wrapS32_id]
  exact ⟨indexS_of (countS_of_eq cnt_i16_eq) h0 hn, indexS_of (countS_of_eq cntCtx_i16_eq) h0 hn⟩

theorem index_i32 : IndexExactS 2147483648 cnt_i32 idx0_i32 idxNext_i32 ∧ IndexExactS 2147483648 cntCtx_i32 idx0_i32 idxNext_i32 := by
  have h0 : ∀ mb ms b : Int, 0 ≤ b * ms → b * ms < 2147483648 → -2147483648 ≤ mb → mb + b * ms < 2147483648 → idx0_i32 mb ms b = mb + b * ms := by
    intro mb ms b h1 h2 h3 h4; unfold idx0_i32; simp (disch := omega) only [wrapS32_id]
  have hn : ∀ k ms : Int, -2147483648 ≤ k + ms → k + ms < 2147483648 → idxNext_i32 k ms = k + ms := by
    intro k ms h1 h2; unfold idxNext_i32; simp (disch := omega) only [wrapS32_id]
  exact ⟨indexS_of (countS_of_eq cnt_i32_eq) h0 hn, indexS_of (countS_of_eq cntCtx_i32_eq) h0 hn⟩

theorem index_i64 : IndexExactS 9223372036854775808 cnt_i64 idx0_i64 idxNext_i64 ∧ IndexExactS 9223372036854775808 cntCtx_i64 idx0_i64 idxNext_i64 := by
  have h0 : ∀ mb ms b : Int, 0 ≤ b * ms → b * ms < 9223372036854775808 → -9223372036854775808 ≤ mb → mb + b * ms < 9223372036854775808 →
      idx0_i64 mb ms b = mb + b * ms := by
    intro mb ms b h1 h2 h3 h4; unfold idx0_i64; simp (disch := omega) only [wrapS64_id]
  have hn : ∀ k ms : Int, -9223372036854775808 ≤ k + ms → k + ms < 9223372036854775808 → idxNext_i64 k ms = k + ms := by
    intro k ms h1 h2; unfold idxNext_i64; simp (disch := omega) only [wrapS64_id]
  exact ⟨indexS_of (countS_of_eq cnt_i64_eq) h0 hn, indexS_of (countS_of_eq cntCtx_i64_eq) h0 hn⟩

theorem index_u16 : IndexExactU 65536 cnt_u16 idx0_u16 idxNext_u16 ∧ IndexExactU 65536 cntCtx_u16 idx0_u16 idxNext_u16 := by
  have h0 : ∀ mb ms b : Nat, mb + b * ms < 65536 → idx0_u16 mb ms b = mb + b * ms := by
    intro mb ms b h; unfold idx0_u16
    rw [← Int.natCast_mul]
    generalize b * ms = p at h ⊢
    rw [wrapS32_id (x := (p : Int)) (by omega) (by omega), ← Int.natCast_add, wrapS32_id (by omega) (by omega), wrapU16_nat h]
  have hn : ∀ k ms : Nat, k + ms < 65536 → idxNext_u16 k ms = k + ms := by
    intro k ms h; unfold idxNext_u16
    rw [← Int.natCast_add, wrapS32_id (by omega) (by omega), wrapU16_nat h]
  exact ⟨indexU_of (countU_of_eq cnt_u16_eq) h0 hn, indexU_of (countU_of_eq cntCtx_u16_eq) h0 hn⟩

theorem index_u32 : IndexExactU 4294967296 cnt_u32 idx0_u32 idxNext_u32 ∧ IndexExactU 4294967296 cntCtx_u32 idx0_u32 idxNext_u32 := by
  have h0 : ∀ mb ms b : Nat, mb + b * ms < 4294967296 → idx0_u32 mb ms b = mb + b * ms := by
    intro mb ms b h; unfold idx0_u32
    generalize b * ms = p at h ⊢
    rw [Nat.mod_eq_of_lt (a := p) (by omega), Nat.mod_eq_of_lt (by omega)]
  have hn : ∀ k ms : Nat, k + ms < 4294967296 → idxNext_u32 k ms = k + ms := by
    intro k ms h; unfold idxNext_u32; exact Nat.mod_eq_of_lt (by omega)
  exact ⟨indexU_of (countU_of_eq cnt_u32_eq) h0 hn, indexU_of (countU_of_eq cntCtx_u32_eq) h0 hn⟩

theorem index_u64 : IndexExactU 18446744073709551616 cnt_u64 idx0_u64 idxNext_u64 ∧ IndexExactU 18446744073709551616 cntCtx_u64 idx0_u64 idxNext_u64 := by
  have h0 : ∀ mb ms b : Nat, mb + b * ms < 18446744073709551616 → idx0_u64 mb ms b = mb + b * ms := by
    intro mb ms b h; unfold idx0_u64
    generalize b * ms = p at h ⊢
    rw [Nat.mod_eq_of_lt (a := p) (by omega), Nat.mod_eq_of_lt (by omega)]
  have hn : ∀ k ms : Nat, k + ms < 18446744073709551616 → idxNext_u64 k ms = k + ms := by
    intro k ms h; unfold idxNext_u64; exact Nat.mod_eq_of_lt (by omega)
  exact ⟨indexU_of (countU_of_eq cnt_u64_eq) h0 hn, indexU_of (countU_of_eq cntCtx_u64_eq) h0 hn⟩

end TbbVerif.C05
