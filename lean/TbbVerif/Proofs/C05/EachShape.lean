/-
C05 — parallel_for_each / parallel_invoke task system: static shape of the operation lists.

`Stat e`: facts every operation list the code produces satisfies — reference-non-negative suffixes (`SN`), no `done`,
every `reserve (blk b)` is followed by `await (blk b)` (`RA`), every suffix that still contains a block wait still owes
the root a reference (`AR`).
-/
import TbbVerif.Proofs.C05.EachAcc

namespace TbbVerif.C05.Each

/-- only item destructions left (what `~input_block_handling_task` does after the block's reference was released) -/
def Idle (ops : List Op) : Prop := ∀ o ∈ ops, ∃ b j x, o = .act (.destroy b j x)

/-- every `reserve` of a block counter is followed, in the same activation, by the wait on that counter -/
def RA : List Op → Prop
  | [] => True
  | o :: r => (∀ b n, o = .reserve (.blk b) n → .await (.blk b) ∈ r) ∧ RA r

def HasAw (ops : List Op) : Prop := ∃ b, Op.await (.blk b) ∈ ops

/-- every suffix that contains a block wait gives back at least one root reference -/
def AR (cat : Cat) : List Op → Prop
  | [] => True
  | o :: r => (HasAw (o :: r) → 1 ≤ W cat .root (o :: r)) ∧ AR cat r

structure Stat (cat : Cat) (e : List Op) : Prop where
  sn : ∀ c, SN cat c e
  nd : Op.act .done ∉ e
  ra : RA e
  ar : AR cat e

theorem Idle.weightless {cat : Cat} {c : Ctr} {ops : List Op} (h : Idle ops) : W cat c ops = 0 := by
  refine (SN_of_weightless ops ?_).2
  intro o ho
  obtain ⟨b, j, x, rfl⟩ := h o ho
  rfl

theorem Idle.tail {o : Op} {r : List Op} (h : Idle (o :: r)) : Idle r := fun x hx => h x (List.mem_cons_of_mem _ hx)

theorem RA.append : ∀ {a b : List Op}, RA a → RA b → RA (a ++ b)
  | [], _, _, hb => hb
  | o :: r, b, ha, hb => by
    refine ⟨fun b' n e => ?_, RA.append ha.2 hb⟩
    exact List.mem_append_left _ (ha.1 b' n e)

theorem RA.head_await {o : Op} {r : List Op} (h : RA (o :: r)) {b n : Nat} (e : o = .reserve (.blk b) n) : Op.await (.blk b) ∈ r :=
  h.1 b n e

theorem AR.whole {cat : Cat} : ∀ {ops : List Op}, AR cat ops → HasAw ops → 1 ≤ W cat .root ops
  | [], _, ⟨_, hb⟩ => by cases hb
  | _ :: _, h, ha => h.1 ha

theorem AR.append {cat : Cat} {a b : List Op} (ha : AR cat a) (hb : AR cat b) (sa : SN cat .root a) (sb : SN cat .root b) :
    AR cat (a ++ b) := by
  induction a with
  | nil => exact hb
  | cons o r ih =>
    show (HasAw (o :: (r ++ b)) → 1 ≤ W cat .root (o :: (r ++ b))) ∧ AR cat (r ++ b)
    refine ⟨fun haw => ?_, ih ha.2 sa.2⟩
    obtain ⟨b', hm⟩ := haw
    have e : W cat .root (o :: (r ++ b)) = W cat .root (o :: r) + W cat .root b := by
      rw [W_cons, W_append, W_cons]; omega
    rw [e]
    have hm' : Op.await (.blk b') ∈ (o :: r) ++ b := hm
    rcases List.mem_append.1 hm' with h1 | h1
    · have := ha.1 ⟨b', h1⟩
      have := sb.nonneg
      omega
    · have := hb.whole ⟨b', h1⟩
      have := sa.1
      omega

theorem RA_of_noReserve : ∀ (ops : List Op), (∀ o ∈ ops, ∀ b n, o ≠ .reserve (.blk b) n) → RA ops
  | [], _ => trivial
  | o :: r, h => ⟨fun b n e => absurd e (h o (List.mem_cons_self) b n), RA_of_noReserve r (fun x hx => h x (List.mem_cons_of_mem _ hx))⟩

theorem AR_of_noAwait (cat : Cat) : ∀ (ops : List Op), ¬ HasAw ops → AR cat ops
  | [], _ => trivial
  | o :: r, h => ⟨fun ha => absurd ha h, AR_of_noAwait cat r (fun ⟨b, hb⟩ => h ⟨b, List.mem_cons_of_mem _ hb⟩)⟩

theorem Stat.append {cat : Cat} {a b : List Op} (ha : Stat cat a) (hb : Stat cat b) : Stat cat (a ++ b) :=
  ⟨fun c => SN.append (ha.sn c) (hb.sn c), fun h => (List.mem_append.1 h).elim ha.nd hb.nd, RA.append ha.ra hb.ra,
   AR.append ha.ar hb.ar (ha.sn .root) (hb.sn .root)⟩

theorem Stat.nil (cat : Cat) : Stat cat [] := ⟨fun _ => trivial, by simp, trivial, trivial⟩

/-- a list without block reserves, block waits and `done` -/
theorem Stat.simple {cat : Cat} (e : List Op) (hsn : ∀ c, SN cat c e)
    (h : ∀ o ∈ e, o ≠ .act .done ∧ (∀ b n, o ≠ .reserve (.blk b) n) ∧ ∀ b, o ≠ .await (.blk b)) : Stat cat e :=
  ⟨hsn, fun hm => (h _ hm).1 rfl, RA_of_noReserve e (fun o ho => (h o ho).2.1),
   AR_of_noAwait cat e (fun ⟨b, hb⟩ => (h _ hb).2.2 b rfl)⟩

/-! ### the expansions -/

theorem feedOps_mem (tid : Nat) (ys : List Nat) (o : Op) (h : o ∈ feedOps tid ys) :
    o = .reserve (.kid tid) 1 ∨ ∃ y, o = .spawn (.feed y tid) := by
  simp only [feedOps, List.mem_flatMap, List.mem_cons, List.not_mem_nil, or_false] at h
  obtain ⟨y, _, h | h⟩ := h
  · exact Or.inl h
  · exact Or.inr ⟨y, h⟩

theorem stat_body (cat : Cat) (tid : Nat) (ys : List Nat) (x : Nat) (src : Src) :
    Stat cat (feedOps tid ys ++ [.act (.bodyE x src)]) := by
  refine Stat.simple _ (fun c => SN.append (feedOps_w cat c tid ys).1 ⟨by simp [w], trivial⟩) ?_
  intro o ho
  rcases List.mem_append.1 ho with h | h
  · rcases feedOps_mem tid ys o h with rfl | ⟨y, rfl⟩ <;> simp
  · simp only [List.mem_singleton] at h; subst h; simp

theorem stat_code (cat : Cat) (t : Task) : Stat cat (code t) := by
  refine Stat.simple _ (fun c => (code_w cat c t).1) ?_
  intro o ho
  cases t with
  | chunk b lo xs =>
    simp only [code, List.mem_append, List.mem_map, List.mem_singleton] at ho
    rcases ho with ⟨p, _, rfl⟩ | rfl <;> simp
  | root => simp only [code, List.mem_singleton] at ho; subst ho; simp
  | iter b x src => simp only [code, List.mem_cons, List.not_mem_nil, or_false] at ho; rcases ho with rfl | rfl <;> simp
  | feed x v => simp only [code, List.mem_cons, List.not_mem_nil, or_false] at ho; rcases ho with rfl | rfl <;> simp
  | subroot f1 f2 f3 => simp only [code, List.mem_singleton] at ho; subst ho; simp
  | inv f c' => simp only [code, List.mem_cons, List.not_mem_nil, or_false] at ho; rcases ho with rfl | rfl | rfl <;> simp

theorem destroys_idle (b : Nat) : ∀ (j : Nat) (xs : List Nat), Idle (destroys b j xs)
  | _, [] => fun _ h => by cases h
  | j, x :: xs => by
    intro o ho
    simp only [destroys, List.mem_cons] at ho
    rcases ho with rfl | ho
    · exact ⟨b, j, x, rfl⟩
    · exact destroys_idle b (j + 1) xs o ho

theorem stat_idle (cat : Cat) (ops : List Op) (h : Idle ops) : Stat cat ops := by
  refine Stat.simple _ (fun c => (SN_of_weightless ops (fun o ho => by obtain ⟨b, j, x, rfl⟩ := h o ho; rfl)).1) ?_
  intro o ho
  obtain ⟨b, j, x, rfl⟩ := h o ho
  simp

/-- the part of a block's code from the last `reserve` on -/
theorem stat_blockTail (cat : Cat) (b x : Nat) (src : Src) (post : List Op) (hp : Idle post) :
    Stat cat ([.reserve (.blk b) 1, .body x src, .release (.blk b), .await (.blk b), .release .root] ++ post) := by
  have hw : ∀ c, W cat c post = 0 := fun c => hp.weightless
  have hst := stat_idle cat post hp
  refine ⟨fun c => (blockTail_w cat c b x src post (hst.sn c) (hw c)).1, ?_, ?_, ?_⟩
  · intro h
    simp only [List.cons_append, List.nil_append, List.mem_cons, reduceCtorEq, false_or] at h
    exact hst.nd h
  · simp only [List.cons_append, List.nil_append, RA]
    refine ⟨?_, ?_, ?_, ?_, ?_, hst.ra⟩
    · intro b' n e; cases e; simp
    all_goals (intro b' n e; cases e)
  · simp only [List.cons_append, List.nil_append, AR, W_cons, w, hw .root]
    refine ⟨fun _ => by simp, fun _ => by simp, fun _ => by simp, fun _ => by simp, ?_, hst.ar⟩
    intro ⟨b', hb⟩
    simp only [List.mem_cons, reduceCtorEq, false_or] at hb
    obtain ⟨_, _, _, e⟩ := hp _ hb
    cases e

theorem mem_await_append_right {b : Nat} (a r : List Op) (h : Op.await (.blk b) ∈ r) : Op.await (.blk b) ∈ a ++ r :=
  List.mem_append_right _ h

/-- pairs `reserve (blk b); spawn t` in front of a list that contains the wait on `blk b` -/
theorem stat_pairs (cat : Cat) (b : Nat) (tail : List Op) (ht : Stat cat tail) (haw : Op.await (.blk b) ∈ tail)
    (hroot : 1 ≤ W cat .root tail) :
    ∀ (ts : List Task), (∀ t ∈ ts, ∀ c, holds c t = if c = .blk b then 1 else 0) →
      Stat cat (ts.flatMap (fun t => [Op.reserve (.blk b) 1, .spawn t]) ++ tail) ∧
      (∀ c, W cat c (ts.flatMap (fun t => [Op.reserve (.blk b) 1, .spawn t]) ++ tail) = W cat c tail)
  | [], _ => ⟨by simpa using ht, fun c => by simp⟩
  | t :: ts, h => by
    obtain ⟨ih, ihw⟩ := stat_pairs cat b tail ht haw hroot ts (fun t' ht' => h t' (List.mem_cons_of_mem _ ht'))
    have e : (t :: ts).flatMap (fun t => [Op.reserve (.blk b) 1, .spawn t]) ++ tail =
        .reserve (.blk b) 1 :: .spawn t :: (ts.flatMap (fun t => [Op.reserve (.blk b) 1, .spawn t]) ++ tail) := by
      simp [List.flatMap_cons]
    rw [e]
    have hp := fun c => sn_pair cat c (.blk b) t _ (h t (List.mem_cons_self) c) (ih.sn c)
    have haw' : Op.await (.blk b) ∈ ts.flatMap (fun t => [Op.reserve (.blk b) 1, .spawn t]) ++ tail := List.mem_append_right _ haw
    refine ⟨⟨fun c => (hp c).1, ?_, ?_, ?_⟩, fun c => by rw [(hp c).2, ihw c]⟩
    · intro hm
      simp only [List.mem_cons, reduceCtorEq, false_or] at hm
      exact ih.nd hm
    · refine ⟨fun b' n e' => ?_, ⟨fun b' n e' => (by cases e'), ih.ra⟩⟩
      cases e'
      exact List.mem_cons_of_mem _ haw'
    · have h1 : W cat .root (Op.reserve (.blk b) 1 :: .spawn t :: (ts.flatMap (fun t => [Op.reserve (.blk b) 1, .spawn t]) ++ tail)) = W cat .root tail := by
        rw [(hp .root).2, ihw .root]
      refine ⟨fun _ => by rw [h1]; exact hroot, ⟨fun _ => ?_, ih.ar⟩⟩
      have h2 := h1
      rw [W_cons] at h2
      simp only [w, reduceCtorEq, if_false] at h2
      omega

theorem blockSpawns_eq (cat : Cat) (b k0 : Nat) : ∀ (j : Nat) (xs : List Nat),
    blockSpawns cat b k0 j xs = (xs.zipIdx j).flatMap (fun p => [Op.reserve (.blk b) 1, .spawn (.iter b p.1 (srcOf cat b k0 p.2))])
  | _, [] => rfl
  | j, x :: xs => by simp [blockSpawns, List.zipIdx_cons, List.flatMap_cons, blockSpawns_eq cat b k0 (j + 1) xs]

theorem pforOps_eq (cfg : Cfg) (b : Nat) : ∀ (cs : List (Nat × Nat)),
    pforOps cfg b cs = cs.flatMap (fun p => [Op.reserve (.blk b) 1, .spawn (.chunk b p.1 (cfg.inp.extract p.1 p.2))])
  | [] => rfl
  | (lo, hi) :: cs => by simp [pforOps, List.flatMap_cons, pforOps_eq cfg b cs]

theorem flatMap_pairs {α : Type} (f : α → Task) (b : Nat) (l : List α) :
    l.flatMap (fun p => [Op.reserve (.blk b) 1, .spawn (f p)]) = (l.map f).flatMap (fun t => [Op.reserve (.blk b) 1, .spawn t]) := by
  induction l with
  | nil => rfl
  | cons x xs ih => simp [List.flatMap_cons, ih]

theorem stat_blockCode (cat : Cat) (b k0 : Nat) (items : List Nat) : Stat cat (blockCode cat b k0 items) := by
  cases items with
  | nil =>
    refine Stat.simple _ (fun c => (blockCode_w cat c b k0 []).1) ?_
    intro o ho
    simp only [blockCode, List.mem_singleton] at ho
    subst ho; simp
  | cons x xs =>
    simp only [blockCode]
    have hpost : Idle (if cat = .input then destroys b 0 (x :: xs) else []) := by
      split
      · exact destroys_idle b 0 (x :: xs)
      · intro o ho; cases ho
    have ht := stat_blockTail cat b x (srcOf cat b k0 0) _ hpost
    rw [List.append_assoc, blockSpawns_eq, flatMap_pairs (fun (p : Nat × Nat) => Task.iter b p.1 (srcOf cat b k0 p.2))]
    refine (stat_pairs cat b _ ht (by simp) ?_ _ ?_).1
    · rw [(blockTail_w cat .root b x _ _ (ht.sn .root |> fun _ => (stat_idle cat _ hpost).sn .root) hpost.weightless).2]; simp
    · intro t ht' c
      simp only [List.mem_map] at ht'
      obtain ⟨p, _, rfl⟩ := ht'
      simp [holds]

theorem stat_pfor (cfg : Cfg) (b : Nat) : Stat cfg.cat (pforOps cfg b cfg.chunks ++ [.await (.blk b), .release .root]) := by
  have ht : Stat cfg.cat [Op.await (.blk b), .release .root] := by
    refine ⟨fun c => ?_, by simp, ?_, ?_⟩
    · simp only [SN, W_cons, W_nil, w]; refine ⟨?_, ?_, trivial⟩ <;> split <;> omega
    · simp only [RA]; refine ⟨?_, ?_, trivial⟩ <;> (intro b' n e; cases e)
    · simp only [AR, W_cons, W_nil, w]
      refine ⟨fun _ => by simp, ?_, trivial⟩
      intro ⟨b', hb⟩; simp at hb
  rw [pforOps_eq, flatMap_pairs (fun (p : Nat × Nat) => Task.chunk b p.1 (cfg.inp.extract p.1 p.2))]
  refine (stat_pairs cfg.cat b _ ht (by simp) (by simp [w]) _ ?_).1
  intro t ht' c
  simp only [List.mem_map] at ht'
  obtain ⟨p, _, rfl⟩ := ht'
  simp [holds]

theorem stat_loopExit (cat : Cat) (b k0 : Nat) (items : List Nat) :
    Stat cat (loopExit cat b k0 items) := by
  have hb := stat_blockCode cat b k0 items
  have hbw := fun c => (blockCode_w cat c b k0 items).2
  have hmid : Stat cat (.spawn .root :: blockCode cat b k0 items) := by
    refine ⟨fun c => ?_, ?_, ?_, ?_⟩
    · simp only [SN, W_cons, w, holds, hbw c]
      refine ⟨?_, hb.sn c⟩; split <;> omega
    · intro h; simp at h; exact hb.nd h
    · exact ⟨fun _ _ e => (by cases e), hb.ra⟩
    · simp only [AR, W_cons, w, holds, hbw .root]
      exact ⟨fun _ => by simp, hb.ar⟩
  unfold loopExit
  split
  · refine ⟨fun c => ?_, ?_, ?_, ?_⟩
    · simp only [List.cons_append, List.nil_append]
      refine ⟨?_, hmid.sn c⟩
      simp only [W_cons, w, holds, hbw c]; split <;> simp
    · intro h; simp at h; exact hb.nd h
    · exact ⟨fun _ _ e => (by cases e), hmid.ra⟩
    · simp only [List.cons_append, List.nil_append]
      refine ⟨fun _ => ?_, hmid.ar⟩
      simp only [W_cons, w, holds, hbw .root]; simp
  · simpa using hmid

end TbbVerif.C05.Each
