/-
C05 — partition objects: the invariant that makes every proportion handed to a range legal, and its
preservation by the splitting constructors / decision methods of partitioner.h.
-/
import TbbVerif.Proofs.C05.Tree

namespace TbbVerif.C05

/-- `x & (0ul - 2^k)` rounds `x` down to a multiple of `2^k` -/
theorem and_neg_pow2 (x k : Nat) (hk : k ≤ 64) (hx : x < 2 ^ 64) : x &&& (2 ^ 64 - 2 ^ k) = x / 2 ^ k * 2 ^ k := by
  apply Nat.eq_of_testBit_eq
  intro j
  have e : 2 ^ 64 - 2 ^ k = (2 ^ (64 - k) - 1) * 2 ^ k := by
    rw [Nat.sub_mul, ← Nat.pow_add, Nat.one_mul]
    congr 2
    omega
  rw [Nat.testBit_and, e, Nat.testBit_mul_two_pow, Nat.testBit_mul_two_pow, Nat.testBit_two_pow_sub_one,
    Nat.testBit_div_two_pow]
  by_cases hkj : k ≤ j
  · have hjk : j - k + k = j := by omega
    rw [hjk]
    by_cases hj : j < 64
    · have : j - k < 64 - k := by omega
      simp [hkj, this]
    · have hx' : x < 2 ^ j := Nat.lt_of_lt_of_le hx (Nat.pow_le_pow_right (by omega) (by omega))
      have : x.testBit j = false := Nat.testBit_lt_two_pow hx'
      simp [this]
  · simp [hkj]

/-- the affinity factor (`affinity_partition_type::factor`, generated) -/
abbrev AffF : Nat := Generated.C05.affinityFactor

/-- structural base-2 logarithm (kept apart from `Nat.log2` so that it evaluates by `decide`) -/
def lg : Nat → Nat → Nat
  | 0, _ => 0
  | f + 1, n => if n ≤ 1 then 0 else 1 + lg f (n / 2)

theorem affF_pow : AffF = 2 ^ lg 64 AffF ∧ lg 64 AffF ≤ 64 := by decide

theorem affF_pos : 0 < AffF := by decide

/-- the rounding expression of `proportional_mode::do_split` is the identity on multiples of the factor:
`(right*factor + factor/2) & (0ul - factor) = right*factor` -/
theorem portion_eq (k : Kind) (r : Nat) (hr : r < 2 ^ 24) :
    (Cint.addU64 (Cint.mulU64 r (factor k)) (factor k / 2)) &&& (Cint.subU64 0 (factor k)) = r * factor k := by
  have hF : factor k = 1 ∨ factor k = AffF := by cases k <;> simp [factor]
  rcases hF with h | h
  · rw [h]
    have e1 : Cint.subU64 0 1 = 2 ^ 64 - 2 ^ 0 := by unfold Cint.subU64; omega
    have e2 : Cint.addU64 (Cint.mulU64 r 1) (1 / 2) = r := by unfold Cint.addU64 Cint.mulU64; omega
    rw [e1, e2, and_neg_pow2 r 0 (by omega) (by omega)]
    simp
  · rw [h]
    obtain ⟨hp, hk⟩ := affF_pow
    have hpos := affF_pos
    have hlt : AffF ≤ 2 ^ 32 := by decide
    have e1 : Cint.subU64 0 AffF = 2 ^ 64 - 2 ^ lg 64 AffF := by
      rw [← hp]; unfold Cint.subU64; omega
    have hm : r * AffF < 2 ^ 56 := by
      calc r * AffF < 2 ^ 24 * AffF := Nat.mul_lt_mul_of_pos_right hr hpos
        _ ≤ 2 ^ 24 * 2 ^ 32 := Nat.mul_le_mul_left _ hlt
        _ = 2 ^ 56 := by rw [← Nat.pow_add]
    have e2 : Cint.addU64 (Cint.mulU64 r AffF) (AffF / 2) = r * AffF + AffF / 2 := by
      unfold Cint.addU64 Cint.mulU64
      have : AffF / 2 ≤ 2 ^ 32 := by omega
      omega
    rw [e1, e2, and_neg_pow2 _ _ hk (by omega), ← hp]
    have : (r * AffF + AffF / 2) / AffF = r := by
      rw [Nat.mul_comm, Nat.mul_add_div hpos]
      have : AffF / 2 / AffF = 0 := Nat.div_eq_of_lt (by omega)
      omega
    rw [this]

/-- Invariant of a partition object: the divisor is small enough for `float`, and for the affinity
partitioner it is a multiple of the factor as long as it exceeds the factor. -/
def PartInv (p : Part) : Prop :=
  match p.kind with
  | .static => p.divisor < 2 ^ 24
  | .affinity => p.divisor < 2 ^ 24 * AffF ∧ (p.divisor ≤ AffF ∨ p.divisor % AffF = 0)
  | _ => True

/-- additional fact inside the range pool loop: an affinity task has no more than `factor` slots left -/
def PoolInv (p : Part) : Prop := p.kind = .affinity → p.divisor ≤ AffF

theorem partInv_init (k : Kind) (P slot : Nat) (hP : P < 2 ^ 24) : PartInv (initPart k P slot) := by
  cases k <;> simp [initPart, PartInv, Generated.C05.staticDivPerThread, Generated.C05.affinityDivPerThread,
    Generated.C05.affinityFactor] <;> omega

/-- what `get_split` produces when `is_divisible()` said yes -/
theorem propOK_of_divisible (p p' : Part) (hk : p.kind = .static ∨ p.kind = .affinity) (hi : PartInv p)
    (hd : partIsDivisible p = (true, p')) :
    p' = p ∧ PropOK (p.divisor / factor p.kind - p.divisor / factor p.kind / 2) (p.divisor / factor p.kind / 2) := by
  rcases hk with hk | hk
  · unfold partIsDivisible at hd
    rw [hk] at hd
    simp only [Prod.mk.injEq, decide_eq_true_eq] at hd
    unfold PartInv at hi
    rw [hk] at hi
    simp only at hi
    refine ⟨hd.2.symm, ?_⟩
    rw [hk]
    simp only [factor, Nat.div_one]
    exact propOK_of_n _ (by omega) hi
  · unfold partIsDivisible at hd
    rw [hk] at hd
    simp only [Prod.mk.injEq, decide_eq_true_eq] at hd
    unfold PartInv at hi
    rw [hk] at hi
    simp only at hi
    refine ⟨hd.2.symm, ?_⟩
    rw [hk]
    have hgt : p.divisor > AffF := hd.1
    have hmod : p.divisor % AffF = 0 := by
      rcases hi.2 with h | h
      · omega
      · exact h
    have hlt := hi.1
    simp only [factor]
    have hpos := affF_pos
    refine propOK_of_n _ ?_ ?_
    · have : AffF * 2 ≤ p.divisor := by
        have := Nat.div_add_mod p.divisor AffF
        rw [hmod] at this
        have h1 : 1 < p.divisor / AffF := by
          apply Decidable.by_contra
          intro hc
          have : p.divisor / AffF ≤ 1 := by omega
          have : AffF * (p.divisor / AffF) ≤ AffF * 1 := Nat.mul_le_mul_left _ this
          omega
        calc AffF * 2 ≤ AffF * (p.divisor / AffF) := Nat.mul_le_mul_left _ h1
          _ ≤ p.divisor := by omega
      exact (Nat.le_div_iff_mul_le hpos).2 (by rw [Nat.mul_comm]; exact this)
    · exact (Nat.div_lt_iff_lt_mul hpos).2 hlt

theorem partPSplit_static (p : Part) (hk : p.kind = .static) (hi : p.divisor < 2 ^ 24) (r : Nat) (hr : r ≤ p.divisor) (l : Nat) :
    partPSplit p l r = ({ p with divisor := p.divisor - r },
      { kind := p.kind, divisor := r, maxDepth := p.maxDepth, delay := 0, head := (p.head + (p.divisor - r)) % p.maxAff, maxAff := p.maxAff }) := by
  have hport := portion_eq p.kind r (by omega)
  have hF : factor p.kind = 1 := by rw [hk]; rfl
  rw [hF] at hport
  have hsub : Cint.subU64 p.divisor r = p.divisor - r := by unfold Cint.subU64; omega
  unfold partPSplit
  simp only [hF, hport, Nat.mul_one, hsub]

theorem partPSplit_affinity (p : Part) (hk : p.kind = .affinity) (hi : p.divisor < 2 ^ 24 * AffF) (r : Nat) (hr : r * AffF ≤ p.divisor)
    (l : Nat) :
    partPSplit p l r = ({ p with divisor := p.divisor - r * AffF },
      { kind := p.kind, divisor := r * AffF, maxDepth := p.maxDepth, delay := 0, head := (p.head + (p.divisor - r * AffF)) % p.maxAff,
        maxAff := p.maxAff }) := by
  have hpos := affF_pos
  have hr24 : r < 2 ^ 24 := by
    apply Decidable.by_contra
    intro hc
    have : 2 ^ 24 * AffF ≤ r * AffF := Nat.mul_le_mul_right _ (by omega)
    omega
  have hport := portion_eq p.kind r hr24
  have hF : factor p.kind = AffF := by rw [hk]; rfl
  rw [hF] at hport
  have hlt : AffF ≤ 2 ^ 32 := by decide
  have h56 : 2 ^ 24 * AffF ≤ 2 ^ 56 := by
    calc 2 ^ 24 * AffF ≤ 2 ^ 24 * 2 ^ 32 := Nat.mul_le_mul_left _ hlt
      _ = 2 ^ 56 := by rw [← Nat.pow_add]
  generalize hX : r * AffF = X at *
  have hsub : Cint.subU64 p.divisor X = p.divisor - X := by unfold Cint.subU64; omega
  unfold partPSplit
  simp only [hF, hport, hsub]

/-- `Partition(src, proportional_split)` keeps the invariant for both objects -/
theorem partPSplit_inv (p : Part) (hk : p.kind = .static ∨ p.kind = .affinity) (hi : PartInv p)
    (hgt : p.divisor > factor p.kind) (n : Nat) (hn : n = p.divisor / factor p.kind) :
    PartInv (partPSplit p (n - n / 2) (n / 2)).1 ∧ PartInv (partPSplit p (n - n / 2) (n / 2)).2 ∧
    (partPSplit p (n - n / 2) (n / 2)).1.kind = p.kind ∧ (partPSplit p (n - n / 2) (n / 2)).2.kind = p.kind := by
  have hpos := affF_pos
  rcases hk with hk | hk
  · have hF : factor p.kind = 1 := by rw [hk]; rfl
    unfold PartInv at hi
    rw [hk] at hi
    simp only at hi
    rw [hF, Nat.div_one] at hn
    rw [partPSplit_static p hk hi (n / 2) (by omega)]
    refine ⟨?_, ?_, rfl, rfl⟩
    · unfold PartInv; simp only [hk]; omega
    · unfold PartInv; simp only [hk]; omega
  · have hF : factor p.kind = AffF := by rw [hk]; rfl
    rw [hF] at hgt hn
    unfold PartInv at hi
    rw [hk] at hi
    simp only at hi
    have hmod : p.divisor % AffF = 0 := by
      rcases hi.2 with h | h
      · omega
      · exact h
    have hdm := Nat.div_add_mod p.divisor AffF
    rw [hmod, ← hn] at hdm
    have hle : n / 2 * AffF ≤ p.divisor := by
      have : n / 2 * AffF ≤ n * AffF := Nat.mul_le_mul_right _ (Nat.div_le_self _ _)
      rw [Nat.mul_comm n] at this
      omega
    rw [partPSplit_affinity p hk hi.1 (n / 2) hle]
    have hsrc : p.divisor - n / 2 * AffF = (n - n / 2) * AffF := by
      rw [Nat.sub_mul, Nat.mul_comm n]
      omega
    refine ⟨?_, ?_, rfl, rfl⟩
    · unfold PartInv
      simp only [hk]
      refine ⟨by omega, Or.inr ?_⟩
      rw [hsrc]; exact Nat.mul_mod_left _ _
    · unfold PartInv
      simp only [hk]
      exact ⟨Nat.lt_of_le_of_lt hle hi.1, Or.inr (Nat.mul_mod_left _ _)⟩

/-- `Partition(src, split)` (halving) keeps the invariants when the affinity divisor is within the factor -/
theorem partSplit_inv (p : Part) (hi : PartInv p) (hp : PoolInv p) (hk : p.kind = .auto ∨ p.kind = .affinity) :
    PartInv (partSplit p).1 ∧ PoolInv (partSplit p).1 ∧ PartInv (partSplit p).2 ∧
    (partSplit p).1.kind = p.kind ∧ (partSplit p).2.kind = p.kind := by
  rcases hk with hk | hk
  · unfold partSplit PartInv PoolInv
    simp [hk]
  · have h := hp hk
    unfold PartInv at hi
    rw [hk] at hi
    simp only at hi
    unfold partSplit PartInv PoolInv
    simp only [hk]
    refine ⟨⟨by omega, Or.inl (by omega)⟩, fun _ => by omega, ⟨by omega, Or.inl (by omega)⟩, trivial, trivial⟩

end TbbVerif.C05
