/-
C05 — blocked_range<size_t>: both splitting constructors cut a divisible range strictly inside, so the
range type satisfies the laws `RangeSem` the partitioner proofs need.
-/
import TbbVerif.Proofs.C05.PropSplit

namespace TbbVerif.C05

/-- well-formed 1-d range: `begin ≤ end < 2^64`, `grainsize ≥ 1` (the constructor's assertion) -/
def WF1 (r : R1) : Prop := r.b ≤ r.e ∧ r.e < 2 ^ 64 ∧ 1 ≤ r.g

/-- index `i` lies in `[begin, end)` -/
def mem1 (i : Nat) (r : R1) : Bool := decide (r.b ≤ i ∧ i < r.e)

theorem R1.size_eq {r : R1} (h : WF1 r) : r.size = r.e - r.b := by
  obtain ⟨h1, h2, _⟩ := h
  unfold R1.size Cint.subU64
  omega

theorem R1.divisible_iff {r : R1} (h : WF1 r) : r.divisible = true ↔ r.g < r.e - r.b := by
  unfold R1.divisible
  rw [R1.size_eq h]
  simp

theorem R1.isEmpty_iff (r : R1) : r.isEmpty = false ↔ r.b < r.e := by
  unfold R1.isEmpty; simp

/-- midpoint split of a divisible range: `begin < middle < end` -/
theorem splitMid_spec {r : R1} (h : WF1 r) (hd : r.divisible = true) :
    ∃ m, splitMid r = ({ r with e := m }, { r with b := m }) ∧ r.b < m ∧ m < r.e ∧ m = r.b + (r.e - r.b) / 2 := by
  have hs := R1.size_eq h
  have hd' := (R1.divisible_iff h).1 hd
  obtain ⟨h1, h2, h3⟩ := h
  refine ⟨r.b + (r.e - r.b) / 2, ?_, by omega, by omega, rfl⟩
  unfold splitMid
  simp only [hs]
  have : Cint.addU64 r.b ((r.e - r.b) / 2) = r.b + (r.e - r.b) / 2 := by
    unfold Cint.addU64; omega
  rw [this]

/-- proportional split of a divisible range with a legal proportion: `begin < cut < end` -/
theorem splitProp_spec {r : R1} {l rt : Nat} {a c : R1} (h : WF1 r) (hd : r.divisible = true) (hok : PropOK l rt)
    (hs : splitProp r l rt = some (a, c)) :
    ∃ m, a = { r with e := m } ∧ c = { r with b := m } ∧ r.b < m ∧ m < r.e := by
  have hsz := R1.size_eq h
  have hd' := (R1.divisible_iff h).1 hd
  obtain ⟨h1, h2, h3⟩ := h
  unfold splitProp at hs
  split at hs
  · cases hs
  · rename_i rp hrp
    have hb := propRightPart_bounds r.size l rt rp (by omega) hok hrp
    simp only [Option.some.injEq, Prod.mk.injEq] at hs
    have hm : Cint.subU64 r.e rp = r.e - rp := by unfold Cint.subU64; omega
    rw [hm] at hs
    exact ⟨r.e - rp, hs.1.symm, hs.2.symm, by omega, by omega⟩

theorem splitProp_isSome {r : R1} {l rt : Nat} (h : WF1 r) (hd : r.divisible = true) (hok : PropOK l rt) :
    ∃ a c, splitProp r l rt = some (a, c) := by
  have hsz := R1.size_eq h
  have hd' := (R1.divisible_iff h).1 hd
  obtain ⟨h1, h2, h3⟩ := h
  obtain ⟨rp, hrp⟩ := propRightPart_isSome r.size l rt (by omega) (by omega) hok
  unfold splitProp
  rw [hrp]
  exact ⟨_, _, rfl⟩

theorem mem1_split (b m e g g' g'' i : Nat) (h1 : b ≤ m) (h2 : m ≤ e) :
    (mem1 i { b := b, e := m, g := g }).toNat + (mem1 i { b := m, e := e, g := g' }).toNat =
      (mem1 i { b := b, e := e, g := g'' }).toNat := by
  unfold mem1
  simp only
  by_cases ha : b ≤ i ∧ i < m <;> by_cases hb : m ≤ i ∧ i < e <;> by_cases hc : b ≤ i ∧ i < e <;>
    simp [ha, hb, hc] <;> omega

/-- blocked_range<size_t> satisfies the Range laws -/
def sem1 : RangeSem ops1 where
  Pt := Nat
  memb := mem1
  WF := WF1
  empty_no_mem := by
    intro r p _ he
    have : ¬ r.b < r.e := by
      have : r.isEmpty = true := he
      unfold R1.isEmpty at this; simpa using this
    unfold mem1; simp; omega
  split_ok := by
    intro r a b hw hne hd hs
    have hne' : r.b < r.e := (R1.isEmpty_iff r).1 hne
    obtain ⟨m, hm, h1, h2, _⟩ := splitMid_spec hw hd
    have : ops1.split r = splitMid r := rfl
    rw [this, hm] at hs
    obtain ⟨ha, hb⟩ := Prod.mk.inj hs
    subst ha; subst hb
    obtain ⟨w1, w2, w3⟩ := hw
    refine ⟨⟨by simp; omega, by simp; omega, w3⟩, ⟨by simp; omega, w2, w3⟩, ?_, ?_, ?_⟩
    · exact (R1.isEmpty_iff _).2 (by simp; omega)
    · exact (R1.isEmpty_iff _).2 (by simp; omega)
    · intro p; exact mem1_split r.b m r.e r.g r.g r.g p (by omega) (by omega)
  psplit_ok := by
    intro r l rt a b hw hne hd hok hs
    obtain ⟨m, ha, hb, h1, h2⟩ := splitProp_spec hw hd hok hs
    subst ha; subst hb
    obtain ⟨w1, w2, w3⟩ := hw
    refine ⟨⟨by simp; omega, by simp; omega, w3⟩, ⟨by simp; omega, w2, w3⟩, ?_, ?_, ?_⟩
    · exact (R1.isEmpty_iff _).2 (by simp; omega)
    · exact (R1.isEmpty_iff _).2 (by simp; omega)
    · intro p; exact mem1_split r.b m r.e r.g r.g r.g p (by omega) (by omega)

end TbbVerif.C05
