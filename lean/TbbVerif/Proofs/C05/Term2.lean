/-
C05 — termination, part 2: one task, the task tree.
-/
import TbbVerif.Proofs.C05.Term

namespace TbbVerif.C05

section
variable {σ : Type} {E : Env σ}

/-! ### `execTask` by kind, for an arbitrary fuel (stated generically so that the kernel never unfolds the fuel) -/

theorem execTask_eq_simple (fuel : Nat) (r : R1) (p : Part) (s : σ) (hk : p.kind = .simple) (t' : TS R1 σ)
    (e1 : simpleExec ops1 E fuel ({ range := r, part := p, env := s } : TS R1 σ) = some t') :
    execTask ops1 E fuel r p s = some (t'.evs.reverse, t'.env) := by
  simp only [execTask, hk, e1, Option.map_some]

theorem execTask_eq_static (fuel : Nat) (r : R1) (p : Part) (s : σ) (hk : p.kind = .static) (t1 t' : TS R1 σ)
    (e1 : splitLoop ops1 E fuel ({ range := r, part := p, env := s } : TS R1 σ) = some t1) (e2 : workBalance ops1 E fuel t1 = some t') :
    execTask ops1 E fuel r p s = some (t'.evs.reverse, t'.env) := by
  simp only [execTask, hk, e1, e2, Option.map_some]

theorem execTask_eq_auto (fuel : Nat) (r : R1) (p : Part) (s : σ) (hk : p.kind = .auto) (t1 t' : TS R1 σ)
    (e1 : splitLoop ops1 E fuel (checkBeingStolen E ({ range := r, part := p, env := s } : TS R1 σ)) = some t1) (e2 : workBalance ops1 E fuel t1 = some t') :
    execTask ops1 E fuel r p s = some (t'.evs.reverse, t'.env) := by
  simp only [execTask, hk, e1, e2, Option.map_some]

theorem execTask_eq_affinity (fuel : Nat) (r : R1) (p : Part) (s : σ) (hk : p.kind = .affinity) (t1 t' : TS R1 σ)
    (e1 : splitLoop ops1 E fuel (checkBeingStolen E ({ range := r, part := p, env := s } : TS R1 σ)) = some t1) (e2 : workBalance ops1 E fuel t1 = some t') :
    execTask ops1 E fuel r p s = some (t'.evs.reverse, t'.env) := by
  simp only [execTask, hk, e1, e2, Option.map_some]

/-- **Every task finishes** (any partitioner, any environment) with fuel `2·size + 2`, and runs or drops a chunk. -/
theorem execTask_total (f : Nat) (r : R1) (p : Part) (s : σ) (hg : Good1 r) (hi : PartInv p) (hf : 2 * sz r + 1 ≤ f) :
    ∃ evs s', execTask ops1 E (f + 1) r p s = some (evs, s') ∧ HasWork evs := by
  have hrev : ∀ (t' : TS R1 σ), HasWork t'.evs → HasWork t'.evs.reverse := fun t' h => h.mono (fun e he => List.mem_reverse.2 he)
  have hl0 : Leaves ops1 r (r :: evR ([] : List (Ev R1))) := by simpa using Leaves.refl (ops := ops1) r
  have hk0 : KidsOK E ([] : List (Ev R1)) := ⟨fun _ _ h => (by cases h), fun _ _ h => (by cases h)⟩
  cases hk : p.kind with
  | simple =>
    obtain ⟨t', e1, _, _, c, hc, _⟩ := simpleExec_total (E := E) f ({ range := r, part := p, env := s } : TS R1 σ) hg.1 hg.2 (by show sz r ≤ f; omega)
    exact ⟨_, _, execTask_eq_simple (f + 1) r p s hk t' e1, hrev t' ⟨_, hc, Or.inl ⟨_, rfl⟩⟩⟩
  | static =>
    obtain ⟨t1, e1, g1, s1⟩ := splitLoop_total (E := E) (r0 := r) f ({ range := r, part := p, env := s } : TS R1 σ) hg hl0 hk0 hi
      (by show p.kind ≠ .simple; rw [hk]; simp) (by show sz r ≤ f; omega)
    have s1' : sz t1.range ≤ sz r := s1
    obtain ⟨t', e2, w2⟩ := workBalance_total (E := E) f t1 g1 (by omega)
    exact ⟨_, _, execTask_eq_static (f + 1) r p s hk t1 t' e1 e2, hrev t' w2⟩
  | auto =>
    obtain ⟨c1, c2, c3, c4⟩ := checkBeingStolen_inv (E := E) ({ range := r, part := p, env := s } : TS R1 σ) hi
    obtain ⟨t1, e1, g1, s1⟩ := splitLoop_total (E := E) (r0 := r) f (checkBeingStolen E ({ range := r, part := p, env := s } : TS R1 σ))
      (by rw [c1]; exact hg) (by rw [c1, c2]; exact hl0) (by rw [c2]; exact hk0) c3 (by rw [c4]; show p.kind ≠ .simple; rw [hk]; simp) (by rw [c1]; show sz r ≤ f; omega)
    have s1' : sz t1.range ≤ sz r := by rw [c1] at s1; exact s1
    obtain ⟨t', e2, w2⟩ := workBalance_total (E := E) f t1 g1 (by omega)
    exact ⟨_, _, execTask_eq_auto (f + 1) r p s hk t1 t' e1 e2, hrev t' w2⟩
  | affinity =>
    obtain ⟨c1, c2, c3, c4⟩ := checkBeingStolen_inv (E := E) ({ range := r, part := p, env := s } : TS R1 σ) hi
    obtain ⟨t1, e1, g1, s1⟩ := splitLoop_total (E := E) (r0 := r) f (checkBeingStolen E ({ range := r, part := p, env := s } : TS R1 σ))
      (by rw [c1]; exact hg) (by rw [c1, c2]; exact hl0) (by rw [c2]; exact hk0) c3 (by rw [c4]; show p.kind ≠ .simple; rw [hk]; simp) (by rw [c1]; show sz r ≤ f; omega)
    have s1' : sz t1.range ≤ sz r := by rw [c1] at s1; exact s1
    obtain ⟨t', e2, w2⟩ := workBalance_total (E := E) f t1 g1 (by omega)
    exact ⟨_, _, execTask_eq_affinity (f + 1) r p s hk t1 t' e1 e2, hrev t' w2⟩

/-! ### the task tree -/

theorem kids_work_le (evs : List (Ev R1)) (hg : ∀ x ∈ evR evs, Good1 x) (hw : HasWork evs) : workSz (evKids evs) + 1 ≤ listSz (evR evs) := by
  induction evs with
  | nil => obtain ⟨e, he, _⟩ := hw; cases he
  | cons e es ih =>
    have hle : ∀ es : List (Ev R1), workSz (evKids es) ≤ listSz (evR es) := by
      intro es
      induction es with
      | nil => simp [evKids, workSz, listSz, evR]
      | cons e es ih2 =>
        cases e <;> simp only [evKids, List.filterMap_cons, workSz, listSz, evR_cons, Ev.range] at ih2 ⊢ <;> omega
    have hge := sz_pos (hg e.range (by simp))
    obtain ⟨e', he', hw'⟩ := hw
    rcases List.mem_cons.1 he' with h | h
    · subst h
      have := hle es
      rcases hw' with ⟨r, rfl⟩ | ⟨r, rfl⟩ <;>
        simp only [evKids, List.filterMap_cons, listSz, evR_cons, Ev.range] at this hge ⊢ <;> omega
    · have := ih (fun x hx => hg x (by simp only [evR_cons, List.mem_cons]; exact Or.inr hx)) ⟨e', h, hw'⟩
      cases e <;> simp only [evKids, List.filterMap_cons, workSz, listSz, evR_cons, Ev.range] at this ⊢ <;> omega

/-- **Termination for every partitioner on blocked_range**: fuel `3·(total size) + 3` is enough, for every environment. -/
theorem runTasks_total : ∀ (F : Nat) (work : List (R1 × Part)) (s : σ) (ran dropped : List R1),
    (∀ x ∈ work, Good1 x.1 ∧ PartInv x.2) → 3 * workSz work + 3 ≤ F →
    ∃ res, runTasks ops1 E F work s ran dropped = some res := by
  intro F
  induction F with
  | zero => intro work s ran dropped _ h; omega
  | succ F ih =>
    intro work s ran dropped hw hF
    cases work with
    | nil => exact ⟨_, rfl⟩
    | cons x work =>
      obtain ⟨r, p⟩ := x
      obtain ⟨hg, hi⟩ := hw (r, p) List.mem_cons_self
      simp only at hg hi
      simp only [workSz] at hF
      obtain ⟨f, rfl⟩ : ∃ f, F = f + 1 := ⟨F - 1, by omega⟩
      obtain ⟨evs, s', hex, hwk⟩ := execTask_total (E := E) f r p s hg hi (by omega)
      obtain ⟨hl, hk⟩ := execTask_inv (ops := ops1) (E := E) (f + 1) r p s s' evs hi hex
      obtain ⟨hgood, hsum⟩ := hl.size1 hg
      simp only [runTasks, hex]
      apply ih
      · intro y hy
        rcases List.mem_append.1 hy with hy | hy
        · simp only [evKids, List.mem_filterMap] at hy
          obtain ⟨e, he, hee⟩ := hy
          cases e with
          | spawn r' p' =>
            simp only [Option.some.injEq] at hee
            subst hee
            exact ⟨hgood r' (by simp only [evR, List.mem_map]; exact ⟨_, he, rfl⟩), hk.1 r' p' he⟩
          | body _ => cases hee
          | drop _ => cases hee
        · exact hw y (List.mem_cons_of_mem _ hy)
      · rw [workSz_append]
        have := kids_work_le evs hgood hwk
        omega

end

end TbbVerif.C05
