/-
C05 — parallel_for_each, item lifetime, part 2: every activation keeps the pairing "body call on a slot of block b … release of
blk b" (`SNB`), and iteration tasks that refer to a slot of a block belong to that block.
-/
import TbbVerif.Proofs.C05.EachOrd

namespace TbbVerif.C05.Each

/-- an iteration task whose item lives in slot `j` of block `b` releases `blk b` -/
def WFIt (t : Task) : Prop := ∀ b' x b j, t = .iter b' x (.slot b j) → b' = b

def WFI (ops : List Op) : Prop := ∀ t, Op.spawn t ∈ ops → WFIt t

structure InvA (s : St) : Prop where
  snb : ∀ a ∈ s.acts, ∀ b, SNB b a.ops
  wfa : ∀ a ∈ s.acts, WFI a.ops
  wfp : ∀ t ∈ s.pool, WFIt t

theorem SNB.tail {b : Nat} {o : Op} {r : List Op} (h : SNB b (o :: r)) : SNB b r := h.2

/-- replace the head by zero-weight operations followed by an operation of the same weight -/
theorem SNB.expand_same {b : Nat} {o o' : Op} {rest : List Op} (h : SNB b (o :: rest)) (ho : ub b o' = ub b o) :
    ∀ (z : List Op), (∀ y ∈ z, ub b y = 0) → SNB b (z ++ o' :: rest)
  | [], _ => ⟨by have := h.1; rw [UB_cons] at this ⊢; omega, h.2⟩
  | y :: ys, hz => by
    have ih := SNB.expand_same h ho ys (fun w hw => hz w (List.mem_cons_of_mem _ hw))
    refine ⟨?_, ih⟩
    have := ih.nonneg
    show 0 ≤ UB b (y :: (ys ++ o' :: rest))
    rw [UB_cons, hz y List.mem_cons_self]; omega

theorem feedOps_ub (b tid : Nat) (ys : List Nat) : ∀ y ∈ feedOps tid ys, ub b y = 0 := by
  intro y hy
  rcases feedOps_mem tid ys y hy with rfl | ⟨_, rfl⟩ <;> rfl

theorem blockSpawns_ub (b : Nat) (c : Cat) (b' k0 : Nat) : ∀ (i : Nat) (xs : List Nat), ∀ y ∈ blockSpawns c b' k0 i xs, ub b y = 0
  | _, [], _, h => by cases h
  | i, x :: xs, y, h => by
    simp only [blockSpawns, List.mem_cons] at h
    rcases h with rfl | rfl | h
    · rfl
    · rfl
    · exact blockSpawns_ub b c b' k0 (i + 1) xs y h

theorem pforOps_ub (b : Nat) (cfg : Cfg) (b' : Nat) : ∀ (cs : List (Nat × Nat)), ∀ y ∈ pforOps cfg b' cs, ub b y = 0
  | [], _, h => by cases h
  | (lo, hi) :: cs, y, h => by
    simp only [pforOps, List.mem_cons] at h
    rcases h with rfl | rfl | h
    · rfl
    · rfl
    · exact pforOps_ub b cfg b' cs y h

theorem destroys_ub (b b' : Nat) : ∀ (i : Nat) (xs : List Nat), ∀ y ∈ destroys b' i xs, ub b y = 0
  | _, [], _, h => by cases h
  | i, x :: xs, y, h => by
    simp only [destroys, List.mem_cons] at h
    rcases h with rfl | h
    · rfl
    · exact destroys_ub b b' (i + 1) xs y h

theorem isSlot_srcOf (b : Nat) (c : Cat) (b' k0 i : Nat) : isSlot b (srcOf c b' k0 i) = true → b' = b := by
  cases c <;> simp [srcOf, isSlot]

theorem snb_blockCode (b : Nat) (c : Cat) (b' k0 : Nat) (items : List Nat) : SNB b (blockCode c b' k0 items) := by
  cases items with
  | nil => exact (SNB_of_zero _ (fun o ho => by simp only [blockCode, List.mem_singleton] at ho; subst ho; rfl)).1
  | cons x xs =>
    simp only [blockCode]
    have hpost : ∀ y ∈ (if c = .input then destroys b' 0 (x :: xs) else []), ub b y = 0 := by
      intro y hy; split at hy
      · exact destroys_ub b b' 0 (x :: xs) y hy
      · cases hy
    obtain ⟨p1, p2⟩ := SNB_of_zero (b := b) _ hpost
    have htail : SNB b ([.reserve (.blk b') 1, .body x (srcOf c b' k0 0), .release (.blk b'), .await (.blk b'), .release .root] ++
        (if c = .input then destroys b' 0 (x :: xs) else [])) := by
      simp only [List.cons_append, List.nil_append, SNB, UB_cons, ub, p2]
      refine ⟨?_, ?_, ?_, ?_, ?_, p1⟩
      all_goals (by_cases hs : isSlot b (srcOf c b' k0 0) = true)
      all_goals (first | (have := isSlot_srcOf b c b' k0 0 hs; subst this; simp [hs]) | (simp [hs]; try (split <;> omega)))
    rw [List.append_assoc]
    exact SNB.append (SNB_of_zero _ (blockSpawns_ub b c b' k0 1 xs)).1 htail

theorem wfi_blockCode (c : Cat) (b' k0 : Nat) (items : List Nat) : WFI (blockCode c b' k0 items) := by
  intro t ht b'' x b j e
  subst e
  cases items with
  | nil => simp [blockCode] at ht
  | cons y ys =>
    simp only [blockCode, List.mem_append, List.mem_cons, reduceCtorEq, false_or, List.not_mem_nil, or_false] at ht
    rcases ht with ht | ht
    · -- one of the spawned iteration tasks
      have : ∀ (i : Nat) (xs : List Nat), Op.spawn (.iter b'' x (.slot b j)) ∈ blockSpawns c b' k0 i xs → b'' = b := by
        intro i xs
        induction xs generalizing i with
        | nil => intro h; cases h
        | cons z zs ih =>
          intro h
          simp only [blockSpawns, List.mem_cons, reduceCtorEq, false_or, Op.spawn.injEq, Task.iter.injEq] at h
          rcases h with ⟨rfl, _, hsrc⟩ | h
          · have : isSlot b (srcOf c b'' k0 i) = true := by rw [← hsrc]; simp [isSlot]
            exact isSlot_srcOf b c b'' k0 i this
          · exact ih (i + 1) h
      exact this 1 ys ht
    · split at ht
      · exact absurd ht (fun h => by
          have : ∀ (i : Nat) (xs : List Nat), Op.spawn (.iter b'' x (.slot b j)) ∉ destroys b' i xs := by
            intro i xs; induction xs generalizing i with
            | nil => simp [destroys]
            | cons z zs ih => simp [destroys, ih]
          exact this 0 (y :: ys) h)
      · cases ht

theorem snb_code (b : Nat) (t : Task) (hw : WFIt t) : SNB b (code t) := by
  cases t with
  | iter b' x src =>
    simp only [code, SNB, UB_cons, UB_nil, ub]
    refine ⟨?_, ?_, trivial⟩
    · by_cases hs : isSlot b src = true
      · cases src with
        | slot b'' j =>
          have e1 : b' = b'' := hw b' x b'' j rfl
          have e2 : b'' = b := by simpa [isSlot] using hs
          subst e1; subst e2; simp [isSlot]
        | pos k => simp [isSlot] at hs
        | fed => simp [isSlot] at hs
      · simp [hs]; split <;> omega
    · split <;> omega
  | chunk b' lo xs =>
    simp only [code]
    refine SNB.append (SNB_of_zero _ (fun o ho => ?_)).1 ?_
    · simp only [List.mem_map] at ho
      obtain ⟨p, _, rfl⟩ := ho
      simp [ub, isSlot]
    · simp only [SNB, UB_cons, UB_nil, ub]; refine ⟨?_, trivial⟩; split <;> omega
  | feed x v =>
    simp only [code, SNB, UB_cons, UB_nil, ub, isSlot]
    exact ⟨by simp, by simp, trivial⟩
  | root => simp [code, SNB, ub]
  | subroot f1 f2 f3 => simp [code, SNB, ub]
  | inv f c =>
    simp only [code, SNB, UB_cons, UB_nil, ub]
    refine ⟨?_, ?_, ?_, trivial⟩ <;> (cases c <;> simp <;> try (split <;> omega))

theorem wfi_nospawn_iter (ops : List Op) (h : ∀ b' x src, Op.spawn (.iter b' x src) ∉ ops) : WFI ops := by
  intro t ht b' x b j e
  subst e
  exact absurd ht (h b' x _)

theorem inva_step {s s' : St} (h : InvA s) (i : Nat) (a : Actv) (op : Op) (rest e : List Op) (newp : List Task)
    (hi : s.acts[i]? = some a) (ho : a.ops = op :: rest)
    (hacts : s'.acts = s.acts.set i { a with ops := e ++ rest }) (hpool : s'.pool = s.pool ++ newp)
    (hsnb : ∀ b, SNB b (op :: rest) → SNB b (e ++ rest)) (hwe : WFI e) (hwp : WFI (op :: rest) → ∀ t ∈ newp, WFIt t) : InvA s' := by
  have hm : a ∈ s.acts := List.mem_of_getElem? hi
  have hwa : WFI (op :: rest) := by have := h.wfa a hm; rw [ho] at this; exact this
  refine ⟨?_, ?_, ?_⟩
  · intro a' ha' b
    rw [hacts] at ha'
    rcases List.mem_or_eq_of_mem_set ha' with h1 | h1
    · exact h.snb a' h1 b
    · subst h1
      exact hsnb b (by have := h.snb a hm b; rw [ho] at this; exact this)
  · intro a' ha'
    rw [hacts] at ha'
    rcases List.mem_or_eq_of_mem_set ha' with h1 | h1
    · exact h.wfa a' h1
    · subst h1
      intro t ht
      rcases List.mem_append.1 ht with h2 | h2
      · exact hwe t h2
      · exact hwa t (List.mem_cons_of_mem _ h2)
  · intro t ht
    rw [hpool] at ht
    rcases List.mem_append.1 ht with h1 | h1
    · exact h.wfp t h1
    · exact hwp hwa t h1

theorem wfi_nil : WFI [] := fun _ h => by cases h

theorem inva_exec (cfg : Cfg) {s : St} (h : InvA s) (ch : Choice) : InvA (exec cfg s ch) := by
  cases ch with
  | start j tid =>
    simp only [exec]
    split
    · rename_i t ht
      have hwt : WFIt t := h.wfp t (List.mem_of_getElem? ht)
      refine ⟨?_, ?_, ?_⟩
      · intro a ha b
        rcases List.mem_append.1 ha with h1 | h1
        · exact h.snb a h1 b
        · simp only [List.mem_singleton] at h1; subst h1; exact snb_code b t hwt
      · intro a ha
        rcases List.mem_append.1 ha with h1 | h1
        · exact h.wfa a h1
        · simp only [List.mem_singleton] at h1; subst h1
          refine wfi_nospawn_iter _ (fun b' x src hm => ?_)
          cases t <;> simp [code] at hm
      · intro t' ht'
        exact h.wfp t' (List.mem_of_mem_eraseIdx ht')
    · exact h
  | step i =>
    simp only [exec]
    split
    · rename_i a hi
      split
      · rename_i op rest ho
        have hplain : ∀ (s' : St) (newp : List Task), s'.acts = s.acts.set i { a with ops := rest } → s'.pool = s.pool ++ newp →
            (WFI (op :: rest) → ∀ t ∈ newp, WFIt t) → InvA s' := by
          intro s' newp e1 e2 e3
          exact inva_step h i a op rest [] newp hi ho (by simpa using e1) e2 (fun b hb => hb.tail) wfi_nil e3
        have hzero : ∀ (s' : St) (e : List Op), s'.acts = s.acts.set i { a with ops := e ++ rest } → s'.pool = s.pool →
            (∀ b, SNB b e) → WFI e → InvA s' := by
          intro s' e e1 e2 e3 e4
          exact inva_step h i a op rest e [] hi ho e1 (by simpa using e2) (fun b hb => SNB.append (e3 b) hb.tail) e4 (fun _ _ ht => by cases ht)
        cases op with
        | reserve c' n =>
          obtain ⟨f1, f2, _, _, _⟩ := reserve_frame s c' n
          exact hplain _ [] (by simp [stepOp, setOps, f2]) (by simp [stepOp, setOps, f1]) (fun _ _ ht => by cases ht)
        | release c' =>
          obtain ⟨f1, f2, _, _⟩ := release_frame s c'
          exact hplain _ [] (by simp [stepOp, setOps, f2]) (by simp [stepOp, setOps, f1]) (fun _ _ ht => by cases ht)
        | spawn t =>
          exact hplain _ [t] (by simp [stepOp, setOps]) rfl (fun hw t' ht' => by
            simp only [List.mem_singleton] at ht'; subst ht'; exact hw t' List.mem_cons_self)
        | await c' =>
          simp only [stepOp]
          split
          · exact hplain _ [] (by simp [setOps]) (by simp [setOps]) (fun _ _ ht => by cases ht)
          · exact h
        | act x =>
          exact hplain _ [] (by simp [stepOp, setOps]) (by simp [stepOp, setOps]) (fun _ _ ht => by cases ht)
        | body x src =>
          refine inva_step h i a _ rest (feedOps a.tid (cfg.feeds x) ++ [.act (.bodyE x src)]) [] hi ho (by simp [stepOp, setOps]) (by simp [stepOp, setOps])
            (fun b hb => ?_) ?_ (fun _ _ ht => by cases ht)
          · have := SNB.expand_same (o' := .act (.bodyE x src)) hb rfl (feedOps a.tid (cfg.feeds x)) (feedOps_ub b _ _)
            simpa using this
          · refine wfi_nospawn_iter _ (fun b' x' src' hm => ?_)
            rcases List.mem_append.1 hm with h1 | h1
            · rcases feedOps_mem _ _ _ h1 with h2 | ⟨_, h2⟩ <;> cases h2
            · simp at h1
        | rootExec =>
          simp only [stepOp]
          split
          · refine hzero _ (pforOps cfg s.blk.length cfg.chunks ++ [.await (.blk s.blk.length), .release .root]) (by simp [setOps]) rfl (fun b => ?_) ?_
            · refine SNB.append (SNB_of_zero _ (pforOps_ub b cfg _ _)).1 (SNB_of_zero _ (fun o ho => ?_)).1
              simp only [List.mem_cons, List.not_mem_nil, or_false] at ho
              rcases ho with rfl | rfl <;> rfl
            · refine wfi_nospawn_iter _ (fun b' x' src' hm => ?_)
              rcases List.mem_append.1 hm with h1 | h1
              · have : ∀ (cs : List (Nat × Nat)), Op.spawn (.iter b' x' src') ∉ pforOps cfg s.blk.length cs := by
                  intro cs; induction cs with
                  | nil => simp [pforOps]
                  | cons c cs ih => obtain ⟨lo, hi'⟩ := c; simp [pforOps, ih]
                exact this _ h1
              · simp at h1
          · split
            · exact hzero _ [.reserve .root 1, .rootLoop s.blk.length s.iter []] (by simp [setOps]) rfl
                (fun b => (SNB_of_zero _ (fun o ho => by simp only [List.mem_cons, List.not_mem_nil, or_false] at ho; rcases ho with rfl | rfl <;> rfl)).1)
                (wfi_nospawn_iter _ (fun _ _ _ hm => by simp at hm))
            · exact hzero _ [.release .root] (by simp [setOps]) rfl
                (fun b => (SNB_of_zero _ (fun o ho => by simp only [List.mem_singleton] at ho; subst ho; rfl)).1)
                (wfi_nospawn_iter _ (fun _ _ _ hm => by simp at hm))
          · split
            · exact hzero _ [.rootLoop s.blk.length s.iter []] (by simp [setOps]) rfl
                (fun b => (SNB_of_zero _ (fun o ho => by simp only [List.mem_singleton] at ho; subst ho; rfl)).1)
                (wfi_nospawn_iter _ (fun _ _ _ hm => by simp at hm))
            · exact hzero _ [.release .root] (by simp [setOps]) rfl
                (fun b => (SNB_of_zero _ (fun o ho => by simp only [List.mem_singleton] at ho; subst ho; rfl)).1)
                (wfi_nospawn_iter _ (fun _ _ _ hm => by simp at hm))
        | rootLoop b' k0 items =>
          have hexit : InvA (setOps { s with log := .block b' k0 items.length :: s.log } i a (loopExit cfg.cat b' k0 items ++ rest)) := by
            refine hzero _ (loopExit cfg.cat b' k0 items) (by simp [setOps]) rfl (fun b => ?_) ?_
            · unfold loopExit
              refine SNB.append (SNB_of_zero _ (fun o ho => by split at ho <;> simp at ho; subst ho; rfl)).1 ?_
              exact ⟨by have := (snb_blockCode b cfg.cat b' k0 items).nonneg; rw [UB_cons]; simp only [ub]; omega, snb_blockCode b cfg.cat b' k0 items⟩
            · intro t ht
              unfold loopExit at ht
              rcases List.mem_append.1 ht with h1 | h1
              · split at h1 <;> simp at h1
              · simp only [List.mem_cons, Op.spawn.injEq] at h1
                rcases h1 with rfl | h1
                · intro _ _ _ _ e; cases e
                · exact wfi_blockCode cfg.cat b' k0 items t h1
          simp only [stepOp]
          split
          · split
            · rename_i y hy hlt
              exact hzero _ [.rootLoop b' k0 (items ++ [y])] (by simp [setOps]) rfl
                (fun b => (SNB_of_zero _ (fun o ho => by simp only [List.mem_singleton] at ho; subst ho; rfl)).1)
                (wfi_nospawn_iter _ (fun _ _ _ hm => by simp at hm))
            · exact hexit
          · exact hexit
        | subExec f1 f2 f3 =>
          exact hzero _ [.spawn (.inv f3 (.kid s.kid.length)), .spawn (.inv f2 (.kid s.kid.length)), .act (.callS f1), .act (.callE f1), .release (.kid s.kid.length)]
            (by simp [stepOp, setOps]) rfl
            (fun b => (SNB_of_zero _ (fun o ho => by
              simp only [List.mem_cons, List.not_mem_nil, or_false] at ho
              rcases ho with rfl | rfl | rfl | rfl | rfl <;> rfl)).1)
            (wfi_nospawn_iter _ (fun _ _ _ hm => by simp at hm))
      · exact h
    · exact h

theorem inva_init (cfg : Cfg) (threads : Nat) : InvA (initEach cfg threads) := by
  have hmain : (initEach cfg threads).acts = [{ tid := 0, ops := mainEach cfg }] := rfl
  refine ⟨?_, ?_, fun t ht => by cases ht⟩
  · intro a ha b
    rw [hmain] at ha; simp only [List.mem_singleton] at ha; subst ha
    refine (SNB_of_zero _ (fun o ho => ?_)).1
    unfold mainEach at ho
    split at ho <;> simp at ho
    · subst ho; rfl
    · rcases ho with rfl | rfl | rfl | rfl <;> rfl
  · intro a ha
    rw [hmain] at ha; simp only [List.mem_singleton] at ha; subst ha
    refine wfi_nospawn_iter _ (fun _ _ _ hm => ?_)
    unfold mainEach at hm
    split at hm <;> simp at hm

end TbbVerif.C05.Each
