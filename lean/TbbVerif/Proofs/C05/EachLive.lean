/-
C05 — parallel_for_each / parallel_invoke task system: a running task holds a reference until its last operation.

`JS ops`: every suffix of the remaining operations either consists of item destructions only, or still gives back a
reference on some counter.  Holds for the code of every task and is preserved by every expansion.
-/
import TbbVerif.Proofs.C05.EachShape

namespace TbbVerif.C05.Each

def Live (cat : Cat) (ops : List Op) : Prop := ∃ c, 1 ≤ W cat c ops

def JS (cat : Cat) : List Op → Prop
  | [] => True
  | o :: r => (Idle (o :: r) ∨ Live cat (o :: r)) ∧ JS cat r

theorem Idle.nil : Idle [] := fun _ h => by cases h

theorem Idle.append {a b : List Op} (ha : Idle a) (hb : Idle b) : Idle (a ++ b) :=
  fun o ho => (List.mem_append.1 ho).elim (ha o) (hb o)

theorem JS.head {cat : Cat} : ∀ {ops : List Op}, JS cat ops → Idle ops ∨ Live cat ops
  | [], _ => Or.inl Idle.nil
  | _ :: _, h => h.1

theorem JS.tail {cat : Cat} {o : Op} {r : List Op} (h : JS cat (o :: r)) : JS cat r := h.2

theorem JS_idle (cat : Cat) : ∀ (ops : List Op), Idle ops → JS cat ops
  | [], _ => trivial
  | o :: r, h => ⟨Or.inl h, JS_idle cat r h.tail⟩

/-- expansion in front of operations that are themselves in order -/
theorem JS.append {cat : Cat} {e rest : List Op} (he : JS cat e) (hr : JS cat rest) (hsn : ∀ c, SN cat c rest) :
    JS cat (e ++ rest) := by
  induction e with
  | nil => exact hr
  | cons o r ih =>
    show (Idle (o :: (r ++ rest)) ∨ Live cat (o :: (r ++ rest))) ∧ JS cat (r ++ rest)
    refine ⟨?_, ih he.2⟩
    have e1 : o :: (r ++ rest) = (o :: r) ++ rest := rfl
    rw [e1]
    rcases he.1 with h1 | ⟨c, hc⟩
    · rcases hr.head with h2 | ⟨c, hc⟩
      · exact Or.inl (h1.append h2)
      · refine Or.inr ⟨c, ?_⟩
        rw [W_append, h1.weightless]; omega
    · refine Or.inr ⟨c, ?_⟩
      have := (hsn c).nonneg
      rw [W_append]; omega

/-- expansion of a weightless operation (a body call) in front of operations that still hold a reference -/
theorem JS.append_live {cat : Cat} {e rest : List Op} (he : ∀ c, SN cat c e) (hr : JS cat rest) (hl : Live cat rest) :
    JS cat (e ++ rest) := by
  induction e with
  | nil => exact hr
  | cons o r ih =>
    show (Idle (o :: (r ++ rest)) ∨ Live cat (o :: (r ++ rest))) ∧ JS cat (r ++ rest)
    refine ⟨Or.inr ?_, ih (fun c => (he c).2)⟩
    obtain ⟨c, hc⟩ := hl
    refine ⟨c, ?_⟩
    have e1 : o :: (r ++ rest) = (o :: r) ++ rest := rfl
    have := (he c).1
    rw [e1, W_append]; omega

/-- every suffix `t` of `p` has `1 ≤ W c t + k` -/
def SNge (cat : Cat) (c : Ctr) (k : Int) : List Op → Prop
  | [] => True
  | o :: r => 1 ≤ W cat c (o :: r) + k ∧ SNge cat c k r

theorem SNge_weightless (cat : Cat) (c : Ctr) (k : Int) (hk : 1 ≤ k) : ∀ (p : List Op), (∀ o ∈ p, w cat c o = 0) → SNge cat c k p
  | [], _ => trivial
  | o :: r, h => by
    refine ⟨?_, SNge_weightless cat c k hk r (fun x hx => h x (List.mem_cons_of_mem _ hx))⟩
    rw [(SN_of_weightless (o :: r) h).2]; omega

theorem SNge.append {cat : Cat} {c : Ctr} {k : Int} {q z : List Op} (hq : SNge cat c k q) (hz : SNge cat c k z) (hz0 : W cat c z = 0) :
    SNge cat c k (q ++ z) := by
  induction q with
  | nil => exact hz
  | cons o r ih =>
    show 1 ≤ W cat c (o :: (r ++ z)) + k ∧ SNge cat c k (r ++ z)
    refine ⟨?_, ih hq.2⟩
    have := hq.1
    have e1 : o :: (r ++ z) = (o :: r) ++ z := rfl
    rw [e1, W_append, hz0]; omega

/-- operations closed by an operation `cl` that gives back a reference on `c`, followed by destructions only -/
theorem JS_close (cat : Cat) (c : Ctr) (cl : Op) (post : List Op) (hcl : 1 ≤ w cat c cl) (hpost : Idle post) :
    ∀ (p : List Op), SNge cat c (w cat c cl) p → JS cat (p ++ cl :: post)
  | [], _ => by
    refine ⟨Or.inr ⟨c, ?_⟩, JS_idle cat post hpost⟩
    rw [W_cons, hpost.weightless]; omega
  | o :: r, h => by
    show (Idle (o :: (r ++ cl :: post)) ∨ Live cat (o :: (r ++ cl :: post))) ∧ JS cat (r ++ cl :: post)
    refine ⟨Or.inr ⟨c, ?_⟩, JS_close cat c cl post hcl hpost r h.2⟩
    have e1 : o :: (r ++ cl :: post) = (o :: r) ++ cl :: post := rfl
    have := h.1
    have h0 : W cat c post = 0 := hpost.weightless
    rw [e1, W_append, W_cons cat c cl post, h0]; omega

/-! ### the code of every task, and every expansion -/

theorem js_code (cat : Cat) (t : Task) : JS cat (code t) := by
  cases t with
  | root => exact JS_close cat .root .rootExec [] (by simp [w]) Idle.nil [] trivial
  | iter b x src =>
    exact JS_close cat (.blk b) (.release (.blk b)) [] (by simp [w]) Idle.nil [.body x src] (by simp [SNge, W_cons, w])
  | feed x v =>
    exact JS_close cat (.kid v) (.release (.kid v)) [] (by simp [w]) Idle.nil [.body x .fed] (by simp [SNge, W_cons, w])
  | chunk b lo xs =>
    refine JS_close cat (.blk b) (.release (.blk b)) [] (by simp [w]) Idle.nil _ ?_
    refine SNge_weightless cat _ _ (by simp [w]) _ ?_
    intro o ho
    simp only [List.mem_map] at ho
    obtain ⟨p, _, rfl⟩ := ho
    rfl
  | subroot f1 f2 f3 => exact JS_close cat .root (.subExec f1 f2 f3) [] (by simp [w]) Idle.nil [] trivial
  | inv f c' =>
    exact JS_close cat c' (.release c') [] (by simp [w]) Idle.nil [.act (.callS f), .act (.callE f)] (by simp [SNge, W_cons, w])

theorem blockSpawns_rootless (cat : Cat) (b k0 : Nat) : ∀ (j : Nat) (xs : List Nat), ∀ o ∈ blockSpawns cat b k0 j xs, w cat .root o = 0
  | _, [], _, h => by cases h
  | j, x :: xs, o, h => by
    simp only [blockSpawns, List.mem_cons] at h
    rcases h with rfl | rfl | h
    · simp [w]
    · simp [w, holds]
    · exact blockSpawns_rootless cat b k0 (j + 1) xs o h

theorem pforOps_rootless (cat : Cat) (cfg : Cfg) (b : Nat) : ∀ (cs : List (Nat × Nat)), ∀ o ∈ pforOps cfg b cs, w cat .root o = 0
  | [], _, h => by cases h
  | (lo, hi) :: cs, o, h => by
    simp only [pforOps, List.mem_cons] at h
    rcases h with rfl | rfl | h
    · simp [w]
    · simp [w, holds]
    · exact pforOps_rootless cat cfg b cs o h

/-- the block code is: root-weightless operations, `release root`, destructions -/
theorem blockCode_split (cat : Cat) (b k0 : Nat) (items : List Nat) :
    ∃ p post, blockCode cat b k0 items = p ++ .release .root :: post ∧ (∀ o ∈ p, w cat .root o = 0) ∧ Idle post := by
  cases items with
  | nil => exact ⟨[], [], rfl, fun _ h => (by cases h), Idle.nil⟩
  | cons x xs =>
    refine ⟨blockSpawns cat b k0 1 xs ++ [.reserve (.blk b) 1, .body x (srcOf cat b k0 0), .release (.blk b), .await (.blk b)],
      (if cat = .input then destroys b 0 (x :: xs) else []), by simp [blockCode], ?_, ?_⟩
    · intro o ho
      rcases List.mem_append.1 ho with h | h
      · exact blockSpawns_rootless cat b k0 1 xs o h
      · simp only [List.mem_cons, List.not_mem_nil, or_false] at h
        rcases h with rfl | rfl | rfl | rfl <;> simp [w]
    · split
      · exact destroys_idle b 0 (x :: xs)
      · exact Idle.nil

theorem js_blockCode (cat : Cat) (b k0 : Nat) (items : List Nat) : JS cat (blockCode cat b k0 items) := by
  obtain ⟨p, post, e, hp, hpost⟩ := blockCode_split cat b k0 items
  rw [e]
  exact JS_close cat .root (.release .root) post (by simp [w]) hpost p (SNge_weightless cat .root _ (by simp [w]) p hp)

theorem js_loopExit (cat : Cat) (b k0 : Nat) (items : List Nat) :
    JS cat (loopExit cat b k0 items) := by
  obtain ⟨p, post, e, hp, hpost⟩ := blockCode_split cat b k0 items
  unfold loopExit
  rw [e]
  have hz := SNge_weightless cat .root (w cat .root (.release .root)) (by simp [w]) p hp
  have hz0 := (SN_of_weightless (cat := cat) (c := .root) p hp).2
  have e2 : (if cat = .forward then [Op.reserve .root 1] else []) ++ .spawn .root :: (p ++ .release .root :: post) =
      ((if cat = .forward then [Op.reserve .root 1] else []) ++ [.spawn .root] ++ p) ++ .release .root :: post := by
    simp
  rw [e2]
  refine JS_close cat .root (.release .root) post (by simp [w]) hpost _ (SNge.append ?_ hz hz0)
  split <;> simp [SNge, W_cons, w, holds]

theorem js_pfor (cfg : Cfg) (b : Nat) : JS cfg.cat (pforOps cfg b cfg.chunks ++ [.await (.blk b), .release .root]) := by
  have e : pforOps cfg b cfg.chunks ++ [.await (.blk b), .release .root] = (pforOps cfg b cfg.chunks ++ [.await (.blk b)]) ++ .release .root :: [] := by simp
  rw [e]
  refine JS_close cfg.cat .root (.release .root) [] (by simp [w]) Idle.nil _ (SNge_weightless _ _ _ (by simp [w]) _ ?_)
  intro o ho
  rcases List.mem_append.1 ho with h | h
  · exact pforOps_rootless cfg.cat cfg b cfg.chunks o h
  · simp only [List.mem_singleton] at h; subst h; rfl

theorem js_subExec (cat : Cat) (f1 f2 f3 k : Nat) :
    JS cat [.spawn (.inv f3 (.kid k)), .spawn (.inv f2 (.kid k)), .act (.callS f1), .act (.callE f1), .release (.kid k)] :=
  JS_close cat (.kid k) (.release (.kid k)) [] (by simp [w]) Idle.nil
    [.spawn (.inv f3 (.kid k)), .spawn (.inv f2 (.kid k)), .act (.callS f1), .act (.callE f1)] (by simp [SNge, W_cons, w, holds])

theorem stat_subExec (cat : Cat) (f1 f2 f3 k : Nat) :
    Stat cat [.spawn (.inv f3 (.kid k)), .spawn (.inv f2 (.kid k)), .act (.callS f1), .act (.callE f1), .release (.kid k)] := by
  refine Stat.simple _ (fun c => ?_) ?_
  · simp only [SN, W_cons, W_nil, w, holds]
    refine ⟨?_, ?_, ?_, ?_, ?_, trivial⟩ <;> (repeat' split) <;> omega
  · intro o ho
    simp only [List.mem_cons, List.not_mem_nil, or_false] at ho
    rcases ho with rfl | rfl | rfl | rfl | rfl <;> simp

/-- every task holds a reference -/
theorem holds_some (t : Task) : ∃ c, holds c t = 1 := by
  cases t with
  | root => exact ⟨.root, by simp [holds]⟩
  | iter b x src => exact ⟨.blk b, by simp [holds]⟩
  | feed x v => exact ⟨.kid v, by simp [holds]⟩
  | chunk b lo xs => exact ⟨.blk b, by simp [holds]⟩
  | subroot f1 f2 f3 => exact ⟨.root, by simp [holds]⟩
  | inv f c => exact ⟨c, by simp [holds]⟩

end TbbVerif.C05.Each
