/-
C05 — termination with explicit bounds for ALL four partitioners on blocked_range, for every environment:
every task finishes with fuel `2·size + 2`, the closure over the task tree with fuel `3·size + 3`, every task runs at
least one chunk (or drops one because of cancellation), so the number of tasks and of chunks is at most the size.
-/
import TbbVerif.Proofs.C05.Simple

namespace TbbVerif.C05

/-- a well-formed, non-empty 1-d range -/
def Good1 (r : R1) : Prop := WF1 r ∧ r.b < r.e

theorem sz_pos {r : R1} (h : Good1 r) : 1 ≤ sz r := by unfold sz; have := h.2; omega

theorem split1_ok {r a c : R1} (h : Good1 r) (hd : ops1.divisible r = true) (hs : ops1.split r = (a, c)) :
    Good1 a ∧ Good1 c ∧ sz a + sz c = sz r := by
  have hd' : r.divisible = true := hd
  obtain ⟨m, hm, h1, h2, _⟩ := splitMid_spec h.1 hd'
  have hs' : splitMid r = (a, c) := hs
  rw [hm] at hs'
  simp only [Prod.mk.injEq] at hs'
  obtain ⟨rfl, rfl⟩ := hs'
  obtain ⟨⟨w1, w2, w3⟩, _⟩ := h
  refine ⟨⟨⟨?_, ?_, w3⟩, ?_⟩, ⟨⟨?_, w2, w3⟩, ?_⟩, ?_⟩ <;> simp only [sz] <;> omega

theorem psplit1_ok {r a c : R1} {l rt : Nat} (h : Good1 r) (hd : ops1.divisible r = true) (hok : PropOK l rt)
    (hs : ops1.psplit r l rt = some (a, c)) : Good1 a ∧ Good1 c ∧ sz a + sz c = sz r := by
  have hd' : r.divisible = true := hd
  obtain ⟨m, rfl, rfl, h1, h2⟩ := splitProp_spec h.1 hd' hok hs
  obtain ⟨⟨w1, w2, w3⟩, _⟩ := h
  refine ⟨⟨⟨?_, ?_, w3⟩, ?_⟩, ⟨⟨?_, w2, w3⟩, ?_⟩, ?_⟩ <;> simp only [sz] <;> omega

def listSz : List R1 → Nat
  | [] => 0
  | x :: xs => sz x + listSz xs

theorem listSz_append (a b : List R1) : listSz (a ++ b) = listSz a + listSz b := by
  induction a with
  | nil => simp [listSz]
  | cons x xs ih => simp only [List.cons_append, listSz, ih]; omega

theorem listSz_perm {a b : List R1} (h : a.Perm b) : listSz a = listSz b := by
  induction h with
  | nil => rfl
  | cons x _ ih => simp only [listSz, ih]
  | swap x y l => simp only [listSz]; omega
  | trans _ _ ih1 ih2 => rw [ih1, ih2]

theorem SplitTree.size1 {r : R1} {L : List R1} (h : SplitTree ops1 r L) (hg : Good1 r) :
    (∀ x ∈ L, Good1 x) ∧ listSz L = sz r := by
  induction h with
  | leaf r => exact ⟨by simpa using hg, by simp [listSz]⟩
  | node r a b L1 L2 hd hs _ _ ih1 ih2 =>
    obtain ⟨ga, gb, e⟩ := split1_ok hg hd hs
    obtain ⟨g1, s1⟩ := ih1 ga
    obtain ⟨g2, s2⟩ := ih2 gb
    refine ⟨fun x hx => (List.mem_append.1 hx).elim (g1 x) (g2 x), ?_⟩
    rw [listSz_append, s1, s2, e]
  | pnode r l rt a b L1 L2 hd hok hs _ _ ih1 ih2 =>
    obtain ⟨ga, gb, e⟩ := psplit1_ok hg hd hok hs
    obtain ⟨g1, s1⟩ := ih1 ga
    obtain ⟨g2, s2⟩ := ih2 gb
    refine ⟨fun x hx => (List.mem_append.1 hx).elim (g1 x) (g2 x), ?_⟩
    rw [listSz_append, s1, s2, e]

theorem Leaves.size1 {r : R1} {L : List R1} (h : Leaves ops1 r L) (hg : Good1 r) :
    (∀ x ∈ L, Good1 x) ∧ listSz L = sz r := by
  obtain ⟨T, t, p⟩ := h
  obtain ⟨g, s⟩ := t.size1 hg
  exact ⟨fun x hx => g x ((p.mem_iff).2 hx), by rw [← listSz_perm p, s]⟩

section
variable {σ : Type} {E : Env σ}

/-- the task ran a chunk or dropped one -/
def HasWork (evs : List (Ev R1)) : Prop := ∃ e ∈ evs, (∃ r, e = .body r) ∨ (∃ r, e = .drop r)

theorem HasWork.mono {evs evs' : List (Ev R1)} (h : HasWork evs) (hsub : ∀ e ∈ evs, e ∈ evs') : HasWork evs' := by
  obtain ⟨e, he, hw⟩ := h
  exact ⟨e, hsub e he, hw⟩

/-! ### the splitting loop -/

theorem offerSplit_total (t : TS R1 σ) (p : Part) (hg : Good1 t.range) (hd : ops1.divisible t.range = true)
    (hi : PartInv t.part) (hns : t.part.kind ≠ .simple) (hpd : partIsDivisible t.part = (true, p)) :
    ∃ t1, offerSplit ops1 E { t with part := p } = some t1 ∧ Good1 t1.range ∧ sz t1.range < sz t.range := by
  have hkp : p.kind = t.part.kind ∧ (t.part.kind = .static ∨ t.part.kind = .affinity → p = t.part) := by
    unfold partIsDivisible at hpd
    split at hpd
    · simp only [Prod.mk.injEq] at hpd; cases hpd.1
    · rename_i hka
      have hno : ¬ (t.part.kind = .static ∨ t.part.kind = .affinity) := by rw [hka]; simp
      split at hpd
      · simp only [Prod.mk.injEq] at hpd; obtain ⟨_, rfl⟩ := hpd; exact ⟨rfl, fun h => absurd h hno⟩
      · split at hpd
        · simp only [Prod.mk.injEq] at hpd; obtain ⟨_, rfl⟩ := hpd; exact ⟨rfl, fun h => absurd h hno⟩
        · simp only [Prod.mk.injEq] at hpd; cases hpd.1
    · simp only [Prod.mk.injEq] at hpd; obtain ⟨_, rfl⟩ := hpd; exact ⟨rfl, fun _ => rfl⟩
    · simp only [Prod.mk.injEq] at hpd; obtain ⟨_, rfl⟩ := hpd; exact ⟨rfl, fun _ => rfl⟩
  unfold offerSplit
  dsimp only
  cases hk : t.part.kind with
  | simple => exact absurd hk hns
  | auto =>
    rw [hkp.1, hk]
    dsimp only
    have hs : ops1.split t.range = ((ops1.split t.range).1, (ops1.split t.range).2) := rfl
    obtain ⟨ga, gb, e⟩ := split1_ok hg hd hs
    refine ⟨_, rfl, ?_, ?_⟩
    · show Good1 (ops1.split t.range).1
      exact ga
    · show sz (ops1.split t.range).1 < sz t.range
      have := sz_pos gb
      omega
  | static =>
    have hpe := hkp.2 (Or.inl hk)
    subst hpe
    obtain ⟨_, hok⟩ := propOK_of_divisible t.part t.part (Or.inl hk) hi hpd
    rw [hk]
    dsimp only
    rw [hk] at hok
    obtain ⟨a, b, hs⟩ := splitProp_isSome (l := t.part.divisor / factor .static - t.part.divisor / factor .static / 2)
      (rt := t.part.divisor / factor .static / 2) hg.1 hd hok
    have hs' : ops1.psplit t.range (t.part.divisor / factor .static - t.part.divisor / factor .static / 2) (t.part.divisor / factor .static / 2) = some (a, b) := hs
    obtain ⟨ga, gb, e⟩ := psplit1_ok hg hd hok hs'
    rw [hs']
    refine ⟨_, rfl, by simpa [emitSpawn] using ga, ?_⟩
    have := sz_pos gb
    simp only [emitSpawn]; omega
  | affinity =>
    have hpe := hkp.2 (Or.inr hk)
    subst hpe
    obtain ⟨_, hok⟩ := propOK_of_divisible t.part t.part (Or.inr hk) hi hpd
    rw [hk]
    dsimp only
    rw [hk] at hok
    obtain ⟨a, b, hs⟩ := splitProp_isSome (l := t.part.divisor / factor .affinity - t.part.divisor / factor .affinity / 2)
      (rt := t.part.divisor / factor .affinity / 2) hg.1 hd hok
    have hs' : ops1.psplit t.range (t.part.divisor / factor .affinity - t.part.divisor / factor .affinity / 2) (t.part.divisor / factor .affinity / 2) = some (a, b) := hs
    obtain ⟨ga, gb, e⟩ := psplit1_ok hg hd hok hs'
    rw [hs']
    refine ⟨_, rfl, by simpa [emitSpawn] using ga, ?_⟩
    have := sz_pos gb
    simp only [emitSpawn]; omega

theorem splitLoop_total {r0 : R1} : ∀ (f : Nat) (t : TS R1 σ), Good1 t.range → Leaves ops1 r0 (t.range :: evR t.evs) → KidsOK E t.evs →
    PartInv t.part → t.part.kind ≠ .simple → sz t.range ≤ f →
    ∃ t', splitLoop ops1 E (f + 1) t = some t' ∧ Good1 t'.range ∧ sz t'.range ≤ sz t.range := by
  intro f
  induction f with
  | zero => intro t hg _ _ _ _ hs; have := sz_pos hg; omega
  | succ f ih =>
    intro t hg hl hk hi hns hs
    unfold splitLoop
    split
    · rename_i hd
      cases hpd : partIsDivisible t.part with
      | mk d p =>
        simp only
        cases d with
        | false => exact ⟨_, rfl, hg, Nat.le_refl _⟩
        | true =>
          simp only [if_true]
          obtain ⟨t1, ho, g1, s1⟩ := offerSplit_total (E := E) t p hg hd hi hns hpd
          rw [ho]
          simp only
          obtain ⟨l1, k1, i1, kk1⟩ := offerSplit_inv (ops := ops1) (E := E) t { t with part := p } t1 hl hk hi hns hd (by simpa using hpd) rfl ho
          obtain ⟨t', e1, e2, e3⟩ := ih t1 g1 l1 k1 i1 (by rw [kk1]; exact hns) (by omega)
          exact ⟨t', e1, e2, by omega⟩
    · exact ⟨_, rfl, hg, Nat.le_refl _⟩

/-! ### the range pool loop -/

def PoolGood (pool : List (R1 × Nat)) : Prop := ∀ x ∈ pool, Good1 x.1

def poolSz : List (R1 × Nat) → Nat
  | [] => 0
  | x :: xs => sz x.1 + poolSz xs

abbrev cap : Nat := Generated.C05.poolCapacity

theorem fillPool_facts (md : Nat) : ∀ (f : Nat) (pool : List (R1 × Nat)), pool ≠ [] → PoolGood pool →
    fillPool ops1 md f pool ≠ [] ∧ PoolGood (fillPool ops1 md f pool) ∧ poolSz (fillPool ops1 md f pool) = poolSz pool ∧
    pool.length ≤ (fillPool ops1 md f pool).length := by
  intro f
  induction f with
  | zero => intro pool hne hg; exact ⟨hne, hg, rfl, Nat.le_refl _⟩
  | succ f ih =>
    intro pool hne hg
    unfold fillPool
    cases pool with
    | nil => exact absurd rfl hne
    | cons x rest =>
      obtain ⟨r, d⟩ := x
      dsimp only
      split
      · rename_i hc
        have hs : ops1.split r = ((ops1.split r).1, (ops1.split r).2) := rfl
        have hgr : Good1 r := hg (r, d) List.mem_cons_self
        obtain ⟨gl, grt, e⟩ := split1_ok hgr hc.2.2 hs
        have hg' : PoolGood (((ops1.split r).1, (d + 1) % depthMod) :: ((ops1.split r).2, (d + 1) % depthMod) :: rest) := by
          intro y hy
          simp only [List.mem_cons] at hy
          rcases hy with rfl | rfl | hy
          · exact gl
          · exact grt
          · exact hg y (List.mem_cons_of_mem _ hy)
        obtain ⟨a1, a2, a3, a4⟩ := ih _ (by simp) hg'
        refine ⟨a1, a2, ?_, ?_⟩
        · rw [a3]; simp only [poolSz]; omega
        · show ((r, d) :: rest).length ≤ (fillPool ops1 md f (((ops1.split r).1, (d + 1) % depthMod) :: ((ops1.split r).2, (d + 1) % depthMod) :: rest)).length
          simp only [List.length_cons] at a4 ⊢; omega
      · exact ⟨by simp, hg, rfl, Nat.le_refl _⟩

/-- a pool whose only entry can still be split grows when it is filled -/
theorem fillPool_grows (md : Nat) (r : R1) (d : Nat) (hd : d < md) (hdiv : ops1.divisible r = true) (hg : Good1 r) :
    2 ≤ (fillPool ops1 md cap [(r, d)]).length := by
  have hc : cap = 7 + 1 := by decide
  rw [hc]
  unfold fillPool
  dsimp only
  have hcond : [(r, d)].length < Generated.C05.poolCapacity ∧ d < md ∧ ops1.divisible r = true :=
    ⟨by simp only [List.length_singleton]; decide, hd, hdiv⟩
  rw [if_pos hcond]
  have hs : ops1.split r = ((ops1.split r).1, (ops1.split r).2) := rfl
  obtain ⟨gl, grt, _⟩ := split1_ok hg hdiv hs
  have hg' : PoolGood [((ops1.split r).1, (d + 1) % depthMod), ((ops1.split r).2, (d + 1) % depthMod)] := by
    intro y hy
    simp only [List.mem_cons, List.not_mem_nil, or_false] at hy
    rcases hy with rfl | rfl
    · exact gl
    · exact grt
  have := (fillPool_facts md 7 _ (by simp) hg').2.2.2
  simpa using this

/-- potential of the pool loop: twice the elements in the pool, plus one if filling the pool leaves a single entry -/
def Phi (t : TS R1 σ) (pool : List (R1 × Nat)) : Nat :=
  2 * poolSz pool + (if 2 ≤ (fillPool ops1 t.part.maxDepth cap pool).length then 0 else 1)

theorem checkForDemand_evs (t : TS R1 σ) : (checkForDemand E t).2.evs = t.evs ∧ (checkForDemand E t).2.range = t.range := by
  simp only [checkForDemand]
  repeat' split
  all_goals exact ⟨rfl, rfl⟩

theorem hasWork_dropAll (t : TS R1 σ) (pool : List (R1 × Nat)) (hne : pool ≠ []) : HasWork (dropAll t pool).evs := by
  cases pool with
  | nil => exact absurd rfl hne
  | cons x xs =>
    refine ⟨.drop x.1, ?_, Or.inr ⟨_, rfl⟩⟩
    simp [dropAll]

theorem poolNext_total (k : TS R1 σ → List (R1 × Nat) → Option (TS R1 σ)) (F : Nat)
    (hk : ∀ t pool, pool ≠ [] → PoolGood pool → Phi t pool ≤ F → ∃ t', k t pool = some t' ∧ HasWork t'.evs)
    (t : TS R1 σ) (pool : List (R1 × Nat)) (hg : PoolGood pool) (hw : pool = [] → HasWork t.evs) (hF : pool ≠ [] → Phi t pool ≤ F) :
    ∃ t', poolNext E k t pool = some t' ∧ HasWork t'.evs := by
  unfold poolNext
  cases pool with
  | nil => exact ⟨t, rfl, hw rfl⟩
  | cons x xs =>
    dsimp only
    by_cases hc : (E.cancel t.env).1 = true
    · rw [if_pos hc]
      exact ⟨_, rfl, hasWork_dropAll _ _ (by simp)⟩
    · rw [if_neg hc]
      exact hk { t with env := (E.cancel t.env).2 } (x :: xs) (by simp) hg (hF (by simp))

theorem poolSz_dropLast : ∀ (pool : List (R1 × Nat)) (x : R1 × Nat), pool.getLast? = some x → poolSz pool.dropLast + sz x.1 = poolSz pool
  | [], _, h => by simp at h
  | [y], x, h => by simp at h; subst h; simp [poolSz]
  | y :: z :: zs, x, h => by
    have h' : (z :: zs).getLast? = some x := by simpa [List.getLast?_cons_cons] using h
    have := poolSz_dropLast (z :: zs) x h'
    simp only [List.dropLast_cons_cons, poolSz] at this ⊢
    omega

theorem phi_le (t : TS R1 σ) (pool : List (R1 × Nat)) : Phi t pool ≤ 2 * poolSz pool + 1 := by
  unfold Phi; split <;> omega

theorem poolLoop_total : ∀ (f : Nat) (t : TS R1 σ) (pool : List (R1 × Nat)), pool ≠ [] → PoolGood pool → Phi t pool ≤ f →
    ∃ t', poolLoop ops1 E (f + 1) t pool = some t' ∧ HasWork t'.evs := by
  intro f
  induction f with
  | zero =>
    intro t pool hne hg hphi
    exfalso
    cases pool with
    | nil => exact hne rfl
    | cons x xs =>
      have := sz_pos (hg x List.mem_cons_self)
      unfold Phi at hphi
      simp only [poolSz] at hphi
      omega
  | succ f ih =>
    intro t pool hne hg hphi
    unfold poolLoop
    simp only
    obtain ⟨p1, p2, p3, p4⟩ := fillPool_facts t.part.maxDepth cap pool hne hg
    generalize hP : fillPool ops1 t.part.maxDepth Generated.C05.poolCapacity pool = P at p1 p2 p3 p4
    have hphi' : 2 * poolSz P + (if 2 ≤ P.length then 0 else 1) ≤ f + 1 := by
      have : Phi t pool = 2 * poolSz pool + (if 2 ≤ P.length then 0 else 1) := by unfold Phi; rw [show cap = Generated.C05.poolCapacity from rfl, hP]
      rw [p3]; omega
    cases hcd : checkForDemand E t with
    | mk dem t2 =>
      simp only
      have hrunback : ∀ (t3 : TS R1 σ), ∃ t', poolRunBack E (poolLoop ops1 E (f + 1)) t3 P = some t' ∧ HasWork t'.evs := by
        intro t3
        unfold poolRunBack
        cases hPc : P with
        | nil => exact absurd hPc p1
        | cons x rest =>
          obtain ⟨r, d⟩ := x
          simp only
          have hgr : Good1 r := p2 (r, d) (by rw [hPc]; exact List.mem_cons_self)
          have hgrest : PoolGood rest := fun y hy => p2 y (by rw [hPc]; exact List.mem_cons_of_mem _ hy)
          refine poolNext_total (E := E) (poolLoop ops1 E (f + 1)) f (fun t' pool' h1 h2 h3 => ih t' pool' h1 h2 h3) (runBody E t3 r) rest hgrest ?_ ?_
          · intro _; exact ⟨.body r, by simp [runBody], Or.inl ⟨_, rfl⟩⟩
          · intro _
            refine Nat.le_trans (phi_le _ _) ?_
            have hsz := sz_pos hgr
            rw [hPc] at hphi'
            simp only [poolSz] at hphi'
            omega
      cases dem with
      | false => simp only [Bool.false_eq_true, if_false]; exact hrunback t2
      | true =>
        simp only [if_true]
        split
        · -- offer the front of the pool
          rename_i hlen
          cases hgl : P.getLast? with
          | none =>
            exfalso
            cases P with
            | nil => simp at hlen
            | cons y ys => simp [List.getLast?_cons] at hgl
          | some fr =>
            obtain ⟨frr, fd⟩ := fr
            simp only
            have hdl := poolSz_dropLast P (frr, fd) hgl
            simp only at hdl
            have hfrg : Good1 frr := p2 (frr, fd) (List.mem_of_getLast? hgl)
            have hszf := sz_pos hfrg
            have hne' : P.dropLast ≠ [] := by
              intro h0
              have : P.dropLast.length = 0 := by rw [h0]; rfl
              rw [List.length_dropLast] at this
              omega
            have hg' : PoolGood P.dropLast := fun y hy => p2 y (List.dropLast_subset _ hy)
            refine poolNext_total (E := E) (poolLoop ops1 E (f + 1)) f (fun t' pool' h1 h2 h3 => ih t' pool' h1 h2 h3) _ P.dropLast hg' (fun h0 => absurd h0 hne') ?_
            intro _
            refine Nat.le_trans (phi_le _ _) ?_
            have h2 : (if 2 ≤ P.length then 0 else 1) = 0 := by rw [if_pos (by omega)]
            omega
        · rename_i hlen
          split
          · -- demand, a single entry that may be split further: go round once more, the pool grows
            rename_i hdiv
            have hP1 : ∃ r d, P = [(r, d)] := by
              cases P with
              | nil => exact absurd rfl p1
              | cons y ys =>
                cases ys with
                | nil => exact ⟨y.1, y.2, rfl⟩
                | cons _ _ => simp at hlen
            obtain ⟨r, d, hPe⟩ := hP1
            subst hPe
            have hgr : Good1 r := p2 (r, d) List.mem_cons_self
            unfold poolIsDivisible at hdiv
            simp only [Bool.and_eq_true, decide_eq_true_eq] at hdiv
            refine poolNext_total (E := E) (poolLoop ops1 E (f + 1)) f (fun t' pool' h1 h2 h3 => ih t' pool' h1 h2 h3) t2 [(r, d)] p2 (fun h0 => by cases h0) ?_
            intro _
            have hgrow := fillPool_grows t2.part.maxDepth r d hdiv.1 hdiv.2 hgr
            unfold Phi
            rw [if_pos hgrow]
            simp only [List.length_singleton] at hphi'
            have : ¬ (2 ≤ 1) := by omega
            rw [if_neg this] at hphi'
            omega
          · exact hrunback t2

/-! ### one task -/

theorem workBalance_total (f : Nat) (t : TS R1 σ) (hg : Good1 t.range) (hf : 2 * sz t.range + 1 ≤ f) :
    ∃ t', workBalance ops1 E (f + 1) t = some t' ∧ HasWork t'.evs := by
  have hbody : HasWork (runBody E t t.range).evs := ⟨.body t.range, by simp [runBody], Or.inl ⟨_, rfl⟩⟩
  unfold workBalance
  cases hk : t.part.kind with
  | static => exact ⟨_, rfl, hbody⟩
  | simple => exact ⟨_, rfl, hbody⟩
  | auto =>
    simp only
    split
    · exact ⟨_, rfl, hbody⟩
    · refine poolLoop_total (E := E) f t [(t.range, 0)] (by simp) ?_ ?_
      · intro y hy; simp only [List.mem_singleton] at hy; subst hy; exact hg
      · have := phi_le t [(t.range, 0)]
        simp only [poolSz] at this; omega
  | affinity =>
    simp only
    split
    · exact ⟨_, rfl, hbody⟩
    · refine poolLoop_total (E := E) f t [(t.range, 0)] (by simp) ?_ ?_
      · intro y hy; simp only [List.mem_singleton] at hy; subst hy; exact hg
      · have := phi_le t [(t.range, 0)]
        simp only [poolSz] at this; omega

end

end TbbVerif.C05
