/-
C05 — parallel_for_each, item lifetime, part 3: at most one activation waits (or will wait) on a block's counter, block ids are
fresh, the destructions of a block's items sit behind the wait on that block's counter, and once one of them has been performed
nobody waits on that counter any more.
-/
import TbbVerif.Proofs.C05.EachOrdA

namespace TbbVerif.C05.Each

/-- no wait on `blk b` follows a destruction of an item of block `b` in the same operation list -/
def DOrd : List Op → Prop
  | [] => True
  | o :: r => (∀ b j x, o = .act (.destroy b j x) → Op.await (.blk b) ∉ r) ∧ DOrd r

structure InvM (s : St) : Prop where
  mb : ∀ b, MB b s ≤ 1
  fresh : ∀ b, s.blk.length ≤ b → MB b s = 0 ∧ (∀ a ∈ s.acts, ∀ j x, Op.act (.destroy b j x) ∉ a.ops) ∧ (∀ j x, Act.destroy b j x ∉ s.log)
  dord : ∀ a ∈ s.acts, DOrd a.ops
  dest : ∀ a ∈ s.acts, ∀ b j x, Op.act (.destroy b j x) ∈ a.ops → Op.await (.blk b) ∈ a.ops ∨ MB b s = 0
  logd : ∀ b j x, Act.destroy b j x ∈ s.log → MB b s = 0

theorem DOrd_nodestroy : ∀ (ops : List Op), (∀ b j x, Op.act (.destroy b j x) ∉ ops) → DOrd ops
  | [], _ => trivial
  | o :: r, h => ⟨fun b j x e => absurd (by rw [e]; exact List.mem_cons_self) (h b j x), DOrd_nodestroy r (fun b j x hm => h b j x (List.mem_cons_of_mem _ hm))⟩

theorem DOrd.append : ∀ {x y : List Op}, DOrd x → DOrd y → (∀ b j z, Op.act (.destroy b j z) ∈ x → Op.await (.blk b) ∉ y) → DOrd (x ++ y)
  | [], _, _, hy, _ => hy
  | o :: r, y, hx, hy, hc => by
    refine ⟨fun b j z e hm => ?_, DOrd.append hx.2 hy (fun b j z hm => hc b j z (List.mem_cons_of_mem _ hm))⟩
    rcases List.mem_append.1 hm with h1 | h1
    · exact hx.1 b j z e h1
    · exact hc b j z (by rw [e]; exact List.mem_cons_self) h1

theorem DOrd_idle : ∀ (ops : List Op), Idle ops → DOrd ops
  | [], _ => trivial
  | o :: r, h => by
    refine ⟨fun b j x _ hm => ?_, DOrd_idle r h.tail⟩
    obtain ⟨_, _, _, e⟩ := h _ (List.mem_cons_of_mem _ hm)
    cases e

theorem await_not_mem_of_MBO {b : Nat} (ops : List Op) (h : MBO b ops = 0) : Op.await (.blk b) ∉ ops := by
  intro hm
  have := mbO_le_MBO (b := b) ops _ hm
  simp only [mbO, if_true] at this; omega

theorem MB_set (b : Nat) (acts : List Actv) (i : Nat) (a : Actv) (ops : List Op) (hi : acts[i]? = some a) :
    ((acts.set i { a with ops := ops }).map (fun (a : Actv) => MBO b a.ops)).sum = (acts.map (fun (a : Actv) => MBO b a.ops)).sum - MBO b a.ops + MBO b ops := by
  have h1 := nsum_set (fun (a : Actv) => MBO b a.ops) acts i a { a with ops := ops } hi
  have h2 : MBO b a.ops ≤ (acts.map (fun (a : Actv) => MBO b a.ops)).sum := nsum_le_of_mem (fun (a : Actv) => MBO b a.ops) acts a (List.mem_of_getElem? hi)
  simp only at h1
  omega

/-! ### static facts -/

theorem feedOps_mbo (b tid : Nat) (ys : List Nat) : MBO b (feedOps tid ys) = 0 := by
  induction ys with
  | nil => rfl
  | cons y ys ih =>
    have e : feedOps tid (y :: ys) = .reserve (.kid tid) 1 :: .spawn (.feed y tid) :: feedOps tid ys := by simp [feedOps, List.flatMap_cons]
    rw [e]; simp [mbO, ih]

theorem blockSpawns_mbo (b : Nat) (c : Cat) (b' k0 : Nat) : ∀ (i : Nat) (xs : List Nat), MBO b (blockSpawns c b' k0 i xs) = 0
  | _, [] => rfl
  | i, x :: xs => by simp [blockSpawns, mbO, blockSpawns_mbo b c b' k0 (i + 1) xs]

theorem pforOps_mbo (b : Nat) (cfg : Cfg) (b' : Nat) : ∀ (cs : List (Nat × Nat)), MBO b (pforOps cfg b' cs) = 0
  | [] => rfl
  | (lo, hi) :: cs => by simp [pforOps, mbO, pforOps_mbo b cfg b' cs]

theorem destroys_mbo (b b' : Nat) : ∀ (i : Nat) (xs : List Nat), MBO b (destroys b' i xs) = 0
  | _, [] => rfl
  | i, x :: xs => by simp [destroys, mbO, destroys_mbo b b' (i + 1) xs]

theorem blockCode_mbo (b : Nat) (c : Cat) (b' k0 : Nat) (items : List Nat) : MBO b (blockCode c b' k0 items) ≤ if b' = b then 1 else 0 := by
  cases items with
  | nil => simp [blockCode, mbO]
  | cons x xs =>
    have h3 : MBO b (if c = .input then destroys b' 0 (x :: xs) else []) = 0 := by
      split
      · exact destroys_mbo b b' 0 (x :: xs)
      · rfl
    simp only [blockCode, MBO_append, MBO_cons, MBO_nil, blockSpawns_mbo, mbO, h3]
    split <;> simp

theorem code_mbo (b : Nat) (t : Task) : MBO b (code t) = 0 := by
  cases t with
  | chunk b' lo xs =>
    simp only [code, MBO_append, MBO_cons, MBO_nil, mbO]
    have : ∀ (l : List (Nat × Nat)), MBO b (l.map (fun p => Op.body p.1 (.pos (lo + p.2)))) = 0 := by
      intro l; induction l with
      | nil => rfl
      | cons p ps ih => simp [mbO, ih]
    rw [this]
  | _ => simp [code, mbO]

theorem destroys_mem (b' : Nat) (a : Act) : ∀ (i : Nat) (xs : List Nat), Op.act a ∈ destroys b' i xs → ∃ j x, a = .destroy b' j x
  | _, [], h => by cases h
  | i, y :: ys, h => by
    simp only [destroys, List.mem_cons, Op.act.injEq] at h
    rcases h with h | h
    · exact ⟨i, y, h⟩
    · exact destroys_mem b' a (i + 1) ys h

/-- a destruction in a block's code is one of that block and stands after the wait on the block's counter -/
theorem blockCode_destroy (c : Cat) (b' k0 : Nat) (items : List Nat) (b j x : Nat) (h : Op.act (.destroy b j x) ∈ blockCode c b' k0 items) :
    b = b' ∧ Op.await (.blk b') ∈ blockCode c b' k0 items := by
  cases items with
  | nil => simp [blockCode] at h
  | cons y ys =>
    simp only [blockCode, List.mem_append, List.mem_cons, reduceCtorEq, false_or, List.not_mem_nil, or_false] at h
    rcases h with h | h
    · exact absurd h (blockSpawns_noact c b' k0 _ 1 ys)
    · split at h
      · obtain ⟨j', x', e⟩ := destroys_mem b' _ 0 (y :: ys) h
        cases e
        exact ⟨rfl, by simp [blockCode]⟩
      · cases h

theorem dord_blockCode (c : Cat) (b' k0 : Nat) (items : List Nat) : DOrd (blockCode c b' k0 items) := by
  cases items with
  | nil => exact DOrd_nodestroy _ (fun _ _ _ hm => by simp [blockCode] at hm)
  | cons y ys =>
    simp only [blockCode]
    have hpost : Idle (if c = .input then destroys b' 0 (y :: ys) else []) := by
      split
      · exact destroys_idle b' 0 (y :: ys)
      · exact Idle.nil
    rw [List.append_assoc]
    refine DOrd.append (DOrd_nodestroy _ (fun b j x hm => blockSpawns_noact c b' k0 _ 1 ys hm)) ?_ (fun b j x hm => absurd hm (blockSpawns_noact c b' k0 _ 1 ys))
    refine DOrd.append (DOrd_nodestroy _ (fun b j x hm => by simp at hm)) (DOrd_idle _ hpost) (fun b j x hm => by simp at hm)

theorem length_setPad_ge (l : List Nat) (i v : Nat) : l.length ≤ (setPad l i v).length := by
  unfold setPad; split <;> simp <;> omega

theorem blk_reserve_len (s : St) (c : Ctr) (n : Nat) : s.blk.length ≤ (s.reserve c n).blk.length := by
  cases c with
  | root => simp [St.reserve]
  | blk b => simp only [St.reserve]; exact length_setPad_ge _ _ _
  | kid i => simp only [St.reserve]; split <;> simp

theorem blk_release_len (s : St) (c : Ctr) : s.blk.length ≤ (s.release c).blk.length := by
  cases c with
  | root => simp only [St.release]; split <;> simp
  | blk b => simp only [St.release]; split
             · simp
             · exact length_setPad_ge _ _ _
  | kid i => simp only [St.release]; split <;> (try split) <;> (try split) <;> simp

/-! ### the generic step -/

theorem invm_step {s s' : St} (h : InvM s) (i : Nat) (a : Actv) (op : Op) (rest e : List Op) (newlog : List Act)
    (hi : s.acts[i]? = some a) (ho : a.ops = op :: rest)
    (hacts : s'.acts = s.acts.set i { a with ops := e ++ rest }) (hlog : s'.log = newlog ++ s.log)
    (hlen : s.blk.length ≤ s'.blk.length)
    (hmbo : ∀ b, MBO b e ≤ mbO b op ∨ (s.blk.length ≤ b ∧ b < s'.blk.length ∧ MBO b e ≤ 1))
    (hde : DOrd e)
    (hdes : ∀ b j x, Op.act (.destroy b j x) ∈ e → Op.await (.blk b) ∈ e ∧ 1 ≤ mbO b op)
    (hlogd : ∀ b j x, Act.destroy b j x ∈ newlog → op = .act (.destroy b j x))
    (hawait : ∀ c, op = .await c → e = []) : InvM s' := by
  have hm : a ∈ s.acts := List.mem_of_getElem? hi
  have hMB : ∀ b, MB b s' = MB b s - (mbO b op + MBO b rest) + (MBO b e + MBO b rest) := by
    intro b
    have := MB_set b s.acts i a (e ++ rest) hi
    simp only [MB]
    rw [hacts, this, ho, MBO_cons, MBO_append]
  have hle : ∀ b, mbO b op + MBO b rest ≤ MB b s := by
    intro b
    have := MBO_le_MB (b := b) s a hm
    rw [ho, MBO_cons] at this; exact this
  have hdo : DOrd (op :: rest) := by have := h.dord a hm; rw [ho] at this; exact this
  -- a counter whose id is not yet allocated is mentioned nowhere; otherwise MB cannot grow
  have hnogrow : ∀ b, b < s.blk.length → MB b s' ≤ MB b s := by
    intro b hb
    rcases hmbo b with h1 | ⟨h1, _⟩
    · have := hMB b; have := hle b; omega
    · omega
  have hdestlen : ∀ a' ∈ s.acts, ∀ b j x, Op.act (.destroy b j x) ∈ a'.ops → b < s.blk.length := by
    intro a' ha' b j x hx
    rcases Nat.lt_or_ge b s.blk.length with h1 | h1
    · exact h1
    · exact absurd hx ((h.fresh b h1).2.1 a' ha' j x)
  have hmem : ∀ a' ∈ s'.acts, a' ∈ s.acts ∨ a' = { a with ops := e ++ rest } := by
    intro a' ha'; rw [hacts] at ha'; exact List.mem_or_eq_of_mem_set ha'
  refine ⟨?_, ?_, ?_, ?_, ?_⟩
  · -- mb
    intro b
    rcases hmbo b with h1 | ⟨h1, _, h3⟩
    · have := hMB b; have := hle b; have := h.mb b; omega
    · have h0 := (h.fresh b h1).1
      have := hMB b; have := hle b; omega
  · -- fresh
    intro b hb
    have hb0 : s.blk.length ≤ b := by omega
    obtain ⟨f1, f2, f3⟩ := h.fresh b hb0
    have hop0 : mbO b op = 0 := by have := hle b; omega
    have he0 : MBO b e = 0 := by
      rcases hmbo b with h1 | ⟨_, h2, _⟩
      · omega
      · omega
    refine ⟨by have := hMB b; have := hle b; omega, ?_, ?_⟩
    · intro a' ha' j x hx
      rcases hmem a' ha' with h1 | h1
      · exact f2 a' h1 j x hx
      · subst h1
        rcases List.mem_append.1 hx with h2 | h2
        · have := (hdes b j x h2).2; omega
        · exact f2 a hm j x (by rw [ho]; exact List.mem_cons_of_mem _ h2)
    · intro j x hx
      rw [hlog] at hx
      rcases List.mem_append.1 hx with h1 | h1
      · have := hlogd b j x h1
        exact f2 a hm j x (by rw [ho, this]; exact List.mem_cons_self)
      · exact f3 j x h1
  · -- dord
    intro a' ha'
    rcases hmem a' ha' with h1 | h1
    · exact h.dord a' h1
    · subst h1
      refine DOrd.append hde hdo.2 (fun b j x hx => ?_)
      have h1 := (hdes b j x hx).2
      have h2 := hle b
      have h3 := h.mb b
      exact await_not_mem_of_MBO rest (by omega)
  · -- dest
    intro a' ha' b j x hx
    rcases hmem a' ha' with h1 | h1
    · have hb := hdestlen a' h1 b j x hx
      rcases h.dest a' h1 b j x hx with h2 | h2
      · exact Or.inl h2
      · exact Or.inr (by have := hnogrow b hb; omega)
    · subst h1
      rcases List.mem_append.1 hx with h2 | h2
      · exact Or.inl (List.mem_append_left _ (hdes b j x h2).1)
      · have hx' : Op.act (.destroy b j x) ∈ a.ops := by rw [ho]; exact List.mem_cons_of_mem _ h2
        have hb := hdestlen a hm b j x hx'
        rcases h.dest a hm b j x hx' with h3 | h3
        · rw [ho] at h3
          rcases List.mem_cons.1 h3 with h4 | h4
          · -- the wait itself is being passed
            right
            have he := hawait _ h4.symm
            have h5 : mbO b op = 1 := by rw [← h4]; simp [mbO]
            have h6 := hMB b; have h7 := hle b; have h8 := h.mb b
            rw [he] at h6
            simp only [MBO_nil] at h6
            omega
          · exact Or.inl (List.mem_append_right _ h4)
        · exact Or.inr (by have := hnogrow b hb; omega)
  · -- logd
    intro b j x hx
    rw [hlog] at hx
    rcases List.mem_append.1 hx with h1 | h1
    · have hop := hlogd b j x h1
      have hx' : Op.act (.destroy b j x) ∈ a.ops := by rw [ho, hop]; exact List.mem_cons_self
      have hb := hdestlen a hm b j x hx'
      have h0 : MB b s = 0 := by
        rcases h.dest a hm b j x hx' with h3 | h3
        · exfalso
          rw [ho] at h3
          rcases List.mem_cons.1 h3 with h4 | h4
          · rw [hop] at h4; cases h4
          · exact hdo.1 b j x hop h4
        · exact h3
      have := hnogrow b hb; omega
    · have h0 := h.logd b j x h1
      have hb : b < s.blk.length := by
        rcases Nat.lt_or_ge b s.blk.length with h2 | h2
        · exact h2
        · exact absurd h1 ((h.fresh b h2).2.2 j x)
      have := hnogrow b hb; omega

theorem nodes_nil : ∀ b j x, Op.act (.destroy b j x) ∈ ([] : List Op) → Op.await (.blk b) ∈ ([] : List Op) ∧ 1 ≤ mbO b (Op.rootExec) :=
  fun _ _ _ h => by cases h

theorem invm_exec (cfg : Cfg) {s : St} (hmk : ∀ a ∈ s.acts, ∀ x, Op.act x ∈ a.ops → isMark x = true) (h : InvM s) (ch : Choice) :
    InvM (exec cfg s ch) := by
  cases ch with
  | start j tid =>
    simp only [exec]
    split
    · rename_i t ht
      have hMB : ∀ b, MB b ({ s with pool := s.pool.eraseIdx j, acts := s.acts ++ [{ tid := tid, ops := code t }] } : St) = MB b s := by
        intro b; simp [MB, code_mbo]
      have hnd : ∀ b j x, Op.act (.destroy b j x) ∉ code t := by
        intro b j x hm; cases t <;> simp [code] at hm
      refine ⟨fun b => by rw [hMB]; exact h.mb b, fun b hb => ?_, ?_, ?_, fun b j x hx => by rw [hMB]; exact h.logd b j x hx⟩
      · obtain ⟨f1, f2, f3⟩ := h.fresh b hb
        refine ⟨by rw [hMB]; exact f1, fun a ha j x hx => ?_, f3⟩
        rcases List.mem_append.1 ha with h1 | h1
        · exact f2 a h1 j x hx
        · simp only [List.mem_singleton] at h1; subst h1; exact hnd b j x hx
      · intro a ha
        rcases List.mem_append.1 ha with h1 | h1
        · exact h.dord a h1
        · simp only [List.mem_singleton] at h1; subst h1; exact DOrd_nodestroy _ hnd
      · intro a ha b j x hx
        rcases List.mem_append.1 ha with h1 | h1
        · rw [hMB]; exact h.dest a h1 b j x hx
        · simp only [List.mem_singleton] at h1; subst h1; exact absurd hx (hnd b j x)
    · exact h
  | step i =>
    simp only [exec]
    split
    · rename_i a hi
      split
      · rename_i op rest ho
        have hm : a ∈ s.acts := List.mem_of_getElem? hi
        have hplain : ∀ (s' : St) (newlog : List Act), s'.acts = s.acts.set i { a with ops := rest } → s'.log = newlog ++ s.log → s.blk.length ≤ s'.blk.length →
            (∀ b j x, Act.destroy b j x ∈ newlog → op = .act (.destroy b j x)) → InvM s' := by
          intro s' newlog e1 e2 e3 e4
          exact invm_step h i a op rest [] newlog hi ho (by simpa using e1) e2 e3 (fun b => Or.inl (by simp)) trivial (fun _ _ _ hx => by cases hx) e4 (fun _ _ => rfl)
        have hzero : ∀ (s' : St) (e : List Op) (newlog : List Act), s'.acts = s.acts.set i { a with ops := e ++ rest } → s'.log = newlog ++ s.log →
            s.blk.length ≤ s'.blk.length → (∀ b, MBO b e = 0) → (∀ b j x, Op.act (.destroy b j x) ∉ e) → (∀ b j x, Act.destroy b j x ∉ newlog) →
            (∀ c, op ≠ .await c) → InvM s' := by
          intro s' e newlog e1 e2 e3 e4 e5 e6 e7
          exact invm_step h i a op rest e newlog hi ho e1 e2 e3 (fun b => Or.inl (by rw [e4]; omega)) (DOrd_nodestroy _ e5)
            (fun b j x hx => absurd hx (e5 b j x)) (fun b j x hx => absurd hx (e6 b j x)) (fun c hc => absurd hc (e7 c))
        cases op with
        | reserve c' n =>
          obtain ⟨_, f2, _, f4, _⟩ := reserve_frame s c' n
          exact hplain _ [] (by simp [stepOp, setOps, f2]) (by simp [stepOp, setOps, f4]) (blk_reserve_len s c' n) (fun _ _ _ hx => by cases hx)
        | release c' =>
          obtain ⟨_, f2, f3, _⟩ := release_frame s c'
          exact hplain _ [] (by simp [stepOp, setOps, f2]) (by simp [stepOp, setOps, f3]) (blk_release_len s c') (fun _ _ _ hx => by cases hx)
        | spawn t =>
          exact hplain _ [.spawn t] (by simp [stepOp, setOps]) rfl (Nat.le_refl _) (fun _ _ _ hx => by simp at hx)
        | await c' =>
          simp only [stepOp]
          split
          · exact hplain _ [.pass c'] (by simp [setOps]) rfl (Nat.le_refl _) (fun _ _ _ hx => by simp at hx)
          · exact h
        | act y =>
          exact hplain _ [y] (by simp [stepOp, setOps]) rfl (Nat.le_refl _) (fun b j x hx => by simp only [List.mem_singleton] at hx; rw [hx])
        | body y src =>
          refine hzero _ (feedOps a.tid (cfg.feeds y) ++ [.act (.bodyE y src)]) [.bodyS y src] (by simp [stepOp, setOps]) rfl (Nat.le_refl _)
            (fun b => by rw [MBO_append, feedOps_mbo]; simp [mbO]) (fun b j x hx => ?_) (fun _ _ _ hx => by simp at hx) (fun _ hc => by cases hc)
          rcases List.mem_append.1 hx with h1 | h1
          · exact feedOps_noact _ _ _ h1
          · simp at h1
        | subExec f1 f2 f3 =>
          exact hzero _ [.spawn (.inv f3 (.kid s.kid.length)), .spawn (.inv f2 (.kid s.kid.length)), .act (.callS f1), .act (.callE f1), .release (.kid s.kid.length)]
            [.arm s.kid.length] (by simp [stepOp, setOps]) rfl (Nat.le_refl _) (fun b => by simp [mbO]) (fun _ _ _ hx => by simp at hx) (fun _ _ _ hx => by simp at hx)
            (fun _ hc => by cases hc)
        | rootExec =>
          simp only [stepOp]
          split
          · refine invm_step h i a _ rest (pforOps cfg s.blk.length cfg.chunks ++ [.await (.blk s.blk.length), .release .root]) [.pfor s.blk.length] hi ho
              (by simp [setOps]) rfl (by simp [setOps]) (fun b => ?_) (DOrd_nodestroy _ (fun b j x hx => ?_)) (fun b j x hx => ?_) (fun _ _ _ hx => by simp at hx) (fun _ hc => by cases hc)
            · by_cases hb : b = s.blk.length
              · right; subst hb
                refine ⟨Nat.le_refl _, by simp [setOps], ?_⟩
                rw [MBO_append, pforOps_mbo]; simp [mbO]
              · left
                have hb' : ¬ s.blk.length = b := fun e => hb e.symm
                rw [MBO_append, pforOps_mbo]; simp [mbO, hb']
            · rcases List.mem_append.1 hx with h1 | h1
              · exact pforOps_noact _ _ _ _ h1
              · simp at h1
            · exfalso
              rcases List.mem_append.1 hx with h1 | h1
              · exact pforOps_noact _ _ _ _ h1
              · simp at h1
          · split
            · refine invm_step h i a _ rest [.reserve .root 1, .rootLoop s.blk.length s.iter []] [.cmp s.iter] hi ho
                (by simp [setOps]) rfl (by simp [setOps]) (fun b => ?_) (DOrd_nodestroy _ (fun b j x hx => by simp at hx)) (fun b j x hx => by simp at hx)
                (fun _ _ _ hx => by simp at hx) (fun _ hc => by cases hc)
              by_cases hb : b = s.blk.length
              · right; subst hb; exact ⟨Nat.le_refl _, by simp [setOps], by simp [mbO]⟩
              · left
                have hb' : ¬ s.blk.length = b := fun e => hb e.symm
                simp [mbO, hb']
            · exact hzero _ [.release .root] [.cmp s.iter] (by simp [setOps]) rfl (Nat.le_refl _) (fun b => by simp [mbO]) (fun _ _ _ hx => by simp at hx)
                (fun _ _ _ hx => by simp at hx) (fun _ hc => by cases hc)
          · split
            · refine invm_step h i a _ rest [.rootLoop s.blk.length s.iter []] [.cmp s.iter] hi ho
                (by simp [setOps]) rfl (by simp [setOps]) (fun b => ?_) (DOrd_nodestroy _ (fun b j x hx => by simp at hx)) (fun b j x hx => by simp at hx)
                (fun _ _ _ hx => by simp at hx) (fun _ hc => by cases hc)
              by_cases hb : b = s.blk.length
              · right; subst hb; exact ⟨Nat.le_refl _, by simp [setOps], by simp [mbO]⟩
              · left
                have hb' : ¬ s.blk.length = b := fun e => hb e.symm
                simp [mbO, hb']
            · exact hzero _ [.release .root] [.cmp s.iter] (by simp [setOps]) rfl (Nat.le_refl _) (fun b => by simp [mbO]) (fun _ _ _ hx => by simp at hx)
                (fun _ _ _ hx => by simp at hx) (fun _ hc => by cases hc)
        | rootLoop b' k0 items =>
          have hexit : InvM (setOps { s with log := .block b' k0 items.length :: s.log } i a (loopExit cfg.cat b' k0 items ++ rest)) := by
            have hpre : ∀ b, MBO b (if cfg.cat = .forward then [Op.reserve .root 1] else []) = 0 := by intro b; split <;> simp [mbO]
            refine invm_step h i a _ rest (loopExit cfg.cat b' k0 items) [.block b' k0 items.length] hi ho (by simp [setOps]) rfl (Nat.le_refl _)
              (fun b => Or.inl ?_) ?_ (fun b j x hx => ?_) (fun _ _ _ hx => by simp at hx) (fun _ hc => by cases hc)
            · unfold loopExit
              rw [MBO_append, hpre, MBO_cons]
              have := blockCode_mbo b cfg.cat b' k0 items
              simp only [mbO] at this ⊢
              omega
            · unfold loopExit
              refine DOrd.append (DOrd_nodestroy _ (fun b j x hx => by split at hx <;> simp at hx)) ?_ (fun b j x hx => by split at hx <;> simp at hx)
              exact ⟨fun _ _ _ e => (by cases e), dord_blockCode cfg.cat b' k0 items⟩
            · unfold loopExit at hx ⊢
              rcases List.mem_append.1 hx with h1 | h1
              · split at h1 <;> simp at h1
              · simp only [List.mem_cons, reduceCtorEq, false_or] at h1
                obtain ⟨e1, e2⟩ := blockCode_destroy cfg.cat b' k0 items b j x h1
                subst e1
                exact ⟨List.mem_append_right _ (List.mem_cons_of_mem _ e2), by simp [mbO]⟩
          simp only [stepOp]
          split
          · split
            · rename_i y hy hlt
              refine invm_step h i a _ rest [.rootLoop b' k0 (items ++ [y])] (if cfg.cat = .input then [Act.inc s.iter, .copy b' items.length y, .deref s.iter] else [Act.inc s.iter])
                hi ho (by simp [setOps]) rfl (Nat.le_refl _) (fun b => Or.inl (by simp [mbO])) (DOrd_nodestroy _ (fun b j x hx => by simp at hx))
                (fun b j x hx => by simp at hx) (fun b j x hx => by split at hx <;> simp at hx) (fun _ hc => by cases hc)
            · exact hexit
          · exact hexit
      · exact h
    · exact h

theorem invm_init (cfg : Cfg) (threads : Nat) : InvM (initEach cfg threads) := by
  have hmain : (initEach cfg threads).acts = [{ tid := 0, ops := mainEach cfg }] := rfl
  have hmb : ∀ b, MB b (initEach cfg threads) = 0 := by
    intro b
    simp only [MB, hmain, List.map_cons, List.map_nil, List.sum_cons, List.sum_nil]
    unfold mainEach; split <;> simp [mbO]
  have hnd : ∀ b j x, Op.act (.destroy b j x) ∉ mainEach cfg := by
    intro b j x hx; unfold mainEach at hx; split at hx <;> simp at hx
  refine ⟨fun b => by rw [hmb]; omega, fun b _ => ⟨hmb b, ?_, fun _ _ hx => by cases hx⟩, ?_, ?_, fun _ _ _ hx => by cases hx⟩
  · intro a ha j x hx; rw [hmain] at ha; simp only [List.mem_singleton] at ha; subst ha; exact hnd b j x hx
  · intro a ha; rw [hmain] at ha; simp only [List.mem_singleton] at ha; subst ha; exact DOrd_nodestroy _ hnd
  · intro a ha b j x hx; rw [hmain] at ha; simp only [List.mem_singleton] at ha; subst ha; exact absurd hx (hnd b j x)

end TbbVerif.C05.Each
