/-
C05 — parallel_for_each with input iterators: the copies made into `block_iteration_space` and their destructions balance.

`Inv6`: for every block `b`, slot `j` and item `x`:
  (copies of `x` into slot `j` of block `b` logged so far) =
  (destructions of that copy logged so far) + (destructions still to be performed by some activation)
                                            + (1 if the block under construction already holds `x` in slot `j`).
-/
import TbbVerif.Proofs.C05.EachBlocks

namespace TbbVerif.C05.Each

def copyCount (b j x : Nat) (log : List Act) : Nat := log.count (.copy b j x)
def destroyCount (b j x : Nat) (log : List Act) : Nat := log.count (.destroy b j x)

/-- destructions of copy `(b, j, x)` an operation still stands for -/
def pd (cat : Cat) (b j x : Nat) : Op → Nat
  | .act (.destroy b' j' x') => if b' = b ∧ j' = j ∧ x' = x then 1 else 0
  | .rootLoop b' _ items => if cat = .input ∧ b' = b ∧ items[j]? = some x then 1 else 0
  | _ => 0

def PD (cat : Cat) (b j x : Nat) (ops : List Op) : Nat := (ops.map (pd cat b j x)).sum
def PDA (cat : Cat) (b j x : Nat) (acts : List Actv) : Nat := (acts.map (fun (a : Actv) => PD cat b j x a.ops)).sum

variable {cat : Cat} {b j x : Nat}

@[simp] theorem PD_nil : PD cat b j x [] = 0 := rfl
@[simp] theorem PD_cons (o : Op) (r : List Op) : PD cat b j x (o :: r) = pd cat b j x o + PD cat b j x r := by simp [PD]
@[simp] theorem PD_append (a c : List Op) : PD cat b j x (a ++ c) = PD cat b j x a + PD cat b j x c := by simp [PD, List.sum_append]

theorem PD_zero : ∀ (ops : List Op), (∀ o ∈ ops, pd cat b j x o = 0) → PD cat b j x ops = 0
  | [], _ => rfl
  | o :: r, h => by rw [PD_cons, h o List.mem_cons_self, PD_zero r (fun y hy => h y (List.mem_cons_of_mem _ hy))]

theorem feedOps_pd (tid : Nat) (ys : List Nat) : PD cat b j x (feedOps tid ys) = 0 :=
  PD_zero _ (fun o ho => by rcases feedOps_mem tid ys o ho with rfl | ⟨y, rfl⟩ <;> rfl)

theorem blockSpawns_pd (c : Cat) (b' k0 : Nat) : ∀ (i : Nat) (xs : List Nat), PD cat b j x (blockSpawns c b' k0 i xs) = 0
  | _, [] => rfl
  | i, y :: ys => by simp [blockSpawns, pd, blockSpawns_pd c b' k0 (i + 1) ys]

theorem pforOps_pd (cfg : Cfg) (b' : Nat) : ∀ (cs : List (Nat × Nat)), PD cat b j x (pforOps cfg b' cs) = 0
  | [] => rfl
  | (lo, hi) :: cs => by simp [pforOps, pd, pforOps_pd cfg b' cs]

/-- the destructor of a block destroys slot `i0 + i` holding `xs[i]`, once each -/
theorem destroys_pd (b' : Nat) : ∀ (i0 : Nat) (xs : List Nat),
    PD cat b j x (destroys b' i0 xs) = if b' = b ∧ i0 ≤ j ∧ xs[j - i0]? = some x then 1 else 0
  | _, [] => by simp [destroys]
  | i0, y :: ys => by
    rw [show destroys b' i0 (y :: ys) = .act (.destroy b' i0 y) :: destroys b' (i0 + 1) ys from rfl, PD_cons, destroys_pd b' (i0 + 1) ys]
    simp only [pd]
    by_cases hb : b' = b
    · subst hb
      by_cases hj : i0 = j
      · subst hj
        have : ¬ (i0 + 1 ≤ i0) := by omega
        by_cases hy : y = x <;> simp [this, hy]
      · by_cases hlt : i0 < j
        · have e1 : j - i0 = (j - (i0 + 1)) + 1 := by omega
          have h1 : i0 + 1 ≤ j := by omega
          have h2 : i0 ≤ j := by omega
          simp [hj, h1, h2, e1]
        · have h1 : ¬ i0 + 1 ≤ j := by omega
          have h2 : ¬ i0 ≤ j := by omega
          simp [hj, h1, h2]
    · simp [hb]

theorem blockCode_pd (c : Cat) (b' k0 : Nat) (items : List Nat) :
    PD cat b j x (blockCode c b' k0 items) = if c = .input ∧ b' = b ∧ items[j]? = some x then 1 else 0 := by
  cases items with
  | nil => simp [blockCode, pd]
  | cons y ys =>
    simp only [blockCode, PD_append, PD_cons, PD_nil, blockSpawns_pd, pd]
    by_cases hc : c = .input
    · simp only [hc, if_true, destroys_pd, Nat.zero_le, true_and, Nat.sub_zero]
      simp
    · simp [hc]

theorem code_pd (t : Task) : PD cat b j x (code t) = 0 := by
  cases t with
  | chunk b' lo xs =>
    simp only [code, PD_append, PD_cons, PD_nil, pd]
    rw [PD_zero _ (fun o ho => by simp only [List.mem_map] at ho; obtain ⟨p, _, rfl⟩ := ho; rfl)]
  | _ => simp [code, pd]

def Inv6 (cat : Cat) (s : St) : Prop :=
  ∀ b j x, copyCount b j x s.log = destroyCount b j x s.log + PDA cat b j x s.acts

theorem PDA_set (acts : List Actv) (i : Nat) (a : Actv) (ops : List Op) (hi : acts[i]? = some a) :
    PDA cat b j x (acts.set i { a with ops := ops }) + PD cat b j x a.ops = PDA cat b j x acts + PD cat b j x ops :=
  nsum_set (fun (a : Actv) => PD cat b j x a.ops) acts i a { a with ops := ops } hi

theorem inv6_step {s s' : St} (h : Inv6 cat s) (i : Nat) (a : Actv) (op : Op) (rest e : List Op) (newlog : List Act)
    (hi : s.acts[i]? = some a) (ho : a.ops = op :: rest)
    (hacts : s'.acts = s.acts.set i { a with ops := e ++ rest }) (hlog : s'.log = newlog ++ s.log)
    (hE : ∀ b j x, copyCount b j x newlog + pd cat b j x op = destroyCount b j x newlog + PD cat b j x e) : Inv6 cat s' := by
  intro b j x
  have h1 := PDA_set (cat := cat) (b := b) (j := j) (x := x) s.acts i a (e ++ rest) hi
  have h2 := h b j x
  have h3 := hE b j x
  rw [hacts, hlog]
  rw [ho, PD_cons, PD_append] at h1
  simp only [copyCount, destroyCount, List.count_append] at h2 h3 ⊢
  omega

theorem getElem?_append_one (items : List Nat) (y : Nat) (j : Nat) :
    (items ++ [y])[j]? = if j = items.length then some y else items[j]? := by
  by_cases h : j < items.length
  · rw [List.getElem?_append_left h]; have : j ≠ items.length := by omega
    simp [this]
  · by_cases h2 : j = items.length
    · subst h2; simp
    · rw [List.getElem?_eq_none (by simp; omega), List.getElem?_eq_none (by omega)]; simp [h2]

theorem inv6_exec (cfg : Cfg) {s : St} (hmk : ∀ a ∈ s.acts, ∀ x, Op.act x ∈ a.ops → isMark x = true) (h : Inv6 cfg.cat s) (ch : Choice) :
    Inv6 cfg.cat (exec cfg s ch) := by
  cases ch with
  | start j' tid =>
    simp only [exec]
    split
    · rename_i t ht
      intro b j x
      have := h b j x
      simp only [PDA, List.map_append, List.sum_append, List.map_cons, List.map_nil, List.sum_cons, List.sum_nil, code_pd] at this ⊢
      omega
    · exact h
  | step i =>
    simp only [exec]
    split
    · rename_i a hi
      split
      · rename_i op rest ho
        have hz : ∀ (s' : St) (e : List Op) (newlog : List Act), s'.acts = s.acts.set i { a with ops := e ++ rest } → s'.log = newlog ++ s.log →
            (∀ y ∈ newlog, (∀ b j x, y ≠ .copy b j x) ∧ ∀ b j x, y ≠ .destroy b j x) → (∀ b j x, PD cfg.cat b j x e = 0) → (∀ b j x, pd cfg.cat b j x op = 0) → Inv6 cfg.cat s' := by
          intro s' e newlog e1 e2 e3 e4 e5
          refine inv6_step h i a op rest e newlog hi ho e1 e2 (fun b j x => ?_)
          rw [e4, e5]
          have hc : copyCount b j x newlog = 0 := by
            simp only [copyCount, List.count_eq_zero]; intro hm; exact (e3 _ hm).1 b j x rfl
          have hd : destroyCount b j x newlog = 0 := by
            simp only [destroyCount, List.count_eq_zero]; intro hm; exact (e3 _ hm).2 b j x rfl
          omega
        have one : ∀ (y : Act), ((∀ b j x, y ≠ .copy b j x) ∧ ∀ b j x, y ≠ .destroy b j x) → ∀ z ∈ [y], (∀ b j x, z ≠ .copy b j x) ∧ ∀ b j x, z ≠ .destroy b j x := by
          intro y hy z hz'; simp only [List.mem_singleton] at hz'; subst hz'; exact hy
        cases op with
        | reserve c' n =>
          obtain ⟨_, f2, _, f4, _⟩ := reserve_frame s c' n
          exact hz _ [] [] (by simp [stepOp, setOps, f2]) (by simp [stepOp, setOps, f4]) (fun _ hm => by cases hm) (fun _ _ _ => rfl) (fun _ _ _ => rfl)
        | release c' =>
          obtain ⟨_, f2, f3, _⟩ := release_frame s c'
          exact hz _ [] [] (by simp [stepOp, setOps, f2]) (by simp [stepOp, setOps, f3]) (fun _ hm => by cases hm) (fun _ _ _ => rfl) (fun _ _ _ => rfl)
        | spawn t =>
          exact hz _ [] [.spawn t] (by simp [stepOp, setOps]) rfl (one _ ⟨by simp, by simp⟩) (fun _ _ _ => rfl) (fun _ _ _ => rfl)
        | await c' =>
          simp only [stepOp]
          split
          · exact hz _ [] [.pass c'] (by simp [setOps]) rfl (one _ ⟨by simp, by simp⟩) (fun _ _ _ => rfl) (fun _ _ _ => rfl)
          · exact h
        | act y =>
          refine inv6_step h i a _ rest [] [y] hi ho (by simp [stepOp, setOps]) rfl (fun b j x => ?_)
          cases y with
          | destroy b' j' x' =>
            simp only [copyCount, destroyCount, List.count_cons, List.count_nil, pd, PD_nil, reduceCtorEq, beq_iff_eq, Act.destroy.injEq]
            by_cases hm : b' = b ∧ j' = j ∧ x' = x <;> simp [hm]
          | copy b' j' x' =>
            -- `act (copy …)` is never an operation (Inv4.marks)
            have := hmk a (List.mem_of_getElem? hi) (.copy b' j' x') (by rw [ho]; exact List.mem_cons_self)
            simp [isMark] at this
          | _ => simp [copyCount, destroyCount, pd]
        | body y src =>
          exact hz _ (feedOps a.tid (cfg.feeds y) ++ [.act (.bodyE y src)]) [.bodyS y src] (by simp [stepOp, setOps]) rfl (one _ ⟨by simp, by simp⟩)
            (fun _ _ _ => by rw [PD_append, feedOps_pd]; simp [pd]) (fun _ _ _ => rfl)
        | rootExec =>
          simp only [stepOp]
          split
          · exact hz _ (pforOps cfg s.blk.length cfg.chunks ++ [.await (.blk s.blk.length), .release .root]) [.pfor s.blk.length] (by simp [setOps]) rfl
              (one _ ⟨by simp, by simp⟩) (fun _ _ _ => by rw [PD_append, pforOps_pd]; simp [pd]) (fun _ _ _ => rfl)
          · split
            · exact hz _ [.reserve .root 1, .rootLoop s.blk.length s.iter []] [.cmp s.iter] (by simp [setOps]) rfl (one _ ⟨by simp, by simp⟩)
                (fun _ _ _ => by simp [pd]) (fun _ _ _ => rfl)
            · exact hz _ [.release .root] [.cmp s.iter] (by simp [setOps]) rfl (one _ ⟨by simp, by simp⟩) (fun _ _ _ => by simp [pd]) (fun _ _ _ => rfl)
          · split
            · exact hz _ [.rootLoop s.blk.length s.iter []] [.cmp s.iter] (by simp [setOps]) rfl (one _ ⟨by simp, by simp⟩)
                (fun _ _ _ => by simp [pd]) (fun _ _ _ => rfl)
            · exact hz _ [.release .root] [.cmp s.iter] (by simp [setOps]) rfl (one _ ⟨by simp, by simp⟩) (fun _ _ _ => by simp [pd]) (fun _ _ _ => rfl)
        | rootLoop b' k0 items =>
          have hexit : Inv6 cfg.cat (setOps { s with log := .block b' k0 items.length :: s.log } i a (loopExit cfg.cat b' k0 items ++ rest)) := by
            refine inv6_step h i a _ rest (loopExit cfg.cat b' k0 items) [.block b' k0 items.length] hi ho (by simp [setOps]) rfl (fun b j x => ?_)
            unfold loopExit
            rw [PD_append, PD_cons, blockCode_pd]
            have h0 : PD cfg.cat b j x (if cfg.cat = .forward then [Op.reserve .root 1] else []) = 0 := by split <;> simp [pd]
            rw [h0]
            simp [copyCount, destroyCount, pd]
          simp only [stepOp]
          split
          · split
            · rename_i y hy hlt
              refine inv6_step h i a _ rest [.rootLoop b' k0 (items ++ [y])] (if cfg.cat = .input then [Act.inc s.iter, .copy b' items.length y, .deref s.iter] else [Act.inc s.iter])
                hi ho (by simp [setOps]) rfl (fun b j x => ?_)
              simp only [PD_cons, PD_nil, pd, getElem?_append_one]
              by_cases hc : cfg.cat = .input
              · simp only [hc, if_true, copyCount, destroyCount, List.count_cons, List.count_nil, reduceCtorEq, beq_iff_eq, Act.copy.injEq, true_and]
                by_cases hb : b' = b
                · subst hb
                  by_cases hj : j = items.length
                  · subst hj
                    have hn : items[items.length]? = none := List.getElem?_eq_none (Nat.le_refl _)
                    by_cases hx : y = x <;> simp [hx, hn]
                  · have hj' : ¬ items.length = j := fun e => hj e.symm
                    simp [hj, hj']
                · simp [hb]
              · simp [hc, copyCount, destroyCount]
            · exact hexit
          · exact hexit
        | subExec f1 f2 f3 =>
          exact hz _ [.spawn (.inv f3 (.kid s.kid.length)), .spawn (.inv f2 (.kid s.kid.length)), .act (.callS f1), .act (.callE f1), .release (.kid s.kid.length)]
            [.arm s.kid.length] (by simp [stepOp, setOps]) rfl (one _ ⟨by simp, by simp⟩) (fun _ _ _ => by simp [pd]) (fun _ _ _ => rfl)
      · exact h
    · exact h

/-- reachable states of parallel_for_each with the copy / destruction balance -/
structure ReachL (cfg : Cfg) (s : St) : Prop where
  e : ReachE cfg s
  i6 : Inv6 cfg.cat s

theorem reachL_init (cfg : Cfg) (threads : Nat) : ReachL cfg (initEach cfg threads) := by
  refine ⟨reachE_init cfg threads, fun b j x => ?_⟩
  have : PD cfg.cat b j x (mainEach cfg) = 0 := by unfold mainEach; split <;> simp [pd]
  simp [initEach, copyCount, destroyCount, PDA, this]

theorem ReachL.run {cfg : Cfg} (hch : cfg.cat = .random → ChunksTile cfg) (hmx : 1 ≤ cfg.maxBlock) :
    ∀ (sched : List Choice) {s : St}, ReachL cfg s → ReachL cfg (run cfg s sched)
  | [], _, h => h
  | ch :: rest, _, h =>
    ReachL.run hch hmx rest ⟨ReachE.run hch hmx [ch] h.e, inv6_exec cfg h.e.i4.marks h.i6 ch⟩

end TbbVerif.C05.Each
