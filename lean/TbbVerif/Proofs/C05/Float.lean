/-
C05 — the binary32 / binary64 rounding model `fl` of Model/C05.lean: error bound and exactness.

  fl_err     : 0 < q → fl p q ≤ q * (1 + 1/2^p) ∧ q * (1 - 1/2^p) ≤ fl p q     (round to nearest, `p` bits)
  fl_natCast : n < 2^p → fl p n = n                                             (integers below 2^p are exact)
-/
import TbbVerif.Model.C05
import Mathlib.Tactic.Linarith
import Mathlib.Tactic.Positivity
import Mathlib.Tactic.FieldSimp
import Mathlib.Tactic.Ring
import Mathlib.Tactic.NormNum
import Mathlib.Algebra.Order.Field.Basic
import Mathlib.Algebra.Order.Ring.Rat
import Mathlib.Algebra.Field.Rat

namespace TbbVerif.C05

theorem pow2_eq_zpow (k : Int) : pow2 k = (2 : ℚ) ^ k := by
  unfold pow2
  split
  · rename_i h
    conv_rhs => rw [← Int.toNat_of_nonneg h]
    rw [zpow_natCast]
  · rename_i h
    have h' : 0 ≤ -k := by omega
    have : k = -((-k).toNat : Int) := by rw [Int.toNat_of_nonneg h']; omega
    conv_rhs => rw [this]
    rw [zpow_neg, zpow_natCast, one_div]

theorem pow2_pos (k : Int) : 0 < pow2 k := by
  rw [pow2_eq_zpow]; exact zpow_pos (by norm_num) _

/-- `rne` is within 1/2 of its argument -/
theorem rne_err (x : ℚ) (hx : 0 ≤ x) : (rne x : ℚ) ≤ x + 1 / 2 ∧ x - 1 / 2 ≤ (rne x : ℚ) := by
  have hf0 : 0 ≤ x.floor := Rat.le_floor_iff.2 (by simpa using hx)
  have hfc : ((x.floor.toNat : Nat) : ℚ) = ((x.floor : Int) : ℚ) := by
    have : ((x.floor.toNat : Nat) : Int) = x.floor := Int.toNat_of_nonneg hf0
    exact_mod_cast congrArg (fun z : Int => (z : ℚ)) this
  have h1 : ((x.floor : Int) : ℚ) ≤ x := Rat.floor_le x
  have h2 : x < ((x.floor + 1 : Int) : ℚ) := Rat.lt_floor_add_one x
  push_cast at h2
  unfold rne
  simp only
  split
  · rename_i h; rw [hfc] at h ⊢; constructor <;> linarith
  · split
    · rename_i h; rw [hfc] at h; push_cast; rw [hfc]; constructor <;> linarith
    · rename_i h3 h4
      rw [hfc] at h3 h4
      have : x - ((x.floor : Int) : ℚ) = 1 / 2 := le_antisymm (not_lt.1 h4) (not_lt.1 h3)
      split
      · rw [hfc]; constructor <;> linarith
      · push_cast; rw [hfc]; constructor <;> linarith

/-- `rne` of an integer-valued rational is that integer -/
theorem rne_natCast (n : Nat) : rne (n : ℚ) = n := by
  unfold rne
  have : ((n : ℚ)).floor = (n : Int) := by
    have := Rat.floor_intCast (n : Int)
    simpa using this
  simp [this]

theorem ilog2Frac_le (n d : Nat) (hn : n ≠ 0) (hd : d ≠ 0) : (2 : ℚ) ^ (ilog2Frac n d) ≤ (n : ℚ) / (d : ℚ) := by
  have hdpos : (0 : ℚ) < (d : ℚ) := by exact_mod_cast Nat.pos_of_ne_zero hd
  have hnl := Nat.log2_self_le hn
  have hnu := @Nat.lt_log2_self n
  have hdl := Nat.log2_self_le hd
  have hdu := @Nat.lt_log2_self d
  unfold ilog2Frac
  simp only
  generalize n.log2 = ln at *
  generalize d.log2 = ld at *
  split
  · rename_i hle
    split
    · rename_i h
      rw [zpow_natCast, le_div_iff₀ hdpos]
      have : 2 ^ (ln - ld) * d ≤ n := by rw [Nat.mul_comm]; exact h
      exact_mod_cast this
    · -- 2^(ln-ld-1) ≤ n/d  because  d < 2^(ld+1)  and  2^ln ≤ n
      have hk : d * 2 ^ (ln - ld) < 2 * n := by
        have e : 2 ^ (ld + 1) * 2 ^ (ln - ld) = 2 * 2 ^ ln := by
          rw [← Nat.pow_add, show ld + 1 + (ln - ld) = ln + 1 by omega, Nat.pow_succ]; omega
        have h2 : d * 2 ^ (ln - ld) < 2 ^ (ld + 1) * 2 ^ (ln - ld) :=
          Nat.mul_lt_mul_of_pos_right hdu (Nat.two_pow_pos _)
        omega
      rw [zpow_sub_one₀ (by norm_num : (2 : ℚ) ≠ 0), zpow_natCast, le_div_iff₀ hdpos]
      have hk' : ((d * 2 ^ (ln - ld) : Nat) : ℚ) < ((2 * n : Nat) : ℚ) := by exact_mod_cast hk
      push_cast at hk'
      have : (2 : ℚ) ^ (ln - ld) * 2⁻¹ * d = (d * 2 ^ (ln - ld)) / 2 := by ring
      rw [this]
      linarith
  · rename_i hlt
    split
    · rename_i h
      rw [zpow_neg, zpow_natCast, le_div_iff₀ hdpos]
      have hp : (0 : ℚ) < 2 ^ (ld - ln) := by positivity
      have h' : ((d : Nat) : ℚ) ≤ ((n * 2 ^ (ld - ln) : Nat) : ℚ) := by exact_mod_cast h
      push_cast at h'
      rw [inv_mul_le_iff₀ hp]
      linarith
    · have hk : d ≤ n * 2 ^ (ld - ln + 1) := by
        have e : 2 ^ ln * 2 ^ (ld - ln + 1) = 2 ^ (ld + 1) := by
          rw [← Nat.pow_add]; congr 1; omega
        have h2 : 2 ^ ln * 2 ^ (ld - ln + 1) ≤ n * 2 ^ (ld - ln + 1) := Nat.mul_le_mul_right _ hnl
        omega
      rw [zpow_neg, zpow_natCast, le_div_iff₀ hdpos]
      have hp : (0 : ℚ) < 2 ^ (ld - ln + 1) := by positivity
      have h' : ((d : Nat) : ℚ) ≤ ((n * 2 ^ (ld - ln + 1) : Nat) : ℚ) := by exact_mod_cast hk
      push_cast at h'
      rw [inv_mul_le_iff₀ hp]
      linarith

private theorem num_toNat_cast (q : ℚ) (hq : 0 < q) : ((q.num.toNat : Nat) : ℚ) = (q.num : ℚ) := by
  have : 0 ≤ q.num := le_of_lt (Rat.num_pos.2 hq)
  have h : ((q.num.toNat : Nat) : Int) = q.num := Int.toNat_of_nonneg this
  exact_mod_cast congrArg (fun z : Int => (z : ℚ)) h

/-- `2 ^ ilog2 q ≤ q` -/
theorem ilog2_le (q : ℚ) (hq : 0 < q) : (2 : ℚ) ^ (ilog2 q) ≤ q := by
  have hn0 : 0 < q.num := Rat.num_pos.2 hq
  have hnn : q.num.toNat ≠ 0 := by omega
  have := ilog2Frac_le q.num.toNat q.den hnn q.den_nz
  rw [num_toNat_cast q hq, Rat.num_div_den] at this
  exact this

/-- **Rounding error of `fl`**: relative error at most `2^-p`. -/
theorem fl_err (p : Nat) (hp : 1 ≤ p) (q : ℚ) (hq : 0 < q) :
    fl p q ≤ q * (1 + 1 / 2 ^ p) ∧ q * (1 - 1 / 2 ^ p) ≤ fl p q := by
  unfold fl
  rw [if_neg (not_le.2 hq)]
  simp only
  set s : Int := (p : Int) - 1 - ilog2 q with hs
  rw [pow2_eq_zpow, pow2_eq_zpow]
  have h2s : (0 : ℚ) < 2 ^ s := zpow_pos (by norm_num) _
  set x : ℚ := q * 2 ^ s with hx
  have hx0 : 0 ≤ x := by positivity
  obtain ⟨e1, e2⟩ := rne_err x hx0
  -- x ≥ 2^(p-1)
  have hxl : (2 : ℚ) ^ ((p : Int) - 1) ≤ x := by
    have h1 := ilog2_le q hq
    have : (2 : ℚ) ^ ((p : Int) - 1) = 2 ^ (ilog2 q) * 2 ^ s := by
      rw [← zpow_add₀ (by norm_num : (2 : ℚ) ≠ 0)]; congr 1; omega
    rw [this, hx]
    exact mul_le_mul_of_nonneg_right h1 (le_of_lt h2s)
  have hhalf : (1 : ℚ) / 2 ≤ x / 2 ^ p := by
    have : (2 : ℚ) ^ ((p : Int) - 1) = 2 ^ p / 2 := by
      rw [zpow_sub_one₀ (by norm_num : (2 : ℚ) ≠ 0), zpow_natCast]; ring
    rw [this] at hxl
    have hpp : (0 : ℚ) < 2 ^ p := by positivity
    rw [le_div_iff₀ hpp]
    linarith
  have hq' : q = x * 2 ^ (-s) := by
    rw [hx, mul_assoc, ← zpow_add₀ (by norm_num : (2 : ℚ) ≠ 0)]; simp
  have hns : (0 : ℚ) < 2 ^ (-s) := zpow_pos (by norm_num) _
  constructor
  · calc (rne x : ℚ) * 2 ^ (-s) ≤ (x + x / 2 ^ p) * 2 ^ (-s) :=
          mul_le_mul_of_nonneg_right (by linarith) (le_of_lt hns)
      _ = q * (1 + 1 / 2 ^ p) := by rw [hq']; ring
  · calc q * (1 - 1 / 2 ^ p) = (x - x / 2 ^ p) * 2 ^ (-s) := by rw [hq']; ring
      _ ≤ (rne x : ℚ) * 2 ^ (-s) := mul_le_mul_of_nonneg_right (by linarith) (le_of_lt hns)

theorem fl_zero (p : Nat) : fl p 0 = 0 := by simp [fl]

theorem fl_nonneg (p : Nat) (q : ℚ) : 0 ≤ fl p q := by
  unfold fl
  split
  · exact le_refl _
  · simp only
    exact mul_nonneg (by positivity) (le_of_lt (pow2_pos _))

/-- integers below `2^p` are exactly representable -/
theorem fl_natCast (p n : Nat) (_hp : 1 ≤ p) (hn : n < 2 ^ p) : fl p (n : ℚ) = n := by
  rcases Nat.eq_zero_or_pos n with rfl | hpos
  · simp [fl]
  have hn0 : n ≠ 0 := by omega
  have hq : (0 : ℚ) < (n : ℚ) := by exact_mod_cast hpos
  unfold fl
  rw [if_neg (not_le.2 hq)]
  simp only
  have hlog : ilog2 (n : ℚ) = (n.log2 : Int) := by
    unfold ilog2 ilog2Frac
    have h1 : (n : ℚ).num.toNat = n := by simp
    have h2 : (n : ℚ).den = 1 := by simp
    rw [h1, h2]
    have : Nat.log2 1 = 0 := by decide
    simp only [this, Nat.zero_le, if_true, Nat.sub_zero, Nat.one_mul]
    rw [if_pos (Nat.log2_self_le hn0)]
  have hlt : n.log2 < p := (Nat.log2_lt hn0).2 hn
  rw [hlog]
  have hs : (p : Int) - 1 - (n.log2 : Int) = ((p - 1 - n.log2 : Nat) : Int) := by omega
  rw [hs, pow2_eq_zpow, pow2_eq_zpow, zpow_natCast, zpow_neg, zpow_natCast]
  have : (n : ℚ) * 2 ^ (p - 1 - n.log2) = ((n * 2 ^ (p - 1 - n.log2) : Nat) : ℚ) := by push_cast; ring
  rw [this, rne_natCast]
  push_cast
  have h2 : (2 : ℚ) ^ (p - 1 - n.log2) ≠ 0 := by positivity
  field_simp

end TbbVerif.C05
