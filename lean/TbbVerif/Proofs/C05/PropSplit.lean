/-
C05 — the float proportional split of blocked_range stays strictly inside the range:
for every `size ≥ 2` (no upper bound needed for the inequality; `< 2^64` for definedness) and every legal
proportion, `1 ≤ right_part ≤ size - 1`, in spite of the four binary32 roundings.
-/
import TbbVerif.Proofs.C05.Float
import TbbVerif.Proofs.C05.Tree
import Mathlib.Tactic.GCongr

namespace TbbVerif.C05

/-- unit roundoff bounds for binary32 -/
theorem f32_err (q : ℚ) (hq : 0 < q) : f32 q ≤ q * (16777217 / 16777216) ∧ q * (16777215 / 16777216) ≤ f32 q := by
  have := fl_err 24 (by norm_num) q hq
  unfold f32
  simp only [Generated.C05.floatMantBits]
  norm_num at this ⊢
  exact this

theorem f32_pos (q : ℚ) (hq : 0 < q) : 0 < f32 q := by
  have := (f32_err q hq).2
  have : 0 < q * (16777215 / 16777216) := by positivity
  linarith

/-- the value that is truncated to `right_part` -/
def propT (size l r : Nat) : ℚ :=
  f32 (f32 (f32 (f32 (size : ℚ) * f32 (r : ℚ)) / f32 ((l + r : Nat) : ℚ)) + 1 / 2)

theorem propM_le (size r : Nat) (hs : 1 ≤ size) (hr : 1 ≤ r) :
    f32 (f32 (size : ℚ) * f32 (r : ℚ)) ≤ (size : ℚ) * r * (16777217 / 16777216) ^ 3 := by
  have hS : (0 : ℚ) < size := by exact_mod_cast hs
  have hR : (0 : ℚ) < r := by exact_mod_cast hr
  obtain ⟨a1, _⟩ := f32_err _ hS
  obtain ⟨b1, _⟩ := f32_err _ hR
  have ha := f32_pos _ hS
  have hb := f32_pos _ hR
  obtain ⟨m1, _⟩ := f32_err _ (mul_pos ha hb)
  calc f32 (f32 (size : ℚ) * f32 (r : ℚ)) ≤ f32 (size : ℚ) * f32 (r : ℚ) * (16777217 / 16777216) := m1
    _ ≤ ((size : ℚ) * (16777217 / 16777216)) * ((r : ℚ) * (16777217 / 16777216)) * (16777217 / 16777216) := by gcongr
    _ = (size : ℚ) * r * (16777217 / 16777216) ^ 3 := by ring

theorem propT_bounds (size l r : Nat) (hs : 2 ≤ size) (hok : PropOK l r) :
    1 ≤ propT size l r ∧ propT size l r < size := by
  obtain ⟨hr1, hrl, hlr, _⟩ := hok
  have hS : (2 : ℚ) ≤ size := by exact_mod_cast hs
  have hS0 : (0 : ℚ) < size := by linarith
  have hR : (1 : ℚ) ≤ r := by exact_mod_cast hr1
  have hR0 : (0 : ℚ) < r := by linarith
  have hL : (r : ℚ) ≤ l := by exact_mod_cast hrl
  have hL2 : (l : ℚ) ≤ r + 1 := by exact_mod_cast hlr
  have hC0 : (0 : ℚ) < ((l + r : Nat) : ℚ) := by push_cast; linarith
  unfold propT
  obtain ⟨a1, a2⟩ := f32_err _ hS0
  obtain ⟨b1, b2⟩ := f32_err _ hR0
  obtain ⟨c1, c2⟩ := f32_err _ hC0
  have ha := f32_pos _ hS0
  have hb := f32_pos _ hR0
  have hc := f32_pos _ hC0
  have hab := mul_pos ha hb
  obtain ⟨m1, m2⟩ := f32_err _ hab
  have hm := f32_pos _ hab
  have hmc := div_pos hm hc
  obtain ⟨d1, d2⟩ := f32_err _ hmc
  have hd := f32_pos _ hmc
  have hdh : 0 < f32 (f32 (f32 (size : ℚ) * f32 (r : ℚ)) / f32 ((l + r : Nat) : ℚ)) + 1 / 2 := by linarith
  obtain ⟨t1, t2⟩ := f32_err _ hdh
  set a := f32 (size : ℚ)
  set b := f32 (r : ℚ)
  set c := f32 ((l + r : Nat) : ℚ)
  set m := f32 (a * b)
  set d := f32 (m / c)
  set t := f32 (d + 1 / 2)
  set U : ℚ := 16777217 / 16777216 with hU
  set D : ℚ := 16777215 / 16777216 with hD
  have hU0 : 0 < U := by norm_num [hU]
  have hD0 : 0 < D := by norm_num [hD]
  push_cast at c1 c2 hC0
  constructor
  · -- lower bound
    have hm_lo : (size : ℚ) * r * D ^ 3 ≤ m := by
      calc (size : ℚ) * r * D ^ 3 = ((size : ℚ) * D) * ((r : ℚ) * D) * D := by ring
        _ ≤ a * b * D := by gcongr
        _ ≤ m := m2
    have hc_hi : c ≤ 3 * (r : ℚ) * U := by
      calc c ≤ ((l : ℚ) + r) * U := c1
        _ ≤ (3 * (r : ℚ)) * U := by gcongr; linarith
    have hmc_lo : (2 : ℚ) / 3 * (D ^ 3 / U) ≤ m / c := by
      rw [le_div_iff₀ hc]
      calc (2 : ℚ) / 3 * (D ^ 3 / U) * c ≤ (2 : ℚ) / 3 * (D ^ 3 / U) * (3 * (r : ℚ) * U) := by gcongr
        _ = 2 * (r : ℚ) * D ^ 3 := by field_simp
        _ ≤ (size : ℚ) * r * D ^ 3 := by gcongr
        _ ≤ m := hm_lo
    have hd_lo : (3 : ℚ) / 5 ≤ d := by
      calc (3 : ℚ) / 5 ≤ (2 : ℚ) / 3 * (D ^ 3 / U) * D := by norm_num [hU, hD]
        _ ≤ m / c * D := by gcongr
        _ ≤ d := d2
    calc (1 : ℚ) ≤ ((3 : ℚ) / 5 + 1 / 2) * D := by norm_num [hD]
      _ ≤ (d + 1 / 2) * D := by gcongr
      _ ≤ t := t2
  · -- upper bound
    have hm_hi : m ≤ (size : ℚ) * r * U ^ 3 := by
      calc m ≤ a * b * U := m1
        _ ≤ ((size : ℚ) * U) * ((r : ℚ) * U) * U := by gcongr
        _ = (size : ℚ) * r * U ^ 3 := by ring
    have hc_lo : 2 * (r : ℚ) * D ≤ c := by
      calc 2 * (r : ℚ) * D ≤ ((l : ℚ) + r) * D := by gcongr; linarith
        _ ≤ c := c2
    have hmc_hi : m / c ≤ (size : ℚ) / 2 * (U ^ 3 / D) := by
      rw [div_le_iff₀ hc]
      calc m ≤ (size : ℚ) * r * U ^ 3 := hm_hi
        _ = (size : ℚ) / 2 * (U ^ 3 / D) * (2 * (r : ℚ) * D) := by field_simp
        _ ≤ (size : ℚ) / 2 * (U ^ 3 / D) * c := by gcongr
    have hd_hi : d ≤ (size : ℚ) * (11 / 20) := by
      calc d ≤ m / c * U := d1
        _ ≤ (size : ℚ) / 2 * (U ^ 3 / D) * U := by gcongr
        _ = (size : ℚ) * (U ^ 4 / (2 * D)) := by ring
        _ ≤ (size : ℚ) * (11 / 20) := by
          have hk : U ^ 4 / (2 * D) ≤ 11 / 20 := by norm_num [hU, hD]
          exact mul_le_mul_of_nonneg_left hk (le_of_lt hS0)
    calc t ≤ (d + 1 / 2) * U := t1
      _ ≤ ((size : ℚ) * (11 / 20) + 1 / 2) * U := by gcongr
      _ < size := by
        have : U ≤ 21 / 20 := by norm_num [hU]
        nlinarith

/-- **The float proportional split stays inside.**  For every size `2 ≤ size` and every proportion that
`get_split` can produce (`1 ≤ right ≤ left ≤ right+1`, `left+right < 2^24`), if the C++ expression
`size_type(float(size) * float(right) / float(left + right) + 0.5f)` is defined at all, its value
`right_part` satisfies `1 ≤ right_part ≤ size - 1` — also above `2^24` where `float(size)` is inexact. -/
theorem propRightPart_bounds (size l r rp : Nat) (hs : 2 ≤ size) (hok : PropOK l r)
    (h : propRightPart size l r = some rp) : 1 ≤ rp ∧ rp + 1 ≤ size := by
  have hb := propT_bounds size l r hs hok
  have hlr : Cint.addU64 l r = l + r := by
    unfold Cint.addU64; obtain ⟨_, _, _, h4⟩ := hok; omega
  unfold propRightPart at h
  simp only [hlr] at h
  split at h
  · cases h
  · split at h
    · cases h
    · split at h
      · cases h
      · injection h with h
        unfold propT at hb
        subst h
        constructor
        · have : (1 : Int) ≤ (f32 (f32 (f32 (f32 (size : ℚ) * f32 (r : ℚ)) / f32 ((l + r : Nat) : ℚ)) + 1 / 2)).floor :=
            Rat.le_floor_iff.2 (by simpa using hb.1)
          omega
        · have : (f32 (f32 (f32 (f32 (size : ℚ) * f32 (r : ℚ)) / f32 ((l + r : Nat) : ℚ)) + 1 / 2)).floor < (size : Int) :=
            Rat.floor_lt_iff.2 (by simpa using hb.2)
          omega

/-- … and for `size < 2^64` the expression *is* defined (no infinity, the conversion fits `size_t`). -/
theorem propRightPart_isSome (size l r : Nat) (hs : 2 ≤ size) (hs' : size < 2 ^ 64) (hok : PropOK l r) :
    ∃ rp, propRightPart size l r = some rp := by
  have hb := propT_bounds size l r hs hok
  have hlr : Cint.addU64 l r = l + r := by
    unfold Cint.addU64; obtain ⟨_, _, _, h4⟩ := hok; omega
  obtain ⟨hr1, hrl, hlr', hsum⟩ := hok
  have hm := propM_le size r (by omega) hr1
  have h0 : ¬ (l + r = 0) := by omega
  have hS : (size : ℚ) < 2 ^ 64 := by exact_mod_cast hs'
  have hR : (r : ℚ) < 2 ^ 24 := by
    have : r < 2 ^ 24 := by omega
    exact_mod_cast this
  have hS0 : (0 : ℚ) ≤ size := by positivity
  have hR0 : (0 : ℚ) ≤ r := by positivity
  have hlt : f32 (f32 (size : ℚ) * f32 (r : ℚ)) < 2 ^ 128 := by
    calc f32 (f32 (size : ℚ) * f32 (r : ℚ)) ≤ (size : ℚ) * r * (16777217 / 16777216) ^ 3 := hm
      _ ≤ (2 : ℚ) ^ 64 * 2 ^ 24 * (16777217 / 16777216) ^ 3 := by gcongr
      _ < 2 ^ 128 := by norm_num
  unfold propT at hb
  have hfit : ¬ ((2 : ℚ) ^ 64 ≤ f32 (f32 (f32 (f32 (size : ℚ) * f32 (r : ℚ)) / f32 ((l + r : Nat) : ℚ)) + 1 / 2)) := by
    have := hb.2
    linarith
  have key : (propRightPart size l r).isSome = true := by
    unfold propRightPart
    simp only [hlr, if_neg h0, if_neg (not_le.2 hlt), if_neg hfit, Option.isSome_some]
  exact Option.isSome_iff_exists.1 key

end TbbVerif.C05
