/-
C05 — parallel_for_each / parallel_invoke task system: initial states, reachability, and what follows when the call returns.
-/
import TbbVerif.Proofs.C05.EachWait
import TbbVerif.Proofs.C05.EachOnce

namespace TbbVerif.C05.Each

structure Reach (md : Mode) (cfg : Cfg) (base : List Nat) (s : St) : Prop where
  i1 : Inv1 cfg.cat s
  i2 : Inv2 cfg.cat s
  i3 : Inv3 md cfg base s

theorem Reach.exec {md : Mode} {cfg : Cfg} {base : List Nat} {s : St} (hch : cfg.cat = .random → ChunksTile cfg)
    (h : Reach md cfg base s) (ch : Choice) : Reach md cfg base (exec cfg s ch) :=
  ⟨inv1_exec cfg h.i1 ch, inv2_exec cfg h.i1 h.i2 ch, inv3_exec md cfg base hch h.i3 ch⟩

theorem Reach.run {md : Mode} {cfg : Cfg} {base : List Nat} (hch : cfg.cat = .random → ChunksTile cfg) :
    ∀ (sched : List Choice) {s : St}, Reach md cfg base s → Reach md cfg base (run cfg s sched)
  | [], _, h => h
  | ch :: rest, _, h => Reach.run hch rest (h.exec hch ch)

/-! ### initial states -/

theorem val_init (cfg : Cfg) (threads : Nat) (c : Ctr) : (initEach cfg threads).val c = 0 := by
  cases c with
  | root => rfl
  | blk b => rfl
  | kid i => exact getD_replicate_zero _ _

theorem reach_initEach (cfg : Cfg) (threads : Nat) : Reach .body cfg cfg.inp (initEach cfg threads) := by
  have hmain : (initEach cfg threads).acts = [{ tid := 0, ops := mainEach cfg }] := rfl
  have hpool : (initEach cfg threads).pool = [] := rfl
  by_cases he : cfg.inp = []
  · have hops : mainEach cfg = [.act .done] := by simp [mainEach, he]
    refine ⟨⟨fun c => ?_, ?_, rfl⟩, ⟨?_, ?_, ?_⟩, ⟨?_, ?_, ?_, ?_, ?_⟩⟩
    · simp only [lhs, val_init, hmain, hpool, tokP, tokA, hops]
      cases c <;> simp [initEach, nz_replicate_zero, w]
    · intro a ha c; rw [hmain] at ha; simp only [List.mem_singleton] at ha; subst ha; rw [hops]; simp [SN, w]
    · intro a ha; rw [hmain] at ha; simp only [List.mem_singleton] at ha; subst ha; rw [hops]
      exact ⟨⟨fun _ _ e => (by cases e), trivial⟩, ⟨fun ⟨b, hb⟩ => (by simp at hb), trivial⟩⟩
    · intro b hb; rw [val_init] at hb; omega
    · exact ⟨_, [], hmain, Or.inr (Or.inl hops), fun _ h => (by cases h), fun _ => ⟨rfl, fun _ h => (by cases h)⟩, fun h => (by cases h)⟩
    · simp [hmain, hpool, RIP, RIA, hops, riO]
    · intro x
      simp [hmain, hpool, FP, FA, hops, futO, starts, bodies, fedM, fedBy, initEach, he]
    · intro _; exact ⟨rfl, fun a ha b k its hm => by rw [hmain] at ha; simp only [List.mem_singleton] at ha; subst ha; rw [hops] at hm; simp at hm⟩
    · intro a ha y src hm; rw [hmain] at ha; simp only [List.mem_singleton] at ha; subst ha; rw [hops] at hm; simp at hm
    · intro _ _ _; simp [he, initEach]
  · have hops : mainEach cfg = [.reserve .root 1, .rootExec, .await .root, .act .done] := by simp [mainEach, he]
    refine ⟨⟨fun c => ?_, ?_, rfl⟩, ⟨?_, ?_, ?_⟩, ⟨?_, ?_, ?_, ?_, ?_⟩⟩
    · simp only [lhs, val_init, hmain, hpool, tokP, tokA, hops]
      cases c <;> simp [initEach, nz_replicate_zero, w]
    · intro a ha c; rw [hmain] at ha; simp only [List.mem_singleton] at ha; subst ha; rw [hops]
      simp only [SN, W_cons, W_nil, w]
      refine ⟨?_, ?_, ?_, ?_, trivial⟩ <;> (try split) <;> simp
    · intro a ha; rw [hmain] at ha; simp only [List.mem_singleton] at ha; subst ha; rw [hops]
      refine ⟨⟨fun _ _ e => (by cases e), fun _ _ e => (by cases e), fun _ _ e => (by cases e), fun _ _ e => (by cases e), trivial⟩, ?_⟩
      refine AR_of_noAwait _ _ ?_
      intro ⟨b, hb⟩; simp at hb
    · intro b hb; rw [val_init] at hb; omega
    · refine ⟨_, [], hmain, Or.inl ⟨[.reserve .root 1, .rootExec], by rw [hops]; rfl, by simp⟩, fun _ h => (by cases h), ?_, fun h => (by cases h)⟩
      intro h
      rw [hops] at h
      rcases h with h | h <;> cases h
    · simp [hmain, hpool, RIP, RIA, hops, riO]
    · intro x
      simp [hmain, hpool, FP, FA, hops, futO, starts, bodies, fedM, fedBy, initEach, dropCount]
    · intro _; exact ⟨rfl, fun a ha b k its hm => by rw [hmain] at ha; simp only [List.mem_singleton] at ha; subst ha; rw [hops] at hm; simp at hm⟩
    · intro a ha y src hm; rw [hmain] at ha; simp only [List.mem_singleton] at ha; subst ha; rw [hops] at hm; simp at hm
    · intro _ _ h0; simp [hmain, hpool, RIP, RIA, hops, riO] at h0

/-- what `invoke_recursive_separation` leaves for the calling thread: balanced on every counter, ends in the wait -/
theorem mainInvoke_facts (cat : Cat) (cfg : Cfg) (it : Nat) (i n : Nat) :
    (∀ c, SN cat c (mainInvoke i n) ∧ W cat c (mainInvoke i n) = 0) ∧
    (∃ q, mainInvoke i n = q ++ [.await .root, .act .done] ∧ Op.act .done ∉ q) ∧
    (∀ o ∈ mainInvoke i n, (∀ b m, o ≠ .reserve (.blk b) m) ∧ (∀ b, o ≠ .await (.blk b)) ∧ (∀ b k its, o ≠ .rootLoop b k its) ∧
      (∀ y src, o ≠ .act (.bodyS y src))) ∧
    (∀ x, FO .call cfg it x (mainInvoke i n) = if i ≤ x ∧ x < i + n then 1 else 0) ∧ RIO (mainInvoke i n) = 0 := by
  fun_induction mainInvoke i n with
  | case1 i =>
    refine ⟨fun c => ?_, ⟨[], rfl, by simp⟩, ?_, fun x => ?_, rfl⟩
    · simp [SN, w]
    · intro o ho; simp only [List.mem_cons, List.not_mem_nil, or_false] at ho; rcases ho with rfl | rfl <;> simp
    · simp [futO]
  | case2 i =>
    refine ⟨fun c => ?_, ⟨[.reserve .root 1, .act (.callS i), .act (.callE i), .release .root], rfl, by simp⟩, ?_, fun x => ?_, rfl⟩
    · simp only [SN, W_cons, W_nil, w]; refine ⟨⟨?_, ?_, ?_, ?_, ?_, ?_, trivial⟩, ?_⟩ <;> (try split) <;> simp
    · intro o ho; simp only [List.mem_cons, List.not_mem_nil, or_false] at ho; rcases ho with rfl | rfl | rfl | rfl | rfl | rfl <;> simp
    · simp only [FO_cons, FO_nil, futO, c1]; split <;> split <;> simp_all <;> omega
  | case3 i =>
    refine ⟨fun c => ?_, ⟨[.reserve .root 2, .spawn (.inv i .root), .act (.callS (i + 1)), .act (.callE (i + 1)), .release .root], rfl, by simp⟩, ?_, fun x => ?_, rfl⟩
    · simp only [SN, W_cons, W_nil, w, holds]; refine ⟨⟨?_, ?_, ?_, ?_, ?_, ?_, ?_, trivial⟩, ?_⟩ <;> (try split) <;> simp
    · intro o ho; simp only [List.mem_cons, List.not_mem_nil, or_false] at ho; rcases ho with rfl | rfl | rfl | rfl | rfl | rfl | rfl <;> simp
    · simp only [FO_cons, FO_nil, futO, futT, c1]
      by_cases h1 : i = x <;> by_cases h2 : i + 1 = x <;> simp [h1, h2] <;> omega
  | case4 i =>
    refine ⟨fun c => ?_, ⟨[.reserve .root 3, .spawn (.inv i .root), .spawn (.inv (i + 1) .root), .act (.callS (i + 2)), .act (.callE (i + 2)), .release .root], rfl, by simp⟩, ?_, fun x => ?_, rfl⟩
    · simp only [SN, W_cons, W_nil, w, holds]; refine ⟨⟨?_, ?_, ?_, ?_, ?_, ?_, ?_, ?_, trivial⟩, ?_⟩ <;> (try split) <;> simp
    · intro o ho; simp only [List.mem_cons, List.not_mem_nil, or_false] at ho; rcases ho with rfl | rfl | rfl | rfl | rfl | rfl | rfl | rfl <;> simp
    · simp only [FO_cons, FO_nil, futO, futT, c1]
      by_cases h1 : i = x <;> by_cases h2 : i + 1 = x <;> by_cases h3 : i + 2 = x <;> simp [h1, h2, h3] <;> omega
  | case5 i rem h1 ih =>
    obtain ⟨a1, ⟨q, a2, a3⟩, a4, a5, a6⟩ := ih
    refine ⟨fun c => ?_, ⟨.reserve .root 1 :: .spawn (.subroot i (i + 1) (i + 2)) :: q, by rw [a2]; rfl, by simp [a3]⟩, ?_, fun x => ?_, ?_⟩
    · obtain ⟨b1, b2⟩ := sn_pair cat c .root (.subroot i (i + 1) (i + 2)) _ (by simp [holds]) (a1 c).1
      exact ⟨b1, by rw [b2, (a1 c).2]⟩
    · intro o ho
      simp only [List.mem_cons] at ho
      rcases ho with rfl | rfl | ho
      · simp
      · simp
      · exact a4 o ho
    · simp only [FO_cons, futO, futT, c1, a5 x]
      by_cases g1 : i = x <;> by_cases g2 : i + 1 = x <;> by_cases g3 : i + 2 = x <;> simp [g1, g2, g3] <;> (try split) <;> (try split) <;> omega
    · simp [RIO_cons, riO, riT, a6]

theorem count_range (n x : Nat) : (List.range n).count x = if x < n then 1 else 0 := by
  induction n with
  | zero => simp
  | succ n ih =>
    rw [List.range_succ, List.count_append, ih]
    simp only [List.count_cons, List.count_nil]
    by_cases h1 : x < n <;> by_cases h2 : n = x <;> simp [h1, h2] <;> omega

theorem reach_initInvoke (cfg : Cfg) (n : Nat) : Reach .call cfg (List.range n) (initInvoke n) := by
  obtain ⟨f1, ⟨q, f2, f3⟩, f4, f5, f6⟩ := mainInvoke_facts cfg.cat cfg 0 0 n
  have hmain : (initInvoke n).acts = [{ tid := 0, ops := mainInvoke 0 n }] := rfl
  have hpool : (initInvoke n).pool = [] := rfl
  have hval : ∀ c, (initInvoke n).val c = 0 := fun c => by cases c <;> rfl
  refine ⟨⟨fun c => ?_, ?_, rfl⟩, ⟨?_, ?_, ?_⟩, ⟨?_, ?_, ?_, ?_, ?_⟩⟩
  · simp only [lhs, hval, hmain, hpool, tokP, tokA, List.map_cons, List.map_nil, List.sum_cons, List.sum_nil, (f1 c).2]
    cases c <;> simp [initInvoke, nz]
  · intro a ha c; rw [hmain] at ha; simp only [List.mem_singleton] at ha; subst ha; exact (f1 c).1
  · intro a ha; rw [hmain] at ha; simp only [List.mem_singleton] at ha; subst ha
    exact ⟨RA_of_noReserve _ (fun o ho => (f4 o ho).1), AR_of_noAwait _ _ (fun ⟨b, hb⟩ => (f4 _ hb).2.1 b rfl)⟩
  · intro b hb; rw [hval] at hb; omega
  · refine ⟨_, [], hmain, Or.inl ⟨q, f2, f3⟩, fun _ h => (by cases h), ?_, fun h => (by cases h)⟩
    intro h
    have hl : (mainInvoke 0 n).length ≥ 2 := by rw [f2]; simp
    rcases h with h | h <;> (have h' : mainInvoke 0 n = _ := h) <;> rw [h'] at hl <;> simp at hl
  · simp [hmain, hpool, RIP, RIA, f6]
  · intro x
    have h0 : (initInvoke n).iter = 0 := rfl
    simp only [hmain, hpool, FP, FA, List.map_cons, List.map_nil, List.sum_cons, List.sum_nil, h0, f5 x, count_range]
    simp [starts, calls, fedM, initInvoke]
  · intro _; exact ⟨rfl, fun a ha b k its hm => by rw [hmain] at ha; simp only [List.mem_singleton] at ha; subst ha; exact (f4 _ hm).2.2.1 b k its rfl⟩
  · intro a ha y src hm; rw [hmain] at ha; simp only [List.mem_singleton] at ha; subst ha; exact (f4 _ hm).2.2.2 y src rfl
  · intro h; cases h

/-! ### consequences -/

theorem idle_fut {md : Mode} (cfg : Cfg) (it x : Nat) (ops : List Op) (h : Idle ops) : FO md cfg it x ops = 0 := by
  induction ops with
  | nil => rfl
  | cons o r ih =>
    obtain ⟨b, j, y, rfl⟩ := h _ (List.mem_cons_self)
    rw [FO_cons, ih h.tail]; rfl

/-- once the call has returned: nothing is pending, every activation has only item destructions left -/
theorem Reach.quiet {md : Mode} {cfg : Cfg} {base : List Nat} {s : St} (h : Reach md cfg base s) (hr : returned s = true) :
    s.pool = [] ∧ ∀ a ∈ s.acts, Idle a.ops := by
  obtain ⟨m, others, hm0, _, _, hq, hd⟩ := h.i2.main
  have hdone : Act.done ∈ s.log := by simpa [returned] using hr
  have hm := hd hdone
  obtain ⟨q1, q2⟩ := hq (Or.inr hm)
  refine ⟨q1, fun a ha => ?_⟩
  rw [hm0] at ha
  rcases List.mem_cons.1 ha with e | e
  · subst e; rw [hm]; exact Idle.nil
  · exact q2 a e

theorem Reach.at_most {md : Mode} {cfg : Cfg} {base : List Nat} {s : St} (h : Reach md cfg base s) (x : Nat) :
    (starts md s.log).count x ≤ base.count x + (fedM md cfg s.log).count x := by
  have := h.i3.bal x
  omega

theorem Reach.exactly {md : Mode} {cfg : Cfg} {base : List Nat} {s : St} (h : Reach md cfg base s) (hr : returned s = true) :
    (starts md s.log).Perm (base ++ fedM md cfg s.log) := by
  obtain ⟨q1, q2⟩ := h.quiet hr
  rw [List.perm_iff_count]
  intro x
  have hb := h.i3.bal x
  have hP : FP md cfg s.iter x s.pool = 0 := by rw [q1]; rfl
  have hA : FA md cfg s.iter x s.acts = 0 := by
    unfold FA
    have : ∀ a ∈ s.acts, FO md cfg s.iter x a.ops = 0 := fun a ha => idle_fut cfg _ x _ (q2 a ha)
    generalize s.acts = l at this
    induction l with
    | nil => rfl
    | cons a r ih =>
      simp only [List.map_cons, List.sum_cons, this a (List.mem_cons_self), ih (fun b hb => this b (List.mem_cons_of_mem _ hb))]
  rw [List.count_append]; omega

end TbbVerif.C05.Each
