/-
C05 — blocked_range2d / blocked_range3d / blocked_nd_range: `do_split` cuts a *divisible* dimension, so these
range types satisfy the Range laws too.

Two comparison rules are covered (which one the code has is `Generated.C05.sel*Guarded`):
  * guarded (`b.is_divisible() && (!a.is_divisible() || ratio comparison)`): sound for all sizes and grains;
  * bare binary64 ratio comparison: sound only while the products `size * grainsize` are exact (< 2^53);
    beyond that it can round to a tie and the code cuts an indivisible dimension.
-/
import TbbVerif.Proofs.C05.Range1

namespace TbbVerif.C05

/-- point membership in a box -/
def memN : List Nat → List R1 → Bool
  | [], [] => true
  | x :: xs, r :: rs => mem1 x r && memN xs rs
  | _, _ => false

/-- what the selection proofs need from the comparison `pk a b` ("cut `b` rather than `a`") on dimensions
satisfying `D` -/
structure PickLaw (pk : R1 → R1 → Bool) (D : R1 → Prop) : Prop where
  fwd : ∀ a b, D a → D b → pk a b = true → a.divisible = true → b.divisible = true
  bwd : ∀ a b, D a → D b → pk a b = false → b.divisible = true → a.divisible = true

/-- the guarded rule never prefers an indivisible dimension — no arithmetic involved -/
theorem pickLaw_guarded : PickLaw (pick true) (fun _ => True) where
  fwd := by
    intro a b _ _ h _
    simp only [pick, if_true, Bool.and_eq_true] at h
    exact h.1
  bwd := by
    intro a b _ _ h hb
    simp only [pick, if_true, hb, Bool.true_and, Bool.or_eq_false_iff, Bool.not_eq_false'] at h
    exact h.1

/-! ### the bare ratio comparison under exact binary64 products -/

/-- all cross products `size_i * grain_j` are exactly representable in binary64 -/
def DimsExact (d : List R1) : Prop := ∀ a ∈ d, ∀ b ∈ d, a.size * b.g < 2 ^ 53

theorem f64_natCast (n : Nat) (h : n < 2 ^ 53) : f64 (n : ℚ) = n := by
  unfold f64
  exact fl_natCast _ n (by decide) (by simpa [Generated.C05.doubleMantBits] using h)

/-- with exact products the comparison in `do_split` is the comparison of the ratios size/grain -/
theorem ratioLess_exact (a b : R1) (ha : 1 ≤ a.size) (hb : 1 ≤ b.size) (hga : 1 ≤ a.g) (hgb : 1 ≤ b.g)
    (h1 : a.size * b.g < 2 ^ 53) (h2 : b.size * a.g < 2 ^ 53) :
    ratioLess a b = decide (a.size * b.g < b.size * a.g) := by
  have e1 : a.size < 2 ^ 53 := Nat.lt_of_le_of_lt (Nat.le_mul_of_pos_right _ hgb) h1
  have e2 : b.g < 2 ^ 53 := Nat.lt_of_le_of_lt (Nat.le_mul_of_pos_left _ ha) h1
  have e3 : b.size < 2 ^ 53 := Nat.lt_of_le_of_lt (Nat.le_mul_of_pos_right _ hga) h2
  have e4 : a.g < 2 ^ 53 := Nat.lt_of_le_of_lt (Nat.le_mul_of_pos_left _ hb) h2
  unfold ratioLess
  rw [f64_natCast _ e1, f64_natCast _ e2, f64_natCast _ e3, f64_natCast _ e4]
  have c1 : ((a.size : ℚ) * (b.g : ℚ)) = ((a.size * b.g : Nat) : ℚ) := by push_cast; ring
  have c2 : ((b.size : ℚ) * (a.g : ℚ)) = ((b.size * a.g : Nat) : ℚ) := by push_cast; ring
  rw [c1, c2, f64_natCast _ h1, f64_natCast _ h2]
  simp only [Nat.cast_lt]

theorem div_of_less {as ag bs bg : Nat} (h : as * bg < bs * ag) (hd : ag < as) : bg < bs := by
  apply Decidable.by_contra
  intro hn
  have hn' : bs ≤ bg := by omega
  have h1 : bs * ag ≤ bg * ag := Nat.mul_le_mul_right _ hn'
  have h2 : ag * bg ≤ as * bg := Nat.mul_le_mul_right _ (by omega)
  have h3 : bg * ag = ag * bg := Nat.mul_comm _ _
  omega

theorem div_of_not_less {as ag bs bg : Nat} (h : ¬ as * bg < bs * ag) (hg : 1 ≤ ag) (hd : bg < bs) : ag < as := by
  apply Decidable.by_contra
  intro hn
  have hn' : as ≤ ag := by omega
  have h1 : as * bg ≤ ag * bg := Nat.mul_le_mul_right _ hn'
  have h2 : (bg + 1) * ag ≤ bs * ag := Nat.mul_le_mul_right _ (by omega)
  have h3 : (bg + 1) * ag = ag * bg + ag := by rw [Nat.add_mul, Nat.mul_comm]; simp
  omega

/-- a non-empty well-formed dimension of `d` whose products with every dimension of `d` are exact -/
def DimExact (d : List R1) (r : R1) : Prop :=
  WF1 r ∧ r.b < r.e ∧ r ∈ d ∧ ∀ x ∈ d, r.size * x.g < 2 ^ 53 ∧ x.size * r.g < 2 ^ 53

theorem pickLaw_exact (d : List R1) : PickLaw (pick false) (DimExact d) := by
  have key : ∀ a b, DimExact d a → DimExact d b →
      (ratioLess a b = true ↔ (a.e - a.b) * b.g < (b.e - b.b) * a.g) := by
    intro a b ha hb
    have sa := R1.size_eq ha.1
    have sb := R1.size_eq hb.1
    have := ratioLess_exact a b (by rw [sa]; have := ha.2.1; omega) (by rw [sb]; have := hb.2.1; omega) ha.1.2.2 hb.1.2.2
      (ha.2.2.2 b hb.2.2.1).1 (ha.2.2.2 b hb.2.2.1).2
    rw [this, sa, sb]
    simp
  constructor
  · intro a b ha hb h hd
    simp only [pick, Bool.false_eq_true, if_false] at h
    exact (R1.divisible_iff hb.1).2 (div_of_less ((key a b ha hb).1 h) ((R1.divisible_iff ha.1).1 hd))
  · intro a b ha hb h hd
    simp only [pick, Bool.false_eq_true, if_false] at h
    have hn : ¬ (a.e - a.b) * b.g < (b.e - b.b) * a.g := fun hh => by
      have := (key a b ha hb).2 hh; rw [this] at h; cases h
    exact (R1.divisible_iff ha.1).2 (div_of_not_less hn ha.1.2.2 ((R1.divisible_iff hb.1).1 hd))

/-! ### the three selection functions pick a divisible dimension -/

/-- `sel` returns a valid index of a divisible dimension whenever some dimension is divisible -/
def SelOK (sel : List R1 → Nat) (d : List R1) : Prop :=
  (∃ r ∈ d, r.divisible = true) → ∃ x, d[sel d]? = some x ∧ x.divisible = true

theorem sel2_ok {D : R1 → Prop} (hl : PickLaw (pick Generated.C05.sel2Guarded) D) (rows cols : R1) (h1 : D rows) (h2 : D cols) :
    SelOK sel2 [rows, cols] := by
  intro ⟨r, hr, hd⟩
  unfold sel2
  simp only
  simp only [List.mem_cons, List.not_mem_nil, or_false] at hr
  split
  · rename_i hp
    refine ⟨cols, by simp, ?_⟩
    rcases hr with rfl | rfl
    · exact hl.fwd _ _ h1 h2 hp hd
    · exact hd
  · rename_i hp
    have hp' : pick Generated.C05.sel2Guarded rows cols = false := by simpa using hp
    refine ⟨rows, by simp, ?_⟩
    rcases hr with rfl | rfl
    · exact hd
    · exact hl.bwd _ _ h1 h2 hp' hd

theorem sel3_ok {D : R1 → Prop} (hl : PickLaw (pick Generated.C05.sel3Guarded) D) (pages rows cols : R1)
    (h0 : D pages) (h1 : D rows) (h2 : D cols) : SelOK sel3 [pages, rows, cols] := by
  intro ⟨r, hr, hd⟩
  unfold sel3
  simp only
  simp only [List.mem_cons, List.not_mem_nil, or_false] at hr
  split
  · rename_i a01
    split
    · rename_i a12
      refine ⟨cols, by simp, ?_⟩
      rcases hr with rfl | rfl | rfl
      · exact hl.fwd _ _ h1 h2 a12 (hl.fwd _ _ h0 h1 a01 hd)
      · exact hl.fwd _ _ h1 h2 a12 hd
      · exact hd
    · rename_i a12
      have a12' : pick Generated.C05.sel3Guarded rows cols = false := by simpa using a12
      refine ⟨rows, by simp, ?_⟩
      rcases hr with rfl | rfl | rfl
      · exact hl.fwd _ _ h0 h1 a01 hd
      · exact hd
      · exact hl.bwd _ _ h1 h2 a12' hd
  · rename_i a01
    have a01' : pick Generated.C05.sel3Guarded pages rows = false := by simpa using a01
    split
    · rename_i a02
      refine ⟨cols, by simp, ?_⟩
      rcases hr with rfl | rfl | rfl
      · exact hl.fwd _ _ h0 h2 a02 hd
      · exact hl.fwd _ _ h0 h2 a02 (hl.bwd _ _ h0 h1 a01' hd)
      · exact hd
    · rename_i a02
      have a02' : pick Generated.C05.sel3Guarded pages cols = false := by simpa using a02
      refine ⟨pages, by simp, ?_⟩
      rcases hr with rfl | rfl | rfl
      · exact hd
      · exact hl.bwd _ _ h0 h1 a01' hd
      · exact hl.bwd _ _ h0 h2 a02' hd

/-- `std::max_element` scan: the current best is divisible as soon as anything seen so far is -/
theorem selNdAux_ok {D : R1 → Prop} (hl : PickLaw (pick Generated.C05.selNdGuarded) D) (d : List R1) :
    ∀ (rest pre : List R1) (cur : R1) (best i : Nat),
    d = pre ++ rest → i = pre.length → d[best]? = some cur → D cur → (∀ x ∈ d, D x) →
    ((∃ r ∈ pre, r.divisible = true) → cur.divisible = true) →
    (∃ r ∈ d, r.divisible = true) → ∃ x, d[selNdAux cur best i rest]? = some x ∧ x.divisible = true := by
  intro rest
  induction rest with
  | nil =>
    intro pre cur best i hd _ hb _ _ hinv hex
    simp only [selNdAux]
    rw [List.append_nil] at hd
    subst hd
    exact ⟨cur, hb, hinv hex⟩
  | cons x xs ih =>
    intro pre cur best i hd hi hb hcur hall hinv hex
    have hxm : x ∈ d := by rw [hd]; simp
    have hx := hall x hxm
    have hdx : d[i]? = some x := by
      rw [hd, hi]; simp
    have hd' : d = (pre ++ [x]) ++ xs := by rw [hd]; simp
    simp only [selNdAux]
    split
    · rename_i hp
      refine ih (pre ++ [x]) x i (i + 1) hd' (by simp [hi]) hdx hx hall ?_ hex
      intro ⟨r, hr, hrd⟩
      rcases List.mem_append.1 hr with h | h
      · exact hl.fwd _ _ hcur hx hp (hinv ⟨r, h, hrd⟩)
      · simp only [List.mem_singleton] at h; subst h; exact hrd
    · rename_i hp
      have hp' : pick Generated.C05.selNdGuarded cur x = false := by simpa using hp
      refine ih (pre ++ [x]) cur best (i + 1) hd' (by simp [hi]) hb hcur hall ?_ hex
      intro ⟨r, hr, hrd⟩
      rcases List.mem_append.1 hr with h | h
      · exact hinv ⟨r, h, hrd⟩
      · simp only [List.mem_singleton] at h; subst h
        exact hl.bwd _ _ hcur hx hp' hrd

theorem selNd_ok {D : R1 → Prop} (hl : PickLaw (pick Generated.C05.selNdGuarded) D) (d : List R1) (hall : ∀ x ∈ d, D x) :
    SelOK selNd d := by
  intro hex
  cases d with
  | nil => obtain ⟨r, hr, _⟩ := hex; cases hr
  | cons x xs =>
    unfold selNd
    simp only
    refine selNdAux_ok hl (x :: xs) xs [x] x 0 1 (by simp) (by simp) (by simp) (hall x (by simp)) hall ?_ hex
    intro ⟨r, hr, hrd⟩
    simp only [List.mem_singleton] at hr; subst hr; exact hrd

/-! ### replacing one dimension -/

theorem memN_set (a b x : R1) (hm : ∀ q, (mem1 q a).toNat + (mem1 q b).toNat = (mem1 q x).toNat) :
    ∀ (d : List R1) (i : Nat) (p : List Nat), d[i]? = some x →
      (memN p (d.set i a)).toNat + (memN p (d.set i b)).toNat = (memN p d).toNat := by
  intro d
  induction d with
  | nil => intro i p h; simp at h
  | cons r rs ih =>
    intro i p h
    cases i with
    | zero =>
      simp only [List.getElem?_cons_zero, Option.some.injEq] at h
      subst h
      cases p with
      | nil => simp [memN]
      | cons q qs =>
        simp only [List.set_cons_zero, memN]
        have := hm q
        cases h1 : mem1 q a <;> cases h2 : mem1 q b <;> cases h3 : mem1 q r <;> cases h4 : memN qs rs <;> simp_all
    | succ j =>
      simp only [List.getElem?_cons_succ] at h
      cases p with
      | nil => simp [memN]
      | cons q qs =>
        simp only [List.set_cons_succ, memN]
        have := ih j qs h
        cases h1 : mem1 q r <;> simp_all

theorem any_set_false {f : R1 → Bool} (d : List R1) (i : Nat) (a : R1) (h : d.any f = false) (ha : f a = false) :
    (d.set i a).any f = false := by
  rw [List.any_eq_false] at h ⊢
  intro x hx
  rcases List.mem_or_eq_of_mem_set hx with h1 | h1
  · exact h x h1
  · subst h1; simp [ha]

/-- well-formed N-d range: right number of dimensions, every dimension well-formed, plus a side condition `extra`
that survives shrinking a dimension (`True` for the guarded rule, `DimsExact` for the bare comparison) -/
def WFN (lenOK : Nat → Prop) (extra : List R1 → Prop) (d : List R1) : Prop :=
  lenOK d.length ∧ (∀ r ∈ d, WF1 r) ∧ extra d

/-- `extra` survives replacing a dimension by a part of it -/
def ExtraShrinks (extra : List R1 → Prop) : Prop :=
  ∀ d i x y, d[i]? = some x → y.size ≤ x.size → y.g = x.g → extra d → extra (d.set i y)

theorem extraShrinks_true : ExtraShrinks (fun _ => True) := fun _ _ _ _ _ _ _ _ => trivial

theorem extraShrinks_exact : ExtraShrinks DimsExact := by
  intro d i x y hx sy gy hex r hr r' hr'
  have hxm : x ∈ d := List.mem_of_getElem? hx
  have e1 : ∀ z ∈ d.set i y, ∃ z' ∈ d, z.size ≤ z'.size ∧ z.g = z'.g := by
    intro z hz
    rcases List.mem_or_eq_of_mem_set hz with h | h
    · exact ⟨z, h, Nat.le_refl _, rfl⟩
    · subst h; exact ⟨x, hxm, sy, gy⟩
  obtain ⟨z1, hz1, s1, _⟩ := e1 r hr
  obtain ⟨z2, hz2, _, g2⟩ := e1 r' hr'
  calc r.size * r'.g ≤ z1.size * z2.g := by rw [g2]; exact Nat.mul_le_mul_right _ s1
    _ < 2 ^ 53 := hex z1 hz1 z2 hz2

/-- the cut of one dimension at `m` -/
theorem cut_ok (sel : List R1 → Nat) (lenOK : Nat → Prop) (extra : List R1 → Prop) (hsh : ExtraShrinks extra)
    (d : List R1) (x : R1) (m : Nat) (hw : WFN lenOK extra d) (hne : d.any R1.isEmpty = false) (hx : d[sel d]? = some x)
    (h1 : x.b < m) (h2 : m < x.e) :
    WFN lenOK extra (setDim d (sel d) { x with e := m }) ∧ WFN lenOK extra (setDim d (sel d) { x with b := m }) ∧
    (setDim d (sel d) { x with e := m }).any R1.isEmpty = false ∧ (setDim d (sel d) { x with b := m }).any R1.isEmpty = false ∧
    ∀ p, (memN p (setDim d (sel d) { x with e := m })).toNat + (memN p (setDim d (sel d) { x with b := m })).toNat = (memN p d).toNat := by
  obtain ⟨hlen, hwf, hex⟩ := hw
  have hxm : x ∈ d := List.mem_of_getElem? hx
  obtain ⟨w1, w2, w3⟩ := hwf x hxm
  have wfa : WF1 { x with e := m } := ⟨by simp; omega, by simp; omega, w3⟩
  have wfb : WF1 { x with b := m } := ⟨by simp; omega, w2, w3⟩
  have sza : ({ x with e := m } : R1).size ≤ x.size := by
    rw [R1.size_eq wfa, R1.size_eq (hwf x hxm)]; simp; omega
  have szb : ({ x with b := m } : R1).size ≤ x.size := by
    rw [R1.size_eq wfb, R1.size_eq (hwf x hxm)]; simp; omega
  have wfset : ∀ (y : R1), WF1 y → y.size ≤ x.size → y.g = x.g → WFN lenOK extra (setDim d (sel d) y) := by
    intro y wy sy gy
    refine ⟨by simpa [setDim] using hlen, ?_, hsh d (sel d) x y hx sy gy hex⟩
    intro r hr
    rcases List.mem_or_eq_of_mem_set hr with h | h
    · exact hwf r h
    · subst h; exact wy
  refine ⟨wfset _ wfa sza rfl, wfset _ wfb szb rfl, ?_, ?_, ?_⟩
  · exact any_set_false d _ _ hne (by simp [R1.isEmpty]; omega)
  · exact any_set_false d _ _ hne (by simp [R1.isEmpty]; omega)
  · intro p
    exact memN_set _ _ x (fun q => mem1_split x.b m x.e x.g x.g x.g q (by omega) (by omega)) d (sel d) p hx

/-- the Range laws for an N-dimensional blocked range whose dimension selector is sound -/
def semN (sel : List R1 → Nat) (lenOK : Nat → Prop) (extra : List R1 → Prop) (hsh : ExtraShrinks extra)
    (hsel : ∀ d, WFN lenOK extra d → d.any R1.isEmpty = false → SelOK sel d) : RangeSem (opsN sel) where
  Pt := List Nat
  memb := memN
  WF := WFN lenOK extra
  empty_no_mem := by
    intro d p hw he
    have he' : d.any R1.isEmpty = true := he
    clear he hw
    induction d generalizing p with
    | nil => simp at he'
    | cons r rs ih =>
      cases p with
      | nil => simp [memN]
      | cons q qs =>
        simp only [memN]
        simp only [List.any_cons, Bool.or_eq_true] at he'
        rcases he' with h | h
        · have : mem1 q r = false := by
            unfold R1.isEmpty at h; unfold mem1
            simp at h ⊢; omega
          simp [this]
        · simp [ih qs h]
  split_ok := by
    intro d a b hw hne hd hs
    have hne' : d.any R1.isEmpty = false := hne
    have hd' : d.any R1.divisible = true := hd
    obtain ⟨x, hx, hxd⟩ := hsel d hw hne' (by simpa [List.any_eq_true] using hd')
    have hxm : x ∈ d := List.mem_of_getElem? hx
    obtain ⟨m, hm, h1, h2, _⟩ := splitMid_spec (hw.2.1 x hxm) hxd
    have hs' : (opsN sel).split d = (setDim d (sel d) { x with e := m }, setDim d (sel d) { x with b := m }) := by
      show (match d[sel d]? with | none => (d, d) | some x => _) = _
      rw [hx]; simp only [hm]
    rw [hs'] at hs
    obtain ⟨ha, hb⟩ := Prod.mk.inj hs
    subst ha; subst hb
    exact cut_ok sel lenOK extra hsh d x m hw hne' hx h1 h2
  psplit_ok := by
    intro d l rt a b hw hne hd hok hs
    have hne' : d.any R1.isEmpty = false := hne
    have hd' : d.any R1.divisible = true := hd
    obtain ⟨x, hx, hxd⟩ := hsel d hw hne' (by simpa [List.any_eq_true] using hd')
    have hxm : x ∈ d := List.mem_of_getElem? hx
    have hs' : (opsN sel).psplit d l rt =
        (match splitProp x l rt with | none => none | some (a, b) => some (setDim d (sel d) a, setDim d (sel d) b)) := by
      show (match d[sel d]? with | none => none | some x => _) = _
      rw [hx]
      rfl
    rw [hs'] at hs
    split at hs
    · cases hs
    · rename_i a' b' hsp
      obtain ⟨m, hea, heb, h1, h2⟩ := splitProp_spec (hw.2.1 x hxm) hxd hok hsp
      simp only [Option.some.injEq, Prod.mk.injEq] at hs
      obtain ⟨ha, hb⟩ := hs
      subst ha; subst hb; subst hea; subst heb
      exact cut_ok sel lenOK extra hsh d x m hw hne' hx h1 h2

end TbbVerif.C05
