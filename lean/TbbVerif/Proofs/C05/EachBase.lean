/-
C05 — parallel_for_each / parallel_invoke task system: counter tables, reference-token weights, list sums.
-/
import TbbVerif.Model.C05Each

namespace TbbVerif.C05.Each

/-! ### counter tables -/

def ind (v : Nat) : Int := if v = 0 then 0 else 1

def nz (l : List Nat) : Int := (l.map ind).sum

theorem ind_nonneg (v : Nat) : 0 ≤ ind v := by unfold ind; split <;> omega

theorem nz_nonneg (l : List Nat) : 0 ≤ nz l := by
  induction l with
  | nil => simp [nz]
  | cons x xs ih => have := ind_nonneg x; simp only [nz, List.map_cons, List.sum_cons] at ih ⊢; omega

theorem nz_cons (x : Nat) (l : List Nat) : nz (x :: l) = ind x + nz l := by simp [nz]

theorem nz_append (a b : List Nat) : nz (a ++ b) = nz a + nz b := by simp [nz, List.sum_append]

theorem nz_replicate_zero (k : Nat) : nz (List.replicate k 0) = 0 := by
  induction k with
  | zero => simp [nz]
  | succ k ih => rw [List.replicate_succ, nz_cons, ih]; simp [ind]

theorem getD_replicate_zero (k j : Nat) : (List.replicate k 0).getD j 0 = 0 := by
  rw [List.getD_eq_getElem?_getD, List.getElem?_replicate]
  split <;> rfl

theorem nz_set : ∀ (l : List Nat) (i v : Nat), i < l.length → nz (l.set i v) = nz l - ind (l.getD i 0) + ind v
  | [], i, v, h => by simp at h
  | x :: xs, 0, v, _ => by simp only [List.set_cons_zero, nz_cons, List.getD_cons_zero]; omega
  | x :: xs, i + 1, v, h => by
    have := nz_set xs i v (by simpa using h)
    simp only [List.set_cons_succ, nz_cons, List.getD_cons_succ, this]; omega

theorem getD_set (l : List Nat) (i v j : Nat) (h : i < l.length) :
    (l.set i v).getD j 0 = if j = i then v else l.getD j 0 := by
  rw [List.getD_eq_getElem?_getD, List.getElem?_set]
  by_cases hji : j = i
  · subst hji; simp [h]
  · have : ¬ i = j := fun e => hji e.symm
    simp [this, hji, List.getD_eq_getElem?_getD]

theorem getD_ge (l : List Nat) (j : Nat) (h : l.length ≤ j) : l.getD j 0 = 0 := by
  rw [List.getD_eq_getElem?_getD, List.getElem?_eq_none h]; rfl

theorem getD_setPad (l : List Nat) (i v j : Nat) : (setPad l i v).getD j 0 = if j = i then v else l.getD j 0 := by
  unfold setPad
  split
  · rename_i h; exact getD_set l i v j h
  · rename_i h
    have hl : l.length ≤ i := by omega
    by_cases hj : j < l.length
    · have : j ≠ i := by omega
      simp only [this, if_false]
      rw [List.getD_eq_getElem?_getD, List.append_assoc, List.getElem?_append_left hj, ← List.getD_eq_getElem?_getD]
    · have hj' : l.length ≤ j := by omega
      rw [getD_ge l j hj', List.getD_eq_getElem?_getD, List.append_assoc, List.getElem?_append_right hj']
      by_cases hji : j = i
      · subst hji
        simp only [if_true]
        rw [List.getElem?_append_right (by simp)]
        simp
      · simp only [hji, if_false]
        by_cases hlt : j - l.length < i - l.length
        · rw [List.getElem?_append_left (by simpa using hlt), List.getElem?_replicate]
          simp [hlt]
        · rw [List.getElem?_append_right (by simp; omega)]
          have : j - l.length - (List.replicate (i - l.length) 0).length ≠ 0 := by simp; omega
          rw [List.getElem?_eq_none (by simp; omega)]
          rfl

theorem nz_setPad (l : List Nat) (i v : Nat) : nz (setPad l i v) = nz l - ind (l.getD i 0) + ind v := by
  unfold setPad
  split
  · rename_i h; exact nz_set l i v h
  · rename_i h
    rw [getD_ge l i (by omega), nz_append, nz_append, nz_replicate_zero]
    simp [nz, ind]

theorem getD_append_one (l : List Nat) (v j : Nat) : (l ++ [v]).getD j 0 = if j = l.length then v else l.getD j 0 := by
  by_cases hj : j < l.length
  · have : j ≠ l.length := by omega
    simp only [this, if_false]
    rw [List.getD_eq_getElem?_getD, List.getElem?_append_left hj, ← List.getD_eq_getElem?_getD]
  · by_cases hje : j = l.length
    · subst hje; simp [List.getD_eq_getElem?_getD]
    · simp only [hje, if_false]
      rw [getD_ge l j (by omega), getD_ge _ j (by simp; omega)]

/-! ### sums over lists -/

theorem sum_map_set {α : Type} (f : α → Int) : ∀ (l : List α) (i : Nat) (a x : α), l[i]? = some a →
    ((l.set i x).map f).sum = (l.map f).sum - f a + f x
  | [], i, a, x, h => by simp at h
  | y :: ys, 0, a, x, h => by
    simp only [List.getElem?_cons_zero, Option.some.injEq] at h
    subst h
    simp only [List.set_cons_zero, List.map_cons, List.sum_cons]; omega
  | y :: ys, i + 1, a, x, h => by
    simp only [List.getElem?_cons_succ] at h
    have := sum_map_set f ys i a x h
    simp only [List.set_cons_succ, List.map_cons, List.sum_cons, this]; omega

theorem sum_map_eraseIdx {α : Type} (f : α → Int) : ∀ (l : List α) (j : Nat) (t : α), l[j]? = some t →
    ((l.eraseIdx j).map f).sum = (l.map f).sum - f t
  | [], j, t, h => by simp at h
  | y :: ys, 0, t, h => by
    simp only [List.getElem?_cons_zero, Option.some.injEq] at h
    subst h
    simp only [List.eraseIdx_cons_zero, List.map_cons, List.sum_cons]; omega
  | y :: ys, j + 1, t, h => by
    simp only [List.getElem?_cons_succ] at h
    have := sum_map_eraseIdx f ys j t h
    simp only [List.eraseIdx_cons_succ, List.map_cons, List.sum_cons, this]; omega

theorem sum_map_append_one {α : Type} (f : α → Int) (l : List α) (x : α) : ((l ++ [x]).map f).sum = (l.map f).sum + f x := by
  simp [List.sum_append]

theorem sum_map_nonneg {α : Type} (f : α → Int) (l : List α) (h : ∀ x ∈ l, 0 ≤ f x) : 0 ≤ (l.map f).sum := by
  induction l with
  | nil => simp
  | cons x xs ih =>
    have h1 := h x (List.mem_cons_self)
    have h2 := ih (fun y hy => h y (List.mem_cons_of_mem _ hy))
    simp only [List.map_cons, List.sum_cons]; omega

theorem le_sum_map_of_mem {α : Type} (f : α → Int) (l : List α) (h : ∀ x ∈ l, 0 ≤ f x) (a : α) (ha : a ∈ l) :
    f a ≤ (l.map f).sum := by
  induction l with
  | nil => cases ha
  | cons x xs ih =>
    have h1 := h x (List.mem_cons_self)
    have h2 := sum_map_nonneg f xs (fun y hy => h y (List.mem_cons_of_mem _ hy))
    simp only [List.map_cons, List.sum_cons]
    rcases List.mem_cons.1 ha with e | e
    · subst e; omega
    · have := ih (fun y hy => h y (List.mem_cons_of_mem _ hy)) e; omega

/-! ### reference tokens -/

/-- the reference a pending task will release -/
def holds (c : Ctr) : Task → Int
  | .root => if c = .root then 1 else 0
  | .iter b _ _ => if c = .blk b then 1 else 0
  | .feed _ v => if c = .kid v then 1 else 0
  | .chunk b _ _ => if c = .blk b then 1 else 0
  | .subroot _ _ _ => if c = .root then 1 else 0
  | .inv _ c' => if c = c' then 1 else 0

/-- net number of references on `c` an operation gives back (a pending `reserve` counts negative; a macro operation
counts what its expansion nets; a forwarding counter's parent reference is accounted for by the counter itself) -/
def w (cat : Cat) (c : Ctr) : Op → Int
  | .reserve c' n => if c = c' then -(n : Int) else 0
  | .release c' => if c = c' then 1 else 0
  | .spawn t => holds c t
  | .await _ => 0
  | .act _ => 0
  | .body _ _ => 0
  | .rootExec => if c = .root then 1 else 0
  | .rootLoop _ _ _ => if c = .root then (if cat = .forward then 1 else 2) else 0
  | .subExec _ _ _ => if c = .root then 1 else 0

def W (cat : Cat) (c : Ctr) (ops : List Op) : Int := (ops.map (w cat c)).sum

@[simp] theorem W_nil (cat : Cat) (c : Ctr) : W cat c [] = 0 := rfl
@[simp] theorem W_cons (cat : Cat) (c : Ctr) (o : Op) (ops : List Op) : W cat c (o :: ops) = w cat c o + W cat c ops := by
  simp [W]
@[simp] theorem W_append (cat : Cat) (c : Ctr) (a b : List Op) : W cat c (a ++ b) = W cat c a + W cat c b := by
  simp [W, List.sum_append]

theorem holds_nonneg (c : Ctr) (t : Task) : 0 ≤ holds c t := by
  cases t <;> simp only [holds] <;> split <;> omega

def tokP (c : Ctr) (pool : List Task) : Int := (pool.map (holds c)).sum
def tokA (cat : Cat) (c : Ctr) (acts : List Actv) : Int := (acts.map (fun a => W cat c a.ops)).sum

/-- every suffix of the operation list gives back at least as many references as it still reserves -/
def SN (cat : Cat) (c : Ctr) : List Op → Prop
  | [] => True
  | o :: r => 0 ≤ W cat c (o :: r) ∧ SN cat c r

theorem SN.nonneg {cat : Cat} {c : Ctr} : ∀ {ops : List Op}, SN cat c ops → 0 ≤ W cat c ops
  | [], _ => by simp
  | _ :: _, h => h.1

theorem SN.tail {cat : Cat} {c : Ctr} {o : Op} {r : List Op} (h : SN cat c (o :: r)) : SN cat c r := h.2

theorem SN.append {cat : Cat} {c : Ctr} : ∀ {a b : List Op}, SN cat c a → SN cat c b → SN cat c (a ++ b)
  | [], _, _, hb => hb
  | o :: r, b, ha, hb => by
    refine ⟨?_, SN.append ha.2 hb⟩
    have h1 := ha.1
    have h2 := hb.nonneg
    show 0 ≤ W cat c (o :: (r ++ b))
    rw [W_cons, W_append]
    rw [W_cons] at h1; omega

/-- a list of weightless operations -/
theorem SN_of_weightless {cat : Cat} {c : Ctr} : ∀ (ops : List Op), (∀ o ∈ ops, w cat c o = 0) → SN cat c ops ∧ W cat c ops = 0
  | [], _ => ⟨trivial, rfl⟩
  | o :: r, h => by
    obtain ⟨h1, h2⟩ := SN_of_weightless r (fun x hx => h x (List.mem_cons_of_mem _ hx))
    have h0 := h o (List.mem_cons_self)
    refine ⟨⟨?_, h1⟩, ?_⟩ <;> simp only [W_cons, h0, h2] <;> omega

end TbbVerif.C05.Each
