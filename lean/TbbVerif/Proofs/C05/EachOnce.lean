/-
C05 — parallel_for_each / parallel_invoke task system: exactly once.

`Inv3`: for every item id `x`:  (body calls / function calls on `x` so far) + (calls on `x` still to come from pending
tasks, from the remaining operations of the activations and from the not yet consumed part of the input sequence)
= (occurrences of `x` in the input) + (occurrences of `x` among everything the calls so far have fed);
and there is at most one instance of the root task (pending, running, or about to be re-spawned).
-/
import TbbVerif.Proofs.C05.EachShape

namespace TbbVerif.C05.Each

def c1 (y x : Nat) : Nat := if y = x then 1 else 0

def dropCount (cfg : Cfg) (it x : Nat) : Nat := (cfg.inp.drop it).count x

/-- what is counted: calls of the parallel_for_each body, or calls of parallel_invoke's functions -/
inductive Mode where
  | body | call
  deriving DecidableEq

variable {md : Mode}

/-- calls on `x` a pending task will make -/
def futT (md : Mode) (cfg : Cfg) (it x : Nat) : Task → Nat
  | .root => if md = .body then dropCount cfg it x else 0
  | .iter _ y _ => if md = .body then c1 y x else 0
  | .feed y _ => if md = .body then c1 y x else 0
  | .chunk _ _ xs => if md = .body then xs.count x else 0
  | .subroot f1 f2 f3 => if md = .call then c1 f1 x + c1 f2 x + c1 f3 x else 0
  | .inv g _ => if md = .call then c1 g x else 0

def futO (md : Mode) (cfg : Cfg) (it x : Nat) : Op → Nat
  | .body y _ => if md = .body then c1 y x else 0
  | .spawn t => futT md cfg it x t
  | .rootExec => if md = .body then dropCount cfg it x else 0
  | .rootLoop _ _ items => if md = .body then items.count x + dropCount cfg it x else 0
  | .subExec f1 f2 f3 => if md = .call then c1 f1 x + c1 f2 x + c1 f3 x else 0
  | .act (.callS g) => if md = .call then c1 g x else 0
  | _ => 0

def FO (md : Mode) (cfg : Cfg) (it x : Nat) (ops : List Op) : Nat := (ops.map (futO md cfg it x)).sum
def FP (md : Mode) (cfg : Cfg) (it x : Nat) (pool : List Task) : Nat := (pool.map (futT md cfg it x)).sum
def FA (md : Mode) (cfg : Cfg) (it x : Nat) (acts : List Actv) : Nat := (acts.map (fun (a : Actv) => FO md cfg it x a.ops)).sum

/-- instances of the root task -/
def riT : Task → Nat
  | .root => 1
  | _ => 0

def riO : Op → Nat
  | .rootExec => 1
  | .rootLoop _ _ _ => 1
  | .spawn t => riT t
  | _ => 0

def RIO (ops : List Op) : Nat := (ops.map riO).sum
def RIP (pool : List Task) : Nat := (pool.map riT).sum
def RIA (acts : List Actv) : Nat := (acts.map (fun (a : Actv) => RIO a.ops)).sum

/-- items (functions) on which a call has started, most recent first -/
def starts (md : Mode) (log : List Act) : List Nat :=
  match md with
  | .body => bodies log
  | .call => calls log

@[simp] theorem FO_nil (cfg : Cfg) (it x : Nat) : FO md cfg it x [] = 0 := rfl
@[simp] theorem FO_cons (cfg : Cfg) (it x : Nat) (o : Op) (r : List Op) : FO md cfg it x (o :: r) = futO md cfg it x o + FO md cfg it x r := by simp [FO]
@[simp] theorem FO_append (cfg : Cfg) (it x : Nat) (a b : List Op) : FO md cfg it x (a ++ b) = FO md cfg it x a + FO md cfg it x b := by
  simp [FO, List.sum_append]
@[simp] theorem RIO_nil : RIO [] = 0 := rfl
@[simp] theorem RIO_cons (o : Op) (r : List Op) : RIO (o :: r) = riO o + RIO r := by simp [RIO]
@[simp] theorem RIO_append (a b : List Op) : RIO (a ++ b) = RIO a + RIO b := by simp [RIO, List.sum_append]

theorem nsum_set {α : Type} (f : α → Nat) : ∀ (l : List α) (i : Nat) (a x : α), l[i]? = some a →
    ((l.set i x).map f).sum + f a = (l.map f).sum + f x
  | [], i, a, x, h => by simp at h
  | y :: ys, 0, a, x, h => by
    simp only [List.getElem?_cons_zero, Option.some.injEq] at h
    subst h
    simp only [List.set_cons_zero, List.map_cons, List.sum_cons]; omega
  | y :: ys, i + 1, a, x, h => by
    simp only [List.getElem?_cons_succ] at h
    have := nsum_set f ys i a x h
    simp only [List.set_cons_succ, List.map_cons, List.sum_cons]; omega

theorem nsum_erase {α : Type} (f : α → Nat) : ∀ (l : List α) (j : Nat) (t : α), l[j]? = some t →
    ((l.eraseIdx j).map f).sum + f t = (l.map f).sum
  | [], j, t, h => by simp at h
  | y :: ys, 0, t, h => by
    simp only [List.getElem?_cons_zero, Option.some.injEq] at h
    subst h
    simp only [List.eraseIdx_cons_zero, List.map_cons, List.sum_cons]; omega
  | y :: ys, j + 1, t, h => by
    simp only [List.getElem?_cons_succ] at h
    have := nsum_erase f ys j t h
    simp only [List.eraseIdx_cons_succ, List.map_cons, List.sum_cons]; omega

theorem nsum_le_of_mem {α : Type} (f : α → Nat) (l : List α) (a : α) (ha : a ∈ l) : f a ≤ (l.map f).sum := by
  induction l with
  | nil => cases ha
  | cons x xs ih =>
    simp only [List.map_cons, List.sum_cons]
    rcases List.mem_cons.1 ha with e | e
    · subst e; omega
    · have := ih e; omega

/-! ### independence of the iterator position when no root instance is involved -/

theorem futT_indep (cfg : Cfg) (it it' x : Nat) (t : Task) (h : riT t = 0) : futT md cfg it x t = futT md cfg it' x t := by
  cases t <;> simp [futT, riT] at h ⊢

theorem futO_indep (cfg : Cfg) (it it' x : Nat) (o : Op) (h : riO o = 0) : futO md cfg it x o = futO md cfg it' x o := by
  cases o with
  | spawn t => exact futT_indep cfg it it' x t h
  | rootExec => simp [riO] at h
  | rootLoop _ _ _ => simp [riO] at h
  | act a => cases a <;> rfl
  | _ => rfl

theorem FO_indep (cfg : Cfg) (it it' x : Nat) : ∀ (ops : List Op), RIO ops = 0 → FO md cfg it x ops = FO md cfg it' x ops
  | [], _ => rfl
  | o :: r, h => by
    rw [RIO_cons] at h
    rw [FO_cons, FO_cons, futO_indep cfg it it' x o (by omega), FO_indep cfg it it' x r (by omega)]

theorem FP_indep (cfg : Cfg) (it it' x : Nat) : ∀ (pool : List Task), RIP pool = 0 → FP md cfg it x pool = FP md cfg it' x pool
  | [], _ => rfl
  | t :: r, h => by
    simp only [RIP, List.map_cons, List.sum_cons] at h
    have := FP_indep cfg it it' x r (by simp only [RIP]; omega)
    simp only [FP, List.map_cons, List.sum_cons] at this ⊢
    rw [futT_indep cfg it it' x t (by omega), this]

theorem FA_indep (cfg : Cfg) (it it' x : Nat) : ∀ (acts : List Actv), RIA acts = 0 → FA md cfg it x acts = FA md cfg it' x acts
  | [], _ => rfl
  | a :: r, h => by
    simp only [RIA, List.map_cons, List.sum_cons] at h
    have := FA_indep cfg it it' x r (by simp only [RIA]; omega)
    simp only [FA, List.map_cons, List.sum_cons] at this ⊢
    rw [FO_indep cfg it it' x a.ops (by omega), this]

/-! ### the log -/

theorem starts_append (a b : List Act) : starts md (a ++ b) = starts md a ++ starts md b := by
  cases md <;> simp [starts, bodies, calls, List.filterMap_append]
theorem bodies_append (a b : List Act) : bodies (a ++ b) = bodies a ++ bodies b := by simp [bodies, List.filterMap_append]

/-- what the body calls so far have fed -/
def fedBy (cfg : Cfg) (log : List Act) : List Nat := (bodies log).flatMap cfg.feeds

def fedM (md : Mode) (cfg : Cfg) (log : List Act) : List Nat := if md = .body then fedBy cfg log else []

theorem fedBy_append (cfg : Cfg) (a b : List Act) : fedM md cfg (a ++ b) = fedM md cfg a ++ fedM md cfg b := by
  cases md <;> simp [fedM, fedBy, bodies_append, List.flatMap_append]

/-! ### static facts -/

/-- `n` if body calls are counted, else 0 -/
def bo (md : Mode) (n : Nat) : Nat := if md = .body then n else 0

theorem count_cons_c1 (y x : Nat) (ys : List Nat) : (y :: ys).count x = c1 y x + ys.count x := by
  simp only [List.count_cons, c1]
  by_cases e : y = x <;> simp [e] <;> omega

theorem feedOps_fut (cfg : Cfg) (it x tid : Nat) : ∀ ys : List Nat, FO md cfg it x (feedOps tid ys) = bo md (ys.count x) ∧ RIO (feedOps tid ys) = 0
  | [] => ⟨by cases md <;> rfl, rfl⟩
  | y :: ys => by
    obtain ⟨h1, h2⟩ := feedOps_fut cfg it x tid ys
    have e : feedOps tid (y :: ys) = .reserve (.kid tid) 1 :: .spawn (.feed y tid) :: feedOps tid ys := by
      simp [feedOps, List.flatMap_cons]
    rw [e]
    simp only [FO_cons, RIO_cons, futO, futT, riO, riT, h1, h2, count_cons_c1, bo]
    refine ⟨?_, trivial⟩
    by_cases hm : md = .body <;> simp [hm] <;> omega

theorem blockSpawns_fut (cfg : Cfg) (it x : Nat) (cat : Cat) (b k0 : Nat) : ∀ (j : Nat) (xs : List Nat),
    FO md cfg it x (blockSpawns cat b k0 j xs) = bo md (xs.count x) ∧ RIO (blockSpawns cat b k0 j xs) = 0
  | _, [] => ⟨by cases md <;> rfl, rfl⟩
  | j, y :: ys => by
    obtain ⟨h1, h2⟩ := blockSpawns_fut cfg it x cat b k0 (j + 1) ys
    simp only [blockSpawns, FO_cons, RIO_cons, futO, futT, riO, riT, h1, h2, count_cons_c1, bo]
    refine ⟨?_, trivial⟩
    by_cases hm : md = .body <;> simp [hm] <;> omega

theorem destroys_fut (cfg : Cfg) (it x b : Nat) : ∀ (j : Nat) (xs : List Nat), FO md cfg it x (destroys b j xs) = 0 ∧ RIO (destroys b j xs) = 0
  | _, [] => ⟨rfl, rfl⟩
  | j, y :: ys => by
    obtain ⟨h1, h2⟩ := destroys_fut cfg it x b (j + 1) ys
    simp [destroys, futO, riO, h1, h2]

theorem blockCode_fut (cfg : Cfg) (it x : Nat) (cat : Cat) (b k0 : Nat) (items : List Nat) :
    FO md cfg it x (blockCode cat b k0 items) = bo md (items.count x) ∧ RIO (blockCode cat b k0 items) = 0 := by
  cases items with
  | nil => cases md <;> simp [blockCode, futO, riO, bo]
  | cons y ys =>
    obtain ⟨h1, h2⟩ := blockSpawns_fut (md := md) cfg it x cat b k0 1 ys
    have h3 : FO md cfg it x (if cat = .input then destroys b 0 (y :: ys) else []) = 0 ∧ RIO (if cat = .input then destroys b 0 (y :: ys) else []) = 0 := by
      split
      · exact destroys_fut cfg it x b 0 (y :: ys)
      · exact ⟨rfl, rfl⟩
    simp only [blockCode, FO_append, RIO_append, FO_cons, RIO_cons, FO_nil, RIO_nil, futO, riO, h1, h2, h3.1, h3.2, count_cons_c1, bo]
    refine ⟨?_, trivial⟩
    by_cases hm : md = .body <;> simp [hm] <;> omega

theorem pforOps_fut (cfg : Cfg) (it x b : Nat) : ∀ (cs : List (Nat × Nat)),
    FO md cfg it x (pforOps cfg b cs) = bo md ((cs.flatMap (fun c => cfg.inp.extract c.1 c.2)).count x) ∧ RIO (pforOps cfg b cs) = 0
  | [] => ⟨by cases md <;> rfl, rfl⟩
  | (lo, hi) :: cs => by
    obtain ⟨h1, h2⟩ := pforOps_fut cfg it x b cs
    cases md <;> simp [pforOps, futO, futT, riO, riT, h1, h2, bo]

theorem bodies_fut (cfg : Cfg) (it x lo : Nat) : ∀ (xs : List (Nat × Nat)),
    FO md cfg it x (xs.map (fun p => Op.body p.1 (.pos (lo + p.2)))) = bo md ((xs.map Prod.fst).count x) ∧
    RIO (xs.map (fun p => Op.body p.1 (.pos (lo + p.2)))) = 0
  | [] => ⟨by cases md <;> rfl, rfl⟩
  | p :: ps => by
    obtain ⟨h1, h2⟩ := bodies_fut cfg it x lo ps
    simp only [List.map_cons, FO_cons, RIO_cons, futO, riO, h1, h2, count_cons_c1, bo]
    refine ⟨?_, trivial⟩
    by_cases hm : md = .body <;> simp [hm] <;> omega

theorem zipIdx_map_fst : ∀ (xs : List Nat) (k : Nat), (xs.zipIdx k).map Prod.fst = xs
  | [], _ => rfl
  | x :: xs, k => by simp [List.zipIdx_cons, zipIdx_map_fst xs (k + 1)]

theorem code_fut (cfg : Cfg) (it x : Nat) (t : Task) : FO md cfg it x (code t) = futT md cfg it x t ∧ RIO (code t) = riT t := by
  cases t with
  | chunk b lo xs =>
    obtain ⟨h1, h2⟩ := bodies_fut (md := md) cfg it x lo xs.zipIdx
    rw [zipIdx_map_fst xs 0] at h1
    cases md <;> simp [code, h1, h2, futO, riO, futT, riT, bo]
  | _ => cases md <;> simp [code, futO, futT, riO, riT]

theorem dropCount_succ (cfg : Cfg) (it x y : Nat) (h : cfg.inp[it]? = some y) :
    dropCount cfg it x = c1 y x + dropCount cfg (it + 1) x := by
  unfold dropCount
  have hlt : it < cfg.inp.length := by
    rcases Nat.lt_or_ge it cfg.inp.length with h' | h'
    · exact h'
    · rw [List.getElem?_eq_none h'] at h; cases h
  rw [List.drop_eq_getElem_cons hlt]
  have : cfg.inp[it] = y := by
    rw [List.getElem?_eq_getElem hlt] at h; exact Option.some.inj h
  rw [this, List.count_cons, c1]
  by_cases e : y = x <;> simp [e] <;> omega

theorem dropCount_ge (cfg : Cfg) (it x : Nat) (h : cfg.inp.length ≤ it) : dropCount cfg it x = 0 := by
  unfold dropCount
  rw [List.drop_eq_nil_of_le h]; rfl

/-! ### `act (bodyS …)` is never an operation (body calls are `Op.body`) -/

theorem feedOps_noact (tid : Nat) (ys : List Nat) (a : Act) : Op.act a ∉ feedOps tid ys := by
  intro h
  rcases feedOps_mem tid ys _ h with h | ⟨y, h⟩ <;> cases h

theorem blockSpawns_noact (cat : Cat) (b k0 : Nat) (a : Act) : ∀ (j : Nat) (xs : List Nat), Op.act a ∉ blockSpawns cat b k0 j xs
  | _, [] => by simp [blockSpawns]
  | j, x :: xs => by
    have := blockSpawns_noact cat b k0 a (j + 1) xs
    simp [blockSpawns, this]

theorem pforOps_noact (cfg : Cfg) (b : Nat) (a : Act) : ∀ (cs : List (Nat × Nat)), Op.act a ∉ pforOps cfg b cs
  | [] => by simp [pforOps]
  | (lo, hi) :: cs => by
    have := pforOps_noact cfg b a cs
    simp [pforOps, this]

theorem destroys_nobs (b y : Nat) (src : Src) : ∀ (j : Nat) (xs : List Nat), Op.act (.bodyS y src) ∉ destroys b j xs
  | _, [] => by simp [destroys]
  | j, x :: xs => by
    have := destroys_nobs b y src (j + 1) xs
    simp [destroys, this]

theorem blockCode_nobs (cat : Cat) (b k0 y : Nat) (src : Src) (items : List Nat) : Op.act (.bodyS y src) ∉ blockCode cat b k0 items := by
  cases items with
  | nil => simp [blockCode]
  | cons x xs =>
    have h1 := blockSpawns_noact cat b k0 (.bodyS y src) 1 xs
    have h2 := destroys_nobs b y src 0 (x :: xs)
    simp only [blockCode, List.mem_append, List.mem_cons, reduceCtorEq, false_or, List.not_mem_nil, or_false, not_or]
    refine ⟨h1, ?_⟩
    split
    · exact h2
    · simp

theorem code_nobs (y : Nat) (src : Src) (t : Task) : Op.act (.bodyS y src) ∉ code t := by
  cases t <;> simp [code]

/-! ### the invariant -/

structure Inv3 (md : Mode) (cfg : Cfg) (base : List Nat) (s : St) : Prop where
  ri : RIP s.pool + RIA s.acts ≤ 1
  bal : ∀ x, (starts md s.log).count x + FP md cfg s.iter x s.pool + FA md cfg s.iter x s.acts = base.count x + (fedM md cfg s.log).count x
  rnd : cfg.cat = .random → s.iter = 0 ∧ ∀ a ∈ s.acts, ∀ b k its, Op.rootLoop b k its ∉ a.ops
  nb : ∀ a ∈ s.acts, ∀ y src, Op.act (.bodyS y src) ∉ a.ops
  fin : md = .body → cfg.cat ≠ .random → RIP s.pool + RIA s.acts = 0 → cfg.inp.length ≤ s.iter

theorem FA_set (cfg : Cfg) (it x : Nat) (acts : List Actv) (i : Nat) (a : Actv) (ops : List Op) (hi : acts[i]? = some a) :
    FA md cfg it x (acts.set i { a with ops := ops }) + FO md cfg it x a.ops = FA md cfg it x acts + FO md cfg it x ops :=
  nsum_set (fun (a : Actv) => FO md cfg it x a.ops) acts i a { a with ops := ops } hi

theorem RIA_set (acts : List Actv) (i : Nat) (a : Actv) (ops : List Op) (hi : acts[i]? = some a) :
    RIA (acts.set i { a with ops := ops }) + RIO a.ops = RIA acts + RIO ops :=
  nsum_set (fun (a : Actv) => RIO a.ops) acts i a { a with ops := ops } hi

/-- a step of activation `i` that leaves the iterator where it is -/
theorem inv3_step {cfg : Cfg} {base : List Nat} {s s' : St} (h : Inv3 md cfg base s) (i : Nat) (a : Actv) (op : Op) (rest e : List Op)
    (newp : List Task) (newlog : List Act)
    (hi : s.acts[i]? = some a) (ho : a.ops = op :: rest)
    (hacts : s'.acts = s.acts.set i { a with ops := e ++ rest }) (hpool : s'.pool = s.pool ++ newp) (hlog : s'.log = newlog ++ s.log)
    (hiter : s'.iter = s.iter)
    (hri : RIO e + RIP newp ≤ riO op)
    (hbal : ∀ x, (starts md newlog).count x + FO md cfg s.iter x e + FP md cfg s.iter x newp = futO md cfg s.iter x op + (fedM md cfg newlog).count x)
    (hnl : cfg.cat = .random → ∀ b k its, Op.rootLoop b k its ∉ e)
    (hnb : ∀ y src, Op.act (.bodyS y src) ∉ e)
    (hfin : md = .body → cfg.cat ≠ .random → riO op = 1 → RIO e + RIP newp = 0 → cfg.inp.length ≤ s.iter) : Inv3 md cfg base s' := by
  refine ⟨?_, fun x => ?_, fun hc => ?_, fun a' ha' y src hm => ?_, fun hmd hnr h0 => ?_⟩
  · have h1 := RIA_set s.acts i a (e ++ rest) hi
    have h2 := h.ri
    rw [hacts, hpool]
    rw [ho, RIO_cons] at h1
    rw [RIO_append] at h1
    simp only [RIP, List.map_append, List.sum_append] at hri h2 ⊢
    omega
  · have h1 := FA_set (md := md) cfg s.iter x s.acts i a (e ++ rest) hi
    have h2 := h.bal x
    have h3 := hbal x
    rw [hacts, hpool, hlog, hiter, starts_append, fedBy_append, List.count_append, List.count_append]
    rw [ho, FO_cons, FO_append] at h1
    simp only [FP, List.map_append, List.sum_append] at h2 h3 ⊢
    omega
  · obtain ⟨r1, r2⟩ := h.rnd hc
    refine ⟨by rw [hiter]; exact r1, fun a' ha' b k its hm => ?_⟩
    rw [hacts] at ha'
    rcases List.mem_or_eq_of_mem_set ha' with h' | h'
    · exact r2 a' h' b k its hm
    · subst h'
      rcases List.mem_append.1 hm with h'' | h''
      · exact hnl hc b k its h''
      · exact r2 a (List.mem_of_getElem? hi) b k its (by rw [ho]; exact List.mem_cons_of_mem _ h'')
  · rw [hacts] at ha'
    rcases List.mem_or_eq_of_mem_set ha' with h' | h'
    · exact h.nb a' h' y src hm
    · subst h'
      rcases List.mem_append.1 hm with h'' | h''
      · exact hnb y src h''
      · exact h.nb a (List.mem_of_getElem? hi) y src (by rw [ho]; exact List.mem_cons_of_mem _ h'')
  · have h1 := RIA_set s.acts i a (e ++ rest) hi
    have hle : RIO a.ops ≤ RIA s.acts := nsum_le_of_mem (fun (a : Actv) => RIO a.ops) s.acts a (List.mem_of_getElem? hi)
    rw [hacts, hpool] at h0
    rw [ho, RIO_cons] at h1 hle
    rw [RIO_append] at h1
    simp only [RIP, List.map_append, List.sum_append] at hri h0
    have hop : riO op ≤ 1 := by
      cases op <;> simp [riO]
      rename_i t; cases t <;> simp [riT]
    rw [hiter]
    by_cases h1' : riO op = 1
    · exact hfin hmd hnr h1' (by simp only [RIP]; omega)
    · exact h.fin hmd hnr (by simp only [RIP]; omega)

theorem count_singleton (y x : Nat) : [y].count x = c1 y x := by
  simp only [List.count_cons, List.count_nil, c1]
  by_cases e : y = x <;> simp [e]

/-- the chunks of the nested parallel_for cover the input sequence exactly once -/
def ChunksTile (cfg : Cfg) : Prop := (cfg.chunks.flatMap (fun c => cfg.inp.extract c.1 c.2)).Perm cfg.inp

theorem inv3_exec (md : Mode) (cfg : Cfg) (base : List Nat) (hch : cfg.cat = .random → ChunksTile cfg) {s : St} (h : Inv3 md cfg base s) (ch : Choice) :
    Inv3 md cfg base (exec cfg s ch) := by
  cases ch with
  | start j tid =>
    simp only [exec]
    split
    · rename_i t ht
      refine ⟨?_, fun x => ?_, fun hc => ?_, fun a ha y src hm => ?_, fun hmd hnr h0 => ?_⟩
      · have h1 := nsum_erase riT s.pool j t ht
        have h2 := h.ri
        simp only [RIP, RIA, List.map_append, List.sum_append, List.map_cons, List.map_nil, List.sum_cons, List.sum_nil, (code_fut (md := .body) cfg 0 0 t).2] at h1 h2 ⊢
        omega
      · have h1 := nsum_erase (futT md cfg s.iter x) s.pool j t ht
        have h2 := h.bal x
        simp only [FP, FA, List.map_append, List.sum_append, List.map_cons, List.map_nil, List.sum_cons, List.sum_nil, (code_fut (md := md) cfg s.iter x t).1] at h1 h2 ⊢
        omega
      · obtain ⟨r1, r2⟩ := h.rnd hc
        refine ⟨r1, fun a ha b k its hm => ?_⟩
        rcases List.mem_append.1 ha with h' | h'
        · exact r2 a h' b k its hm
        · simp only [List.mem_singleton] at h'; subst h'
          cases t <;> simp [code] at hm
      · rcases List.mem_append.1 ha with h' | h'
        · exact h.nb a h' y src hm
        · simp only [List.mem_singleton] at h'; subst h'
          exact code_nobs y src t hm
      · refine h.fin hmd hnr ?_
        have h1 := nsum_erase riT s.pool j t ht
        simp only [RIP, RIA, List.map_append, List.sum_append, List.map_cons, List.map_nil, List.sum_cons, List.sum_nil, (code_fut (md := .body) cfg 0 0 t).2] at h1 h0 ⊢
        omega
    · exact h
  | step i =>
    simp only [exec]
    split
    · rename_i a hi
      split
      · rename_i op rest ho
        have hplain : ∀ (s' : St) (newp : List Task) (newlog : List Act), s'.acts = s.acts.set i { a with ops := rest } → s'.pool = s.pool ++ newp →
            s'.log = newlog ++ s.log → s'.iter = s.iter → RIP newp ≤ riO op →
            (∀ x, (starts md newlog).count x + FP md cfg s.iter x newp = futO md cfg s.iter x op + (fedM md cfg newlog).count x) →
            (riO op = 1 → RIP newp = 0 → False) → Inv3 md cfg base s' := by
          intro s' newp newlog e1 e2 e3 e4 e5 e6 e7
          exact inv3_step h i a op rest [] newp newlog hi ho (by simpa using e1) e2 e3 e4 (by simpa using e5) (fun x => by simpa using e6 x)
            (fun _ _ _ _ hm => by cases hm) (fun _ _ hm => by cases hm) (fun _ _ g1 g2 => absurd (by simpa using g2) (e7 g1))
        cases op with
        | reserve c' n =>
          obtain ⟨f1, f2, _, f4, f5⟩ := reserve_frame s c' n
          exact hplain _ [] [] (by simp [stepOp, setOps, f2]) (by simp [stepOp, setOps, f1]) (by simp [stepOp, setOps, f4])
            (by simp [stepOp, setOps, f5]) (by simp [RIP]) (fun x => by cases md <;> simp [starts, futO, futT, FP, fedM, fedBy, bodies, calls]) (fun g _ => by simp [riO] at g)
        | release c' =>
          obtain ⟨f1, f2, f3, f4⟩ := release_frame s c'
          exact hplain _ [] [] (by simp [stepOp, setOps, f2]) (by simp [stepOp, setOps, f1]) (by simp [stepOp, setOps, f3])
            (by simp [stepOp, setOps, f4]) (by simp [RIP]) (fun x => by cases md <;> simp [starts, futO, futT, FP, fedM, fedBy, bodies, calls]) (fun g _ => by simp [riO] at g)
        | spawn t =>
          exact hplain _ [t] [.spawn t] (by simp [stepOp, setOps]) rfl rfl rfl (by simp [riO, RIP])
            (fun x => by cases md <;> simp [starts, futO, futT, FP, fedM, fedBy, bodies, calls]) (fun g1 g2 => by simp [riO, RIP] at g1 g2; omega)
        | await c' =>
          simp only [stepOp]
          split
          · exact hplain _ [] [.pass c'] (by simp [setOps]) (by simp [setOps]) rfl rfl (by simp [RIP])
              (fun x => by cases md <;> simp [starts, futO, futT, FP, fedM, fedBy, bodies, calls]) (fun g _ => by simp [riO] at g)
          · exact h
        | act y =>
          refine hplain _ [] [y] (by simp [stepOp, setOps]) (by simp [stepOp, setOps]) rfl rfl (by simp [RIP]) (fun x => ?_) (fun g _ => by simp [riO] at g)
          cases y with
          | bodyS y' src => exact absurd (by rw [ho]; exact List.mem_cons_self) (h.nb a (List.mem_of_getElem? hi) y' src)
          | _ => cases md <;> simp [starts, futO, FP, fedM, fedBy, bodies, calls, count_singleton]
        | body y src =>
          refine inv3_step h i a _ rest (feedOps a.tid (cfg.feeds y) ++ [.act (.bodyE y src)]) [] [.bodyS y src] hi ho
            (by simp [stepOp, setOps]) (by simp [stepOp, setOps]) rfl rfl ?_ (fun x => ?_) (fun _ b k its hm => ?_) (fun y' src' hm => ?_)
            (fun _ _ g _ => by simp [riO] at g)
          · simp [RIO_append, (feedOps_fut (md := .body) cfg 0 0 a.tid _).2, riO, RIP]
          · have e1 := (feedOps_fut (md := md) cfg s.iter x a.tid (cfg.feeds y)).1
            cases md <;> simp [starts, FO_append, e1, futO, FP, fedM, fedBy, bodies, calls, count_singleton, bo]
          · rcases List.mem_append.1 hm with h' | h'
            · rcases feedOps_mem _ _ _ h' with h'' | ⟨_, h''⟩ <;> cases h''
            · simp at h'
          · rcases List.mem_append.1 hm with h' | h'
            · exact feedOps_noact _ _ _ h'
            · simp at h'
        | rootExec =>
          simp only [stepOp]
          split
          · rename_i hcat
            obtain ⟨r1, _⟩ := h.rnd hcat
            refine inv3_step h i a _ rest (pforOps cfg s.blk.length cfg.chunks ++ [.await (.blk s.blk.length), .release .root]) [] [.pfor s.blk.length] hi ho
              (by simp [setOps]) (by simp [setOps]) rfl rfl ?_ (fun x => ?_) (fun _ b k its hm => ?_) (fun y' src' hm => ?_)
              (fun _ g _ _ => absurd hcat g)
            · simp [RIO_append, (pforOps_fut (md := .body) cfg 0 0 _ _).2, riO, RIP]
            · have e0 := (hch hcat).count_eq x
              have e1 := (pforOps_fut (md := md) cfg s.iter x s.blk.length cfg.chunks).1
              rw [e0] at e1
              have e2 : dropCount cfg s.iter x = cfg.inp.count x := by rw [r1]; simp [dropCount]
              cases md <;> simp [starts, FO_append, e1, e2, futO, FP, fedM, fedBy, bodies, calls, bo]
            · rcases List.mem_append.1 hm with h' | h'
              · have : riO (.rootLoop b k its) ≤ RIO (pforOps cfg s.blk.length cfg.chunks) := nsum_le_of_mem riO _ _ h'
                rw [(pforOps_fut (md := .body) cfg 0 0 _ _).2] at this
                simp [riO] at this
              · simp at h'
            · rcases List.mem_append.1 hm with h' | h'
              · exact pforOps_noact _ _ _ _ h'
              · simp at h'
          · rename_i hcat
            split
            · exact inv3_step h i a _ rest [.reserve .root 1, .rootLoop s.blk.length s.iter []] [] [.cmp s.iter] hi ho
                (by simp [setOps]) (by simp [setOps]) rfl rfl (by simp [riO, RIP]) (fun x => by cases md <;> simp [starts, futO, futT, FP, fedM, fedBy, bodies, calls])
                (fun hc => by rw [hcat] at hc; cases hc) (fun _ _ hm => by simp at hm) (fun _ _ _ g => by simp [riO, RIP] at g)
            · rename_i hlt
              exact inv3_step h i a _ rest [.release .root] [] [.cmp s.iter] hi ho
                (by simp [setOps]) (by simp [setOps]) rfl rfl (by simp [riO, RIP])
                (fun x => by cases md <;> simp [starts, futO, futT, FP, fedM, fedBy, bodies, calls, dropCount_ge cfg s.iter x (by omega)])
                (fun hc => by rw [hcat] at hc; cases hc) (fun _ _ hm => by simp at hm) (fun _ _ _ _ => by omega)
          · rename_i hcat
            split
            · exact inv3_step h i a _ rest [.rootLoop s.blk.length s.iter []] [] [.cmp s.iter] hi ho
                (by simp [setOps]) (by simp [setOps]) rfl rfl (by simp [riO, RIP]) (fun x => by cases md <;> simp [starts, futO, futT, FP, fedM, fedBy, bodies, calls])
                (fun hc => by rw [hcat] at hc; cases hc) (fun _ _ hm => by simp at hm) (fun _ _ _ g => by simp [riO, RIP] at g)
            · rename_i hlt
              exact inv3_step h i a _ rest [.release .root] [] [.cmp s.iter] hi ho
                (by simp [setOps]) (by simp [setOps]) rfl rfl (by simp [riO, RIP])
                (fun x => by cases md <;> simp [starts, futO, futT, FP, fedM, fedBy, bodies, calls, dropCount_ge cfg s.iter x (by omega)])
                (fun hc => by rw [hcat] at hc; cases hc) (fun _ _ hm => by simp at hm) (fun _ _ _ _ => by omega)
        | rootLoop b k0 items =>
          have hnr : cfg.cat ≠ .random := by
            intro hc
            exact (h.rnd hc).2 a (List.mem_of_getElem? hi) b k0 items (by rw [ho]; exact List.mem_cons_self)
          have hexit : Inv3 md cfg base (setOps { s with log := .block b k0 items.length :: s.log } i a (loopExit cfg.cat b k0 items ++ rest)) := by
            have hrio : RIO (loopExit cfg.cat b k0 items) = 1 := by
              unfold loopExit
              simp only [RIO_append, RIO_cons, (blockCode_fut (md := .body) cfg 0 0 _ _ _ _).2, riO, riT]
              split <;> simp [riO]
            refine inv3_step h i a _ rest (loopExit cfg.cat b k0 items) [] [.block b k0 items.length] hi ho (by simp [setOps]) (by simp [setOps]) rfl rfl
              ?_ (fun x => ?_) (fun hc => absurd hc hnr) (fun y' src' hm => ?_) (fun _ _ _ g => by rw [hrio] at g; simp at g)
            · rw [hrio]; simp [riO, RIP]
            · have e1 := (blockCode_fut (md := md) cfg s.iter x cfg.cat b k0 items).1
              unfold loopExit
              cases md <;> split <;> simp [FO_append, e1, futO, futT, starts, fedM, fedBy, bodies, calls, FP, bo] <;> omega
            · have hb := blockCode_nobs cfg.cat b k0 y' src' items
              unfold loopExit at hm
              split at hm <;> simp at hm <;> exact hb hm
          simp only [stepOp]
          split
          · split
            · -- one iteration: the item at the iterator moves into the block, the iterator advances
              rename_i y hy hlt
              have hm : a ∈ s.acts := List.mem_of_getElem? hi
              have hri := h.ri
              have h1 := RIA_set s.acts i a (.rootLoop b k0 (items ++ [y]) :: rest) hi
              rw [ho] at h1
              simp only [RIO_cons, riO] at h1
              have hle : RIO a.ops ≤ RIA s.acts := nsum_le_of_mem (fun (a : Actv) => RIO a.ops) s.acts a hm
              rw [ho, RIO_cons] at hle
              simp only [riO] at hle
              -- no other root instance
              have hP0 : RIP s.pool = 0 := by omega
              have hrest0 : RIO rest = 0 := by omega
              have hA0 : RIA (s.acts.set i { a with ops := Op.rootLoop b k0 (items ++ [y]) :: rest }) = 1 := by omega
              have hilt : i < s.acts.length := by
                rcases Nat.lt_or_ge i s.acts.length with h' | h'
                · exact h'
                · rw [List.getElem?_eq_none h'] at hi; cases hi
              refine ⟨?_, fun x => ?_, fun hc => absurd hc hnr, fun a' ha' y' src' hm' => ?_, fun _ _ h0 => ?_⟩
              · show RIP s.pool + RIA (s.acts.set i { a with ops := Op.rootLoop b k0 (items ++ [y]) :: rest }) ≤ 1
                omega
              · have hb := h.bal x
                have h2 := FA_set (md := md) cfg s.iter x s.acts i a rest hi
                have h3 := FA_set (md := md) cfg (s.iter + 1) x (s.acts.set i { a with ops := rest }) i { a with ops := rest } (.rootLoop b k0 (items ++ [y]) :: rest)
                  (by rw [List.getElem?_set_self hilt])
                simp only [List.set_set] at h3
                have hR0 : RIA (s.acts.set i { a with ops := rest }) = 0 := by
                  have := RIA_set s.acts i a rest hi
                  rw [ho, RIO_cons] at this
                  simp only [riO] at this
                  omega
                have e1 := FA_indep (md := md) cfg s.iter (s.iter + 1) x _ hR0
                have e2 := FP_indep (md := md) cfg s.iter (s.iter + 1) x _ hP0
                have e3 := FO_indep (md := md) cfg s.iter (s.iter + 1) x _ hrest0
                have e4 := dropCount_succ cfg s.iter x y hy
                rw [ho, FO_cons] at h2
                simp only [futO, FO_cons, List.count_append, count_singleton] at h2 h3
                have hst : starts md ((if cfg.cat = .input then [Act.inc s.iter, .copy b items.length y, .deref s.iter] else [Act.inc s.iter]) ++ s.log) = starts md s.log := by
                  cases md <;> split <;> simp [starts, bodies, calls]
                have hfd : fedM md cfg ((if cfg.cat = .input then [Act.inc s.iter, .copy b items.length y, .deref s.iter] else [Act.inc s.iter]) ++ s.log) = fedM md cfg s.log := by
                  cases md <;> split <;> simp [fedM, fedBy, bodies]
                show (starts md ((if cfg.cat = .input then [Act.inc s.iter, .copy b items.length y, .deref s.iter] else [Act.inc s.iter]) ++ s.log)).count x +
                  FP md cfg (s.iter + 1) x s.pool + FA md cfg (s.iter + 1) x (s.acts.set i { a with ops := Op.rootLoop b k0 (items ++ [y]) :: rest }) =
                  base.count x + (fedM md cfg ((if cfg.cat = .input then [Act.inc s.iter, .copy b items.length y, .deref s.iter] else [Act.inc s.iter]) ++ s.log)).count x
                rw [hst, hfd]
                cases md <;> simp only [eq_self, reduceCtorEq, if_true, if_false] at h2 h3 <;> omega
              · have ha'' : a' ∈ s.acts.set i { a with ops := Op.rootLoop b k0 (items ++ [y]) :: rest } := ha'
                rcases List.mem_or_eq_of_mem_set ha'' with h' | h'
                · exact h.nb a' h' y' src' hm'
                · subst h'
                  simp only [List.mem_cons, reduceCtorEq, false_or] at hm'
                  exact h.nb a hm y' src' (by rw [ho]; exact List.mem_cons_of_mem _ hm')
              · exfalso
                have h0' : RIP s.pool + RIA (s.acts.set i { a with ops := Op.rootLoop b k0 (items ++ [y]) :: rest }) = 0 := h0
                omega
            · exact hexit
          · exact hexit
        | subExec f1 f2 f3 =>
          exact inv3_step h i a _ rest [.spawn (.inv f3 (.kid s.kid.length)), .spawn (.inv f2 (.kid s.kid.length)), .act (.callS f1), .act (.callE f1), .release (.kid s.kid.length)]
            [] [.arm s.kid.length] hi ho (by simp [stepOp, setOps]) (by simp [stepOp, setOps]) rfl rfl (by simp [riO, riT, RIP])
            (fun x => by cases md <;> simp [starts, futO, futT, FP, fedM, fedBy, bodies, calls] <;> omega) (fun _ b k its hm => by simp at hm) (fun _ _ hm => by simp at hm) (fun _ _ g _ => by simp [riO] at g)
      · exact h
    · exact h

end TbbVerif.C05.Each
