/-
C05 — what one start_for task does, and the closure over the task tree:
the ranges a task hands to the body, hands to the children it spawns, or drops on cancellation are
(up to order) the leaves of a legal split tree of the task's range — for every environment.
-/
import TbbVerif.Proofs.C05.Part

namespace TbbVerif.C05

section
variable {R σ : Type}

def Ev.range : Ev R → R
  | .body r => r
  | .spawn r _ => r
  | .drop r => r

/-- the ranges mentioned by an event list -/
def evR (evs : List (Ev R)) : List R := evs.map Ev.range

/-- the environment never reports cancellation (the loop "completes normally") -/
def NoCancel (E : Env σ) : Prop := ∀ s, (E.cancel s).1 = false

/-- every spawned child gets a partition object that satisfies the invariant, and nothing is dropped unless the
environment reported cancellation -/
def KidsOK (E : Env σ) (evs : List (Ev R)) : Prop :=
  (∀ r p, Ev.spawn r p ∈ evs → PartInv p) ∧ (NoCancel E → ∀ r, Ev.drop r ∉ evs)


variable {ops : RangeOps R} {E : Env σ}

@[simp] theorem Ev.range_body (r : R) : (Ev.body r).range = r := rfl
@[simp] theorem Ev.range_spawn (r : R) (p : Part) : (Ev.spawn r p).range = r := rfl
@[simp] theorem Ev.range_drop (r : R) : (Ev.drop r).range = r := rfl

theorem dropLast_append_of_getLast? {α : Type} : ∀ (l : List α) (a : α), l.getLast? = some a → l.dropLast ++ [a] = l
  | [], a, h => by simp at h
  | [x], a, h => by simp at h; simp [h]
  | x :: y :: ys, a, h => by
    have h' : (y :: ys).getLast? = some a := by simpa [List.getLast?_cons_cons] using h
    have := dropLast_append_of_getLast? (y :: ys) a h'
    simp only [List.dropLast_cons_cons, List.cons_append, this]

@[simp] theorem evR_nil : evR ([] : List (Ev R)) = [] := rfl
@[simp] theorem evR_cons (e : Ev R) (es : List (Ev R)) : evR (e :: es) = e.range :: evR es := rfl

theorem KidsOK.body {evs : List (Ev R)} (h : KidsOK E evs) (r : R) : KidsOK E (Ev.body r :: evs) := by
  refine ⟨fun r' p hm => ?_, fun hn r' hm => ?_⟩
  · rcases List.mem_cons.1 hm with h1 | h1
    · cases h1
    · exact h.1 r' p h1
  · rcases List.mem_cons.1 hm with h1 | h1
    · cases h1
    · exact h.2 hn r' h1

theorem KidsOK.spawn {evs : List (Ev R)} (h : KidsOK E evs) (r : R) (p : Part) (hp : PartInv p) :
    KidsOK E (Ev.spawn r p :: evs) := by
  refine ⟨fun r' p' hm => ?_, fun hn r' hm => ?_⟩
  · rcases List.mem_cons.1 hm with h1 | h1
    · cases h1; exact hp
    · exact h.1 r' p' h1
  · rcases List.mem_cons.1 hm with h1 | h1
    · cases h1
    · exact h.2 hn r' h1

/-! ### simple_partition_type::execute -/

theorem simpleExec_inv {r0 : R} : ∀ (fuel : Nat) (t t' : TS R σ),
    Leaves ops r0 (t.range :: evR t.evs) → KidsOK E t.evs → simpleExec ops E fuel t = some t' →
    Leaves ops r0 (evR t'.evs) ∧ KidsOK E t'.evs := by
  intro fuel
  induction fuel with
  | zero => intro t t' _ _ h; simp [simpleExec] at h
  | succ f ih =>
    intro t t' hl hk h
    unfold simpleExec at h
    split at h
    · rename_i hd
      cases hs : ops.split t.range with
      | mk a b =>
        rw [hs] at h
        simp only at h
        refine ih _ _ ?_ ?_ h
        · simpa [emitSpawn] using hl.split hd hs
        · exact hk.spawn b _ (by simp [PartInv])
    · injection h with h
      subst h
      exact ⟨by simpa [runBody] using hl, hk.body _⟩

/-! ### the splitting loop of partition_type_base::execute -/

theorem offerSplit_inv {r0 : R} (t t2 t' : TS R σ) (hl : Leaves ops r0 (t.range :: evR t.evs)) (hk : KidsOK E t.evs)
    (hi : PartInv t.part) (hns : t.part.kind ≠ .simple) (hd : ops.divisible t.range = true)
    (hpd : partIsDivisible t.part = (true, t2.part)) (h2 : t2 = { t with part := t2.part })
    (h : offerSplit ops E t2 = some t') :
    Leaves ops r0 (t'.range :: evR t'.evs) ∧ KidsOK E t'.evs ∧ PartInv t'.part ∧ t'.part.kind = t.part.kind := by
  have hk2 : t2.part.kind = t.part.kind := by
    unfold partIsDivisible at hpd
    split at hpd
    · simp only [Prod.mk.injEq] at hpd; cases hpd.1
    · split at hpd
      · simp only [Prod.mk.injEq] at hpd; rw [← hpd.2]
      · split at hpd
        · simp only [Prod.mk.injEq] at hpd; rw [← hpd.2]
        · simp only [Prod.mk.injEq] at hpd; cases hpd.1
    · simp only [Prod.mk.injEq] at hpd; rw [← hpd.2]
    · simp only [Prod.mk.injEq] at hpd; rw [← hpd.2]
  have hr2 : t2.range = t.range := by rw [h2]
  have he2 : t2.evs = t.evs := by rw [h2]
  unfold offerSplit at h
  split at h
  · rename_i hks; rw [hk2] at hks; exact absurd hks hns
  · -- auto: midpoint split, halved divisor
    rename_i hka
    cases hs : ops.split t2.range with
    | mk a b =>
      rw [hs] at h
      simp only [Option.some.injEq] at h
      subst h
      rw [hr2] at hs
      refine ⟨?_, ?_, ?_, ?_⟩
      · simpa [emitSpawn, he2] using hl.split hd hs
      · simp only [emitSpawn, he2]
        exact hk.spawn _ _ (by unfold partSplit PartInv; simp [hka])
      · simp only [emitSpawn]; unfold partSplit PartInv; simp [hka]
      · simp only [emitSpawn]; unfold partSplit; simp [hka, ← hk2]
  · -- static / affinity: proportional split
    rename_i hk1 hk3
    have hkind : t.part.kind = .static ∨ t.part.kind = .affinity := by
      rw [← hk2]
      cases hkk : t2.part.kind
      · exact absurd hkk hk1
      · exact absurd hkk hk3
      · exact Or.inl rfl
      · exact Or.inr rfl
    obtain ⟨hpe, hok⟩ := propOK_of_divisible t.part t2.part hkind hi hpd
    have hgt : t.part.divisor > factor t.part.kind := by
      unfold partIsDivisible at hpd
      rcases hkind with hkk | hkk
      · rw [hkk] at hpd ⊢; simp only [Prod.mk.injEq, decide_eq_true_eq] at hpd; exact hpd.1
      · rw [hkk] at hpd ⊢; simp only [Prod.mk.injEq, decide_eq_true_eq] at hpd; exact hpd.1
    rw [hpe] at h
    simp only at h
    rw [hr2] at h
    split at h
    · cases h
    · rename_i a b hps
      simp only [Option.some.injEq] at h
      subst h
      obtain ⟨i1, i2, k1, k2⟩ := partPSplit_inv t.part hkind hi hgt _ rfl
      refine ⟨?_, ?_, ?_, ?_⟩
      · simpa [emitSpawn, he2] using hl.psplit hd hok hps
      · simp only [emitSpawn, he2]
        exact hk.spawn _ _ i2
      · simpa [emitSpawn] using i1
      · simpa [emitSpawn] using k1

theorem splitLoop_inv {r0 : R} : ∀ (fuel : Nat) (t t' : TS R σ),
    Leaves ops r0 (t.range :: evR t.evs) → KidsOK E t.evs → PartInv t.part → t.part.kind ≠ .simple →
    splitLoop ops E fuel t = some t' →
    Leaves ops r0 (t'.range :: evR t'.evs) ∧ KidsOK E t'.evs ∧ PartInv t'.part ∧ t'.part.kind = t.part.kind ∧
      (ops.divisible t'.range = false ∨ PoolInv t'.part) := by
  intro fuel
  induction fuel with
  | zero => intro t t' _ _ _ _ h; simp [splitLoop] at h
  | succ f ih =>
    intro t t' hl hk hi hns h
    unfold splitLoop at h
    split at h
    · rename_i hd
      cases hpd : partIsDivisible t.part with
      | mk d p =>
        rw [hpd] at h
        simp only at h
        split at h
        · rename_i hdt
          subst hdt
          split at h
          · cases h
          · rename_i t1 hof
            have := offerSplit_inv (ops := ops) (E := E) t { t with part := p } t1 hl hk hi hns hd (by simpa using hpd) rfl hof
            obtain ⟨l1, k1, i1, kk1⟩ := this
            obtain ⟨l2, k2, i2, kk2, e2⟩ := ih t1 t' l1 k1 i1 (by rw [kk1]; exact hns) h
            exact ⟨l2, k2, i2, by rw [kk2, kk1], e2⟩
        · rename_i hdf
          injection h with h
          subst h
          have hdf' : d = false := by cases d <;> simp_all
          subst hdf'
          -- is_divisible() answered no: the partition object is unchanged and (affinity) within the factor
          have hp : p = t.part ∧ PoolInv t.part := by
            unfold partIsDivisible at hpd
            split at hpd
            · simp only [Prod.mk.injEq] at hpd; exact ⟨hpd.2.symm, fun hk' => by simp_all⟩
            · rename_i hka
              split at hpd
              · simp only [Prod.mk.injEq] at hpd; cases hpd.1
              · split at hpd
                · simp only [Prod.mk.injEq] at hpd; cases hpd.1
                · simp only [Prod.mk.injEq] at hpd; exact ⟨hpd.2.symm, fun hk' => by rw [hka] at hk'; cases hk'⟩
            · rename_i hka
              simp only [Prod.mk.injEq] at hpd; exact ⟨hpd.2.symm, fun hk' => by rw [hka] at hk'; cases hk'⟩
            · simp only [Prod.mk.injEq, decide_eq_false_iff_not] at hpd
              refine ⟨hpd.2.symm, fun _ => ?_⟩
              have h1 := hpd.1
              simp only [factor] at h1
              show t.part.divisor ≤ Generated.C05.affinityFactor
              omega
          obtain ⟨hp1, hp2⟩ := hp
          subst hp1
          exact ⟨hl, hk, hi, rfl, Or.inr hp2⟩
    · rename_i hd
      injection h with h
      subst h
      exact ⟨hl, hk, hi, rfl, Or.inl (by simpa using hd)⟩

/-! ### check_being_stolen, check_for_demand -/

theorem checkBeingStolen_inv' (t : TS R σ) (hi : PartInv t.part) : ∀ res, checkBeingStolen E t = res →
    res.range = t.range ∧ res.evs = t.evs ∧ PartInv res.part ∧ res.part.kind = t.part.kind := by
  have hone : ∀ md, PartInv { t.part with divisor := 1, maxDepth := md } := by
    intro md
    have := affF_pos
    unfold PartInv at hi ⊢
    cases hk : t.part.kind <;> simp_all <;> omega
  have hone' : PartInv { t.part with divisor := 1 } := hone t.part.maxDepth
  intro res h
  simp only [checkBeingStolen] at h
  repeat' split at h
  all_goals (subst h; exact ⟨rfl, rfl, by first | exact hi | exact hone' | exact hone _, rfl⟩)

theorem checkBeingStolen_inv (t : TS R σ) (hi : PartInv t.part) :
    (checkBeingStolen E t).range = t.range ∧ (checkBeingStolen E t).evs = t.evs ∧
    PartInv (checkBeingStolen E t).part ∧ (checkBeingStolen E t).part.kind = t.part.kind :=
  checkBeingStolen_inv' t hi _ rfl

theorem checkForDemand_inv' (t : TS R σ) (hi : PartInv t.part) (hp : PoolInv t.part) : ∀ res, checkForDemand E t = res →
    res.2.range = t.range ∧ res.2.evs = t.evs ∧ PartInv res.2.part ∧ PoolInv res.2.part ∧ res.2.part.kind = t.part.kind := by
  have hset : ∀ md dl, PartInv { t.part with maxDepth := md, delay := dl } ∧ PoolInv { t.part with maxDepth := md, delay := dl } :=
    fun md dl => ⟨by unfold PartInv at hi ⊢; exact hi, by unfold PoolInv at hp ⊢; exact hp⟩
  have hzero : PartInv { t.part with divisor := 0 } ∧ PoolInv { t.part with divisor := 0 } := by
    have := affF_pos
    constructor
    · unfold PartInv at hi ⊢
      cases hk : t.part.kind <;> simp_all
    · unfold PoolInv; intro _; simp
  intro res h
  simp only [checkForDemand] at h
  repeat' split at h
  all_goals (subst h; exact ⟨rfl, rfl, by first | exact hi | exact hzero.1 | exact (hset _ _).1,
    by first | exact hp | exact hzero.2 | exact (hset _ _).2, rfl⟩)

theorem checkForDemand_inv (t : TS R σ) (hi : PartInv t.part) (hp : PoolInv t.part) :
    (checkForDemand E t).2.range = t.range ∧ (checkForDemand E t).2.evs = t.evs ∧
    PartInv (checkForDemand E t).2.part ∧ PoolInv (checkForDemand E t).2.part ∧
    (checkForDemand E t).2.part.kind = t.part.kind :=
  checkForDemand_inv' t hi hp _ rfl

/-! ### the range pool loop of work_balance -/

theorem fillPool_leaves {r0 : R} (md : Nat) (M : List R) : ∀ (f : Nat) (pool : List (R × Nat)),
    Leaves ops r0 (pool.map Prod.fst ++ M) → Leaves ops r0 ((fillPool ops md f pool).map Prod.fst ++ M) := by
  intro f
  induction f with
  | zero => intro pool h; simpa [fillPool] using h
  | succ f ih =>
    intro pool h
    unfold fillPool
    split
    · simpa using h
    · rename_i r d rest
      split
      · rename_i hc
        cases hs : ops.split r with
        | mk l rt =>
          simp only
          apply ih
          have := Leaves.split (ops := ops) (M := rest.map Prod.fst ++ M) (by simpa using h) hc.2.2 hs
          simpa using this
      · exact h

/-- the invariant a continuation of the pool loop must re-establish -/
def PoolSpec (r0 : R) (k : TS R σ → List (R × Nat) → Option (TS R σ)) : Prop :=
  ∀ t pool t', Leaves ops r0 (pool.map Prod.fst ++ evR t.evs) → KidsOK E t.evs → PartInv t.part → PoolInv t.part →
    (t.part.kind = .auto ∨ t.part.kind = .affinity) → k t pool = some t' → Leaves ops r0 (evR t'.evs) ∧ KidsOK E t'.evs

theorem evR_dropAll (t : TS R σ) (pool : List (R × Nat)) :
    (evR (dropAll t pool).evs).Perm (pool.map Prod.fst ++ evR t.evs) := by
  unfold dropAll evR
  simp only [List.map_append, List.map_reverse, List.map_map]
  have : (List.map (Ev.range ∘ fun x => Ev.drop x.1) pool) = pool.map Prod.fst := by
    apply List.map_congr_left; intro x _; rfl
  rw [this]
  exact (List.reverse_perm _).append_right _

theorem kidsOK_dropAll (t : TS R σ) (pool : List (R × Nat)) (h : KidsOK E t.evs) (hc : ¬ NoCancel E) :
    KidsOK E (dropAll t pool).evs := by
  refine ⟨fun r p hm => ?_, fun hn => absurd hn hc⟩
  unfold dropAll at hm
  simp only [List.mem_append, List.mem_reverse, List.mem_map] at hm
  rcases hm with ⟨x, _, hx⟩ | hm
  · cases hx
  · exact h.1 r p hm

theorem poolNext_inv {r0 : R} {k : TS R σ → List (R × Nat) → Option (TS R σ)} (hk : PoolSpec (ops := ops) (E := E) r0 k) :
    PoolSpec (ops := ops) (E := E) r0 (poolNext E k) := by
  intro t pool t' hl hko hi hp hkind h
  unfold poolNext at h
  split at h
  · injection h with h; subst h; exact ⟨by simpa using hl, hko⟩
  · rename_i x xs
    cases hc : E.cancel t.env with
    | mk c env =>
      rw [hc] at h
      simp only at h
      split at h
      · injection h with h
        subst h
        rename_i hct
        have hnc : ¬ NoCancel E := fun hn => by
          have := hn t.env
          rw [hc] at this
          simp only at this
          rw [this] at hct
          cases hct
        exact ⟨hl.perm (evR_dropAll _ _).symm, kidsOK_dropAll _ _ hko hnc⟩
      · exact hk { t with env := env } (x :: xs) t' hl hko hi hp hkind h

theorem poolRunBack_inv {r0 : R} {k : TS R σ → List (R × Nat) → Option (TS R σ)} (hk : PoolSpec (ops := ops) (E := E) r0 k) :
    PoolSpec (ops := ops) (E := E) r0 (poolRunBack E k) := by
  intro t pool t' hl hko hi hp hkind h
  unfold poolRunBack at h
  split at h
  · cases h
  · rename_i r d rest
    refine poolNext_inv (E := E) hk (runBody E t r) rest t' ?_ (hko.body r) hi hp hkind h
    simp only [runBody, evR_cons, Ev.range]
    exact hl.perm (by simpa using (List.perm_middle (a := r) (l₁ := rest.map Prod.fst) (l₂ := evR t.evs)).symm)

theorem poolLoop_inv {r0 : R} : ∀ fuel : Nat, PoolSpec (ops := ops) (E := E) r0 (poolLoop ops E fuel) := by
  intro fuel
  induction fuel with
  | zero => intro t pool t' _ _ _ _ _ h; simp [poolLoop] at h
  | succ f ih =>
    intro t pool t' hl hko hi hp hkind h
    unfold poolLoop at h
    simp only at h
    have hl1 := fillPool_leaves (ops := ops) t.part.maxDepth (evR t.evs) Generated.C05.poolCapacity pool hl
    generalize fillPool ops t.part.maxDepth Generated.C05.poolCapacity pool = pool1 at h hl1
    obtain ⟨cr, ce, ci, cp, ck⟩ := checkForDemand_inv (E := E) t hi hp
    cases hcd : checkForDemand E t with
    | mk dem t1 =>
      rw [hcd] at h cr ce ci cp ck
      simp only at h cr ce ci cp ck
      have hkind1 : t1.part.kind = .auto ∨ t1.part.kind = .affinity := by rw [ck]; exact hkind
      have hl2 : Leaves ops r0 (pool1.map Prod.fst ++ evR t1.evs) := by rw [ce]; exact hl1
      have hko1 : KidsOK E t1.evs := by rw [ce]; exact hko
      split at h
      · split at h
        · -- offer_work(front)
          split at h
          · rename_i fr fd hgl
            obtain ⟨s1, s2, s3, s4, s5⟩ := partSplit_inv t1.part ci cp hkind1
            cases hps : partSplit t1.part with
            | mk src child =>
              rw [hps] at h s1 s2 s3 s4 s5
              simp only at h s1 s2 s3 s4 s5
              have hdl : pool1.dropLast ++ [(fr, fd)] = pool1 := dropLast_append_of_getLast? pool1 (fr, fd) hgl
              have hk3 : src.kind = .auto ∨ src.kind = .affinity := by rw [s4]; exact hkind1
              refine poolNext_inv (E := E) ih _ _ t' ?_ ?_ s1 s2 hk3 h
              · simp only [emitSpawn, evR_cons, Ev.range_spawn]
                have e : pool1.map Prod.fst = pool1.dropLast.map Prod.fst ++ [fr] := by
                  have := congrArg (List.map Prod.fst) hdl
                  simpa using this.symm
                have : pool1.map Prod.fst ++ evR t1.evs = pool1.dropLast.map Prod.fst ++ fr :: evR t1.evs := by
                  rw [e]; simp
                rw [← this]; exact hl2
              · simp only [emitSpawn]
                refine hko1.spawn _ _ ?_
                unfold PartInv at s3 ⊢
                exact s3
          · cases h
        · split at h
          · exact poolNext_inv (E := E) ih t1 pool1 t' hl2 hko1 ci cp hkind1 h
          · exact poolRunBack_inv (E := E) ih t1 pool1 t' hl2 hko1 ci cp hkind1 h
      · exact poolRunBack_inv (E := E) ih t1 pool1 t' hl2 hko1 ci cp hkind1 h

/-! ### work_balance and start_for::execute -/

theorem workBalance_inv {r0 : R} (fuel : Nat) (t t' : TS R σ) (hl : Leaves ops r0 (t.range :: evR t.evs))
    (hko : KidsOK E t.evs) (hi : PartInv t.part) (hp : ops.divisible t.range = false ∨ PoolInv t.part)
    (h : workBalance ops E fuel t = some t') : Leaves ops r0 (evR t'.evs) ∧ KidsOK E t'.evs := by
  have hbody : Leaves ops r0 (evR (runBody E t t.range).evs) ∧ KidsOK E (runBody E t t.range).evs :=
    ⟨by simpa [runBody] using hl, hko.body _⟩
  unfold workBalance at h
  split at h
  · injection h with h; subst h; exact hbody
  · injection h with h; subst h; exact hbody
  · rename_i hns hnst
    split at h
    · injection h with h; subst h; exact hbody
    · rename_i hc
      have hd : ops.divisible t.range = true := by
        cases hdd : ops.divisible t.range <;> simp_all
      have hpi : PoolInv t.part := by
        rcases hp with hp | hp
        · rw [hd] at hp; cases hp
        · exact hp
      have hkind : t.part.kind = .auto ∨ t.part.kind = .affinity := by
        cases hkk : t.part.kind
        · exact absurd hkk hnst
        · exact Or.inl rfl
        · exact absurd hkk hns
        · exact Or.inr rfl
      exact poolLoop_inv (ops := ops) (E := E) fuel t [(t.range, 0)] t' (by simpa using hl) hko hi hpi hkind h

theorem evR_reverse (evs : List (Ev R)) : (evR evs.reverse).Perm (evR evs) := by
  unfold evR; rw [List.map_reverse]; exact List.reverse_perm _

/-- **One task.**  For every environment: the ranges a `start_for` task runs, spawns or drops are the leaves
of a legal split tree of its range, and its children start with invariant-satisfying partition objects. -/
theorem execTask_inv (fuel : Nat) (r : R) (p : Part) (s s' : σ) (evs : List (Ev R)) (hi : PartInv p)
    (h : execTask ops E fuel r p s = some (evs, s')) : Leaves ops r (evR evs) ∧ KidsOK E evs := by
  unfold execTask at h
  simp only [Option.map_eq_some_iff] at h
  obtain ⟨t', ht, he⟩ := h
  simp only [Prod.mk.injEq] at he
  obtain ⟨he1, _⟩ := he
  subst he1
  have h0 : Leaves ops r (({ range := r, part := p, env := s } : TS R σ).range :: evR ({ range := r, part := p, env := s } : TS R σ).evs) := by
    simpa using Leaves.refl (ops := ops) r
  have hk0 : KidsOK E ({ range := r, part := p, env := s } : TS R σ).evs := by
    constructor
    · intro _ _ hm; cases hm
    · intro _ _ hm; cases hm
  -- (the initial event list is empty)
  have fin : Leaves ops r (evR t'.evs) ∧ KidsOK E t'.evs →
      Leaves ops r (evR t'.evs.reverse) ∧ KidsOK E t'.evs.reverse := by
    intro ⟨a, b⟩
    exact ⟨a.perm (evR_reverse _).symm, fun r p hm => b.1 r p (List.mem_reverse.1 hm),
      fun hn r hm => b.2 hn r (List.mem_reverse.1 hm)⟩
  apply fin
  split at ht
  · exact simpleExec_inv fuel _ t' h0 hk0 ht
  · rename_i hks
    split at ht
    · cases ht
    · rename_i t1 hsl
      obtain ⟨l1, k1, i1, _, e1⟩ := splitLoop_inv (ops := ops) (E := E) fuel _ t1 h0 hk0 hi (by simp [hks]) hsl
      exact workBalance_inv fuel t1 t' l1 k1 i1 e1 ht
  · rename_i hns hnst
    obtain ⟨cr, ce, ci, ck⟩ := checkBeingStolen_inv (E := E) ({ range := r, part := p, env := s } : TS R σ) hi
    split at ht
    · cases ht
    · rename_i t1 hsl
      have hl : Leaves ops r ((checkBeingStolen E ({ range := r, part := p, env := s } : TS R σ)).range ::
          evR (checkBeingStolen E ({ range := r, part := p, env := s } : TS R σ)).evs) := by rw [cr, ce]; exact h0
      obtain ⟨l1, k1, i1, _, e1⟩ := splitLoop_inv (ops := ops) (E := E) fuel _ t1 hl (by rw [ce]; exact hk0) ci
        (by rw [ck]; exact hns) hsl
      exact workBalance_inv fuel t1 t' l1 k1 i1 e1 ht

/-! ### the whole loop -/

theorem evR_parts [DecidableEq R] (evs : List (Ev R)) :
    (evR evs).Perm ((evKids evs).map Prod.fst ++ evBodies evs ++ evDrops evs) := by
  rw [List.perm_iff_count]
  intro a
  induction evs with
  | nil => simp [evKids, evBodies, evDrops]
  | cons e es ih =>
    cases e with
    | body r =>
      simp only [evR_cons, Ev.range, evKids, evBodies, evDrops, List.filterMap_cons, List.count_append, List.count_cons,
        List.map_append] at ih ⊢
      omega
    | spawn r p =>
      simp only [evR_cons, Ev.range, evKids, evBodies, evDrops, List.filterMap_cons, List.count_append, List.count_cons,
        List.map_cons, List.map_append] at ih ⊢
      omega
    | drop r =>
      simp only [evR_cons, Ev.range, evKids, evBodies, evDrops, List.filterMap_cons, List.count_append, List.count_cons,
        List.map_append] at ih ⊢
      omega

theorem evDrops_nil_of (evs : List (Ev R)) (h : ∀ r, Ev.drop r ∉ evs) : evDrops evs = [] := by
  unfold evDrops
  rw [List.filterMap_eq_nil_iff]
  intro e he
  cases e with
  | drop r => exact absurd he (h r)
  | body _ => rfl
  | spawn _ _ => rfl

theorem runTasks_inv [DecidableEq R] {r0 : R} : ∀ (fuel : Nat) (work : List (R × Part)) (s : σ) (ran dropped ran' dropped' : List R) (s' : σ),
    Leaves ops r0 (work.map Prod.fst ++ ran ++ dropped) → (∀ x ∈ work, PartInv x.2) →
    runTasks ops E fuel work s ran dropped = some (ran', dropped', s') →
    Leaves ops r0 (ran' ++ dropped') ∧ (NoCancel E → dropped' = dropped) := by
  intro fuel
  induction fuel with
  | zero => intro work s ran dropped ran' dropped' s' _ _ h; simp [runTasks] at h
  | succ f ih =>
    intro work s ran dropped ran' dropped' s' hl hw h
    cases work with
    | nil =>
      simp only [runTasks, Option.some.injEq, Prod.mk.injEq] at h
      obtain ⟨h1, h2, _⟩ := h
      subst h1; subst h2
      exact ⟨by simpa using hl, fun _ => rfl⟩
    | cons x work =>
      obtain ⟨r, p⟩ := x
      simp only [runTasks] at h
      split at h
      · cases h
      · rename_i evs s1 hex
        obtain ⟨lt, kt⟩ := execTask_inv (ops := ops) (E := E) f r p s s1 evs (hw (r, p) (List.mem_cons_self)) hex
        have := ih _ _ _ _ _ _ _ ?_ ?_ h
        · refine ⟨this.1, fun hn => ?_⟩
          rw [this.2 hn, evDrops_nil_of evs (kt.2 hn)]
          rfl
        · have h1 : Leaves ops r0 (r :: (work.map Prod.fst ++ ran ++ dropped)) := by simpa using hl
          have h2 := h1.graft lt
          refine h2.perm ?_
          have hp := evR_parts evs
          have hp2 : (evR evs ++ (work.map Prod.fst ++ ran ++ dropped)).Perm
              (((evKids evs).map Prod.fst ++ evBodies evs ++ evDrops evs) ++ (work.map Prod.fst ++ ran ++ dropped)) :=
            hp.append_right _
          refine hp2.trans ?_
          rw [List.perm_iff_count]
          intro a
          simp only [List.count_append, List.map_append]
          omega
        · intro y hy
          rcases List.mem_append.1 hy with hy | hy
          · simp only [evKids, List.mem_filterMap] at hy
            obtain ⟨e, he, hee⟩ := hy
            cases e with
            | spawn r' p' => simp only [Option.some.injEq] at hee; subst hee; exact kt.1 r' p' he
            | body _ => cases hee
            | drop _ => cases hee
          · exact hw y (List.mem_cons_of_mem _ hy)

end

end TbbVerif.C05
