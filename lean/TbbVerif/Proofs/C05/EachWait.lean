/-
C05 — parallel_for_each / parallel_invoke task system: the wait covers everything.

`Inv2`: every block counter that is positive is waited for by an activation that still owes the root a reference;
the calling thread is `… ++ [await root, done]`; every other activation holds a reference until its last operation;
once the calling thread has passed its wait the pool is empty and only item destructions remain.
-/
import TbbVerif.Proofs.C05.EachLive

namespace TbbVerif.C05.Each

/-- the calling thread: still working / waiting, about to return, returned -/
def MainShape (ops : List Op) : Prop :=
  (∃ q, ops = q ++ [.await .root, .act .done] ∧ Op.act .done ∉ q) ∨ ops = [.act .done] ∨ ops = []

structure Inv2 (cat : Cat) (s : St) : Prop where
  aok : ∀ a ∈ s.acts, RA a.ops ∧ AR cat a.ops
  chain : ∀ b, 0 < s.val (.blk b) → ∃ (j : Nat) (a0 : Actv), s.acts[j]? = some a0 ∧ Op.await (.blk b) ∈ a0.ops
  main : ∃ m others, s.acts = m :: others ∧ MainShape m.ops ∧ (∀ a ∈ others, JS cat a.ops ∧ Op.act .done ∉ a.ops) ∧
    ((m.ops = [.act .done] ∨ m.ops = []) → s.pool = [] ∧ ∀ a ∈ others, Idle a.ops) ∧
    (Act.done ∈ s.log → m.ops = [])

theorem nz_zero : ∀ (l : List Nat), nz l = 0 → ∀ i, l.getD i 0 = 0
  | [], _, i => by simp
  | x :: xs, h, i => by
    rw [nz_cons] at h
    have h1 := ind_nonneg x
    have h2 := nz_nonneg xs
    have hx : x = 0 := by
      by_cases e : x = 0
      · exact e
      · have : ind x = 1 := by simp [ind, e]
        omega
    cases i with
    | zero => simpa using hx
    | succ i => simpa using nz_zero xs (by omega) i

theorem sum_zero_each {α : Type} (f : α → Int) (l : List α) (h : ∀ x ∈ l, 0 ≤ f x) (h0 : (l.map f).sum = 0) : ∀ x ∈ l, f x = 0 := by
  intro x hx
  have h1 := le_sum_map_of_mem f l h x hx
  have h2 := h x hx
  omega

/-- **When the root counter is zero nothing holds a reference any more**: no pending task, and every activation's
remaining operations are reference-neutral on every counter. -/
theorem zero_of_root_zero {cat : Cat} {s : St} (h1 : Inv1 cat s) (h2 : Inv2 cat s) (hr : s.val .root = 0) :
    s.pool = [] ∧ ∀ a ∈ s.acts, ∀ c, W cat c a.ops = 0 := by
  have hA := fun c => tokA_nonneg h1 c
  have hP := fun c => tokP_nonneg c s.pool
  have hnzn := nz_nonneg s.kid
  have hroot := h1.acc .root
  simp only [lhs, hr, if_true] at hroot
  have hnz : nz s.kid = 0 := by have := hA .root; have := hP .root; omega
  have hWroot : ∀ a ∈ s.acts, W cat .root a.ops = 0 :=
    sum_zero_each (fun (a : Actv) => W cat .root a.ops) s.acts (fun a ha => (h1.sn a ha .root).nonneg) (by have := hA .root; have := hP .root; show tokA cat .root s.acts = 0; omega)
  have hval : ∀ c, s.val c = 0 := by
    intro c
    cases c with
    | root => exact hr
    | kid i => exact nz_zero s.kid hnz i
    | blk b =>
      by_cases hne : s.val (.blk b) = 0
      · exact hne
      exfalso
      obtain ⟨j, a0, hj, haw⟩ := h2.chain b (by omega)
      have hm : a0 ∈ s.acts := List.mem_of_getElem? hj
      have := (h2.aok a0 hm).2.whole ⟨b, haw⟩
      have := hWroot a0 hm
      omega
  have hzero : ∀ c, tokP c s.pool = 0 ∧ tokA cat c s.acts = 0 := by
    intro c
    have := h1.acc c
    have h3 : lhs s c = 0 := by
      simp only [lhs, hval c]
      split <;> simp [hnz]
    have := hA c; have := hP c
    constructor <;> omega
  constructor
  · cases hp : s.pool with
    | nil => rfl
    | cons t ts =>
      obtain ⟨c, hc⟩ := holds_some t
      have h3 := (hzero c).1
      have h4 := sum_zero_each (holds c) s.pool (fun t _ => holds_nonneg c t) h3 t (by rw [hp]; exact List.mem_cons_self)
      omega
  · intro a ha c
    exact sum_zero_each (fun (a : Actv) => W cat c a.ops) s.acts (fun a ha => (h1.sn a ha c).nonneg) (hzero c).2 a ha

theorem idle_of_weightless {cat : Cat} {ops : List Op} (hj : JS cat ops) (h0 : ∀ c, W cat c ops = 0) : Idle ops := by
  rcases hj.head with h | ⟨c, hc⟩
  · exact h
  · have := h0 c; omega

theorem val_blk_release_le (s : St) (c' : Ctr) (b : Nat) : (s.release c').val (.blk b) ≤ s.val (.blk b) := by
  cases c' with
  | root => simp only [St.release]; split <;> simp [St.val]
  | kid i => simp only [St.release]; split <;> (try split) <;> (try split) <;> simp [St.val]
  | blk b' =>
    simp only [St.release]
    split
    · simp [St.val]
    · simp only [St.val, getD_setPad]
      split
      · rename_i e; subst e; omega
      · exact Nat.le_refl _

theorem val_blk_reserve (s : St) (c' : Ctr) (n b : Nat) : (s.reserve c' n).val (.blk b) = s.val (.blk b) ∨ c' = .blk b := by
  cases c' with
  | root => left; simp [St.reserve, St.val]
  | kid i => left; simp only [St.reserve]; split <;> simp [St.val]
  | blk b' =>
    by_cases e : b' = b
    · right; rw [e]
    · left
      simp only [St.reserve, St.val, getD_setPad]
      have : ¬ b = b' := fun h => e h.symm
      simp [this]

theorem not_idle_cons {o : Op} {r : List Op} (h : ∀ b j x, o ≠ .act (.destroy b j x)) : ¬ Idle (o :: r) := by
  intro hi
  obtain ⟨b, j, x, e⟩ := hi o (List.mem_cons_self)
  exact h b j x e

/-- generic step of activation `i`: `op :: rest` becomes `e ++ rest` -/
theorem inv2_step {cat : Cat} {s s' : St} (h1 : Inv1 cat s) (h2 : Inv2 cat s) (i : Nat) (a : Actv) (op : Op) (rest e : List Op)
    (newp : List Task) (newlog : List Act)
    (hi : s.acts[i]? = some a) (ho : a.ops = op :: rest)
    (hacts : s'.acts = s.acts.set i { a with ops := e ++ rest }) (hpool : s'.pool = s.pool ++ newp) (hlog : s'.log = newlog ++ s.log)
    (hst : Stat cat e)
    (hjs : JS cat (op :: rest) → (∀ c, SN cat c rest) → JS cat (e ++ rest))
    (hidle : Idle (op :: rest) → e = [] ∧ newp = [])
    (hnd : Act.done ∈ newlog → op = .act .done)
    (hdone : op = .act .done → e = [] ∧ newp = [])
    (hval : ∀ b, s'.val (.blk b) ≤ s.val (.blk b) ∨ ∃ n, op = .reserve (.blk b) n)
    (haw : ∀ c, op = .await c → s.val c = 0 ∧ e = [] ∧ newp = []) : Inv2 cat s' := by
  have hm : a ∈ s.acts := List.mem_of_getElem? hi
  have hsn : ∀ c, SN cat c rest := fun c => by have := h1.sn a hm c; rw [ho] at this; exact this.2
  have hilt : i < s.acts.length := by
    rcases Nat.lt_or_ge i s.acts.length with h | h
    · exact h
    · rw [List.getElem?_eq_none h] at hi; cases hi
  have hnew : s'.acts[i]? = some { a with ops := e ++ rest } := by rw [hacts, List.getElem?_set_self hilt]
  obtain ⟨hra, har⟩ := h2.aok a hm
  rw [ho] at hra har
  refine ⟨?_, ?_, ?_⟩
  · -- aok
    intro a' ha'
    rw [hacts] at ha'
    rcases List.mem_or_eq_of_mem_set ha' with h | h
    · exact h2.aok a' h
    · subst h
      exact ⟨RA.append hst.ra hra.2, AR.append hst.ar har.2 (hst.sn .root) (hsn .root)⟩
  · -- chain
    intro b hb
    rcases hval b with hle | ⟨n, hn⟩
    · obtain ⟨j, a0, hj, hmem⟩ := h2.chain b (by omega)
      by_cases hji : j = i
      · subst hji
        rw [hi] at hj
        cases hj
        rw [ho] at hmem
        rcases List.mem_cons.1 hmem with h | h
        · have := (haw _ h.symm).1
          omega
        · exact ⟨j, _, hnew, List.mem_append_right _ h⟩
      · exact ⟨j, a0, by rw [hacts, List.getElem?_set_ne (fun h => hji h.symm)]; exact hj, hmem⟩
    · exact ⟨i, _, hnew, List.mem_append_right _ (hra.1 b n hn)⟩
  · -- the calling thread and the others
    obtain ⟨m, others, hm0, hshape, hoth, hq, hd⟩ := h2.main
    cases i with
    | zero =>
      -- the calling thread steps
      have ham : a = m := by rw [hm0] at hi; simpa using hi.symm
      subst ham
      refine ⟨{ a with ops := e ++ rest }, others, by rw [hacts, hm0]; rfl, ?_, hoth, ?_, ?_⟩
      · rcases hshape with ⟨q, hq1, hq2⟩ | h | h
        · cases q with
          | nil =>
            simp only [List.nil_append] at hq1
            rw [ho] at hq1
            injection hq1 with e1 e2
            obtain ⟨_, he, _⟩ := haw .root e1
            right; left
            show e ++ rest = _
            rw [he, e2]; rfl
          | cons o q' =>
            rw [ho] at hq1
            injection hq1 with e1 e2
            left
            refine ⟨e ++ q', by show e ++ rest = _; rw [e2]; simp, ?_⟩
            intro hmem
            rcases List.mem_append.1 hmem with h | h
            · exact hst.nd h
            · exact hq2 (List.mem_cons_of_mem _ h)
        · rw [ho] at h
          injection h with e1 e2
          right; right
          show e ++ rest = _
          rw [(hdone e1).1, e2]; rfl
        · rw [ho] at h; cases h
      · intro hfin
        have hfin' : e ++ rest = [.act .done] ∨ e ++ rest = [] := hfin
        rw [hpool]
        rcases hshape with ⟨q, hq1, hq2⟩ | h | h
        · cases q with
          | nil =>
            simp only [List.nil_append] at hq1
            rw [ho] at hq1
            injection hq1 with e1 e2
            obtain ⟨hv, _, hnp⟩ := haw .root e1
            obtain ⟨z1, z2⟩ := zero_of_root_zero h1 h2 hv
            refine ⟨by rw [z1, hnp]; rfl, fun a' ha' => ?_⟩
            have hma : a' ∈ s.acts := by rw [hm0]; exact List.mem_cons_of_mem _ ha'
            exact idle_of_weightless (hoth a' ha').1 (z2 a' hma)
          | cons o q' =>
            rw [ho] at hq1
            injection hq1 with e1 e2
            exfalso
            have hl : (e ++ rest).length ≥ 2 := by rw [e2]; simp; omega
            rcases hfin' with h | h <;> rw [h] at hl <;> simp at hl
        · rw [ho] at h
          injection h with e1 e2
          obtain ⟨q1, q2⟩ := hq (Or.inl (by rw [ho, e1, e2]))
          exact ⟨by rw [q1, (hdone e1).2]; rfl, q2⟩
        · rw [ho] at h; cases h
      · intro hdn
        rw [hlog] at hdn
        show e ++ rest = []
        rcases List.mem_append.1 hdn with h | h
        · have e1 := hnd h
          rcases hshape with ⟨q, hq1, hq2⟩ | h' | h'
          · exfalso
            cases q with
            | nil => simp only [List.nil_append] at hq1; rw [ho, e1] at hq1; cases hq1
            | cons o q' =>
              rw [ho] at hq1
              injection hq1 with e3 e4
              exact hq2 (by rw [← e3, e1]; exact List.mem_cons_self)
          · rw [ho] at h'
            injection h' with _ e2
            rw [(hdone e1).1, e2]; rfl
          · rw [ho] at h'; cases h'
        · have := hd h
          rw [ho] at this; cases this
    | succ j =>
      have haj : others[j]? = some a := by rw [hm0] at hi; simpa using hi
      have hao : a ∈ others := List.mem_of_getElem? haj
      obtain ⟨hjs0, hnd0⟩ := hoth a hao
      rw [ho] at hjs0 hnd0
      have hopnd : op ≠ .act .done := fun h => hnd0 (by rw [h]; exact List.mem_cons_self)
      refine ⟨m, others.set j { a with ops := e ++ rest }, by rw [hacts, hm0]; rfl, hshape, ?_, ?_, ?_⟩
      · intro a' ha'
        rcases List.mem_or_eq_of_mem_set ha' with h | h
        · exact hoth a' h
        · subst h
          refine ⟨hjs hjs0 hsn, fun hmem => ?_⟩
          rcases List.mem_append.1 hmem with h | h
          · exact hst.nd h
          · exact hnd0 (List.mem_cons_of_mem _ h)
      · intro hfin
        obtain ⟨q1, q2⟩ := hq hfin
        have hid := q2 a hao
        rw [ho] at hid
        obtain ⟨he, hnp⟩ := hidle hid
        refine ⟨by rw [hpool, q1, hnp]; rfl, fun a' ha' => ?_⟩
        rcases List.mem_or_eq_of_mem_set ha' with h | h
        · exact q2 a' h
        · subst h
          show Idle (e ++ rest)
          rw [he]; exact hid.tail
      · intro hdn
        rw [hlog] at hdn
        rcases List.mem_append.1 hdn with h | h
        · exact absurd (hnd h) hopnd
        · exact hd h

theorem inv2_exec (cfg : Cfg) {s : St} (h1 : Inv1 cfg.cat s) (h2 : Inv2 cfg.cat s) (ch : Choice) : Inv2 cfg.cat (exec cfg s ch) := by
  cases ch with
  | start j tid =>
    simp only [exec]
    split
    · rename_i t ht
      obtain ⟨m, others, hm0, hshape, hoth, hq, hd⟩ := h2.main
      refine ⟨?_, ?_, ?_⟩
      · intro a ha
        rcases List.mem_append.1 ha with h | h
        · exact h2.aok a h
        · simp only [List.mem_singleton] at h; subst h
          exact ⟨(stat_code cfg.cat t).ra, (stat_code cfg.cat t).ar⟩
      · intro b hb
        obtain ⟨j', a0, hj, hmem⟩ := h2.chain b hb
        refine ⟨j', a0, ?_, hmem⟩
        have hlt : j' < s.acts.length := by
          rcases Nat.lt_or_ge j' s.acts.length with h | h
          · exact h
          · rw [List.getElem?_eq_none h] at hj; cases hj
        show (s.acts ++ [_])[j']? = some a0
        rw [List.getElem?_append_left hlt]; exact hj
      · refine ⟨m, others ++ [{ tid := tid, ops := code t }], by show s.acts ++ [_] = _; rw [hm0]; rfl, hshape, ?_, ?_, hd⟩
        · intro a ha
          rcases List.mem_append.1 ha with h | h
          · exact hoth a h
          · simp only [List.mem_singleton] at h; subst h
            exact ⟨js_code cfg.cat t, (stat_code cfg.cat t).nd⟩
        · intro hfin
          have := (hq hfin).1
          rw [this] at ht
          simp at ht
    · exact h2
  | step i =>
    simp only [exec]
    split
    · rename_i a hi
      split
      · rename_i op rest ho
        have hplain : ∀ (s' : St) (newp : List Task) (newlog : List Act), s'.acts = s.acts.set i { a with ops := rest } → s'.pool = s.pool ++ newp →
            s'.log = newlog ++ s.log → (Idle (op :: rest) → newp = []) → (Act.done ∈ newlog → op = .act .done) → (op = .act .done → newp = []) →
            (∀ b, s'.val (.blk b) ≤ s.val (.blk b) ∨ ∃ n, op = .reserve (.blk b) n) → (∀ c, op = .await c → s.val c = 0 ∧ newp = []) →
            Inv2 cfg.cat s' := by
          intro s' newp newlog e1 e2 e3 e4 e5 e6 e7 e8
          exact inv2_step h1 h2 i a op rest [] newp newlog hi ho (by simpa using e1) e2 e3 (Stat.nil _) (fun hj _ => hj.tail)
            (fun hid => ⟨rfl, e4 hid⟩) e5 (fun h => ⟨rfl, e6 h⟩) e7 (fun c h => ⟨(e8 c h).1, rfl, (e8 c h).2⟩)
        have hmacro : ∀ (s' : St) (e : List Op) (newlog : List Act), s'.acts = s.acts.set i { a with ops := e ++ rest } → s'.pool = s.pool →
            s'.log = newlog ++ s.log → Stat cfg.cat e → JS cfg.cat e → (∀ b j x, op ≠ .act (.destroy b j x)) → Act.done ∉ newlog → op ≠ .act .done →
            (∀ b, s'.val (.blk b) = s.val (.blk b)) → (∀ c, op ≠ .await c) → Inv2 cfg.cat s' := by
          intro s' e newlog e1 e2 e3 e4 e5 e6 e7 e8 e9 e10
          exact inv2_step h1 h2 i a op rest e [] newlog hi ho e1 (by simpa using e2) e3 e4 (fun hj hsn => JS.append e5 hj.tail hsn)
            (fun hid => absurd hid (not_idle_cons e6)) (fun h => absurd h e7) (fun h => absurd h e8) (fun b => Or.inl (by rw [e9 b]; exact Nat.le_refl _))
            (fun c h => absurd h (e10 c))
        cases op with
        | reserve c' n =>
          obtain ⟨f1, f2, _, f4, _⟩ := reserve_frame s c' n
          refine hplain _ [] [] (by simp [stepOp, setOps, f2]) (by simp [stepOp, setOps, f1]) (by simp [stepOp, setOps, f4]) (fun _ => rfl)
            (fun h => by cases h) (fun _ => rfl) (fun b => ?_) (fun c h => by cases h)
          rcases val_blk_reserve s c' n b with h | h
          · left; show (s.reserve c' n).val (.blk b) ≤ _; rw [h]; exact Nat.le_refl _
          · right; exact ⟨n, by rw [h]⟩
        | release c' =>
          obtain ⟨f1, f2, f3, _⟩ := release_frame s c'
          exact hplain _ [] [] (by simp [stepOp, setOps, f2]) (by simp [stepOp, setOps, f1]) (by simp [stepOp, setOps, f3]) (fun _ => rfl)
            (fun h => by cases h) (fun _ => rfl) (fun b => Or.inl (val_blk_release_le s c' b)) (fun c h => by cases h)
        | spawn t =>
          exact hplain _ [t] [.spawn t] (by simp [stepOp, setOps]) rfl rfl (fun hid => absurd hid (not_idle_cons (fun _ _ _ h => by cases h)))
            (fun h => by simp at h) (fun h => by cases h) (fun b => Or.inl (Nat.le_refl _)) (fun c h => by cases h)
        | await c' =>
          simp only [stepOp]
          split
          · rename_i hv
            exact hplain _ [] [.pass c'] (by simp [setOps]) (by simp [setOps]) rfl (fun _ => rfl) (fun h => by simp at h) (fun _ => rfl)
              (fun b => Or.inl (Nat.le_refl _)) (fun c h => by cases h; exact ⟨hv, rfl⟩)
          · exact h2
        | act x =>
          exact hplain _ [] [x] (by simp [stepOp, setOps]) (by simp [stepOp, setOps]) rfl (fun _ => rfl)
            (fun h => by simp only [List.mem_singleton] at h; rw [h]) (fun _ => rfl) (fun b => Or.inl (Nat.le_refl _)) (fun c h => by cases h)
        | body x src =>
          refine inv2_step h1 h2 i a _ rest (feedOps a.tid (cfg.feeds x) ++ [.act (.bodyE x src)]) [] [.bodyS x src] hi ho
            (by simp [stepOp, setOps]) (by simp [stepOp, setOps]) rfl (stat_body _ _ _ _ _) ?_
            (fun hid => absurd hid (not_idle_cons (fun _ _ _ h => by cases h))) (fun h => by simp at h) (fun h => by cases h)
            (fun b => Or.inl (Nat.le_refl _)) (fun c h => by cases h)
          intro hj hsn
          refine JS.append_live (stat_body _ _ _ _ _).sn hj.tail ?_
          rcases hj.head with h | ⟨c, hc⟩
          · exact absurd h (not_idle_cons (fun _ _ _ h => by cases h))
          · exact ⟨c, by rw [W_cons] at hc; simpa [w] using hc⟩
        | rootExec =>
          simp only [stepOp]
          split
          · refine hmacro _ (pforOps cfg s.blk.length cfg.chunks ++ [.await (.blk s.blk.length), .release .root]) [.pfor s.blk.length]
              (by simp [setOps]) rfl rfl (stat_pfor cfg _) (js_pfor cfg _) (fun _ _ _ h => by cases h) (by simp) (fun h => by cases h)
              (fun b => ?_) (fun c h => by cases h)
            exact val_blk_alloc s (.blk b)
          · split
            · refine hmacro _ [.reserve .root 1, .rootLoop s.blk.length s.iter []] [.cmp s.iter]
                (by simp [setOps]) rfl rfl ?_ ?_ (fun _ _ _ h => by cases h) (by simp) (fun h => by cases h)
                (fun b => val_blk_alloc s (.blk b)) (fun c h => by cases h)
              · refine Stat.simple _ (fun c => ?_) ?_
                · rename_i hcat _
                  simp only [SN, W_cons, W_nil, w, hcat]; refine ⟨?_, ?_, trivial⟩ <;> split <;> simp
                · intro o ho'
                  simp only [List.mem_cons, List.not_mem_nil, or_false] at ho'
                  rcases ho' with rfl | rfl <;> simp
              · rename_i hcat _
                exact JS_close cfg.cat .root (.rootLoop s.blk.length s.iter []) [] (by simp [w, hcat]) Idle.nil [.reserve .root 1]
                  (by simp [SNge, W_cons, w, hcat])
            · refine hmacro _ [.release .root] [.cmp s.iter] (by simp [setOps]) rfl rfl ?_ ?_ (fun _ _ _ h => by cases h) (by simp)
                (fun h => by cases h) (fun b => rfl) (fun c h => by cases h)
              · refine Stat.simple _ (fun c => ?_) ?_
                · simp only [SN, W_cons, W_nil, w]; refine ⟨?_, trivial⟩; split <;> omega
                · intro o ho'; simp only [List.mem_singleton] at ho'; subst ho'; simp
              · exact JS_close cfg.cat .root (.release .root) [] (by simp [w]) Idle.nil [] trivial
          · split
            · refine hmacro _ [.rootLoop s.blk.length s.iter []] [.cmp s.iter]
                (by simp [setOps]) rfl rfl ?_ ?_ (fun _ _ _ h => by cases h) (by simp) (fun h => by cases h)
                (fun b => val_blk_alloc s (.blk b)) (fun c h => by cases h)
              · refine Stat.simple _ (fun c => ?_) ?_
                · rename_i hcat _
                  simp only [SN, W_cons, W_nil, w, hcat]; refine ⟨?_, trivial⟩; split <;> simp
                · intro o ho'; simp only [List.mem_singleton] at ho'; subst ho'; simp
              · rename_i hcat _
                exact JS_close cfg.cat .root (.rootLoop s.blk.length s.iter []) [] (by simp [w, hcat]) Idle.nil [] trivial
            · refine hmacro _ [.release .root] [.cmp s.iter] (by simp [setOps]) rfl rfl ?_ ?_ (fun _ _ _ h => by cases h) (by simp)
                (fun h => by cases h) (fun b => rfl) (fun c h => by cases h)
              · refine Stat.simple _ (fun c => ?_) ?_
                · simp only [SN, W_cons, W_nil, w]; refine ⟨?_, trivial⟩; split <;> omega
                · intro o ho'; simp only [List.mem_singleton] at ho'; subst ho'; simp
              · exact JS_close cfg.cat .root (.release .root) [] (by simp [w]) Idle.nil [] trivial
        | rootLoop b k0 items =>
          have hexit : Inv2 cfg.cat (setOps { s with log := .block b k0 items.length :: s.log } i a (loopExit cfg.cat b k0 items ++ rest)) := by
            refine hmacro _ (loopExit cfg.cat b k0 items) [.block b k0 items.length] (by simp [setOps]) rfl rfl
              (stat_loopExit _ _ _ _) (js_loopExit _ _ _ _) (fun _ _ _ h => by cases h) (by simp) (fun h => by cases h) (fun b => rfl) (fun c h => by cases h)
          simp only [stepOp]
          split
          · split
            · rename_i x hx hlt
              refine hmacro _ [.rootLoop b k0 (items ++ [x])] (if cfg.cat = .input then [Act.inc s.iter, .copy b items.length x, .deref s.iter] else [Act.inc s.iter])
                (by simp [setOps]) rfl rfl ?_ ?_ (fun _ _ _ h => by cases h) (by split <;> simp) (fun h => by cases h) (fun b => rfl) (fun c h => by cases h)
              · refine Stat.simple _ (fun c => ?_) ?_
                · simp only [SN, W_cons, W_nil, w]; refine ⟨?_, trivial⟩; split <;> (try split) <;> omega
                · intro o ho'; simp only [List.mem_singleton] at ho'; subst ho'; simp
              · refine JS_close cfg.cat .root (.rootLoop b k0 (items ++ [x])) [] ?_ Idle.nil [] trivial
                simp only [w, if_true]; split <;> omega
            · exact hexit
          · exact hexit
        | subExec f1 f2 f3 =>
          exact hmacro _ [.spawn (.inv f3 (.kid s.kid.length)), .spawn (.inv f2 (.kid s.kid.length)), .act (.callS f1), .act (.callE f1), .release (.kid s.kid.length)]
            [.arm s.kid.length] (by simp [stepOp, setOps]) rfl rfl (stat_subExec _ _ _ _ _) (js_subExec _ _ _ _ _)
            (fun _ _ _ h => by cases h) (by simp) (fun h => by cases h) (fun b => rfl) (fun c h => by cases h)
      · exact h2
    · exact h2

end TbbVerif.C05.Each
