/-
C05 — legal split trees: the generic (Range-concept level) theory.

`SplitTree ops r L`: `L` is the left-to-right leaf sequence of a binary tree rooted at `r` whose every inner
node is a *divisible* range cut by the splitting constructor `R(r, split)` or by
`R(r, proportional_split(l, rt))` with a legal proportion.  `Leaves` forgets the order.
Under the semantic laws of a range type (`RangeSem`), the leaves of such a tree are non-empty and every
point of the root lies in exactly one leaf (and points outside lie in none).
-/
import TbbVerif.Model.C05

namespace TbbVerif.C05

/-- proportions `get_split` can produce: `right = n/2`, `left = n - n/2` for `2 ≤ n < 2^24` -/
def PropOK (l r : Nat) : Prop := 1 ≤ r ∧ r ≤ l ∧ l ≤ r + 1 ∧ l + r < 2 ^ 24

instance (l r : Nat) : Decidable (PropOK l r) := by unfold PropOK; infer_instance

theorem propOK_of_n (n : Nat) (h2 : 2 ≤ n) (hn : n < 2 ^ 24) : PropOK (n - n / 2) (n / 2) := by
  unfold PropOK; omega

section
variable {R : Type}

inductive SplitTree (ops : RangeOps R) : R → List R → Prop
  | leaf (r : R) : SplitTree ops r [r]
  | node (r a b : R) (L1 L2 : List R) : ops.divisible r = true → ops.split r = (a, b) →
      SplitTree ops a L1 → SplitTree ops b L2 → SplitTree ops r (L1 ++ L2)
  | pnode (r : R) (l rt : Nat) (a b : R) (L1 L2 : List R) : ops.divisible r = true → PropOK l rt →
      ops.psplit r l rt = some (a, b) → SplitTree ops a L1 → SplitTree ops b L2 → SplitTree ops r (L1 ++ L2)

/-- `L` is, up to order, the leaf set of a legal split tree of `r` -/
def Leaves (ops : RangeOps R) (r : R) (L : List R) : Prop := ∃ L', SplitTree ops r L' ∧ L'.Perm L

variable {ops : RangeOps R}

private theorem perm_split_left {x : R} {L1 L2 M s t : List R} (e : L1 = s ++ x :: t)
    (hp : (L1 ++ L2).Perm (x :: M)) : M.Perm ((s ++ t) ++ L2) := by
  subst e
  have h1 : ((s ++ x :: t) ++ L2).Perm (x :: ((s ++ t) ++ L2)) := by
    have : (s ++ x :: t).Perm (x :: (s ++ t)) := List.perm_middle
    simpa using this.append_right L2
  exact (hp.symm.trans h1).cons_inv

private theorem perm_split_right {x : R} {L1 L2 M s t : List R} (e : L2 = s ++ x :: t)
    (hp : (L1 ++ L2).Perm (x :: M)) : M.Perm (L1 ++ (s ++ t)) := by
  subst e
  have h1 : (L1 ++ (s ++ x :: t)).Perm (x :: (L1 ++ (s ++ t))) := by
    have : (L1 ++ (s ++ x :: t)) = (L1 ++ s) ++ x :: t := by simp
    rw [this]
    have h2 : ((L1 ++ s) ++ x :: t).Perm (x :: ((L1 ++ s) ++ t)) := List.perm_middle
    simpa using h2
  exact (hp.symm.trans h1).cons_inv

/-- replace a leaf by a whole subtree -/
theorem SplitTree.graft {r x : R} {L Lx : List R} (h : SplitTree ops r L) (hx : SplitTree ops x Lx) :
    ∀ M, L.Perm (x :: M) → ∃ L', SplitTree ops r L' ∧ L'.Perm (Lx ++ M) := by
  induction h with
  | leaf r =>
    intro M hp
    have hl := hp.length_eq
    have hM : M = [] := by
      cases M with
      | nil => rfl
      | cons _ _ => simp at hl
    subst hM
    have : r = x := by
      have := hp.mem_iff (a := r)
      simp at this
      exact this
    subst this
    exact ⟨Lx, hx, by simp⟩
  | node r a b L1 L2 hd hs _ _ ih1 ih2 =>
    intro M hp
    have hmem : x ∈ L1 ++ L2 := (hp.mem_iff).2 (List.mem_cons_self)
    rcases List.mem_append.1 hmem with h1 | h2
    · obtain ⟨s, t, e⟩ := List.append_of_mem h1
      have hM := perm_split_left e hp
      obtain ⟨L1', t1, p1⟩ := ih1 (s ++ t) (by rw [e]; exact List.perm_middle)
      refine ⟨L1' ++ L2, SplitTree.node r a b L1' L2 hd hs t1 ‹_›, ?_⟩
      have : (L1' ++ L2).Perm ((Lx ++ (s ++ t)) ++ L2) := p1.append_right L2
      refine this.trans ?_
      rw [List.append_assoc]
      exact List.Perm.append_left Lx hM.symm
    · obtain ⟨s, t, e⟩ := List.append_of_mem h2
      have hM := perm_split_right e hp
      obtain ⟨L2', t2, p2⟩ := ih2 (s ++ t) (by rw [e]; exact List.perm_middle)
      refine ⟨L1 ++ L2', SplitTree.node r a b L1 L2' hd hs ‹_› t2, ?_⟩
      have h3 : (L1 ++ L2').Perm (L1 ++ (Lx ++ (s ++ t))) := p2.append_left L1
      refine h3.trans ?_
      have h4 : (L1 ++ (Lx ++ (s ++ t))).Perm (Lx ++ (L1 ++ (s ++ t))) := by
        have h5 := (List.perm_append_comm : (L1 ++ Lx).Perm (Lx ++ L1)).append_right (s ++ t)
        simpa [List.append_assoc] using h5
      exact h4.trans (List.Perm.append_left Lx hM.symm)
  | pnode r l rt a b L1 L2 hd hok hs _ _ ih1 ih2 =>
    intro M hp
    have hmem : x ∈ L1 ++ L2 := (hp.mem_iff).2 (List.mem_cons_self)
    rcases List.mem_append.1 hmem with h1 | h2
    · obtain ⟨s, t, e⟩ := List.append_of_mem h1
      have hM := perm_split_left e hp
      obtain ⟨L1', t1, p1⟩ := ih1 (s ++ t) (by rw [e]; exact List.perm_middle)
      refine ⟨L1' ++ L2, SplitTree.pnode r l rt a b L1' L2 hd hok hs t1 ‹_›, ?_⟩
      have : (L1' ++ L2).Perm ((Lx ++ (s ++ t)) ++ L2) := p1.append_right L2
      refine this.trans ?_
      rw [List.append_assoc]
      exact List.Perm.append_left Lx hM.symm
    · obtain ⟨s, t, e⟩ := List.append_of_mem h2
      have hM := perm_split_right e hp
      obtain ⟨L2', t2, p2⟩ := ih2 (s ++ t) (by rw [e]; exact List.perm_middle)
      refine ⟨L1 ++ L2', SplitTree.pnode r l rt a b L1 L2' hd hok hs ‹_› t2, ?_⟩
      have h3 : (L1 ++ L2').Perm (L1 ++ (Lx ++ (s ++ t))) := p2.append_left L1
      refine h3.trans ?_
      have h4 : (L1 ++ (Lx ++ (s ++ t))).Perm (Lx ++ (L1 ++ (s ++ t))) := by
        have h5 := (List.perm_append_comm : (L1 ++ Lx).Perm (Lx ++ L1)).append_right (s ++ t)
        simpa [List.append_assoc] using h5
      exact h4.trans (List.Perm.append_left Lx hM.symm)

theorem Leaves.refl (r : R) : Leaves ops r [r] := ⟨[r], SplitTree.leaf r, List.Perm.refl _⟩

theorem Leaves.perm {r : R} {L L' : List R} (h : Leaves ops r L) (hp : L.Perm L') : Leaves ops r L' := by
  obtain ⟨T, t, p⟩ := h
  exact ⟨T, t, p.trans hp⟩

theorem Leaves.graft {r x : R} {M Lx : List R} (h : Leaves ops r (x :: M)) (hx : Leaves ops x Lx) :
    Leaves ops r (Lx ++ M) := by
  obtain ⟨T, t, p⟩ := h
  obtain ⟨Tx, tx, px⟩ := hx
  obtain ⟨L', t', p'⟩ := t.graft tx M p
  exact ⟨L', t', p'.trans (px.append_right M)⟩

theorem Leaves.split {r x a b : R} {M : List R} (h : Leaves ops r (x :: M)) (hd : ops.divisible x = true)
    (hs : ops.split x = (a, b)) : Leaves ops r (a :: b :: M) := by
  have : Leaves ops x [a, b] :=
    ⟨[a] ++ [b], SplitTree.node x a b [a] [b] hd hs (SplitTree.leaf a) (SplitTree.leaf b), by simp⟩
  simpa using h.graft this

theorem Leaves.psplit {r x a b : R} {l rt : Nat} {M : List R} (h : Leaves ops r (x :: M))
    (hd : ops.divisible x = true) (hok : PropOK l rt) (hs : ops.psplit x l rt = some (a, b)) :
    Leaves ops r (a :: b :: M) := by
  have : Leaves ops x [a, b] :=
    ⟨[a] ++ [b], SplitTree.pnode x l rt a b [a] [b] hd hok hs (SplitTree.leaf a) (SplitTree.leaf b), by simp⟩
  simpa using h.graft this

end

/-! ## Semantics of a range type -/

/-- What the partitioners need from a Range type, as laws about its points. -/
structure RangeSem {R : Type} (ops : RangeOps R) where
  Pt : Type
  /-- the point `p` belongs to the range -/
  memb : Pt → R → Bool
  /-- well-formed (begin ≤ end, grain ≥ 1, arithmetic stays in the exactly-representable regime) -/
  WF : R → Prop
  empty_no_mem : ∀ r p, WF r → ops.isEmpty r = true → memb p r = false
  split_ok : ∀ r a b, WF r → ops.isEmpty r = false → ops.divisible r = true → ops.split r = (a, b) →
    WF a ∧ WF b ∧ ops.isEmpty a = false ∧ ops.isEmpty b = false ∧
    ∀ p, (memb p a).toNat + (memb p b).toNat = (memb p r).toNat
  psplit_ok : ∀ r l rt a b, WF r → ops.isEmpty r = false → ops.divisible r = true → PropOK l rt →
    ops.psplit r l rt = some (a, b) →
    WF a ∧ WF b ∧ ops.isEmpty a = false ∧ ops.isEmpty b = false ∧
    ∀ p, (memb p a).toNat + (memb p b).toNat = (memb p r).toNat

section
variable {R : Type} {ops : RangeOps R} (S : RangeSem ops)

def RangeSem.Good (r : R) : Prop := S.WF r ∧ ops.isEmpty r = false

theorem SplitTree.sound {r : R} {L : List R} (h : SplitTree ops r L) (hg : S.Good r) :
    (∀ x ∈ L, S.Good x) ∧ ∀ p, L.countP (S.memb p) = (S.memb p r).toNat := by
  induction h with
  | leaf r =>
    refine ⟨by simpa using hg, fun p => ?_⟩
    cases h : S.memb p r <;> simp [h]
  | node r a b L1 L2 hd hs _ _ ih1 ih2 =>
    obtain ⟨wa, wb, ea, eb, hm⟩ := S.split_ok r a b hg.1 hg.2 hd hs
    obtain ⟨g1, c1⟩ := ih1 ⟨wa, ea⟩
    obtain ⟨g2, c2⟩ := ih2 ⟨wb, eb⟩
    refine ⟨fun x hx => ?_, fun p => ?_⟩
    · rcases List.mem_append.1 hx with h | h
      · exact g1 x h
      · exact g2 x h
    · rw [List.countP_append, c1, c2, hm]
  | pnode r l rt a b L1 L2 hd hok hs _ _ ih1 ih2 =>
    obtain ⟨wa, wb, ea, eb, hm⟩ := S.psplit_ok r l rt a b hg.1 hg.2 hd hok hs
    obtain ⟨g1, c1⟩ := ih1 ⟨wa, ea⟩
    obtain ⟨g2, c2⟩ := ih2 ⟨wb, eb⟩
    refine ⟨fun x hx => ?_, fun p => ?_⟩
    · rcases List.mem_append.1 hx with h | h
      · exact g1 x h
      · exact g2 x h
    · rw [List.countP_append, c1, c2, hm]

/-- The leaves of a legal split tree of a non-empty well-formed range: all non-empty and well-formed, and
every point is in exactly as many leaves as it is in the root (1 or 0). -/
theorem Leaves.sound {r : R} {L : List R} (h : Leaves ops r L) (hg : S.Good r) :
    (∀ x ∈ L, S.Good x) ∧ ∀ p, L.countP (S.memb p) = (S.memb p r).toNat := by
  obtain ⟨T, t, p⟩ := h
  obtain ⟨g, c⟩ := t.sound S hg
  exact ⟨fun x hx => g x ((p.mem_iff).2 hx), fun q => by rw [← p.countP_eq, c q]⟩

/-- An indivisible range has exactly one legal split tree: itself. -/
theorem SplitTree.indivisible {r : R} {L : List R} (h : SplitTree ops r L) (hd : ops.divisible r = false) :
    L = [r] := by
  cases h with
  | leaf => rfl
  | node _ _ _ _ _ h => rw [hd] at h; cases h
  | pnode _ _ _ _ _ _ _ h => rw [hd] at h; cases h

theorem Leaves.indivisible {r : R} {L : List R} (h : Leaves ops r L) (hd : ops.divisible r = false) :
    L = [r] := by
  obtain ⟨T, t, p⟩ := h
  rw [t.indivisible hd] at p
  exact List.perm_singleton.1 p.symm |> fun h => h

end

end TbbVerif.C05
