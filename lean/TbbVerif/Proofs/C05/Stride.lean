/-
C05 — index form `parallel_for(first, last, step, f)`: the REGENERATED iteration-count expressions, guards and body-wrapper
index arithmetic (Generated/C05Stride.lean, one set per Index type) compute what the specification predicates of
Model/C05.lean ask for.  Core Lean only (omega, simp with side conditions discharged by omega).
-/
import TbbVerif.Model.C05
import TbbVerif.Generated.C05Stride

namespace TbbVerif.C05
open TbbVerif.Cint TbbVerif.Generated.C05Stride

/-! ### fixed-width conversions that do not change the value -/

theorem wrapS16_id {x : Int} (h1 : -32768 ≤ x) (h2 : x < 32768) : wrapS 16 x = x := by
  simp only [wrapS]; split <;> omega
theorem wrapS32_id {x : Int} (h1 : -2147483648 ≤ x) (h2 : x < 2147483648) : wrapS 32 x = x := by
  simp only [wrapS]; split <;> omega
theorem wrapS64_id {x : Int} (h1 : -9223372036854775808 ≤ x) (h2 : x < 9223372036854775808) : wrapS 64 x = x := by
  simp only [wrapS]; split <;> omega
theorem wrapU64_cast {x : Int} (h1 : 0 ≤ x) (h2 : x < 18446744073709551616) : ((wrapU 64 x : Nat) : Int) = x := by
  simp only [wrapU]; omega
theorem wrapU16_sub {a b : Nat} (h1 : b ≤ a) (h2 : a - b < 65536) : wrapU 16 ((a : Int) - (b : Int)) = a - b := by
  simp only [wrapU]; omega
theorem wrapU32_sub {a b : Nat} (h1 : b ≤ a) (h2 : a - b < 4294967296) : wrapU 32 ((a : Int) - (b : Int)) = a - b := by
  simp only [wrapU]; omega
theorem wrapU64_sub {a b : Nat} (h1 : b ≤ a) (h2 : a - b < 18446744073709551616) : wrapU 64 ((a : Int) - (b : Int)) = a - b := by
  simp only [wrapU]; omega
theorem wrapU16_nat {x : Nat} (h : x < 65536) : wrapU 16 (x : Int) = x := by
  simp only [wrapU]; omega
theorem wrapU32_nat {x : Nat} (h : x < 4294967296) : wrapU 32 (x : Int) = x := by
  simp only [wrapU]; omega
theorem wrapU64_nat {x : Nat} (h : x < 18446744073709551616) : wrapU 64 (x : Int) = x := by
  simp only [wrapU]; omega
/-- an `Int` that is the cast of a small `Nat`, narrowed to `unsigned short` -/
theorem wrapU16_of_eq {y : Int} {m : Nat} (h : y = (m : Int)) (hm : m < 65536) : wrapU 16 y = m := by
  subst h; exact wrapU16_nat hm

/-! ### arithmetic facts about `q = (d - 1) / s` -/

theorem idiv_bounds {d s : Int} (hd : 1 ≤ d) (hs : 0 < s) : 0 ≤ (d - 1) / s ∧ (d - 1) / s ≤ d - 1 :=
  ⟨Int.ediv_nonneg (by omega) (by omega), Int.ediv_le_self _ (by omega)⟩

theorem ndiv_bounds (d s : Nat) : (d - 1) / s ≤ d - 1 := Nat.div_le_self _ _

/-- `c = (d-1)/s + 1` is `⌈d/s⌉`: `(c-1)·s < d ≤ c·s` -/
theorem iceil_spec {d s : Int} (hd : 1 ≤ d) (hs : 0 < s) :
    ((d - 1) / s + 1 - 1) * s < d ∧ d ≤ ((d - 1) / s + 1) * s := by
  have h1 := Int.ediv_mul_le (d - 1) (b := s) (by omega)
  have h2 := Int.lt_ediv_add_one_mul_self (d - 1) hs
  have e : (d - 1) / s + 1 - 1 = (d - 1) / s := by omega
  rw [e]
  omega

theorem nceil_spec {d s : Nat} (hd : 1 ≤ d) (hs : 0 < s) :
    ((d - 1) / s + 1 - 1) * s < d ∧ d ≤ ((d - 1) / s + 1) * s := by
  have h1 := Nat.div_mul_le_self (d - 1) s
  have h2 := Nat.lt_div_mul_add (a := d - 1) hs
  rw [Nat.add_sub_cancel, Nat.add_mul, Nat.one_mul]
  generalize (d - 1) / s * s = m at h1 h2 ⊢
  omega

/-- the ceiling is unique -/
theorem nceil_unique {d s c c' : Nat} (hs : 0 < s) (h1 : (c - 1) * s < d) (h2 : d ≤ c * s) (h1' : (c' - 1) * s < d) (h2' : d ≤ c' * s)
    (hc : 0 < c) (hc' : 0 < c') : c = c' := by
  rcases Nat.lt_trichotomy c c' with h | h | h
  · exfalso
    have : c * s ≤ (c' - 1) * s := Nat.mul_le_mul_right s (by omega)
    omega
  · exact h
  · exfalso
    have : c' * s ≤ (c - 1) * s := Nat.mul_le_mul_right s (by omega)
    omega

/-- iterations `k < c` stay inside the extent: `0 ≤ k·s < d` -/
theorem imul_bound {k c s d : Int} (hk0 : 0 ≤ k) (hk : k < c) (hs : 0 < s) (hc : (c - 1) * s < d) : 0 ≤ k * s ∧ k * s < d := by
  have h1 : k * s ≤ (c - 1) * s := Int.mul_le_mul_of_nonneg_right (by omega) (by omega)
  have h2 : 0 ≤ k * s := Int.mul_nonneg hk0 (by omega)
  omega

theorem nmul_bound {k c s d : Nat} (hk : k < c) (hc : (c - 1) * s < d) : k * s < d := by
  have h1 : k * s ≤ (c - 1) * s := Nat.mul_le_mul_right s (by omega)
  omega

theorem isucc_mul (b : Int) (j : Nat) (s : Int) : (b + ((j + 1 : Nat) : Int)) * s = (b + (j : Int)) * s + s := by
  have : b + ((j + 1 : Nat) : Int) = (b + (j : Int)) + 1 := by omega
  rw [this, Int.add_mul, Int.one_mul]

theorem nsucc_mul (b j s : Nat) : (b + (j + 1)) * s = (b + j) * s + s := by
  rw [← Nat.add_assoc, Nat.add_mul, Nat.one_mul]

/-! ### from "the expression equals `(d-1)/s + 1`" to the specification predicates -/

theorem countS_of_eq {half : Int} {cnt : Int → Int → Int → Int}
    (h : ∀ first last step, StrideArgsS half first last step → cnt first last step = (last - first - 1) / step + 1) :
    CountExactS half cnt := by
  intro first last step a
  rw [h first last step a]
  have hq := idiv_bounds (d := last - first) (s := step) (by have := a.lt; omega) a.sp
  have hc := iceil_spec (d := last - first) (s := step) (by have := a.lt; omega) a.sp
  have := a.ext
  exact ⟨by omega, by omega, hc.1, hc.2⟩

theorem countU_of_eq {top : Nat} {cnt : Nat → Nat → Nat → Nat}
    (h : ∀ first last step, StrideArgsU top first last step → cnt first last step = (last - first - 1) / step + 1) :
    CountExactU top cnt := by
  intro first last step a
  rw [h first last step a]
  have hq := ndiv_bounds (last - first) step
  have hc := nceil_spec (d := last - first) (s := step) (by have := a.lt; omega) a.sp
  have := a.hi
  have := a.lt
  refine ⟨Nat.succ_pos _, ?_, hc.1, hc.2⟩
  generalize (last - first - 1) / step = q at hq
  omega

/-! ### the regenerated count expressions equal `(last - first - 1) / step + 1` on admissible arguments

`stride_signed` / `stride_unsigned` remove every conversion and every wrap whose operand is provably in range (the side
conditions are linear facts about `first`, `last`, `step` and `q = (last - first - 1) / step`, discharged by `omega`).
With an expression whose intermediate value can leave the range (e.g. `last - first + step - 1`) a wrap stays and the
equality is not provable — it is false. -/

macro "stride_signed" : tactic =>
  `(tactic| simp (disch := omega) only [wrapS16_id, wrapS32_id, wrapS64_id, wrapU64_cast, Int.tdiv_eq_ediv_of_nonneg, Int.cast_ofNat_Int])

theorem cnt_i32_eq (first last step : Int) (a : StrideArgsS 2147483648 first last step) :
    cnt_i32 first last step = (last - first - 1) / step + 1 := by
  obtain ⟨h1, h2, h3, h4, h5, h6⟩ := a
  have hq := idiv_bounds (d := last - first) (s := step) (by omega) h5
  unfold cnt_i32
  stride_signed
theorem cntCtx_i32_eq (first last step : Int) (a : StrideArgsS 2147483648 first last step) :
    cntCtx_i32 first last step = (last - first - 1) / step + 1 := by
  obtain ⟨h1, h2, h3, h4, h5, h6⟩ := a
  have hq := idiv_bounds (d := last - first) (s := step) (by omega) h5
  unfold cntCtx_i32
  stride_signed
theorem cnt_i16_eq (first last step : Int) (a : StrideArgsS 32768 first last step) :
    cnt_i16 first last step = (last - first - 1) / step + 1 := by
  obtain ⟨h1, h2, h3, h4, h5, h6⟩ := a
  have hq := idiv_bounds (d := last - first) (s := step) (by omega) h5
  unfold cnt_i16
  stride_signed
theorem cntCtx_i16_eq (first last step : Int) (a : StrideArgsS 32768 first last step) :
    cntCtx_i16 first last step = (last - first - 1) / step + 1 := by
  obtain ⟨h1, h2, h3, h4, h5, h6⟩ := a
  have hq := idiv_bounds (d := last - first) (s := step) (by omega) h5
  unfold cntCtx_i16
  stride_signed
theorem cnt_i64_eq (first last step : Int) (a : StrideArgsS 9223372036854775808 first last step) :
    cnt_i64 first last step = (last - first - 1) / step + 1 := by
  obtain ⟨h1, h2, h3, h4, h5, h6⟩ := a
  have hq := idiv_bounds (d := last - first) (s := step) (by omega) h5
  unfold cnt_i64
  stride_signed
theorem cntCtx_i64_eq (first last step : Int) (a : StrideArgsS 9223372036854775808 first last step) :
    cntCtx_i64 first last step = (last - first - 1) / step + 1 := by
  obtain ⟨h1, h2, h3, h4, h5, h6⟩ := a
  have hq := idiv_bounds (d := last - first) (s := step) (by omega) h5
  unfold cntCtx_i64
  stride_signed

macro "stride_unsigned" : tactic =>
  `(tactic| simp (disch := omega) only [wrapU32_sub, wrapU64_sub, wrapU32_nat, wrapU64_nat, Nat.mod_eq_of_lt])

theorem cnt_u32_eq (first last step : Nat) (a : StrideArgsU 4294967296 first last step) :
    cnt_u32 first last step = (last - first - 1) / step + 1 := by
  obtain ⟨h1, h2, h3, h4⟩ := a
  have hq := ndiv_bounds (last - first) step
  unfold cnt_u32
  stride_unsigned
theorem cntCtx_u32_eq (first last step : Nat) (a : StrideArgsU 4294967296 first last step) :
    cntCtx_u32 first last step = (last - first - 1) / step + 1 := by
  obtain ⟨h1, h2, h3, h4⟩ := a
  have hq := ndiv_bounds (last - first) step
  unfold cntCtx_u32
  stride_unsigned
theorem cnt_u64_eq (first last step : Nat) (a : StrideArgsU 18446744073709551616 first last step) :
    cnt_u64 first last step = (last - first - 1) / step + 1 := by
  obtain ⟨h1, h2, h3, h4⟩ := a
  have hq := ndiv_bounds (last - first) step
  unfold cnt_u64
  stride_unsigned
theorem cntCtx_u64_eq (first last step : Nat) (a : StrideArgsU 18446744073709551616 first last step) :
    cntCtx_u64 first last step = (last - first - 1) / step + 1 := by
  obtain ⟨h1, h2, h3, h4⟩ := a
  have hq := ndiv_bounds (last - first) step
  unfold cntCtx_u64
  stride_unsigned

theorem u16_tail (x step : Nat) (hx : x < 65535) :
    wrapU 16 (wrapS 32 (wrapS 32 ((x : Int).tdiv (step : Int)) + 1)) = x / step + 1 := by
  have hq := Nat.div_le_self x step
  rw [Int.tdiv_eq_ediv_of_nonneg (by omega), ← Int.natCast_ediv]
  generalize x / step = q at hq ⊢
  simp (disch := omega) only [wrapS32_id]
  exact wrapU16_of_eq (by omega) (by omega)
theorem cnt_u16_eq (first last step : Nat) (a : StrideArgsU 65536 first last step) :
    cnt_u16 first last step = (last - first - 1) / step + 1 := by
  obtain ⟨h1, h2, h3, h4⟩ := a
  unfold cnt_u16
  simp (disch := omega) only [wrapS32_id, wrapU64_sub, wrapU16_nat]
  exact u16_tail _ _ (by omega)
theorem cntCtx_u16_eq (first last step : Nat) (a : StrideArgsU 65536 first last step) :
    cntCtx_u16 first last step = (last - first - 1) / step + 1 := by
  obtain ⟨h1, h2, h3, h4⟩ := a
  unfold cntCtx_u16
  simp (disch := omega) only [wrapS32_id]
  have e : ((last : Int) - (first : Int) - 1) = ((last - first - 1 : Nat) : Int) := by omega
  rw [e]
  exact u16_tail _ _ (by omega)

/-! ### guards -/

macro "stride_guards" : tactic =>
  `(tactic| (intros; constructor <;> exact decide_eq_decide.mpr (by omega)))

theorem guards_i16 : GuardsExactS 32768 stepBad_i16 nonEmpty_i16 ∧ GuardsExactS 32768 stepBadCtx_i16 nonEmptyCtx_i16 :=
  ⟨by unfold GuardsExactS stepBad_i16 nonEmpty_i16; stride_guards, by unfold GuardsExactS stepBadCtx_i16 nonEmptyCtx_i16; stride_guards⟩
theorem guards_i32 : GuardsExactS 2147483648 stepBad_i32 nonEmpty_i32 ∧ GuardsExactS 2147483648 stepBadCtx_i32 nonEmptyCtx_i32 :=
  ⟨by unfold GuardsExactS stepBad_i32 nonEmpty_i32; stride_guards, by unfold GuardsExactS stepBadCtx_i32 nonEmptyCtx_i32; stride_guards⟩
theorem guards_i64 : GuardsExactS 9223372036854775808 stepBad_i64 nonEmpty_i64 ∧ GuardsExactS 9223372036854775808 stepBadCtx_i64 nonEmptyCtx_i64 :=
  ⟨by unfold GuardsExactS stepBad_i64 nonEmpty_i64; stride_guards, by unfold GuardsExactS stepBadCtx_i64 nonEmptyCtx_i64; stride_guards⟩
theorem guards_u16 : GuardsExactU 65536 stepBad_u16 nonEmpty_u16 ∧ GuardsExactU 65536 stepBadCtx_u16 nonEmptyCtx_u16 :=
  ⟨by unfold GuardsExactU stepBad_u16 nonEmpty_u16; stride_guards, by unfold GuardsExactU stepBadCtx_u16 nonEmptyCtx_u16; stride_guards⟩
theorem guards_u32 : GuardsExactU 4294967296 stepBad_u32 nonEmpty_u32 ∧ GuardsExactU 4294967296 stepBadCtx_u32 nonEmptyCtx_u32 :=
  ⟨by unfold GuardsExactU stepBad_u32 nonEmpty_u32; stride_guards, by unfold GuardsExactU stepBadCtx_u32 nonEmptyCtx_u32; stride_guards⟩
theorem guards_u64 : GuardsExactU 18446744073709551616 stepBad_u64 nonEmpty_u64 ∧ GuardsExactU 18446744073709551616 stepBadCtx_u64 nonEmptyCtx_u64 :=
  ⟨by unfold GuardsExactU stepBad_u64 nonEmpty_u64; stride_guards, by unfold GuardsExactU stepBadCtx_u64 nonEmptyCtx_u64; stride_guards⟩

/-- the blocked_range starts at 0 for every Index type and both overloads -/
theorem range_begin_zero :
    rangeBegin_i16 = 0 ∧ rangeBeginCtx_i16 = 0 ∧ rangeBegin_u16 = 0 ∧ rangeBeginCtx_u16 = 0 ∧ rangeBegin_i32 = 0 ∧ rangeBeginCtx_i32 = 0 ∧
    rangeBegin_u32 = 0 ∧ rangeBeginCtx_u32 = 0 ∧ rangeBegin_i64 = 0 ∧ rangeBeginCtx_i64 = 0 ∧ rangeBegin_u64 = 0 ∧ rangeBeginCtx_u64 = 0 := by
  decide
