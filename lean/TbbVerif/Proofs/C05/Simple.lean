/-
C05 — simple_partitioner on blocked_range: chunk-size bounds ⌈g/2⌉ ≤ |chunk| ≤ g.
-/
import TbbVerif.Proofs.C05.Task
import TbbVerif.Proofs.C05.Range1

namespace TbbVerif.C05

section
variable {σ : Type} {E : Env σ}

/-- a well-formed range with grain `g` and at least `⌈g/2⌉` elements -/
def SzOK (g : Nat) (r : R1) : Prop := WF1 r ∧ r.g = g ∧ (g + 1) / 2 ≤ r.e - r.b

/-- what the bounds proof tracks about an event: its range is big enough, and a body range is small enough -/
def EvOK (g : Nat) (e : Ev R1) : Prop := SzOK g e.range ∧ ∀ r, e = .body r → r.e - r.b ≤ g

theorem simpleExec_bounds (g : Nat) : ∀ (fuel : Nat) (t t' : TS R1 σ), SzOK g t.range → (∀ e ∈ t.evs, EvOK g e) →
    simpleExec ops1 E fuel t = some t' →
    (∀ e ∈ t'.evs, EvOK g e) ∧ ∀ r p, Ev.spawn r p ∈ t'.evs → p.kind = .simple ∨ Ev.spawn r p ∈ t.evs := by
  intro fuel
  induction fuel with
  | zero => intro t t' _ _ h; simp [simpleExec] at h
  | succ f ih =>
    intro t t' hr he h
    unfold simpleExec at h
    obtain ⟨hw, hg, hlo⟩ := hr
    split at h
    · rename_i hd
      have hd' : t.range.divisible = true := hd
      obtain ⟨m, hm, h1, h2, hmid⟩ := splitMid_spec hw hd'
      have hdv := (R1.divisible_iff hw).1 hd'
      have hsplit : ops1.split t.range = ({ t.range with e := m }, { t.range with b := m }) := hm
      rw [hsplit] at h
      simp only at h
      obtain ⟨w1, w2, w3⟩ := hw
      have := ih _ t' ?_ ?_ h
      · refine ⟨this.1, fun r p hm' => ?_⟩
        rcases this.2 r p hm' with h' | h'
        · exact Or.inl h'
        · simp only [emitSpawn, List.mem_cons] at h'
          rcases h' with h' | h'
          · left; cases h'; rfl
          · exact Or.inr h'
      · show SzOK g ({ t.range with e := m } : R1)
        refine ⟨⟨?_, ?_, w3⟩, hg, ?_⟩
        · show t.range.b ≤ m; omega
        · show m < 2 ^ 64; omega
        · show (g + 1) / 2 ≤ m - t.range.b; omega
      · intro e hmem
        simp only [emitSpawn, List.mem_cons] at hmem
        rcases hmem with rfl | hmem
        · refine ⟨?_, fun r hr => by cases hr⟩
          show SzOK g ({ t.range with b := m } : R1)
          refine ⟨⟨?_, w2, w3⟩, hg, ?_⟩
          · show m ≤ t.range.e; omega
          · show (g + 1) / 2 ≤ t.range.e - m; omega
        · exact he e hmem
    · rename_i hd
      injection h with h
      subst h
      have hnd : ¬ t.range.g < t.range.e - t.range.b := fun hh => hd ((R1.divisible_iff hw).2 hh)
      refine ⟨fun e hmem => ?_, fun r p hm' => ?_⟩
      · simp only [runBody, List.mem_cons] at hmem
        rcases hmem with rfl | hmem
        · exact ⟨⟨hw, hg, hlo⟩, fun r hr => by cases hr; omega⟩
        · exact he e hmem
      · simp only [runBody, List.mem_cons] at hm'
        rcases hm' with h' | h'
        · cases h'
        · exact Or.inr h'

theorem runTasks_simple_bounds (g : Nat) : ∀ (fuel : Nat) (work : List (R1 × Part)) (s : σ) (ran dropped ran' dropped' : List R1) (s' : σ),
    (∀ x ∈ work, SzOK g x.1 ∧ x.2.kind = .simple) → (∀ c ∈ ran, SzOK g c ∧ c.e - c.b ≤ g) →
    runTasks ops1 E fuel work s ran dropped = some (ran', dropped', s') → ∀ c ∈ ran', SzOK g c ∧ c.e - c.b ≤ g := by
  intro fuel
  induction fuel with
  | zero => intro work s ran dropped ran' dropped' s' _ _ h; simp [runTasks] at h
  | succ f ih =>
    intro work s ran dropped ran' dropped' s' hw hr h
    cases work with
    | nil =>
      simp only [runTasks, Option.some.injEq, Prod.mk.injEq] at h
      obtain ⟨h1, _, _⟩ := h
      subst h1
      exact hr
    | cons x work =>
      obtain ⟨r, p⟩ := x
      simp only [runTasks] at h
      split at h
      · cases h
      · rename_i evs s1 hex
        obtain ⟨hsz, hks⟩ := hw (r, p) (List.mem_cons_self)
        simp only at hsz hks
        -- the task is a simple_partition_type task
        unfold execTask at hex
        simp only [hks, Option.map_eq_some_iff, Prod.mk.injEq] at hex
        obtain ⟨t', ht, he1, _⟩ := hex
        subst he1
        obtain ⟨b1, b2⟩ := simpleExec_bounds (E := E) g f _ t' (by simpa using hsz) (by intro e he; cases he) ht
        refine ih _ _ _ _ _ _ _ ?_ ?_ h
        · intro y hy
          rcases List.mem_append.1 hy with hy | hy
          · simp only [evKids, List.mem_filterMap, List.mem_reverse] at hy
            obtain ⟨e, he, hee⟩ := hy
            cases e with
            | spawn r' p' =>
              simp only [Option.some.injEq] at hee
              subst hee
              refine ⟨(b1 _ he).1, ?_⟩
              rcases b2 r' p' he with h' | h'
              · exact h'
              · cases h'
            | body _ => cases hee
            | drop _ => cases hee
          · exact hw y (List.mem_cons_of_mem _ hy)
        · intro c hc
          rcases List.mem_append.1 hc with hc | hc
          · simp only [evBodies, List.mem_filterMap, List.mem_reverse] at hc
            obtain ⟨e, he, hee⟩ := hc
            cases e with
            | body r' =>
              simp only [Option.some.injEq] at hee
              subst hee
              exact ⟨(b1 _ he).1, (b1 _ he).2 _ rfl⟩
            | spawn _ _ => cases hee
            | drop _ => cases hee
          · exact hr c hc

/-! ### termination: with enough fuel a simple_partitioner loop always finishes -/

def sz (r : R1) : Nat := r.e - r.b

def evSz : List (Ev R1) → Nat
  | [] => 0
  | e :: es => sz e.range + evSz es

def workSz : List (R1 × Part) → Nat
  | [] => 0
  | x :: xs => sz x.1 + workSz xs

/-- a fresh event: non-empty well-formed range, simple child partition, not a drop -/
def EvNew (e : Ev R1) : Prop :=
  WF1 e.range ∧ e.range.b < e.range.e ∧ (∀ r p, e = .spawn r p → p.kind = .simple) ∧ (∀ r, e ≠ .drop r)

theorem simpleExec_total : ∀ (f : Nat) (t : TS R1 σ), WF1 t.range → t.range.b < t.range.e → sz t.range ≤ f →
    ∃ t', simpleExec ops1 E (f + 1) t = some t' ∧ evSz t'.evs = evSz t.evs + sz t.range ∧
      (∀ e ∈ t'.evs, e ∈ t.evs ∨ EvNew e) ∧ (∃ c, Ev.body c ∈ t'.evs ∧ c.b < c.e) := by
  intro f
  induction f with
  | zero => intro t _ hne hs; unfold sz at hs; omega
  | succ f ih =>
    intro t hw hne hs
    unfold simpleExec
    split
    · rename_i hd
      have hd' : t.range.divisible = true := hd
      obtain ⟨m, hm, h1, h2, hmid⟩ := splitMid_spec hw hd'
      have hdv := (R1.divisible_iff hw).1 hd'
      have hsplit : ops1.split t.range = ({ t.range with e := m }, { t.range with b := m }) := hm
      rw [hsplit]
      simp only
      obtain ⟨w1, w2, w3⟩ := hw
      have hwa : WF1 ({ t.range with e := m } : R1) := ⟨by show t.range.b ≤ m; omega, by show m < 2 ^ 64; omega, w3⟩
      have hwb : WF1 ({ t.range with b := m } : R1) := ⟨by show m ≤ t.range.e; omega, w2, w3⟩
      obtain ⟨t', e1, e2, e3, e4⟩ := ih (emitSpawn E { t with range := { t.range with e := m } } { t.range with b := m } { kind := .simple })
        hwa (by show t.range.b < m; omega) (by unfold sz at hs ⊢; show m - t.range.b ≤ f; omega)
      refine ⟨t', e1, ?_, ?_, e4⟩
      · rw [e2]
        simp only [emitSpawn, evSz, Ev.range_spawn]
        unfold sz
        show t.range.e - m + evSz t.evs + (m - t.range.b) = evSz t.evs + (t.range.e - t.range.b)
        omega
      · intro e he
        rcases e3 e he with h | h
        · simp only [emitSpawn, List.mem_cons] at h
          rcases h with rfl | h
          · right
            exact ⟨hwb, by show m < t.range.e; omega, fun r p hrp => by cases hrp; rfl, fun r hr => by cases hr⟩
          · exact Or.inl h
        · exact Or.inr h
    · refine ⟨runBody E t t.range, rfl, ?_, ?_, ⟨t.range, by simp [runBody], hne⟩⟩
      · simp only [runBody, evSz, Ev.range_body]; omega
      · intro e he
        simp only [runBody, List.mem_cons] at he
        rcases he with rfl | he
        · refine Or.inr ⟨hw, hne, ?_, ?_⟩
          · intro r p hrp; cases hrp
          · intro r hr; cases hr
        · exact Or.inl he

theorem evSz_reverse (evs : List (Ev R1)) : evSz evs.reverse = evSz evs := by
  have app : ∀ (a b : List (Ev R1)), evSz (a ++ b) = evSz a + evSz b := by
    intro a b
    induction a with
    | nil => simp [evSz]
    | cons x xs ih => simp only [List.cons_append, evSz, ih]; omega
  induction evs with
  | nil => rfl
  | cons x xs ih => rw [List.reverse_cons, app, ih]; simp only [evSz]; omega

theorem workSz_append (a b : List (R1 × Part)) : workSz (a ++ b) = workSz a + workSz b := by
  induction a with
  | nil => simp [workSz]
  | cons x xs ih => simp only [List.cons_append, workSz, ih]; omega

theorem kids_le (evs : List (Ev R1)) (c : R1) (hc : Ev.body c ∈ evs) : workSz (evKids evs) + sz c ≤ evSz evs := by
  induction evs with
  | nil => cases hc
  | cons e es ih =>
    have hk : ∀ es : List (Ev R1), workSz (evKids es) ≤ evSz es := by
      intro es
      induction es with
      | nil => simp [evKids, workSz, evSz]
      | cons e es ih2 =>
        cases e <;> simp only [evKids, List.filterMap_cons, workSz, evSz, Ev.range_body, Ev.range_spawn, Ev.range_drop] at ih2 ⊢ <;> omega
    rcases List.mem_cons.1 hc with h | h
    · subst h
      have := hk es
      simp only [evKids, List.filterMap_cons, evSz, Ev.range_body] at this ⊢
      omega
    · have := ih h
      cases e <;> simp only [evKids, List.filterMap_cons, workSz, evSz, Ev.range_body, Ev.range_spawn, Ev.range_drop] at this ⊢ <;> omega

/-- **Termination for simple_partitioner on blocked_range**: fuel `total size + 2` is enough, for every environment. -/
theorem runTasks_simple_total : ∀ (F : Nat) (work : List (R1 × Part)) (s : σ) (ran dropped : List R1),
    (∀ x ∈ work, WF1 x.1 ∧ x.1.b < x.1.e ∧ x.2.kind = .simple) → workSz work + 2 ≤ F →
    ∃ res, runTasks ops1 E F work s ran dropped = some res := by
  intro F
  induction F with
  | zero => intro work s ran dropped _ h; omega
  | succ F ih =>
    intro work s ran dropped hw hF
    cases work with
    | nil => exact ⟨_, rfl⟩
    | cons x work =>
      obtain ⟨r, p⟩ := x
      obtain ⟨hwf, hne, hks⟩ := hw (r, p) (List.mem_cons_self)
      simp only at hwf hne hks
      simp only [workSz] at hF
      have hF1 : 1 ≤ F := by omega
      obtain ⟨f, rfl⟩ : ∃ f, F = f + 1 := ⟨F - 1, by omega⟩
      obtain ⟨t', e1, e2, e3, c, hc, hcne⟩ := simpleExec_total (E := E) f ({ range := r, part := p, env := s } : TS R1 σ) hwf hne (by show sz r ≤ f; omega)
      have hex : execTask ops1 E (f + 1) r p s = some (t'.evs.reverse, t'.env) := by
        unfold execTask
        simp only [hks, e1, Option.map_some]
      simp only [runTasks, hex]
      apply ih
      · intro y hy
        rcases List.mem_append.1 hy with hy | hy
        · simp only [evKids, List.mem_filterMap, List.mem_reverse] at hy
          obtain ⟨e, he, hee⟩ := hy
          rcases e3 e he with h | h
          · cases h
          · cases e with
            | spawn r' p' =>
              simp only [Option.some.injEq] at hee
              subst hee
              exact ⟨h.1, h.2.1, h.2.2.1 r' p' rfl⟩
            | body _ => cases hee
            | drop _ => cases hee
        · exact hw y (List.mem_cons_of_mem _ hy)
      · rw [workSz_append]
        have hk := kids_le t'.evs.reverse c (List.mem_reverse.2 hc)
        rw [evSz_reverse, e2] at hk
        simp only [evSz] at hk
        have e : sz ({ range := r, part := p, env := s } : TS R1 σ).range = sz r := rfl
        rw [e] at hk
        have hcs : 1 ≤ sz c := by unfold sz; omega
        omega

end

end TbbVerif.C05
