/-
C03 — PipeEH (parallel_pipeline): ownership invariant of token objects and stage tasks, and its preservation by the task steps.
-/
import TbbVerif.Model.C03Pipe

namespace TbbVerif.C03.Pipe

open TbbVerif.C03 (ExcId)

def pcFacts (t : Task) : Prop :=
  match t.pc with
  | .absent => False
  | .rel => t.obj = none ∧ t.fins = 1 ∧ t.rels = 0
  | .dead => t.obj = none ∧ t.fins = 1 ∧ t.rels = 1
  | .dtor => t.fins = 0 ∧ t.rels = 0 ∧ (t.hasFilter = false → t.obj = none)
  | _ => t.fins = 0 ∧ t.rels = 0 ∧ t.hasFilter = true

/-- a stage task's pointers are to objects it owns; the fresh output exists only between create_token and destroy_token(input) -/
structure TaskOK (s : State) (i : Nat) : Prop where
  obj : ∀ a, (s.tasks i).obj = some a → a < s.nobjs ∧ (s.objs a).owner = some i
  out : ∀ a, (s.tasks i).out = some a → a < s.nobjs ∧ (s.objs a).owner = some i ∧ (s.tasks i).obj ≠ some a
  made : (s.tasks i).out.isSome = true → (s.tasks i).pc = .made
  pc : pcFacts (s.tasks i)

/-- a token object is destroyed at most once; an owned object is alive, not parked, and its owner points to it; a parked object is alive
and owned by nobody; an object that is still alive is owned or parked (nothing is lost) -/
structure ObjOK (s : State) (a : Nat) : Prop where
  le : (s.objs a).destroyed ≤ 1
  own : ∀ i, (s.objs a).owner = some i → i < s.ntasks ∧ (s.objs a).destroyed = 0 ∧ (s.objs a).parked = false ∧
    ((s.tasks i).obj = some a ∨ (s.tasks i).out = some a)
  park : (s.objs a).parked = true → (s.objs a).destroyed = 0 ∧ (s.objs a).owner = none
  kept : (s.objs a).destroyed = 0 → (s.objs a).owner.isSome = true ∨ (s.objs a).parked = true

structure Inv1 (s : State) : Prop where
  tasks : ∀ i, i < s.ntasks → TaskOK s i
  objs : ∀ a, a < s.nobjs → ObjOK s a

set_option hygiene false in
/-- closes `Inv1 (the new state)`; expects `h : Inv1 s`, the acting task `i` and its facts in the context -/
macro "pipe_close" : tactic => `(tactic|
  (constructor
   · intro j hj
     (try simp only [setTask, destroyObj] at hj)
     by_cases hji : j = i
     · subst hji; constructor <;> simp only [setTask, destroyObj, upd, pcFacts, if_true] <;> grind
     · by_cases hjn : j < s.ntasks
       · obtain ⟨hjo, hju, hjm, hjp⟩ := h.tasks j hjn
         constructor <;> simp only [setTask, destroyObj, upd, hji, if_false] <;> grind
       · constructor <;> simp only [setTask, destroyObj, upd, hji, if_false] <;> (try simp only [pcFacts]) <;> grind
   · intro a ha
     (try simp only [setTask, destroyObj] at ha)
     by_cases han : a < s.nobjs
     · obtain ⟨h1, h2, h3, h4⟩ := h.objs a han
       constructor <;> simp only [setTask, destroyObj, upd] <;> grind
     · constructor <;> simp only [setTask, destroyObj, upd] <;> grind))

variable {s : State}

theorem inv1_ready (h : Inv1 s) (i : Nat) (hi : i < s.ntasks) (hpc : (s.tasks i).pc = .ready) (ch : Nat) : Inv1 (stepTask s i ch) := by
  unfold stepTask
  have hni : ¬ i ≥ s.ntasks := by omega
  simp only [hni, if_false, hpc]
  obtain ⟨hio, hiu, him, hip⟩ := h.tasks i hi
  simp only [pcFacts, hpc] at hip
  split <;> pipe_close

theorem inv1_exec (h : Inv1 s) (i : Nat) (hi : i < s.ntasks) (hpc : (s.tasks i).pc = .exec) (ch : Nat) : Inv1 (stepTask s i ch) := by
  unfold stepTask
  have hni : ¬ i ≥ s.ntasks := by omega
  simp only [hni, if_false, hpc]
  obtain ⟨hio, hiu, him, hip⟩ := h.tasks i hi
  simp only [pcFacts, hpc] at hip
  pipe_close

theorem inv1_body (h : Inv1 s) (i : Nat) (hi : i < s.ntasks) (hpc : (s.tasks i).pc = .body) (ch : Nat) : Inv1 (stepTask s i ch) := by
  unfold stepTask
  have hni : ¬ i ≥ s.ntasks := by omega
  simp only [hni, if_false, hpc]
  obtain ⟨hio, hiu, him, hip⟩ := h.tasks i hi
  simp only [pcFacts, hpc] at hip
  split
  · pipe_close
  · split
    · pipe_close
    · split
      · split
        · exact h
        · pipe_close
      · pipe_close

theorem inv1_made (h : Inv1 s) (i : Nat) (hi : i < s.ntasks) (hpc : (s.tasks i).pc = .made) (ch : Nat) : Inv1 (stepTask s i ch) := by
  unfold stepTask
  have hni : ¬ i ≥ s.ntasks := by omega
  simp only [hni, if_false, hpc]
  obtain ⟨hio, hiu, him, hip⟩ := h.tasks i hi
  simp only [pcFacts, hpc] at hip
  cases hobj : (s.tasks i).obj with
  | none => pipe_close
  | some b =>
    obtain ⟨hb1, hb2⟩ := hio b hobj
    obtain ⟨hbl, hbo, hbp, hbk⟩ := h.objs b hb1
    pipe_close

theorem inv1_post (h : Inv1 s) (i : Nat) (hi : i < s.ntasks) (hpc : (s.tasks i).pc = .post) (ch : Nat) : Inv1 (stepTask s i ch) := by
  unfold stepTask
  have hni : ¬ i ≥ s.ntasks := by omega
  simp only [hni, if_false, hpc]
  obtain ⟨hio, hiu, him, hip⟩ := h.tasks i hi
  simp only [pcFacts, hpc] at hip
  split
  · pipe_close
  · split
    · cases hobj : (s.tasks i).obj with
      | none => exact h
      | some b =>
        obtain ⟨hb1, hb2⟩ := hio b hobj
        obtain ⟨hbl, hbo, hbp, hbk⟩ := h.objs b hb1
        pipe_close
    · split
      · pipe_close
      · split
        · split
          · exact h
          · pipe_close
        · split
          · pipe_close
          · split
            · rename_i hw
              obtain ⟨hwl, hwo, hwp, hwk⟩ := h.objs (ch - 5) hw.1
              have hwp' := hwp hw.2
              pipe_close
            · exact h

theorem inv1_caught (h : Inv1 s) (i : Nat) (hi : i < s.ntasks) (e : ExcId) (hpc : (s.tasks i).pc = .caught e) (ch : Nat) :
    Inv1 (stepTask s i ch) := by
  unfold stepTask
  have hni : ¬ i ≥ s.ntasks := by omega
  simp only [hni, if_false, hpc]
  obtain ⟨hio, hiu, him, hip⟩ := h.tasks i hi
  simp only [pcFacts, hpc] at hip
  split <;> pipe_close

theorem inv1_xchg (h : Inv1 s) (i : Nat) (hi : i < s.ntasks) (e : ExcId) (hpc : (s.tasks i).pc = .xchg e) (ch : Nat) :
    Inv1 (stepTask s i ch) := by
  unfold stepTask
  have hni : ¬ i ≥ s.ntasks := by omega
  simp only [hni, if_false, hpc]
  obtain ⟨hio, hiu, him, hip⟩ := h.tasks i hi
  simp only [pcFacts, hpc] at hip
  split <;> pipe_close

theorem inv1_store (h : Inv1 s) (i : Nat) (hi : i < s.ntasks) (e : ExcId) (hpc : (s.tasks i).pc = .store e) (ch : Nat) :
    Inv1 (stepTask s i ch) := by
  unfold stepTask
  have hni : ¬ i ≥ s.ntasks := by omega
  simp only [hni, if_false, hpc]
  obtain ⟨hio, hiu, him, hip⟩ := h.tasks i hi
  simp only [pcFacts, hpc] at hip
  pipe_close

theorem inv1_dtor (h : Inv1 s) (i : Nat) (hi : i < s.ntasks) (hpc : (s.tasks i).pc = .dtor) (ch : Nat) : Inv1 (stepTask s i ch) := by
  unfold stepTask
  have hni : ¬ i ≥ s.ntasks := by omega
  simp only [hni, if_false, hpc]
  obtain ⟨hio, hiu, him, hip⟩ := h.tasks i hi
  simp only [pcFacts, hpc] at hip
  cases hobj : (s.tasks i).obj with
  | none => pipe_close
  | some b =>
    obtain ⟨hb1, hb2⟩ := hio b hobj
    obtain ⟨hbl, hbo, hbp, hbk⟩ := h.objs b hb1
    simp only
    split
    · pipe_close
    · rename_i hf
      have := hip.2.2 (by simpa using hf)
      rw [hobj] at this; cases this

theorem inv1_rel (h : Inv1 s) (i : Nat) (hi : i < s.ntasks) (hpc : (s.tasks i).pc = .rel) (ch : Nat) : Inv1 (stepTask s i ch) := by
  unfold stepTask
  have hni : ¬ i ≥ s.ntasks := by omega
  simp only [hni, if_false, hpc]
  obtain ⟨hio, hiu, him, hip⟩ := h.tasks i hi
  simp only [pcFacts, hpc] at hip
  pipe_close

theorem inv1_stepTask (h : Inv1 s) (i : Nat) (ch : Nat) : Inv1 (stepTask s i ch) := by
  by_cases hi : i < s.ntasks
  · cases hpc : (s.tasks i).pc with
    | absent => unfold stepTask; simp only [hpc]; split <;> exact h
    | dead => unfold stepTask; simp only [hpc]; split <;> exact h
    | ready => exact inv1_ready h i hi hpc ch
    | exec => exact inv1_exec h i hi hpc ch
    | body => exact inv1_body h i hi hpc ch
    | made => exact inv1_made h i hi hpc ch
    | post => exact inv1_post h i hi hpc ch
    | caught e => exact inv1_caught h i hi e hpc ch
    | xchg e => exact inv1_xchg h i hi e hpc ch
    | store e => exact inv1_store h i hi e hpc ch
    | dtor => exact inv1_dtor h i hi hpc ch
    | rel => exact inv1_rel h i hi hpc ch
  · unfold stepTask
    have : i ≥ s.ntasks := by omega
    simp only [this, if_true]
    exact h

end TbbVerif.C03.Pipe
