/-
C03 — the inductive invariant of DispatchEH (ownership of tasks, wait counter = unfinished tasks, single exchange
winner, exception stored only by the winner and before it releases its task, quiescence at the waiter's exit).
-/
import TbbVerif.Proofs.C03.Basic

namespace TbbVerif.C03

/-- what the pc of thread `t` entails -/
def ThOK (s : State) (t : Tid) : Prop :=
  match s.pcs t with
  | .idle => True
  | .check i => Held s t i
  | .running i _ => Held s t i
  | .finA i => Held s t i
  | .finJ i => Held s t i
  | .finB i => Held s t i
  | .caught i e => Held s t i ∧ e ∈ s.thrown
  | .xchg i e => Held s t i ∧ e ∈ s.thrown
  | .store i e => Held s t i ∧ e ∈ s.thrown ∧ s.winner = some t ∧ s.exc = none
  | .wspawn _ => t = 0
  | .wexit => t = 0 ∧ s.count = 0
  | .wreset oe => t = 0 ∧ s.count = 0 ∧ oe = s.exc
  | .wdone => t = 0

structure EpochOK (r : Epoch) : Prop where
  stores_le : r.stores ≤ 1
  rethrown_mem : ∀ e, r.res = .rethrown e → e ∈ r.thrown
  no_swallow : r.thrown ≠ [] → r.extC = false → ∃ e, e ∈ r.thrown ∧ r.res = .rethrown e
  complete : r.thrown = [] → r.extC = false → r.res = .complete

structure Inv (s : State) : Prop where
  th : ∀ t, ThOK s t
  cnt : s.count = s.tasks.countP notDone
  canc : s.cancelled = (s.winner.isSome || s.extC)
  win : ∀ w, s.winner = some w → s.exc.isSome ∨ ∃ i e, s.pcs w = .store i e
  sto : s.stores = if s.exc.isSome then 1 else 0
  excm : ∀ e, s.exc = some e → e ∈ s.thrown ∧ s.winner.isSome
  thr : s.thrown ≠ [] → s.extC = true ∨ s.winner.isSome ∨ ∃ t i e, s.pcs t = .caught i e ∨ s.pcs t = .xchg i e
  res : ∀ r ∈ s.results, EpochOK r

/-! ### helpers -/

theorem noHeld_of_count_zero {s : State} (hc : s.count = s.tasks.countP notDone) (h0 : s.count = 0) (t : Tid) (i : Nat) : ¬ Held s t i := by
  rintro ⟨tk, hget, hst⟩
  have hmem : tk ∈ s.tasks := List.mem_of_getElem? hget
  have : 0 < s.tasks.countP notDone := List.countP_pos_iff.mpr ⟨tk, hmem, by simp [notDone, hst]⟩
  omega

theorem Held_unique {s : State} {t u : Tid} {i : Nat} (h1 : Held s t i) (h2 : Held s u i) : t = u := by
  obtain ⟨a, ha, hsa⟩ := h1
  obtain ⟨b, hb, hsb⟩ := h2
  rw [ha] at hb; cases hb
  rw [hsa] at hsb; cases hsb; rfl

@[simp] theorem Held_setPc (s : State) (t : Tid) (p : Pc) (u : Tid) (i : Nat) : Held (setPc s t p) u i ↔ Held s u i := Iff.rfl

theorem Held_modTask_ne {s : State} {u : Tid} {i j : Nat} (f : Task → Task) (hne : j ≠ i) (h : Held s u j) : Held (modTask s i f) u j := by
  obtain ⟨tk, hg, hs⟩ := h
  exact ⟨tk, by rw [modTask_get]; simp [hne, hg], hs⟩

/-- the holder modifies its own task, keeping `st` -/
theorem Held_modTask_self {s : State} {t : Tid} {i : Nat} (f : Task → Task) (hf : ∀ x, (f x).st = x.st) (h : Held s t i) : Held (modTask s i f) t i := by
  obtain ⟨tk, hg, hs⟩ := h
  exact ⟨f tk, by rw [modTask_get]; simp [hg], by rw [hf]; exact hs⟩

theorem Held_modTask_other {s : State} {t u : Tid} {i j : Nat} (f : Task → Task) (ht : Held s t i) (hne : u ≠ t) (h : Held s u j) :
    Held (modTask s i f) u j := by
  apply Held_modTask_ne f _ h
  intro e; subst e
  exact hne (Held_unique h ht)

theorem Held_spawn {s : State} {u : Tid} {i : Nat} (j : Nat) (h : Held s u i) : Held (spawn s j) u i := by
  obtain ⟨tk, hg, hs⟩ := h
  exact ⟨tk, spawn_get_old s j i tk hg, hs⟩

theorem ThOK_frame (s s' : State) (u : Tid)
    (hpc : s'.pcs u = s.pcs u)
    (hheld : ∀ i, Held s u i → Held s' u i)
    (hthr : ∀ e, e ∈ s.thrown → e ∈ s'.thrown)
    (hwin : s.winner = some u → s'.winner = some u ∧ s'.exc = s.exc)
    (hcnt : u = 0 → s.count = 0 → s'.count = 0 ∧ s'.exc = s.exc)
    (h : ThOK s u) : ThOK s' u := by
  unfold ThOK at h ⊢
  rw [hpc]
  cases hp : s.pcs u <;> rw [hp] at h <;> simp only at h ⊢
  · exact hheld _ h
  · exact hheld _ h
  · exact hheld _ h
  · exact hheld _ h
  · exact hheld _ h
  · exact ⟨hheld _ h.1, hthr _ h.2⟩
  · exact ⟨hheld _ h.1, hthr _ h.2⟩
  · obtain ⟨h1, h2, h3, h4⟩ := h
    have := hwin h3
    exact ⟨hheld _ h1, hthr _ h2, this.1, by rw [this.2]; exact h4⟩
  · exact h
  · exact ⟨h.1, (hcnt h.1 h.2).1⟩
  · obtain ⟨h1, h2, h3⟩ := h
    have := hcnt h1 h2
    exact ⟨h1, this.1, by rw [this.2]; exact h3⟩
  · exact h

/-- the thread's own facts, by pc -/
theorem Inv.held_of_task {s : State} (hI : Inv s) {t : Tid} {i : Nat} (h : (s.pcs t).task = some i) : Held s t i := by
  have := hI.th t
  unfold ThOK at this
  cases hp : s.pcs t <;> rw [hp] at this h <;> simp [Pc.task] at h <;> subst h <;> simp only at this
  · exact this
  · exact this
  · exact this
  · exact this
  · exact this
  · exact this.1
  · exact this.1
  · exact this.1

theorem Inv.count_pos_of_held {s : State} (hI : Inv s) {t : Tid} {i : Nat} (h : Held s t i) : 0 < s.count := by
  rcases Nat.eq_zero_or_pos s.count with h0 | hp
  · exact absurd h (noHeld_of_count_zero hI.cnt h0 t i)
  · exact hp

/-- A step of thread `t` that touches only its own pc, tasks it owns, and the counter. -/
theorem inv_local {s s' : State} {t : Tid} (hI : Inv s)
    (hpcs : ∀ u, u ≠ t → s'.pcs u = s.pcs u)
    (hheld : ∀ u i, u ≠ t → Held s u i → Held s' u i)
    (hcntP : s'.count = s'.tasks.countP notDone)
    (hcnt0 : t ≠ 0 → s.count = 0 → s'.count = 0)
    (hcanc : s'.cancelled = s.cancelled) (hexc : s'.exc = s.exc) (hwinner : s'.winner = s.winner) (hextC : s'.extC = s.extC)
    (hstores : s'.stores = s.stores) (hresults : s'.results = s.results) (hthrown : s'.thrown = s.thrown)
    (hme : ThOK s' t)
    (hnostore : ∀ i e, s.pcs t ≠ .store i e)
    (hcaught : (∃ i e, s.pcs t = .caught i e ∨ s.pcs t = .xchg i e) → (∃ i e, s'.pcs t = .caught i e ∨ s'.pcs t = .xchg i e)) :
    Inv s' where
  th := by
    intro u
    by_cases hu : u = t
    · subst hu; exact hme
    · refine ThOK_frame s s' u (hpcs u hu) (hheld u · hu) (by rw [hthrown]; exact fun _ h => h) ?_ ?_ (hI.th u)
      · intro hw; exact ⟨by rw [hwinner]; exact hw, hexc⟩
      · intro h0 hc; subst h0
        exact ⟨hcnt0 (fun e => hu e.symm) hc, hexc⟩
  cnt := hcntP
  canc := by rw [hcanc, hwinner, hextC]; exact hI.canc
  win := by
    intro w hw
    rw [hwinner] at hw
    rcases hI.win w hw with h | ⟨i, e, h⟩
    · left; rw [hexc]; exact h
    · right
      have hwt : w ≠ t := by intro e'; subst e'; exact hnostore i e h
      exact ⟨i, e, by rw [hpcs w hwt]; exact h⟩
  sto := by rw [hstores, hexc]; exact hI.sto
  excm := by rw [hexc, hthrown, hwinner]; exact hI.excm
  thr := by
    rw [hthrown, hextC, hwinner]
    intro hne
    rcases hI.thr hne with h | h | ⟨u, i, e, h⟩
    · exact Or.inl h
    · exact Or.inr (Or.inl h)
    · right; right
      by_cases hu : u = t
      · subst hu
        obtain ⟨i', e', h'⟩ := hcaught ⟨i, e, h⟩
        exact ⟨u, i', e', h'⟩
      · exact ⟨u, i, e, by rw [hpcs u hu]; exact h⟩
  res := by rw [hresults]; exact hI.res

end TbbVerif.C03
