/-
C03 — ReduceEH: the join tree of parallel_reduce.  Structural invariant: a node's reference count is 2 minus the
number of children that have handed their reference over; the node is deleted (and its zombie body destroyed) exactly
once, by the thread that brought the count to 0, after both children are done; joins happen only while not cancelled.
-/
import TbbVerif.Model.C03

set_option linter.unusedSimpArgs false

namespace TbbVerif.C03

def b2n (b : Bool) : Nat := if b then 1 else 0

/-- structural invariant; `c` = the context's cancellation flag now (it only ever goes from false to true) -/
def RT.InvR (c : Bool) : RT → Prop
  | .leaf _ => True
  | .node ref st z j d zd l r =>
    l.InvR c ∧ r.InvR c ∧
    (match st with
     | .active => ref + (b2n l.merged + b2n r.merged) = 2 ∧ 0 < ref ∧ j = 0 ∧ d = 0 ∧ zd = 0
     | .joining => ref = 0 ∧ l.merged = true ∧ r.merged = true ∧ j = 0 ∧ d = 0 ∧ zd = 0
     | _ => ref = 0 ∧ l.merged = true ∧ r.merged = true ∧ d = 1 ∧ zd = b2n z ∧ j ≤ b2n z ∧ (c = false → j = b2n z))

/-- nothing is deleted / destroyed / joined more than once -/
def RT.Safe : RT → Prop
  | .leaf _ => True
  | .node _ _ z j d zd l r => d ≤ 1 ∧ zd ≤ b2n z ∧ zd ≤ d ∧ j ≤ b2n z ∧ l.Safe ∧ r.Safe

/-- the whole subtree is folded: every leaf merged, every node deleted exactly once, every zombie destroyed exactly once -/
def RT.Done (c : Bool) : RT → Prop
  | .leaf st => st = .merged
  | .node _ st z j d zd l r => st = .merged ∧ d = 1 ∧ zd = b2n z ∧ j ≤ b2n z ∧ (c = false → j = b2n z) ∧ l.Done c ∧ r.Done c

theorem RT.setMerged_merged (t : RT) : t.setMerged.merged = true := by
  cases t <;> simp [RT.setMerged, RT.merged]

theorem RT.arrived_not_merged {t : RT} (h : t.arrived = true) : t.merged = false := by
  cases t with
  | leaf st => cases st <;> simp_all [RT.arrived, RT.merged]
  | node ref st z j d zd l r => cases st <;> simp_all [RT.arrived, RT.merged]

theorem RT.InvR_setMerged {c : Bool} {t : RT} (h : t.InvR c) (ha : t.arrived = true) : t.setMerged.InvR c := by
  cases t with
  | leaf st => simp [RT.setMerged, RT.InvR]
  | node ref st z j d zd l r =>
    cases st <;> simp_all [RT.arrived, RT.setMerged, RT.InvR]

theorem RT.InvR_mono {t : RT} (h : t.InvR false) : t.InvR true := by
  induction t with
  | leaf st => trivial
  | node ref st z j d zd l r ihl ihr =>
    simp only [RT.InvR] at h ⊢
    refine ⟨ihl h.1, ihr h.2.1, ?_⟩
    cases st <;> simp_all

theorem RT.leaf_merged_unstarted : (RT.leaf LSt.unstarted).merged = false := rfl
theorem RT.leaf_merged_running : (RT.leaf LSt.running).merged = false := rfl
theorem RT.leaf_merged_arrived : (RT.leaf LSt.arrived).merged = false := rfl

theorem RT.InvR_opHere {c : Bool} {t : RT} (h : t.InvR c) (op : ROp) : (t.opHere c op).InvR c := by
  cases t with
  | leaf st => cases op <;> exact h
  | node ref st z j d zd l r =>
    simp only [RT.InvR] at h
    obtain ⟨hl, hr, hst⟩ := h
    cases op with
    | start right mk =>
      simp only [RT.opHere]
      cases right with
      | true =>
        simp only [ite_true]
        split
        · simp only [RT.InvR]
          refine ⟨hl, trivial, ?_⟩
          simp only [RT.leaf_merged_unstarted, RT.leaf_merged_running, RT.leaf_merged_arrived] at hst ⊢
          cases st <;> simp_all
        · exact ⟨hl, hr, hst⟩
      | false =>
        simp only [Bool.false_eq_true, ite_false]
        split
        · simp only [RT.InvR]
          refine ⟨trivial, hr, ?_⟩
          simp only [RT.leaf_merged_unstarted, RT.leaf_merged_running, RT.leaf_merged_arrived] at hst ⊢
          cases st <;> simp_all
        · exact ⟨hl, hr, hst⟩
    | finish right =>
      simp only [RT.opHere]
      cases right with
      | true =>
        simp only [ite_true]
        split
        · simp only [RT.InvR]
          refine ⟨hl, trivial, ?_⟩
          simp only [RT.leaf_merged_unstarted, RT.leaf_merged_running, RT.leaf_merged_arrived] at hst ⊢
          cases st <;> simp_all
        · exact ⟨hl, hr, hst⟩
      | false =>
        simp only [Bool.false_eq_true, ite_false]
        split
        · simp only [RT.InvR]
          refine ⟨trivial, hr, ?_⟩
          simp only [RT.leaf_merged_unstarted, RT.leaf_merged_running, RT.leaf_merged_arrived] at hst ⊢
          cases st <;> simp_all
        · exact ⟨hl, hr, hst⟩
    | dec right =>
      simp only [RT.opHere]
      cases right with
      | true =>
        simp only [ite_true]
        split
        · rename_i ha
          have hnm := RT.arrived_not_merged ha
          have hm := RT.setMerged_merged r
          simp only [RT.InvR]
          refine ⟨hl, RT.InvR_setMerged hr ha, ?_⟩
          cases st with
          | active =>
            simp only [hnm, b2n] at hst
            by_cases h0 : ref - 1 = 0
            · have : (ref - 1 == 0) = true := by simp [h0]
              simp only [this, ite_true, hm]
              cases hlm : l.merged <;> simp_all [b2n] <;> omega
            · have : (ref - 1 == 0) = false := by simp [h0]
              simp only [this, hm]
              cases hlm : l.merged <;> simp_all [b2n] <;> omega
          | joining => simp_all
          | arrived => simp_all
          | merged => simp_all
        · exact ⟨hl, hr, hst⟩
      | false =>
        simp only [Bool.false_eq_true, ite_false]
        split
        · rename_i ha
          have hnm := RT.arrived_not_merged ha
          have hm := RT.setMerged_merged l
          simp only [RT.InvR]
          refine ⟨RT.InvR_setMerged hl ha, hr, ?_⟩
          cases st with
          | active =>
            simp only [hnm, b2n] at hst
            by_cases h0 : ref - 1 = 0
            · have : (ref - 1 == 0) = true := by simp [h0]
              simp only [this, ite_true, hm]
              cases hrm : r.merged <;> simp_all [b2n] <;> omega
            · have : (ref - 1 == 0) = false := by simp [h0]
              simp only [this, hm]
              cases hrm : r.merged <;> simp_all [b2n] <;> omega
          | joining => simp_all
          | arrived => simp_all
          | merged => simp_all
        · exact ⟨hl, hr, hst⟩
    | joinDel =>
      simp only [RT.opHere]
      cases st with
      | joining =>
        simp only [beq_self_eq_true, ite_true, RT.InvR]
        refine ⟨hl, hr, ?_⟩
        simp only at hst
        obtain ⟨h1, h2, h3, h4, h5, h6⟩ := hst
        subst h4 h5 h6
        cases z <;> cases c <;> simp [b2n, h1, h2, h3]
      | active => exact ⟨hl, hr, hst⟩
      | arrived => exact ⟨hl, hr, hst⟩
      | merged => exact ⟨hl, hr, hst⟩

theorem RT.opAt_merged (c : Bool) (t : RT) (b : Bool) (p : List Bool) (op : ROp) : (t.opAt c (b :: p) op).merged = t.merged := by
  cases t with
  | leaf st => rfl
  | node ref st z j d zd l r => simp only [RT.opAt]; split <;> rfl

/-- an operation at a node does not change whether that node has handed over its own reference -/
theorem RT.opHere_merged_eq (c : Bool) (t : RT) (op : ROp) (h : t.InvR c) : (t.opHere c op).merged = t.merged := by
  cases t with
  | leaf st => cases op <;> rfl
  | node ref st z j d zd l r =>
    simp only [RT.InvR] at h
    obtain ⟨_, _, hst⟩ := h
    cases op with
    | start right mk =>
      cases right
      · cases l with
        | leaf ls => cases ls <;> simp [RT.opHere, RT.merged]
        | node => simp [RT.opHere, RT.merged]
      · cases r with
        | leaf ls => cases ls <;> simp [RT.opHere, RT.merged]
        | node => simp [RT.opHere, RT.merged]
    | finish right =>
      cases right
      · cases l with
        | leaf ls => cases ls <;> simp [RT.opHere, RT.merged]
        | node => simp [RT.opHere, RT.merged]
      · cases r with
        | leaf ls => cases ls <;> simp [RT.opHere, RT.merged]
        | node => simp [RT.opHere, RT.merged]
    | dec right =>
      cases right
      · cases ha : l.arrived
        · simp [RT.opHere, ha, RT.merged]
        · have hnm := RT.arrived_not_merged ha
          cases st with
          | active => simp only [RT.opHere, ha, Bool.false_eq_true, ite_false, ite_true, RT.merged]; split <;> rfl
          | joining => simp_all
          | arrived => simp_all
          | merged => simp_all
      · cases ha : r.arrived
        · simp [RT.opHere, ha, RT.merged]
        · have hnm := RT.arrived_not_merged ha
          cases st with
          | active => simp only [RT.opHere, ha, ite_true, RT.merged]; split <;> rfl
          | joining => simp_all
          | arrived => simp_all
          | merged => simp_all
    | joinDel => cases st <;> simp [RT.opHere, RT.merged] <;> rfl

theorem RT.opAt_nil (c : Bool) (t : RT) (op : ROp) : t.opAt c [] op = t.opHere c op := by
  cases t <;> rfl

theorem RT.opAt_merged_eq (c : Bool) (t : RT) (p : List Bool) (op : ROp) (h : t.InvR c) : (t.opAt c p op).merged = t.merged := by
  cases p with
  | nil => rw [RT.opAt_nil]; exact RT.opHere_merged_eq c t op h
  | cons b p => exact RT.opAt_merged c t b p op

theorem RT.InvR_opAt {c : Bool} (p : List Bool) : ∀ {t : RT}, t.InvR c → ∀ op, (t.opAt c p op).InvR c := by
  induction p with
  | nil => intro t h op; rw [RT.opAt_nil]; exact RT.InvR_opHere h op
  | cons b p ih =>
    intro t h op
    cases t with
    | leaf st => exact h
    | node ref st z j d zd l r =>
      simp only [RT.InvR] at h
      obtain ⟨hl, hr, hst⟩ := h
      simp only [RT.opAt]
      split
      · simp only [RT.InvR]
        refine ⟨hl, ih hr op, ?_⟩
        rw [RT.opAt_merged_eq c r p op hr]; exact hst
      · simp only [RT.InvR]
        refine ⟨ih hl op, hr, ?_⟩
        rw [RT.opAt_merged_eq c l p op hl]; exact hst

theorem Shape.fresh_InvR (sh : Shape) : sh.fresh.InvR false ∧ sh.fresh.merged = false := by
  induction sh with
  | leaf => simp [Shape.fresh, RT.InvR, RT.merged]
  | node l r ihl ihr =>
    refine ⟨?_, rfl⟩
    simp only [Shape.fresh, RT.InvR]
    refine ⟨ihl.1, ihr.1, ?_⟩
    simp [ihl.2, ihr.2, b2n]

theorem RT.Safe_of_InvR {c : Bool} {t : RT} (h : t.InvR c) : t.Safe := by
  induction t with
  | leaf st => trivial
  | node ref st z j d zd l r ihl ihr =>
    simp only [RT.InvR] at h
    obtain ⟨hl, hr, hst⟩ := h
    simp only [RT.Safe]
    refine ⟨?_, ?_, ?_, ?_, ihl hl, ihr hr⟩ <;> cases st <;> simp_all <;> (try omega) <;> cases z <;> simp_all [b2n]

theorem RT.Done_of_merged {c : Bool} {t : RT} (h : t.InvR c) (hm : t.merged = true) : t.Done c := by
  induction t with
  | leaf st => simpa [RT.merged, RT.Done] using hm
  | node ref st z j d zd l r ihl ihr =>
    simp only [RT.InvR] at h
    obtain ⟨hl, hr, hst⟩ := h
    simp only [RT.merged] at hm
    have : st = .merged := by cases st <;> simp_all
    subst this
    simp only at hst
    obtain ⟨_, hlm, hrm, hd, hzd, hj, hjc⟩ := hst
    exact ⟨rfl, hd, hzd, hj, hjc, ihl hl hlm, ihr hr hrm⟩

/-- state invariant -/
structure RInv (s : RState) : Prop where
  tree : s.tree.InvR s.cancelled
  rel : s.released = b2n s.tree.merged
  wait : s.waitRef + s.released = 1

theorem rinv_init (sh : Shape) : RInv (rinit sh) where
  tree := (Shape.fresh_InvR sh).1
  rel := by simp [rinit, (Shape.fresh_InvR sh).2, b2n]
  wait := by simp [rinit]

theorem rinv_step {s : RState} (h : RInv s) (a : RAct) : RInv (rstep s a) := by
  cases a with
  | op p o =>
    exact ⟨RT.InvR_opAt p h.tree o, by simp only [rstep]; rw [RT.opAt_merged_eq _ _ _ _ h.tree]; exact h.rel, h.wait⟩
  | startTop =>
    simp only [rstep]
    split
    · rename_i ht
      exact ⟨by simp [RT.InvR], by have := h.rel; rw [ht] at this; simpa [RT.merged, b2n] using this, h.wait⟩
    · exact h
  | finishTop =>
    simp only [rstep]
    split
    · rename_i ht
      exact ⟨by simp [RT.InvR], by have := h.rel; rw [ht] at this; simpa [RT.merged, b2n] using this, h.wait⟩
    · exact h
  | decRoot =>
    simp only [rstep]
    split
    · rename_i ha
      have hnm := RT.arrived_not_merged ha
      have hr := h.rel
      have hw := h.wait
      rw [hnm] at hr
      simp only [b2n] at hr
      refine ⟨RT.InvR_setMerged h.tree ha, ?_, ?_⟩
      · simp [RT.setMerged_merged, b2n, hr]
      · simp only; simp at hr; omega
    · exact h
  | cancel =>
    refine ⟨?_, h.rel, h.wait⟩
    simp only [rstep]
    cases hc : s.cancelled
    · have := h.tree; rw [hc] at this; exact RT.InvR_mono this
    · have := h.tree; rw [hc] at this; exact this

theorem rinv_run (sh : Shape) (sched : List RAct) : RInv (rrun sh sched) := by
  unfold rrun
  generalize hs : rinit sh = s0
  have h0 : RInv s0 := hs ▸ rinv_init sh
  clear hs
  induction sched generalizing s0 with
  | nil => exact h0
  | cons a as ih => exact ih _ (rinv_step h0 a)

/-! joins are skipped while the context is cancelled -/
def RT.joins : RT → Nat
  | .leaf _ => 0
  | .node _ _ _ j _ _ l r => j + l.joins + r.joins

theorem RT.setMerged_joins (t : RT) : t.setMerged.joins = t.joins := by
  cases t <;> rfl

theorem RT.joins_opHere_cancelled (t : RT) (op : ROp) : (t.opHere true op).joins = t.joins := by
  cases t with
  | leaf st => cases op <;> rfl
  | node ref st z j d zd l r =>
    cases op with
    | start right mk => simp only [RT.opHere]; cases right <;> simp <;> split <;> simp_all [RT.joins]
    | finish right => simp only [RT.opHere]; cases right <;> simp <;> split <;> simp_all [RT.joins]
    | dec right =>
      simp only [RT.opHere]
      cases right <;> simp <;> split <;> simp [RT.joins, RT.setMerged_joins]
    | joinDel => simp only [RT.opHere]; split <;> simp [RT.joins]

theorem RT.joins_opAt_cancelled (p : List Bool) : ∀ (t : RT) (op : ROp), (t.opAt true p op).joins = t.joins := by
  induction p with
  | nil => intro t op; rw [RT.opAt_nil]; exact RT.joins_opHere_cancelled t op
  | cons b p ih =>
    intro t op
    cases t with
    | leaf st => rfl
    | node ref st z j d zd l r =>
      simp only [RT.opAt]
      split <;> simp [RT.joins, ih]

end TbbVerif.C03
