/-
C03 — ExecEH (`task_arena::execute`): the inductive invariant and its preservation.
-/
import TbbVerif.Model.C03Exec

namespace TbbVerif.C03.Exec

open TbbVerif.C03 (ExcId Outcome)

/-- what the context holds once the functor has ended and the catch block (if any) is through -/
def ExcFacts (s : State) : Prop :=
  match s.fn with
  | .ok => s.cancelled = false ∧ s.exc = none ∧ s.excAlloc = 0
  | .throw e => s.cancelled = true ∧ s.exc = some e ∧ s.excAlloc = 1

/-- facts by the position of the thread that holds the delegated task -/
def RunnerOK (s : State) : Prop :=
  match s.rp with
  | .none =>
    s.deleg = true →
      if s.completed then s.wo = 0 ∧ s.started = 1 ∧ s.ended = 1 ∧ s.queued = false ∧ s.runner.isSome ∧
        (s.excFreed = 0 → ExcFacts s)
      else s.started = 0 ∧ s.ended = 0 ∧ s.cancelled = false ∧ s.exc = none ∧ s.wo = 1 ∧ s.excAlloc = 0 ∧ s.runner = none ∧
        (s.queued = true ∨ s.cpc = .enq)
  | .check =>
    s.wo = 1 ∧ s.completed = false ∧
      (if s.cancelled then s.started = 1 ∧ s.ended = 1 ∧ ExcFacts s ∧ s.fn ≠ .ok
       else s.started = 0 ∧ s.ended = 0 ∧ s.exc = none ∧ s.excAlloc = 0)
  | .running => s.started = 1 ∧ s.ended = 0 ∧ s.wo = 1 ∧ s.completed = false ∧ s.cancelled = false ∧ s.exc = none ∧ s.excAlloc = 0
  | .caught e => s.fn = .throw e ∧ s.started = 1 ∧ s.ended = 1 ∧ s.wo = 1 ∧ s.completed = false ∧ s.cancelled = false ∧ s.exc = none ∧ s.excAlloc = 0
  | .xchg e => s.fn = .throw e ∧ s.started = 1 ∧ s.ended = 1 ∧ s.wo = 1 ∧ s.completed = false ∧ s.cancelled = false ∧ s.exc = none ∧ s.excAlloc = 0
  | .store e => s.fn = .throw e ∧ s.started = 1 ∧ s.ended = 1 ∧ s.wo = 1 ∧ s.completed = false ∧ s.cancelled = true ∧ s.exc = none ∧ s.excAlloc = 0
  | .finRel => s.wo = 1 ∧ s.completed = false ∧ s.started = 1 ∧ s.ended = 1 ∧ ExcFacts s
  | .finNotify => s.wo = 0 ∧ s.completed = false ∧ s.started = 1 ∧ s.ended = 1 ∧ ExcFacts s
  | .finDone => s.wo = 0 ∧ s.completed = false ∧ s.started = 1 ∧ s.ended = 1 ∧ ExcFacts s

/-- facts by the position of the caller -/
def CallerOK (s : State) : Prop :=
  match s.cpc with
  | .start => s.deleg = false ∧ s.started = 0 ∧ s.ended = 0 ∧ s.outs = [] ∧ s.returned = 0 ∧ s.runner = none
  | .direct => s.deleg = false ∧ s.started = 0 ∧ s.ended = 0 ∧ s.outs = [] ∧ s.returned = 0 ∧ s.runner = none
  | .dRunning => s.deleg = false ∧ s.started = 1 ∧ s.ended = 0 ∧ s.outs = [] ∧ s.returned = 0
  | .enq => s.deleg = true ∧ s.rp = .none ∧ s.queued = false ∧ s.completed = false ∧ s.dtLive = true ∧ s.dtDestroyed = 0 ∧ s.excFreed = 0 ∧
      s.outs = [] ∧ s.returned = 0
  | .waiting => s.deleg = true ∧ s.dtLive = true ∧ s.dtDestroyed = 0 ∧ s.excFreed = 0 ∧ s.outs = [] ∧ s.returned = 0
  | .left => s.deleg = true ∧ s.dtLive = true ∧ s.dtDestroyed = 0 ∧ s.excFreed = 0 ∧ s.outs = [] ∧ s.returned = 0 ∧ s.wo = 0 ∧
      (s.runner = some 0 → s.rp = .none)
  | .loaded oe => s.deleg = true ∧ s.dtLive = true ∧ s.dtDestroyed = 0 ∧ s.excFreed = 0 ∧ s.outs = [] ∧ s.returned = 0 ∧ s.wo = 0 ∧
      oe = s.exc ∧ (s.runner = some 0 → s.rp = .none)
  | .dtorCtx oe => s.deleg = true ∧ s.dtLive = false ∧ s.dtDestroyed = 1 ∧ s.excFreed = 0 ∧ s.outs = [] ∧ s.returned = 0 ∧ s.wo = 0 ∧
      oe = s.exc ∧ s.completed = true ∧ s.rp = .none
  | .leaving oe => s.deleg = true ∧ s.dtLive = false ∧ s.dtDestroyed = 1 ∧ s.excFreed = s.excAlloc ∧ s.outs = [] ∧ s.returned = 0 ∧ s.wo = 0 ∧
      s.exc = none ∧ s.completed = true ∧ s.rp = .none ∧ s.started = 1 ∧ s.ended = 1 ∧
      (match s.fn with | .ok => oe = none | .throw e => oe = some e)
  | .exited =>
    s.started = 1 ∧ s.ended = 1 ∧ s.rp = .none ∧ s.queued = false ∧
      (match s.fn with | .ok => s.outs = [] ∧ s.returned = 1 | .throw e => s.outs = [(0, e)] ∧ s.returned = 0) ∧
      s.excFreed = s.excAlloc ∧ s.dtDestroyed = (if s.deleg then 1 else 0) ∧ (s.deleg = true → s.completed = true ∧ s.dtLive = false)

structure Inv (s : State) : Prop where
  skok : s.sk.ok = true
  runner : RunnerOK s
  caller : CallerOK s
  nodeleg : s.deleg = false → s.rp = .none ∧ s.queued = false ∧ s.wo = 0 ∧ s.completed = false ∧ s.dtLive = false ∧ s.dtDestroyed = 0 ∧
    s.excAlloc = 0 ∧ s.excFreed = 0 ∧ s.exc = none ∧ s.cancelled = false
  live : s.rp ≠ .none → s.deleg = true ∧ s.dtLive = true ∧ s.queued = false ∧ s.excFreed = 0 ∧ s.runner.isSome
  queued : s.queued = true → s.rp = .none ∧ s.completed = false ∧ s.deleg = true
  ledger : s.dtDestroyed ≤ 1 ∧ s.excFreed ≤ s.excAlloc ∧ s.excAlloc ≤ 1 ∧ s.touchedDead = 0
  wo1 : s.wo ≤ 1

theorem skel_fields {k : Skel} (h : k.ok = true) :
    k.rethrowAlways = true ∧ k.loadAfterLoop = true ∧ k.dtDeclaredLast = true ∧ k.dtorWaitsCompleted = true ∧ k.finalizeOrder = [0, 1, 2] ∧
    k.cancelFinalizes = true ∧ k.executeFinalizes = true ∧ k.storeOnlyWinner = true ∧ k.cancelByExchange = true := by
  simp only [Skel.ok, Bool.and_eq_true, beq_iff_eq] at h
  obtain ⟨⟨⟨⟨⟨⟨⟨⟨h1, h2⟩, h3⟩, h4⟩, h5⟩, h6⟩, h7⟩, h8⟩, h9⟩ := h
  exact ⟨h1, h2, h3, h4, h5, h6, h7, h8, h9⟩

theorem inv_init (sk : Skel) (hk : sk.ok = true) (fn : Outcome) : Inv (init sk fn) := by
  constructor <;> simp [init, RunnerOK, CallerOK, hk]


set_option linter.unusedSimpArgs false

macro "exec_field" : tactic => `(tactic|
  (first
    | (simp_all [RunnerOK, CallerOK, ExcFacts, touch, thrownOut]; done)
    | (simp_all [RunnerOK, CallerOK, ExcFacts, touch, thrownOut] <;> (try split) <;> (try simp_all) <;> omega)))

/-- close `Inv s'` from the unpacked invariant of `s` after the control state has been fixed by case splits -/
macro "exec_cases" : tactic => `(tactic|
  ((try split) <;> (try split) <;> (try split) <;> (constructor <;> exec_field)))

/-! ### the runner's steps, one lemma per position -/

theorem run_same {s : State} (hI : Inv s) : Inv s := hI

theorem inv_run_check {s : State} (hI : Inv s) (t : Tid) (hrp : s.rp = RPc.check) : Inv (stepRun s t) := by
  obtain ⟨hk, hr, hc, hn, hl, hq, hled, hw⟩ := hI
  have hf := skel_fields hk
  unfold stepRun
  split
  · exact ⟨hk, hr, hc, hn, hl, hq, hled, hw⟩
  · rename_i hne
    simp only [hrp]
    cases hcp : s.cpc <;> cases hfn : s.fn <;> exec_cases

theorem inv_run_running {s : State} (hI : Inv s) (t : Tid) (hrp : s.rp = RPc.running) : Inv (stepRun s t) := by
  obtain ⟨hk, hr, hc, hn, hl, hq, hled, hw⟩ := hI
  have hf := skel_fields hk
  unfold stepRun
  split
  · exact ⟨hk, hr, hc, hn, hl, hq, hled, hw⟩
  · rename_i hne
    simp only [hrp]
    cases hcp : s.cpc <;> cases hfn : s.fn <;> exec_cases

theorem inv_run_caught {s : State} {e : ExcId} (hI : Inv s) (t : Tid) (hrp : s.rp = RPc.caught e) : Inv (stepRun s t) := by
  obtain ⟨hk, hr, hc, hn, hl, hq, hled, hw⟩ := hI
  have hf := skel_fields hk
  unfold stepRun
  split
  · exact ⟨hk, hr, hc, hn, hl, hq, hled, hw⟩
  · rename_i hne
    simp only [hrp]
    cases hcp : s.cpc <;> cases hfn : s.fn <;> exec_cases

theorem inv_run_xchg {s : State} {e : ExcId} (hI : Inv s) (t : Tid) (hrp : s.rp = RPc.xchg e) : Inv (stepRun s t) := by
  obtain ⟨hk, hr, hc, hn, hl, hq, hled, hw⟩ := hI
  have hf := skel_fields hk
  unfold stepRun
  split
  · exact ⟨hk, hr, hc, hn, hl, hq, hled, hw⟩
  · rename_i hne
    simp only [hrp]
    cases hcp : s.cpc <;> cases hfn : s.fn <;> exec_cases

theorem inv_run_store {s : State} {e : ExcId} (hI : Inv s) (t : Tid) (hrp : s.rp = RPc.store e) : Inv (stepRun s t) := by
  obtain ⟨hk, hr, hc, hn, hl, hq, hled, hw⟩ := hI
  have hf := skel_fields hk
  unfold stepRun
  split
  · exact ⟨hk, hr, hc, hn, hl, hq, hled, hw⟩
  · rename_i hne
    simp only [hrp]
    cases hcp : s.cpc <;> cases hfn : s.fn <;> exec_cases

theorem inv_run_finRel {s : State} (hI : Inv s) (t : Tid) (hrp : s.rp = RPc.finRel) : Inv (stepRun s t) := by
  obtain ⟨hk, hr, hc, hn, hl, hq, hled, hw⟩ := hI
  have hf := skel_fields hk
  unfold stepRun
  split
  · exact ⟨hk, hr, hc, hn, hl, hq, hled, hw⟩
  · rename_i hne
    simp only [hrp]
    cases hcp : s.cpc <;> cases hfn : s.fn <;> exec_cases

theorem inv_run_finNotify {s : State} (hI : Inv s) (t : Tid) (hrp : s.rp = RPc.finNotify) : Inv (stepRun s t) := by
  obtain ⟨hk, hr, hc, hn, hl, hq, hled, hw⟩ := hI
  have hf := skel_fields hk
  unfold stepRun
  split
  · exact ⟨hk, hr, hc, hn, hl, hq, hled, hw⟩
  · rename_i hne
    simp only [hrp]
    cases hcp : s.cpc <;> cases hfn : s.fn <;> exec_cases

theorem inv_run_finDone {s : State} (hI : Inv s) (t : Tid) (hrp : s.rp = RPc.finDone) : Inv (stepRun s t) := by
  obtain ⟨hk, hr, hc, hn, hl, hq, hled, hw⟩ := hI
  have hf := skel_fields hk
  unfold stepRun
  split
  · exact ⟨hk, hr, hc, hn, hl, hq, hled, hw⟩
  · rename_i hne
    simp only [hrp]
    cases hcp : s.cpc <;> cases hfn : s.fn <;> exec_cases

theorem inv_stepRun {s : State} (hI : Inv s) (t : Tid) : Inv (stepRun s t) := by
  cases hrp : s.rp with
  | none =>
    unfold stepRun; split
    · exact hI
    · simp only [hrp]; exact hI
  | check => exact inv_run_check hI t hrp
  | running => exact inv_run_running hI t hrp
  | caught e => exact inv_run_caught hI t hrp
  | xchg e => exact inv_run_xchg hI t hrp
  | store e => exact inv_run_store hI t hrp
  | finRel => exact inv_run_finRel hI t hrp
  | finNotify => exact inv_run_finNotify hI t hrp
  | finDone => exact inv_run_finDone hI t hrp

theorem inv_stepTake {s : State} (hI : Inv s) (t : Tid) : Inv (stepTake s t) := by
  obtain ⟨hk, hr, hc, hn, hl, hq, hled, hw⟩ := hI
  unfold stepTake
  split
  · rename_i h
    have hq' := hq h.1
    have hrp : s.rp = .none := hq'.1
    cases hcp : s.cpc <;> cases hfn : s.fn <;> (constructor <;> exec_field)
  · exact ⟨hk, hr, hc, hn, hl, hq, hled, hw⟩

/-! ### the caller's steps, one lemma per position -/

theorem inv_caller_start {s : State} (hI : Inv s) (c : Nat) (hcp : s.cpc = CPc.start) : Inv (stepCaller s c) := by
  obtain ⟨hk, hr, hc, hn, hl, hq, hled, hw⟩ := hI
  have hf := skel_fields hk
  unfold stepCaller
  simp only [hcp]
  cases hrp : s.rp <;> cases hfn : s.fn <;> exec_cases

theorem inv_caller_direct {s : State} (hI : Inv s) (c : Nat) (hcp : s.cpc = CPc.direct) : Inv (stepCaller s c) := by
  obtain ⟨hk, hr, hc, hn, hl, hq, hled, hw⟩ := hI
  have hf := skel_fields hk
  unfold stepCaller
  simp only [hcp]
  cases hrp : s.rp <;> cases hfn : s.fn <;> exec_cases

theorem inv_caller_dRunning {s : State} (hI : Inv s) (c : Nat) (hcp : s.cpc = CPc.dRunning) : Inv (stepCaller s c) := by
  obtain ⟨hk, hr, hc, hn, hl, hq, hled, hw⟩ := hI
  have hf := skel_fields hk
  unfold stepCaller
  simp only [hcp]
  cases hrp : s.rp <;> cases hfn : s.fn <;> exec_cases

theorem inv_caller_enq {s : State} (hI : Inv s) (c : Nat) (hcp : s.cpc = CPc.enq) : Inv (stepCaller s c) := by
  obtain ⟨hk, hr, hc, hn, hl, hq, hled, hw⟩ := hI
  have hf := skel_fields hk
  unfold stepCaller
  simp only [hcp]
  cases hrp : s.rp <;> cases hfn : s.fn <;> exec_cases

theorem inv_caller_waiting_none {s : State} (hI : Inv s) (c : Nat) (hcp : s.cpc = CPc.waiting) (hrp : s.rp = RPc.none) : Inv (stepCaller s c) := by
  obtain ⟨hk, hr, hc, hn, hl, hq, hled, hw⟩ := hI
  have hf := skel_fields hk
  unfold stepCaller
  simp only [hcp]
  cases hfn : s.fn <;> exec_cases

theorem inv_caller_waiting_check {s : State} (hI : Inv s) (c : Nat) (hcp : s.cpc = CPc.waiting) (hrp : s.rp = RPc.check) : Inv (stepCaller s c) := by
  obtain ⟨hk, hr, hc, hn, hl, hq, hled, hw⟩ := hI
  have hf := skel_fields hk
  unfold stepCaller
  simp only [hcp]
  cases hfn : s.fn <;> exec_cases

theorem inv_caller_waiting_running {s : State} (hI : Inv s) (c : Nat) (hcp : s.cpc = CPc.waiting) (hrp : s.rp = RPc.running) : Inv (stepCaller s c) := by
  obtain ⟨hk, hr, hc, hn, hl, hq, hled, hw⟩ := hI
  have hf := skel_fields hk
  unfold stepCaller
  simp only [hcp]
  cases hfn : s.fn <;> exec_cases

theorem inv_caller_waiting_caught {s : State} {e : ExcId} (hI : Inv s) (c : Nat) (hcp : s.cpc = CPc.waiting) (hrp : s.rp = RPc.caught e) : Inv (stepCaller s c) := by
  obtain ⟨hk, hr, hc, hn, hl, hq, hled, hw⟩ := hI
  have hf := skel_fields hk
  unfold stepCaller
  simp only [hcp]
  cases hfn : s.fn <;> exec_cases

theorem inv_caller_waiting_xchg {s : State} {e : ExcId} (hI : Inv s) (c : Nat) (hcp : s.cpc = CPc.waiting) (hrp : s.rp = RPc.xchg e) : Inv (stepCaller s c) := by
  obtain ⟨hk, hr, hc, hn, hl, hq, hled, hw⟩ := hI
  have hf := skel_fields hk
  unfold stepCaller
  simp only [hcp]
  cases hfn : s.fn <;> exec_cases

theorem inv_caller_waiting_store {s : State} {e : ExcId} (hI : Inv s) (c : Nat) (hcp : s.cpc = CPc.waiting) (hrp : s.rp = RPc.store e) : Inv (stepCaller s c) := by
  obtain ⟨hk, hr, hc, hn, hl, hq, hled, hw⟩ := hI
  have hf := skel_fields hk
  unfold stepCaller
  simp only [hcp]
  cases hfn : s.fn <;> exec_cases

theorem inv_caller_waiting_finRel {s : State} (hI : Inv s) (c : Nat) (hcp : s.cpc = CPc.waiting) (hrp : s.rp = RPc.finRel) : Inv (stepCaller s c) := by
  obtain ⟨hk, hr, hc, hn, hl, hq, hled, hw⟩ := hI
  have hf := skel_fields hk
  unfold stepCaller
  simp only [hcp]
  cases hfn : s.fn <;> exec_cases

theorem inv_caller_waiting_finNotify {s : State} (hI : Inv s) (c : Nat) (hcp : s.cpc = CPc.waiting) (hrp : s.rp = RPc.finNotify) : Inv (stepCaller s c) := by
  obtain ⟨hk, hr, hc, hn, hl, hq, hled, hw⟩ := hI
  have hf := skel_fields hk
  unfold stepCaller
  simp only [hcp]
  cases hfn : s.fn <;> exec_cases

theorem inv_caller_waiting_finDone {s : State} (hI : Inv s) (c : Nat) (hcp : s.cpc = CPc.waiting) (hrp : s.rp = RPc.finDone) : Inv (stepCaller s c) := by
  obtain ⟨hk, hr, hc, hn, hl, hq, hled, hw⟩ := hI
  have hf := skel_fields hk
  unfold stepCaller
  simp only [hcp]
  cases hfn : s.fn <;> exec_cases

theorem inv_caller_waiting {s : State} (hI : Inv s) (c : Nat) (hcp : s.cpc = CPc.waiting) : Inv (stepCaller s c) := by
  cases hrp : s.rp with
  | none => exact inv_caller_waiting_none hI c hcp hrp
  | check => exact inv_caller_waiting_check hI c hcp hrp
  | running => exact inv_caller_waiting_running hI c hcp hrp
  | caught e => exact inv_caller_waiting_caught hI c hcp hrp
  | xchg e => exact inv_caller_waiting_xchg hI c hcp hrp
  | store e => exact inv_caller_waiting_store hI c hcp hrp
  | finRel => exact inv_caller_waiting_finRel hI c hcp hrp
  | finNotify => exact inv_caller_waiting_finNotify hI c hcp hrp
  | finDone => exact inv_caller_waiting_finDone hI c hcp hrp

theorem inv_caller_left {s : State} (hI : Inv s) (c : Nat) (hcp : s.cpc = CPc.left) : Inv (stepCaller s c) := by
  obtain ⟨hk, hr, hc, hn, hl, hq, hled, hw⟩ := hI
  have hf := skel_fields hk
  unfold stepCaller
  simp only [hcp]
  cases hrp : s.rp <;> cases hfn : s.fn <;> exec_cases

theorem inv_caller_loaded {s : State} {oe : Option ExcId} (hI : Inv s) (c : Nat) (hcp : s.cpc = CPc.loaded oe) : Inv (stepCaller s c) := by
  obtain ⟨hk, hr, hc, hn, hl, hq, hled, hw⟩ := hI
  have hf := skel_fields hk
  unfold stepCaller
  simp only [hcp]
  cases hrp : s.rp <;> cases hfn : s.fn <;> exec_cases

theorem inv_caller_dtorCtx {s : State} {oe : Option ExcId} (hI : Inv s) (c : Nat) (hcp : s.cpc = CPc.dtorCtx oe) : Inv (stepCaller s c) := by
  obtain ⟨hk, hr, hc, hn, hl, hq, hled, hw⟩ := hI
  have hf := skel_fields hk
  unfold stepCaller
  simp only [hcp]
  cases hrp : s.rp <;> cases hfn : s.fn <;> exec_cases

theorem inv_caller_leaving {s : State} {oe : Option ExcId} (hI : Inv s) (c : Nat) (hcp : s.cpc = CPc.leaving oe) : Inv (stepCaller s c) := by
  obtain ⟨hk, hr, hc, hn, hl, hq, hled, hw⟩ := hI
  have hf := skel_fields hk
  unfold stepCaller
  simp only [hcp]
  cases hrp : s.rp <;> cases hfn : s.fn <;> exec_cases

theorem inv_stepCaller {s : State} (hI : Inv s) (c : Nat) : Inv (stepCaller s c) := by
  cases hcp : s.cpc with
  | start => exact inv_caller_start hI c hcp
  | direct => exact inv_caller_direct hI c hcp
  | dRunning => exact inv_caller_dRunning hI c hcp
  | enq => exact inv_caller_enq hI c hcp
  | waiting => exact inv_caller_waiting hI c hcp
  | left => exact inv_caller_left hI c hcp
  | loaded oe => exact inv_caller_loaded hI c hcp
  | dtorCtx oe => exact inv_caller_dtorCtx hI c hcp
  | leaving oe => exact inv_caller_leaving hI c hcp
  | exited => unfold stepCaller; simp only [hcp]; exact hI

theorem inv_step {s : State} (hI : Inv s) (a : Act) : Inv (step s a) := by
  cases a with
  | caller c => exact inv_stepCaller hI c
  | take t => exact inv_stepTake hI t
  | run t => exact inv_stepRun hI t

theorem inv_runFrom (acts : List Act) : ∀ s : State, Inv s → Inv (runFrom s acts) := by
  induction acts with
  | nil => intro s h; exact h
  | cons a as ih => intro s h; exact ih _ (inv_step h a)

theorem inv_run (sk : Skel) (hk : sk.ok = true) (fn : Outcome) (acts : List Act) : Inv (run sk fn acts) :=
  inv_runFrom acts _ (inv_init sk hk fn)

end TbbVerif.C03.Exec
