/-
C03 — basic lemmas about the DispatchEH state operations (setPc / modTask / spawn) and the per-pc step equations.
-/
import TbbVerif.Model.C03

namespace TbbVerif.C03

/-! ### setPc -/
@[simp] theorem setPc_pcs (s : State) (t : Tid) (p : Pc) (u : Tid) : (setPc s t p).pcs u = if u = t then p else s.pcs u := rfl
@[simp] theorem setPc_tasks (s : State) (t : Tid) (p : Pc) : (setPc s t p).tasks = s.tasks := rfl
@[simp] theorem setPc_prog (s : State) (t : Tid) (p : Pc) : (setPc s t p).prog = s.prog := rfl
@[simp] theorem setPc_rounds (s : State) (t : Tid) (p : Pc) : (setPc s t p).rounds = s.rounds := rfl
@[simp] theorem setPc_cancelled (s : State) (t : Tid) (p : Pc) : (setPc s t p).cancelled = s.cancelled := rfl
@[simp] theorem setPc_exc (s : State) (t : Tid) (p : Pc) : (setPc s t p).exc = s.exc := rfl
@[simp] theorem setPc_count (s : State) (t : Tid) (p : Pc) : (setPc s t p).count = s.count := rfl
@[simp] theorem setPc_epoch (s : State) (t : Tid) (p : Pc) : (setPc s t p).epoch = s.epoch := rfl
@[simp] theorem setPc_thrown (s : State) (t : Tid) (p : Pc) : (setPc s t p).thrown = s.thrown := rfl
@[simp] theorem setPc_stores (s : State) (t : Tid) (p : Pc) : (setPc s t p).stores = s.stores := rfl
@[simp] theorem setPc_winner (s : State) (t : Tid) (p : Pc) : (setPc s t p).winner = s.winner := rfl
@[simp] theorem setPc_extC (s : State) (t : Tid) (p : Pc) : (setPc s t p).extC = s.extC := rfl
@[simp] theorem setPc_results (s : State) (t : Tid) (p : Pc) : (setPc s t p).results = s.results := rfl

/-! ### modTask -/
theorem modTask_eq (s : State) (i : Nat) (f : Task → Task) :
    modTask s i f = { s with tasks := match s.tasks[i]? with | some tk => s.tasks.set i (f tk) | none => s.tasks } := by
  unfold modTask; split <;> simp_all

@[simp] theorem modTask_pcs (s : State) (i : Nat) (f : Task → Task) : (modTask s i f).pcs = s.pcs := by rw [modTask_eq]
@[simp] theorem modTask_prog (s : State) (i : Nat) (f : Task → Task) : (modTask s i f).prog = s.prog := by rw [modTask_eq]
@[simp] theorem modTask_rounds (s : State) (i : Nat) (f : Task → Task) : (modTask s i f).rounds = s.rounds := by rw [modTask_eq]
@[simp] theorem modTask_cancelled (s : State) (i : Nat) (f : Task → Task) : (modTask s i f).cancelled = s.cancelled := by rw [modTask_eq]
@[simp] theorem modTask_exc (s : State) (i : Nat) (f : Task → Task) : (modTask s i f).exc = s.exc := by rw [modTask_eq]
@[simp] theorem modTask_count (s : State) (i : Nat) (f : Task → Task) : (modTask s i f).count = s.count := by rw [modTask_eq]
@[simp] theorem modTask_epoch (s : State) (i : Nat) (f : Task → Task) : (modTask s i f).epoch = s.epoch := by rw [modTask_eq]
@[simp] theorem modTask_thrown (s : State) (i : Nat) (f : Task → Task) : (modTask s i f).thrown = s.thrown := by rw [modTask_eq]
@[simp] theorem modTask_stores (s : State) (i : Nat) (f : Task → Task) : (modTask s i f).stores = s.stores := by rw [modTask_eq]
@[simp] theorem modTask_winner (s : State) (i : Nat) (f : Task → Task) : (modTask s i f).winner = s.winner := by rw [modTask_eq]
@[simp] theorem modTask_extC (s : State) (i : Nat) (f : Task → Task) : (modTask s i f).extC = s.extC := by rw [modTask_eq]
@[simp] theorem modTask_results (s : State) (i : Nat) (f : Task → Task) : (modTask s i f).results = s.results := by rw [modTask_eq]

theorem modTask_get (s : State) (i : Nat) (f : Task → Task) (j : Nat) :
    (modTask s i f).tasks[j]? = if j = i then (s.tasks[i]?).map f else s.tasks[j]? := by
  rw [modTask_eq]
  cases h : s.tasks[i]? with
  | none =>
    by_cases hj : j = i
    · subst hj; simp [h]
    · simp [hj]
  | some tk =>
    simp only [List.getElem?_set]
    by_cases hj : j = i
    · subst hj
      have hlt : j < s.tasks.length := by
        rcases List.getElem?_eq_some_iff.mp h with ⟨hl, _⟩; exact hl
      simp [hlt]
    · have : ¬ i = j := fun e => hj e.symm
      simp [hj, this]

theorem modTask_length (s : State) (i : Nat) (f : Task → Task) : (modTask s i f).tasks.length = s.tasks.length := by
  rw [modTask_eq]; cases s.tasks[i]? <;> simp

/-! ### spawn -/
def newTask (s : State) (sp : Spec) : Task := { spec := sp, st := .ready, epoch := s.epoch }

theorem spawn_eq (s : State) (j : Nat) :
    spawn s j = match s.prog[j]? with
      | some sp => { s with tasks := s.tasks ++ [newTask s sp], count := s.count + 1 }
      | none => s := by
  unfold spawn newTask; rfl

@[simp] theorem spawn_pcs (s : State) (j : Nat) : (spawn s j).pcs = s.pcs := by rw [spawn_eq]; split <;> rfl
@[simp] theorem spawn_prog (s : State) (j : Nat) : (spawn s j).prog = s.prog := by rw [spawn_eq]; split <;> rfl
@[simp] theorem spawn_rounds (s : State) (j : Nat) : (spawn s j).rounds = s.rounds := by rw [spawn_eq]; split <;> rfl
@[simp] theorem spawn_cancelled (s : State) (j : Nat) : (spawn s j).cancelled = s.cancelled := by rw [spawn_eq]; split <;> rfl
@[simp] theorem spawn_exc (s : State) (j : Nat) : (spawn s j).exc = s.exc := by rw [spawn_eq]; split <;> rfl
@[simp] theorem spawn_epoch (s : State) (j : Nat) : (spawn s j).epoch = s.epoch := by rw [spawn_eq]; split <;> rfl
@[simp] theorem spawn_thrown (s : State) (j : Nat) : (spawn s j).thrown = s.thrown := by rw [spawn_eq]; split <;> rfl
@[simp] theorem spawn_stores (s : State) (j : Nat) : (spawn s j).stores = s.stores := by rw [spawn_eq]; split <;> rfl
@[simp] theorem spawn_winner (s : State) (j : Nat) : (spawn s j).winner = s.winner := by rw [spawn_eq]; split <;> rfl
@[simp] theorem spawn_extC (s : State) (j : Nat) : (spawn s j).extC = s.extC := by rw [spawn_eq]; split <;> rfl
@[simp] theorem spawn_results (s : State) (j : Nat) : (spawn s j).results = s.results := by rw [spawn_eq]; split <;> rfl

/-- every old task is still there, unchanged -/
theorem spawn_get_old (s : State) (j i : Nat) (tk : Task) (h : s.tasks[i]? = some tk) : (spawn s j).tasks[i]? = some tk := by
  rw [spawn_eq]; split
  · have hl : i < s.tasks.length := (List.getElem?_eq_some_iff.mp h).1
    show (s.tasks ++ [newTask s _])[i]? = some tk
    rw [List.getElem?_append, if_pos hl]; exact h
  · exact h

/-- a task of the new state is an old one or the fresh (ready, zero counters) one -/
theorem spawn_get_cases (s : State) (j i : Nat) (tk : Task) (h : (spawn s j).tasks[i]? = some tk) :
    s.tasks[i]? = some tk ∨ (∃ sp, s.prog[j]? = some sp ∧ tk = newTask s sp ∧ i = s.tasks.length) := by
  rw [spawn_eq] at h
  cases hp : s.prog[j]? with
  | none => rw [hp] at h; exact Or.inl h
  | some sp =>
    rw [hp] at h
    simp only [List.getElem?_append] at h
    by_cases hl : i < s.tasks.length
    · rw [if_pos hl] at h; exact Or.inl h
    · simp only [hl, ite_false] at h
      have hi : i - s.tasks.length = 0 := by
        rcases Nat.eq_zero_or_pos (i - s.tasks.length) with h0 | hpos
        · exact h0
        · have : ([newTask s sp] : List Task)[i - s.tasks.length]? = none := by
            apply List.getElem?_eq_none; simp; omega
          rw [this] at h; cases h
      rw [hi] at h
      simp at h
      exact Or.inr ⟨sp, rfl, h.symm, by omega⟩

/-! ### counting unfinished tasks -/
def notDone (tk : Task) : Bool := tk.st != .done

theorem countP_set_same {α} (p : α → Bool) (l : List α) (i : Nat) (a b : α) (h : l[i]? = some a) (hp : p b = p a) :
    (l.set i b).countP p = l.countP p := by
  have hl : i < l.length := (List.getElem?_eq_some_iff.mp h).1
  have ha : l[i] = a := (List.getElem?_eq_some_iff.mp h).2
  rw [List.countP_set hl, ha, hp]
  by_cases hq : p a = true
  · simp only [hq, ite_true]
    have : 0 < l.countP p := by
      apply List.countP_pos_iff.mpr
      exact ⟨a, by rw [← ha]; exact List.getElem_mem hl, hq⟩
    omega
  · simp [hq]

theorem countP_set_dec {α} (p : α → Bool) (l : List α) (i : Nat) (a b : α) (h : l[i]? = some a) (hpa : p a = true) (hpb : p b = false) :
    (l.set i b).countP p + 1 = l.countP p := by
  have hl : i < l.length := (List.getElem?_eq_some_iff.mp h).1
  have ha : l[i] = a := (List.getElem?_eq_some_iff.mp h).2
  rw [List.countP_set hl, ha, hpa, hpb]
  have : 0 < l.countP p := by
    apply List.countP_pos_iff.mpr
    exact ⟨a, by rw [← ha]; exact List.getElem_mem hl, hpa⟩
  simp; omega

/-! ### which task a thread holds -/
def Pc.task : Pc → Option Nat
  | .check i | .running i _ | .finA i | .finJ i | .finB i | .caught i _ | .xchg i _ | .store i _ => some i
  | _ => none

def Held (s : State) (t : Tid) (i : Nat) : Prop := ∃ tk, s.tasks[i]? = some tk ∧ tk.st = .held t

end TbbVerif.C03
