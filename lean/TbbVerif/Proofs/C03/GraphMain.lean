/-
C03 — GraphEH: flag invariant, projection onto DispatchEH, step facts used by the property theorem.
-/
import TbbVerif.Proofs.C03.Graph
namespace TbbVerif.C03.Graph
open TbbVerif.C03

theorem skel_fields {k : Skel} (h : k.ok = true) :
    k.entryClears = true ∧ k.waitInsideTry = true ∧ k.readsFlagAfterWait = true ∧ k.handlerResetsCtx = true ∧ k.handlerSetsCaught = true ∧
    k.handlerSetsCancelled = true ∧ k.handlerRethrows = true ∧ k.resetAfter = true ∧ k.resetClearsFlags = true ∧ k.resetResetsCtx = true ∧
    k.resetReactivates = true := by
  simp only [Skel.ok, Bool.and_eq_true] at h
  obtain ⟨⟨⟨⟨⟨⟨⟨⟨⟨⟨h1, h2⟩, h3⟩, h4⟩, h5⟩, h6⟩, h7⟩, h8⟩, h9⟩, h10⟩, h11⟩ := h
  exact ⟨h1, h2, h3, h4, h5, h6, h7, h8, h9, h10, h11⟩

/-- inside wait_for_all (before the handler) `caught_exception` is false -/
def FlagInv (g : State) : Prop := g.sk.ok = true ∧ ((g.gpc = .inner ∨ g.gpc = .retReset) → g.gCaught = false)

theorem step_sk (g : State) (a : Act) : (step g a).1.sk = g.sk := by
  unfold step
  repeat' split
  all_goals rfl

theorem flag_step {g : State} (h : FlagInv g) (a : Act) : FlagInv (step g a).1 := by
  obtain ⟨hk, hf⟩ := h
  have hs := skel_fields hk
  refine ⟨by rw [step_sk]; exact hk, ?_⟩
  unfold step
  repeat' split
  all_goals simp_all

theorem step_d_cases (g : State) (a : Act) : (step g a).1.d = g.d ∨ ∃ a', (step g a).1.d = (C03.step g.d a').1 := by
  unfold step
  repeat' split
  all_goals first
    | (left; rfl)
    | (right; exact ⟨.extCancel, rfl⟩)
    | (right; exact ⟨.thr _ _, rfl⟩)

theorem run_snoc (prog : Prog) (rounds : List (List Nat)) (acts : List C03.Act) (a : C03.Act) :
    C03.run prog rounds (acts ++ [a]) = (C03.step (C03.run prog rounds acts) a).1 := by
  simp [C03.run, C03.runFrom, List.foldl_append]

theorem d_reachable_from (prog : Prog) (rounds : List (List Nat)) (gacts : List Act) :
    ∀ g : State, (∃ acts, g.d = C03.run prog rounds acts) → ∃ acts, (runFrom g gacts).d = C03.run prog rounds acts := by
  induction gacts with
  | nil => intro g h; exact h
  | cons a as ih =>
    intro g ⟨acts, h⟩
    apply ih
    rcases step_d_cases g a with h1 | ⟨a', h1⟩
    · exact ⟨acts, by rw [h1]; exact h⟩
    · exact ⟨acts ++ [a'], by rw [h1, h, run_snoc]⟩

theorem d_reachable (sk : Skel) (prog : Prog) (rounds : List (List Nat)) (gacts : List Act) :
    ∃ acts, (run sk prog rounds gacts).d = C03.run prog rounds acts :=
  d_reachable_from prog rounds gacts _ ⟨[], rfl⟩

theorem flag_init (sk : Skel) (hk : sk.ok = true) (prog : Prog) (rounds : List (List Nat)) : FlagInv (init sk prog rounds) :=
  ⟨hk, by simp [init]⟩

theorem flag_runFrom (acts : List Act) : ∀ g : State, FlagInv g → FlagInv (runFrom g acts) := by
  induction acts with
  | nil => intro g h; exact h
  | cons a as ih => intro g h; exact ih _ (flag_step h a)

theorem flag_run (sk : Skel) (hk : sk.ok = true) (prog : Prog) (rounds : List (List Nat)) (acts : List Act) :
    FlagInv (run sk prog rounds acts) := flag_runFrom acts _ (flag_init sk hk prog rounds)

/-- an exception leaves wait_for_all only in the handler step of thread 0 -/
theorem step_out {g : State} (a : Act) (e : ExcId) (h : (step g a).2 = some e) :
    (∃ c, a = .d (.thr 0 c)) ∧ g.gpc = .handler e ∧
    (step g a).1.gCaught = (g.sk.handlerSetsCaught || g.gCaught) ∧ (step g a).1.gCancelled = (g.sk.handlerSetsCancelled || g.gCancelled) ∧
    (step g a).1.needsReset = true ∧ (step g a).1.outs = e :: g.outs ∧ (step g a).1.gpc = .user ∧ (step g a).1.d = g.d := by
  unfold step at h ⊢
  repeat' split at h
  all_goals first
    | (cases h; done)
    | skip
  all_goals simp_all
end TbbVerif.C03.Graph
