/-
C03 — ExecEH: consequences of the invariant used by the property theorem.
-/
import TbbVerif.Proofs.C03.Exec
namespace TbbVerif.C03.Exec
open TbbVerif.C03 (ExcId Outcome)
theorem step_fn (s : State) (a : Act) : (step s a).fn = s.fn := by
  cases a with
  | caller c => simp only [step, stepCaller]; cases s.cpc <;> simp only [] <;> (repeat' split) <;> rfl
  | take t => simp only [step, stepTake]; split <;> rfl
  | run t => simp only [step, stepRun, touch]; split; rfl; cases s.rp <;> simp only [] <;> (repeat' split) <;> rfl
theorem runFrom_fn (acts : List Act) : ∀ s : State, (runFrom s acts).fn = s.fn := by
  induction acts with
  | nil => intro s; rfl
  | cons a as ih => intro s; simp only [runFrom, List.foldl_cons] at ih ⊢; rw [ih]; exact step_fn s a
theorem run_fn (sk : Skel) (fn : Outcome) (acts : List Act) : (run sk fn acts).fn = fn := runFrom_fn acts _

theorem not_exited_outs {s : State} (hI : Inv s) (h : s.cpc ≠ .exited) : s.outs = [] ∧ s.returned = 0 := by
  have hc := hI.caller
  unfold CallerOK at hc
  cases hcp : s.cpc <;> rw [hcp] at hc <;> simp only at hc
  · exact ⟨hc.2.2.2.1, hc.2.2.2.2.1⟩
  · exact ⟨hc.2.2.2.1, hc.2.2.2.2.1⟩
  · exact ⟨hc.2.2.2.1, hc.2.2.2.2⟩
  · exact ⟨hc.2.2.2.2.2.2.2.1, hc.2.2.2.2.2.2.2.2⟩
  · exact ⟨hc.2.2.2.2.1, hc.2.2.2.2.2⟩
  · exact ⟨hc.2.2.2.2.1, hc.2.2.2.2.2.1⟩
  · exact ⟨hc.2.2.2.2.1, hc.2.2.2.2.2.1⟩
  · exact ⟨hc.2.2.2.2.1, hc.2.2.2.2.2.1⟩
  · exact ⟨hc.2.2.2.2.1, hc.2.2.2.2.2.1⟩
  · exact absurd hcp h

theorem exited_facts {s : State} (hI : Inv s) (h : s.cpc = .exited) :
    s.started = 1 ∧ s.ended = 1 ∧ s.rp = .none ∧ s.queued = false ∧
      (match s.fn with | .ok => s.outs = [] ∧ s.returned = 1 | .throw e => s.outs = [(0, e)] ∧ s.returned = 0) ∧
      s.excFreed = s.excAlloc ∧ s.dtDestroyed = (if s.deleg then 1 else 0) ∧ (s.deleg = true → s.completed = true ∧ s.dtLive = false) := by
  have hc := hI.caller
  unfold CallerOK at hc
  rw [h] at hc
  exact hc

end TbbVerif.C03.Exec
