/-
C03 — PipeEH: the wait counter counts the live stage tasks, the waiter leaves only when all are dead, what `~pipeline` does to the
tokens still parked, and the full invariant.
-/
import TbbVerif.Proofs.C03.Pipe

namespace TbbVerif.C03.Pipe

open TbbVerif.C03 (ExcId)

def alive (t : Task) : Nat := if t.pc = .dead then 0 else 1

def aliveUpTo (f : Nat → Task) : Nat → Nat
  | 0 => 0
  | n + 1 => aliveUpTo f n + alive (f n)

theorem aliveUpTo_upd_ge (f : Nat → Task) (k : Nat) (v : Task) : ∀ n, n ≤ k → aliveUpTo (upd f k v) n = aliveUpTo f n := by
  intro n
  induction n with
  | zero => intro _; rfl
  | succ n ih =>
    intro h
    have hne : ¬ n = k := by omega
    simp only [aliveUpTo, upd, hne, if_false]
    rw [ih (by omega)]

theorem aliveUpTo_upd_lt (f : Nat → Task) (k : Nat) (v : Task) : ∀ n, k < n → aliveUpTo (upd f k v) n + alive (f k) = aliveUpTo f n + alive v := by
  intro n
  induction n with
  | zero => intro h; omega
  | succ n ih =>
    intro h
    by_cases hk : n = k
    · subst hk
      simp only [aliveUpTo, upd, if_true]
      rw [aliveUpTo_upd_ge f n v n (Nat.le_refl _)]; omega
    · have := ih (by omega)
      simp only [aliveUpTo, upd, hk, if_false]
      have e : aliveUpTo (upd f k v) n = aliveUpTo (fun j => if j = k then v else f j) n := rfl
      omega

theorem aliveUpTo_upd_same {f : Nat → Task} {k n : Nat} {v : Task} (hk : k < n) (h : alive v = alive (f k)) :
    aliveUpTo (upd f k v) n = aliveUpTo f n := by
  have := aliveUpTo_upd_lt f k v n hk; omega

theorem aliveUpTo_upd_new (f : Nat → Task) (n : Nat) (v : Task) : aliveUpTo (upd f n v) (n + 1) = aliveUpTo f n + alive v := by
  simp only [aliveUpTo, upd, if_true]
  rw [aliveUpTo_upd_ge f n v n (Nat.le_refl _)]

theorem aliveUpTo_zero (f : Nat → Task) : ∀ n, aliveUpTo f n = 0 → ∀ i, i < n → (f i).pc = .dead := by
  intro n
  induction n with
  | zero => intro _ i hi; omega
  | succ n ih =>
    intro h i hi
    simp only [aliveUpTo] at h
    by_cases hin : i = n
    · subst hin
      have : alive (f i) = 0 := by omega
      unfold alive at this
      split at this
      · assumption
      · cases this
    · exact ih (by omega) i (by omega)

variable {s : State}

theorem cnt_stepTask (hc : s.count = aliveUpTo s.tasks s.ntasks) (i ch : Nat) :
    (stepTask s i ch).count = aliveUpTo (stepTask s i ch).tasks (stepTask s i ch).ntasks := by
  unfold stepTask
  by_cases hi : i ≥ s.ntasks
  · simp only [hi, if_true]; exact hc
  · have hi' : i < s.ntasks := by omega
    simp only [hi, if_false]
    cases hpc : (s.tasks i).pc <;> simp only
    all_goals (repeat' split)
    all_goals first
      | exact hc
      | (simp only [setTask, destroyObj]
         rw [aliveUpTo_upd_same hi' (by simp [alive, hpc])]; exact hc)
      | (simp only [aliveUpTo_upd_new, alive]; simp [hc])
      | (simp only [setTask]
         have := aliveUpTo_upd_lt s.tasks i { s.tasks i with pc := TPc.dead, rels := (s.tasks i).rels + 1 } s.ntasks hi'
         simp only [alive, hpc] at this
         simp at this
         omega)

/-- once the wait counter is 0 every stage task is dead and cannot move any more -/
theorem stepTask_frozen (hc : s.count = aliveUpTo s.tasks s.ntasks) (h0 : s.count = 0) (i ch : Nat) : stepTask s i ch = s := by
  unfold stepTask
  by_cases hi : i ≥ s.ntasks
  · simp only [hi, if_true]
  · have hd := aliveUpTo_zero s.tasks s.ntasks (by omega) i (by omega)
    simp only [hi, if_false, hd]

/-! ### `~pipeline` -/

theorem tearDown_objs (s : State) : ∀ n a, (tearDown s n).1 a =
    if a < n ∧ (s.objs a).parked = true ∧ s.sk.bufferClears = true
    then { (s.objs a) with destroyed := (s.objs a).destroyed + 1, parked := false } else s.objs a := by
  intro n
  induction n with
  | zero => intro a; simp [tearDown]
  | succ n ih =>
    intro a
    have iha := ih a
    simp only [tearDown]
    by_cases han : a = n
    · subst han
      have hself : (tearDown s a).1 a = s.objs a := by rw [iha]; simp
      by_cases hp : (s.objs a).parked = true <;> by_cases hb : s.sk.bufferClears = true <;> simp [hp, hb, upd, hself]
    · have hlt : a < n + 1 ↔ a < n := by omega
      by_cases hp : (s.objs n).parked = true <;> by_cases hb : s.sk.bufferClears = true <;> simp [hp, hb, upd, han, iha, hlt]

theorem tearDown_leaked_clears (s : State) (hb : s.sk.bufferClears = true) : ∀ n, (tearDown s n).2 = 0 := by
  intro n
  induction n with
  | zero => rfl
  | succ n ih => simp only [tearDown]; split <;> simp [hb, ih]

theorem tearDown_leaked_zero (s : State) (hb : s.sk.bufferClears = false) : ∀ n, (tearDown s n).2 = 0 → ∀ a, a < n → (s.objs a).parked = false := by
  intro n
  induction n with
  | zero => intro _ a ha; omega
  | succ n ih =>
    intro h a ha
    simp only [tearDown, hb] at h
    by_cases hp : (s.objs n).parked = true
    · simp [hp] at h
    · simp only [hp, if_false] at h
      by_cases han : a = n
      · subst han; simpa using hp
      · exact ih h a (by omega)

theorem tearDown_leaked_pos (s : State) (hb : s.sk.bufferClears = false) : ∀ n a, a < n → (s.objs a).parked = true → 0 < (tearDown s n).2 := by
  intro n a ha hp
  rcases Nat.eq_zero_or_pos (tearDown s n).2 with h0 | h
  · have := tearDown_leaked_zero s hb n h0 a ha; rw [hp] at this; cases this
  · exact h

/-- what holds of every token object once the pipeline object has been destroyed -/
def Settled (s : State) : Prop :=
  ∀ a, a < s.nobjs → ((s.objs a).destroyed = 1 ∧ (s.objs a).parked = false) ∨
    ((s.objs a).destroyed = 0 ∧ (s.objs a).parked = true ∧ s.sk.bufferClears = false)

structure InvP (s : State) : Prop where
  inv1 : Inv1 s
  cnt : s.count = aliveUpTo s.tasks s.ntasks
  wait : s.wpc ≠ .waiting → s.count = 0
  settled : (s.wpc = .exited ∨ ∃ oe, s.wpc = .torn oe) → Settled s ∧ (s.leaked = 0 → ∀ a, a < s.nobjs → (s.objs a).destroyed = 1) ∧
    (s.sk.bufferClears = true → s.leaked = 0)
  early : s.wpc ≠ .exited → s.outs = [] ∧ s.rets = 0
  oe : (∀ oe, s.wpc = .loaded oe ∨ s.wpc = .torn oe → oe = s.exc) ∧ (s.wpc = .exited → s.outs.length + s.rets = 1)

theorem all_dead (h : InvP s) (h0 : s.count = 0) : ∀ i, i < s.ntasks → (s.tasks i).pc = .dead :=
  aliveUpTo_zero s.tasks s.ntasks (by rw [← h.cnt]; exact h0)

/-- with every task dead, an object that is still alive is parked -/
theorem alive_parked (h : InvP s) (h0 : s.count = 0) (a : Nat) (ha : a < s.nobjs) (hd : (s.objs a).destroyed = 0) :
    (s.objs a).parked = true ∧ (s.objs a).owner = none := by
  obtain ⟨_, hown, hpark, hkept⟩ := h.inv1.objs a ha
  cases ho : (s.objs a).owner with
  | some i =>
    obtain ⟨hi, _, _, hptr⟩ := hown i ho
    have hdead := all_dead h h0 i hi
    obtain ⟨_, _, hm, hp⟩ := h.inv1.tasks i hi
    simp only [pcFacts, hdead] at hp
    rcases hptr with hx | hx
    · rw [hp.1] at hx; cases hx
    · have := hm (by rw [hx]; rfl); rw [hdead] at this; cases this
  | none =>
    rcases hkept hd with hx | hx
    · rw [ho] at hx; cases hx
    · exact ⟨hx, rfl⟩


theorem inv1_congr {s s' : State} (h : Inv1 s) (h1 : s'.tasks = s.tasks) (h2 : s'.ntasks = s.ntasks) (h3 : s'.objs = s.objs)
    (h4 : s'.nobjs = s.nobjs) : Inv1 s' := by
  constructor
  · intro i hi
    rw [h2] at hi
    obtain ⟨a, b, c, d⟩ := h.tasks i hi
    constructor <;> simp only [h1, h3, h4] <;> assumption
  · intro a ha
    rw [h4] at ha
    obtain ⟨p, q, r, t⟩ := h.objs a ha
    constructor <;> simp only [h1, h2, h3] <;> assumption

theorem stepTask_fields (s : State) (i ch : Nat) :
    (stepTask s i ch).wpc = s.wpc ∧ (stepTask s i ch).sk = s.sk ∧ (stepTask s i ch).outs = s.outs ∧ (stepTask s i ch).rets = s.rets ∧
    (stepTask s i ch).leaked = s.leaked := by
  unfold stepTask
  split
  · exact ⟨rfl, rfl, rfl, rfl, rfl⟩
  · cases (s.tasks i).pc <;> simp only <;> (repeat' split) <;> exact ⟨rfl, rfl, rfl, rfl, rfl⟩

theorem invP_stepTask (h : InvP s) (i ch : Nat) : InvP (stepTask s i ch) := by
  by_cases h0 : s.count = 0
  · rw [stepTask_frozen h.cnt h0]; exact h
  · have hw : s.wpc = .waiting := by
      cases hx : s.wpc <;> first | rfl | (exact absurd (h.wait (by rw [hx]; simp)) h0)
    obtain ⟨f1, f2, f3, f4, f5⟩ := stepTask_fields s i ch
    refine ⟨inv1_stepTask h.inv1 i ch, cnt_stepTask h.cnt i ch, ?_, ?_, ?_, ?_⟩
    · rw [f1, hw]; intro hx; exact absurd rfl hx
    · rw [f1, hw]; rintro (hx | ⟨oe, hx⟩) <;> cases hx
    · intro _; rw [f3, f4]; exact h.early (by rw [hw]; simp)
    · rw [f1, hw, f3, f4]
      refine ⟨?_, fun hx => by cases hx⟩
      intro oe hx
      rcases hx with hx | hx <;> cases hx

theorem invP_tear (h : InvP s) (oe : Option ExcId) (hw : s.wpc = .loaded oe) :
    InvP { s with wpc := .torn oe, objs := (tearDown s s.nobjs).1, leaked := (tearDown s s.nobjs).2 } := by
  have h0 : s.count = 0 := h.wait (by rw [hw]; simp)
  have hdead := all_dead h h0
  have hobj : ∀ a, a < s.nobjs → (tearDown s s.nobjs).1 a =
      if (s.objs a).parked = true ∧ s.sk.bufferClears = true
      then { (s.objs a) with destroyed := (s.objs a).destroyed + 1, parked := false } else s.objs a := by
    intro a ha; rw [tearDown_objs]; simp [ha]
  have hsettled : ∀ a, a < s.nobjs →
      (((tearDown s s.nobjs).1 a).destroyed = 1 ∧ ((tearDown s s.nobjs).1 a).parked = false) ∨
      (((tearDown s s.nobjs).1 a).destroyed = 0 ∧ ((tearDown s s.nobjs).1 a).parked = true ∧ s.sk.bufferClears = false) := by
    intro a ha
    rw [hobj a ha]
    obtain ⟨hle, _, hpark, _⟩ := h.inv1.objs a ha
    by_cases hd : (s.objs a).destroyed = 0
    · obtain ⟨hp, _⟩ := alive_parked h h0 a ha hd
      by_cases hb : s.sk.bufferClears = true
      · left; simp [hp, hb, hd]
      · right; simp [hp, hb, hd]
    · have hnp : (s.objs a).parked = false := by
        cases hp : (s.objs a).parked with
        | false => rfl
        | true => exact absurd (hpark hp).1 hd
      left; simp [hnp]; omega
  refine ⟨⟨?_, ?_⟩, h.cnt, fun _ => h0, fun _ => ⟨hsettled, ?_, fun hb => tearDown_leaked_clears s hb _⟩, ?_, ?_⟩
  · intro i hi
    obtain ⟨_, _, hm, hp⟩ := h.inv1.tasks i hi
    have hd := hdead i hi
    simp only [pcFacts, hd] at hp
    refine ⟨?_, ?_, hm, by simp only [pcFacts, hd]; exact hp⟩
    · intro a ha; rw [hp.1] at ha; cases ha
    · intro a ha
      have := hm (by rw [ha]; rfl); rw [hd] at this; cases this
  · intro a ha
    obtain ⟨hle, hown, hpark, hkept⟩ := h.inv1.objs a ha
    show ObjOK _ a
    constructor <;> simp only [hobj a ha] <;> split <;> simp_all <;> omega
  · intro hl a ha
    rcases hsettled a ha with hx | hx
    · exact hx.1
    · exfalso
      have hl' : (tearDown s s.nobjs).2 = 0 := hl
      have := tearDown_leaked_zero s hx.2.2 s.nobjs hl' a ha
      rw [hobj a ha] at hx
      simp only [hx.2.2] at hx
      simp at hx
      rw [hx.2] at this; cases this
  · intro _; exact h.early (by rw [hw]; simp)
  · refine ⟨?_, fun hx => by cases hx⟩
    intro oe' hx
    rcases hx with hx | hx
    · cases hx
    · simp only [WPc.torn.injEq] at hx; subst hx; exact h.oe.1 oe (Or.inl hw)

theorem invP_stepWaiter (h : InvP s) : InvP (stepWaiter s).1 := by
  unfold stepWaiter
  cases hw : s.wpc with
  | waiting =>
    simp only
    split
    · rename_i h0
      refine ⟨inv1_congr h.inv1 rfl rfl rfl rfl, h.cnt, fun _ => h0, ?_, fun _ => h.early (by rw [hw]; simp), ⟨?_, fun hx => by cases hx⟩⟩
      · rintro (hx | ⟨oe, hx⟩) <;> cases hx
      · intro oe hx; rcases hx with hx | hx <;> cases hx
    · exact h
  | left =>
    simp only
    have h0 := h.wait (by rw [hw]; simp)
    refine ⟨inv1_congr h.inv1 rfl rfl rfl rfl, h.cnt, fun _ => h0, ?_, fun _ => h.early (by rw [hw]; simp), ⟨?_, fun hx => by cases hx⟩⟩
    · rintro (hx | ⟨oe, hx⟩) <;> cases hx
    · intro oe hx
      rcases hx with hx | hx
      · simp only [WPc.loaded.injEq] at hx; exact hx.symm
      · cases hx
  | loaded oe => simp only; exact invP_tear h oe hw
  | torn oe =>
    have h0 := h.wait (by rw [hw]; simp)
    have hs := h.settled (Or.inr ⟨oe, hw⟩)
    have he := h.oe
    cases oe with
    | some e =>
      simp only
      have hearly := h.early (by rw [hw]; simp)
      refine ⟨inv1_congr h.inv1 rfl rfl rfl rfl, h.cnt, fun _ => h0, fun _ => hs, ?_, ⟨?_, ?_⟩⟩
      · intro hx; exact absurd rfl hx
      · intro oe' hx; rcases hx with hx | hx <;> cases hx
      · intro _; simp [hearly.1, hearly.2]
    | none =>
      simp only
      have hearly := h.early (by rw [hw]; simp)
      refine ⟨inv1_congr h.inv1 rfl rfl rfl rfl, h.cnt, fun _ => h0, fun _ => hs, ?_, ⟨?_, ?_⟩⟩
      · intro hx; exact absurd rfl hx
      · intro oe' hx; rcases hx with hx | hx <;> cases hx
      · intro _; simp [hearly.1, hearly.2]
  | exited => simp only; exact h


theorem invP_step (h : InvP s) (a : Act) : InvP (step s a) := by
  cases a with
  | task i ch => exact invP_stepTask h i ch
  | waiter => exact invP_stepWaiter h

theorem invP_init (sk : Skel) : InvP (init sk) := by
  refine ⟨⟨?_, ?_⟩, ?_, ?_, ?_, ?_, ?_⟩
  · intro i hi
    have : i = 0 := by simp only [init] at hi; omega
    subst this
    constructor <;> simp [init, upd, pcFacts]
  · intro a ha; simp [init] at ha
  · simp [init, aliveUpTo, upd, alive]
  · simp [init]
  · simp [init]
  · simp [init]
  · simp [init]

theorem invP_runFrom (acts : List Act) : ∀ s : State, InvP s → InvP (runFrom s acts) := by
  induction acts with
  | nil => intro s h; exact h
  | cons a as ih => intro s h; exact ih _ (invP_step h a)

theorem invP_run (sk : Skel) (acts : List Act) : InvP (run sk acts) := invP_runFrom acts _ (invP_init sk)

/-! ### the exception that is stored / rethrown was thrown by a body of the pipeline -/

structure InvT (s : State) : Prop where
  exc : ∀ e, s.exc = some e → e ∈ s.thrown
  pcs : ∀ i e, ((s.tasks i).pc = .caught e ∨ (s.tasks i).pc = .xchg e ∨ (s.tasks i).pc = .store e) → e ∈ s.thrown

theorem invT_stepTask (h : InvT s) (i ch : Nat) : InvT (stepTask s i ch) := by
  obtain ⟨he, hp⟩ := h
  have hpi := hp i
  unfold stepTask
  split
  · exact ⟨he, hp⟩
  · cases hpc : (s.tasks i).pc <;> simp only [hpc] <;> (repeat' split)
    all_goals first
      | exact ⟨he, hp⟩
      | (constructor
         · intro e hx
           simp only [setTask, destroyObj] at hx ⊢
           grind
         · intro j e hx
           simp only [setTask, destroyObj, upd] at hx ⊢
           have hpj := hp j
           grind)

theorem stepWaiter_fields (s : State) :
    (stepWaiter s).1.exc = s.exc ∧ (stepWaiter s).1.thrown = s.thrown ∧ (stepWaiter s).1.tasks = s.tasks ∧ (stepWaiter s).1.sk = s.sk := by
  unfold stepWaiter
  cases s.wpc <;> simp only <;> (repeat' split) <;> (refine ⟨?_, ?_, ?_, ?_⟩ <;> first | rfl | trivial)

theorem invT_step (h : InvT s) (a : Act) : InvT (step s a) := by
  cases a with
  | task i ch => exact invT_stepTask h i ch
  | waiter =>
    obtain ⟨h1, h2, h3, _⟩ := stepWaiter_fields s
    exact ⟨by show ∀ e, (stepWaiter s).1.exc = some e → e ∈ (stepWaiter s).1.thrown; rw [h1, h2]; exact h.exc,
           by show ∀ i e, (((stepWaiter s).1.tasks i).pc = .caught e ∨ ((stepWaiter s).1.tasks i).pc = .xchg e ∨ ((stepWaiter s).1.tasks i).pc = .store e) → e ∈ (stepWaiter s).1.thrown; rw [h2, h3]; exact h.pcs⟩

theorem invT_init (sk : Skel) : InvT (init sk) := by
  constructor
  · simp [init]
  · intro i e hx
    simp only [init, upd] at hx
    split at hx <;> simp at hx

theorem invT_runFrom (acts : List Act) : ∀ s : State, InvT s → InvT (runFrom s acts) := by
  induction acts with
  | nil => intro s h; exact h
  | cons a as ih => intro s h; exact ih _ (invT_step h a)

theorem invT_run (sk : Skel) (acts : List Act) : InvT (run sk acts) := invT_runFrom acts _ (invT_init sk)

theorem stepTask_thrown (s : State) (i ch : Nat) : ∀ e, e ∈ s.thrown → e ∈ (stepTask s i ch).thrown := by
  intro e he
  unfold stepTask
  split
  · exact he
  · cases hpc : (s.tasks i).pc <;> simp only [hpc] <;> (repeat' split)
    all_goals first
      | exact he
      | (simp only [setTask, destroyObj]; first | exact he | exact List.mem_cons_of_mem _ he)

/-- what the waiter is about to rethrow / has rethrown was thrown by a body of the pipeline -/
structure InvO (s : State) : Prop where
  pend : ∀ oe e, (s.wpc = .loaded oe ∨ s.wpc = .torn oe) → oe = some e → e ∈ s.thrown
  outs : ∀ e, e ∈ s.outs → e ∈ s.thrown

theorem invO_step (hT : InvT s) (h : InvO s) (a : Act) : InvO (step s a) := by
  cases a with
  | task i ch =>
    obtain ⟨f1, _, f3, _, _⟩ := stepTask_fields s i ch
    constructor
    · intro oe e hx he
      show e ∈ (stepTask s i ch).thrown
      have hx' : s.wpc = .loaded oe ∨ s.wpc = .torn oe := by
        have : (stepTask s i ch).wpc = .loaded oe ∨ (stepTask s i ch).wpc = .torn oe := hx
        rw [f1] at this; exact this
      exact stepTask_thrown s i ch e (h.pend oe e hx' he)
    · intro e he
      show e ∈ (stepTask s i ch).thrown
      have : e ∈ (stepTask s i ch).outs := he
      rw [f3] at this
      exact stepTask_thrown s i ch e (h.outs e this)
  | waiter =>
    simp only [step]
    unfold stepWaiter
    cases hw : s.wpc with
    | waiting =>
      simp only
      split
      · exact ⟨(by intro oe e hx; rcases hx with hx | hx <;> cases hx), h.outs⟩
      · exact h
    | left =>
      simp only
      refine ⟨?_, h.outs⟩
      intro oe e hx he
      rcases hx with hx | hx
      · simp only [WPc.loaded.injEq] at hx; subst hx; exact hT.exc e he
      · cases hx
    | loaded oe =>
      simp only
      refine ⟨?_, h.outs⟩
      intro oe' e hx he
      rcases hx with hx | hx
      · cases hx
      · simp only [WPc.torn.injEq] at hx; subst hx; exact h.pend _ e (Or.inl hw) he
    | torn oe =>
      cases oe with
      | some e =>
        simp only
        refine ⟨(by intro oe e hx; rcases hx with hx | hx <;> cases hx), ?_⟩
        intro e' he'
        simp only [List.mem_cons] at he'
        rcases he' with hx | hx
        · subst hx; exact h.pend (some e') e' (Or.inr hw) rfl
        · exact h.outs e' hx
      | none =>
        simp only
        exact ⟨(by intro oe e hx; rcases hx with hx | hx <;> cases hx), h.outs⟩
    | exited => simp only; exact h

theorem invO_init (sk : Skel) : InvO (init sk) := by
  constructor
  · intro oe e hx; simp [init] at hx
  · intro e he; simp [init] at he

theorem invO_runFrom (acts : List Act) : ∀ s : State, InvT s → InvO s → InvO (runFrom s acts) := by
  induction acts with
  | nil => intro s _ h; exact h
  | cons a as ih => intro s hT h; exact ih _ (invT_step hT a) (invO_step hT h a)

theorem invO_run (sk : Skel) (acts : List Act) : InvO (run sk acts) := invO_runFrom acts _ (invT_init sk) (invO_init sk)

theorem step_sk (s : State) (a : Act) : (step s a).sk = s.sk := by
  cases a with
  | task i ch => exact (stepTask_fields s i ch).2.1
  | waiter => exact (stepWaiter_fields s).2.2.2

theorem runFrom_sk (acts : List Act) : ∀ s : State, (runFrom s acts).sk = s.sk := by
  induction acts with
  | nil => intro s; rfl
  | cons a as ih => intro s; simp only [runFrom, List.foldl_cons] at ih ⊢; rw [ih]; exact step_sk s a

theorem run_sk (sk : Skel) (acts : List Act) : (run sk acts).sk = sk := runFrom_sk acts _

end TbbVerif.C03.Pipe
