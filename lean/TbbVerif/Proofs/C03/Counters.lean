/-
C03 — per-task counters of DispatchEH: executed at most once, finalised (destroyed) exactly once, wait reference
released exactly once — for programs without throwing join callbacks.
-/
import TbbVerif.Proofs.C03.Steps

namespace TbbVerif.C03

/-- counters of the task held by a thread at pc `p` (c = the context's cancellation flag) -/
def PcOK (c : Bool) : Pc → Task → Prop
  | .check _, tk => tk.fins = 0 ∧ tk.rels = 0 ∧ (tk.execs = 0 ∨ (tk.execs = 1 ∧ c = true))
  | .running _ _, tk => tk.execs = 1 ∧ tk.fins = 0 ∧ tk.rels = 0
  | .finA _, tk => tk.execs ≤ 1 ∧ tk.fins = 0 ∧ tk.rels = 0
  | .finJ _, tk => tk.execs ≤ 1 ∧ tk.fins = 1 ∧ tk.rels = 0
  | .finB _, tk => tk.execs ≤ 1 ∧ tk.fins = 1 ∧ tk.rels = 0
  | .caught _ _, tk => tk.execs = 1 ∧ tk.fins = 0 ∧ tk.rels = 0
  | .xchg _ _, tk => tk.execs = 1 ∧ tk.fins = 0 ∧ tk.rels = 0
  | .store _ _, tk => tk.execs = 1 ∧ tk.fins = 0 ∧ tk.rels = 0 ∧ c = true
  | _, _ => True

structure InvC' (tasks : List Task) (pcs : Tid → Pc) (c : Bool) : Prop where
  joins : ∀ tk ∈ tasks, tk.spec.join = .ok
  ex : ∀ (t : Tid) (i : Nat), (pcs t).task = some i → i < tasks.length
  held : ∀ (t : Tid) (i : Nat) (tk : Task), (pcs t).task = some i → tasks[i]? = some tk → PcOK c (pcs t) tk ∧ tk.st = .held t
  owner : ∀ (i : Nat) (tk : Task) (t : Tid), tasks[i]? = some tk → tk.st = .held t → (pcs t).task = some i
  ready : ∀ (i : Nat) (tk : Task), tasks[i]? = some tk → tk.st = .ready → tk.execs = 0 ∧ tk.fins = 0 ∧ tk.rels = 0
  done : ∀ (i : Nat) (tk : Task), tasks[i]? = some tk → tk.st = .done → tk.execs ≤ 1 ∧ tk.fins = 1 ∧ tk.rels = 1

def InvC (s : State) : Prop := InvC' s.tasks s.pcs s.cancelled

theorem PcOK_mono {c c' : Bool} (h : c = true → c' = true) {p : Pc} {tk : Task} (hp : PcOK c p tk) : PcOK c' p tk := by
  cases p <;> simp only [PcOK] at hp ⊢ <;> try exact hp
  · obtain ⟨a, b, d⟩ := hp
    exact ⟨a, b, d.elim Or.inl (fun x => Or.inr ⟨x.1, h x.2⟩)⟩
  · exact ⟨hp.1, hp.2.1, hp.2.2.1, h hp.2.2.2⟩

def upd (pcs : Tid → Pc) (t : Tid) (p : Pc) : Tid → Pc := fun u => if u = t then p else pcs u

/-- A: thread `t` moves its pc, still holding the same task (or none before and after); the flag may rise -/
theorem invC_move {tasks : List Task} {pcs : Tid → Pc} {c c' : Bool} (hC : InvC' tasks pcs c) (t : Tid) (p' : Pc)
    (hc : c = true → c' = true) (htask : p'.task = (pcs t).task)
    (hok : ∀ tk, PcOK c (pcs t) tk → PcOK c' p' tk) :
    InvC' tasks (upd pcs t p') c' where
  joins := hC.joins
  ex := by
    intro u i hu
    by_cases hut : u = t
    · subst hut; simp only [upd, if_true] at hu; rw [htask] at hu; exact hC.ex u i hu
    · simp only [upd, hut, if_false] at hu; exact hC.ex u i hu
  held := by
    intro u i tk hu hg
    by_cases hut : u = t
    · subst hut
      simp only [upd, if_true] at hu ⊢
      rw [htask] at hu
      have := hC.held u i tk hu hg
      exact ⟨hok tk this.1, this.2⟩
    · simp only [upd, hut, if_false] at hu ⊢
      have := hC.held u i tk hu hg
      exact ⟨PcOK_mono hc this.1, this.2⟩
  owner := by
    intro i tk u hg hs
    have := hC.owner i tk u hg hs
    by_cases hut : u = t
    · subst hut; simp only [upd, if_true]; rw [htask]; exact this
    · simp only [upd, hut, if_false]; exact this
  ready := hC.ready
  done := hC.done

/-- B: thread `t` updates the counters of the task it holds and moves on (possibly finishing it) -/
theorem invC_own {tasks : List Task} {pcs : Tid → Pc} {c : Bool} (hC : InvC' tasks pcs c) (t : Tid) (i : Nat) (tk : Task)
    (hp : (pcs t).task = some i) (hg : tasks[i]? = some tk) (tk' : Task) (p' : Pc)
    (hspec : tk'.spec = tk.spec)
    (hcase : (p'.task = some i ∧ tk'.st = .held t ∧ PcOK c p' tk') ∨
             (p'.task = none ∧ tk'.st = .done ∧ tk'.execs ≤ 1 ∧ tk'.fins = 1 ∧ tk'.rels = 1)) :
    InvC' (tasks.set i tk') (upd pcs t p') c := by
  have hl : i < tasks.length := (List.getElem?_eq_some_iff.mp hg).1
  have hget : ∀ j, (tasks.set i tk')[j]? = if j = i then some tk' else tasks[j]? := by
    intro j
    rw [List.getElem?_set]
    by_cases hj : j = i
    · subst hj; simp [hl]
    · have : ¬ i = j := fun e => hj e.symm
      simp [hj, this]
  have hmine := hC.held t i tk hp hg
  exact {
    joins := by
      intro x hx
      rcases List.mem_or_eq_of_mem_set hx with h | h
      · exact hC.joins x h
      · subst h; rw [hspec]; exact hC.joins tk (List.mem_of_getElem? hg)
    ex := by
      intro u j hu
      rw [List.length_set]
      by_cases hut : u = t
      · subst hut
        simp only [upd, if_true] at hu
        rcases hcase with ⟨h1, _⟩ | ⟨h1, _⟩ <;> rw [h1] at hu <;> cases hu
        exact hl
      · simp only [upd, hut, if_false] at hu; exact hC.ex u j hu
    held := by
      intro u j x hu hgj
      rw [hget] at hgj
      by_cases hut : u = t
      · subst hut
        simp only [upd, if_true] at hu ⊢
        rcases hcase with ⟨h1, h2, h3⟩ | ⟨h1, _⟩
        · rw [h1] at hu; cases hu
          simp at hgj; subst hgj
          exact ⟨h3, h2⟩
        · rw [h1] at hu; cases hu
      · simp only [upd, hut, if_false] at hu ⊢
        by_cases hj : j = i
        · subst hj
          have := (hC.held u j tk hu hg).2
          rw [hmine.2] at this; cases this; exact absurd rfl hut
        · simp [hj] at hgj
          exact hC.held u j x hu hgj
    owner := by
      intro j x u hgj hs
      rw [hget] at hgj
      by_cases hj : j = i
      · subst hj
        simp at hgj; subst hgj
        rcases hcase with ⟨h1, h2, _⟩ | ⟨_, h2, _⟩
        · rw [h2] at hs; cases hs; simp [upd, h1]
        · rw [h2] at hs; cases hs
      · simp [hj] at hgj
        have := hC.owner j x u hgj hs
        by_cases hut : u = t
        · subst hut; rw [hp] at this; cases this; exact absurd rfl hj
        · simp only [upd, hut, if_false]; exact this
    ready := by
      intro j x hgj hs
      rw [hget] at hgj
      by_cases hj : j = i
      · subst hj; simp at hgj; subst hgj
        rcases hcase with ⟨_, h2, _⟩ | ⟨_, h2, _⟩ <;> rw [h2] at hs <;> cases hs
      · simp [hj] at hgj; exact hC.ready j x hgj hs
    done := by
      intro j x hgj hs
      rw [hget] at hgj
      by_cases hj : j = i
      · subst hj; simp at hgj; subst hgj
        rcases hcase with ⟨_, h2, _⟩ | ⟨_, _, h3⟩
        · rw [h2] at hs; cases hs
        · exact h3
      · simp [hj] at hgj; exact hC.done j x hgj hs }

/-- C: an idle thread takes a ready task -/
theorem invC_take {tasks : List Task} {pcs : Tid → Pc} {c : Bool} (hC : InvC' tasks pcs c) (t : Tid) (i : Nat) (tk : Task)
    (hp : (pcs t).task = none) (hg : tasks[i]? = some tk) (hr : tk.st = .ready) :
    InvC' (tasks.set i { tk with st := .held t }) (upd pcs t (.check i)) c := by
  have hl : i < tasks.length := (List.getElem?_eq_some_iff.mp hg).1
  have hget : ∀ j, (tasks.set i { tk with st := .held t })[j]? = if j = i then some { tk with st := .held t } else tasks[j]? := by
    intro j
    rw [List.getElem?_set]
    by_cases hj : j = i
    · subst hj; simp [hl]
    · have : ¬ i = j := fun e => hj e.symm
      simp [hj, this]
  have hz := hC.ready i tk hg hr
  exact {
    joins := by
      intro x hx
      rcases List.mem_or_eq_of_mem_set hx with h | h
      · exact hC.joins x h
      · subst h; exact hC.joins tk (List.mem_of_getElem? hg)
    ex := by
      intro u j hu
      rw [List.length_set]
      by_cases hut : u = t
      · subst hut
        simp only [upd, if_true, Pc.task] at hu
        cases hu; exact hl
      · simp only [upd, hut, if_false] at hu; exact hC.ex u j hu
    held := by
      intro u j x hu hgj
      rw [hget] at hgj
      by_cases hut : u = t
      · subst hut
        simp only [upd, if_true, Pc.task] at hu ⊢
        cases hu
        simp at hgj; subst hgj
        exact ⟨⟨hz.2.1, hz.2.2, Or.inl hz.1⟩, rfl⟩
      · simp only [upd, hut, if_false] at hu ⊢
        by_cases hj : j = i
        · subst hj
          have := (hC.held u j tk hu hg).2
          rw [hr] at this; cases this
        · simp [hj] at hgj
          exact hC.held u j x hu hgj
    owner := by
      intro j x u hgj hs
      rw [hget] at hgj
      by_cases hj : j = i
      · subst hj
        simp at hgj; subst hgj
        cases hs; simp [upd, Pc.task]
      · simp [hj] at hgj
        have := hC.owner j x u hgj hs
        by_cases hut : u = t
        · subst hut; rw [hp] at this; cases this
        · simp only [upd, hut, if_false]; exact this
    ready := by
      intro j x hgj hs
      rw [hget] at hgj
      by_cases hj : j = i
      · subst hj; simp at hgj; subst hgj; cases hs
      · simp [hj] at hgj; exact hC.ready j x hgj hs
    done := by
      intro j x hgj hs
      rw [hget] at hgj
      by_cases hj : j = i
      · subst hj; simp at hgj; subst hgj; cases hs
      · simp [hj] at hgj; exact hC.done j x hgj hs }

/-- D: a fresh ready task is appended -/
theorem invC_append {tasks : List Task} {pcs : Tid → Pc} {c : Bool} (hC : InvC' tasks pcs c) (nt : Task)
    (hj : nt.spec.join = .ok) (hs : nt.st = .ready) (hz : nt.execs = 0 ∧ nt.fins = 0 ∧ nt.rels = 0) :
    InvC' (tasks ++ [nt]) pcs c := by
  have hget : ∀ (j : Nat) (x : Task), (tasks ++ [nt])[j]? = some x → tasks[j]? = some x ∨ x = nt := by
    intro j x h
    rw [List.getElem?_append] at h
    by_cases hl : j < tasks.length
    · rw [if_pos hl] at h; exact Or.inl h
    · rw [if_neg hl] at h
      right
      have := List.mem_of_getElem? h
      simpa using this
  have hold : ∀ (j : Nat) (x : Task), tasks[j]? = some x → (tasks ++ [nt])[j]? = some x := by
    intro j x h
    have hl : j < tasks.length := (List.getElem?_eq_some_iff.mp h).1
    rw [List.getElem?_append, if_pos hl]; exact h
  exact {
    joins := by
      intro x hx
      rcases List.mem_append.mp hx with h | h
      · exact hC.joins x h
      · simp at h; subst h; exact hj
    ex := by
      intro u j hu
      have := hC.ex u j hu
      simp; omega
    held := by
      intro u j x hu hgj
      have hl := hC.ex u j hu
      have hy : tasks[j]? = some tasks[j] := List.getElem?_eq_getElem hl
      have := hold j _ hy
      rw [this] at hgj; cases hgj
      exact hC.held u j _ hu hy
    owner := by
      intro j x u hgj hst
      rcases hget j x hgj with h | h
      · exact hC.owner j x u h hst
      · subst h; rw [hs] at hst; cases hst
    ready := by
      intro j x hgj hst
      rcases hget j x hgj with h | h
      · exact hC.ready j x h hst
      · subst h; exact hz
    done := by
      intro j x hgj hst
      rcases hget j x hgj with h | h
      · exact hC.done j x h hst
      · subst h; rw [hs] at hst; cases hst }

/-- E: nobody holds a task: the flag may change arbitrarily (context reset) -/
theorem invC_quiet {tasks : List Task} {pcs : Tid → Pc} {c : Bool} (hC : InvC' tasks pcs c) (hq : ∀ u, (pcs u).task = none)
    (t : Tid) (p' : Pc) (hp' : p'.task = none) (c' : Bool) : InvC' tasks (upd pcs t p') c' := by
  have hq' : ∀ u, (upd pcs t p' u).task = none := by
    intro u; by_cases hut : u = t
    · subst hut; simp [upd, hp']
    · simp [upd, hut, hq u]
  exact {
    joins := hC.joins
    ex := by intro u i hu; rw [hq' u] at hu; cases hu
    held := by intro u i tk hu; rw [hq' u] at hu; cases hu
    owner := by
      intro i tk u hg hs
      have := hC.owner i tk u hg hs
      rw [hq u] at this; cases this
    ready := hC.ready
    done := hC.done }

theorem invC_flag {tasks : List Task} {pcs : Tid → Pc} {c c' : Bool} (hC : InvC' tasks pcs c) (h : c = true → c' = true) : InvC' tasks pcs c' where
  joins := hC.joins
  ex := hC.ex
  held := by intro u i tk hu hg; have := hC.held u i tk hu hg; exact ⟨PcOK_mono h this.1, this.2⟩
  owner := hC.owner
  ready := hC.ready
  done := hC.done

/-- state-level invariant: counters + every program entry has a non-throwing join -/
structure InvCS (s : State) : Prop where
  c : InvC' s.tasks s.pcs s.cancelled
  prog : ∀ sp ∈ s.prog, sp.join = .ok

theorem setPc_pcs_upd (s : State) (t : Tid) (p : Pc) : (setPc s t p).pcs = upd s.pcs t p := rfl

theorem modTask_tasks_of_get {s : State} {i : Nat} {tk : Task} (f : Task → Task) (hg : s.tasks[i]? = some tk) :
    (modTask s i f).tasks = s.tasks.set i (f tk) := by
  rw [modTask_eq, hg]

theorem specOf_of_get {s : State} {i : Nat} {tk : Task} (hg : s.tasks[i]? = some tk) : specOf s i = tk.spec := by
  simp [specOf, hg]

theorem invC_spawn_move {s : State} (hC : InvCS s) (t : Tid) (j : Nat) (p' : Pc) (htask : p'.task = (s.pcs t).task)
    (hok : ∀ tk, PcOK s.cancelled (s.pcs t) tk → PcOK s.cancelled p' tk) :
    InvC' (spawn s j).tasks (upd s.pcs t p') s.cancelled := by
  have h1 := invC_move hC.c t p' (fun h => h) htask hok
  rw [spawn_eq]
  cases hp : s.prog[j]? with
  | none => exact h1
  | some sp =>
    simp only
    exact invC_append h1 (newTask s sp) (hC.prog sp (List.mem_of_getElem? hp)) rfl ⟨rfl, rfl, rfl⟩

theorem mkCS {s s' : State} (hC : InvCS s) (hprog : s'.prog = s.prog) (h : InvC' s'.tasks s'.pcs s'.cancelled) : InvCS s' :=
  ⟨h, by rw [hprog]; exact hC.prog⟩

macro "norm_cs" : tactic =>
  `(tactic| simp only [setPc_pcs_upd, setPc_tasks, setPc_cancelled, modTask_pcs, modTask_cancelled, spawn_pcs, spawn_cancelled])

theorem invCS_stepThr {s : State} (hI : Inv s) (hC : InvCS s) (t : Tid) (c : Nat) : InvCS (stepThr s t c).1 := by
  unfold stepThr
  cases h : s.pcs t with
  | idle =>
    simp only
    split
    · refine mkCS hC (by simp) ?_
      norm_cs
      exact invC_move hC.c t .wexit (fun h => h) (by rw [h]; rfl) (fun _ _ => trivial)
    · split
      · rename_i tk hg
        split
        · rename_i hr
          refine mkCS hC (by simp) ?_
          norm_cs
          rw [modTask_tasks_of_get _ hg]
          exact invC_take hC.c t c tk (by rw [h]; rfl) hg hr
        · exact hC
      · exact hC
  | check i =>
    obtain ⟨tk, hg, hst⟩ := hI.held_of_task (t := t) (i := i) (by rw [h]; rfl)
    have hmine := (hC.c.held t i tk (by rw [h]; rfl) hg).1
    rw [h] at hmine
    simp only [PcOK] at hmine
    simp only
    split
    · refine mkCS hC (by simp) ?_
      norm_cs
      refine invC_move hC.c t (.finA i) (fun h => h) (by rw [h]; rfl) ?_
      intro x hx; rw [h] at hx; simp only [PcOK] at hx ⊢
      exact ⟨by rcases hx.2.2 with h0 | h1 <;> omega, hx.1, hx.2.1⟩
    · rename_i hc
      refine mkCS hC (by simp) ?_
      norm_cs
      rw [modTask_tasks_of_get _ hg]
      refine invC_own hC.c t i tk (by rw [h]; rfl) hg _ _ rfl (Or.inl ⟨rfl, hst, ?_⟩)
      simp only [PcOK]
      rcases hmine.2.2 with h0 | h1
      · exact ⟨by omega, hmine.1, hmine.2.1⟩
      · exact absurd h1.2 hc
  | running i k =>
    simp only
    split
    · refine mkCS hC (by simp) ?_
      norm_cs
      exact invC_spawn_move hC t _ _ (by rw [h]; rfl) (fun x hx => by rw [h] at hx; exact hx)
    · split
      · refine mkCS hC (by simp) ?_
        norm_cs
        refine invC_move hC.c t (.finA i) (fun h => h) (by rw [h]; rfl) ?_
        intro x hx; rw [h] at hx; simp only [PcOK] at hx ⊢
        exact ⟨by omega, hx.2.1, hx.2.2⟩
      · refine mkCS hC (by simp) ?_
        norm_cs
        refine invC_move hC.c t (.caught i _) (fun h => h) (by rw [h]; rfl) ?_
        intro x hx; rw [h] at hx; exact hx
  | finA i =>
    obtain ⟨tk, hg, hst⟩ := hI.held_of_task (t := t) (i := i) (by rw [h]; rfl)
    have hmine := (hC.c.held t i tk (by rw [h]; rfl) hg).1
    rw [h] at hmine
    simp only [PcOK] at hmine
    simp only
    refine mkCS hC (by simp) ?_
    norm_cs
    rw [modTask_tasks_of_get _ hg]
    refine invC_own hC.c t i tk (by rw [h]; rfl) hg _ _ rfl (Or.inl ⟨rfl, hst, ?_⟩)
    simp only [PcOK]
    exact ⟨hmine.1, by omega, hmine.2.2⟩
  | finJ i =>
    obtain ⟨tk, hg, hst⟩ := hI.held_of_task (t := t) (i := i) (by rw [h]; rfl)
    have hj : (specOf s i).join = .ok := by
      rw [specOf_of_get hg]; exact hC.c.joins tk (List.mem_of_getElem? hg)
    simp only [hj]
    refine mkCS hC (by simp) ?_
    norm_cs
    refine invC_move hC.c t (.finB i) (fun h => h) (by rw [h]; rfl) ?_
    intro x hx; rw [h] at hx; exact hx
  | finB i =>
    obtain ⟨tk, hg, hst⟩ := hI.held_of_task (t := t) (i := i) (by rw [h]; rfl)
    have hmine := (hC.c.held t i tk (by rw [h]; rfl) hg).1
    rw [h] at hmine
    simp only [PcOK] at hmine
    simp only
    refine mkCS hC (by simp) ?_
    norm_cs
    rw [modTask_tasks_of_get (s := { s with count := s.count - 1 }) _ hg]
    exact invC_own hC.c t i tk (by rw [h]; rfl) hg _ _ rfl (Or.inr ⟨rfl, rfl, hmine.1, hmine.2.1, by simp [hmine.2.2]⟩)
  | caught i e =>
    simp only
    split
    · rename_i hc
      refine mkCS hC (by simp) ?_
      norm_cs
      refine invC_move hC.c t (.check i) (fun h => h) (by rw [h]; rfl) ?_
      intro x hx; rw [h] at hx; simp only [PcOK] at hx ⊢
      exact ⟨hx.2.1, hx.2.2, Or.inr ⟨hx.1, hc⟩⟩
    · refine mkCS hC (by simp) ?_
      norm_cs
      refine invC_move hC.c t (.xchg i e) (fun h => h) (by rw [h]; rfl) ?_
      intro x hx; rw [h] at hx; exact hx
  | xchg i e =>
    simp only
    split
    · rename_i hc
      refine mkCS hC (by simp) ?_
      norm_cs
      refine invC_move hC.c t (.check i) (fun h => h) (by rw [h]; rfl) ?_
      intro x hx; rw [h] at hx; simp only [PcOK] at hx ⊢
      exact ⟨hx.2.1, hx.2.2, Or.inr ⟨hx.1, hc⟩⟩
    · refine mkCS hC (by simp) ?_
      norm_cs
      refine invC_move hC.c t (.store i e) (fun _ => rfl) (by rw [h]; rfl) ?_
      intro x hx; rw [h] at hx; simp only [PcOK] at hx ⊢
      exact ⟨hx.1, hx.2.1, hx.2.2, trivial⟩
  | store i e =>
    simp only
    refine mkCS hC (by simp) ?_
    norm_cs
    refine invC_move hC.c t (.check i) (fun h => h) (by rw [h]; rfl) ?_
    intro x hx; rw [h] at hx; simp only [PcOK] at hx ⊢
    exact ⟨hx.2.1, hx.2.2.1, Or.inr ⟨hx.1, hx.2.2.2⟩⟩
  | wspawn k =>
    simp only
    split
    · refine mkCS hC (by simp) ?_
      norm_cs
      exact invC_spawn_move hC t _ _ (by rw [h]; rfl) (fun _ _ => trivial)
    · refine mkCS hC (by simp) ?_
      norm_cs
      exact invC_move hC.c t .idle (fun h => h) (by rw [h]; rfl) (fun _ _ => trivial)
  | wexit =>
    simp only
    refine mkCS hC (by simp) ?_
    norm_cs
    exact invC_move hC.c t (.wreset s.exc) (fun h => h) (by rw [h]; rfl) (fun _ _ => trivial)
  | wreset oe =>
    have hth := hI.th t
    simp only [ThOK, h] at hth
    obtain ⟨ht0, hc0, _⟩ := hth
    subst ht0
    have hq : ∀ u, (s.pcs u).task = none := by
      intro u
      by_cases hu : u = 0
      · subst hu; rw [h]; rfl
      · rw [idle_of_count_zero hI hc0 u hu]; rfl
    simp only
    refine mkCS hC (by simp) ?_
    norm_cs
    exact invC_quiet hC.c hq 0 _ (by split <;> rfl) false
  | wdone => exact hC

theorem invCS_step {s : State} (hI : Inv s) (hC : InvCS s) (a : Act) : InvCS (step s a).1 := by
  cases a with
  | thr t c => exact invCS_stepThr hI hC t c
  | extCancel =>
    simp only [step]
    split
    · exact hC
    · exact ⟨invC_flag hC.c (fun _ => rfl), hC.prog⟩

theorem invCS_init (prog : Prog) (rounds : List (List Nat)) (hp : ∀ sp ∈ prog, sp.join = .ok) : InvCS (init prog rounds) where
  c := {
    joins := by intro tk h; simp [init] at h
    ex := by
      intro t i h
      simp only [init] at h
      split at h <;> simp [Pc.task] at h
    held := by
      intro t i tk h
      simp only [init] at h
      split at h <;> simp [Pc.task] at h
    owner := by intro i tk t h; simp [init] at h
    ready := by intro i tk h; simp [init] at h
    done := by intro i tk h; simp [init] at h }
  prog := hp

theorem invCS_runFrom (sched : List Act) : ∀ s : State, Inv s → InvCS s → InvCS (runFrom s sched) := by
  induction sched with
  | nil => intro s _ h; exact h
  | cons a as ih => intro s hI h; exact ih _ (inv_step hI a) (invCS_step hI h a)

theorem invCS_run (prog : Prog) (rounds : List (List Nat)) (hp : ∀ sp ∈ prog, sp.join = .ok) (sched : List Act) :
    InvCS (run prog rounds sched) :=
  invCS_runFrom sched _ (inv_init prog rounds) (invCS_init prog rounds hp)

end TbbVerif.C03
