/-
C03 — every step of DispatchEH preserves `Inv`.
-/
import TbbVerif.Proofs.C03.Inv

namespace TbbVerif.C03

variable {s : State} {t : Tid}

/-! ### local steps -/

theorem notDone_iff (tk : Task) : notDone tk = true ↔ tk.st ≠ .done := by
  unfold notDone; exact bne_iff_ne
theorem notDone_eq_of_st {a b : Task} (h : (a.st = .done) ↔ (b.st = .done)) : notDone a = notDone b := by
  have ha := notDone_iff a
  have hb := notDone_iff b
  cases hx : notDone a <;> cases hy : notDone b <;> simp_all

theorem inv_take (hI : Inv s) (h : s.pcs t = .idle) {c : Nat} {tk : Task} (hg : s.tasks[c]? = some tk) (hr : tk.st = .ready) :
    Inv (setPc (modTask s c fun x => { x with st := .held t }) t (.check c)) := by
  have hne : ∀ u i, Held s u i → i ≠ c := by
    rintro u i ⟨a, ha, hsa⟩ e; subst e; rw [hg] at ha; cases ha; rw [hr] at hsa; cases hsa
  refine inv_local (t := t) hI (fun u hu => by simp [hu]) ?_ ?_ (fun _ h0 => by simpa using h0)
    (by simp) (by simp) (by simp) (by simp) (by simp) (by simp) (by simp) ?_ (fun i e => by rw [h]; simp) (by rw [h]; simp)
  · intro u i _ hh; exact (Held_setPc _ _ _ _ _).mpr (Held_modTask_ne _ (hne u i hh) hh)
  · simp only [setPc_count, setPc_tasks, modTask_count]
    rw [modTask_eq, hg]
    simp only
    rw [countP_set_same notDone s.tasks c tk _ hg (notDone_eq_of_st (by simp [hr]))]
    exact hI.cnt
  · simp only [ThOK, setPc_pcs, if_true]
    exact ⟨{ tk with st := .held t }, by simp only [setPc_tasks]; rw [modTask_get]; simp [hg], rfl⟩

theorem inv_leave (hI : Inv s) (h : s.pcs t = .idle) (ht : t = 0) (hc : s.count = 0) : Inv (setPc s t .wexit) := by
  refine inv_local (t := t) hI (fun u hu => by simp [hu]) (fun u i _ hh => hh) hI.cnt (fun _ h0 => h0)
    rfl rfl rfl rfl rfl rfl rfl ?_ (fun i e => by rw [h]; simp) (by rw [h]; simp)
  simp only [ThOK, setPc_pcs, if_true]; exact ⟨ht, hc⟩

theorem inv_check_cancel (hI : Inv s) {i : Nat} (h : s.pcs t = .check i) : Inv (setPc s t (.finA i)) := by
  have hh : Held s t i := hI.held_of_task (by rw [h]; rfl)
  refine inv_local (t := t) hI (fun u hu => by simp [hu]) (fun u i _ hh => hh) hI.cnt (fun _ h0 => h0)
    rfl rfl rfl rfl rfl rfl rfl ?_ (fun i e => by rw [h]; simp) (by rw [h]; simp)
  simp only [ThOK, setPc_pcs, if_true]; exact hh

/-- the holder updates counters of its own task (status unchanged) and moves to `p` -/
theorem inv_own_update (hI : Inv s) {i : Nat} (hh : Held s t i) (f : Task → Task) (hf : ∀ x, (f x).st = x.st) (p : Pc)
    (hp : ThOK (setPc (modTask s i f) t p) t)
    (hnostore : ∀ i e, s.pcs t ≠ .store i e) (hnocaught : ∀ i e, s.pcs t ≠ .caught i e ∧ s.pcs t ≠ .xchg i e) :
    Inv (setPc (modTask s i f) t p) := by
  obtain ⟨tk, hg, hst⟩ := hh
  refine inv_local (t := t) hI (fun u hu => by simp [hu]) ?_ ?_ (fun _ h0 => by simpa using h0)
    (by simp) (by simp) (by simp) (by simp) (by simp) (by simp) (by simp) hp hnostore ?_
  · intro u j hu hj; exact (Held_setPc _ _ _ _ _).mpr (Held_modTask_other _ ⟨tk, hg, hst⟩ hu hj)
  · simp only [setPc_count, setPc_tasks, modTask_count]
    rw [modTask_eq, hg]
    simp only
    rw [countP_set_same notDone s.tasks i tk _ hg (notDone_eq_of_st (by rw [hf]))]
    exact hI.cnt
  · rintro ⟨i', e', h' | h'⟩
    · exact absurd h' (hnocaught i' e').1
    · exact absurd h' (hnocaught i' e').2

theorem inv_check_exec (hI : Inv s) {i : Nat} (h : s.pcs t = .check i) :
    Inv (setPc (modTask s i fun x => { x with execs := x.execs + 1 }) t (.running i 0)) := by
  have hh : Held s t i := hI.held_of_task (by rw [h]; rfl)
  refine inv_own_update hI hh (fun x => { x with execs := x.execs + 1 }) (fun _ => rfl) _ ?_ (fun i e => by rw [h]; simp) (fun i e => by rw [h]; simp)
  simp only [ThOK, setPc_pcs, if_true]
  exact (Held_setPc _ _ _ _ _).mpr (Held_modTask_self _ (fun _ => rfl) hh)

theorem inv_finA (hI : Inv s) {i : Nat} (h : s.pcs t = .finA i) :
    Inv (setPc (modTask s i fun x => { x with fins := x.fins + 1 }) t (.finJ i)) := by
  have hh : Held s t i := hI.held_of_task (by rw [h]; rfl)
  refine inv_own_update hI hh (fun x => { x with fins := x.fins + 1 }) (fun _ => rfl) _ ?_ (fun i e => by rw [h]; simp) (fun i e => by rw [h]; simp)
  simp only [ThOK, setPc_pcs, if_true]
  exact (Held_setPc _ _ _ _ _).mpr (Held_modTask_self _ (fun _ => rfl) hh)

/-- submit a task (by a thread that holds one, or by the waiter before the wait) -/
theorem inv_spawn_step (hI : Inv s) (j : Nat) (p : Pc) (hp : ThOK (setPc (spawn s j) t p) t)
    (hc0 : t ≠ 0 → s.count ≠ 0)
    (hnostore : ∀ i e, s.pcs t ≠ .store i e) (hnocaught : ∀ i e, s.pcs t ≠ .caught i e ∧ s.pcs t ≠ .xchg i e) :
    Inv (setPc (spawn s j) t p) := by
  refine inv_local (t := t) hI (fun u hu => by simp [hu]) ?_ ?_ (fun ht h0 => absurd h0 (hc0 ht))
    (by simp) (by simp) (by simp) (by simp) (by simp) (by simp) (by simp) hp hnostore ?_
  · intro u j' _ hj; exact (Held_setPc _ _ _ _ _).mpr (Held_spawn j hj)
  · simp only [setPc_count, setPc_tasks]
    rw [spawn_eq]; split
    · simp [List.countP_append, notDone, newTask]; exact hI.cnt
    · exact hI.cnt
  · rintro ⟨i', e', h' | h'⟩
    · exact absurd h' (hnocaught i' e').1
    · exact absurd h' (hnocaught i' e').2

theorem inv_running_spawn (hI : Inv s) {i k : Nat} (j : Nat) (h : s.pcs t = .running i k) : Inv (setPc (spawn s j) t (.running i (k + 1))) := by
  have hh : Held s t i := hI.held_of_task (by rw [h]; rfl)
  refine inv_spawn_step hI j _ ?_ (fun _ h0 => absurd hh (noHeld_of_count_zero hI.cnt h0 t i)) (fun i e => by rw [h]; simp) (fun i e => by rw [h]; simp)
  simp only [ThOK, setPc_pcs, if_true]
  exact (Held_setPc _ _ _ _ _).mpr (Held_spawn j hh)

theorem inv_wspawn (hI : Inv s) {k : Nat} (j : Nat) (h : s.pcs t = .wspawn k) : Inv (setPc (spawn s j) t (.wspawn (k + 1))) := by
  have hth := hI.th t
  simp only [ThOK, h] at hth
  refine inv_spawn_step hI j _ ?_ (fun h0 => absurd hth h0) (fun i e => by rw [h]; simp) (fun i e => by rw [h]; simp)
  simp only [ThOK, setPc_pcs, if_true]; exact hth

/-- a move of the own pc only -/
theorem inv_move (hI : Inv s) (p : Pc) (hp : ThOK (setPc s t p) t)
    (hnostore : ∀ i e, s.pcs t ≠ .store i e)
    (hcaught : (∃ i e, s.pcs t = .caught i e ∨ s.pcs t = .xchg i e) → (∃ i e, p = .caught i e ∨ p = .xchg i e)) :
    Inv (setPc s t p) := by
  refine inv_local (t := t) hI (fun u hu => by simp [hu]) (fun u i _ hh => hh) hI.cnt (fun _ h0 => h0)
    rfl rfl rfl rfl rfl rfl rfl hp hnostore ?_
  intro hc
  obtain ⟨i, e, h⟩ := hcaught hc
  exact ⟨i, e, by simpa using h⟩

theorem inv_running_ok (hI : Inv s) {i k : Nat} (h : s.pcs t = .running i k) : Inv (setPc s t (.finA i)) := by
  have hh : Held s t i := hI.held_of_task (by rw [h]; rfl)
  refine inv_move hI _ ?_ (fun i e => by rw [h]; simp) (by rw [h]; simp)
  simp only [ThOK, setPc_pcs, if_true]; exact hh

theorem inv_finJ_ok (hI : Inv s) {i : Nat} (h : s.pcs t = .finJ i) : Inv (setPc s t (.finB i)) := by
  have hh : Held s t i := hI.held_of_task (by rw [h]; rfl)
  refine inv_move hI _ ?_ (fun i e => by rw [h]; simp) (by rw [h]; simp)
  simp only [ThOK, setPc_pcs, if_true]; exact hh

theorem inv_caught_load0 (hI : Inv s) {i : Nat} {e : ExcId} (h : s.pcs t = .caught i e) : Inv (setPc s t (.xchg i e)) := by
  have hth := hI.th t
  simp only [ThOK, h] at hth
  refine inv_move hI _ ?_ (fun i e => by rw [h]; simp) (fun _ => ⟨i, e, Or.inr rfl⟩)
  simp only [ThOK, setPc_pcs, if_true]; exact hth

theorem inv_wspawn_done (hI : Inv s) {k : Nat} (h : s.pcs t = .wspawn k) : Inv (setPc s t .idle) := by
  refine inv_move hI _ ?_ (fun i e => by rw [h]; simp) (by rw [h]; simp)
  simp only [ThOK, setPc_pcs, if_true]

theorem inv_wexit (hI : Inv s) (h : s.pcs t = .wexit) : Inv (setPc s t (.wreset s.exc)) := by
  have hth := hI.th t
  simp only [ThOK, h] at hth
  refine inv_move hI _ ?_ (fun i e => by rw [h]; simp) (by rw [h]; simp)
  simp only [ThOK, setPc_pcs, if_true]; exact ⟨hth.1, hth.2, rfl⟩

theorem inv_finB (hI : Inv s) {i : Nat} (h : s.pcs t = .finB i) :
    Inv (setPc (modTask { s with count := s.count - 1 } i fun x => { x with rels := x.rels + 1, st := .done }) t .idle) := by
  have hh : Held s t i := hI.held_of_task (by rw [h]; rfl)
  obtain ⟨tk, hg, hst⟩ := hh
  have hpos := hI.count_pos_of_held ⟨tk, hg, hst⟩
  refine inv_local (t := t) hI (fun u hu => by simp [hu]) ?_ ?_ (fun _ h0 => by simp; omega)
    (by simp) (by simp) (by simp) (by simp) (by simp) (by simp) (by simp) ?_ (fun i e => by rw [h]; simp) (by rw [h]; simp)
  · intro u j hu hj
    exact (Held_setPc _ _ _ _ _).mpr (Held_modTask_other (s := { s with count := s.count - 1 }) _ ⟨tk, hg, hst⟩ hu hj)
  · simp only [setPc_count, setPc_tasks, modTask_count]
    rw [modTask_eq]
    show s.count - 1 = List.countP notDone (match s.tasks[i]? with | some tk => s.tasks.set i _ | none => s.tasks)
    rw [hg]
    simp only
    have := countP_set_dec notDone s.tasks i tk { tk with rels := tk.rels + 1, st := .done } hg ((notDone_iff tk).mpr (by rw [hst]; simp)) (by simp [notDone])
    have hc := hI.cnt
    omega
  · simp only [ThOK, setPc_pcs, if_true]

/-! ### steps that touch the context -/

/-- a body (or a join callback) throws: the thread enters the catch block -/
theorem inv_throw (hI : Inv s) {i : Nat} (e : ExcId) (hh : Held s t i)
    (hnostore : ∀ i e, s.pcs t ≠ .store i e) :
    Inv (setPc { s with thrown := e :: s.thrown } t (.caught i e)) where
  th := by
    intro u
    by_cases hu : u = t
    · subst hu
      simp only [ThOK, setPc_pcs, if_true]
      exact ⟨hh, by simp⟩
    · refine ThOK_frame s _ u (by simp [hu]) (fun _ h => h) (fun x hx => by simp [hx]) (fun hw => ⟨hw, rfl⟩) (fun _ hc => ⟨hc, rfl⟩) (hI.th u)
  cnt := hI.cnt
  canc := hI.canc
  win := by
    intro w hw
    rcases hI.win w hw with h | ⟨i', e', h⟩
    · exact Or.inl h
    · right
      have hwt : w ≠ t := by intro e''; subst e''; exact hnostore i' e' h
      exact ⟨i', e', by simp [hwt, h]⟩
  sto := hI.sto
  excm := by
    intro x hx
    have := hI.excm x hx
    exact ⟨by simp [this.1], this.2⟩
  thr := by
    intro _
    exact Or.inr (Or.inr ⟨t, i, e, Or.inl (by simp)⟩)
  res := hI.res

/-- the catch block finds the context already cancelled (relaxed load or lost exchange) -/
theorem inv_catch_lost (hI : Inv s) {i : Nat} (hh : Held s t i) (hc : s.cancelled = true)
    (hnostore : ∀ i e, s.pcs t ≠ .store i e) : Inv (setPc s t (.check i)) where
  th := by
    intro u
    by_cases hu : u = t
    · subst hu
      simp only [ThOK, setPc_pcs, if_true]
      exact hh
    · refine ThOK_frame s _ u (by simp [hu]) (fun _ h => h) (fun x hx => hx) (fun hw => ⟨hw, rfl⟩) (fun _ hc => ⟨hc, rfl⟩) (hI.th u)
  cnt := hI.cnt
  canc := hI.canc
  win := by
    intro w hw
    rcases hI.win w hw with h | ⟨i', e', h⟩
    · exact Or.inl h
    · right
      have hwt : w ≠ t := by intro e''; subst e''; exact hnostore i' e' h
      exact ⟨i', e', by simp [hwt, h]⟩
  sto := hI.sto
  excm := hI.excm
  thr := by
    intro _
    have := hI.canc
    rw [hc] at this
    simp only [setPc_extC, setPc_winner]
    cases hw : s.winner.isSome
    · rw [hw] at this; simp at this; exact Or.inl this
    · exact Or.inr (Or.inl rfl)
  res := hI.res

/-- the exchange finds 0: this thread is the winner -/
theorem inv_xchg_win (hI : Inv s) {i : Nat} {e : ExcId} (h : s.pcs t = .xchg i e) (hc : s.cancelled = false) :
    Inv (setPc { s with cancelled := true, winner := some t } t (.store i e)) := by
  have hth := hI.th t
  simp only [ThOK, h] at hth
  have hcanc := hI.canc
  rw [hc] at hcanc
  have hwn : s.winner = none := by
    cases hw : s.winner with
    | none => rfl
    | some w => rw [hw] at hcanc; simp at hcanc
  have hex : s.extC = false := by
    cases hx : s.extC with
    | false => rfl
    | true => rw [hx] at hcanc; simp at hcanc
  have hexc : s.exc = none := by
    cases hx : s.exc with
    | none => rfl
    | some x => have := (hI.excm x hx).2; rw [hwn] at this; simp at this
  exact {
    th := by
      intro u
      by_cases hu : u = t
      · subst hu
        simp only [ThOK, setPc_pcs, if_true]
        exact ⟨hth.1, hth.2, rfl, hexc⟩
      · refine ThOK_frame s _ u (by simp [hu]) (fun _ h => h) (fun x hx => hx) ?_ (fun _ hc => ⟨hc, rfl⟩) (hI.th u)
        intro hw; rw [hwn] at hw; cases hw
    cnt := hI.cnt
    canc := by simp
    win := by
      intro w hw
      simp only [setPc_winner] at hw
      cases hw
      right; exact ⟨i, e, by simp⟩
    sto := hI.sto
    excm := by
      intro x hx
      have hx' : s.exc = some x := hx
      rw [hexc] at hx'; cases hx'
    thr := by
      intro _
      exact Or.inr (Or.inl rfl)
    res := hI.res }

/-- the winner stores the exception -/
theorem inv_store (hI : Inv s) {i : Nat} {e : ExcId} (h : s.pcs t = .store i e) :
    Inv (setPc { s with exc := some e, stores := s.stores + 1 } t (.check i)) := by
  have hth := hI.th t
  simp only [ThOK, h] at hth
  obtain ⟨hh, hmem, hwin, hexc⟩ := hth
  exact {
    th := by
      intro u
      by_cases hu : u = t
      · subst hu
        simp only [ThOK, setPc_pcs, if_true]
        exact hh
      · refine ThOK_frame s _ u (by simp [hu]) (fun _ h => h) (fun x hx => hx) ?_ ?_ (hI.th u)
        · intro hw; rw [hwin] at hw; cases hw; exact absurd rfl hu
        · intro _ hc; exact absurd hh (noHeld_of_count_zero hI.cnt hc t i)
    cnt := hI.cnt
    canc := hI.canc
    win := by
      intro w _
      left; rfl
    sto := by
      have := hI.sto
      rw [hexc] at this
      simp at this
      simp [this]
    excm := by
      intro x hx
      have hx' : some e = some x := hx
      cases hx'
      exact ⟨hmem, by simp [hwin]⟩
    thr := by
      intro _
      exact Or.inr (Or.inl (by simp [hwin]))
    res := hI.res }

/-- somebody else cancels the context -/
theorem inv_extCancel (hI : Inv s) (_hc : s.cancelled = false) : Inv { s with cancelled := true, extC := true } where
  th := by
    intro u
    exact ThOK_frame s _ u rfl (fun _ h => h) (fun x hx => hx) (fun hw => ⟨hw, rfl⟩) (fun _ hc => ⟨hc, rfl⟩) (hI.th u)
  cnt := hI.cnt
  canc := by simp
  win := hI.win
  sto := hI.sto
  excm := hI.excm
  thr := fun _ => Or.inl rfl
  res := hI.res

/-- when the counter is 0 nobody holds a task: every other thread is idle -/
theorem idle_of_count_zero (hI : Inv s) (h0 : s.count = 0) (u : Tid) (hu : u ≠ 0) : s.pcs u = .idle := by
  have hth := hI.th u
  unfold ThOK at hth
  have nh := noHeld_of_count_zero hI.cnt h0 u
  cases hp : s.pcs u <;> rw [hp] at hth <;> simp only at hth
  · exact absurd hth (nh _)
  · exact absurd hth (nh _)
  · exact absurd hth (nh _)
  · exact absurd hth (nh _)
  · exact absurd hth (nh _)
  · exact absurd hth.1 (nh _)
  · exact absurd hth.1 (nh _)
  · exact absurd hth.1 (nh _)
  · exact absurd hth hu
  · exact absurd hth.1 hu
  · exact absurd hth.1 hu
  · exact absurd hth hu

/-- the waiter's on_completion: record the result, reset the context -/
theorem inv_wreset (hI : Inv s) {oe : Option ExcId} (h : s.pcs t = .wreset oe) (p : Pc) (hp : p = .wspawn 0 ∨ p = .wdone) :
    Inv (setPc { s with
      results := { res := waitRes oe s.cancelled,
                   thrown := s.thrown, extC := s.extC, stores := s.stores } :: s.results,
      exc := none, cancelled := false, epoch := s.epoch + 1, thrown := [], stores := 0, winner := none, extC := false } t p) := by
  have hth := hI.th t
  simp only [ThOK, h] at hth
  obtain ⟨ht0, hc0, hoe⟩ := hth
  subst ht0
  have nh := noHeld_of_count_zero hI.cnt hc0
  have hidle := idle_of_count_zero hI hc0
  -- nobody is in the catch block or about to store
  have hnostore : ∀ w i e, s.pcs w ≠ .store i e := by
    intro w i e hw
    have := hI.th w
    simp only [ThOK, hw] at this
    exact nh w i this.1
  have hnocaught : ∀ w i e, ¬ (s.pcs w = .caught i e ∨ s.pcs w = .xchg i e) := by
    intro w i e hw
    have := hI.th w
    rcases hw with hw | hw <;> simp only [ThOK, hw] at this <;> exact nh w i this.1
  exact {
    th := by
      intro u
      by_cases hu : u = 0
      · subst hu
        simp only [ThOK, setPc_pcs, if_true]
        rcases hp with hp | hp <;> subst hp <;> simp
      · have := hidle u hu
        simp only [ThOK, setPc_pcs, hu, if_false, this]
    cnt := hI.cnt
    canc := by simp
    win := by intro w hw; simp at hw
    sto := by simp
    excm := by intro x hx; simp at hx
    thr := by intro hne; simp at hne
    res := by
      intro r hr
      simp only [setPc_results, List.mem_cons] at hr
      rcases hr with hr | hr
      · subst hr
        have hsto := hI.sto
        refine ⟨?_, ?_, ?_, ?_⟩
        · show s.stores ≤ 1
          rw [hsto]; split <;> omega
        · intro e he
          simp only [waitRes] at he
          cases oe with
          | none => simp at he; split at he <;> cases he
          | some x =>
            simp at he; subst he
            exact (hI.excm x hoe.symm).1
        · intro hne hx
          simp only at hne hx
          rcases hI.thr hne with h1 | h1 | ⟨w, i, e, h1⟩
          · rw [hx] at h1; cases h1
          · cases hw : s.winner with
            | none => rw [hw] at h1; simp at h1
            | some w =>
              rcases hI.win w hw with h2 | ⟨i, e, h2⟩
              · cases hx2 : s.exc with
                | none => rw [hx2] at h2; simp at h2
                | some x =>
                  rw [hx2] at hoe; subst hoe
                  exact ⟨x, (hI.excm x hx2).1, by simp [waitRes]⟩
              · exact absurd h2 (hnostore w i e)
          · exact absurd h1 (hnocaught w i e)
        · intro hnil hx
          simp only at hnil hx
          have hexc : s.exc = none := by
            cases hx2 : s.exc with
            | none => rfl
            | some x => have := (hI.excm x hx2).1; rw [hnil] at this; simp at this
          rw [hexc] at hoe; subst hoe
          have hwn : s.winner = none := by
            cases hw : s.winner with
            | none => rfl
            | some w =>
              rcases hI.win w hw with h2 | ⟨i, e, h2⟩
              · rw [hexc] at h2; simp at h2
              · exact absurd h2 (hnostore w i e)
          have := hI.canc
          rw [hwn, hx] at this
          simp at this
          simp [waitRes, this]
      · exact hI.res r hr }

/-- the only step that lets an exception out is the waiter's return from the waiting call -/
theorem stepThr_snd (s : State) (t : Tid) (c : Nat) :
    (stepThr s t c).2 = match s.pcs t with | .wreset oe => oe | _ => none := by
  unfold stepThr
  cases s.pcs t <;> simp only <;> (repeat' split) <;> rfl

/-! ### assembling -/

theorem inv_stepThr (hI : Inv s) (t : Tid) (c : Nat) : Inv (stepThr s t c).1 := by
  unfold stepThr
  cases h : s.pcs t with
  | idle =>
    simp only
    split
    · rename_i h0; exact inv_leave hI h h0.1 h0.2
    · split
      · rename_i tk hg
        split
        · rename_i hr; exact inv_take hI h hg hr
        · exact hI
      · exact hI
  | check i =>
    simp only
    split
    · exact inv_check_cancel hI h
    · exact inv_check_exec hI h
  | running i k =>
    simp only
    split
    · exact inv_running_spawn hI _ h
    · split
      · exact inv_running_ok hI h
      · exact inv_throw hI _ (hI.held_of_task (by rw [h]; rfl)) (fun i e => by rw [h]; simp)
  | finA i => exact inv_finA hI h
  | finJ i =>
    simp only
    split
    · exact inv_finJ_ok hI h
    · split
      · exact inv_finJ_ok hI h
      · exact inv_throw hI _ (hI.held_of_task (by rw [h]; rfl)) (fun i e => by rw [h]; simp)
  | finB i => exact inv_finB hI h
  | caught i e =>
    simp only
    split
    · rename_i hc
      exact inv_catch_lost hI (hI.held_of_task (by rw [h]; rfl)) hc (fun i e => by rw [h]; simp)
    · exact inv_caught_load0 hI h
  | xchg i e =>
    simp only
    split
    · rename_i hc
      exact inv_catch_lost hI (hI.held_of_task (by rw [h]; rfl)) hc (fun i e => by rw [h]; simp)
    · rename_i hc
      exact inv_xchg_win hI h (by simpa using hc)
  | store i e => exact inv_store hI h
  | wspawn k =>
    simp only
    split
    · exact inv_wspawn hI _ h
    · exact inv_wspawn_done hI h
  | wexit => exact inv_wexit hI h
  | wreset oe =>
    simp only
    refine inv_wreset hI h _ ?_
    split
    · exact Or.inl rfl
    · exact Or.inr rfl
  | wdone => exact hI

theorem inv_step (hI : Inv s) (a : Act) : Inv (step s a).1 := by
  cases a with
  | thr t c => exact inv_stepThr hI t c
  | extCancel =>
    simp only [step]
    split
    · exact hI
    · rename_i hc; exact inv_extCancel hI (by simpa using hc)

theorem inv_init (prog : Prog) (rounds : List (List Nat)) : Inv (init prog rounds) where
  th := by
    intro t
    by_cases ht : t = 0
    · subst ht; simp [ThOK, init]
    · simp [ThOK, init, ht]
  cnt := by simp [init]
  canc := by simp [init]
  win := by intro w hw; simp [init] at hw
  sto := by simp [init]
  excm := by intro e he; simp [init] at he
  thr := by intro h; simp [init] at h
  res := by intro r hr; simp [init] at hr

theorem inv_runFrom (sched : List Act) : ∀ s : State, Inv s → Inv (runFrom s sched) := by
  induction sched with
  | nil => intro s h; exact h
  | cons a as ih => intro s h; exact ih _ (inv_step h a)

theorem inv_run (prog : Prog) (rounds : List (List Nat)) (sched : List Act) : Inv (run prog rounds sched) :=
  inv_runFrom sched _ (inv_init prog rounds)

end TbbVerif.C03
