/-
C03 — DispatchEH: who holds the cancellation flag (exchange winner XOR somebody else), and what each completed wait reported.
-/
import TbbVerif.Proofs.C03.Steps
namespace TbbVerif.C03

/-- who holds the cancellation flag: a thrower that won the exchange, or somebody else — never both in one epoch -/
structure Inv2 (s : State) : Prop where
  excl : s.extC = true → s.winner = none
  res2 : ∀ r ∈ s.results, (r.extC = true → r.res = .canceled ∧ r.stores = 0) ∧ ((∃ e, r.res = .rethrown e) ↔ r.stores = 1)

theorem inv2_of_same {s s' : State} (h2 : Inv2 s) (h1 : s'.extC = s.extC) (h3 : s'.winner = s.winner) (h4 : s'.results = s.results) : Inv2 s' :=
  ⟨by rw [h1, h3]; exact h2.excl, by rw [h4]; exact h2.res2⟩

theorem inv2_stepThr {s : State} (hI : Inv s) (h2 : Inv2 s) (t : Tid) (c : Nat) : Inv2 (stepThr s t c).1 := by
  unfold stepThr
  cases hp : s.pcs t with
  | xchg i e =>
    simp only
    split
    · exact inv2_of_same h2 (by simp) (by simp) (by simp)
    · rename_i hc
      have hcanc := hI.canc
      have hx : s.extC = false := by
        cases hx : s.extC
        · rfl
        · rw [hx] at hcanc; simp at hcanc; exact absurd hcanc hc
      exact ⟨by simp [hx], by simpa using h2.res2⟩
  | wreset oe =>
    simp only
    have hth := hI.th t
    simp only [ThOK, hp] at hth
    obtain ⟨_, _, hoe⟩ := hth
    refine ⟨by simp, ?_⟩
    intro r hr
    simp only [setPc_results, List.mem_cons] at hr
    rcases hr with h | h
    · subst h
      simp only
      have hsto := hI.sto
      have hcanc := hI.canc
      constructor
      · intro hx
        have hw := h2.excl hx
        have hex : s.exc = none := by
          cases he : s.exc with
          | none => rfl
          | some e => have := (hI.excm e he).2; rw [hw] at this; cases this
        rw [hoe, hex]
        rw [hex] at hsto
        rw [hx, hw] at hcanc
        simp at hcanc hsto
        simp [waitRes, hcanc, hsto]
      · rw [hoe]
        cases he : s.exc with
        | none => rw [he] at hsto; simp at hsto; simp [waitRes, hsto]; split <;> simp
        | some e => rw [he] at hsto; simp at hsto; simp [waitRes, hsto]
    · exact h2.res2 r h
  | _ =>
    simp only
    repeat' split
    all_goals exact inv2_of_same h2 (by simp) (by simp) (by simp)

theorem inv2_step {s : State} (hI : Inv s) (h2 : Inv2 s) (a : Act) : Inv2 (step s a).1 := by
  cases a with
  | thr t c => exact inv2_stepThr hI h2 t c
  | extCancel =>
    simp only [step]
    by_cases hc : s.cancelled = true
    · rw [if_pos hc]; exact h2
    · rw [if_neg hc]
      have hcanc := hI.canc
      refine ⟨fun _ => ?_, h2.res2⟩
      cases hw : s.winner with
      | none => rfl
      | some w => rw [hw] at hcanc; simp at hcanc; exact absurd hcanc hc

theorem inv2_init (prog : Prog) (rounds : List (List Nat)) : Inv2 (init prog rounds) := ⟨by simp [init], by simp [init]⟩

theorem inv2_runFrom (sched : List Act) : ∀ s : State, Inv s → Inv2 s → Inv2 (runFrom s sched) := by
  induction sched with
  | nil => intro s _ h; exact h
  | cons a as ih => intro s hI h; exact ih _ (inv_step hI a) (inv2_step hI h a)

theorem inv2_run (prog : Prog) (rounds : List (List Nat)) (sched : List Act) : Inv2 (run prog rounds sched) :=
  inv2_runFrom sched _ (inv_init prog rounds) (inv2_init prog rounds)
end TbbVerif.C03
