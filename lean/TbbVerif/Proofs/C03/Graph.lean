/-
C03 — GraphEH (wait_for_all wrapper around DispatchEH): invariant and preservation.
-/
import TbbVerif.Proofs.C03.Steps
import TbbVerif.Model.C03Graph

namespace TbbVerif.C03.Graph

open TbbVerif.C03

/-- nothing of the group runs or can start: the wait counter is 0, every task is finished, every other thread is idle -/
def Quiescent (d : C03.State) : Prop :=
  d.count = 0 ∧ (∀ tk ∈ d.tasks, tk.st = .done) ∧ (∀ t, t ≠ 0 → d.pcs t = .idle)

theorem quiescent_of_count_zero {d : C03.State} (hI : C03.Inv d) (h0 : d.count = 0) : Quiescent d := by
  refine ⟨h0, ?_, fun t ht => idle_of_count_zero hI h0 t ht⟩
  intro tk htk
  have hc := hI.cnt
  rw [h0] at hc
  have := (List.countP_eq_zero.mp hc.symm) tk htk
  simpa [notDone] using this

theorem quiescent_of_wreset {d : C03.State} (hI : C03.Inv d) {oe : Option ExcId} (h : d.pcs 0 = .wreset oe) : Quiescent d := by
  have := hI.th 0
  simp only [ThOK, h] at this
  exact quiescent_of_count_zero hI this.2.1

/-- a thread other than the waiter cannot do anything in a quiescent state -/
theorem stepThr_quiescent {d : C03.State} (hq : Quiescent d) (t : Tid) (ht : t ≠ 0) (c : Nat) : (C03.stepThr d t c).1 = d := by
  unfold C03.stepThr
  rw [hq.2.2 t ht]
  simp only [ht, false_and, if_false]
  cases hg : d.tasks[c]? with
  | none => rfl
  | some tk =>
    have : tk.st = .done := hq.2.1 tk (List.mem_of_getElem? hg)
    simp [this]

theorem quiescent_extCancel {d : C03.State} (hq : Quiescent d) : Quiescent (C03.step d .extCancel).1 := by
  simp only [C03.step]
  by_cases hc : d.cancelled = true
  · rw [if_pos hc]; exact hq
  · rw [if_neg hc]; exact hq

/-- the `wreset` step of the waiter, spelled out -/
theorem stepThr_wreset {d : C03.State} {oe : Option ExcId} (h : d.pcs 0 = .wreset oe) (c : Nat) :
    let d' := (C03.stepThr d 0 c).1
    d'.tasks = d.tasks ∧ d'.count = d.count ∧ (∀ t, t ≠ 0 → d'.pcs t = d.pcs t) ∧
    (d'.pcs 0 = .wspawn 0 ∨ d'.pcs 0 = .wdone) ∧
    d'.results = { res := waitRes oe d.cancelled, thrown := d.thrown, extC := d.extC, stores := d.stores } :: d.results ∧
    d'.cancelled = false ∧ d'.exc = none := by
  unfold C03.stepThr
  rw [h]
  simp only [setPc_tasks, setPc_count, setPc_pcs, setPc_results, setPc_cancelled, setPc_exc, if_true]
  refine ⟨trivial, trivial, fun t ht => by simp [ht], ?_, trivial, trivial, trivial⟩
  split <;> simp

def userPc (p : Pc) : Prop := isWspawn p = true ∨ p = .wdone

/-- thread 0 inside the wait: its DispatchEH position is neither before the wait nor after the last round -/
def innerPc (p : Pc) : Prop := isWspawn p = false ∧ p ≠ .wdone

theorem innerPc_step {d : C03.State} (c : Nat) (hin : innerPc (d.pcs 0)) (hnw : ∀ oe, d.pcs 0 ≠ .wreset oe) :
    innerPc ((C03.stepThr d 0 c).1.pcs 0) := by
  unfold C03.stepThr
  cases hp : d.pcs 0 with
  | wspawn k => rw [hp] at hin; simp [innerPc, isWspawn] at hin
  | wdone => rw [hp] at hin; simp [innerPc] at hin
  | wreset oe => exact absurd hp (hnw oe)
  | _ =>
    simp only
    repeat' split
    all_goals simp_all [innerPc, isWspawn, setPc_pcs]

theorem userPc_step {d : C03.State} (c : Nat) (hu : isWspawn (d.pcs 0) = true) :
    let d' := (C03.stepThr d 0 c).1
    isWspawn (d'.pcs 0) = true ∨ d'.pcs 0 = .idle := by
  unfold C03.stepThr
  cases hp : d.pcs 0 with
  | wspawn k =>
    simp only
    split <;> simp [isWspawn]
  | _ => rw [hp] at hu; simp [isWspawn] at hu

theorem userPc_of {p : Pc} (h : p = .wspawn 0 ∨ p = .wdone) : userPc p := by
  rcases h with h | h
  · exact Or.inl (by rw [h]; rfl)
  · exact Or.inr h

structure GInv (g : State) : Prop where
  dinv : C03.Inv g.d
  user : g.gpc = .user → userPc (g.d.pcs 0)
  inner : g.gpc = .inner → innerPc (g.d.pcs 0)
  handler : ∀ e, g.gpc = .handler e → Quiescent g.d ∧ userPc (g.d.pcs 0) ∧
    (∃ r, g.d.results.head? = some r ∧ r.res = .rethrown e)
  ret : g.gpc = .retReset → g.d.pcs 0 = .wreset none
  outs : ∀ e ∈ g.outs, ∃ r ∈ g.d.results, r.res = .rethrown e
  acct : g.outs.length + g.rets + (match g.gpc with | .handler _ => 1 | _ => 0) = g.d.results.length

theorem ginv_init (sk : Skel) (prog : Prog) (rounds : List (List Nat)) : GInv (init sk prog rounds) where
  dinv := inv_init prog rounds
  user := fun _ => Or.inl (by simp [init, C03.init, isWspawn])
  inner := by simp [init]
  handler := by simp [init]
  ret := by simp [init]
  outs := by simp [init]
  acct := by simp [init, C03.init]

/-- a step of thread `t` leaves the position of every other thread alone -/
theorem stepThr_pcs_other (d : C03.State) (t : Tid) (c : Nat) (u : Tid) (hu : u ≠ t) : (C03.stepThr d t c).1.pcs u = d.pcs u := by
  unfold C03.stepThr
  cases hp : d.pcs t <;> simp only <;> (repeat' split) <;> simp [setPc_pcs, hu]

/-- results only grow at the waiter's `wreset` step -/
theorem stepThr_results_ne {d : C03.State} (t : Tid) (c : Nat) (h : ∀ oe, d.pcs t ≠ .wreset oe) : (C03.stepThr d t c).1.results = d.results := by
  unfold C03.stepThr
  cases hp : d.pcs t with
  | wreset oe => exact absurd hp (h oe)
  | _ =>
    simp only
    repeat' split
    all_goals simp

theorem ginv_other {g : State} (hG : GInv g) (t : Tid) (ht : t ≠ 0) (c : Nat) : GInv { g with d := (C03.stepThr g.d t c).1 } := by
  have hne : ∀ oe, g.d.pcs t ≠ .wreset oe := by
    intro oe h
    have := hG.dinv.th t
    simp only [ThOK, h] at this
    exact ht this.1
  have hres := stepThr_results_ne t c hne
  have hpc0 : (C03.stepThr g.d t c).1.pcs 0 = g.d.pcs 0 := by
    have := stepThr_pcs_other g.d t c 0 (fun e => ht e.symm)
    exact this
  refine ⟨inv_stepThr hG.dinv t c, ?_, ?_, ?_, ?_, ?_, ?_⟩
  · intro h; show userPc ((C03.stepThr g.d t c).1.pcs 0); rw [hpc0]; exact hG.user h
  · intro h; show innerPc ((C03.stepThr g.d t c).1.pcs 0); rw [hpc0]; exact hG.inner h
  · intro e h
    obtain ⟨hq, hu, hr⟩ := hG.handler e h
    have hsame := stepThr_quiescent hq t ht c
    show Quiescent (C03.stepThr g.d t c).1 ∧ _
    rw [hsame]
    exact ⟨hq, hu, hr⟩
  · intro h
    have h1 := hG.ret h
    have hq := quiescent_of_wreset hG.dinv h1
    have hsame := stepThr_quiescent hq t ht c
    show (C03.stepThr g.d t c).1.pcs 0 = _
    rw [hsame]
    exact h1
  · intro e he
    show ∃ r ∈ (C03.stepThr g.d t c).1.results, _
    rw [hres]; exact hG.outs e he
  · show _ = (C03.stepThr g.d t c).1.results.length
    rw [hres]; exact hG.acct


theorem extCancel_fields (d : C03.State) :
    (C03.step d .extCancel).1.pcs = d.pcs ∧ (C03.step d .extCancel).1.results = d.results ∧
    (C03.step d .extCancel).1.tasks = d.tasks ∧ (C03.step d .extCancel).1.count = d.count := by
  simp only [C03.step]
  by_cases hc : d.cancelled = true
  · rw [if_pos hc]; exact ⟨rfl, rfl, rfl, rfl⟩
  · rw [if_neg hc]; exact ⟨rfl, rfl, rfl, rfl⟩

theorem ginv_extCancel {g : State} (hG : GInv g) : GInv { g with d := (C03.step g.d .extCancel).1 } := by
  obtain ⟨hp, hr, ht, hc⟩ := extCancel_fields g.d
  refine ⟨inv_step hG.dinv .extCancel, ?_, ?_, ?_, ?_, ?_, ?_⟩
  · intro h; show userPc ((C03.step g.d .extCancel).1.pcs 0); rw [hp]; exact hG.user h
  · intro h; show innerPc ((C03.step g.d .extCancel).1.pcs 0); rw [hp]; exact hG.inner h
  · intro e h
    obtain ⟨hq, hu, hres⟩ := hG.handler e h
    refine ⟨quiescent_extCancel hq, ?_, ?_⟩
    · show userPc ((C03.step g.d .extCancel).1.pcs 0); rw [hp]; exact hu
    · show ∃ r, (C03.step g.d .extCancel).1.results.head? = some r ∧ _; rw [hr]; exact hres
  · intro h; show (C03.step g.d .extCancel).1.pcs 0 = _; rw [hp]; exact hG.ret h
  · intro e he; show ∃ r ∈ (C03.step g.d .extCancel).1.results, _; rw [hr]; exact hG.outs e he
  · show _ = (C03.step g.d .extCancel).1.results.length; rw [hr]; exact hG.acct

theorem ginv_reset {g : State} (hG : GInv g) (a b c : Bool) (n : Nat) :
    GInv { g with gCancelled := a, gCaught := b, gActive := c, needsReset := false, resets := n } :=
  ⟨hG.dinv, hG.user, hG.inner, hG.handler, hG.ret, hG.outs, hG.acct⟩

/-- the waiter's own steps -/
theorem ginv_thr0 {g : State} (hG : GInv g) (c : Nat) : GInv (step g (.d (.thr 0 c))).1 := by
  simp only [step, ne_eq, not_true_eq_false, if_false]
  cases hgp : g.gpc with
  | user =>
    simp only
    by_cases hw : isWspawn (g.d.pcs 0) = true
    · rw [if_pos hw]
      by_cases hn : g.needsReset = true
      · rw [if_pos hn]; exact hG
      · rw [if_neg hn]
        have hne : ∀ oe, g.d.pcs 0 ≠ .wreset oe := by
          intro oe h; rw [h] at hw; simp [isWspawn] at hw
        have hres := stepThr_results_ne 0 c hne
        have hnext := userPc_step c hw
        have hacct := hG.acct
        simp only [hgp] at hacct
        by_cases hi : (C03.stepThr g.d 0 c).1.pcs 0 = .idle
        · rw [if_pos hi]
          refine ⟨inv_stepThr hG.dinv 0 c, by simp, ?_, by simp, by simp, ?_, ?_⟩
          · intro _; show innerPc ((C03.stepThr g.d 0 c).1.pcs 0); rw [hi]; simp [innerPc, isWspawn]
          · intro e he; show ∃ r ∈ (C03.stepThr g.d 0 c).1.results, _; rw [hres]; exact hG.outs e he
          · show _ = (C03.stepThr g.d 0 c).1.results.length; rw [hres]; simpa using hacct
        · rw [if_neg hi]
          refine ⟨inv_stepThr hG.dinv 0 c, ?_, by simp [hgp], by simp [hgp], by simp [hgp], ?_, ?_⟩
          · intro _; show userPc ((C03.stepThr g.d 0 c).1.pcs 0)
            rcases hnext with h | h
            · exact Or.inl h
            · exact absurd h hi
          · intro e he; show ∃ r ∈ (C03.stepThr g.d 0 c).1.results, _; rw [hres]; exact hG.outs e he
          · show _ = (C03.stepThr g.d 0 c).1.results.length; rw [hres]; simpa [hgp] using hacct
    · rw [if_neg hw]; exact hG
  | inner =>
    simp only
    have hin := hG.inner hgp
    have hacct := hG.acct
    simp only [hgp] at hacct
    cases hp : g.d.pcs 0 with
    | wreset oe =>
      obtain ⟨h1, h2, h3, h4, h5, _, _⟩ := stepThr_wreset hp c
      have hq := quiescent_of_wreset hG.dinv hp
      have hq' : Quiescent (C03.stepThr g.d 0 c).1 :=
        ⟨by rw [h2]; exact hq.1, by rw [h1]; exact hq.2.1, fun t ht => by rw [h3 t ht]; exact hq.2.2 t ht⟩
      cases oe with
      | some e =>
        simp only
        refine ⟨inv_stepThr hG.dinv 0 c, by simp, by simp, ?_, by simp, ?_, ?_⟩
        · intro e' he'
          simp only [GPc.handler.injEq] at he'
          subst he'
          exact ⟨hq', userPc_of h4, ⟨_, by rw [h5]; rfl, rfl⟩⟩
        · intro e' he'
          obtain ⟨r, hr, hres⟩ := hG.outs e' he'
          exact ⟨r, by show r ∈ (C03.stepThr g.d 0 c).1.results; rw [h5]; exact List.mem_cons_of_mem _ hr, hres⟩
        · show _ = (C03.stepThr g.d 0 c).1.results.length
          rw [h5]; simp only [List.length_cons]; omega
      | none =>
        simp only
        exact ⟨hG.dinv, by simp, by simp, by simp, fun _ => hp, hG.outs, by simpa using hacct⟩
    | _ =>
      simp only
      all_goals first
        | (exfalso; rw [hp] at hin; simp [innerPc, isWspawn] at hin; done)
        | (have hne : ∀ oe, g.d.pcs 0 ≠ .wreset oe := by (intro oe h; rw [hp] at h; cases h)
           have hres := stepThr_results_ne 0 c hne
           have hnext := innerPc_step c hin hne
           refine ⟨inv_stepThr hG.dinv 0 c, by simp [hgp], fun _ => hnext, by simp [hgp], by simp [hgp], ?_, ?_⟩
           · intro e he; show ∃ r ∈ (C03.stepThr g.d 0 c).1.results, _; rw [hres]; exact hG.outs e he
           · show _ = (C03.stepThr g.d 0 c).1.results.length; rw [hres]; simpa [hgp] using hacct)
  | handler e =>
    simp only
    obtain ⟨hq, hu, r, hr, hres⟩ := hG.handler e hgp
    have hacct := hG.acct
    simp only [hgp] at hacct
    refine ⟨hG.dinv, fun _ => hu, by simp, by simp, by simp, ?_, by simp only [List.length_cons]; omega⟩
    intro e' he'
    simp only [List.mem_cons] at he'
    rcases he' with h | h
    · subst h; exact ⟨r, List.mem_of_mem_head? hr, hres⟩
    · exact hG.outs e' h
  | retReset =>
    simp only
    have hp := hG.ret hgp
    obtain ⟨h1, h2, h3, h4, h5, _, _⟩ := stepThr_wreset hp c
    have hacct := hG.acct
    simp only [hgp] at hacct
    refine ⟨inv_stepThr hG.dinv 0 c, fun _ => userPc_of h4, by simp, by simp, by simp, ?_, ?_⟩
    · intro e' he'
      obtain ⟨r, hr, hres⟩ := hG.outs e' he'
      exact ⟨r, by show r ∈ (C03.stepThr g.d 0 c).1.results; rw [h5]; exact List.mem_cons_of_mem _ hr, hres⟩
    · show _ = (C03.stepThr g.d 0 c).1.results.length
      rw [h5]; simp only [List.length_cons]; omega

theorem ginv_step {g : State} (hG : GInv g) (a : Act) : GInv (step g a).1 := by
  cases a with
  | reset =>
    simp only [step]
    split
    · exact ginv_reset hG _ _ _ _
    · exact hG
  | d a =>
    cases a with
    | extCancel => exact ginv_extCancel hG
    | thr t c =>
      by_cases ht : t = 0
      · subst ht; exact ginv_thr0 hG c
      · simp only [step, ne_eq, ht, not_false_eq_true, if_true]; exact ginv_other hG t ht c

theorem ginv_runFrom (acts : List Act) : ∀ g : State, GInv g → GInv (runFrom g acts) := by
  induction acts with
  | nil => intro g h; exact h
  | cons a as ih => intro g h; exact ih _ (ginv_step h a)

theorem ginv_run (sk : Skel) (prog : Prog) (rounds : List (List Nat)) (acts : List Act) : GInv (run sk prog rounds acts) :=
  ginv_runFrom acts _ (ginv_init sk prog rounds)

end TbbVerif.C03.Graph
