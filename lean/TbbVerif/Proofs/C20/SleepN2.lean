/-
C20 — the `concurrent_monitor::notify` steps of a notifier, the step theorem and the monitor theorem of the
resume-versus-sleep hand-shake.
-/
import TbbVerif.Proofs.C20.SleepN

namespace TbbVerif.C20.Sleep

set_option hygiene false in
macro "fr_vAt" : tactic => `(tactic| exact All.set hn rfl h.vAt (by simp) (fun _ _ _ hp => hp))
set_option hygiene false in
macro "fr_vOf" : tactic => `(tactic| (intro i hi; exact vOf_frame _ hn (by simp [hpc]) (h.vOf i hi)))
set_option hygiene false in
macro "fr_pushed" : tactic =>
  `(tactic| exact All.set hn rfl h.pushed (by simpa [hpc] using hpu.2) (fun _ _ _ hp => hp))
set_option hygiene false in
macro "fr_miss" : tactic =>
  `(tactic| (intro a b c d; exact Ex.set_of hn rfl (h.miss a b c d) (by simp [hpc]) (fun _ hp => hp)))
set_option hygiene false in
macro "fr_work" : tactic =>
  `(tactic| (intro a hnt; exact h.work a (fun hp => hnt (Ex.set_of hn rfl hp (by simp [isTas, hpc]) (fun _ hp => hp)))))

theorem stepN_ntfEmpty (cfg : Cfg) (s : St) (h : Inv s) (j : Nat) (n : Nt)
    (hn : s.ns[j]? = some n) (hpc : n.pc = .ntfEmpty) : Inv (stepN cfg s j n) := by
  have hf := finish_done h hn (by simp [hpc])
  have hpu := h.pushed j n hn
  unfold stepN
  simp only [hpc, hf]
  split
  · simp only [setN]
    refine ⟨h.busy, ?_, ?_, h.out, h.inl, h.rem, ?_, ?_, ?_, ?_, ?_⟩
    · fr_work
    · fr_miss
    · fr_vAt
    · fr_vOf
    · intro a b c
      exact Ex.set_of hn rfl (h.wakeR a b c) (fun _ => Or.inr rfl) (fun _ hp => hp)
    · intro a b c
      exact Ex.set_of hn rfl (h.wakeC a b c) (fun _ => Or.inr rfl) (fun _ hp => hp)
    · fr_pushed
  · rename_i hin
    simp only [setN]
    refine ⟨h.busy, ?_, ?_, h.out, h.inl, h.rem, ?_, ?_, ?_, ?_, ?_⟩
    · fr_work
    · fr_miss
    · fr_vAt
    · fr_vOf
    · intro _ b _; exact absurd b hin
    · intro _ b _; exact absurd b hin
    · fr_pushed

theorem stepN_ntfLocked (cfg : Cfg) (s : St) (h : Inv s) (j : Nat) (n : Nt)
    (hn : s.ns[j]? = some n) (hpc : n.pc = .ntfLocked) : Inv (stepN cfg s j n) := by
  have hf := finish_done h hn (by simp [hpc])
  have hpu := h.pushed j n hn
  unfold stepN
  simp only [hpc, hf]
  split
  · -- the sleeper's node is in the wait set: new epoch, node removed, V owed
    rename_i hin
    obtain ⟨hvo, hsem, hep, hw, _⟩ := h.inl hin
    simp only [setN]
    refine ⟨h.busy, ?_, ?_, ?_, ?_, ?_, ?_, ?_, ?_, ?_, ?_⟩
    · fr_work
    · fr_miss
    · intro a; exact absurd hw a
    · intro a; cases a
    · intro _ _
      exact ⟨by show s.myEpoch < s.epoch + 1; omega, Or.inr ⟨hsem, rfl⟩⟩
    · refine All.set hn rfl h.vAt (by simp) ?_
      intro i w _ hp hv
      have := hp hv
      rw [hvo] at this; cases this
    · intro i hi
      simp only [Option.some.injEq] at hi
      subst hi
      exact ⟨_, get_set_self hn _, rfl⟩
    · intro _ b _; cases b
    · intro _ b _; cases b
    · fr_pushed
  · rename_i hin
    have hin' : s.inList = false := by cases hx : s.inList <;> simp_all
    simp only [setN]
    refine ⟨h.busy, ?_, ?_, h.out, ?_, ?_, ?_, ?_, ?_, ?_, ?_⟩
    · fr_work
    · fr_miss
    · intro a; exact absurd a hin
    · intro a b
      have := h.rem a b
      exact ⟨by show s.myEpoch < s.epoch + 1; omega, this.2⟩
    · fr_vAt
    · fr_vOf
    · intro _ b _; exact absurd b hin
    · intro _ b _; exact absurd b hin
    · fr_pushed

theorem stepN_ntfV (cfg : Cfg) (s : St) (h : Inv s) (j : Nat) (n : Nt)
    (hn : s.ns[j]? = some n) (hpc : n.pc = .ntfV) : Inv (stepN cfg s j n) := by
  have hf := finish_done h hn (by simp [hpc])
  have hpu := h.pushed j n hn
  have hv : s.vOwner = some j := h.vAt j n hn hpc
  have hin : s.inList = false := by
    cases hx : s.inList
    · rfl
    · have := (h.inl hx).1; rw [hv] at this; cases this
  have hw : inW s.sl := by
    by_cases hw : inW s.sl
    · exact hw
    · have := (h.out hw).2.2; rw [hv] at this; cases this
  obtain ⟨hep, hsv⟩ := h.rem hin hw
  have hsem : s.sem = 0 := by
    rcases hsv with hsv | hsv
    · have := hsv.2; rw [hv] at this; cases this
    · exact hsv.1
  unfold stepN
  simp only [hpc, hf, setN]
  refine ⟨h.busy, ?_, ?_, ?_, ?_, ?_, ?_, ?_, ?_, ?_, ?_⟩
  · fr_work
  · fr_miss
  · intro a; exact absurd hw a
  · intro a; rw [hin] at a; cases a
  · intro _ _
    exact ⟨hep, Or.inl ⟨by show s.sem + 1 = 1; omega, rfl⟩⟩
  · refine All.set hn rfl h.vAt (by simp) ?_
    intro i w hij hp hvv
    have := hp hvv
    rw [hv] at this
    simp only [Option.some.injEq] at this
    exact absurd this.symm hij
  · intro i hi; cases hi
  · intro _ b _; rw [hin] at b; cases b
  · intro _ b _; rw [hin] at b; cases b
  · fr_pushed

theorem stepN_inv (cfg : Cfg) (g : Good cfg) (s : St) (h : Inv s) (j : Nat) (n : Nt)
    (hn : s.ns[j]? = some n) : Inv (stepN cfg s j n) := by
  cases hpc : n.pc
  case start => exact stepN_start cfg g s h j n hn hpc
  case tasLoad => exact stepN_tasLoad cfg s h j n hn hpc
  case tasCasBusy => exact stepN_tasCasBusy cfg s h j n hn hpc
  case tasCasUnset => exact stepN_tasCasUnset cfg s h j n hn hpc
  case ntfEmpty => exact stepN_ntfEmpty cfg s h j n hn hpc
  case ntfLocked => exact stepN_ntfLocked cfg s h j n hn hpc
  case ntfV => exact stepN_ntfV cfg s h j n hn hpc
  case latePush => exact absurd hpc (h.pushed j n hn).1
  case done => unfold stepN; simp only [hpc]; exact h

theorem step_inv (cfg : Cfg) (g : Good cfg) (s : St) (t : Tid) (h : Inv s) : Inv (step cfg s t) := by
  unfold step
  cases t with
  | zero => exact stepS_inv cfg g s h
  | succ j =>
    simp only []
    cases hn : s.ns[j]? with
    | none => exact h
    | some n => exact stepN_inv cfg g s h j n hn

theorem inv_reachable (cfg : Cfg) (g : Good cfg) (poolSet : Bool) (kinds : List NKind) (ops : List SOp)
    (sched : List Tid) : Inv ((sys cfg poolSet kinds ops).run sched) :=
  Sys.inv_run (sys cfg poolSet kinds ops) Inv (init_inv poolSet kinds ops) (fun s t h => step_inv cfg g s t h) sched

theorem quiet_iff (s : St) : quiet s = true ↔ All s (fun _ n => n.pc = .start ∨ n.pc = .done) := by
  unfold quiet All
  simp only [List.all_eq_true, Bool.or_eq_true, beq_iff_eq]
  constructor
  · intro h j n hn
    exact h n (List.mem_of_getElem? hn)
  · intro h n hm
    obtain ⟨j, hj⟩ := List.getElem?_of_mem hm
    exact h j n hj

/-- the monitor theorem on the invariant: a quiet state with a pending resume task or recall does not have the
sleeper blocked on its semaphore -/
theorem not_blocked_of_inv (s : St) (h : Inv s) (hq : quiet s = true) (hwork : 0 < s.stream ∨ s.recalled = true) :
    blocked s = false := by
  have hq := (quiet_iff s).mp hq
  have noEx : ∀ P : Nt → Prop, (∀ n, P n → n.pc ≠ .start ∧ n.pc ≠ .done) → ¬ Ex s P := by
    intro P hP ⟨j, n, hn, hp⟩
    have := hP n hp
    rcases hq j n hn with e | e
    · exact this.1 e
    · exact this.2 e
  by_cases hb : blocked s = true
  · exfalso
    unfold blocked at hb
    simp only [Bool.and_eq_true, Bool.or_eq_true, beq_iff_eq] at hb
    obtain ⟨hsl, hsem⟩ := hb
    have hw : inW s.sl := by rcases hsl with e | e <;> simp [inW, e]
    cases hin : s.inList
    · -- the node was removed: the V is posted or a notifier still owes it
      obtain ⟨_, hsv⟩ := h.rem hin hw
      rcases hsv with hsv | hsv
      · omega
      · cases hv : s.vOwner with
        | none => rw [hv] at hsv; simp at hsv
        | some j =>
          obtain ⟨n, hn, hp⟩ := h.vOf j hv
          rcases hq j n hn with e | e <;> rw [e] at hp <;> cases hp
    · -- still in the wait set: then it is parked, and the pending work has a notifier behind it
      have hpk : s.sl = .parked := by
        rcases hsl with e | e
        · exact e
        · exact absurd e (h.inl hin).2.2.2.2
      rcases hwork with hs | hr
      · have hnt : ¬ tasPending s := noEx _ (by intro n hp; rcases hp with e | e | e <;> simp [e])
        have hpool : s.pool ≠ .unset := by
          rcases h.work hs hnt with e | ⟨k, e, _⟩ <;> rw [e] <;> simp
        exact noEx _ (by intro n hp; rcases hp with e | e <;> simp [e]) (h.wakeR (Or.inr (Or.inr hpk)) hin hpool)
      · exact noEx _ (by intro n hp; rcases hp with e | e <;> simp [e]) (h.wakeC (Or.inr hpk) hin hr)
  · simpa using hb

end TbbVerif.C20.Sleep
