/- C20 — facts about the `SuspendPoint` core that the pool proofs use: what a cached / handed-out / occupied core looks
like, which core steps change `owner` / `cached`, and invariance of the core steps the pool calls directly. -/
import TbbVerif.Proofs.C20.Facts

namespace TbbVerif.C20

open SS

/-- a thread on the stack excludes a holder of the resume task, a leaver and a queued resume task -/
theorem inv_stk (c : Core) (t : Tid) (h : Inv c) (hs : c.stk = some t) :
    c.tk = none ∧ c.lv = none ∧ c.rs = none ∧ c.queue = 0 ∧ c.cached = false ∧ c.fresh = false := by
  obtain ⟨_, p, hp⟩ := h
  cases p <;> simp only [spec, base, P_run] at hp <;> simp_all

/-- **a cached dispatcher is idle**: nobody runs it, leaves it, holds it or is about to publish its resume task; no resume
task is queued, the owner is not recalled, no suspend point is handed out; `m_stack_state` is `suspended` -/
theorem inv_cached (c : Core) (h : Inv c) (hc : c.cached = true) :
    c.stk = none ∧ c.lv = none ∧ c.tk = none ∧ c.rs = none ∧ c.queue = 0 ∧ c.recalled = false ∧ c.callable = false ∧
    c.ss = suspended ∧ c.fresh = false := by
  obtain ⟨_, p, hp⟩ := h
  cases p <;> simp only [spec, base, P_run] at hp <;> simp_all

theorem inv_lv (c : Core) (t : Tid) (h : Inv c) (hl : c.lv = some t) :
    c.cached = false ∧ c.stk = none ∧ c.tk = none ∧ c.fresh = false := by
  obtain ⟨_, p, hp⟩ := h
  cases p <;> simp only [spec, base, P_run] at hp <;> simp_all

theorem inv_callable (c : Core) (h : Inv c) (hc : c.callable = true) :
    c.tk = none ∧ c.rs = none ∧ c.queue = 0 ∧ c.cached = false ∧ c.fresh = false := by
  obtain ⟨_, p, hp⟩ := h
  cases p <;> simp only [spec, base, P_run] at hp <;> simp_all

theorem inv_queued (c : Core) (h : Inv c) (hq : 0 < c.queue) :
    c.stk = none ∧ c.tk = none ∧ c.lv = none ∧ c.rs = none ∧ c.cached = false := by
  obtain ⟨_, p, hp⟩ := h
  cases p <;> simp only [spec, base, P_run] at hp <;> simp_all <;> omega

/-! ### invariance of the core steps -/

theorem opResume_inv (c : Core) (t : Tid) (h : Inv c) : Inv (opResume c t).c := by
  by_cases hc : c.callable = true
  · have := inv_callable c h hc
    have h2 := opAny_inv c t .resume h (by rw [this.1]; simp)
    by_cases hs : c.stk = some t
    · -- on the stack: the callback phase; opResume is what stepStk does there too
      obtain ⟨hcm, p, hp⟩ := h
      cases p <;> simp only [spec, base, P_run] at hp <;> simp_all
      all_goals (refine ⟨?_, Ph.cbN, ?_⟩ <;> simp_all [spec, base, opResume, doNotify, Common])
    · exact h2 (by intro h'; exact absurd h' hs)
  · simp [opResume, hc]; exact h

theorem opTake_inv (c : Core) (t : Tid) (h : Inv c) (hs : c.stk ≠ some t) (hk : c.tk ≠ some t) : Inv (opTake c t).c :=
  opAny_inv c t .take h hk (by intro h'; exact absurd h' hs)

theorem opReuse_inv (c : Core) (t : Tid) (h : Inv c) : Inv (opReuse c t).c := by
  by_cases hc : c.cached = true ∨ c.fresh = true
  · have hk : c.tk = none ∧ c.stk = none := by
      obtain ⟨_, p, hp⟩ := h
      cases p <;> simp only [spec, base, P_run] at hp <;> simp_all
    exact opAny_inv c t .reuse h (by rw [hk.1]; simp) (by rw [hk.2]; simp)
  · have : (opReuse c t).c = c := by
      unfold opReuse; rw [if_neg]; intro h'; apply hc
      rcases h' with h' | h'
      · exact Or.inl (by simpa using h')
      · exact Or.inr (by simpa using h')
    rw [this]; exact h

theorem stepStk_inv' (c : Core) (t : Tid) (op : Option Op) (h : Inv c) (hs : c.stk = some t) : Inv (stepStk c t op).c :=
  stepStk_inv c t op h hs (by rw [(inv_stk c t h hs).1]; simp)

/-! ### `owner` never changes; `cached` changes only at the two cache steps -/

theorem lvAfter_owner (c : Core) : (lvAfter c).owner = c.owner ∧ (lvAfter c).cached = c.cached := by
  unfold lvAfter; cases c.kind <;> simp

theorem stepLv_owner (c : Core) : (stepLv c).c.owner = c.owner := by
  unfold stepLv
  cases c.lvPc <;> simp only [] <;> (try split) <;> simp [lvAfter_owner, pushTask]

theorem stepLv_cached (c : Core) : (stepLv c).c.cached = (c.cached || c.lvPc == .cache) := by
  unfold stepLv
  cases c.lvPc <;> simp only [] <;> (try split) <;> simp [lvAfter_owner, pushTask]

theorem stepTk_owner (c : Core) (t : Tid) : (stepTk c t).c.owner = c.owner ∧ (stepTk c t).c.cached = c.cached := by
  simp [stepTk]

theorem opResume_owner (c : Core) (t : Tid) : (opResume c t).c.owner = c.owner ∧ (opResume c t).c.cached = c.cached := by
  unfold opResume; (repeat' split) <;> simp [doNotify]

theorem opTake_owner (c : Core) (t : Tid) : (opTake c t).c.owner = c.owner ∧ (opTake c t).c.cached = c.cached := by
  unfold opTake; (repeat' split) <;> simp

theorem opReuse_owner (c : Core) (t : Tid) : (opReuse c t).c.owner = c.owner := by
  unfold opReuse; split <;> simp

theorem opReuse_pop (c : Core) (t : Tid) (h : (opReuse c t).o = .pop) :
    (c.cached = true ∨ c.fresh = true) ∧ (opReuse c t).c.cached = false := by
  by_cases hc : (c.cached = true ∨ c.fresh = true)
  · refine ⟨hc, ?_⟩; unfold opReuse; rw [if_pos hc]
  · exfalso; unfold opReuse at h; rw [if_neg hc] at h; simp at h

theorem stepStk_owner (c : Core) (t : Tid) (op : Option Op) (hop : op ≠ some .reuse) :
    (stepStk c t op).c.owner = c.owner ∧ (stepStk c t op).c.cached = c.cached := by
  unfold stepStk
  cases c.stkPc <;> simp only []
  case run =>
    cases op with
    | none => simp
    | some op =>
      cases op with
      | switch k => cases k <;> simp only [] <;> (try split) <;> simp [newRound]
      | suspend => simp [newRound]
      | taskBegin => simp only []; split <;> simp
      | taskEnd => simp only []; split <;> simp
      | resume => simp only [opAny]; exact opResume_owner c t
      | take => simp only [opAny]; exact opTake_owner c t
      | reuse => exact absurd rfl hop
      | reserve => simp [opAny, opReserve]
      | waitCheck => simp [opAny, opWaitCheck]
  case cb =>
    cases op with
    | none => simp
    | some op =>
      cases op with
      | switch k => cases k <;> simp
      | resume => simp only []; (repeat' split) <;> simp [doNotify]
      | reserve => simp [opReserve]
      | waitCheck => simp [opWaitCheck]
      | suspend => simp
      | take => simp
      | reuse => simp
      | taskBegin => simp
      | taskEnd => simp
  all_goals (try simp [pushTask])

end TbbVerif.C20
