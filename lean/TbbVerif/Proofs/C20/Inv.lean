/-
C20 — the inductive invariant of the `SuspendPoint` model: the reachable configurations ("phases") of one suspend
point, with the exact value of `m_stack_state`, of the resume-task queue, of the ghost counters and of the state
chain in each of them.
-/
import TbbVerif.Model.C20

namespace TbbVerif.C20

open SS

/-- What a completed suspension must look like. -/
def legalRec (r : Rec) : Prop :=
  match r.kind with
  | .user =>
      r.calls = 1 ∧ r.via = .queue ∧
      ((r.chain = [active, suspended, notified, active] ∧ r.pushR = 1 ∧ r.pushL = 0) ∨
       (r.chain = [active, notified, suspended, notified, active] ∧ r.pushR = 0 ∧ r.pushL = 1))
  | .recall =>
      r.calls = 0 ∧ r.via = .recall ∧ r.byOwner = true ∧ r.pushR = 0 ∧ r.pushL = 0 ∧
      r.chain = [active, suspended, notified, active]
  | .park =>
      r.calls = 0 ∧ r.via = .reuse ∧ r.pushR = 0 ∧ r.pushL = 0 ∧
      (r.chain = [active, suspended, active] ∨ r.chain = [active, active])

/-- facts that hold in every phase -/
def Common (c : Core) : Prop :=
  c.bad = false ∧ c.waitBad = false ∧ c.pending + c.covered = c.wc ∧ (∀ r ∈ c.done, legalRec r)

/-- the shape shared by all phases in which a suspension is in progress -/
def base (c : Core) (stk lv rs tk : Bool) (ss : SS) (chain : List SS) (kind : Kind) (called callable : Bool)
    (rCalls rPushR rPushL queue : Nat) (recalled cached fresh : Bool) (rcl : Nat) : Prop :=
  c.stk.isSome = stk ∧ c.lv.isSome = lv ∧ c.rs.isSome = rs ∧ c.tk.isSome = tk ∧ c.ss = ss ∧ c.chain = chain ∧
  c.kind = kind ∧ c.called = called ∧ c.callable = callable ∧ c.rCalls = rCalls ∧ c.rPushR = rPushR ∧
  c.rPushL = rPushL ∧ c.queue = queue ∧ c.recalled = recalled ∧ c.cached = cached ∧ c.fresh = fresh ∧
  c.rounds = c.done.length + 1 ∧ c.recalls = c.recallTakes + rcl

/-- a thread executes on the stack and no suspension is in progress -/
def P_run (c : Core) : Prop :=
  c.stk.isSome = true ∧ (c.stkPc = .run ∨ c.stkPc = .clr) ∧ (c.stkPc = .run → c.recalled = false) ∧
  (c.stkPc = .clr → c.stk = c.owner) ∧
  c.lv = none ∧ c.rs = none ∧ c.tk = none ∧ c.queue = 0 ∧ c.ss = active ∧ c.callable = false ∧
  c.cached = false ∧ c.fresh = false ∧ c.chain = [active] ∧ c.rounds = c.done.length ∧ c.recalls = c.recallTakes

inductive Ph where
  | run
  | cbA | cbN            -- in the callback; resume not yet called / already called (state notified)
  | leftA | leftN        -- switched away, before finilize_resume's exchange
  | ntf | lpush          -- leaver saw `notified`: about to notify / about to push
  | susp                 -- suspended, waiting for resume
  | rpush                -- resumer saw `suspended`: about to push
  | qR | tR | qL | tL    -- resume task queued / taken; pushed by the Resumer / by the Leaver
  | rcLeft | rcStore | rcFlag | rcWait | rcTaken
  | pkLeft | pkCache | parked | fresh | reuseS | reuseA
  deriving DecidableEq, Repr

def spec : Ph → Core → Prop
  | .run, c => P_run c
  | .cbA, c => base c true false false false active [active] .user false true 0 0 0 0 false false false 0 ∧ c.stkPc = .cb
  | .cbN, c => base c true false false false notified [active, notified] .user true false 1 0 0 0 false false false 0 ∧ c.stkPc = .cb
  | .leftA, c => base c false true false false active [active] .user false true 0 0 0 0 false false false 0 ∧ c.lvPc = .left
  | .leftN, c => base c false true false false notified [active, notified] .user true false 1 0 0 0 false false false 0 ∧ c.lvPc = .left
  | .ntf, c => base c false true false false suspended [active, notified, suspended] .user true false 1 0 0 0 false false false 0 ∧ c.lvPc = .ntf
  | .lpush, c => base c false true false false notified [active, notified, suspended, notified] .user true false 1 0 0 0 false false false 0 ∧ c.lvPc = .push
  | .susp, c => base c false false false false suspended [active, suspended] .user false true 0 0 0 0 false false false 0
  | .rpush, c => base c false false true false notified [active, suspended, notified] .user true false 1 0 0 0 false false false 0
  | .qR, c => base c false false false false notified [active, suspended, notified] .user true false 1 1 0 1 false false false 0
  | .tR, c => base c false false false true notified [active, suspended, notified] .user true false 1 1 0 0 false false false 0 ∧ c.via = .queue
  | .qL, c => base c false false false false notified [active, notified, suspended, notified] .user true false 1 0 1 1 false false false 0
  | .tL, c => base c false false false true notified [active, notified, suspended, notified] .user true false 1 0 1 0 false false false 0 ∧ c.via = .queue
  | .rcLeft, c => base c false true false false active [active] .recall false false 0 0 0 0 false false false 0 ∧ c.lvPc = .left ∧ c.owner.isSome = true
  | .rcStore, c => base c false true false false suspended [active, suspended] .recall false false 0 0 0 0 false false false 0 ∧ c.lvPc = .rcStore ∧ c.owner.isSome = true
  | .rcFlag, c => base c false true false false notified [active, suspended, notified] .recall false false 0 0 0 0 false false false 0 ∧ c.lvPc = .rcFlag ∧ c.owner.isSome = true
  | .rcWait, c => base c false false false false notified [active, suspended, notified] .recall false false 0 0 0 0 true false false 1 ∧ c.owner.isSome = true
  | .rcTaken, c => base c false false false true notified [active, suspended, notified] .recall false false 0 0 0 0 true false false 0 ∧ c.via = .recall ∧ c.tk = c.owner
  | .pkLeft, c => base c false true false false active [active] .park false false 0 0 0 0 false false false 0 ∧ c.lvPc = .left
  | .pkCache, c => base c false true false false suspended [active, suspended] .park false false 0 0 0 0 false false false 0 ∧ c.lvPc = .cache
  | .parked, c => base c false false false false suspended [active, suspended] .park false false 0 0 0 0 false true false 0
  | .fresh, c => base c false false false false active [active] .park false false 0 0 0 0 false false true 0
  | .reuseS, c => base c false false false true suspended [active, suspended] .park false false 0 0 0 0 false false false 0 ∧ c.via = .reuse
  | .reuseA, c => base c false false false true active [active] .park false false 0 0 0 0 false false false 0 ∧ c.via = .reuse

/-- **The invariant.** -/
def Inv (c : Core) : Prop := Common c ∧ ∃ p, spec p c

theorem inv_init (owner : Option Tid) : Inv (initCore owner) := by
  cases owner with
  | none => exact ⟨by simp [Common, initCore], .fresh, by simp [spec, base, initCore]⟩
  | some o => exact ⟨by simp [Common, initCore], .run, by simp [spec, P_run, initCore]⟩

end TbbVerif.C20
