/- C20 — every step of every thread preserves the invariant. -/
import TbbVerif.Proofs.C20.Inv

namespace TbbVerif.C20

open SS

set_option maxRecDepth 2000

/-- contradiction: the phase says the slot is empty but the step's guard says thread `t` is in it -/
macro "absurd_phase" hp:ident : tactic =>
  `(tactic| (simp only [spec, base, P_run] at $hp:ident; simp_all))

macro "to" ph:term : tactic =>
  `(tactic| (refine ⟨?_, $ph, ?_⟩ <;>
      simp_all [spec, base, P_run, Common, legalRec, stepLv, stepTk, lvAfter, pushTask, doNotify, newRound, bnat,
                opResume, opTake, opReuse, opReserve]))

theorem stepLv_inv (c : Core) (t : Tid) (h : Inv c) (hl : c.lv = some t) : Inv (stepLv c).c := by
  obtain ⟨⟨hb, hw, hwc, hd⟩, p, hp⟩ := h
  cases p
  case leftA => simp only [spec, base] at hp; to Ph.susp
  case leftN => simp only [spec, base] at hp; to Ph.ntf
  case ntf => simp only [spec, base] at hp; to Ph.lpush
  case lpush => simp only [spec, base] at hp; to Ph.qL
  case rcLeft => simp only [spec, base] at hp; to Ph.rcStore
  case rcStore => simp only [spec, base] at hp; to Ph.rcFlag
  case rcFlag => simp only [spec, base] at hp; to Ph.rcWait
  case pkLeft => simp only [spec, base] at hp; to Ph.pkCache
  case pkCache => simp only [spec, base] at hp; to Ph.parked
  all_goals absurd_phase hp

theorem rsPush_inv (c : Core) (t : Tid) (h : Inv c) (hr : c.rs = some t) :
    Inv { (pushTask c false) with rs := none } := by
  obtain ⟨⟨hb, hw, hwc, hd⟩, p, hp⟩ := h
  cases p
  case rpush => simp only [spec, base] at hp; to Ph.qR
  all_goals absurd_phase hp

theorem stepTk_inv (c : Core) (t : Tid) (h : Inv c) (hk : c.tk = some t) : Inv (stepTk c t).c := by
  obtain ⟨⟨hb, hw, hwc, hd⟩, p, hp⟩ := h
  cases p
  case tR => simp only [spec, base] at hp; by_cases ho : c.owner = some t <;> to Ph.run
  case tL => simp only [spec, base] at hp; by_cases ho : c.owner = some t <;> to Ph.run
  case rcTaken => simp only [spec, base] at hp; by_cases ho : c.owner = some t <;> to Ph.run
  case reuseS => simp only [spec, base] at hp; by_cases ho : c.owner = some t <;> to Ph.run
  case reuseA => simp only [spec, base] at hp; by_cases ho : c.owner = some t <;> to Ph.run
  all_goals absurd_phase hp

/-- the wait-context test can never observe `wc = 0` while a covered task is suspended: `wc` counts the covered tasks -/
theorem waitFlag_false (c : Core) (hwc : c.pending + c.covered = c.wc) :
    (c.wc == 0 && decide (0 < c.covered) && suspendedNow c) = false := by
  by_cases h0 : c.wc = 0
  · have : c.covered = 0 := by omega
    simp [this]
  · simp [h0]

/-- steps that only touch the wait-context ghosts stay in the same phase -/
theorem spec_wait (p : Ph) (c : Core) (wc pending covered : Nat) (wb : Bool) (h : spec p c) :
    spec p { c with wc := wc, pending := pending, covered := covered, waitBad := wb } := by
  cases p <;> simpa [spec, base, P_run] using h

theorem opReserve_inv (c : Core) (h : Inv c) : Inv (opReserve c).c := by
  obtain ⟨⟨hb, hw, hwc, hd⟩, p, hp⟩ := h
  refine ⟨?_, p, ?_⟩
  · simp [Common, opReserve, hb, hw]; exact ⟨by omega, hd⟩
  · simpa [opReserve] using spec_wait p c (c.wc + 1) (c.pending + 1) c.covered c.waitBad hp

theorem opWaitCheck_inv (c : Core) (h : Inv c) : Inv (opWaitCheck c).c := by
  obtain ⟨⟨hb, hw, hwc, hd⟩, p, hp⟩ := h
  refine ⟨?_, p, ?_⟩
  · have := waitFlag_false c hwc
    simp [Common, opWaitCheck, hb, hw, this, hwc]; exact hd
  · simpa [opWaitCheck] using spec_wait p c c.wc c.pending c.covered _ hp

/-- operations of a thread that is not in the middle of one (free, or on the stack at `run`) -/
theorem opAny_inv (c : Core) (t : Tid) (op : Op) (h : Inv c) (hk : c.tk ≠ some t)
    (hs : c.stk = some t → c.stkPc = .run) : Inv (opAny c t op).c := by
  cases op
  case reserve => exact opReserve_inv c h
  case waitCheck => exact opWaitCheck_inv c h
  case suspend => exact h
  case switch k => exact h
  case taskBegin => exact h
  case taskEnd => exact h
  case resume =>
    simp only [opAny]
    by_cases hcall : c.callable = true
    · obtain ⟨⟨hb, hw, hwc, hd⟩, p, hp⟩ := h
      cases p
      case cbA => simp only [spec, base] at hp; to Ph.cbN
      case leftA => simp only [spec, base] at hp; to Ph.leftN
      case susp => simp only [spec, base] at hp; to Ph.rpush
      all_goals absurd_phase hp
    · have : (opResume c t).c = c := by simp [opResume, hcall]
      rw [this]; exact h
  case take =>
    simp only [opAny]
    by_cases hq : 0 < c.queue
    · obtain ⟨⟨hb, hw, hwc, hd⟩, p, hp⟩ := h
      cases p
      case qR => simp only [spec, base] at hp; to Ph.tR
      case qL => simp only [spec, base] at hp; to Ph.tL
      all_goals (simp only [spec, base, P_run] at hp; omega)
    · by_cases hr : c.recalled = true ∧ c.owner = some t
      · obtain ⟨⟨hb, hw, hwc, hd⟩, p, hp⟩ := h
        cases p
        case rcWait => simp only [spec, base] at hp; to Ph.rcTaken
        case rcTaken =>
          exfalso; simp only [spec, base] at hp
          apply hk; rw [hp.2.2, hr.2]
        case run =>
          exfalso; simp only [spec, P_run] at hp
          rcases hp.2.1 with h1 | h1
          · have := hp.2.2.1 h1; simp_all
          · have h2 := hp.2.2.2.1 h1
            rw [hr.2] at h2
            have := hs h2
            simp_all
        all_goals absurd_phase hp
      · have : (opTake c t).c = c := by simp [opTake, hq, hr]
        rw [this]; exact h
  case reuse =>
    simp only [opAny]
    by_cases hc : c.cached = true ∨ c.fresh = true
    · obtain ⟨⟨hb, hw, hwc, hd⟩, p, hp⟩ := h
      cases p
      case parked => simp only [spec, base] at hp; to Ph.reuseS
      case fresh => simp only [spec, base] at hp; to Ph.reuseA
      all_goals absurd_phase hp
    · have : (opReuse c t).c = c := by simp [opReuse, hc]
      rw [this]; exact h

theorem stepStk_inv (c : Core) (t : Tid) (op : Option Op) (h : Inv c) (hs : c.stk = some t) (hk : c.tk ≠ some t) :
    Inv (stepStk c t op).c := by
  obtain ⟨⟨hb, hw, hwc, hd⟩, p, hp⟩ := h
  cases p
  case run =>
    have hp0 := hp
    simp only [spec, P_run] at hp
    rcases hp.2.1 with hpc | hpc
    · -- stkPc = run
      unfold stepStk; simp only [hpc]
      cases op with
      | none => exact ⟨⟨hb, hw, hwc, hd⟩, .run, hp0⟩
      | some op =>
        cases op with
        | suspend => to Ph.cbA
        | switch k =>
          cases k with
          | user => exact ⟨⟨hb, hw, hwc, hd⟩, .run, hp0⟩
          | recall =>
            by_cases ho : c.owner.isSome = true
            · to Ph.rcLeft
            · simp only [ho]; exact ⟨⟨hb, hw, hwc, hd⟩, .run, hp0⟩
          | park =>
            by_cases ho : c.owner.isNone = true
            · to Ph.pkLeft
            · simp only [ho]; exact ⟨⟨hb, hw, hwc, hd⟩, .run, hp0⟩
        | taskBegin =>
          by_cases hq : 0 < c.pending
          · refine ⟨?_, .run, ?_⟩
            · simp [Common, hq, hb, hw]; exact ⟨by omega, hd⟩
            · simp_all [spec, P_run]
          · simp only [hq]; exact ⟨⟨hb, hw, hwc, hd⟩, .run, hp0⟩
        | taskEnd =>
          by_cases hq : 0 < c.covered
          · refine ⟨?_, .run, ?_⟩
            · simp [Common, hq, hb, hw]; exact ⟨by omega, hd⟩
            · simp_all [spec, P_run]
          · simp only [hq]; exact ⟨⟨hb, hw, hwc, hd⟩, .run, hp0⟩
        | resume => exact opAny_inv c t .resume ⟨⟨hb, hw, hwc, hd⟩, .run, hp0⟩ hk (fun _ => hpc)
        | take => exact opAny_inv c t .take ⟨⟨hb, hw, hwc, hd⟩, .run, hp0⟩ hk (fun _ => hpc)
        | reuse => exact opAny_inv c t .reuse ⟨⟨hb, hw, hwc, hd⟩, .run, hp0⟩ hk (fun _ => hpc)
        | reserve => exact opAny_inv c t .reserve ⟨⟨hb, hw, hwc, hd⟩, .run, hp0⟩ hk (fun _ => hpc)
        | waitCheck => exact opAny_inv c t .waitCheck ⟨⟨hb, hw, hwc, hd⟩, .run, hp0⟩ hk (fun _ => hpc)
    · -- stkPc = clr
      unfold stepStk; simp only [hpc]
      to Ph.run
  case cbA =>
    have hp0 := hp
    simp only [spec, base] at hp
    unfold stepStk; simp only [hp.2]
    cases op with
    | none => exact ⟨⟨hb, hw, hwc, hd⟩, .cbA, hp0⟩
    | some op =>
      cases op with
      | resume => to Ph.cbN
      | switch k =>
        cases k with
        | user => to Ph.leftA
        | recall => exact ⟨⟨hb, hw, hwc, hd⟩, .cbA, hp0⟩
        | park => exact ⟨⟨hb, hw, hwc, hd⟩, .cbA, hp0⟩
      | reserve => exact opReserve_inv c ⟨⟨hb, hw, hwc, hd⟩, .cbA, hp0⟩
      | waitCheck => exact opWaitCheck_inv c ⟨⟨hb, hw, hwc, hd⟩, .cbA, hp0⟩
      | suspend => exact ⟨⟨hb, hw, hwc, hd⟩, .cbA, hp0⟩
      | take => exact ⟨⟨hb, hw, hwc, hd⟩, .cbA, hp0⟩
      | reuse => exact ⟨⟨hb, hw, hwc, hd⟩, .cbA, hp0⟩
      | taskBegin => exact ⟨⟨hb, hw, hwc, hd⟩, .cbA, hp0⟩
      | taskEnd => exact ⟨⟨hb, hw, hwc, hd⟩, .cbA, hp0⟩
  case cbN =>
    have hp0 := hp
    simp only [spec, base] at hp
    unfold stepStk; simp only [hp.2]
    cases op with
    | none => exact ⟨⟨hb, hw, hwc, hd⟩, .cbN, hp0⟩
    | some op =>
      cases op with
      | resume =>
        have : c.callable = false := hp.1.2.2.2.2.2.2.2.2.1
        simp only [this]; exact ⟨⟨hb, hw, hwc, hd⟩, .cbN, hp0⟩
      | switch k =>
        cases k with
        | user => to Ph.leftN
        | recall => exact ⟨⟨hb, hw, hwc, hd⟩, .cbN, hp0⟩
        | park => exact ⟨⟨hb, hw, hwc, hd⟩, .cbN, hp0⟩
      | reserve => exact opReserve_inv c ⟨⟨hb, hw, hwc, hd⟩, .cbN, hp0⟩
      | waitCheck => exact opWaitCheck_inv c ⟨⟨hb, hw, hwc, hd⟩, .cbN, hp0⟩
      | suspend => exact ⟨⟨hb, hw, hwc, hd⟩, .cbN, hp0⟩
      | take => exact ⟨⟨hb, hw, hwc, hd⟩, .cbN, hp0⟩
      | reuse => exact ⟨⟨hb, hw, hwc, hd⟩, .cbN, hp0⟩
      | taskBegin => exact ⟨⟨hb, hw, hwc, hd⟩, .cbN, hp0⟩
      | taskEnd => exact ⟨⟨hb, hw, hwc, hd⟩, .cbN, hp0⟩
  all_goals absurd_phase hp

/-- **Every step preserves the invariant**, whichever thread moves and whatever operation it has next. -/
theorem next_inv (c : Core) (t : Tid) (op : Option Op) (h : Inv c) : Inv (next c t op).c := by
  unfold next
  by_cases h1 : c.lv = some t
  · simp only [h1, if_true]; exact stepLv_inv c t h h1
  · by_cases h2 : c.rs = some t
    · simp only [h1, h2, if_true, if_false]; exact rsPush_inv c t h h2
    · by_cases h3 : c.tk = some t
      · simp only [h1, h2, h3, if_true, if_false]; exact stepTk_inv c t h h3
      · by_cases h4 : c.stk = some t
        · simp only [h1, h2, h3, h4, if_true, if_false]; exact stepStk_inv c t op h h4 h3
        · simp only [h1, h2, h3, h4, if_false]
          cases op with
          | none => exact h
          | some op => exact opAny_inv c t op h h3 (fun hh => absurd hh h4)

theorem step_inv (g : St) (t : Tid) (h : Inv g.c) : Inv (step g t).c := by
  unfold step
  cases hth : g.ths[t]? with
  | none => exact h
  | some th =>
    simp only
    have := next_inv g.c t th.ops.head? h
    cases ho : (next g.c t th.ops.head?).o <;> simp only [] <;> exact this

/-- the invariant holds in every reachable state, for every owner, every set of thread programs and every schedule -/
theorem inv_reachable (owner : Option Tid) (progs : List (List Op)) (sched : List Tid) :
    Inv ((sys owner progs).run sched).c :=
  Sys.inv_run (sys owner progs) (fun g => Inv g.c) (inv_init owner) (fun g t h => step_inv g t h) sched

end TbbVerif.C20
