/-
C20 — the notifiers' steps (`stepN`: r1::resume's push + advertise_new_work<wakeup> + notify, and the owner recall)
preserve the invariant of the resume-versus-sleep hand-shake.
-/
import TbbVerif.Proofs.C20.SleepS

namespace TbbVerif.C20.Sleep

theorem vOf_frame {s : St} {j i : Nat} {n : Nt} (n' : Nt) (hn : s.ns[j]? = some n) (hne : n.pc ≠ .ntfV)
    (h : ∃ w : Nt, s.ns[i]? = some w ∧ w.pc = .ntfV) : ∃ w : Nt, (s.ns.set j n')[i]? = some w ∧ w.pc = .ntfV := by
  obtain ⟨w, hw, hp⟩ := h
  have hij : i ≠ j := by
    intro e; subst e; rw [hn] at hw; cases hw; exact hne hp
  exact ⟨w, by rw [get_set_ne n' hij]; exact hw, hp⟩

set_option hygiene false in
/-- the notifier-indexed clauses that do not depend on the fields a step changed -/
macro "fr_vAt" : tactic => `(tactic| exact All.set hn rfl h.vAt (by simp) (fun _ _ _ hp => hp))
set_option hygiene false in
macro "fr_vOf" : tactic => `(tactic| (intro i hi; exact vOf_frame _ hn (by simp [hpc]) (h.vOf i hi)))
set_option hygiene false in
macro "fr_wakeR" : tactic =>
  `(tactic| (intro a b c; exact Ex.set_of hn rfl (h.wakeR a b c) (by simp [hpc]) (fun _ hp => hp)))
set_option hygiene false in
macro "fr_wakeC" : tactic =>
  `(tactic| (intro a b c; exact Ex.set_of hn rfl (h.wakeC a b c) (by simp [hpc]) (fun _ hp => hp)))
set_option hygiene false in
macro "fr_pushed" : tactic =>
  `(tactic| exact All.set hn rfl h.pushed (by simpa [hpc] using hpu.2) (fun _ _ _ hp => hp))
set_option hygiene false in
macro "fr_miss" : tactic =>
  `(tactic| (intro a b c d; exact Ex.set_of hn rfl (h.miss a b c d) (by simp [hpc]) (fun _ hp => hp)))
set_option hygiene false in
macro "fr_work" : tactic =>
  `(tactic| (intro a hnt; exact h.work a (fun hp => hnt (Ex.set_of hn rfl hp (by simp [isTas, hpc]) (fun _ hp => hp)))))

theorem stepN_start (cfg : Cfg) (g : Good cfg) (s : St) (h : Inv s) (j : Nat) (n : Nt)
    (hn : s.ns[j]? = some n) (hpc : n.pc = .start) : Inv (stepN cfg s j n) := by
  unfold stepN
  simp only [hpc, g.pushFirst, g.adv, g.recallNtf, if_true, setN]
  cases hk : n.kind <;> simp only []
  · -- resume: push, then test_and_set
    refine ⟨h.busy, ?_, ?_, h.out, h.inl, h.rem, ?_, ?_, ?_, ?_, ?_⟩
    · intro _ hnt
      exact absurd (Ex.set_self hn rfl (by simp [isTas])) hnt
    · intro _ _ _ _
      exact Ex.set_self hn rfl (Or.inl rfl)
    · fr_vAt
    · fr_vOf
    · fr_wakeR
    · fr_wakeC
    · exact All.set hn rfl h.pushed (by simp) (fun _ _ _ hp => hp)
  · -- recall: flag, then notify
    refine ⟨h.busy, ?_, ?_, h.out, h.inl, h.rem, ?_, ?_, ?_, ?_, ?_⟩
    · fr_work
    · fr_miss
    · fr_vAt
    · fr_vOf
    · fr_wakeR
    · intro _ _ _
      exact Ex.set_self hn rfl (Or.inl rfl)
    · exact All.set hn rfl h.pushed (by simp [hk]) (fun _ _ _ hp => hp)

theorem stepN_tasLoad (cfg : Cfg) (s : St) (h : Inv s) (j : Nat) (n : Nt)
    (hn : s.ns[j]? = some n) (hpc : n.pc = .tasLoad) : Inv (stepN cfg s j n) := by
  have hf := finish_done h hn (by simp [hpc])
  have hpu := h.pushed j n hn
  unfold stepN
  simp only [hpc, hf]
  split
  · -- SET: test_and_set returns false
    rename_i hpool
    simp only [setN]
    refine ⟨h.busy, ?_, ?_, h.out, h.inl, h.rem, ?_, ?_, ?_, ?_, ?_⟩
    · intro _ _
      exact Or.inl hpool
    · intro a b c d
      rw [hpool] at c; cases c
    · fr_vAt
    · fr_vOf
    · fr_wakeR
    · fr_wakeC
    · fr_pushed
  · -- busy k: remember it
    rename_i k hpool
    simp only [setN]
    have hk := (h.busy k hpool).1
    refine ⟨h.busy, ?_, ?_, h.out, h.inl, h.rem, ?_, ?_, ?_, ?_, ?_⟩
    · intro _ hnt
      exact absurd (Ex.set_self hn rfl (by simp [isTas])) hnt
    · intro a b c d
      exact Ex.set_of hn rfl (h.miss a b c d) (fun _ => Or.inr ⟨rfl, hk⟩) (fun _ hp => hp)
    · fr_vAt
    · fr_vOf
    · fr_wakeR
    · fr_wakeC
    · fr_pushed
  · -- UNSET: go on to the CAS
    rename_i hpool
    simp only [setN]
    refine ⟨h.busy, ?_, ?_, h.out, h.inl, h.rem, ?_, ?_, ?_, ?_, ?_⟩
    · intro _ hnt
      exact absurd (Ex.set_self hn rfl (by simp [isTas])) hnt
    · intro a b c d
      rw [hpool] at c; cases c
    · fr_vAt
    · fr_vOf
    · fr_wakeR
    · fr_wakeC
    · fr_pushed

/-- a finished test_and_set that left a task in the stream leaves the arena marked (or a transaction that will see it) -/
theorem work_after_tas {s : St} (h : Inv s) {j : Nat} {n n' : Nt} {t : St} (hn : s.ns[j]? = some n)
    (hns : t.ns = s.ns.set j n') (hpool : s.pool ≠ .unset)
    (hnot : n.pc = .tasLoad ∨ (n.pc = .tasCasBusy ∧ n.seen = s.tag) → s.pool ≠ .busy s.tag)
    (hnt : ¬ tasPending t) (hstream : 0 < s.stream) :
    s.pool = .set ∨ (∃ k, s.pool = .busy k ∧ (s.sl = .scan ∨ (s.sl = .casClear ∧ s.found = true))) := by
  cases hp : s.pool with
  | unset => exact absurd hp hpool
  | set => exact Or.inl rfl
  | busy k =>
    right
    obtain ⟨hk, hsl⟩ := h.busy k hp
    refine ⟨k, rfl, ?_⟩
    rcases hsl with hsl | hsl
    · exact Or.inl hsl
    · right
      refine ⟨hsl, ?_⟩
      cases hf : s.found
      · exfalso
        have hm := h.miss hsl hf (by rw [hp, hk]) hstream
        apply hnt
        refine Ex.set_of hn hns hm ?_ ?_
        · intro hP
          exact absurd (by rw [hp, hk]) (hnot hP)
        · intro w hw
          rcases hw with hw | hw
          · exact Or.inl hw
          · exact Or.inr (Or.inl hw.1)
      · rfl

theorem stepN_tasCasBusy (cfg : Cfg) (s : St) (h : Inv s) (j : Nat) (n : Nt)
    (hn : s.ns[j]? = some n) (hpc : n.pc = .tasCasBusy) : Inv (stepN cfg s j n) := by
  have hf := finish_done h hn (by simp [hpc])
  have hpu := h.pushed j n hn
  unfold stepN
  simp only [hpc, hf]
  split
  · -- the CAS interrupts the clear transaction
    rename_i hpool
    obtain ⟨_, hsl⟩ := h.busy _ hpool
    simp only [setN]
    refine ⟨?_, ?_, ?_, h.out, h.inl, h.rem, ?_, ?_, ?_, ?_, ?_⟩
    · intro k hk; cases hk
    · intro _ _; exact Or.inl rfl
    · intro _ _ c _; cases c
    · fr_vAt
    · fr_vOf
    · intro a _ _
      rcases a with ⟨a, _⟩ | a | a <;> rcases hsl with hsl | hsl <;> rw [hsl] at a <;> cases a
    · fr_wakeC
    · fr_pushed
  · split
    · -- the transaction ended with UNSET meanwhile: fall through to the second CAS
      rename_i hnb hpool
      simp only [setN]
      refine ⟨h.busy, ?_, ?_, h.out, h.inl, h.rem, ?_, ?_, ?_, ?_, ?_⟩
      · intro _ hnt
        exact absurd (Ex.set_self hn rfl (by simp [isTas])) hnt
      · intro a b c d
        rw [hpool] at c; cases c
      · fr_vAt
      · fr_vOf
      · fr_wakeR
      · fr_wakeC
      · fr_pushed
    · -- SET, or another epoch's busy ("we lost our epoch"): return false
      rename_i hnb hpool
      simp only [setN]
      refine ⟨h.busy, ?_, ?_, h.out, h.inl, h.rem, ?_, ?_, ?_, ?_, ?_⟩
      · intro a hnt
        refine work_after_tas (s := s) h hn rfl hpool ?_ hnt a
        intro hP hb
        rcases hP with hP | hP
        · rw [hpc] at hP; cases hP
        · rw [← hP.2] at hb; exact hnb hb
      · intro a b c d
        refine Ex.set_of hn rfl (h.miss a b c d) ?_ (fun _ hp => hp)
        intro hP
        rcases hP with hP | hP
        · rw [hpc] at hP; cases hP
        · exfalso; rw [← hP.2] at c; exact hnb c
      · fr_vAt
      · fr_vOf
      · fr_wakeR
      · fr_wakeC
      · fr_pushed

theorem stepN_tasCasUnset (cfg : Cfg) (s : St) (h : Inv s) (j : Nat) (n : Nt)
    (hn : s.ns[j]? = some n) (hpc : n.pc = .tasCasUnset) : Inv (stepN cfg s j n) := by
  have hf := finish_done h hn (by simp [hpc])
  have hpu := h.pushed j n hn
  unfold stepN
  simp only [hpc, hf]
  split
  · -- UNSET → SET: this thread must notify
    rename_i hpool
    simp only [setN]
    refine ⟨?_, ?_, ?_, h.out, h.inl, h.rem, ?_, ?_, ?_, ?_, ?_⟩
    · intro k hk; cases hk
    · intro _ _; exact Or.inl rfl
    · intro _ _ c _; cases c
    · fr_vAt
    · fr_vOf
    · intro _ _ _
      exact Ex.set_self hn rfl (Or.inl rfl)
    · fr_wakeC
    · fr_pushed
  · rename_i hpool
    simp only [setN]
    refine ⟨h.busy, ?_, ?_, h.out, h.inl, h.rem, ?_, ?_, ?_, ?_, ?_⟩
    · intro a hnt
      refine work_after_tas (s := s) h hn rfl hpool ?_ hnt a
      intro hP
      rcases hP with hP | hP
      · rw [hpc] at hP; cases hP
      · rw [hpc] at hP; cases hP.1
    · fr_miss
    · fr_vAt
    · fr_vOf
    · fr_wakeR
    · fr_wakeC
    · fr_pushed

end TbbVerif.C20.Sleep
