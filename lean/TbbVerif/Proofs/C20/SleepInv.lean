/-
C20 — inductive invariant of the resume-versus-sleep hand-shake (`Model/C20Sleep.lean`) under the configuration the
code has (`Good cfg`).
-/
import TbbVerif.Model.C20Sleep

namespace TbbVerif.C20.Sleep

/-- the configuration for which the theorem holds: what the source is expected to say -/
structure Good (cfg : Cfg) : Prop where
  pred : ∀ n r, cfg.pred n r = (n || r)
  scan : cfg.scanSeesResume = true
  adv : cfg.advertises = true
  pushFirst : cfg.pushFirst = true
  recallNtf : cfg.recallNotifies = true

theorem asCoded_good : Good asCoded := ⟨fun _ _ => rfl, rfl, rfl, rfl, rfl⟩

/-- the sleeper is inside `wait()`: between prepare_wait and the end of the wait / cancel -/
def inW (p : SPc) : Prop :=
  p = .pred ∨ p = .predRc ∨ p = .commit ∨ p = .parked ∨ p = .cancelLd ∨ p = .cancelLk ∨ p = .drain

instance (p : SPc) : Decidable (inW p) := by unfold inW; infer_instance

def isTas (p : NPc) : Prop := p = .tasLoad ∨ p = .tasCasBusy ∨ p = .tasCasUnset

instance (p : NPc) : Decidable (isTas p) := by unfold isTas; infer_instance

/-- some notifier satisfies `P` -/
def Ex (s : St) (P : Nt → Prop) : Prop := ∃ (j : Nat) (n : Nt), s.ns[j]? = some n ∧ P n

/-- every notifier (with its index) satisfies `P` -/
def All (s : St) (P : Nat → Nt → Prop) : Prop := ∀ (j : Nat) (n : Nt), s.ns[j]? = some n → P j n

/-- some resumer is inside `my_pool_state.test_and_set()` -/
def tasPending (s : St) : Prop := Ex s (fun n => isTas n.pc)

structure Inv (s : St) : Prop where
  /-- busy is the sleeper's own clear transaction -/
  busy : ∀ k, s.pool = .busy k → k = s.tag ∧ (s.sl = .scan ∨ s.sl = .casClear)
  /-- a task in the stream whose resumers are all past test_and_set keeps the arena marked non-empty -/
  work : 0 < s.stream → ¬ tasPending s →
          s.pool = .set ∨ (∃ k, s.pool = .busy k ∧ (s.sl = .scan ∨ (s.sl = .casClear ∧ s.found = true)))
  /-- a clear transaction that missed a task will be interrupted -/
  miss : s.sl = .casClear → s.found = false → s.pool = .busy s.tag → 0 < s.stream →
          Ex s (fun n => n.pc = .tasLoad ∨ (n.pc = .tasCasBusy ∧ n.seen = s.tag))
  out : ¬ inW s.sl → s.inList = false ∧ s.sem = 0 ∧ s.vOwner = none
  inl : s.inList = true → s.vOwner = none ∧ s.sem = 0 ∧ s.myEpoch = s.epoch ∧ inW s.sl ∧ s.sl ≠ .drain
  rem : s.inList = false → inW s.sl →
          s.myEpoch < s.epoch ∧ ((s.sem = 1 ∧ s.vOwner = none) ∨ (s.sem = 0 ∧ s.vOwner.isSome = true))
  vAt : All s (fun j n => n.pc = .ntfV → s.vOwner = some j)
  vOf : ∀ j, s.vOwner = some j → ∃ n : Nt, s.ns[j]? = some n ∧ n.pc = .ntfV
  /-- the monitor argument: a condition that became true after the predicate was evaluated has a notifier behind it -/
  wakeR : ((s.sl = .predRc ∧ s.ne = false) ∨ s.sl = .commit ∨ s.sl = .parked) → s.inList = true → s.pool ≠ .unset →
          Ex s (fun n => n.pc = .ntfEmpty ∨ n.pc = .ntfLocked)
  wakeC : (s.sl = .commit ∨ s.sl = .parked) → s.inList = true → s.recalled = true →
          Ex s (fun n => n.pc = .ntfEmpty ∨ n.pc = .ntfLocked)
  pushed : All s (fun _ n => n.pc ≠ .latePush ∧ (n.kind = .resume → n.pc ≠ .start → n.pushed = true))

theorem finish_done {s : St} (h : Inv s) {j : Nat} {n : Nt} (hn : s.ns[j]? = some n) (hs : n.pc ≠ .start) :
    finish n = .done := by
  unfold finish
  have := (h.pushed j n hn).2
  cases hk : n.kind <;> simp_all

theorem getElem?_set_ns (s : St) (j : Nat) (n : Nt) (i : Nat) (hj : j < s.ns.length) :
    (setN s j n).ns[i]? = if i = j then some n else s.ns[i]? := by
  simp only [setN, List.getElem?_set]
  by_cases h : j = i
  · subst h; simp [hj]
  · simp [h, Ne.symm h]

theorem lt_of_get {s : St} {j : Nat} {n : Nt} (h : s.ns[j]? = some n) : j < s.ns.length := by
  have := List.getElem?_eq_some_iff.mp h
  exact this.1

theorem get_set_self {l : List Nt} {j : Nat} {n : Nt} (hn : l[j]? = some n) (n' : Nt) : (l.set j n')[j]? = some n' := by
  have hj : j < l.length := (List.getElem?_eq_some_iff.mp hn).1
  simp [hj]

theorem get_set_ne {l : List Nt} {j i : Nat} (n' : Nt) (h : i ≠ j) : (l.set j n')[i]? = l[i]? := by
  simp [List.getElem?_set, Ne.symm h]

/-- an existential witness survives the step of notifier `j` if the step keeps the property for `j` itself -/
theorem Ex.set_of {s t : St} {P Q : Nt → Prop} {j : Nat} {n n' : Nt} (hn : s.ns[j]? = some n) (hns : t.ns = s.ns.set j n')
    (h : Ex s P) (hP : P n → Q n') (hPQ : ∀ w, P w → Q w) : Ex t Q := by
  obtain ⟨i, w, hw, hp⟩ := h
  by_cases hij : i = j
  · subst hij
    rw [hn] at hw
    cases hw
    exact ⟨i, n', by rw [hns]; exact get_set_self hn n', hP hp⟩
  · exact ⟨i, w, by rw [hns, get_set_ne n' hij]; exact hw, hPQ w hp⟩

theorem Ex.set_self {s t : St} {Q : Nt → Prop} {j : Nat} {n n' : Nt} (hn : s.ns[j]? = some n) (hns : t.ns = s.ns.set j n')
    (hQ : Q n') : Ex t Q :=
  ⟨j, n', by rw [hns]; exact get_set_self hn n', hQ⟩

/-- backwards: a witness after the step is the stepping notifier or was one before -/
theorem Ex.of_set {s t : St} {P : Nt → Prop} {j : Nat} {n n' : Nt} (hns : t.ns = s.ns.set j n')
    (h : Ex t P) : P n' ∨ Ex s P := by
  obtain ⟨i, w, hw, hp⟩ := h
  by_cases hij : i = j
  · subst hij
    rw [hns] at hw
    by_cases hl : i < s.ns.length
    · simp [hl] at hw
      subst hw
      exact Or.inl hp
    · simp [hl] at hw
  · rw [hns, get_set_ne n' hij] at hw
    exact Or.inr ⟨i, w, hw, hp⟩

theorem All.set {s t : St} {P Q : Nat → Nt → Prop} {j : Nat} {n n' : Nt} (hn : s.ns[j]? = some n) (hns : t.ns = s.ns.set j n')
    (h : All s P) (hQ : Q j n') (hPQ : ∀ i w, i ≠ j → P i w → Q i w) : All t Q := by
  intro i w hw
  by_cases hij : i = j
  · subst hij
    rw [hns, get_set_self hn n'] at hw
    cases hw
    exact hQ
  · rw [hns, get_set_ne n' hij] at hw
    exact hPQ i w hij (h i w hw)

theorem All.same {s t : St} {P Q : Nat → Nt → Prop} (hns : t.ns = s.ns) (h : All s P) (hPQ : ∀ i w, P i w → Q i w) : All t Q := by
  intro i w hw
  rw [hns] at hw
  exact hPQ i w (h i w hw)

theorem init_inv (poolSet : Bool) (kinds : List NKind) (ops : List SOp) : Inv (initSt poolSet kinds ops) := by
  have hget : ∀ (j : Nat) (n : Nt), (initSt poolSet kinds ops).ns[j]? = some n → n.pc = .start := by
    intro j n h
    simp only [initSt, List.getElem?_map] at h
    cases hk : kinds[j]? <;> simp [hk] at h
    rw [← h]
  constructor
  · intro k h; cases poolSet <;> simp [initSt] at h
  · intro h; simp [initSt] at h
  · intro h; simp [initSt] at h
  · intro _; simp [initSt]
  · intro h; simp [initSt] at h
  · intro _ h; simp [initSt, inW] at h
  · intro j n h hp; have := hget j n h; simp [this] at hp
  · intro j h; simp [initSt] at h
  · intro h; simp [initSt] at h
  · intro h; simp [initSt] at h
  · intro j n h; have := hget j n h; simp [this]

end TbbVerif.C20.Sleep
