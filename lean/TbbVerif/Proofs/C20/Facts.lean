/- C20 — which steps can change `done` (start a continuation) and the wait-context counter. -/
import TbbVerif.Proofs.C20.Step

namespace TbbVerif.C20

open SS

theorem lvAfter_done (c : Core) : (lvAfter c).done = c.done := by
  unfold lvAfter; cases c.kind <;> rfl

theorem lvAfter_wc (c : Core) : (lvAfter c).wc = c.wc := by
  unfold lvAfter; cases c.kind <;> rfl

theorem stepLv_done (c : Core) : (stepLv c).c.done = c.done := by
  unfold stepLv
  cases c.lvPc <;> simp only [] <;> (try split) <;> simp [lvAfter_done, pushTask]

theorem stepLv_wc (c : Core) : (stepLv c).c.wc = c.wc := by
  unfold stepLv
  cases c.lvPc <;> simp only [] <;> (try split) <;> simp [lvAfter_wc, pushTask]

theorem opAny_done (c : Core) (t : Tid) (op : Op) : (opAny c t op).c.done = c.done := by
  cases op <;> simp only [opAny, opResume, opTake, opReuse, opReserve, opWaitCheck] <;>
    (repeat' split) <;> simp [doNotify]

theorem opAny_wc (c : Core) (t : Tid) (op : Op) : c.wc ≤ (opAny c t op).c.wc := by
  cases op <;> simp only [opAny, opResume, opTake, opReuse, opReserve, opWaitCheck] <;>
    (repeat' split) <;> simp [doNotify]

theorem stepStk_done (c : Core) (t : Tid) (op : Option Op) : (stepStk c t op).c.done = c.done := by
  unfold stepStk
  cases c.stkPc <;> simp only []
  case run =>
    cases op with
    | none => rfl
    | some op =>
      cases op with
      | switch k => cases k <;> simp only [] <;> (try split) <;> simp [newRound]
      | suspend => simp [newRound]
      | taskBegin => simp only []; split <;> simp
      | taskEnd => simp only []; split <;> simp
      | resume => exact opAny_done c t .resume
      | take => exact opAny_done c t .take
      | reuse => exact opAny_done c t .reuse
      | reserve => exact opAny_done c t .reserve
      | waitCheck => exact opAny_done c t .waitCheck
  case cb =>
    cases op with
    | none => rfl
    | some op =>
      cases op with
      | switch k => cases k <;> simp
      | resume => simp only []; (repeat' split) <;> simp [doNotify]
      | reserve => simp [opReserve]
      | waitCheck => simp [opWaitCheck]
      | suspend => rfl
      | take => rfl
      | reuse => rfl
      | taskBegin => rfl
      | taskEnd => rfl
  all_goals (try simp [pushTask])

/-- only the thread that holds the resume task (or the parked coroutine) can start the continuation -/
theorem next_done (c : Core) (t : Tid) (op : Option Op) (h : c.tk ≠ some t) : (next c t op).c.done = c.done := by
  unfold next
  by_cases h1 : c.lv = some t
  · simp only [h1, if_true]; exact stepLv_done c
  · by_cases h2 : c.rs = some t
    · simp [h1, h2, pushTask]
    · by_cases h4 : c.stk = some t
      · simp only [h1, h2, h, h4, if_true, if_false]; exact stepStk_done c t op
      · simp only [h1, h2, h, h4, if_false]
        cases op with
        | none => rfl
        | some op => exact opAny_done c t op

theorem stepStk_wc (c : Core) (t : Tid) (op : Option Op) (h : (stepStk c t op).c.wc < c.wc) :
    c.stkPc = .run ∧ op = some .taskEnd := by
  unfold stepStk at h
  cases hpc : c.stkPc <;> rw [hpc] at h <;> simp only [] at h
  case run =>
    cases op with
    | none => simp at h
    | some op =>
      cases op with
      | taskEnd => exact ⟨rfl, rfl⟩
      | switch k => cases k <;> simp only [] at h <;> (try split at h) <;> simp [newRound] at h
      | suspend => simp [newRound] at h
      | taskBegin => simp only [] at h; split at h <;> simp at h
      | resume => simp only [] at h; have := opAny_wc c t .resume; omega
      | take => simp only [] at h; have := opAny_wc c t .take; omega
      | reuse => simp only [] at h; have := opAny_wc c t .reuse; omega
      | reserve => simp only [] at h; have := opAny_wc c t .reserve; omega
      | waitCheck => simp only [] at h; have := opAny_wc c t .waitCheck; omega
  case cb =>
    cases op with
    | none => simp at h
    | some op =>
      cases op with
      | switch k => cases k <;> simp at h
      | resume => simp only [] at h; (repeat' split at h) <;> simp [doNotify] at h
      | reserve => simp [opReserve] at h; omega
      | waitCheck => simp [opWaitCheck] at h
      | suspend => simp at h
      | take => simp at h
      | reuse => simp at h
      | taskBegin => simp at h
      | taskEnd => simp at h
  all_goals (simp [pushTask] at h)

/-- the wait-context counter is decremented only by `taskEnd`, i.e. by the thread that executes on the stack
outside of `suspend` -/
theorem next_wc (c : Core) (t : Tid) (op : Option Op) (h : (next c t op).c.wc < c.wc) :
    c.stk = some t ∧ c.stkPc = .run ∧ op = some .taskEnd := by
  unfold next at h
  by_cases h1 : c.lv = some t
  · simp only [h1, if_true] at h; rw [stepLv_wc] at h; omega
  · by_cases h2 : c.rs = some t
    · simp [h1, h2, pushTask] at h
    · by_cases h3 : c.tk = some t
      · simp [h1, h2, h3, stepTk] at h
      · by_cases h4 : c.stk = some t
        · simp only [h1, h2, h3, h4, if_true, if_false] at h
          exact ⟨h4, stepStk_wc c t op h⟩
        · simp only [h1, h2, h3, h4, if_false] at h
          cases op with
          | none => simp at h
          | some op => have := opAny_wc c t op; simp only [] at h; omega

end TbbVerif.C20
