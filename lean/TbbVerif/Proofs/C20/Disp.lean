/-
C20 — the dispatch context after a suspension (`Model/C20Disp.lean`): every coroutine dispatcher's bottom loop runs
with no isolation, whatever the isolation of the code that suspended.
-/
import TbbVerif.Model.C20Disp

namespace TbbVerif.C20.Disp

/-- what the source is expected to say -/
structure Good (cfg : Cfg) : Prop where
  coInit : ∀ x, cfg.coInit x = 0
  omitLocal : ∀ l t, cfg.omitLocal l t = (l != 0 && l != t)
  stealOk : ∀ l t, cfg.stealOk l t = (l == 0 || l == t)
  mailSkip : ∀ l t, cfg.mailSkip l t = (l != 0 && t != l)
  fifoOk : ∀ l, cfg.fifoOk l = (l == 0)
  critAny : ∀ l, cfg.critAny l = !(l != 0)

theorem asCoded_good : Good asCoded := ⟨fun _ => rfl, fun _ _ => rfl, fun _ _ => rfl, fun _ _ => rfl, fun _ => rfl, fun _ => rfl⟩

/-- a coroutine's dispatcher that is running or suspended sits in its bottom loop, which has no isolation -/
def coOK (d : D) : Prop := d.co = true → ∃ rest, d.loops = rest ++ [⟨0, 0⟩]

/-- a coroutine's dispatcher parked in the co-cache -/
def cacheOK (d : D) : Prop := d.co = true ∧ d.iso = 0 ∧ d.loops = []

structure WF (s : St) : Prop where
  cur : coOK s.cur
  susp : ∀ d ∈ s.susp, coOK d
  cache : ∀ d ∈ s.cache, cacheOK d

theorem coOK_enter {d : D} (h : coOK d) : coOK (enterLoop d) := by
  intro hc
  obtain ⟨rest, hr⟩ := h hc
  exact ⟨{ saved := d.iso, iso := d.iso } :: rest, by simp [enterLoop, hr]⟩

theorem coOK_enter_cached {d : D} (h : cacheOK d) : coOK (enterLoop d) := by
  intro _
  exact ⟨[], by simp [enterLoop, h.2.1, h.2.2]⟩

theorem mem_eraseIdx {l : List D} {i : Nat} {d : D} (h : d ∈ l.eraseIdx i) : d ∈ l :=
  List.mem_of_mem_eraseIdx h

theorem step_wf (cfg : Cfg) (g : Good cfg) (s : St) (op : Op) (h : WF s) : WF (step cfg s op) := by
  obtain ⟨hc, hs, hk⟩ := h
  cases op with
  | setIso v => exact ⟨fun hco => hc hco, hs, hk⟩
  | enter => exact ⟨coOK_enter hc, hs, hk⟩
  | exec t =>
    simp only [step]
    split
    · exact ⟨hc, hs, hk⟩
    · split
      · exact ⟨fun hco => hc hco, hs, hk⟩
      · exact ⟨hc, hs, hk⟩
  | leave =>
    simp only [step]
    split
    · exact ⟨hc, hs, hk⟩
    · rename_i l rest hl
      split
      · exact ⟨hc, hs, hk⟩
      · rename_i hne
        refine ⟨?_, hs, hk⟩
        intro hco
        obtain ⟨r, hr⟩ := hc hco
        rw [hl] at hr
        cases r with
        | nil =>
          simp only [List.nil_append, List.cons.injEq] at hr
          simp [show s.cur.co = true from hco, hr.2] at hne
        | cons x r' =>
          simp only [List.cons_append, List.cons.injEq] at hr
          exact ⟨r', hr.2⟩
  | suspend =>
    simp only [step]
    split
    · rename_i d rest hca
      refine ⟨coOK_enter_cached (hk d (by rw [hca]; simp)), ?_, ?_⟩
      · intro x hx
        rcases List.mem_cons.mp hx with e | e
        · rw [e]; exact hc
        · exact hs x e
      · intro x hx
        exact hk x (by rw [hca]; exact List.mem_cons_of_mem _ hx)
    · refine ⟨?_, ?_, hk⟩
      · intro _
        exact ⟨[], by simp [enterLoop, g.coInit]⟩
      · intro x hx
        rcases List.mem_cons.mp hx with e | e
        · rw [e]; exact hc
        · exact hs x e
  | resumeTo i =>
    simp only [step]
    split
    · exact ⟨hc, hs, hk⟩
    · rename_i tgt htgt
      have htm : tgt ∈ s.susp := List.mem_of_getElem? htgt
      have hsusp : ∀ d ∈ s.cur :: s.susp.eraseIdx i, coOK d := by
        intro x hx
        rcases List.mem_cons.mp hx with e | e
        · rw [e]; exact hc
        · exact hs x (mem_eraseIdx e)
      split
      · rename_i l hl
        split
        · rename_i hco
          refine ⟨hs tgt htm, fun x hx => hs x (mem_eraseIdx hx), ?_⟩
          intro x hx
          rcases List.mem_cons.mp hx with e | e
          · obtain ⟨r, hr⟩ := hc hco
            rw [hl] at hr
            cases r with
            | nil =>
              simp only [List.nil_append, List.cons.injEq, and_true] at hr
              rw [e]
              exact ⟨hco, by simp [hr], rfl⟩
            | cons y r' => simp at hr
          · exact hk x e
        · exact ⟨hs tgt htm, hsusp, hk⟩
      · exact ⟨hs tgt htm, hsusp, hk⟩

theorem run_wf (cfg : Cfg) (g : Good cfg) (ops : List Op) : ∀ s, WF s → WF (run cfg s ops) := by
  induction ops with
  | nil => intro s h; exact h
  | cons op rest ih => intro s h; exact ih _ (step_wf cfg g s op h)

/-- right after `suspend` the thread dispatches on a coroutine whose loop has no isolation -/
theorem suspend_loop_iso (cfg : Cfg) (g : Good cfg) (s : St) (h : WF s) :
    (step cfg s .suspend).cur.co = true ∧ curLoopIso (step cfg s .suspend) = some 0 := by
  simp only [step]
  split
  · rename_i d rest hca
    have := h.cache d (by rw [hca]; simp)
    simp [enterLoop, curLoopIso, this.1, this.2.1]
  · simp [enterLoop, curLoopIso, g.coInit]

theorem takesAll_zero (cfg : Cfg) (g : Good cfg) : takesAll cfg 0 := by
  refine ⟨fun t => ?_, ?_, ?_⟩
  · simp [acceptsLocal, acceptsSteal, acceptsMail, g.omitLocal, g.stealOk, g.mailSkip]
  · simp [g.fifoOk]
  · simp [g.critAny]

end TbbVerif.C20.Disp
