/- C20 — the pool's base invariant: every dispatcher's `SuspendPoint` core satisfies the hand-shake invariant, `owner`
is fixed by the id, the ring of the co-cache holds exactly the cached live dispatchers (each once), destroyed
dispatchers stay flagged `cached`, the reference holders are exactly the coroutines outside the cache, and
`my_co_cache.pop()` never hands out anything else than an idle cached dispatcher.  Independent of which thread does
what (every pool step checks the role it needs on the core before it applies a core step). -/
import TbbVerif.Proofs.C20.PoolCore
import TbbVerif.Proofs.C20.Ring
import TbbVerif.Model.C20Pool

namespace TbbVerif.C20.Pool

open TbbVerif.C20

structure BaseF (sp : Nat → Core) (nd nt : Nat) (ring : Ring.R) (refH : List Nat) (dead : Nat → Bool) (cacheErr : Bool) : Prop where
  ndge : nt ≤ nd
  inv : ∀ d, d < nd → Inv (sp d)
  owner : ∀ d, d < nd → (sp d).owner = if d < nt then some d else none
  cachedCo : ∀ d, d < nd → (sp d).cached = true → nt ≤ d
  deadc : ∀ d, dead d = true → d < nd ∧ (sp d).cached = true
  wf : Ring.WF ring
  cnt : ∀ d, Ring.cnt ring d = if d < nd ∧ (sp d).cached = true ∧ dead d = false then 1 else 0
  refs : ∀ d, d ∈ refH ↔ (nt ≤ d ∧ d < nd ∧ (sp d).cached = false)
  noCacheErr : cacheErr = false

def Base (s : PSt) : Prop := BaseF s.sp s.nd s.nt s.ring s.refH s.dead s.cacheErr

@[simp] theorem upd_same {α : Type} (f : Nat → α) (i : Nat) (v : α) : upd f i v i = v := by simp [upd]
theorem upd_other {α : Type} (f : Nat → α) (i j : Nat) (v : α) (h : j ≠ i) : upd f i v j = f j := by simp [upd, h]

/-- replacing one core by a core that still satisfies the hand-shake invariant and has the same `owner` and `cached` -/
theorem base_sp (s : PSt) (h : Base s) (d0 : DId) (c' : Core)
    (hc : d0 < s.nd → Inv c' ∧ c'.owner = (s.sp d0).owner ∧ c'.cached = (s.sp d0).cached) :
    Base (setSp s d0 c') := by
  obtain ⟨h1, h2, h3, h4, h5, h6, h7, h8, h9⟩ := h
  refine ⟨h1, ?_, ?_, ?_, ?_, h6, ?_, ?_, h9⟩
  all_goals intro d
  · intro hd; by_cases e : d = d0
    · subst e; simp [setSp]; exact (hc hd).1
    · simp [setSp, upd_other _ _ _ _ e]; exact h2 d hd
  · intro hd; by_cases e : d = d0
    · subst e; simp [setSp]; rw [(hc hd).2.1]; exact h3 d hd
    · simp [setSp, upd_other _ _ _ _ e]; exact h3 d hd
  · intro hd; by_cases e : d = d0
    · subst e; simp [setSp]; rw [(hc hd).2.2]; exact h4 d hd
    · simp [setSp, upd_other _ _ _ _ e]; exact h4 d hd
  · intro hd; by_cases e : d = d0
    · subst e; have := h5 d hd; simp [setSp]; rw [(hc this.1).2.2]; exact this
    · simp [setSp, upd_other _ _ _ _ e]; exact h5 d hd
  · by_cases e : d = d0
    · subst e; simp only [setSp, upd_same]
      by_cases hd : d < s.nd
      · rw [(hc hd).2.2]; exact h7 d
      · have := h7 d; simp [hd] at this ⊢; exact this
    · simp only [setSp, upd_other _ _ _ _ e]; exact h7 d
  · by_cases e : d = d0
    · subst e; simp only [setSp, upd_same]
      by_cases hd : d < s.nd
      · rw [(hc hd).2.2]; exact h8 d
      · have := h8 d; simp [hd] at this ⊢; exact this
    · simp only [setSp, upd_other _ _ _ _ e]; exact h8 d

theorem resumeCore_ok (c : Core) (t : Tid) (h : Inv c) :
    Inv (resumeCore c t).c ∧ (resumeCore c t).c.owner = c.owner ∧ (resumeCore c t).c.cached = c.cached := by
  unfold resumeCore
  by_cases hs : c.stk = some t
  · simp only [hs, if_true]
    exact ⟨stepStk_inv' _ t _ h hs, (stepStk_owner _ t _ (by simp)).1, (stepStk_owner _ t _ (by simp)).2⟩
  · simp only [hs, if_false]
    exact ⟨opResume_inv _ t h, (opResume_owner _ t).1, (opResume_owner _ t).2⟩

theorem base_doResume (s : PSt) (t : Tid) (d : DId) (h : Base s) (s1 : PSt) (lab : String)
    (hr : doResume s t d = some (s1, lab)) : Base s1 := by
  have hb : Base (setSp s d (resumeCore (s.sp d) t).c) :=
    base_sp s h d _ (fun hd => resumeCore_ok _ t (h.inv d hd))
  unfold doResume at hr
  simp only [] at hr
  split at hr
  · simp at hr
  · simp only [Option.some.injEq, Prod.mk.injEq] at hr
    obtain ⟨e, _⟩ := hr
    subst e
    split <;> exact hb

theorem stepStk_suspend_stk (c : Core) (t : Tid) : (stepStk c t (some .suspend)).c.stk = c.stk := by
  unfold stepStk; cases c.stkPc <;> simp [newRound, pushTask]

theorem regCore_ok (c : Core) (t : Tid) (wd : Bool) (c' : Core) (lab : String) (h : Inv c) (hs : c.stk = some t)
    (hr : regCore c t wd = some (c', lab)) : Inv c' ∧ c'.owner = c.owner ∧ c'.cached = c.cached := by
  have h1 := stepStk_inv' c t (some .suspend) h hs
  have o1 := stepStk_owner c t (some .suspend) (by simp)
  have s1 : (stepStk c t (some .suspend)).c.stk = some t := by rw [stepStk_suspend_stk]; exact hs
  unfold regCore at hr
  simp only [] at hr
  split at hr
  · simp at hr
  · split at hr
    · split at hr
      · simp at hr
      · simp only [Option.some.injEq, Prod.mk.injEq] at hr
        obtain ⟨e, _⟩ := hr; subst e
        have o2 := stepStk_owner (stepStk c t (some .suspend)).c t (some .resume) (by simp)
        exact ⟨stepStk_inv' _ t _ h1 s1, by rw [o2.1, o1.1], by rw [o2.2, o1.2]⟩
    · simp only [Option.some.injEq, Prod.mk.injEq] at hr
      obtain ⟨e, _⟩ := hr; subst e
      exact ⟨h1, o1.1, o1.2⟩

theorem base_fail (s : PSt) (why : String) (h : Base s) : Base (fail s why).s := h

theorem base_stepPush (s : PSt) (t : Tid) (d : DId) (h : Base s) : Base (stepPush s t d).s := by
  unfold stepPush
  split
  · rename_i hrs
    exact base_sp { s with critQ := upd s.critQ d (s.crit d) } h d _
      (fun hd => ⟨rsPush_inv _ t (h.inv d hd) hrs.1, by simp [pushTask], by simp [pushTask]⟩)
  · exact h

theorem base_userResume (s : PSt) (t : Tid) (d : DId) (h : Base s) : Base (userResume s t d).s := by
  unfold userResume
  split
  · split
    · rename_i s1 lab hr; exact base_doResume s t d h s1 lab hr
    · exact h
  · exact h

theorem base_doWaitDone (s : PSt) (t : Tid) (d : DId) (h : Base s) : Base (doWaitDone s t d).s := by
  unfold doWaitDone
  split
  · exact h
  · split
    · rename_i s1 lab hr; exact base_doResume { s with wst := upd s.wst d .none } t d h s1 lab hr
    · exact h
  · exact h

theorem base_doTake (s : PSt) (t : Tid) (d : DId) (wd : Bool) (h : Base s) : Base (doTake s t d wd).s := by
  unfold doTake
  simp only []
  split
  · exact h
  · rename_i hg
    simp only [not_or, Decidable.not_not] at hg
    obtain ⟨hdc, hdn, _, _, hcs, hds, hdk, _⟩ := hg
    split
    · exact h
    · have hs1 : Base (setSp s d (opTake (s.sp d) t).c) :=
        base_sp s h d _ (fun hd => ⟨opTake_inv _ t (h.inv d hd) hds hdk, (opTake_owner _ t).1, (opTake_owner _ t).2⟩)
      have hcur : (setSp s d (opTake (s.sp d) t).c).sp (s.thr t).cur = s.sp (s.thr t).cur := by
        simp only [setSp]; exact upd_other _ _ _ _ (fun e => hdc e.symm)
      split
      · split
        · exact h
        · rename_i c' lab hr
          have hc' : (s.thr t).cur < s.nd → Inv c' ∧ c'.owner = (s.sp (s.thr t).cur).owner ∧ c'.cached = (s.sp (s.thr t).cur).cached :=
            fun hd => regCore_ok _ t wd c' lab (h.inv _ hd) hcs hr
          split
          · exact base_sp _ hs1 _ c' (fun hd => by rw [hcur]; exact hc' hd)
          · exact base_sp { (setSp s d (opTake (s.sp d) t).c) with wst := _ } hs1 _ c' (fun hd => by rw [hcur]; exact hc' hd)
      · exact hs1

theorem base_stepIdle (sk : Skel) (s : PSt) (t : Tid) (op : Pool.Op) (h : Base s) : Base (stepIdle sk s t op).s := by
  unfold stepIdle
  simp only []
  cases op <;> simp only []
  case suspend =>
    split
    · exact h
    · rename_i hg
      simp only [not_or, Decidable.not_not] at hg
      exact base_sp { s with handed := _ } h _ _
        (fun hd => ⟨stepStk_inv' _ t _ (h.inv _ hd) hg.2.1, (stepStk_owner _ t _ (by simp)).1, (stepStk_owner _ t _ (by simp)).2⟩)
  case resume d => exact base_userResume s t d h
  case take d wd => exact base_doTake s t d wd h
  case enterLoop => split <;> exact h
  case exitLoop => split <;> (try split) <;> exact h
  case critBegin => split <;> exact h
  case critEnd => split <;> exact h
  case leaveArena => split <;> exact h
  all_goals exact h

theorem base_cnt_le (s : PSt) (h : Base s) (x : DId) : Ring.cnt s.ring x ≤ 1 := by
  rw [h.cnt x]; split <;> omega

theorem base_cnt_pos (s : PSt) (h : Base s) (x : DId) (hx : 1 ≤ Ring.cnt s.ring x) :
    x < s.nd ∧ (s.sp x).cached = true ∧ s.dead x = false := by
  have := h.cnt x
  by_cases hc : x < s.nd ∧ (s.sp x).cached = true ∧ s.dead x = false
  · exact hc
  · rw [if_neg hc] at this; omega

theorem base_stepOut (sk : Skel) (hk : sk.ok = true) (s : PSt) (t : Tid) (op : Pool.Op) (h : Base s) :
    Base (stepOut sk s t op).s := by
  unfold stepOut
  cases op <;> simp only []
  case resume d => exact base_userResume s t d h
  case waitDone d => exact base_doWaitDone s t d h
  case enterArena => split <;> exact h
  case arenaCleanup =>
    split
    · have hpc : sk.popClears = true := by simp [Skel.ok] at hk; exact hk.1.1.1.1.1.1.1.1
      rw [hpc]
      obtain ⟨w, m, le⟩ := Ring.cnt_cleanup s.ring h.wf (base_cnt_le s h)
      obtain ⟨h1, h2, h3, h4, h5, h6, h7, h8, h9⟩ := h
      refine ⟨h1, h2, h3, h4, ?_, w, ?_, h8, h9⟩
      · intro d hd
        simp only [Bool.or_eq_true] at hd
        rcases hd with hd | hd
        · exact h5 d hd
        · have := (m d).mp (by simpa using hd)
          have := base_cnt_pos s ⟨h1, h2, h3, h4, h5, h6, h7, h8, h9⟩ d this.1
          exact ⟨this.1, this.2.1⟩
      · intro d
        show Ring.cnt (Ring.cleanup true s.ring).1 d =
          if d < s.nd ∧ (s.sp d).cached = true ∧ (s.dead d || (Ring.cleanup true s.ring).2.contains d) = false then 1 else 0
        have hm := m d
        have hl := le d
        have h7d := h7 d
        by_cases hin : d ∈ (Ring.cleanup true s.ring).2
        · have := hm.mp hin
          rw [this.2]
          have hdd : (s.dead d || (Ring.cleanup true s.ring).2.contains d) = true := by simp [hin]
          rw [if_neg (fun hh => by rw [hdd] at hh; exact absurd hh.2.2 (by simp))]
        · have hnc : (Ring.cleanup true s.ring).2.contains d = false := by simpa using hin
          simp only [hnc, Bool.or_false]
          rw [← h7d]
          have hle1 := base_cnt_le s ⟨h1, h2, h3, h4, h5, h6, h7, h8, h9⟩ d
          by_cases h0 : Ring.cnt s.ring d = 0
          · omega
          · have : ¬ (1 ≤ Ring.cnt s.ring d ∧ Ring.cnt (Ring.cleanup true s.ring).1 d = 0) := fun hh => hin (hm.mpr hh)
            have : Ring.cnt (Ring.cleanup true s.ring).1 d ≠ 0 := fun hh => this ⟨by omega, hh⟩
            omega
    · exact h
  all_goals exact h

theorem base_stepCb (s : PSt) (t : Tid) (op : Pool.Op) (h : Base s) : Base (stepCb s t op).s := by
  unfold stepCb
  cases op <;> simp only []
  case resume d => exact base_userResume s t d h
  case waitDone d => exact base_doWaitDone s t d h
  all_goals exact h

theorem base_stepSel (sk : Skel) (s : PSt) (t : Tid) (h : Base s) : Base (stepSel sk s t).s := by
  unfold stepSel
  simp only []
  split
  · split
    · exact h
    · rename_i hg
      simp only [not_or] at hg
      split
      · exact base_sp s h t _ (fun hd => ⟨opTake_inv _ t (h.inv t hd) hg.2.1 hg.2.2, (opTake_owner _ t).1, (opTake_owner _ t).2⟩)
      · exact h
  · exact h

theorem base_stepSw (sk : Skel) (s : PSt) (t : Tid) (h : Base s) : Base (stepSw sk s t).s := by
  unfold stepSw
  simp only []
  split
  · exact h
  · rename_i hg
    simp only [not_or, Decidable.not_not] at hg
    exact base_sp { s with critAt := _ } h _ _
      (fun hd => ⟨stepStk_inv' _ t _ (h.inv _ hd) hg.2.2.1, (stepStk_owner _ t _ (by simp)).1, (stepStk_owner _ t _ (by simp)).2⟩)

theorem base_stepFrA (sk : Skel) (s : PSt) (t : Tid) (h : Base s) : Base (stepFrA sk s t).s := by
  unfold stepFrA
  simp only []
  split
  · rename_i hg
    exact base_sp s h _ _ (fun hd => ⟨stepTk_inv _ t (h.inv _ hd) hg, (stepTk_owner _ t).1, (stepTk_owner _ t).2⟩)
  · exact h

theorem stepLv_cached' (c : Core) (h : c.lvPc ≠ .cache) : (stepLv c).c.cached = c.cached := by
  rw [stepLv_cached]; cases hp : c.lvPc <;> simp_all

theorem base_stepFrX (sk : Skel) (s : PSt) (t : Tid) (h : Base s) : Base (stepFrX sk s t).s := by
  unfold stepFrX
  simp only []
  split
  · rename_i hg
    have hb : ∀ s' : PSt, Base s' → s'.sp = s.sp → s'.nd = s.nd → Base (setSp s' (s.thr t).prv (stepLv (s.sp (s.thr t).prv)).c) := by
      intro s' hs' e1 e2
      exact base_sp s' hs' _ _ (fun hd => by
        rw [e1]; rw [e2] at hd
        exact ⟨stepLv_inv _ t (h.inv _ hd) hg.1, stepLv_owner _, stepLv_cached' _ hg.2.1⟩)
    split
    · exact hb { s with critQ := _ } h rfl rfl
    · exact hb s h rfl rfl
  · exact h

theorem base_stepFin (sk : Skel) (s : PSt) (t : Tid) (h : Base s) : Base (stepFin sk s t).s := by
  unfold stepFin
  simp only []
  split
  · split
    · rename_i hg
      exact base_sp s h _ _
        (fun hd => ⟨stepStk_inv' _ t _ (h.inv _ hd) hg.1, (stepStk_owner _ t _ (by simp)).1, (stepStk_owner _ t _ (by simp)).2⟩)
    · exact h
  · exact h

theorem ok_popClears (sk : Skel) (hk : sk.ok = true) : sk.popClears = true := by
  simp [Skel.ok] at hk; exact hk.1.1.1.1.1.1.1.1

theorem ok_cleanupCaches (sk : Skel) (hk : sk.ok = true) : sk.cleanupCaches = true := by
  simp [Skel.ok] at hk; exact hk.1.1.1.2

theorem baseF_cnt_pos {sp : Nat → Core} {nd nt : Nat} {ring : Ring.R} {refH : List Nat} {dead : Nat → Bool} {ce : Bool}
    (h : BaseF sp nd nt ring refH dead ce) (x : Nat) (hx : 1 ≤ Ring.cnt ring x) :
    x < nd ∧ (sp x).cached = true ∧ dead x = false := by
  have := h.cnt x
  by_cases hc : x < nd ∧ (sp x).cached = true ∧ dead x = false
  · exact hc
  · rw [if_neg hc] at this; omega

theorem baseF_pop {sp : Nat → Core} {nd nt : Nat} {ring : Ring.R} {refH : List Nat} {dead : Nat → Bool} {ce : Bool}
    (h : BaseF sp nd nt ring refH dead ce) (r' : Ring.R) (d : Nat) (t : Tid) (hp : Ring.pop true ring = (r', some d)) :
    (dead d = false ∧ (opReuse (sp d) t).o = .pop ∧ (sp d).cached = true) ∧
    BaseF (upd sp d (opReuse (sp d) t).c) nd nt r' (d :: refH) dead ce := by
  obtain ⟨hd1, hcx⟩ := Ring.cnt_pop ring r' d h.wf hp
  obtain ⟨hdn, hdc, hdd⟩ := baseF_cnt_pos h d hd1
  have hrr : (opReuse (sp d) t).o = .pop := by unfold opReuse; rw [if_pos (Or.inl hdc)]
  have hwf' : Ring.WF r' := by have := Ring.pop_wf true ring h.wf; rw [hp] at this; exact this
  have hc' := (opReuse_pop _ t hrr).2
  have hle : Ring.cnt ring d ≤ 1 := by rw [h.cnt d]; split <;> omega
  refine ⟨⟨hdd, hrr, hdc⟩, ?_⟩
  obtain ⟨h1, h2, h3, h4, h5, h6, h7, h8, h9⟩ := h
  refine ⟨h1, ?_, ?_, ?_, ?_, hwf', ?_, ?_, h9⟩
  all_goals intro x
  · intro hx; by_cases e : x = d
    · subst e; simp only [upd_same]; exact opReuse_inv _ t (h2 x hx)
    · rw [upd_other _ _ _ _ e]; exact h2 x hx
  · intro hx; by_cases e : x = d
    · subst e; simp only [upd_same]; rw [opReuse_owner]; exact h3 x hx
    · rw [upd_other _ _ _ _ e]; exact h3 x hx
  · intro hx; by_cases e : x = d
    · subst e; simp only [upd_same]; rw [hc']; simp
    · rw [upd_other _ _ _ _ e]; exact h4 x hx
  · intro hx; by_cases e : x = d
    · subst e; rw [hdd] at hx; simp at hx
    · rw [upd_other _ _ _ _ e]; exact h5 x hx
  · rw [hcx x]; by_cases e : x = d
    · subst e; simp [hc']; omega
    · simp [upd_other _ _ _ _ e, e]; simpa using h7 x
  · by_cases e : x = d
    · subst e; simp [hc']; exact ⟨h4 x hdn hdc, hdn⟩
    · simp [upd_other _ _ _ _ e, e]; simpa using h8 x

theorem baseF_create {sp : Nat → Core} {nd nt : Nat} {ring : Ring.R} {refH : List Nat} {dead : Nat → Bool} {ce : Bool}
    (h : BaseF sp nd nt ring refH dead ce) (t : Tid) :
    BaseF (upd sp nd (opReuse (initCore none) t).c) (nd + 1) nt ring (nd :: refH) (upd dead nd false) ce := by
  have hrr : (opReuse (initCore none) t).o = .pop := by unfold opReuse; rw [if_pos (Or.inr (by simp [initCore]))]
  have hc' := (opReuse_pop _ t hrr).2
  obtain ⟨h1, h2, h3, h4, h5, h6, h7, h8, h9⟩ := h
  refine ⟨by omega, ?_, ?_, ?_, ?_, h6, ?_, ?_, h9⟩
  all_goals intro x
  · intro hx; by_cases e : x = nd
    · subst e; simp only [upd_same]; exact opReuse_inv _ t (inv_init none)
    · rw [upd_other _ _ _ _ e]; exact h2 x (by omega)
  · intro hx; by_cases e : x = nd
    · subst e; simp only [upd_same]; rw [opReuse_owner]; have : ¬ x < nt := by omega
      simp [initCore, this]
    · rw [upd_other _ _ _ _ e]; exact h3 x (by omega)
  · intro hx; by_cases e : x = nd
    · subst e; intro _; exact h1
    · rw [upd_other _ _ _ _ e]; exact h4 x (by omega)
  · intro hx; by_cases e : x = nd
    · subst e; simp at hx
    · rw [upd_other _ _ _ _ e] at hx ⊢; have := h5 x hx; exact ⟨by omega, this.2⟩
  · by_cases e : x = nd
    · subst e; have := h7 x; simp at this; simp [hc']; exact this
    · have h7x := h7 x
      have : (x < nd + 1) ↔ (x < nd) := by omega
      simp [upd_other _ _ _ _ e, this]; simpa using h7x
  · by_cases e : x = nd
    · subst e; simp [hc']; exact h1
    · have : (x < nd + 1) ↔ (x < nd) := by omega
      simp [upd_other _ _ _ _ e, e, this]; simpa using h8 x

theorem base_stepPop (sk : Skel) (hk : sk.ok = true) (s : PSt) (t : Tid) (h : Base s) : Base (stepPop sk s t).s := by
  unfold stepPop
  simp only [ok_popClears sk hk]
  cases hp : Ring.pop true s.ring with
  | mk r' e =>
    cases e with
    | some d =>
      simp only []
      obtain ⟨⟨hdd, hrr, hdc⟩, hb⟩ := baseF_pop h r' d t hp
      rw [if_neg (by simp [hdd, hrr, hdc])]
      exact hb
    | none =>
      simp only []
      have hr' : r' = s.ring := Ring.pop_none true s.ring r' hp
      subst hr'
      exact baseF_create h t

theorem baseF_cache {sp : Nat → Core} {nd nt : Nat} {ring : Ring.R} {refH : List Nat} {dead : Nat → Bool} {ce : Bool}
    (h : BaseF sp nd nt ring refH dead ce) (a : Nat) (t : Tid) (hl : (sp a).lv = some t) (hpc : (sp a).lvPc = .cache)
    (hda : dead a = false) (hnt : nt ≤ a) (hnd : a < nd) :
    BaseF (upd sp a (stepLv (sp a)).c) nd nt (Ring.push ring a).1 (refH.filter (· ≠ a))
      (match (Ring.push ring a).2 with | some x => upd dead x true | none => dead) ce := by
  have hca : (sp a).cached = false := (inv_lv _ t (h.inv a hnd) hl).1
  have hc' : (stepLv (sp a)).c.cached = true := by rw [stepLv_cached, hpc]; simp
  have hcnta : Ring.cnt ring a = 0 := by rw [h.cnt a]; simp [hca]
  have hpush := fun x => Ring.cnt_push ring a x h.wf
  have hwf' := Ring.push_wf ring a h.wf
  have hea : Ring.entry ring ring.head ≠ some a := fun he => by have := Ring.entry_cnt ring _ _ he; omega
  have h0 := h
  obtain ⟨h1, h2, h3, h4, h5, h6, h7, h8, h9⟩ := h
  have hinv : ∀ x, x < nd → Inv (upd sp a (stepLv (sp a)).c x) := by
    intro x hx; by_cases e : x = a
    · subst e; simp only [upd_same]; exact stepLv_inv _ t (h2 x hx) hl
    · rw [upd_other _ _ _ _ e]; exact h2 x hx
  have hown : ∀ x, x < nd → (upd sp a (stepLv (sp a)).c x).owner = if x < nt then some x else none := by
    intro x hx; by_cases e : x = a
    · subst e; simp only [upd_same]; rw [stepLv_owner]; exact h3 x hx
    · rw [upd_other _ _ _ _ e]; exact h3 x hx
  have hcc : ∀ x, x < nd → (upd sp a (stepLv (sp a)).c x).cached = true → nt ≤ x := by
    intro x hx; by_cases e : x = a
    · subst e; intro _; exact hnt
    · rw [upd_other _ _ _ _ e]; exact h4 x hx
  have hrefs : ∀ x, x ∈ refH.filter (· ≠ a) ↔ (nt ≤ x ∧ x < nd ∧ (upd sp a (stepLv (sp a)).c x).cached = false) := by
    intro x; by_cases e : x = a
    · subst e; simp [hc']
    · simp [upd_other _ _ _ _ e, e]; simpa using h8 x
  show BaseF _ nd nt (Ring.push ring a).1 _ (match Ring.entry ring ring.head with | some x => upd dead x true | none => dead) ce
  cases he : Ring.entry ring ring.head with
  | none =>
    simp only []
    refine ⟨h1, hinv, hown, hcc, ?_, hwf', ?_, hrefs, h9⟩
    · intro x hx
      have hxa : x ≠ a := fun e => by subst e; rw [hda] at hx; simp at hx
      rw [upd_other _ _ _ _ hxa]; exact h5 x hx
    · intro x
      rw [hpush x, he]
      by_cases e : x = a
      · subst e; simp [hc', hda, hnd]; omega
      · have : ¬ a = x := fun h => e h.symm
        simp [upd_other _ _ _ _ e, this]; simpa using h7 x
  | some x0 =>
    simp only []
    have hx0 := baseF_cnt_pos h0 x0 (Ring.entry_cnt ring _ _ he)
    have hx0a : x0 ≠ a := fun e => hea (by rw [he, e])
    refine ⟨h1, hinv, hown, hcc, ?_, hwf', ?_, hrefs, h9⟩
    · intro x hx
      by_cases e0 : x = x0
      · subst e0; rw [upd_other _ _ _ _ hx0a]; exact ⟨hx0.1, hx0.2.1⟩
      · rw [upd_other _ _ _ _ e0] at hx
        have hxa : x ≠ a := fun e => by subst e; rw [hda] at hx; simp at hx
        rw [upd_other _ _ _ _ hxa]; exact h5 x hx
    · intro x
      rw [hpush x, he]
      by_cases e : x = a
      · subst e
        have : ¬ x0 = x := hx0a
        simp [hc', hnd, upd_other _ _ _ _ (Ne.symm hx0a), hda, this]; omega
      · have hax : ¬ a = x := fun h => e h.symm
        by_cases e0 : x = x0
        · subst e0; simp [hax]
          have := h7 x; simp [hx0] at this; omega
        · have : ¬ x0 = x := fun h => e0 h.symm
          simp [upd_other _ _ _ _ e, upd_other _ _ _ _ e0, hax, this]; simpa using h7 x

theorem base_stepAct (sk : Skel) (hk : sk.ok = true) (s : PSt) (t : Tid) (h : Base s) : Base (stepAct sk s t).s := by
  unfold stepAct
  simp only []
  split
  · -- cleanup
    split
    · rename_i hg
      simp only [ok_cleanupCaches sk hk, if_true]
      exact baseF_cache h _ t hg.1 hg.2.1 hg.2.2.1 hg.2.2.2.1 hg.2.2.2.2
    · exact h
  · -- notify
    split
    · rename_i hg
      exact base_sp s h _ _ (fun hd => ⟨stepLv_inv _ t (h.inv _ hd) hg.1, stepLv_owner _, stepLv_cached' _ (by rw [hg.2]; simp)⟩)
    · split
      · rename_i hg
        exact base_sp s h _ _ (fun hd => ⟨stepLv_inv _ t (h.inv _ hd) hg.1, stepLv_owner _, stepLv_cached' _ (by rw [hg.2]; simp)⟩)
      · exact h
  · -- register_waiter
    split
    · exact h
    · split
      · rename_i s1 lab hr
        exact base_doResume _ t _ (show Base { s with wst := upd s.wst (s.thr t).arg .none } from h) s1 lab hr
      · exact h
    · exact h
  · exact h

theorem base_stepT (sk : Skel) (hk : sk.ok = true) (s : PSt) (t : Tid) (op : Option Pool.Op) (h : Base s) :
    Base (stepT sk s t op).s := by
  unfold stepT
  split
  · exact h
  · simp only []
    split
    · exact base_stepPush s t _ h
    · split
      · exact base_stepSel sk s t h
      · exact base_stepPop sk hk s t h
      · exact base_stepSw sk s t h
      · exact base_stepFrA sk s t h
      · exact base_stepFrX sk s t h
      · exact base_stepAct sk hk s t h
      · exact base_stepFin sk s t h
      · split
        · exact h
        · exact base_stepCb s t _ h
      · split
        · exact h
        · split
          · exact h
          · split
            · split
              · exact base_doWaitDone s t _ h
              · exact base_stepIdle sk s t _ h
            · exact base_stepOut sk hk s t _ h

theorem base_step (sk : Skel) (hk : sk.ok = true) (g : GSt) (t : Tid) (h : Base g.p) : Base (step sk g t).p := by
  unfold step
  have := base_stepT sk hk g.p t (g.ops t).head? h
  simp only []
  split <;> exact this

theorem base_init (nt cap : Nat) (hc : 0 < cap) (workers : List Bool) : Base (initPool nt cap workers) := by
  refine ⟨Nat.le_refl _, ?_, ?_, ?_, ?_, Ring.init_wf cap hc, ?_, ?_, rfl⟩
  all_goals intro d
  · intro hd; simp only [initPool] at hd ⊢; simp only [hd, if_true]; exact inv_init _
  · intro hd; simp only [initPool] at hd ⊢; simp [hd, initCore]
  · intro hd; simp only [initPool] at hd ⊢; simp [hd, initCore]
  · intro hd; simp [initPool] at hd
  · simp only [initPool]; rw [Ring.cnt_init]
    by_cases hd : d < nt <;> simp [hd, initCore]
  · simp only [initPool]
    by_cases hd : d < nt <;> simp [hd]; omega

/-- the base invariant holds in every reachable state of the pool -/
theorem base_reachable (sk : Skel) (hk : sk.ok = true) (nt cap : Nat) (hc : 0 < cap) (workers : List Bool) (progs : List (List Pool.Op))
    (sched : List Tid) : Base ((sys sk nt cap workers progs).run sched).p :=
  Sys.inv_run (sys sk nt cap workers progs) (fun g => Base g.p) (base_init nt cap hc workers)
    (fun g t h => base_step sk hk g t h) sched

end TbbVerif.C20.Pool
