/- C20 — the "executing a critical task" state of a dispatcher (`!m_properties.critical_task_allowed`) is kept across a
suspension, and the stream its resume task is published into is chosen by that state. -/
import TbbVerif.Proofs.C20.PoolLogs

namespace TbbVerif.C20

open SS

theorem inv_rs (c : Core) (t : Tid) (h : Inv c) (hr : c.rs = some t) : c.stk = none := by
  obtain ⟨_, p, hp⟩ := h
  cases p <;> simp only [spec, base, P_run] at hp <;> simp_all

theorem lvAfter_sq (c : Core) : (lvAfter c).stk = c.stk ∧ (lvAfter c).queue = c.queue := by
  unfold lvAfter; cases c.kind <;> simp

theorem stepLv_stk (c : Core) : (stepLv c).c.stk = c.stk := by
  unfold stepLv
  cases c.lvPc <;> simp only [] <;> (try split) <;> simp [lvAfter_sq, pushTask]

theorem stepLv_queue (c : Core) : (stepLv c).c.queue = c.queue ∨ ((stepLv c).ev = .push ∧ (stepLv c).c.queue = c.queue + 1) := by
  unfold stepLv
  cases c.lvPc <;> simp only [] <;> (try split) <;> simp [lvAfter_sq, pushTask]

theorem stepLv_push_ev (c : Core) (h : (stepLv c).ev ≠ .push) : (stepLv c).c.queue = c.queue := by
  rcases stepLv_queue c with h1 | h1
  · exact h1
  · exact absurd h1.1 h

theorem opResume_sq (c : Core) (t : Tid) : (opResume c t).c.stk = c.stk ∧ (opResume c t).c.queue = c.queue := by
  unfold opResume; (repeat' split) <;> simp [doNotify]

theorem opTake_sq (c : Core) (t : Tid) : (opTake c t).c.stk = c.stk ∧ (opTake c t).c.queue ≤ c.queue := by
  unfold opTake; (repeat' split) <;> simp

theorem opReuse_sq (c : Core) (t : Tid) : (opReuse c t).c.stk = c.stk ∧ (opReuse c t).c.queue = c.queue := by
  unfold opReuse; split <;> simp

/-- the on-stack steps the pool uses: `suspend`, `resume`, the flag reset keep the occupant; a switch empties the stack;
none of them touches the queue -/
theorem stepStk_queue (c : Core) (t : Tid) (op : Option Op)
    (hop : op = some .suspend ∨ op = some .resume ∨ op = none ∨ ∃ k, op = some (.switch k)) :
    (stepStk c t op).c.queue = c.queue ∨ c.stkPc = .cbPush := by
  unfold stepStk
  cases hpc : c.stkPc <;> simp only []
  case cbPush => right; trivial
  case clr => left; simp
  case run =>
    left
    rcases hop with h | h | h | ⟨k, h⟩ <;> subst h <;> (try simp only [])
    · simp [newRound]
    · simp only [opAny]; exact (opResume_sq c t).2
    · cases k <;> simp only [] <;> (try split) <;> simp [newRound]
  case cb =>
    left
    rcases hop with h | h | h | ⟨k, h⟩ <;> subst h <;> (try simp only [])
    · (repeat' split) <;> simp [doNotify]
    · cases k <;> simp

theorem stepStk_stk_keep (c : Core) (t : Tid) (op : Option Op) (hop : op = some .suspend ∨ op = some .resume ∨ op = none) :
    (stepStk c t op).c.stk = c.stk := by
  unfold stepStk
  cases hpc : c.stkPc <;> simp only [] <;> (try simp [pushTask])
  case run =>
    rcases hop with h | h | h <;> subst h <;> (try simp only [])
    · simp [newRound]
    · simp only [opAny]; exact (opResume_sq c t).1
  case cb =>
    rcases hop with h | h | h <;> subst h <;> (try simp only [])
    (repeat' split) <;> simp [doNotify]

theorem inv_no_cbPush (c : Core) (t : Tid) (h : Inv c) (hs : c.stk = some t) : c.stkPc ≠ .cbPush := by
  obtain ⟨_, p, hp⟩ := h
  cases p
  case run => simp only [spec, P_run] at hp; rcases hp.2.1 with h1 | h1 <;> simp [h1]
  all_goals (simp only [spec, base] at hp; simp_all)

namespace Pool

/-- `kept`: while nobody runs a dispatcher its critical state is what it was when it was left; `queued`: a published resume
task sits in the stream that this state selects -/
structure CritF (sp : Nat → Core) (crit critAt critQ : Nat → Bool) : Prop where
  kept : ∀ d, (sp d).stk = none → crit d = critAt d
  queued : ∀ d, 0 < (sp d).queue → critQ d = critAt d

def Crit (s : PSt) : Prop := CritF s.sp s.crit s.critAt s.critQ

theorem crit_sp (s : PSt) (hc : Crit s) (d0 : DId) (c' : Core)
    (h1 : c'.stk = none → (s.sp d0).stk = none) (h2 : 0 < c'.queue → 0 < (s.sp d0).queue) : Crit (setSp s d0 c') := by
  refine ⟨?_, ?_⟩ <;> intro d hd
  · by_cases e : d = d0
    · subst e; simp only [setSp, upd_same] at hd; exact hc.kept d (h1 hd)
    · simp only [setSp, upd_other _ _ _ _ e] at hd; exact hc.kept d hd
  · by_cases e : d = d0
    · subst e; simp only [setSp, upd_same] at hd; exact hc.queued d (h2 hd)
    · simp only [setSp, upd_other _ _ _ _ e] at hd; exact hc.queued d hd

theorem resumeCore_sq (c : Core) (t : Tid) (h : Inv c) :
    (resumeCore c t).c.stk = c.stk ∧ (resumeCore c t).c.queue = c.queue := by
  unfold resumeCore
  by_cases hs : c.stk = some t
  · simp only [hs, if_true]
    refine ⟨by rw [stepStk_stk_keep _ _ _ (Or.inr (Or.inl rfl))]; exact hs, ?_⟩
    rcases stepStk_queue c t (some .resume) (Or.inr (Or.inl rfl)) with h1 | h1
    · exact h1
    · exact absurd h1 (inv_no_cbPush c t h hs)
  · simp only [hs, if_false]; exact opResume_sq c t

theorem crit_doResume (s : PSt) (t : Tid) (d : DId) (hb : Base s) (hc : Crit s) (s1 : PSt) (lab : String)
    (hr : doResume s t d = some (s1, lab)) : Crit s1 := by
  unfold doResume at hr
  simp only [] at hr
  split at hr
  · simp at hr
  · rename_i hg
    have hd : d < s.nd := by simp only [not_or, Decidable.not_not] at hg; exact hg.2
    have hq := resumeCore_sq (s.sp d) t (hb.inv d hd)
    have hx : Crit (setSp s d (resumeCore (s.sp d) t).c) :=
      crit_sp s hc d _ (fun h => by rw [hq.1] at h; exact h) (fun h => by rw [hq.2] at h; exact h)
    simp only [Option.some.injEq, Prod.mk.injEq] at hr
    obtain ⟨e, _⟩ := hr
    subst e
    split <;> exact hx

theorem crit_stepPush (s : PSt) (t : Tid) (d : DId) (hb : Base s) (hc : Crit s) : Crit (stepPush s t d).s := by
  unfold stepPush
  split
  · rename_i hrs
    have hst := inv_rs _ t (hb.inv d hrs.2) hrs.1
    refine ⟨?_, ?_⟩ <;> intro x hx
    · by_cases e : x = d
      · subst e; exact hc.kept x hst
      · simp only [setThr, setSp, upd_other _ _ _ _ e] at hx; exact hc.kept x hx
    · by_cases e : x = d
      · subst e; show upd s.critQ x (s.crit x) x = s.critAt x; simp only [upd_same]; exact hc.kept x hst
      · simp only [setThr, setSp, upd_other _ _ _ _ e] at hx
        show upd s.critQ d (s.crit d) x = s.critAt x
        rw [upd_other _ _ _ _ e]; exact hc.queued x hx
  · exact hc

theorem crit_userResume (s : PSt) (t : Tid) (d : DId) (hb : Base s) (hc : Crit s) : Crit (userResume s t d).s := by
  unfold userResume
  split
  · split
    · rename_i s1 lab hr; exact crit_doResume s t d hb hc s1 lab hr
    · exact hc
  · exact hc

theorem crit_doWaitDone (s : PSt) (t : Tid) (d : DId) (hb : Base s) (hc : Crit s) : Crit (doWaitDone s t d).s := by
  unfold doWaitDone
  split
  · exact hc
  · split
    · rename_i s1 lab hr
      exact crit_doResume _ t d (show Base { s with wst := upd s.wst d .none } from hb) (show Crit { s with wst := upd s.wst d .none } from hc) s1 lab hr
    · exact hc
  · exact hc

theorem regCore_sq (c : Core) (t : Tid) (wd : Bool) (c' : Core) (lab : String) (h : Inv c) (hs : c.stk = some t)
    (hr : regCore c t wd = some (c', lab)) : c'.stk = c.stk ∧ c'.queue = c.queue := by
  have h1 := stepStk_inv' c t (some .suspend) h hs
  have s1 : (stepStk c t (some .suspend)).c.stk = some t := by rw [stepStk_suspend_stk]; exact hs
  have q1 : (stepStk c t (some .suspend)).c.queue = c.queue := by
    rcases stepStk_queue c t (some .suspend) (Or.inl rfl) with h2 | h2
    · exact h2
    · exact absurd h2 (inv_no_cbPush c t h hs)
  unfold regCore at hr
  simp only [] at hr
  split at hr
  · simp at hr
  · split at hr
    · split at hr
      · simp at hr
      · simp only [Option.some.injEq, Prod.mk.injEq] at hr
        obtain ⟨e, _⟩ := hr; subst e
        refine ⟨by rw [stepStk_stk_keep _ _ _ (Or.inr (Or.inl rfl)), s1, hs], ?_⟩
        rcases stepStk_queue (stepStk c t (some .suspend)).c t (some .resume) (Or.inr (Or.inl rfl)) with h2 | h2
        · rw [h2, q1]
        · exact absurd h2 (inv_no_cbPush _ t h1 s1)
    · simp only [Option.some.injEq, Prod.mk.injEq] at hr
      obtain ⟨e, _⟩ := hr; subst e
      exact ⟨by rw [s1, hs], q1⟩

theorem crit_doTake (s : PSt) (t : Tid) (d : DId) (wd : Bool) (hb : Base s) (hc : Crit s) : Crit (doTake s t d wd).s := by
  unfold doTake
  simp only []
  split
  · exact hc
  · rename_i hg
    simp only [not_or, Decidable.not_not] at hg
    obtain ⟨hdc, hdn, _, _, hcs, hds, hdk, hcn⟩ := hg
    split
    · exact hc
    · have hq := opTake_sq (s.sp d) t
      have hs1 : Crit (setSp s d (opTake (s.sp d) t).c) :=
        crit_sp s hc d _ (fun h => by rw [hq.1] at h; exact h) (fun h => by have := hq.2; omega)
      have hcur : (setSp s d (opTake (s.sp d) t).c).sp (s.thr t).cur = s.sp (s.thr t).cur := by
        simp only [setSp]; exact upd_other _ _ _ _ (fun e => hdc e.symm)
      split
      · split
        · exact hc
        · rename_i c' lab hr
          have hq2 := regCore_sq _ t wd c' lab (hb.inv _ hcn) hcs hr
          split
          · exact crit_sp _ hs1 _ c' (fun h => by rw [hcur]; rw [hq2.1] at h; exact h) (fun h => by rw [hcur]; rw [hq2.2] at h; exact h)
          · exact crit_sp { (setSp s d (opTake (s.sp d) t).c) with wst := _ } hs1 _ c'
              (fun h => by rw [hcur]; rw [hq2.1] at h; exact h) (fun h => by rw [hcur]; rw [hq2.2] at h; exact h)
      · exact hs1

theorem crit_stepIdle (sk : Skel) (s : PSt) (t : Tid) (op : Pool.Op) (hb : Base s) (hc : Crit s) : Crit (stepIdle sk s t op).s := by
  unfold stepIdle
  simp only []
  cases op <;> simp only []
  case suspend =>
    split
    · exact hc
    · exact crit_sp { s with handed := _ } hc _ _
        (fun h => by rw [stepStk_stk_keep _ _ _ (Or.inl rfl)] at h; exact h)
        (fun h => by
          rename_i hg; simp only [not_or, Decidable.not_not] at hg
          rcases stepStk_queue (s.sp (s.thr t).cur) t (some .suspend) (Or.inl rfl) with h2 | h2
          · rw [h2] at h; exact h
          · exact absurd h2 (inv_no_cbPush _ t (hb.inv _ hg.2.2) hg.2.1))
  case resume d => exact crit_userResume s t d hb hc
  case take d wd => exact crit_doTake s t d wd hb hc
  case enterLoop => split <;> exact hc
  case exitLoop => split <;> (try split) <;> exact hc
  case critBegin =>
    split
    · rename_i hg
      refine ⟨?_, hc.queued⟩
      intro d hd
      by_cases e : d = (s.thr t).cur
      · subst e; rw [hg] at hd; simp at hd
      · show upd s.crit (s.thr t).cur true d = s.critAt d
        rw [upd_other _ _ _ _ e]; exact hc.kept d hd
    · exact hc
  case critEnd =>
    split
    · rename_i hg
      refine ⟨?_, hc.queued⟩
      intro d hd
      by_cases e : d = (s.thr t).cur
      · subst e; rw [hg] at hd; simp at hd
      · show upd s.crit (s.thr t).cur false d = s.critAt d
        rw [upd_other _ _ _ _ e]; exact hc.kept d hd
    · exact hc
  case leaveArena => split <;> exact hc
  all_goals exact hc

theorem crit_stepOut (sk : Skel) (s : PSt) (t : Tid) (op : Pool.Op) (hb : Base s) (hc : Crit s) : Crit (stepOut sk s t op).s := by
  unfold stepOut
  cases op <;> simp only []
  case resume d => exact crit_userResume s t d hb hc
  case waitDone d => exact crit_doWaitDone s t d hb hc
  case enterArena => split <;> exact hc
  case arenaCleanup => split <;> exact hc
  all_goals exact hc

theorem crit_stepCb (s : PSt) (t : Tid) (op : Pool.Op) (hb : Base s) (hc : Crit s) : Crit (stepCb s t op).s := by
  unfold stepCb
  cases op <;> simp only []
  case resume d => exact crit_userResume s t d hb hc
  case waitDone d => exact crit_doWaitDone s t d hb hc
  all_goals exact hc

theorem crit_stepSel (sk : Skel) (s : PSt) (t : Tid) (hc : Crit s) : Crit (stepSel sk s t).s := by
  unfold stepSel
  simp only []
  split
  · split
    · exact hc
    · split
      · have hq := opTake_sq (s.sp t) t
        exact crit_sp s hc t _ (fun h => by rw [hq.1] at h; exact h) (fun h => by have := hq.2; omega)
      · exact hc
  · exact hc

theorem crit_stepPop (sk : Skel) (s : PSt) (t : Tid) (hc : Crit s) : Crit (stepPop sk s t).s := by
  unfold stepPop
  simp only []
  cases hp : Ring.pop sk.popClears s.ring with
  | mk r' e =>
    cases e with
    | some d =>
      simp only []
      split
      · exact hc
      · have hq := opReuse_sq (s.sp d) t
        exact crit_sp { s with ring := r', refH := d :: s.refH } hc d _ (fun h => by rw [hq.1] at h; exact h) (fun h => by rw [hq.2] at h; exact h)
    | none =>
      simp only []
      refine ⟨?_, ?_⟩ <;> intro x hx
      · by_cases e : x = s.nd
        · subst e; show upd s.crit s.nd false s.nd = upd s.critAt s.nd false s.nd; simp
        · simp only [setThr, setSp, upd_other _ _ _ _ e] at hx
          show upd s.crit s.nd false x = upd s.critAt s.nd false x
          rw [upd_other _ _ _ _ e, upd_other _ _ _ _ e]; exact hc.kept x hx
      · by_cases e : x = s.nd
        · subst e; show upd s.critQ s.nd false s.nd = upd s.critAt s.nd false s.nd; simp
        · simp only [setThr, setSp, upd_other _ _ _ _ e] at hx
          show upd s.critQ s.nd false x = upd s.critAt s.nd false x
          rw [upd_other _ _ _ _ e, upd_other _ _ _ _ e]; exact hc.queued x hx

theorem crit_stepSw (sk : Skel) (s : PSt) (t : Tid) (hb : Base s) (hc : Crit s) : Crit (stepSw sk s t).s := by
  unfold stepSw
  simp only []
  split
  · exact hc
  · rename_i hg
    simp only [not_or, Decidable.not_not] at hg
    obtain ⟨_, _, hst, hcn⟩ := hg
    have hq0 := (inv_stk _ t (hb.inv _ hcn) hst).2.2.2.1
    have hqq : (stepStk (s.sp (s.thr t).cur) t (some (.switch (kindOf (s.thr t).act)))).c.queue = (s.sp (s.thr t).cur).queue := by
      rcases stepStk_queue (s.sp (s.thr t).cur) t _ (Or.inr (Or.inr (Or.inr ⟨_, rfl⟩))) with h2 | h2
      · exact h2
      · exact absurd h2 (inv_no_cbPush _ t (hb.inv _ hcn) hst)
    refine ⟨?_, ?_⟩ <;> intro x hx
    · by_cases e : x = (s.thr t).cur
      · subst e; show s.crit (s.thr t).cur = upd s.critAt (s.thr t).cur (s.crit (s.thr t).cur) (s.thr t).cur; simp
      · simp only [setThr, setSp, upd_other _ _ _ _ e] at hx
        show s.crit x = upd s.critAt (s.thr t).cur (s.crit (s.thr t).cur) x
        rw [upd_other _ _ _ _ e]; exact hc.kept x hx
    · by_cases e : x = (s.thr t).cur
      · subst e; simp only [setThr, setSp, upd_same] at hx; rw [hqq, hq0] at hx; omega
      · simp only [setThr, setSp, upd_other _ _ _ _ e] at hx
        show s.critQ x = upd s.critAt (s.thr t).cur (s.crit (s.thr t).cur) x
        rw [upd_other _ _ _ _ e]; exact hc.queued x hx

theorem crit_stepFrA (sk : Skel) (s : PSt) (t : Tid) (hc : Crit s) : Crit (stepFrA sk s t).s := by
  unfold stepFrA
  simp only []
  split
  · exact crit_sp s hc _ _ (fun h => by simp [stepTk] at h) (fun h => by simpa [stepTk] using h)
  · exact hc

theorem crit_stepFrX (sk : Skel) (s : PSt) (t : Tid) (hb : Base s) (hc : Crit s) : Crit (stepFrX sk s t).s := by
  unfold stepFrX
  simp only []
  split
  · rename_i hg
    obtain ⟨hlv, _, hpn⟩ := hg
    have hst := (inv_lv _ t (hb.inv _ hpn) hlv).2.1
    split
    · -- the leaver publishes the resume task: the stream is chosen by the state of the stack that was left
      refine ⟨?_, ?_⟩ <;> intro x hx
      · by_cases e : x = (s.thr t).prv
        · subst e; exact hc.kept _ hst
        · simp only [setThr, setSp, upd_other _ _ _ _ e] at hx; exact hc.kept x hx
      · by_cases e : x = (s.thr t).prv
        · subst e; show upd s.critQ (s.thr t).prv (s.crit (s.thr t).prv) (s.thr t).prv = s.critAt (s.thr t).prv
          simp only [upd_same]; exact hc.kept _ hst
        · simp only [setThr, setSp, upd_other _ _ _ _ e] at hx
          show upd s.critQ (s.thr t).prv (s.crit (s.thr t).prv) x = s.critAt x
          rw [upd_other _ _ _ _ e]; exact hc.queued x hx
    · rename_i hev
      exact crit_sp s hc _ _ (fun h => by rw [stepLv_stk] at h; exact h) (fun h => by rw [stepLv_push_ev _ hev] at h; exact h)
  · exact hc

theorem crit_stepFin (sk : Skel) (s : PSt) (t : Tid) (hb : Base s) (hc : Crit s) : Crit (stepFin sk s t).s := by
  unfold stepFin
  simp only []
  split
  · split
    · rename_i hcur hg
      by_cases hn : (s.thr t).cur < s.nd
      · exact crit_sp s hc _ _ (fun h => by rw [stepStk_stk_keep _ _ _ (Or.inr (Or.inr rfl))] at h; exact h)
          (fun h => by
            rcases stepStk_queue (s.sp (s.thr t).cur) t none (Or.inr (Or.inr (Or.inl rfl))) with h2 | h2
            · rw [h2] at h; exact h
            · exact absurd h2 (inv_no_cbPush _ t (hb.inv _ hn) hg.1))
      · exact crit_sp s hc _ _ (fun h => by rw [stepStk_stk_keep _ _ _ (Or.inr (Or.inr rfl))] at h; exact h)
          (fun h => by
            rcases stepStk_queue (s.sp (s.thr t).cur) t none (Or.inr (Or.inr (Or.inl rfl))) with h2 | h2
            · rw [h2] at h; exact h
            · rw [hg.2] at h2; simp at h2)
    · exact hc
  · exact hc

theorem crit_stepAct (sk : Skel) (hk : sk.ok = true) (s : PSt) (t : Tid) (hb : Base s) (hc : Crit s) : Crit (stepAct sk s t).s := by
  have hlv : ∀ a, (s.sp a).lvPc ≠ .push → Crit (setSp s a (stepLv (s.sp a)).c) := by
    intro a hp
    have hev : (stepLv (s.sp a)).ev ≠ .push := by
      unfold stepLv; cases hpc : (s.sp a).lvPc <;> simp only [] <;> (try split) <;> simp_all
    exact crit_sp s hc a _ (fun h => by rw [stepLv_stk] at h; exact h) (fun h => by rw [stepLv_push_ev _ hev] at h; exact h)
  unfold stepAct
  simp only []
  split
  · split
    · rename_i hg
      simp only [ok_cleanupCaches sk hk, if_true]
      exact hlv _ (by rw [hg.2.1]; simp)
    · exact hc
  · split
    · rename_i hg; exact hlv _ (by rw [hg.2]; simp)
    · split
      · rename_i hg; exact hlv _ (by rw [hg.2]; simp)
      · exact hc
  · split
    · exact hc
    · split
      · rename_i s1 lab hr
        exact crit_doResume _ t _ (show Base { s with wst := upd s.wst (s.thr t).arg .none } from hb)
          (show Crit { s with wst := upd s.wst (s.thr t).arg .none } from hc) s1 lab hr
      · exact hc
    · exact hc
  · exact hc

theorem crit_stepT (sk : Skel) (hk : sk.ok = true) (s : PSt) (t : Tid) (op : Option Pool.Op) (hb : Base s) (hc : Crit s) :
    Crit (stepT sk s t op).s := by
  unfold stepT
  split
  · exact hc
  · simp only []
    split
    · exact crit_stepPush s t _ hb hc
    · split
      · exact crit_stepSel sk s t hc
      · exact crit_stepPop sk s t hc
      · exact crit_stepSw sk s t hb hc
      · exact crit_stepFrA sk s t hc
      · exact crit_stepFrX sk s t hb hc
      · exact crit_stepAct sk hk s t hb hc
      · exact crit_stepFin sk s t hb hc
      · split
        · exact hc
        · exact crit_stepCb s t _ hb hc
      · split
        · exact hc
        · split
          · exact hc
          · split
            · split
              · exact crit_doWaitDone s t _ hb hc
              · exact crit_stepIdle sk s t _ hb hc
            · exact crit_stepOut sk s t _ hb hc

/-- both invariants in every reachable state -/
theorem crit_reachable (sk : Skel) (hk : sk.ok = true) (nt cap : Nat) (hcap : 0 < cap) (workers : List Bool) (progs : List (List Pool.Op))
    (sched : List Tid) : Crit ((sys sk nt cap workers progs).run sched).p := by
  have := Sys.inv_run (sys sk nt cap workers progs) (fun g => Base g.p ∧ Crit g.p)
    ⟨base_init nt cap hcap workers, ⟨fun _ _ => rfl, fun _ _ => rfl⟩⟩
    (fun g t h => by
      have hs : (step sk g t).p = (stepT sk g.p t (g.ops t).head?).s := by unfold step; simp only []; split <;> rfl
      show Base (step sk g t).p ∧ Crit (step sk g t).p
      rw [hs]
      exact ⟨base_stepT sk hk g.p t _ h.1, crit_stepT sk hk g.p t _ h.1 h.2⟩) sched
  exact this.2

end Pool
end TbbVerif.C20
