/- C20 — every step of the `Wait` model preserves its invariant (for the configuration the code has). -/
import TbbVerif.Proofs.C20.WaitInv

namespace TbbVerif.C20.Wait

theorem fc_upd (s : St) (d : Nat) (l : List Frame) (w : Nat) (hd : d < s.nd) (fr : Nat → List Frame) (hfr : fr = upd s.frames d l) :
    sumTo (fun x => (fr x).count (.task w)) s.nd + (s.frames d).count (.task w) = fc s w + l.count (.task w) := by
  subst hfr
  have := sumTo_change (fun x => (s.frames x).count (.task w)) (fun x => (upd s.frames d l x).count (.task w)) s.nd d hd
    (fun j hj => by simp [upd, hj])
  simp only [upd_same] at this
  simp only [fc]; omega

theorem fc_none (s : St) (h : WInv s) (w : Nat) (hw : s.nw ≤ w) : fc s w = 0 := by
  apply sumTo_zero
  intro d _
  apply List.count_eq_zero.mpr
  intro hf
  have := h.frlt d _ hf
  simp [frameWait] at this; omega

theorem kids_congr (s s' : St) (w n : Nat) (h : ∀ c, c < n → kidOf s' w c = kidOf s w c) : sumTo (kidOf s' w) n = sumTo (kidOf s w) n :=
  sumTo_congr _ _ n h

/-- steps that only change frames of one stack to a list with the same task frames -/
theorem inv_frames (s : St) (h : WInv s) (d : Nat) (l : List Frame) (hd : d < s.nd)
    (hc : ∀ w, l.count (.task w) = (s.frames d).count (.task w)) (hl : ∀ f, f ∈ l → frameWait f < s.nw) :
    WInv { s with frames := upd s.frames d l } := by
  refine ⟨?_, h.live, h.fresh, h.parlt, ?_, ?_, h.onatt, h.atton, h.wrong⟩
  · intro w hw
    have h0 := fc_upd s d l w hd _ rfl
    have h1 := h.cnt w hw
    have h2 := hc w
    show s.pend w + sumTo (fun x => (upd s.frames d l x).count (.task w)) s.nd + kids s w ≤ s.cnt w
    omega
  · intro x hx
    have hx' : s.nd ≤ x := hx
    have : x ≠ d := by omega
    show upd s.frames d l x = []
    rw [upd_other _ _ _ _ this]; exact h.nofr x hx
  · intro x f hf
    by_cases e : x = d
    · subst e; simp only [upd_same] at hf; exact hl f hf
    · simp only [upd_other _ _ _ _ e] at hf; exact h.frlt x f hf

theorem step_inv (cfg : Cfg) (hr : cfg.releaseAfterBody = true) (hg : cfg.recallGuard = true) (s : St) (t : Tid) (op : Op)
    (h : WInv s) : WInv (step cfg s t op) := by
  cases op with
  | enterWait w =>
    simp only [step]
    split
    · rename_i d hon
      split
      · rename_i hw
        have hd := (h.onatt t d hon).2
        apply inv_frames s h d _ hd
        · intro w'; simp [List.count_cons]
        · intro f hf
          rcases List.mem_cons.mp hf with e | e
          · subst e; exact hw
          · exact h.frlt d f e
      · exact h
    · exact h
  | exitWait =>
    simp only [step]
    split
    · rename_i d hon
      have hd := (h.onatt t d hon).2
      split
      · rename_i w rest hfr
        split
        · simp only [hg, Bool.and_true]
          split
          · exact h
          · rename_i hfor
            have hfor' : (rest.isEmpty && s.owner d != none && s.owner d != some t) = false := by simpa using hfor
            have hi := inv_frames s h d rest hd (fun w' => by rw [hfr]; simp [List.count_cons])
              (fun f hf => h.frlt d f (by rw [hfr]; exact List.mem_cons_of_mem _ hf))
            obtain ⟨a1, a2, a3, a4, a5, a6, a7, a8, a9⟩ := hi
            exact ⟨a1, a2, a3, a4, a5, a6, a7, a8, by simp only [hfor', Bool.or_false]; exact h.wrong⟩
        · exact h
      · exact h
    · exact h
  | detach =>
    simp only [step]
    split
    · rename_i d hon
      refine ⟨h.cnt, h.live, h.fresh, h.parlt, h.nofr, h.frlt, ?_, ?_, h.wrong⟩
      · intro t' d' ho
        by_cases e : t' = t
        · subst e; simp at ho
        · simp only [upd_other _ _ _ _ e] at ho
          have h1 := h.onatt t' d' ho
          have hdd : d' ≠ d := by
            intro e'; subst e'
            have h2 := h.onatt t d' hon
            rw [h1.1] at h2; simp at h2; exact e h2.1
          simp only [upd_other _ _ _ _ hdd]; exact h1
      · intro t' d' ha
        by_cases e : d' = d
        · subst e; simp at ha
        · simp only [upd_other _ _ _ _ e] at ha
          have := h.atton t' d' ha
          have : t' ≠ t := by intro e'; subst e'; rw [hon] at this; simp at this; exact e this.symm
          simp only [upd_other _ _ _ _ this]; exact h.atton t' d' ha
    · exact h
  | attach d =>
    simp only [step]
    split
    · rename_i hg2
      obtain ⟨hon, hdn, hatt⟩ := hg2
      refine ⟨?_, h.live, h.fresh, h.parlt, ?_, h.frlt, ?_, ?_, h.wrong⟩
      · intro w hw
        have h1 := h.cnt w hw
        have hfc : sumTo (fun x => (s.frames x).count (.task w)) (if d = s.nd then s.nd + 1 else s.nd) = fc s w := by
          split
          · simp only [sumTo, fc]; rw [h.nofr s.nd (Nat.le_refl _)]; simp
          · rfl
        show s.pend w + sumTo (fun x => (s.frames x).count (.task w)) (if d = s.nd then s.nd + 1 else s.nd) + kids s w ≤ s.cnt w
        omega
      · intro x hx
        have hx' : (if d = s.nd then s.nd + 1 else s.nd) ≤ x := hx
        apply h.nofr x
        split at hx' <;> omega
      · intro t' d' ho
        by_cases e : t' = t
        · subst e; simp at ho; subst ho
          refine ⟨by simp, ?_⟩
          show d < (if d = s.nd then s.nd + 1 else s.nd)
          split <;> omega
        · simp only [upd_other _ _ _ _ e] at ho
          have h1 := h.onatt t' d' ho
          have hdd : d' ≠ d := by intro e'; subst e'; rw [hatt] at h1; simp at h1
          simp only [upd_other _ _ _ _ hdd]
          refine ⟨h1.1, ?_⟩
          show d' < (if d = s.nd then s.nd + 1 else s.nd)
          split <;> omega
      · intro t' d' ha
        by_cases e : d' = d
        · subst e; simp at ha; subst ha; simp
        · simp only [upd_other _ _ _ _ e] at ha
          have := h.atton t' d' ha
          have : t' ≠ t := by intro e'; subst e'; rw [hon] at this; simp at this
          simp only [upd_other _ _ _ _ this]; exact h.atton t' d' ha
    · exact h
  | spawn w =>
    simp only [step]
    split
    · rename_i hg2
      refine ⟨?_, ?_, ?_, h.parlt, h.nofr, h.frlt, h.onatt, h.atton, h.wrong⟩
      · intro w' hw'
        have h1 := h.cnt w' hw'
        show upd s.pend w (s.pend w + 1) w' + fc s w' + kids s w' ≤ upd s.cnt w (s.cnt w + 1) w'
        by_cases e : w' = w
        · subst e; simp only [upd_same]; omega
        · simp only [upd_other _ _ _ _ e]; omega
      · intro c p hc hp
        by_cases e : c = w
        · subst e; rcases hg2.2 with h1 | h1
          · rw [h1] at hp; simp at hp
          · exact h1
        · simp only [upd_other _ _ _ _ e] at hc; exact h.live c p hc hp
      · intro w' hw'
        have hw'' : s.nw ≤ w' := hw'
        have : w' ≠ w := by omega
        simp only [upd_other _ _ _ _ this]; exact h.fresh w' hw'
    · exact h
  | fold w =>
    simp only [step]
    split
    · rename_i p hp
      split
      · rename_i hg2
        obtain ⟨hl, hc0, hp0⟩ := hg2
        obtain ⟨hpn, hwn⟩ := h.parlt w p hp
        have hwp : w ≠ p := by
          intro e; subst e
          have h1 : kidOf s w w = 1 := by simp [kidOf, hl, hp]
          have h2 := sumTo_ge (kidOf s w) s.nw w hwn
          have h3 := h.cnt w hwn
          simp only [kids] at h3; omega
        refine ⟨?_, ?_, ?_, h.parlt, h.nofr, h.frlt, h.onatt, h.atton, h.wrong⟩
        · intro w' hw'
          have hc := h.cnt w' hw'
          let s' : St := { s with live := upd s.live w false, cnt := upd s.cnt p (s.cnt p - 1) }
          show s.pend w' + fc s w' + sumTo (kidOf s' w') s.nw ≤ upd s.cnt p (s.cnt p - 1) w'
          have hk := sumTo_change (kidOf s w') (kidOf s' w') s.nw w hwn (fun j hj => by simp [kidOf, s', upd, hj])
          have hk' : kidOf s' w' w = 0 := by simp [kidOf, s']
          by_cases e : w' = p
          · subst e
            have h1 : kidOf s w' w = 1 := by simp [kidOf, hl, hp]
            simp only [upd_same, kids] at *; omega
          · have h1 : kidOf s w' w = 0 := by
              simp only [kidOf, hp]; rw [if_neg]; intro hh; exact e (by simpa using hh.2.symm)
            simp only [upd_other _ _ _ _ e, kids] at *; omega
        · intro c q hc hq
          by_cases e : c = w
          · subst e
            have : q = p := by rw [hp] at hq; simpa using hq.symm
            subst this
            simp only [upd_other _ _ _ _ hwp] at hc; omega
          · simp only [upd_other _ _ _ _ e]
            apply h.live c q _ hq
            by_cases e2 : c = p
            · subst e2; simp only [upd_same] at hc
              rcases hc with hc | hc
              · left; omega
              · right; exact hc
            · simpa only [upd_other _ _ _ _ e2] using hc
        · intro w' hw'
          have hw'' : s.nw ≤ w' := hw'
          have : w' ≠ p := by omega
          simp only [upd_other _ _ _ _ this]; exact h.fresh w' hw'
      · exact h
    · exact h
  | begin w =>
    simp only [step]
    split
    · rename_i d hon
      have hd := (h.onatt t d hon).2
      split
      · rename_i hg2
        try simp only [hr, if_true]
        refine ⟨?_, ?_, ?_, h.parlt, ?_, ?_, h.onatt, h.atton, h.wrong⟩
        · intro w' hw'
          have hc := h.cnt w' hw'
          have hf := fc_upd s d (.task w :: s.frames d) w' hd _ rfl
          show upd s.pend w (s.pend w - 1) w' + sumTo (fun x => (upd s.frames d (.task w :: s.frames d) x).count (.task w')) s.nd + kids s w' ≤ s.cnt w'
          by_cases e : w' = w
          · subst e; simp only [upd_same, List.count_cons_self] at *; omega
          · have : (Frame.task w == Frame.task w') = false := by simp; exact fun h => e h.symm
            simp only [upd_other _ _ _ _ e, List.count_cons, this] at *
            simp at hf; omega
        · intro c p hc hp
          apply h.live c p _ hp
          by_cases e : c = w
          · subst e; right; exact hg2.1
          · simpa only [upd_other _ _ _ _ e] using hc
        · intro w' hw'
          have hw'' : s.nw ≤ w' := hw'
          have : w' ≠ w := by omega
          simp only [upd_other _ _ _ _ this]; exact h.fresh w' hw'
        · intro x hx
          have hx' : s.nd ≤ x := hx
          have : x ≠ d := by omega
          show upd s.frames d _ x = []
          rw [upd_other _ _ _ _ this]; exact h.nofr x hx
        · intro x f hf
          by_cases e : x = d
          · subst e; simp only [upd_same] at hf
            rcases List.mem_cons.mp hf with e | e
            · subst e; exact hg2.2
            · exact h.frlt x f e
          · simp only [upd_other _ _ _ _ e] at hf; exact h.frlt x f hf
      · exact h
    · exact h
  | finish =>
    simp only [step]
    split
    · rename_i d hon
      have hd := (h.onatt t d hon).2
      split
      · rename_i w rest hfr
        try simp only [hr, if_true]
        have hwn : w < s.nw := h.frlt d (.task w) (by rw [hfr]; exact List.mem_cons_self)
        refine ⟨?_, ?_, ?_, h.parlt, ?_, ?_, h.onatt, h.atton, h.wrong⟩
        · intro w' hw'
          have hc := h.cnt w' hw'
          have hf := fc_upd s d rest w' hd _ rfl
          rw [hfr] at hf
          show s.pend w' + sumTo (fun x => (upd s.frames d rest x).count (.task w')) s.nd + kids s w' ≤ upd s.cnt w (s.cnt w - 1) w'
          by_cases e : w' = w
          · subst e; simp only [upd_same, List.count_cons_self] at *; omega
          · have : (Frame.task w == Frame.task w') = false := by simp; exact fun h => e h.symm
            simp only [upd_other _ _ _ _ e, List.count_cons, this] at *
            simp at hf; omega
        · intro c p hc hp
          apply h.live c p _ hp
          by_cases e : c = w
          · subst e; simp only [upd_same] at hc
            rcases hc with hc | hc
            · left; omega
            · right; exact hc
          · simpa only [upd_other _ _ _ _ e] using hc
        · intro w' hw'
          have hw'' : s.nw ≤ w' := hw'
          have : w' ≠ w := by omega
          simp only [upd_other _ _ _ _ this]; exact h.fresh w' hw'
        · intro x hx
          have hx' : s.nd ≤ x := hx
          have : x ≠ d := by omega
          show upd s.frames d _ x = []
          rw [upd_other _ _ _ _ this]; exact h.nofr x hx
        · intro x f hf
          by_cases e : x = d
          · subst e; simp only [upd_same] at hf
            exact h.frlt x f (by rw [hfr]; exact List.mem_cons_of_mem _ hf)
          · simp only [upd_other _ _ _ _ e] at hf; exact h.frlt x f hf
      · exact h
    · exact h
  | newWait p =>
    simp only [step]
    -- facts about the fresh index
    have hfc0 : fc s s.nw = 0 := fc_none s h s.nw (Nat.le_refl _)
    have hnokid : ∀ c, c < s.nw → s.par c ≠ some s.nw := by
      intro c _ hp; have := (h.parlt c s.nw hp).1; omega
    cases p with
    | none =>
      simp only []
      refine ⟨?_, ?_, ?_, ?_, h.nofr, ?_, h.onatt, h.atton, h.wrong⟩
      · intro w hw
        have hw' : w < s.nw + 1 := hw
        let s' : St := { s with cnt := upd s.cnt s.nw 0, par := upd s.par s.nw none, live := upd s.live s.nw false, pend := upd s.pend s.nw 0, nw := s.nw + 1 }
        show upd s.pend s.nw 0 w + fc s w + (sumTo (kidOf s' w) s.nw + kidOf s' w s.nw) ≤ upd s.cnt s.nw 0 w
        have hk0 : kidOf s' w s.nw = 0 := by simp [kidOf, s']
        by_cases e : w = s.nw
        · subst e
          have : sumTo (kidOf s' s.nw) s.nw = 0 := by
            apply sumTo_zero; intro c hc
            have hcn : c ≠ s.nw := by omega
            simp only [kidOf, s', upd_other _ _ _ _ hcn]
            rw [if_neg]; intro hh; exact hnokid c hc hh.2
          simp only [upd_same]; omega
        · have hlt : w < s.nw := by omega
          have h1 := h.cnt w hlt
          have : sumTo (kidOf s' w) s.nw = kids s w := by
            apply sumTo_congr; intro c hc
            have hcn : c ≠ s.nw := by omega
            simp only [kidOf, s', upd_other _ _ _ _ hcn]
          simp only [upd_other _ _ _ _ e]; omega
      · intro c q hc hq
        by_cases e : c = s.nw
        · subst e; simp at hq
        · simp only [upd_other _ _ _ _ e] at hc hq ⊢; exact h.live c q hc hq
      · intro w hw
        have hw' : s.nw + 1 ≤ w := hw
        have : w ≠ s.nw := by omega
        simp only [upd_other _ _ _ _ this]; exact h.fresh w (by omega)
      · intro c q hq
        by_cases e : c = s.nw
        · subst e; simp at hq
        · simp only [upd_other _ _ _ _ e] at hq
          have := h.parlt c q hq
          exact ⟨Nat.lt_succ_of_lt this.1, Nat.lt_succ_of_lt this.2⟩
      · intro d f hf
        exact Nat.lt_succ_of_lt (h.frlt d f hf)
    | some q =>
      simp only []
      split
      · rename_i hg2
        obtain ⟨hq, hql⟩ := hg2
        have hqn : q ≠ s.nw := by omega
        refine ⟨?_, ?_, ?_, ?_, h.nofr, ?_, h.onatt, h.atton, h.wrong⟩
        · intro w hw
          have hw' : w < s.nw + 1 := hw
          let s' : St := { s with cnt := upd (upd s.cnt s.nw 0) q (s.cnt q + 1), par := upd s.par s.nw (some q), live := upd s.live s.nw true,
                                  pend := upd s.pend s.nw 0, nw := s.nw + 1 }
          show upd s.pend s.nw 0 w + fc s w + (sumTo (kidOf s' w) s.nw + kidOf s' w s.nw) ≤ upd (upd s.cnt s.nw 0) q (s.cnt q + 1) w
          by_cases e : w = s.nw
          · subst e
            have hk0 : kidOf s' s.nw s.nw = 0 := by
              simp only [kidOf, s', upd_same]; rw [if_neg]; intro hh; simp at hh; omega
            have : sumTo (kidOf s' s.nw) s.nw = 0 := by
              apply sumTo_zero; intro c hc
              have hcn : c ≠ s.nw := by omega
              simp only [kidOf, s', upd_other _ _ _ _ hcn]
              rw [if_neg]; intro hh; exact hnokid c hc hh.2
            have hne : s.nw ≠ q := fun e => hqn e.symm
            simp only [upd_same, upd_other _ _ _ _ hne]; omega
          · have hlt : w < s.nw := by omega
            have h1 := h.cnt w hlt
            have hs : sumTo (kidOf s' w) s.nw = kids s w := by
              apply sumTo_congr; intro c hc
              have hcn : c ≠ s.nw := by omega
              simp only [kidOf, s', upd_other _ _ _ _ hcn]
            by_cases e2 : w = q
            · subst e2
              have hk : kidOf s' w s.nw = 1 := by simp [kidOf, s']
              simp only [upd_same, upd_other _ _ _ _ e]; omega
            · have hk : kidOf s' w s.nw = 0 := by
                simp only [kidOf, s', upd_same]; rw [if_neg]; intro hh; simp at hh; exact e2 hh.symm
              simp only [upd_other _ _ _ _ e, upd_other _ _ _ _ e2]; omega
        · intro c r hc hr'
          by_cases e : c = s.nw
          · subst e; simp
          · simp only [upd_other _ _ _ _ e] at hc hr' ⊢
            by_cases e2 : c = q
            · subst e2
              rcases hql with h1 | h1
              · rw [h1] at hr'; simp at hr'
              · exact h1
            · simp only [upd_other _ _ _ _ e2, upd_other _ _ _ _ e] at hc; exact h.live c r hc hr'
        · intro w hw
          have hw' : s.nw + 1 ≤ w := hw
          have h1 : w ≠ s.nw := by omega
          have h2 : w ≠ q := by omega
          simp only [upd_other _ _ _ _ h1, upd_other _ _ _ _ h2]; exact h.fresh w (by omega)
        · intro c r hr'
          by_cases e : c = s.nw
          · subst e; simp at hr'; subst hr'; exact ⟨Nat.lt_succ_of_lt hq, Nat.lt_succ_self _⟩
          · simp only [upd_other _ _ _ _ e] at hr'
            have := h.parlt c r hr'
            exact ⟨Nat.lt_succ_of_lt this.1, Nat.lt_succ_of_lt this.2⟩
        · intro d f hf
          exact Nat.lt_succ_of_lt (h.frlt d f hf)
      · exact h

/-- the invariant holds after every sequence of steps -/
theorem run_inv (cfg : Cfg) (hr : cfg.releaseAfterBody = true) (hg : cfg.recallGuard = true) :
    ∀ (ops : List (Tid × Op)) (s : St), WInv s → WInv (run cfg s ops)
  | [], s, h => h
  | (t, op) :: rest, s, h => run_inv cfg hr hg rest _ (step_inv cfg hr hg s t op h)

/-- a step of thread `t` changes the frames of no stack but the one `t` is attached to -/
theorem step_frames (cfg : Cfg) (s : St) (t : Tid) (op : Op) (d : Nat) (h : WInv s) (hd : s.att d ≠ some t) :
    (step cfg s t op).frames d = s.frames d := by
  have hne : ∀ d', s.on t = some d' → d ≠ d' := by
    intro d' ho e; subst e; exact hd (h.onatt t d ho).1
  cases op <;> simp only [step]
  case newWait p => cases p <;> simp only [] <;> (try split) <;> rfl
  case spawn w => split <;> rfl
  case fold w => split <;> (try split) <;> rfl
  case detach => split <;> rfl
  case attach d' => split <;> rfl
  case begin w =>
    split
    · rename_i d' ho; split
      · split <;> simp [upd_other _ _ _ _ (hne d' ho)]
      · rfl
    · rfl
  case finish =>
    split
    · rename_i d' ho; split
      · split <;> simp [upd_other _ _ _ _ (hne d' ho)]
      · rfl
    · rfl
  case enterWait w =>
    split
    · rename_i d' ho; split
      · simp [upd_other _ _ _ _ (hne d' ho)]
      · rfl
    · rfl
  case exitWait =>
    split
    · rename_i d' ho; split
      · split
        · split
          · rfl
          · simp [upd_other _ _ _ _ (hne d' ho)]
        · rfl
      · rfl
    · rfl

end TbbVerif.C20.Wait
