/- C20 — facts about the co-cache ring buffer (`Model/C20Ring.lean`): how `push` / `pop` / `cleanup` change the number of
slots that hold a given dispatcher. -/
import TbbVerif.Model.C20Ring

namespace TbbVerif.C20.Ring

/-- `my_head` is a valid index (`init` needs a capacity ≥ 1) -/
def WF (r : R) : Prop := r.head < r.buf.length

theorem init_wf (cap : Nat) (h : 0 < cap) : WF (init cap) := by simp [WF, init, h]

theorem cnt_init (cap d : Nat) : cnt (init cap) d = 0 := by
  simp [cnt, init, List.count_replicate]

theorem nextIdx_lt (r : R) (h : WF r) : nextIdx r < r.buf.length := by
  unfold nextIdx WF at *; split <;> omega

theorem prevIdx_lt (r : R) (h : WF r) : prevIdx r < r.buf.length := by
  unfold prevIdx WF at *; split <;> omega

theorem push_wf (r : R) (d : Nat) (h : WF r) : WF (push r d).1 := by
  simp only [push, WF, List.length_set]; exact nextIdx_lt r h

theorem push_len (r : R) (d : Nat) : (push r d).1.buf.length = r.buf.length := by simp [push]

theorem entry_of_lt (r : R) (i : Nat) (h : i < r.buf.length) : entry r i = r.buf[i] := by
  simp [entry, h]

theorem entry_cnt (r : R) (i x : Nat) (h : entry r i = some x) : 1 ≤ cnt r x := by
  unfold entry at h
  cases hi : r.buf[i]? with
  | none => simp [hi] at h
  | some v =>
    simp [hi] at h
    subst h
    have hm : some x ∈ r.buf := List.mem_of_getElem? hi
    exact List.count_pos_iff.mpr hm

/-- `push`: the pushed dispatcher occupies one more slot, the replaced one one slot less, nothing else changes -/
theorem cnt_push (r : R) (d x : Nat) (h : WF r) :
    cnt (push r d).1 x = cnt r x - (if entry r r.head = some x then 1 else 0) + (if d = x then 1 else 0) := by
  simp only [push, cnt]
  rw [List.count_set (h := h), entry_of_lt r r.head h]
  simp

theorem pop_none (c : Bool) (r r' : R) (h : pop c r = (r', none)) : r' = r := by
  unfold pop at h
  split at h
  · simp at h; exact h.symm
  · simp at h

theorem pop_wf (c : Bool) (r : R) (h : WF r) : WF (pop c r).1 := by
  unfold pop
  split
  · exact h
  · simp only [WF]; split <;> (try simp only [List.length_set]) <;> exact prevIdx_lt r h

theorem pop_len (c : Bool) (r : R) : (pop c r).1.buf.length = r.buf.length := by
  unfold pop; split <;> simp <;> split <;> simp

/-- `pop` (as coded: the slot is cleared): the returned dispatcher was in the ring and occupies one slot less afterwards -/
theorem cnt_pop (r r' : R) (d : Nat) (h : WF r) (hp : pop true r = (r', some d)) :
    1 ≤ cnt r d ∧ ∀ x, cnt r' x = cnt r x - (if x = d then 1 else 0) := by
  unfold pop at hp
  split at hp
  · simp at hp
  · rename_i e he
    simp at hp
    obtain ⟨hr, hd⟩ := hp
    subst hd
    refine ⟨entry_cnt r _ _ he, ?_⟩
    intro x
    subst hr
    simp only [cnt]
    have hl := prevIdx_lt r h
    rw [List.count_set (h := hl)]
    have : r.buf[prevIdx r] = some e := by rw [← entry_of_lt r _ hl]; exact he
    rw [this]
    by_cases hx : x = e
    · subst hx; simp
    · have : ¬ e = x := fun h => hx h.symm
      simp [hx, this]

/-- `cleanup()`: every destroyed dispatcher was in the ring; afterwards each occupies one slot less -/
theorem cnt_cleanupAux (n : Nat) : ∀ (r : R) (acc : List Nat), WF r → (∀ x, cnt r x ≤ 1) →
    let res := cleanupAux true n r acc
    WF res.1 ∧
    (∀ x, x ∈ res.2 ↔ (x ∈ acc ∨ (1 ≤ cnt r x ∧ cnt res.1 x = 0))) ∧
    (∀ x, cnt res.1 x ≤ cnt r x) := by
  induction n with
  | zero => intro r acc h _; simp [cleanupAux, h]; intro x h1 h2; omega
  | succ n ih =>
    intro r acc h h1
    simp only [cleanupAux]
    cases hp : pop true r with
    | mk r' e =>
      cases e with
      | none =>
        simp only [h, true_and, List.mem_reverse]
        refine ⟨?_, fun x => Nat.le_refl _⟩
        intro x; constructor
        · intro hx; exact Or.inl hx
        · rintro (hx | ⟨h2, h3⟩)
          · exact hx
          · omega
      | some d =>
        simp only []
        obtain ⟨hd, hc⟩ := cnt_pop r r' d h hp
        have hwf' : WF r' := by have := pop_wf true r h; rw [hp] at this; exact this
        have h1' : ∀ x, cnt r' x ≤ 1 := by intro x; rw [hc x]; have := h1 x; omega
        obtain ⟨w, m, le⟩ := ih r' (d :: acc) hwf' h1'
        refine ⟨w, ?_, ?_⟩
        · intro x
          rw [m x]
          have hcx := hc x
          have h1x := h1 x
          have lex := le x
          constructor
          · rintro (hx | ⟨h2, h3⟩)
            · rcases List.mem_cons.mp hx with hx | hx
              · subst hx; right; refine ⟨hd, ?_⟩; simp at hcx; omega
              · exact Or.inl hx
            · right; refine ⟨?_, h3⟩; split at hcx <;> omega
          · rintro (hx | ⟨h2, h3⟩)
            · exact Or.inl (List.mem_cons_of_mem _ hx)
            · by_cases hxd : x = d
              · left; rw [hxd]; exact List.mem_cons_self
              · right; simp [hxd] at hcx; exact ⟨by omega, h3⟩
        · intro x; have := le x; have := hc x; split at this <;> omega

theorem cnt_cleanup (r : R) (h : WF r) (h1 : ∀ x, cnt r x ≤ 1) :
    WF (cleanup true r).1 ∧
    (∀ x, x ∈ (cleanup true r).2 ↔ (1 ≤ cnt r x ∧ cnt (cleanup true r).1 x = 0)) ∧
    (∀ x, cnt (cleanup true r).1 x ≤ cnt r x) := by
  have := cnt_cleanupAux (r.buf.length + 1) r [] h h1
  simpa [cleanup] using this

end TbbVerif.C20.Ring
