/- C20 — the post-resume action of every switch is executed exactly once, by the thread that switched, on the new stack,
before the thread is between operations again: a thread-local invariant of the pool model (no step of another thread
touches a thread's record). -/
import TbbVerif.Proofs.C20.PoolBase

namespace TbbVerif.C20.Pool

open TbbVerif.C20

/-- is the thread between its switch and the completion of the post-resume action -/
def inFlight : Pc → Bool
  | .frA => true | .frX => true | .act => true | _ => false

/-- the action in force at the last switch has been executed iff the thread is not in flight; while in flight it is
exactly the thread's `my_post_resume_action` / `my_post_resume_arg` -/
def LogOK (th : Thr) : Prop :=
  (inFlight th.pc = true → th.setLog = (th.act, th.arg) :: th.runLog) ∧
  (inFlight th.pc = false → th.setLog = th.runLog)

theorem doResume_thr (s : PSt) (t : Tid) (d : DId) (s1 : PSt) (lab : String) (h : doResume s t d = some (s1, lab)) :
    (∀ t', t' ≠ t → s1.thr t' = s.thr t') ∧
    (s1.thr t = s.thr t ∨ s1.thr t = { s.thr t with pushing := some d }) := by
  unfold doResume at h
  simp only [] at h
  split at h
  · simp at h
  · simp only [Option.some.injEq, Prod.mk.injEq] at h
    obtain ⟨e, _⟩ := h
    subst e
    split
    · exact ⟨fun t' ht => by simp [setThr, setSp, upd, ht], Or.inr (by simp [setThr, setSp, upd])⟩
    · exact ⟨fun t' _ => rfl, Or.inl rfl⟩

theorem logOK_pushing (th : Thr) (p : Option DId) (h : LogOK th) : LogOK { th with pushing := p } := h

/-- a step of thread `t` does not touch the record of any other thread -/
theorem stepT_thr_other (sk : Skel) (s : PSt) (t t' : Tid) (op : Option Pool.Op) (ht : t' ≠ t) :
    (stepT sk s t op).s.thr t' = s.thr t' := by
  have hu : ∀ th : Thr, upd s.thr t th t' = s.thr t' := fun th => by simp [upd, ht]
  have hdr : ∀ (s0 : PSt) (d : DId) (s1 : PSt) (lab : String), doResume s0 t d = some (s1, lab) → s0.thr = s.thr → s1.thr t' = s.thr t' := by
    intro s0 d s1 lab h e
    have := (doResume_thr s0 t d s1 lab h).1 t' ht
    rw [this, e]
  unfold stepT
  split
  · rfl
  simp only []
  split
  · unfold stepPush; split <;> simp [setThr, setSp, fail, hu]
  split
  · unfold stepSel; simp only []; (repeat' split) <;> simp [setThr, setSp, fail, hu]
  · unfold stepPop; simp only []; (repeat' split) <;> simp [setThr, setSp, fail, hu]
  · unfold stepSw; simp only []; (repeat' split) <;> simp [setThr, setSp, fail, hu]
  · unfold stepFrA; simp only []; (repeat' split) <;> simp [setThr, setSp, fail, hu]
  · unfold stepFrX; simp only []; (repeat' split) <;> simp [setThr, setSp, fail, hu]
  · unfold stepAct; simp only []
    split
    · (repeat' split) <;> simp [setThr, setSp, fail, hu]
    · (repeat' split) <;> simp [setThr, setSp, fail, hu]
    · split
      · simp [setThr, hu]
      · split
        · rename_i s1 lab hr
          simp only [setThr]; rw [upd_other _ _ _ _ ht]; exact hdr _ _ s1 lab hr rfl
        · simp [fail]
      · simp [fail]
    · simp [setThr, hu]
  · unfold stepFin; simp only []; (repeat' split) <;> simp [setThr, setSp, fail, hu]
  · split
    · rfl
    · unfold stepCb userResume doWaitDone; simp only []
      split
      · split
        · split
          · rename_i s1 lab hr; exact hdr _ _ s1 lab hr rfl
          · rfl
        · rfl
      · split
        · rfl
        · split
          · rename_i s1 lab hr; exact hdr _ _ s1 lab hr rfl
          · simp [fail]
        · rfl
      · simp [setThr, hu]
      all_goals rfl
  · split
    · rfl
    · split
      · rfl
      · have hur : ∀ d, (userResume s t d).s.thr t' = s.thr t' := by
          intro d; unfold userResume; split
          · split
            · rename_i s1 lab hr; exact hdr _ _ s1 lab hr rfl
            · rfl
          · rfl
        have hwd : ∀ d, (doWaitDone s t d).s.thr t' = s.thr t' := by
          intro d; unfold doWaitDone; split
          · rfl
          · split
            · rename_i s1 lab hr; exact hdr _ _ s1 lab hr rfl
            · simp [fail]
          · rfl
        split
        · split
          · exact hwd _
          · unfold stepIdle; simp only []
            split
            · (repeat' split) <;> simp [setThr, setSp, fail, hu]
            · exact hur _
            · unfold doTake; simp only []; (repeat' split) <;> simp [setThr, setSp, fail, hu]
            all_goals ((repeat' split) <;> simp [setThr, setSp, fail, hu])
        · unfold stepOut; simp only []
          split
          · exact hur _
          · exact hwd _
          all_goals ((repeat' split) <;> simp [setThr, setSp, fail, hu])

theorem ok_finalizeFirst (sk : Skel) (hk : sk.ok = true) : sk.finalizeFirst = true := by
  simp [Skel.ok] at hk; exact hk.1.1.1.1.1.1.1.2

theorem ok_clearsAction (sk : Skel) (hk : sk.ok = true) : sk.clearsAction = true := by
  simp [Skel.ok] at hk; exact hk.1.1.1.1.2

theorem doResume_logOK (s0 : PSt) (t : Tid) (d : DId) (s1 : PSt) (lab : String) (hr : doResume s0 t d = some (s1, lab))
    (h : LogOK (s0.thr t)) : LogOK (s1.thr t) := by
  rcases (doResume_thr s0 t d s1 lab hr).2 with e | e <;> rw [e] <;> exact h

/-- a step of thread `t` keeps its own action log consistent -/
theorem stepT_logOK (sk : Skel) (hk : sk.ok = true) (s : PSt) (t : Tid) (op : Option Pool.Op) (h : LogOK (s.thr t)) :
    LogOK ((stepT sk s t op).s.thr t) := by
  have hff := ok_finalizeFirst sk hk
  have hca := ok_clearsAction sk hk
  have hur : ∀ d, LogOK ((userResume s t d).s.thr t) := by
    intro d; unfold userResume; split
    · split
      · rename_i s1 lab hr; exact doResume_logOK _ t _ s1 lab hr h
      · exact h
    · exact h
  have hwd : ∀ d, LogOK ((doWaitDone s t d).s.thr t) := by
    intro d; unfold doWaitDone; split
    · exact h
    · split
      · rename_i s1 lab hr; exact doResume_logOK _ t _ s1 lab hr h
      · exact h
    · exact h
  unfold stepT
  split
  · exact h
  simp only []
  split
  · unfold stepPush; split
    · simp only [setThr, setSp, upd_same]; exact h
    · exact h
  split
  · rename_i hpc
    unfold stepSel; simp only []; (repeat' split) <;> simp_all [LogOK, inFlight, setThr, setSp, fail]
  · rename_i hpc
    unfold stepPop; simp only []; (repeat' split) <;> simp_all [LogOK, inFlight, setThr, setSp, fail]
  · rename_i hpc
    unfold stepSw; simp only []; (repeat' split) <;> simp_all [LogOK, inFlight, setThr, setSp, fail]
  · rename_i hpc
    unfold stepFrA; simp only []; (repeat' split) <;> simp_all [LogOK, inFlight, setThr, setSp, fail]
  · rename_i hpc
    unfold stepFrX; simp only []; (repeat' split) <;> simp_all [LogOK, inFlight, setThr, setSp, fail]
  · rename_i hpc
    unfold stepAct; simp only []
    split
    · (repeat' split) <;> simp_all [LogOK, inFlight, setThr, setSp, fail, actDone]
    · (repeat' split) <;> simp_all [LogOK, inFlight, setThr, setSp, fail, actDone]
    · split
      · simp_all [LogOK, inFlight, setThr, setSp, fail, actDone]
      · split
        · rename_i s1 lab hr
          have := doResume_logOK _ t _ s1 lab hr h
          rcases (doResume_thr _ t _ s1 lab hr).2 with e | e <;>
            simp_all [LogOK, inFlight, setThr, setSp, fail, actDone]
        · exact h
      · exact h
    · simp_all [LogOK, inFlight, setThr, setSp, fail, actDone]
  · rename_i hpc
    unfold stepFin; simp only []; (repeat' split) <;> simp_all [LogOK, inFlight, setThr, setSp, fail]
  · rename_i hpc
    split
    · exact h
    · unfold stepCb; simp only []
      split
      · exact hur _
      · exact hwd _
      · simp_all [LogOK, inFlight, setThr, setSp]
      all_goals exact h
  · rename_i hpc
    split
    · exact h
    · split
      · exact h
      · split
        · split
          · exact hwd _
          · unfold stepIdle; simp only []
            split
            · (repeat' split) <;> simp_all [LogOK, inFlight, setThr, setSp, fail]
            · exact hur _
            · unfold doTake; simp only []; (repeat' split) <;> simp_all [LogOK, inFlight, setThr, setSp, fail]
            all_goals ((repeat' split) <;> simp_all [LogOK, inFlight, setThr, setSp, fail])
        · unfold stepOut; simp only []
          split
          · exact hur _
          · exact hwd _
          all_goals ((repeat' split) <;> simp_all [LogOK, inFlight, setThr, setSp, fail])

/-- **every thread's action log is consistent in every reachable state** -/
theorem logOK_reachable (sk : Skel) (hk : sk.ok = true) (nt cap : Nat) (workers : List Bool) (progs : List (List Pool.Op))
    (sched : List Tid) (t : Tid) : LogOK (((sys sk nt cap workers progs).run sched).p.thr t) := by
  refine Sys.inv_run (sys sk nt cap workers progs) (fun g => ∀ t, LogOK (g.p.thr t)) ?_ ?_ sched t
  · intro t; simp only [sys, initPool]; split <;> simp [LogOK, inFlight]
  · intro g t0 hg t
    have hs : (step sk g t0).p = (stepT sk g.p t0 (g.ops t0).head?).s := by
      unfold step; simp only []; split <;> rfl
    show LogOK ((step sk g t0).p.thr t)
    rw [hs]
    by_cases e : t = t0
    · subst e; exact stepT_logOK sk hk g.p t _ (hg t)
    · rw [stepT_thr_other sk g.p t0 t _ e]; exact hg t

end TbbVerif.C20.Pool
