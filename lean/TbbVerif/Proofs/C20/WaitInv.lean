/- C20 — the invariant of the `Wait` model: the count of every wait object is at least the number of not yet started
tasks, task frames (on ANY stack, running or suspended) and live child nodes that hold a reference of it. -/
import TbbVerif.Model.C20Wait

namespace TbbVerif.C20.Wait

def sumTo (f : Nat → Nat) : Nat → Nat
  | 0 => 0
  | n + 1 => sumTo f n + f n

theorem sumTo_congr (f g : Nat → Nat) (n : Nat) (h : ∀ i, i < n → f i = g i) : sumTo f n = sumTo g n := by
  induction n with
  | zero => rfl
  | succ n ih => simp only [sumTo]; rw [ih (fun i hi => h i (by omega)), h n (by omega)]

/-- changing the summand at one index -/
theorem sumTo_change (f g : Nat → Nat) (n i : Nat) (hi : i < n) (h : ∀ j, j ≠ i → g j = f j) :
    sumTo g n + f i = sumTo f n + g i := by
  induction n with
  | zero => omega
  | succ n ih =>
    simp only [sumTo]
    by_cases e : i = n
    · subst e
      have := sumTo_congr g f i (fun j hj => h j (by omega))
      omega
    · have := ih (by omega)
      have := h n (fun e' => e e'.symm)
      omega

theorem sumTo_ge (f : Nat → Nat) (n i : Nat) (hi : i < n) : f i ≤ sumTo f n := by
  induction n with
  | zero => omega
  | succ n ih =>
    simp only [sumTo]
    by_cases e : i = n
    · subst e; omega
    · have := ih (by omega); omega

theorem sumTo_zero (f : Nat → Nat) (n : Nat) (h : ∀ i, i < n → f i = 0) : sumTo f n = 0 := by
  induction n with
  | zero => rfl
  | succ n ih => simp only [sumTo]; rw [ih (fun i hi => h i (by omega)), h n (by omega)]

/-- task frames that hold a reference of `w`, over all stacks -/
def fc (s : St) (w : Nat) : Nat := sumTo (fun d => (s.frames d).count (.task w)) s.nd

/-- live child nodes of `w` -/
def kidOf (s : St) (w c : Nat) : Nat := if s.live c = true ∧ s.par c = some w then 1 else 0
def kids (s : St) (w : Nat) : Nat := sumTo (kidOf s w) s.nw

def frameWait : Frame → Nat
  | .task w => w
  | .wait w => w

structure WInv (s : St) : Prop where
  cnt : ∀ w, w < s.nw → s.pend w + fc s w + kids s w ≤ s.cnt w
  live : ∀ c p, 0 < s.cnt c ∨ 0 < s.pend c → s.par c = some p → s.live c = true
  fresh : ∀ w, s.nw ≤ w → s.cnt w = 0 ∧ s.pend w = 0
  parlt : ∀ c p, s.par c = some p → p < s.nw ∧ c < s.nw
  nofr : ∀ d, s.nd ≤ d → s.frames d = []
  frlt : ∀ d f, f ∈ s.frames d → frameWait f < s.nw
  onatt : ∀ t d, s.on t = some d → s.att d = some t ∧ d < s.nd
  atton : ∀ t d, s.att d = some t → s.on t = some d
  wrong : s.wrong = false

@[simp] theorem upd_same {α : Type} (f : Nat → α) (i : Nat) (v : α) : upd f i v i = v := by simp [upd]
theorem upd_other {α : Type} (f : Nat → α) (i j : Nat) (v : α) (h : j ≠ i) : upd f i v j = f j := by simp [upd, h]

theorem init_inv (nt : Nat) : WInv (init nt) := by
  refine ⟨?_, ?_, ?_, ?_, ?_, ?_, ?_, ?_, rfl⟩
  · intro w hw; simp [init] at hw
  · intro c p h; simp [init] at h
  · intro w _; simp [init]
  · intro c p h; simp [init] at h
  · intro d _; simp [init]
  · intro d f h; simp [init] at h
  · intro t d h; simp only [init] at h ⊢; split at h <;> simp_all
  · intro t d h; simp only [init] at h ⊢; split at h <;> simp_all

/-- the count of a wait object that a task frame on any stack refers to is positive -/
theorem cnt_pos_of_frame (s : St) (h : WInv s) (d w : Nat) (hf : Frame.task w ∈ s.frames d) : 1 ≤ s.cnt w := by
  have hd : d < s.nd := by
    by_cases hd : d < s.nd
    · exact hd
    · have := h.nofr d (by omega); rw [this] at hf; simp at hf
  have hw : w < s.nw := h.frlt d _ hf
  have h1 : 1 ≤ (s.frames d).count (.task w) := List.count_pos_iff.mpr hf
  have h2 := sumTo_ge (fun d => (s.frames d).count (.task w)) s.nd d hd
  have h3 := h.cnt w hw
  simp only [fc] at h3
  omega

/-- a node with a positive count keeps its parent's count positive -/
theorem cnt_pos_parent (s : St) (h : WInv s) (c p : Nat) (hc : 1 ≤ s.cnt c) (hp : s.par c = some p) : 1 ≤ s.cnt p := by
  have hl := h.live c p (Or.inl hc) hp
  obtain ⟨hpn, hcn⟩ := h.parlt c p hp
  have h1 : kidOf s p c = 1 := by simp [kidOf, hl, hp]
  have h2 := sumTo_ge (kidOf s p) s.nw c hcn
  have h3 := h.cnt p hpn
  simp only [kids] at h3
  omega

end TbbVerif.C20.Wait
