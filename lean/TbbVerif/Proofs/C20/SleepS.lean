/-
C20 — the sleeper's steps (`stepS`) preserve the invariant of the resume-versus-sleep hand-shake.
-/
import TbbVerif.Proofs.C20.SleepInv

namespace TbbVerif.C20.Sleep

macro "close_inv" : tactic =>
  `(tactic| (constructor <;> simp only [tasPending, Ex, All, inW, afterCancel, afterClear] at * <;> grind))

theorem sem_one_of_pos {s : St} (h : Inv s) (hw : inW s.sl) (hs : 0 < s.sem) :
    s.inList = false ∧ s.sem = 1 ∧ s.vOwner = none := by
  have h1 : s.inList = false := by
    cases hin : s.inList
    · rfl
    · have := h.inl hin; omega
  have h2 := h.rem h1 hw
  refine ⟨h1, ?_⟩
  rcases h2.2 with h | h
  · exact h
  · omega

theorem stepS_parked (cfg : Cfg) (s : St) (h : Inv s) (hsl : s.sl = .parked) : Inv (stepS cfg s) := by
  unfold stepS
  simp only [hsl]
  split
  · rename_i hs
    have h3 := sem_one_of_pos h (by simp [inW, hsl]) hs
    obtain ⟨hb, hw, hm, ho, hi, hr, hva, hvo, hwr, hwc, hp⟩ := h
    constructor <;> simp only [tasPending, Ex, All, inW] at * <;> grind
  · exact h

theorem stepS_drain (cfg : Cfg) (s : St) (h : Inv s) (hsl : s.sl = .drain) : Inv (stepS cfg s) := by
  unfold stepS
  simp only [hsl]
  split
  · rename_i hs
    have h3 := sem_one_of_pos h (by simp [inW, hsl]) hs
    obtain ⟨hb, hw, hm, ho, hi, hr, hva, hvo, hwr, hwc, hp⟩ := h
    unfold afterCancel
    split <;> (constructor <;> simp only [tasPending, Ex, All, inW] at * <;> grind)
  · exact h

theorem stepS_idle (cfg : Cfg) (s : St) (h : Inv s) (hsl : s.sl = .idle) : Inv (stepS cfg s) := by
  obtain ⟨hb, hw, hm, ho, hi, hr, hva, hvo, hwr, hwc, hp⟩ := h
  unfold stepS
  simp only [hsl]
  cases hops : s.ops with
  | nil => simp only []; exact ⟨hb, hw, hm, ho, hi, hr, hva, hvo, hwr, hwc, hp⟩
  | cons op r =>
    cases op <;> simp only []
    · split <;> close_inv
    · split <;> close_inv
    · close_inv
    · close_inv

theorem stepS_inv (cfg : Cfg) (g : Good cfg) (s : St) (h : Inv s) : Inv (stepS cfg s) := by
  cases hsl : s.sl
  case idle => exact stepS_idle cfg s h hsl
  case parked => exact stepS_parked cfg s h hsl
  case drain => exact stepS_drain cfg s h hsl
  all_goals
    obtain ⟨hb, hw, hm, ho, hi, hr, hva, hvo, hwr, hwc, hp⟩ := h
    have gp := g.pred
    have gs := g.scan
    unfold stepS
    simp only [hsl]
    first
      | close_inv
      | (split <;> close_inv)

end TbbVerif.C20.Sleep
