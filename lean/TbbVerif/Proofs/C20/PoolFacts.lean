/- C20 — consequences of the pool's base invariant in the form the property theorems use. -/
import TbbVerif.Proofs.C20.PoolLogs
import TbbVerif.Proofs.C20.PoolCrit

namespace TbbVerif.C20

open SS

/-- what `resume_exactly_once` and `stack_state_chains` say about one suspend point, as a predicate on its core -/
def ExactlyOnce (c : Core) : Prop :=
  c.bad = false ∧
  (∀ r ∈ c.done, r.kind = .user →
      r.calls = 1 ∧ r.pushR + r.pushL = 1 ∧ r.via = .queue ∧
      (r.pushR = 1 ↔ r.chain = [active, suspended, notified, active]) ∧
      (r.pushL = 1 ↔ r.chain = [active, notified, suspended, notified, active])) ∧
  (∀ r ∈ c.done, r.kind = .recall → r.byOwner = true ∧ r.via = .recall ∧ r.calls = 0 ∧ r.pushR + r.pushL = 0 ∧
      r.chain = [active, suspended, notified, active]) ∧
  (∀ r ∈ c.done, r.kind = .park → r.via = .reuse ∧ r.calls = 0 ∧ r.pushR + r.pushL = 0 ∧
      (r.chain = [active, suspended, active] ∨ r.chain = [active, active])) ∧
  (c.done.length ≤ c.rounds ∧ c.rounds ≤ c.done.length + 1) ∧
  (c.rounds = c.done.length + 1 →
      c.queue + (if c.tk.isSome then 1 else 0) ≤ 1 ∧
      (c.kind = .user → c.queue + (if c.tk.isSome then 1 else 0) = c.rPushR + c.rPushL) ∧
      c.rPushR + c.rPushL ≤ c.rCalls ∧ c.rCalls ≤ 1) ∧
  (c.rounds = c.done.length + 1 → c.kind = .user → c.called = true → c.stk = none → c.lv = none → c.rs = none →
      c.queue = 1 ∨ c.tk.isSome = true) ∧
  (c.rounds = c.done.length + 1 → c.kind = .user → c.called = false → c.queue = 0 ∧ c.tk = none ∧ c.recalled = false) ∧
  c.chain.getLast? = some c.ss

theorem exactlyOnce_of_inv (c : Core) (hinv : Inv c) : ExactlyOnce c := by
  obtain ⟨⟨hb, _, _, hd⟩, p, hp⟩ := hinv
  refine ⟨hb, ?_, ?_, ?_, ?_, ?_, ?_, ?_, ?_⟩
  · intro r hr hk
    have := hd r hr
    simp only [legalRec, hk] at this
    obtain ⟨h1, h2, h3 | h3⟩ := this
    · obtain ⟨h4, h5, h6⟩ := h3; simp [h1, h2, h4, h5, h6]
    · obtain ⟨h4, h5, h6⟩ := h3; simp [h1, h2, h4, h5, h6]
  · intro r hr hk
    have := hd r hr
    simp only [legalRec, hk] at this
    obtain ⟨h1, h2, h3, h4, h5, h6⟩ := this
    simp [h1, h2, h3, h4, h5, h6]
  · intro r hr hk
    have := hd r hr
    simp only [legalRec, hk] at this
    obtain ⟨h1, h2, h3, h4, h5⟩ := this
    simp [h1, h2, h3, h4, h5]
  · cases p <;> simp only [spec, base, P_run] at hp <;> omega
  · intro ho
    cases p <;> simp only [spec, base, P_run] at hp <;> simp_all <;> (split <;> omega)
  · intro ho hk hcall hs hl hr
    cases p <;> simp only [spec, base, P_run] at hp <;> simp_all
  · intro ho hk hcall
    cases p <;> simp only [spec, base, P_run] at hp <;> simp_all
  · cases p <;> simp only [spec, base, P_run] at hp <;> simp_all

/-- a dispatcher is in at most one place -/
theorem inv_places (c : Core) (h : Inv c) :
    bnat c.stk.isSome + bnat c.tk.isSome + bnat c.cached + bnat c.fresh ≤ 1 ∧
    (c.lv.isSome = true → c.stk = none ∧ c.tk = none ∧ c.cached = false ∧ c.fresh = false) := by
  obtain ⟨_, p, hp⟩ := h
  cases p <;> simp only [spec, base, P_run] at hp <;> simp_all [bnat] <;> (try split) <;> omega

namespace Pool

/-- an idle dispatcher: nobody runs it, leaves it, holds it or publishes its resume task, no resume task is queued, its
owner is not recalled, no suspend point of it is handed out, `m_stack_state` is `suspended` -/
def Idle (c : Core) : Prop :=
  c.stk = none ∧ c.lv = none ∧ c.tk = none ∧ c.rs = none ∧ c.queue = 0 ∧ c.recalled = false ∧ c.callable = false ∧
  c.ss = suspended ∧ c.fresh = false

theorem base_cached_idle (s : PSt) (h : Base s) (d : DId) (hd : d < s.nd) (hc : (s.sp d).cached = true) : Idle (s.sp d) :=
  inv_cached _ (h.inv d hd) hc

/-- while a thread is between its switch and the end of the post-resume action (or inside `r1::resume`) its step never
consumes an operation of its program: it cannot take a task, call the user's code, or leave -/
theorem stepT_inFlight (sk : Skel) (s : PSt) (t : Tid) (op : Option Pool.Op) (h : inFlight (s.thr t).pc = true) :
    (stepT sk s t op).o = .stay := by
  unfold stepT
  split
  · rfl
  simp only []
  split
  · unfold stepPush; split <;> rfl
  split
  all_goals (rename_i hpc; simp [hpc, inFlight] at h)
  · unfold stepFrA; simp only []; split <;> rfl
  · unfold stepFrX; simp only []; split <;> rfl
  · unfold stepAct; simp only []; (repeat' split) <;> rfl

end Pool
end TbbVerif.C20
