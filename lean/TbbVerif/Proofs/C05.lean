import TbbVerif.Model.C05
namespace TbbVerif.C05
end TbbVerif.C05
