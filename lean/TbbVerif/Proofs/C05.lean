/-
C05 — helper lemmas (umbrella): see Proofs/C05/*.lean
  Float.lean     rounding model `fl`: error bound, exactness on small integers
  PropSplit.lean the float proportional split stays strictly inside
  Tree.lean      legal split trees, range laws, leaves tile
  Range1.lean    blocked_range satisfies the range laws
  RangeN.lean    blocked_range2d/3d/nd satisfy the range laws (dimension selection)
  Part.lean      partition-object invariant
  Task.lean      one task / the task tree, for every environment
  Simple.lean    chunk-size bounds of simple_partitioner
  RV.lean        the range_vector ring refines a list
  Stride.lean    index form: the regenerated count expressions / guards per Index type are exact
  StrideIdx.lean index form: the regenerated body-wrapper index arithmetic is exact
  StaticBound.lean        static_partitioner: one chunk per task, at most `initial divisor` tasks
  Term.lean, Term2.lean   termination with explicit fuel for all four partitioners on blocked_range
  EachBase/Acc/Shape/Live/Wait/Once/Top/End/Blocks/Life/Ord/OrdA/OrdM/OrdL.lean   parallel_for_each / parallel_invoke task system: reference
                 accounting, the wait covers everything, exactly once, every call ended, blocks and iterator
-/
import TbbVerif.Proofs.C05.Task
import TbbVerif.Proofs.C05.Range1
import TbbVerif.Proofs.C05.RangeN
import TbbVerif.Proofs.C05.Simple
import TbbVerif.Proofs.C05.RV
import TbbVerif.Proofs.C05.StrideIdx
import TbbVerif.Proofs.C05.Term2
import TbbVerif.Proofs.C05.StaticBound
import TbbVerif.Proofs.C05.EachOrdL
import TbbVerif.Proofs.C05.EachPfor

namespace TbbVerif.C05

theorem strided_mem (first last step : Nat) (hs : 1 ≤ step) (v : Nat) :
    (∃ i, i < stridedEnd first last step ∧ stridedIndex first step i = v) ↔
      (first ≤ v ∧ v < last ∧ (v - first) % step = 0) := by
  unfold stridedEnd stridedIndex
  constructor
  · rintro ⟨i, hi, rfl⟩
    split at hi
    · rename_i hfl
      have h1 : i ≤ (last - first - 1) / step := by omega
      have h2 : i * step ≤ last - first - 1 := (Nat.le_div_iff_mul_le (by omega)).1 h1
      refine ⟨by omega, by omega, ?_⟩
      have : first + i * step - first = i * step := by omega
      rw [this]; exact Nat.mul_mod_left _ _
    · omega
  · rintro ⟨h1, h2, h3⟩
    have hfl : first < last := by omega
    rw [if_pos hfl]
    refine ⟨(v - first) / step, ?_, ?_⟩
    · have hdm := Nat.div_add_mod (v - first) step
      rw [h3] at hdm
      have h4 : (v - first) / step * step ≤ last - first - 1 := by
        rw [Nat.mul_comm]; omega
      have := (Nat.le_div_iff_mul_le (by omega : 0 < step)).2 h4
      omega
    · have hdm := Nat.div_add_mod (v - first) step
      rw [h3] at hdm
      rw [Nat.mul_comm]; omega

theorem strided_inj (first step i j : Nat) (hs : 1 ≤ step) (h : stridedIndex first step i = stridedIndex first step j) : i = j := by
  unfold stridedIndex at h
  have : i * step = j * step := by omega
  exact Nat.eq_of_mul_eq_mul_right (by omega) this

end TbbVerif.C05
