/- C08 — safety, queue order and truthful upgrade of the specification machine `QRwSpec` (queuing_rw_mutex). -/
import TbbVerif.Model.C08Q

namespace TbbVerif.C08.QRw

def Good (s : St) : Prop := (∀ h ∈ s.holders, h.2 = .R) ∨ (∃ t, s.holders = [(t, .W)])

theorem good_enter (s : St) (t : Tid) (m : Mode) (_hg : Good s) (hc : compat s.holders m = true) : Good (enter s t m) := by
  unfold enter
  cases m with
  | W =>
    simp [compat] at hc
    right; exact ⟨t, by simp [hc]⟩
  | R =>
    simp [compat] at hc
    left; intro h hh
    simp at hh
    rcases hh with hh | hh
    · exact hc h.1 h.2 hh
    · rw [hh]

theorem good_filter (s : St) (p : Tid × Mode → Bool) (hg : Good s) (u : List (Tid × Bool)) :
    Good { s with holders := s.holders.filter p, upg := u } := by
  rcases hg with hg | ⟨t, hg⟩
  · left; intro h hh; simp at hh; exact hg h hh.1
  · by_cases hp : p (t, .W) = true
    · right; exact ⟨t, by simp [hg, hp]⟩
    · left; intro h hh; simp [hg, hp] at hh

theorem good_step (s s' : St) (e : Ev) (hg : Good s) (h : step s e = some s') : Good s' := by
  cases e with
  | enq t m =>
    simp only [step] at h; split at h
    · cases h
    · cases h; exact hg
  | grant t m =>
    simp only [step] at h; split at h
    · rename_i hc; cases h
      simp at hc
      exact good_enter _ t m (by exact hg) hc.2
    · cases h
  | tryOk t m =>
    simp only [step] at h; split at h
    · rename_i hc; cases h
      simp at hc
      exact good_enter _ t m hg hc.2
    · cases h
  | tryFail t =>
    simp only [step] at h; split at h
    · cases h
    · cases h; exact hg
  | rel t =>
    simp only [step] at h; split at h
    · cases h; exact good_filter s _ hg s.upg
    · cases h
  | upgBegin t =>
    simp only [step] at h; split at h
    · cases h; exact good_filter s _ hg _
    · cases h
  | upgEnd t res =>
    simp only [step] at h; split at h
    · cases h; right; exact ⟨t, rfl⟩
    · cases h
  | downgrade t =>
    simp only [step] at h; split at h
    · cases h; left; intro x hx; simp at hx; rw [hx]
    · cases h

theorem good_run : ∀ (evs : List Ev) (s s' : St), Good s → run s evs = some s' → Good s'
  | [], s, s', hg, h => by simp [run] at h; subst h; exact hg
  | e :: es, s, s', hg, h => by
    simp only [run] at h
    cases hs : step s e with
    | none => rw [hs] at h; cases h
    | some s1 => rw [hs] at h; exact good_run es s1 s' (good_step s s1 e hg hs) h

theorem good_counts (s : St) (hg : Good s) : nW s ≤ 1 ∧ (0 < nW s → nR s = 0) := by
  rcases hg with hg | ⟨t, hg⟩
  · have : nW s = 0 := by
      unfold nW; rw [List.countP_eq_zero]; intro h hh; simp [hg h hh]
    omega
  · simp [nW, nR, hg]

/-! ### queue order -/

theorem before_prefix (t : Tid) : ∀ q : List (Tid × Mode), ∃ post, q = before t q ++ post ∧ (∀ e ∈ before t q, e.1 ≠ t) ∧
    (q.any (·.1 == t) = true → ∃ m r, post = (t, m) :: r)
  | [] => ⟨[], by simp [before]⟩
  | e :: r => by
    obtain ⟨post, h1, h2, h3⟩ := before_prefix t r
    by_cases he : e.1 = t
    · refine ⟨e :: r, by simp [before, he], by simp [before, he], fun _ => ⟨e.2, r, ?_⟩⟩
      rw [← he]
    · refine ⟨post, ?_, ?_, ?_⟩
      · simp [before, he]; exact h1
      · intro x hx; simp [before, he] at hx
        rcases hx with hx | hx
        · rw [hx]; exact he
        · exact h2 x hx
      · intro ha; simp [he] at ha
        exact h3 (by simpa using ha)

/-! ### truthful upgrade -/

def writerEntry : Ev → Bool
  | .grant _ .W => true
  | .tryOk _ .W => true
  | .upgEnd _ _ => true
  | _ => false

theorem dirtyAll_all (u : List (Tid × Bool)) : ∀ x ∈ dirtyAll u, x.2 = true := by
  intro x hx; simp [dirtyAll] at hx; obtain ⟨a, b, _, rfl⟩ := hx; rfl

theorem writer_dirties (s s' : St) (e : Ev) (h : step s e = some s') (hw : writerEntry e = true) :
    ∀ x ∈ s'.upg, x.2 = true := by
  cases e with
  | grant t m =>
    cases m with
    | R => simp [writerEntry] at hw
    | W => simp only [step] at h; split at h
           · cases h; simp [enter]; intro a b; have := dirtyAll_all _ _ b; simp at this
           · cases h
  | tryOk t m =>
    cases m with
    | R => simp [writerEntry] at hw
    | W => simp only [step] at h; split at h
           · cases h; simp [enter]; intro a b; have := dirtyAll_all _ _ b; simp at this
           · cases h
  | upgEnd t res =>
    simp only [step] at h; split at h
    · cases h; exact dirtyAll_all _
    · cases h
  | _ => simp [writerEntry] at hw

theorem clean_step (s s' : St) (e : Ev) (u : Tid) (h : step s e = some s') (hc : (u, false) ∈ s'.upg) (hne : e ≠ .upgBegin u) :
    (u, false) ∈ s.upg ∧ writerEntry e = false := by
  have hw : writerEntry e = false := by
    cases hwe : writerEntry e with
    | false => rfl
    | true => have := writer_dirties s s' e h hwe _ hc; simp at this
  refine ⟨?_, hw⟩
  cases e with
  | enq t m => simp only [step] at h; split at h <;> cases h; exact hc
  | grant t m =>
    cases m with
    | W => simp [writerEntry] at hw
    | R => simp only [step] at h; split at h <;> cases h; simpa [enter] using hc
  | tryOk t m =>
    cases m with
    | W => simp [writerEntry] at hw
    | R => simp only [step] at h; split at h <;> cases h; simpa [enter] using hc
  | tryFail t => simp only [step] at h; split at h <;> cases h; exact hc
  | rel t => simp only [step] at h; split at h <;> cases h; exact hc
  | upgBegin t =>
    simp only [step] at h; split at h <;> cases h
    simp at hc
    rcases hc with hc | hc
    · exact hc
    · exact absurd (by rw [hc]) hne
  | upgEnd t res => simp [writerEntry] at hw
  | downgrade t => simp only [step] at h; split at h <;> cases h; exact hc

theorem clean_run : ∀ (evs : List Ev) (s s' : St) (u : Tid), run s evs = some s' → (u, false) ∈ s'.upg →
    (∀ e ∈ evs, e ≠ .upgBegin u) → (u, false) ∈ s.upg ∧ ∀ e ∈ evs, writerEntry e = false
  | [], s, s', u, h, hc, _ => by simp [run] at h; subst h; exact ⟨hc, by simp⟩
  | e :: es, s, s', u, h, hc, hn => by
    simp only [run] at h
    cases hs : step s e with
    | none => rw [hs] at h; cases h
    | some s1 =>
      rw [hs] at h
      have ih := clean_run es s1 s' u h hc (fun x hx => hn x (by simp [hx]))
      have := clean_step s s1 e u hs ih.1 (hn e (by simp))
      refine ⟨this.1, ?_⟩
      intro x hx; simp at hx
      rcases hx with hx | hx
      · rw [hx]; exact this.2
      · exact ih.2 x hx

theorem run_append : ∀ (a b : List Ev) (s : St), run s (a ++ b) = (run s a).bind (fun s1 => run s1 b)
  | [], b, s => by simp [run]
  | e :: a, b, s => by
    simp only [List.cons_append, run]
    cases step s e with
    | none => simp
    | some s1 => exact run_append a b s1

end TbbVerif.C08.QRw
