import TbbVerif.Proofs.C08SRwC

namespace TbbVerif.C08.Slp.Rw
open TbbVerif.C08 (Word Phase busy dec_enc enc_inj)

/-- how a step of a thread touches the monitor and the thread's own monitor record -/
theorem stepTh_mon (tid sm : Nat) (s : Word) (m : Mon) (t : Th) :
    (t.pc = .wait ∧ (stepTh tid sm s m t).2.2.1 = (waitStep tid s.enc (t.wk.cond s) t.wk.ctx sm false m t.mw).1 ∧
        (stepTh tid sm s m t).2.2.2.1.mw = (waitStep tid s.enc (t.wk.cond s) t.wk.ctx sm false m t.mw).2.1) ∨
    (t.pc = .notify ∧ (stepTh tid sm s m t).2.2.1 = (notifyStep m t.mw).1 ∧
        ((stepTh tid sm s m t).2.2.2.1.mw = (notifyStep m t.mw).2.1 ∨ (stepTh tid sm s m t).2.2.2.1.mw = { (notifyStep m t.mw).2.1 with w := .spin 0 })) ∨
    ((stepTh tid sm s m t).2.2.1 = m ∧
        ((stepTh tid sm s m t).2.2.2.1.mw = t.mw ∨ (stepTh tid sm s m t).2.2.2.1.mw = { t.mw with w := .spin 0 } ∨
         (t.pc ≠ .notify ∧ ∃ sel, (stepTh tid sm s m t).2.2.2.1.mw = { t.mw with n := .peek, nsel := sel }))) := by
  unfold stepTh
  cases hops : t.ops with
  | nil => right; right; simp
  | cons op rest =>
    dsimp only
    split
    · right; right; simp
    · by_cases hw : t.pc = .wait
      · left; simp [stepOp, hw]
      · by_cases hn : t.pc = .notify
        · right; left
          refine ⟨hn, ?_⟩
          simp only [stepOp, hn]
          split
          · simp
          · split
            · simp [Th.done]
            · split <;> simp [Th.done, startWait]
            · simp
        · right; right
          cases op <;> simp only [stepOp, lockBody] <;> split <;> (try contradiction) <;> (try split) <;> (try split) <;> (try split) <;>
            simp [Th.done, startWait, startNotify, hn]


def mwOfL (ths : List Th) : Tid → WT := fun i => (ths[i]?.map (·.mw)).getD {}

theorem mwOfL_set (ths : List Th) (tid : Nat) (t t' : Th) (h : ths[tid]? = some t) :
    mwOfL (ths.set tid t') = fupd (mwOfL ths) tid t'.mw := by
  funext i
  have hlt : tid < ths.length := (List.getElem?_eq_some_iff.mp h).1
  by_cases e : i = tid
  · subst e; simp [mwOfL, fupd, hlt]
  · simp [mwOfL, fupd, e, Ne.symm e]

structure Inv (st : St) : Prop where
  c : InvC st.word st.bad st.ths
  wf : ∀ (tid : Nat) (t : Th), st.ths[tid]? = some t → Wf t
  wake : WakeInFlight st.mon (mwOfL st.ths)

theorem inv_step (st : St) (tid : Tid) (h : Inv st) : Inv (step st tid) := by
  unfold step stepEv
  cases hget : st.ths[tid]? with
  | none => exact h
  | some t =>
    dsimp only
    have hwf := h.wf tid t hget
    have hg := stepTh_good tid st.spinMax st.word st.mon t hwf
    have hm := stepTh_mon tid st.spinMax st.word st.mon t
    generalize stepTh tid st.spinMax st.word st.mon t = o at hg hm
    obtain ⟨s', b, m', t', ev⟩ := o
    dsimp only at hg hm ⊢
    have hft : mwOfL st.ths tid = t.mw := by simp [mwOfL, hget]
    refine ⟨invC_trans st.word st.bad st.ths tid t t' hget h.c s' b _ _ _ _ rfl rfl rfl rfl hg.1, ?_, ?_⟩
    · intro tid' x hx'
      rw [List.getElem?_set] at hx'
      split at hx'
      · split at hx'
        · simp at hx'; subst hx'; exact hg.2
        · simp at hx'
      · exact h.wf tid' x hx'
    · rw [mwOfL_set st.ths tid t t' hget]
      rcases hm with ⟨_, e1, e2⟩ | ⟨_, e1, e2⟩ | ⟨e1, e2⟩
      · rw [e1, e2, ← hft]
        exact wake_wait tid _ _ _ _ _ st.mon (mwOfL st.ths) h.wake
      · have base := wake_notify tid st.mon (mwOfL st.ths) h.wake
        rw [hft] at base
        rw [e1]
        rcases e2 with e2 | e2
        · rw [e2]; exact base
        · rw [e2]
          have := wake_other tid { (notifyStep st.mon t.mw).2.1 with w := .spin 0 } _ _ base
            (by intro hs; unfold staged at hs; simp at hs) (by intro hv; simp at hv ⊢; exact hv)
          have e : fupd (fupd (mwOfL st.ths) tid (notifyStep st.mon t.mw).2.1) tid { (notifyStep st.mon t.mw).2.1 with w := .spin 0 }
              = fupd (mwOfL st.ths) tid { (notifyStep st.mon t.mw).2.1 with w := .spin 0 } := by
            funext i; by_cases hi : i = tid <;> simp [fupd, hi]
          rw [e] at this; exact this
      · rw [e1]
        rcases e2 with e2 | e2 | ⟨hpn, sel, e2⟩
        · rw [e2]
          refine wake_other tid t.mw _ _ h.wake (by rw [hft]; exact id) (by rw [hft]; intro _; exact ⟨by assumption, rfl⟩)
        · rw [e2]
          exact wake_other tid _ _ _ h.wake (by intro hs; unfold staged at hs; simp at hs) (by rw [hft]; intro hv; exact ⟨hv, rfl⟩)
        · rw [e2]
          refine wake_other tid _ _ _ h.wake (by rw [hft]; intro hs; unfold staged at hs ⊢; simpa using hs) ?_
          rw [hft]; intro hv; have := hwf.mn hpn; rw [this] at hv; cases hv

theorem inv_init (progs : List (List Op)) (orcs : List (List Bool)) (sm : Nat) : Inv (sys progs orcs sm).init := by
  have hph : ∀ (ph : Phase), ph ≠ .idle → cntS ph (sys progs orcs sm).init.ths = 0 := by
    intro ph hne
    unfold cntS; rw [List.countP_eq_zero]
    intro t ht; simp [sys] at ht
    obtain ⟨a, b, _, rfl⟩ := ht
    simp; exact fun h => hne h.symm
  refine ⟨⟨?_, ?_, ?_, ?_, ?_, rfl⟩, ?_, ?_⟩
  · rw [hph _ (by simp), hph _ (by simp), hph _ (by simp), hph _ (by simp)]; rfl
  · rw [hph _ (by simp), hph _ (by simp), hph _ (by simp)]; rfl
  · intro _; exact hph _ (by simp)
  · intro hh; rw [hph _ (by simp), hph _ (by simp)] at hh; cases hh
  · intro hh; cases hh
  · intro tid t ht
    simp [sys, List.getElem?_map] at ht
    obtain ⟨a, _, rfl⟩ := ht
    refine ⟨by simp, by simp, by simp, ?_, by simp, by simp⟩
    cases a with
    | nil => simp
    | cons o r => exact wfOp_start o _ rfl
  · intro w ⟨hs, _⟩
    exfalso
    unfold staged mwOfL at hs
    cases hq : (sys progs orcs sm).init.ths[w]? with
    | none => simp [hq] at hs
    | some x =>
      simp [sys, List.getElem?_map] at hq
      obtain ⟨a, _, rfl⟩ := hq
      simp [sys, List.getElem?_map] at hs
      rcases hs with hs | hs | hs | hs | hs <;> (try (cases hs; done)) <;> simp_all

theorem inv_reachable (progs : List (List Op)) (orcs : List (List Bool)) (sm : Nat) (sched : List Tid) :
    Inv ((sys progs orcs sm).run sched) :=
  Sys.inv_run (sys progs orcs sm) Inv (inv_init progs orcs sm) (fun s t h => inv_step s t h) sched

end TbbVerif.C08.Slp.Rw
