/-
C12 — split-ordered hash table: the allocator ledger (`freed`) never meets the list.

Nodes are destroyed in three places: an insertion whose (re-)search finds an equivalent key (`remaining_node`, the
`emplace` node), `insert_dummy_node` that finds the bucket's dummy node linked by another thread, and — only if the code
has such a handler (`cfg.freeUnlinked`) — an insertion left by an exception of `key_equal`.  In all three the node is
still private.  `FreeInvSO`: nothing is destroyed twice, a destroyed node is not in the list, and a thread that is inside
an insertion still owns a live node.  Inductive for EVERY `cfg`: no user functor is called after the link.
-/
import TbbVerif.Proofs.C12.SplitOrderInv

namespace TbbVerif.C12
namespace SplitOrder

variable {cfg : Cfg} {s : St} {t : Tid} {th : Th}

/-- the thread owns a node that it is trying to link -/
def Pc.inIns : Pc → Bool
  | .search | .setNext | .cas | .dSearch | .dSetNext | .dCas => true
  | _ => false

/-! ### what the exception-free step does to the fields the ledger argument needs (by inspection of every pc) -/

theorem core_free : (thStepCore cfg s t th).free = none := by
  unfold thStepCore
  cases th.pc <;> simp only [] <;> (repeat' split) <;> rfl

theorem core_link {p n : Node} (h : (thStepCore cfg s t th).act = .link p n) : n = th.new ∧ th.pc.inIns = true := by
  revert h
  unfold thStepCore
  cases hp : th.pc <;> simp only [] <;> (repeat' split) <;> simp_all [Pc.inIns]

theorem core_new (h : (thStepCore cfg s t th).th.pc.inIns = true) :
    ((thStepCore cfg s t th).th.new = s.L.fresh ∧ th.pc.inIns = false) ∨
    (th.pc.inIns = true ∧ (thStepCore cfg s t th).th.new = th.new) := by
  revert h
  unfold thStepCore
  cases hp : th.pc <;> simp only [Th.finish, enterInit, leaveInit] <;> (repeat' split) <;> simp_all [Pc.inIns]

theorem core_dup_res {k : Key} {n : Node} (h : (thStepCore cfg s t th).res = some (.ins k false n)) :
    th.pc = .search ∧ (thStepCore cfg s t th).act = .nop ∧ (thStepCore cfg s t th).th.pc = .idle := by
  revert h
  unfold thStepCore
  cases hp : th.pc <;> simp only [Th.finish, enterInit, leaveInit] <;> (repeat' split) <;> simp_all

theorem core_dup_dummy (hp : th.pc = .dSearch) (h : (thStepCore cfg s t th).th.pc = .ibStore) :
    (thStepCore cfg s t th).act = .nop := by
  revert h
  unfold thStepCore
  simp only [hp]
  (repeat' split) <;> simp_all

theorem core_dup (h : dupStep th (thStepCore cfg s t th) = true) :
    th.pc.inIns = true ∧ (thStepCore cfg s t th).act = .nop ∧ (thStepCore cfg s t th).th.pc.inIns = false := by
  unfold dupStep at h
  rcases Bool.or_eq_true _ _ |>.mp h with h1 | h1
  · cases hr : (thStepCore cfg s t th).res with
    | none => rw [hr] at h1; simp at h1
    | some r =>
      rw [hr] at h1
      cases r with
      | ins k ok n =>
        cases ok with
        | true => simp at h1
        | false =>
          obtain ⟨h2, h3, h4⟩ := core_dup_res hr
          exact ⟨by simp [h2, Pc.inIns], h3, by simp [h4, Pc.inIns]⟩
      | _ => simp at h1
  · simp only [Bool.and_eq_true, decide_eq_true_eq] at h1
    exact ⟨by simp [h1.1, Pc.inIns], core_dup_dummy h1.1 h1.2, by simp [h1.2, Pc.inIns]⟩

theorem after_pc (th' : Th) (c : Nat) : (th'.after c).pc = th'.pc := by
  unfold Th.after; split <;> rfl

theorem after_new (th' : Th) (c : Nat) : (th'.after c).new = th'.new := by
  unfold Th.after; split <;> rfl

theorem insinv_of_inIns {L : LSt} {slot : Nat → Option Node} (h : TInvSO cfg L slot t th) (hp : th.pc.inIns = true) :
    InsInv (R cfg) L t th.k th.prev th.new := by
  unfold TInvSO at h
  cases hpc : th.pc <;> simp only [hpc] at h <;> simp [Pc.inIns, hpc] at hp
  · exact h.2.2.2.2
  · exact h.2.2.2.2.1
  · exact h.2.2.2.2.1
  · exact h
  · exact h.1
  · exact h.1

/-! ### one step of `thStep`, as the ledger sees it -/

structure StepFreeSO (s : St) (th : Th) (o : Out) : Prop where
  free : o.free = none ∨
    (o.free = some th.new ∧ th.pc.inIns = true ∧ o.act = .nop ∧ o.th.pc.inIns = false)
  link : ∀ p n, o.act = .link p n → n = th.new ∧ th.pc.inIns = true
  new : o.th.pc.inIns = true →
    (o.th.new = s.L.fresh ∧ th.pc.inIns = false ∧ o.free = none) ∨ (th.pc.inIns = true ∧ o.th.new = th.new ∧ o.free = none)

theorem step_free : StepFreeSO s th (thStep cfg s t th) := by
  unfold thStep
  split
  · exact ⟨Or.inl rfl, by simp, by simp [Th.finish, Pc.inIns]⟩
  · simp only
    split
    · rename_i hpc
      split
      · exact ⟨Or.inl rfl, by simp, by simp [Th.finish, Th.disarm, Pc.inIns]⟩
      · split
        · rename_i hidle
          refine ⟨Or.inl core_free, fun p n h => core_link h, ?_⟩
          intro h
          simp only [Th.disarm] at h
          rw [hidle] at h
          simp [Pc.inIns] at h
        · refine ⟨Or.inl core_free, fun p n h => core_link h, ?_⟩
          intro h
          rcases core_new h with ⟨h1, h2⟩ | ⟨h1, _⟩
          · exact Or.inl ⟨h1, h2, core_free⟩
          · rw [hpc] at h1; simp [Pc.inIns] at h1
    · rename_i hpc
      split
      · -- `key_equal` throws
        refine ⟨?_, by simp, by simp [Th.finish, Th.disarm, Pc.inIns]⟩
        by_cases hf : th.pc = .search ∧ cfg.freeUnlinked = true
        · right
          refine ⟨by simp only [hf, and_self, ite_true], by simp [hf.1, Pc.inIns], rfl, by simp [Th.finish, Th.disarm, Pc.inIns]⟩
        · left
          simp only [hf, ite_false]
      · by_cases hd : dupStep th (thStepCore cfg s t th) = true
        · obtain ⟨hin, hact, hout⟩ := core_dup hd
          refine ⟨Or.inr ⟨by simp only [hd, ite_true], hin, hact, by simp only [after_pc]; exact hout⟩, fun p n h => core_link h, ?_⟩
          intro h
          simp only [after_pc] at h
          rw [hout] at h
          exact absurd h (by simp)
        · have hfree : (if dupStep th (thStepCore cfg s t th) = true then some th.new else none) = (none : Option Node) := by simp [hd]
          refine ⟨Or.inl hfree, fun p n h => core_link h, ?_⟩
          intro h
          simp only [after_pc] at h
          rcases core_new h with ⟨h1, h2⟩ | ⟨h1, h2⟩
          · exact Or.inl ⟨by simp only [after_new]; exact h1, h2, hfree⟩
          · exact Or.inr ⟨h1, by simp only [after_new]; exact h2, hfree⟩

/-! ### the ledger invariant -/

structure FreeInvSO (s : St) : Prop where
  nodup : s.freed.Nodup
  lt : ∀ x ∈ s.freed, x < s.L.fresh
  notin : ∀ x ∈ s.freed, x ∉ s.L.chain
  live : ∀ (t : Tid) (th : Th), s.ths[t]? = some th → th.pc.inIns = true → th.new ∉ s.freed

theorem freeinv_init (cfg : Cfg) (bc : Nat) (progs : List (List Op)) : FreeInvSO (initSt cfg bc progs) := by
  refine ⟨by simp [initSt], by simp [initSt], by simp [initSt], ?_⟩
  intro t th hth
  simp [initSt]

theorem freeinv_step (hI : SInv cfg s) (hF : FreeInvSO s) (t : Tid) : FreeInvSO (step cfg s t) := by
  unfold step
  cases hth : s.ths[t]? with
  | none => simpa using hF
  | some th =>
    simp only
    have sf : StepFreeSO s th (thStep cfg s t th) := step_free
    have so := so_step_ok_throw hI (hI.tinv t th hth)
    have hti := hI.tinv t th hth
    have hfresh : s.L.fresh ≤ (s.L.apply (thStep cfg s t th).act).fresh := fresh_apply
    have hchain : ∀ x, x ∈ (s.L.apply (thStep cfg s t th).act).chain → x ∈ s.L.chain ∨ (x = th.new ∧ th.pc.inIns = true) := by
      intro x hx
      cases hact : (thStep cfg s t th).act with
      | nop => rw [hact] at hx; exact Or.inl hx
      | alloc k t' => rw [hact] at hx; exact Or.inl hx
      | setNext n v => rw [hact] at hx; exact Or.inl hx
      | link p n =>
        rw [hact] at hx
        simp only [LSt.apply, mem_insAfter] at hx
        obtain ⟨h1, h2⟩ := sf.link p n hact
        rcases hx with hx | ⟨hx, _⟩
        · exact Or.inl hx
        · exact Or.inr ⟨by rw [hx, h1], h2⟩
    unfold applyOut
    refine ⟨?_, ?_, ?_, ?_⟩
    · show (match (thStep cfg s t th).free with | none => s.freed | some n => n :: s.freed).Nodup
      rcases sf.free with hfr | ⟨hfr, hin, _, _⟩
      · rw [hfr]; exact hF.nodup
      · rw [hfr]; exact List.nodup_cons.mpr ⟨hF.live t th hth hin, hF.nodup⟩
    · intro x hx
      have hx : x ∈ (match (thStep cfg s t th).free with | none => s.freed | some n => n :: s.freed) := hx
      show x < (s.L.apply (thStep cfg s t th).act).fresh
      rcases sf.free with hfr | ⟨hfr, hin, _, _⟩
      · rw [hfr] at hx; exact Nat.lt_of_lt_of_le (hF.lt x hx) hfresh
      · rw [hfr] at hx
        rcases List.mem_cons.mp hx with he | he
        · rw [he]; exact Nat.lt_of_lt_of_le (insinv_of_inIns hti hin).lt hfresh
        · exact Nat.lt_of_lt_of_le (hF.lt x he) hfresh
    · intro x hx
      have hx : x ∈ (match (thStep cfg s t th).free with | none => s.freed | some n => n :: s.freed) := hx
      show x ∉ (s.L.apply (thStep cfg s t th).act).chain
      rcases sf.free with hfr | ⟨hfr, hin, hact, _⟩
      · rw [hfr] at hx
        intro hm
        rcases hchain x hm with h1 | ⟨h1, h2⟩
        · exact hF.notin x hx h1
        · rw [h1] at hx; exact hF.live t th hth h2 hx
      · rw [hfr] at hx
        rw [hact]
        show x ∉ s.L.chain
        rcases List.mem_cons.mp hx with he | he
        · rw [he]; exact (insinv_of_inIns hti hin).notin
        · exact hF.notin x he
    · intro u thu hu hin
      simp only at hu
      show thu.new ∉ (match (thStep cfg s t th).free with | none => s.freed | some n => n :: s.freed)
      rw [List.getElem?_set] at hu
      by_cases hut : t = u
      · subst hut
        have hlt : t < s.ths.length := by
          rcases List.getElem?_eq_some_iff.mp hth with ⟨hl, _⟩; exact hl
        simp only [hlt, ite_true, Option.some.injEq] at hu
        subst hu
        rcases sf.new hin with ⟨hn, _, hfr⟩ | ⟨hin0, hn, hfr⟩
        · rw [hn, hfr]
          intro hm
          exact absurd (hF.lt _ hm) (Nat.lt_irrefl _)
        · rw [hn, hfr]; exact hF.live t th hth hin0
      · simp only [hut, ite_false] at hu
        have hlive := hF.live u thu hu hin
        rcases sf.free with hfr | ⟨hfr, hin0, _, _⟩
        · rw [hfr]; exact hlive
        · rw [hfr]
          intro hm
          rcases List.mem_cons.mp hm with he | he
          · have o1 := (insinv_of_inIns (hI.tinv u thu hu) hin).own
            have o2 := (insinv_of_inIns hti hin0).own
            rw [he, o2] at o1
            exact hut o1
          · exact hlive he

theorem freeinv_reachable (cfg : Cfg) (bc : Nat) (progs : List (List Op)) (hbc : BcOk bc) (sched : List Tid) :
    SInv cfg ((sys cfg bc progs).run sched) ∧ FreeInvSO ((sys cfg bc progs).run sched) :=
  Sys.inv_run (sys cfg bc progs) (fun s => SInv cfg s ∧ FreeInvSO s) ⟨sinv_init cfg bc progs hbc, freeinv_init cfg bc progs⟩
    (fun s t h => ⟨sinv_step cfg s t h.1, freeinv_step h.1 h.2 t⟩) sched

end SplitOrder
end TbbVerif.C12
